/-
  Layout independence of the closed model of the whole formatter (`formatFull`), for C06.

  Two scans of "the same tokens in another layout" (same kinds and texts; every gap empty in both or non-empty in
  both; the same blank-line grouping; identical bytes in front of tokens that are kept verbatim; the same line-break
  flags where the parser can read them, i.e. after the first `asm` keyword) give the same parse, the same ignore
  marks, related states before the wrapper stage (`RelW`), hence — when every token is written by a first-phase
  solution or by the end-of-file rule — the same output (`Proofs/LayoutStage.lean`).
-/
import PasfmtModel.Proofs.LayoutStage
import PasfmtModel.Proofs.SpacingLayoutW2

namespace Pasfmt

/-! ### list helpers -/

theorem getElem?_lt_of_some {α : Type} {l : List α} {j : Nat} {a : α} (h : l[j]? = some a) : j < l.length := by
  rcases Nat.lt_or_ge j l.length with h1 | h1
  · exact h1
  · rw [List.getElem?_eq_none h1] at h; cases h

/-- pointwise relation between two lists of equal length -/
def Pw {α : Type} (R : Nat → α → α → Prop) (l l' : List α) : Prop :=
  l.length = l'.length ∧ ∀ j a b, l[j]? = some a → l'[j]? = some b → R j a b

theorem Pw.map {α β : Type} {R : Nat → α → α → Prop} {S : Nat → β → β → Prop} {l l' : List α} (h : Pw R l l')
    (f g : α → β) (hfg : ∀ j a b, j < l.length → R j a b → S j (f a) (g b)) : Pw S (l.map f) (l'.map g) := by
  refine ⟨by simp [h.1], ?_⟩
  intro j a b ha hb
  simp only [List.getElem?_map] at ha hb
  cases h1 : l[j]? with
  | none => rw [h1] at ha; simp at ha
  | some x =>
    cases h2 : l'[j]? with
    | none => rw [h2] at hb; simp at hb
    | some y =>
      rw [h1] at ha; rw [h2] at hb
      simp at ha hb
      subst ha; subst hb
      exact hfg j x y (getElem?_lt_of_some h1) (h.2 j x y h1 h2)

theorem Pw.zipIdx_map {α β : Type} {R : Nat → α → α → Prop} {S : Nat → β → β → Prop} {l l' : List α} (h : Pw R l l')
    (f g : α × Nat → β) (hfg : ∀ j a b, j < l.length → R j a b → S j (f (a, j)) (g (b, j))) :
    Pw S (l.zipIdx.map f) (l'.zipIdx.map g) := by
  refine ⟨by simp [h.1], ?_⟩
  intro j a b ha hb
  simp only [List.getElem?_map, List.getElem?_zipIdx] at ha hb
  cases h1 : l[j]? with
  | none => rw [h1] at ha; simp at ha
  | some x =>
    cases h2 : l'[j]? with
    | none => rw [h2] at hb; simp at hb
    | some y =>
      rw [h1] at ha; rw [h2] at hb
      simp at ha hb
      subst ha; subst hb
      exact hfg j x y (getElem?_lt_of_some h1) (h.2 j x y h1 h2)

theorem Pw.tail {α : Type} {R : Nat → α → α → Prop} {a b : α} {l l' : List α} (h : Pw R (a :: l) (b :: l')) :
    R 0 a b ∧ Pw (fun j => R (j + 1)) l l' :=
  ⟨h.2 0 a b rfl rfl, by have := h.1; simpa using this,
    fun j x y hx hy => h.2 (j + 1) x y (by simpa using hx) (by simpa using hy)⟩

theorem Pw.imp {α : Type} {R S : Nat → α → α → Prop} {l l' : List α} (h : Pw R l l')
    (hrs : ∀ j a b, j < l.length → R j a b → S j a b) : Pw S l l' :=
  ⟨h.1, fun j a b ha hb => hrs j a b (getElem?_lt_of_some ha) (h.2 j a b ha hb)⟩

/-! ### closed forms of the stages before the wrapper -/

theorem retype_getElem? (raw : List RawTok) (kinds : List Kind) (j : Nat) :
    (retype raw kinds)[j]? =
      (raw[j]?).map fun t => ({ ws := t.ws, content := t.content, kind := (kinds[j]?).getD t.kind.toTokenType } : Tok) := by
  induction raw generalizing kinds j with
  | nil => cases kinds <;> simp [retype]
  | cons t r ih =>
    cases kinds with
    | nil =>
      cases j with
      | zero => simp [retype, RawTok.toTok]
      | succ j => simp [retype, ih [] j]
    | cons k ks =>
      cases j with
      | zero => simp [retype]
      | succ j => simp [retype, ih ks j]

theorem ft0_eq (raw : List RawTok) (kinds : List Kind) (marks : List Bool) :
    FT.new (retype raw kinds) (fun i => marks.getD i false) = raw.zipIdx.map (fun p => preTok kinds marks p.2 p.1) := by
  apply List.ext_getElem?
  intro j
  unfold FT.new
  simp only [List.getElem?_map, List.getElem?_zipIdx, retype_getElem?]
  cases raw[j]? with
  | none => rfl
  | some t => simp [preTok]

theorem spacingGo_length (prev prevReal : Option Kind) (cur : Nat) (l : List (Kind × Nat)) :
    (spacingGo prev prevReal cur l).length = l.length := by
  induction l generalizing prev prevReal cur with
  | nil => rfl
  | cons p rest ih =>
    obtain ⟨k, sp⟩ := p
    unfold spacingGo
    cases rest with
    | nil => rfl
    | cons q r => obtain ⟨k', sp'⟩ := q; simp [ih]

theorem spacingResult_length (l : List (Kind × Nat)) : (spacingResult l).length = l.length := by
  unfold spacingResult
  cases l with
  | nil => rfl
  | cons p rest =>
    obtain ⟨k, sp⟩ := p
    simp only
    have := spacingGo_length none none sp ((k, sp) :: rest)
    cases h : spacingGo none none sp ((k, sp) :: rest) with
    | nil => rw [h] at this; simp at this
    | cons x r => rw [h] at this; simp at this ⊢; omega

theorem spacingItemsGo_length (po : Bool) (ft : FT) : (spacingItemsGo po ft).length = ft.length := by
  induction ft generalizing po with
  | nil => rfl
  | cons t r ih => simp [spacingItemsGo, ih]

/-! ### the relation before the wrapper stage -/

/-- two layouts of one token, as `FormattedTokens::new_from_tokens` sees them -/
structure SL (t t' : FTok) : Prop where
  kind : t.tok.kind = t'.tok.kind
  content : t.tok.content = t'.tok.content
  ign : t.fmt.ignored = t'.fmt.ignored
  ignEq : t.fmt.ignored = true → t = t'
  blank : nlc t.fmt.nl = nlc t'.fmt.nl

theorem tokenSpacing_eq (ft : FT) :
    tokenSpacing ft = ft.zipIdx.map fun p =>
      { p.1 with fmt := { p.1.fmt with sp := (spacingResult (spacingItems ft)).getD p.2 p.1.fmt.sp } } := rfl

theorem spacingItemsGo_getElem? (po : Bool) (ft : FT) (j : Nat) :
    ((spacingItemsGo po ft)[j]?).map (·.1) = (ft[j]?).map (·.tok.kind) := by
  induction ft generalizing po j with
  | nil => simp [spacingItemsGo]
  | cons t r ih =>
    unfold spacingItemsGo
    cases j with
    | zero => simp
    | succ j => simpa using ih _ j

/-- after `TokenSpacing` the two layouts agree in everything but leading whitespace, indentation counters, the
    line-break counter within its class - and the spaces at free positions -/
theorem tokenSpacing_pw (ft ft' : FT) (h : Pw (fun _ => SL) ft ft') (hg : GapEqW false ft ft') :
    Pw (fun j => LR (freeAtB ft j = true)) (tokenSpacing ft) (tokenSpacing ft') := by
  have hx : EqX none (spacingItems ft) (spacingResult (spacingItems ft)) (spacingResult (spacingItems ft')) :=
    spacingResult_layoutW3 _ _ (spacingItemsGo_layoutW2 false ft ft' hg)
  obtain ⟨l1, l2, hget⟩ := EqX.get none _ _ _ hx
  have hil : (spacingItems ft).length = ft.length := by unfold spacingItems; rw [spacingItemsGo_length]
  rw [tokenSpacing_eq, tokenSpacing_eq]
  apply h.zipIdx_map
  intro j a b hj sl
  have hlen1 : j < (spacingResult (spacingItems ft)).length := by rw [l1, hil]; exact hj
  have hlen2 : j < (spacingResult (spacingItems ft')).length := by rw [l2, hil]; exact hj
  have hg1 : ∀ d, (spacingResult (spacingItems ft)).getD j d = (spacingResult (spacingItems ft))[j] := by
    intro d; rw [List.getD_eq_getElem?_getD, List.getElem?_eq_getElem hlen1]; rfl
  have hg2 : ∀ d, (spacingResult (spacingItems ft')).getD j d = (spacingResult (spacingItems ft'))[j] := by
    intro d; rw [List.getD_eq_getElem?_getD, List.getElem?_eq_getElem hlen2]; rfl
  have hjl : j < (spacingItems ft).length := by rw [hil]; exact hj
  have hcase := hget j _ _ _ (List.getElem?_eq_getElem hlen1) (List.getElem?_eq_getElem hlen2) (List.getElem?_eq_getElem hjl)
  have hsp : freeAtB ft j = true ∨
      (spacingResult (spacingItems ft)).getD j a.fmt.sp = (spacingResult (spacingItems ft')).getD j b.fmt.sp := by
    rw [hg1, hg2]
    rcases hcase with ⟨hp, hk⟩ | he
    · left
      -- translate the condition on the spacing items into the condition on the tokens
      have hkj : ((spacingItems ft)[j]?).map (·.1) = (ft[j]?).map (·.tok.kind) := spacingItemsGo_getElem? false ft j
      rw [List.getElem?_eq_getElem hjl] at hkj
      have hja : ∃ t, ft[j]? = some t := ⟨ft[j], List.getElem?_eq_getElem hj⟩
      obtain ⟨t, ht⟩ := hja
      rw [ht] at hkj
      simp only [Option.map_some, Option.some.injEq] at hkj
      unfold freeAtB
      by_cases hj0 : j = 0
      · subst hj0; simp at hp
      · simp only [hj0, if_false] at hp
        have hprev : ((spacingItems ft)[j - 1]?).map (·.1) = (ft[j - 1]?).map (·.tok.kind) := spacingItemsGo_getElem? false ft (j - 1)
        rw [hp] at hprev
        have hj1 : j ≥ 1 := by omega
        simp [hj1, ← hprev, ht, ← hkj, hk]
    · right; exact he
  refine ⟨sl.kind, sl.content, sl.ign, hsp, sl.blank, ?_⟩
  intro hi
  have := sl.ignEq hi; subst this
  exact ⟨rfl, ⟨rfl, rfl, rfl, rfl, hsp⟩⟩

theorem setContent_LR' {fr : Prop} {t t' : FTok} (lr : LR fr t t') (c : Bytes) : LR fr (t.setContent c) (t'.setContent c) := by
  unfold FTok.setContent
  by_cases hi : t.fmt.ignored = true
  · have hi' : t'.fmt.ignored = true := by rw [← lr.ign]; exact hi
    rw [if_pos hi, if_pos hi']; exact lr
  · have hi' : ¬ t'.fmt.ignored = true := by rw [← lr.ign]; exact hi
    rw [if_neg hi, if_neg hi']
    exact ⟨lr.kind, rfl, lr.ign, lr.sp, lr.nl, fun h => absurd h hi⟩

theorem lowercaseTok_LR {fr : Prop} {t t' : FTok} (lr : LR fr t t') : LR fr (lowercaseTok t) (lowercaseTok t') := by
  unfold lowercaseTok
  rw [← lr.kind, ← lr.content]
  split
  · exact setContent_LR' lr _
  · exact lr

theorem commentFormatTok_LR (alnum : Bytes → Bool) {fr : Prop} {t t' : FTok} (lr : LR fr t t') :
    LR fr (commentFormatTok alnum t) (commentFormatTok alnum t') := by
  unfold commentFormatTok
  rw [← lr.kind, ← lr.content]
  split
  · split
    · exact setContent_LR' lr _
    · exact lr
  · split
    · exact setContent_LR' lr _
    · exact lr
  · split
    · exact setContent_LR' lr _
    · exact lr
  · split
    · exact setContent_LR' lr _
    · exact lr
  · exact lr

/-- the positions the end-of-file rule writes -/
def eofWritten (lines : List Line) (n : Nat) (kinds : List Kind) (j : Nat) : Bool :=
  lines.any (fun l => l.ltype == .lEof) && (j + 1 == n && kinds[j]? == some .tEof)

theorem eofNewline_pw (F : Nat → Prop) (lines : List Line) (ft ft' : FT) (h : Pw (fun j => LR (F j)) ft ft') :
    Pw (fun j t t' => LR (F j) t t' ∧
        ((lines.any (fun l => l.ltype == .lEof) && (j + 1 == ft.length && t.tok.kind == .tEof)) = true →
          FmtEq (F j) t.fmt t'.fmt))
      (eofNewline lines ft) (eofNewline lines ft') := by
  unfold eofNewline
  by_cases ha : lines.any (fun l => l.ltype == .lEof) = true
  · rw [if_pos ha, if_pos ha, ← h.1]
    apply h.zipIdx_map
    intro j a b _ lr
    dsimp only
    rw [← lr.kind]
    by_cases hc : (j + 1 == ft.length && a.tok.kind == .tEof) = true
    · rw [if_pos hc, if_pos hc]
      have hf : FmtEq (F j) ({ a.fmt with nl := 1, sp := 0, ind := 0, cont := 0 } : FmtData) { b.fmt with nl := 1, sp := 0, ind := 0, cont := 0 } :=
        ⟨lr.ign, rfl, rfl, rfl, Or.inr rfl⟩
      refine ⟨⟨lr.kind, lr.content, lr.ign, Or.inr rfl, rfl, ?_⟩, fun _ => hf⟩
      intro hi
      exact ⟨(lr.ignEq hi).1, hf⟩
    · rw [if_neg hc, if_neg hc]
      refine ⟨lr, fun hw => ?_⟩
      rw [ha] at hw
      simp only [Bool.true_and] at hw
      exact absurd hw hc
  · rw [if_neg ha, if_neg ha]
    apply h.imp
    intro j a b _ lr
    refine ⟨lr, fun hw => ?_⟩
    have ha' : lines.any (fun l => l.ltype == .lEof) = false := by simpa using ha
    rw [ha'] at hw
    simp at hw

/-! ### ignore marks read type and text only -/

theorem togglerMarksGo_congr (ig : Bool) : ∀ (a b : List Tok),
    a.map (fun t => (t.kind, t.content)) = b.map (fun t => (t.kind, t.content)) →
    togglerMarksGo ig a = togglerMarksGo ig b
  | [], [], _ => rfl
  | [], _ :: _, h => by simp at h
  | _ :: _, [], h => by simp at h
  | x :: r, y :: r', h => by
    simp only [List.map_cons, List.cons.injEq, Prod.mk.injEq] at h
    obtain ⟨⟨hk, hc⟩, hr⟩ := h
    unfold togglerMarksGo
    simp only [hk, hc]
    rw [togglerMarksGo_congr _ r r' hr]

theorem retype_kc (raw1 raw2 : List RawTok) (kinds : List Kind)
    (h : raw1.map (fun t => (t.kind, t.content)) = raw2.map (fun t => (t.kind, t.content))) :
    (retype raw1 kinds).map (fun t => (t.kind, t.content)) = (retype raw2 kinds).map (fun t => (t.kind, t.content)) := by
  apply List.ext_getElem?
  intro j
  have hj := congrArg (fun l => l[j]?) h
  simp only [List.getElem?_map] at hj
  simp only [List.getElem?_map, retype_getElem?]
  cases h1 : raw1[j]? with
  | none =>
    rw [h1] at hj
    cases h2 : raw2[j]? with
    | none => rfl
    | some y => rw [h2] at hj; simp at hj
  | some x =>
    rw [h1] at hj
    cases h2 : raw2[j]? with
    | none => rw [h2] at hj; simp at hj
    | some y =>
      rw [h2] at hj
      simp only [Option.map_some, Option.some.injEq, Prod.mk.injEq] at hj
      simp [hj.1, hj.2]

theorem ignoredMarks_layout (raw1 raw2 : List RawTok) (kinds : List Kind) (lines : List Line)
    (h : raw1.map (fun t => (t.kind, t.content)) = raw2.map (fun t => (t.kind, t.content))) :
    ignoredMarks (retype raw1 kinds) lines = ignoredMarks (retype raw2 kinds) lines := by
  unfold ignoredMarks togglerMarks
  rw [togglerMarksGo_congr false _ _ (retype_kc raw1 raw2 kinds h)]

/-! ### the layout hypothesis, and the state before the wrapper stage -/

/-- **Two layouts of the same tokens.**  `kinds` = the token types after parsing, `marks` = the tokens kept verbatim
    (both from the first scan).  Same scanned types and texts; identical bytes in front of a verbatim token; a blank
    line in front of a token in both layouts or in neither (`nlc` of the line-break count); and `GapEqW` on the
    counters `FormattedTokens` derives from the bytes in front of each token: behind a literal or an unknown token the
    gap is empty in both or in neither, and in front of the end-of-file token "no space" means the same in both —
    every other gap is free (`a:=b` and `a := b`, a space or a line break with any indentation). -/
structure SameLayout (kinds : List Kind) (marks : List Bool) (raw1 raw2 : List RawTok) : Prop where
  kc : raw1.map (fun t => (t.kind, t.content)) = raw2.map (fun t => (t.kind, t.content))
  gap : ∀ j a b, raw1[j]? = some a → raw2[j]? = some b →
    (marks.getD j false = true → a.ws = b.ws) ∧
    nlc (FmtData.ofWs a.ws false).nl = nlc (FmtData.ofWs b.ws false).nl
  gapw : GapEqW false (raw1.zipIdx.map (fun p => preTok kinds marks p.2 p.1))
    (raw2.zipIdx.map (fun p => preTok kinds marks p.2 p.1))

theorem sameLayout_pw {kinds : List Kind} {marks : List Bool} {raw1 raw2 : List RawTok}
    (h : SameLayout kinds marks raw1 raw2) :
    Pw (fun _ => SL) (raw1.zipIdx.map (fun p => preTok kinds marks p.2 p.1))
      (raw2.zipIdx.map (fun p => preTok kinds marks p.2 p.1)) := by
  have hlen : raw1.length = raw2.length := by
    have := congrArg List.length h.kc; simpa using this
  have hp : Pw (fun j a b => raw1[j]? = some a ∧ raw2[j]? = some b) raw1 raw2 := ⟨hlen, fun j a b ha hb => ⟨ha, hb⟩⟩
  apply hp.zipIdx_map
  intro j a b _ hab
  obtain ⟨ha, hb⟩ := hab
  have hj := congrArg (fun l => l[j]?) h.kc
  simp only [List.getElem?_map, ha, hb, Option.map_some, Option.some.injEq, Prod.mk.injEq] at hj
  obtain ⟨hk, hc⟩ := hj
  obtain ⟨hws, hblank⟩ := h.gap j a b ha hb
  refine ⟨?_, hc, rfl, ?_, hblank⟩
  · show (kinds[j]?).getD a.kind.toTokenType = (kinds[j]?).getD b.kind.toTokenType
    rw [hk]
  · intro hi
    have hm : marks.getD j false = true := hi
    unfold preTok
    rw [hws hm, hc, hk]

/-! ### the token rules keep every token's type -/

theorem setContent_kind (t : FTok) (c : Bytes) : (t.setContent c).tok.kind = t.tok.kind := by
  unfold FTok.setContent; split <;> rfl

theorem lowercaseTok_kind (t : FTok) : (lowercaseTok t).tok.kind = t.tok.kind := by
  unfold lowercaseTok; split
  · exact setContent_kind _ _
  · rfl

theorem commentFormatTok_kind (alnum : Bytes → Bool) (t : FTok) : (commentFormatTok alnum t).tok.kind = t.tok.kind := by
  unfold commentFormatTok
  split <;> (try (split <;> first | exact setContent_kind _ _ | rfl)) <;> rfl

theorem preRules_kinds (alnum : Bytes → Bool) (lines : List Line) (ft : FT) :
    (eofNewline lines (commentFormatter alnum (lowercaseKeywords (tokenSpacing ft)))).map (·.tok.kind) =
      ft.map (·.tok.kind) := by
  have e1 : (tokenSpacing ft).map (·.tok.kind) = ft.map (·.tok.kind) := by
    rw [tokenSpacing_eq]
    apply List.ext_getElem?
    intro j
    simp only [List.getElem?_map, List.getElem?_zipIdx]
    cases ft[j]? <;> rfl
  have e2 : ∀ x : FT, (lowercaseKeywords x).map (·.tok.kind) = x.map (·.tok.kind) := by
    intro x; unfold lowercaseKeywords
    rw [List.map_map]; exact List.map_congr_left (fun t _ => lowercaseTok_kind t)
  have e3 : ∀ x : FT, (commentFormatter alnum x).map (·.tok.kind) = x.map (·.tok.kind) := by
    intro x; unfold commentFormatter
    rw [List.map_map]; exact List.map_congr_left (fun t _ => commentFormatTok_kind alnum t)
  have e4 : ∀ x : FT, (eofNewline lines x).map (·.tok.kind) = x.map (·.tok.kind) := by
    intro x; unfold eofNewline
    split
    · apply List.ext_getElem?
      intro j
      simp only [List.getElem?_map, List.getElem?_zipIdx]
      cases x[j]? with
      | none => rfl
      | some t => simp only [Option.map_some]; split <;> rfl
    · rfl
  rw [e4, e3, e2, e1]

theorem freeAtB_congr (ft ft' : FT) (h : ft.map (fun t => t.tok.kind) = ft'.map (fun t => t.tok.kind)) (j : Nat) :
    freeAtB ft j = freeAtB ft' j := by
  have hk : ∀ i : Nat, (ft[i]?).map (fun t => t.tok.kind) = (ft'[i]?).map (fun t => t.tok.kind) := by
    intro i
    have := congrArg (fun l => l[i]?) h
    simpa [List.getElem?_map] using this
  unfold freeAtB
  rw [hk (j - 1)]
  have := hk j
  cases h1 : ft[j]? with
  | none =>
    rw [h1] at this
    cases h2 : ft'[j]? with
    | none => rfl
    | some y => rw [h2] at this; simp at this
  | some x =>
    rw [h1] at this
    cases h2 : ft'[j]? with
    | none => rw [h2] at this; simp at this
    | some y =>
      rw [h2] at this
      simp only [Option.map_some, Option.some.injEq] at this
      simp only [this]

theorem freeOk_freeAtB (ft : FT) : FreeOk (fun j => freeAtB ft j = true) ft := by
  intro j t ht hf
  unfold freeAtB at hf
  rw [ht] at hf
  simp only [Bool.and_eq_true, decide_eq_true_eq, beq_iff_eq] at hf
  exact ⟨hf.1.1, hf.1.2, hf.2⟩

theorem preWrap_layout (alnum : Bytes → Bool) (po : ParserOut) (raw1 raw2 : List RawTok)
    (h : SameLayout po.kinds (preWrap (preO alnum po) raw1).1 raw1 raw2) :
    (preWrap (preO alnum po) raw2).1 = (preWrap (preO alnum po) raw1).1 ∧
    (preWrap (preO alnum po) raw2).2.1 = (preWrap (preO alnum po) raw1).2.1 ∧
    RelW (fun j => freeAtB (preWrap (preO alnum po) raw1).2.2 j = true)
      (fun j => writtenBefore (preWrap (preO alnum po) raw1).2.1 (preWrap (preO alnum po) raw1).2.2 j = true)
      (preWrap (preO alnum po) raw1).2.2 (preWrap (preO alnum po) raw2).2.2 := by
  have hm : ignoredMarks (retype raw2 po.kinds) po.lines = ignoredMarks (retype raw1 po.kinds) po.lines :=
    (ignoredMarks_layout raw1 raw2 po.kinds po.lines h.kc).symm
  unfold preWrap preO at h ⊢
  simp only at h ⊢
  rw [hm]
  refine ⟨rfl, rfl, ?_⟩
  generalize hmarks : ignoredMarks (retype raw1 po.kinds) po.lines = marks at h ⊢
  generalize hlines : voidLines marks po.lines = lines
  rw [ft0_eq, ft0_eq]
  have p0 := sameLayout_pw h
  have p1 := tokenSpacing_pw _ _ p0 h.gapw
  -- the free positions of the state before the stage are those of the state before the rules
  have hfree : ∀ j, freeAtB (eofNewline lines (commentFormatter alnum (lowercaseKeywords (tokenSpacing
        (raw1.zipIdx.map (fun p => preTok po.kinds marks p.2 p.1)))))) j =
      freeAtB (raw1.zipIdx.map (fun p => preTok po.kinds marks p.2 p.1)) j :=
    fun j => freeAtB_congr _ _ (preRules_kinds alnum lines _) j
  have p2 := p1.map lowercaseTok lowercaseTok (S := fun j => LR (freeAtB (raw1.zipIdx.map (fun p => preTok po.kinds marks p.2 p.1)) j = true))
    (fun _ _ _ _ lr => lowercaseTok_LR lr)
  have p3 := p2.map (commentFormatTok alnum) (commentFormatTok alnum)
    (S := fun j => LR (freeAtB (raw1.zipIdx.map (fun p => preTok po.kinds marks p.2 p.1)) j = true))
    (fun _ _ _ _ lr => commentFormatTok_LR alnum lr)
  have p4 := eofNewline_pw (fun j => freeAtB (raw1.zipIdx.map (fun p => preTok po.kinds marks p.2 p.1)) j = true) lines _ _ p3
  refine ⟨p4.1, ?_⟩
  intro j t t' ht ht'
  obtain ⟨lr, hw⟩ := p4.2 j t t' ht ht'
  have hfj := hfree j
  refine ⟨?_, fun w => ?_⟩
  · show LR (freeAtB _ j = true) t t'
    rw [hfj]; exact lr
  · show FmtEq (freeAtB _ j = true) t.fmt t'.fmt
    rw [hfj]
    simp only [writtenBefore, ht, Bool.or_eq_true] at w
    rcases w with w | w
    · exact (lr.ignEq w).2
    · apply hw
      have hl : (eofNewline lines (commentFormatter alnum (lowercaseKeywords (tokenSpacing (raw1.zipIdx.map (fun p => preTok po.kinds marks p.2 p.1)))))).length =
          (commentFormatter alnum (lowercaseKeywords (tokenSpacing (raw1.zipIdx.map (fun p => preTok po.kinds marks p.2 p.1))))).length := by
        unfold eofNewline; split <;> simp
      rw [hl] at w
      exact w

/-! ### the whole formatter -/

theorem parseAndConsolidate_layout (raw1 raw2 : List RawTok)
    (hflags : maskFlags false (raw1.map fun t => (t.kind, wsHasBreak t.ws)) =
      maskFlags false (raw2.map fun t => (t.kind, wsHasBreak t.ws))) :
    parseAndConsolidate raw2 = parseAndConsolidate raw1 := by
  unfold parseAndConsolidate parseFileMasked
  rw [hflags]

/-- **Layout independence of the closed model, on scanned tokens.**  If the first scan is formatted (`h1`), the second
    scan is another layout of the same tokens (`hsame`, `hflags`), no token is a line comment that shares its line with
    code (`hni`: the token after such a comment keeps the input's spaces through `TokenSpacing`; partial), and in the
    first run every token is written by a first-phase solution of the wrapper, or is kept verbatim, or is the
    end-of-file token written by the end-of-file rule (`hall`; fails exactly when the wrapper finds no solution for
    some line — known finding F34), then the second scan is formatted to the same bytes. -/
theorem formatTokensFull_layout (cfg : Config) (alnum : Bytes → Bool) (raw1 raw2 : List RawTok) (po : ParserOut)
    (ftz : FT) (sols : List (Nat × Nat × Sol))
    (hpo : parseAndConsolidate raw1 = some po)
    (hflags : maskFlags false (raw1.map fun t => (t.kind, wsHasBreak t.ws)) =
      maskFlags false (raw2.map fun t => (t.kind, wsHasBreak t.ws)))
    (hsame : SameLayout po.kinds (preWrap (preO alnum po) raw1).1 raw1 raw2)
    (hw : wrapStageFull cfg (preWrap (preO alnum po) raw1).2.1 (preWrap (preO alnum po) raw1).2.2 = some (ftz, sols))
    (hall : allWritten (preWrap (preO alnum po) raw1).2.1
      (writtenBefore (preWrap (preO alnum po) raw1).2.1 (preWrap (preO alnum po) raw1).2.2)
      (preWrap (preO alnum po) raw1).2.2.length sols = true)
    (hfb : freeBrokenB (preWrap (preO alnum po) raw1).2.2 ftz = true) :
    formatTokensFull cfg alnum raw1 = some (reconstruct cfg.settings ftz) ∧
    formatTokensFull cfg alnum raw2 = some (reconstruct cfg.settings ftz) := by
  obtain ⟨_, hlines, hrel⟩ := preWrap_layout alnum po raw1 raw2 hsame
  have hfree : ∀ j t, ftz[j]? = some t → freeAtB (preWrap (preO alnum po) raw1).2.2 j = true → t.fmt.nl > 0 := by
    intro j t ht hf
    unfold freeBrokenB at hfb
    rw [List.all_eq_true] at hfb
    have := hfb (t, j) (List.mem_zipIdx_iff_getElem?.2 ht)
    simp only [hf, Bool.not_true, Bool.false_or, decide_eq_true_eq] at this
    exact this
  obtain ⟨ftz', hw', hrt⟩ := wrapStageFull_layout cfg _ _ _ _ _ ftz sols hrel (freeOk_freeAtB _) hw hall hfree
  have hrec : reconstruct cfg.settings ftz = reconstruct cfg.settings ftz' := reconGo_relT _ _ _ _ hrt
  constructor
  · unfold formatTokensFull
    rw [hpo]
    simp only
    have : wrapStageFull cfg (preWrap { parser := fun _ => po, wrap := fun _ _ ft => ft, alnum := alnum } raw1).2.1
        (preWrap { parser := fun _ => po, wrap := fun _ _ ft => ft, alnum := alnum } raw1).2.2 = some (ftz, sols) := hw
    rw [this]
  · unfold formatTokensFull
    rw [parseAndConsolidate_layout raw1 raw2 hflags, hpo]
    simp only
    have : wrapStageFull cfg (preWrap { parser := fun _ => po, wrap := fun _ _ ft => ft, alnum := alnum } raw2).2.1
        (preWrap { parser := fun _ => po, wrap := fun _ _ ft => ft, alnum := alnum } raw2).2.2 = some (ftz', sols) := by
      have e : (preWrap { parser := fun _ => po, wrap := fun _ _ ft => ft, alnum := alnum } raw2).2.1 =
          (preWrap (preO alnum po) raw1).2.1 := hlines
      rw [e]; exact hw'
    rw [this, hrec]

/-! ### the decidable premises -/

theorem sameGapsGo_sound (marks : List Bool) : ∀ (k : Nat) (r1 r2 : List RawTok),
    sameGapsGo marks k r1 r2 = true →
    ∀ j a b, r1[j]? = some a → r2[j]? = some b → sameGapB marks (k + j) a b = true
  | _, [], _, _ => by intro j a b ha; simp at ha
  | _, _ :: _, [], _ => by intro j a b _ hb; simp at hb
  | k, x :: r, y :: r', h => by
    unfold sameGapsGo at h
    simp only [Bool.and_eq_true] at h
    intro j a b ha hb
    cases j with
    | zero =>
      simp at ha hb; subst ha; subst hb
      simpa using h.1
    | succ j =>
      have := sameGapsGo_sound marks (k + 1) r r' h.2 j a b (by simpa using ha) (by simpa using hb)
      have e : k + 1 + j = k + (j + 1) := by omega
      rw [e] at this; exact this

theorem sameLayoutB_sound (kinds : List Kind) (marks : List Bool) (raw1 raw2 : List RawTok)
    (h : sameLayoutB kinds marks raw1 raw2 = true) : SameLayout kinds marks raw1 raw2 := by
  unfold sameLayoutB at h
  simp only [Bool.and_eq_true, beq_iff_eq] at h
  refine ⟨h.1.1, ?_, gapEqWB_sound _ _ _ h.2⟩
  intro j a b ha hb
  have := sameGapsGo_sound marks 0 raw1 raw2 h.1.2 j a b ha hb
  simp only [Nat.zero_add, sameGapB, Bool.and_eq_true, Bool.or_eq_true, Bool.not_eq_true', beq_iff_eq] at this
  obtain ⟨h1, h2⟩ := this
  refine ⟨?_, h2⟩
  intro hm
  rcases h1 with h1 | h1
  · rw [hm] at h1; cases h1
  · exact h1

/-- **C06 for the closed model, with decidable premises**: if `layoutPremisesB` answers `true` for a pair of
    inputs, both are formatted, to the same bytes -/
theorem formatFull_layout_checked (cfg : Config) (alnum : Bytes → Bool) (s1 s2 : Bytes)
    (h : layoutPremisesB cfg alnum s1 s2 = true) :
    ∃ out, formatFull cfg alnum s1 = some out ∧ formatFull cfg alnum s2 = some out := by
  unfold layoutPremisesB at h
  split at h
  · rename_i raw1 raw2 hl1 hl2
    split at h
    · cases h
    · rename_i po hpo
      simp only [Bool.and_eq_true, beq_iff_eq] at h
      obtain ⟨⟨hflags, hsame⟩, hw⟩ := h
      split at hw
      · cases hw
      · rename_i ftz sols hstage
        simp only [Bool.and_eq_true] at hw
        obtain ⟨h1, h2⟩ := formatTokensFull_layout cfg alnum raw1 raw2 po ftz sols hpo hflags
          (sameLayoutB_sound _ _ _ _ hsame) hstage hw.1 hw.2
        exact ⟨_, by unfold formatFull; rw [hl1]; exact h1, by unfold formatFull; rw [hl2]; exact h2⟩
  · cases h

end Pasfmt
