/-
  C15, second batch of lemmas on the exact cursor model (`Model/Cursor.lean`):
  * the input side (`processCursor`) for a cursor inside / at the end of the text of a token,
  * the in-bounds property of `relocate`,
  * the multi-line position form.
  All statements are for arbitrary token lists (induction), nothing is sampled.
-/
import PasfmtModel.Proofs.CursorProps

namespace Pasfmt

/-! ### 1. input side: which token a cursor is attached to -/

/-- `processCursorGo` walks over a whole prefix `pre` when the remaining offset is strictly larger
    than the prefix (`0 < r`) -/
theorem processCursorGo_skip (pre : List RawTok) (idx r : Nat) (seen rest : List RawTok) (hr : 0 < r) :
    processCursorGo idx ((pre.map RawTok.strLen).sum + r) seen (pre ++ rest)
      = processCursorGo (idx + pre.length) r (pre.reverse ++ seen) rest := by
  induction pre generalizing idx seen with
  | nil => simp
  | cons x p ih =>
    simp only [List.map_cons, List.sum_cons, List.cons_append]
    rw [processCursorGo, if_neg (by omega)]
    have e : x.strLen + (p.map RawTok.strLen).sum + r - x.strLen = (p.map RawTok.strLen).sum + r := by omega
    rw [e, ih]
    simp only [List.length_cons, List.reverse_cons, List.append_assoc, List.singleton_append]
    congr 1; omega

theorem raw_split (raw : List RawTok) (k : Nat) (t : RawTok) (hk : raw[k]? = some t) :
    raw = raw.take k ++ t :: raw.drop (k + 1) ∧ (raw.take k).length = k := by
  obtain ⟨hlt, hget⟩ := List.getElem?_eq_some_iff.mp hk
  refine ⟨?_, by simp; omega⟩
  rw [← hget, List.getElem_cons_drop, List.take_append_drop]

/-- the walk reaches token `k` with the offset relative to the start of its whitespace, provided
    that offset is positive or `k = 0` (otherwise the cursor sticks to an earlier token) -/
theorem processCursorGo_reach (raw : List RawTok) (k : Nat) (t : RawTok) (r : Nat)
    (hk : raw[k]? = some t) (hfirst : 0 < r ∨ k = 0) :
    processCursorGo 0 (((raw.take k).map RawTok.strLen).sum + r) [] raw
      = processCursorGo k r (raw.take k).reverse (t :: raw.drop (k + 1)) := by
  obtain ⟨hsplit, hlen⟩ := raw_split raw k t hk
  rcases hfirst with hr | hk0
  · have := processCursorGo_skip (raw.take k) 0 r [] (t :: raw.drop (k + 1)) hr
    rw [← hsplit] at this
    rw [this, hlen]; simp
  · subst hk0
    simp only [List.take_zero, List.map_nil, List.sum_nil, Nat.zero_add, List.reverse_nil]
    conv => lhs; rw [hsplit]
    simp

theorem processCursorGo_here_content (idx : Nat) (seen rest : List RawTok) (t : RawTok) (o : Nat)
    (hm : isMultilineRawKind t.kind = false) (ho : o ≤ t.content.length) :
    processCursorGo idx (t.ws.length + o) seen (t :: rest)
      = some { tokIdx := idx, pos := .content (asU32 o) } := by
  rw [processCursorGo, if_pos (by unfold RawTok.strLen; omega), if_pos (by omega)]
  simp [hm]

theorem processCursorGo_here_multiline (idx : Nat) (seen rest : List RawTok) (t : RawTok) (o : Nat)
    (hm : isMultilineRawKind t.kind = true) (ho : o ≤ t.content.length) :
    processCursorGo idx (t.ws.length + o) seen (t :: rest)
      = some { tokIdx := idx,
               pos := .multiline
                 (asU16 (match findByte 0x0A (t.content.drop o) with
                         | some p => p | none => (t.content.drop o).length))
                 (asU16 (countByte 0x0A (t.content.drop o))) } := by
  rw [processCursorGo, if_pos (by unfold RawTok.strLen; omega), if_pos (by omega)]
  simp only [hm, if_true, Nat.add_sub_cancel_left]
  rfl

/-- **input side.**  A cursor `o` bytes into the text of the single-line token `k`
    (`o = |text|` = just behind it) is attached to token `k` at content offset `o`,
    provided `0 < o`, or token `k` has leading whitespace, or `k = 0`. -/
theorem processCursor_in_token (raw : List RawTok) (k : Nat) (t : RawTok) (o : Nat)
    (hk : raw[k]? = some t) (hm : isMultilineRawKind t.kind = false)
    (ho : o ≤ t.content.length) (h32 : o < 4294967296)
    (hfirst : 0 < o ∨ 0 < t.ws.length ∨ k = 0) :
    processCursor raw (((raw.take k).map RawTok.strLen).sum + t.ws.length + o)
      = { tokIdx := k, pos := .content o } := by
  unfold processCursor
  rw [Nat.add_assoc, processCursorGo_reach raw k t (t.ws.length + o) hk (by omega),
      processCursorGo_here_content _ _ _ t o hm ho]
  simp [asU32, Nat.mod_eq_of_lt h32]

/-- the excluded case of `processCursor_in_token`: a cursor exactly at the start of the text of
    token `k+1`, which has no leading whitespace, is the cursor at the very end of the text of
    token `k`, and it is attached to token `k` ("sticks to the previous token") -/
theorem processCursor_at_token_start_sticks (raw : List RawTok) (k : Nat) (t t' : RawTok)
    (hk : raw[k]? = some t) (_hk' : raw[k + 1]? = some t') (hws : t'.ws = [])
    (hm : isMultilineRawKind t.kind = false) (h32 : t.content.length < 4294967296)
    (hfirst : 0 < t.strLen ∨ k = 0) :
    processCursor raw (((raw.take (k + 1)).map RawTok.strLen).sum + t'.ws.length + 0)
      = { tokIdx := k, pos := .content t.content.length } := by
  have hsum : ((raw.take (k + 1)).map RawTok.strLen).sum + t'.ws.length + 0
      = ((raw.take k).map RawTok.strLen).sum + t.ws.length + t.content.length := by
    obtain ⟨hlt, hget⟩ := List.getElem?_eq_some_iff.mp hk
    rw [List.take_succ_eq_append_getElem hlt, hget, hws]
    simp [RawTok.strLen]; omega
  rw [hsum]
  exact processCursor_in_token raw k t t.content.length hk hm (Nat.le_refl _) h32
    (by unfold RawTok.strLen at hfirst; omega)

/-! ### 3. reported cursors are inside the output -/

theorem asU32_le (n : Nat) : asU32 n ≤ n := Nat.mod_le _ _

theorem offsetForToken_ge_length (S : Settings) (ft : FT) (k : Nat) (hk : ft.length ≤ k) :
    offsetForToken S ft k = offsetForToken S ft ft.length := by
  induction ft generalizing k with
  | nil => simp [offsetForToken]
  | cons x r ih =>
    cases k with
    | zero => simp at hk
    | succ j =>
      simp only [List.length_cons] at hk ⊢
      rw [offsetForToken, offsetForToken, ih j (by omega)]

/-- the text of token `k` ends inside the output -/
theorem offset_add_content_le (S : Settings) (ft : FT) (mb : Bool) (k : Nat) (t : FTok)
    (hk : ft[k]? = some t) (hsn : noSafetyNetGo mb ft = true) :
    offsetForToken S ft k + t.tok.content.length ≤ (reconGo S mb ft).length := by
  obtain ⟨A, B, hAB, hA⟩ := offset_for_token_spec S ft mb k t hk hsn
  rw [hAB, ← hA]; simp

theorem gapOf_length_ge (S : Settings) (t : FTok) (mb : Bool) : wsLen S t ≤ (gapOf S t mb).length := by
  unfold gapOf wsLen nonbreakingWsLen
  by_cases hig : t.fmt.ignored = true
  · simp only [hig, if_true]; simp
  · simp only [hig]
    simp only [Bool.false_eq_true, if_false, List.length_append, replicateBytes_length, List.length_replicate]
    have h1 : t.fmt.nl ≤ (if (mb && t.fmt.nl == 0 && !(t.tok.kind == .tEof)) = true then 1 else t.fmt.nl) := by
      split
      · rename_i h; simp at h; omega
      · exact Nat.le_refl _
    have h2 := Nat.mul_le_mul_right S.nlStr.length h1
    omega

/-- the text of token `k` ends inside the output (with or without safety-net newlines) -/
theorem offset_add_content_le' (S : Settings) (ft : FT) (mb : Bool) (k : Nat) (t : FTok)
    (hk : ft[k]? = some t) :
    offsetForToken S ft k + t.tok.content.length ≤ (reconGo S mb ft).length := by
  induction ft generalizing mb k with
  | nil => simp at hk
  | cons x r ih =>
    have hg := gapOf_length_ge S x mb
    cases k with
    | zero =>
      simp at hk; subst hk
      rw [reconGo, offsetForToken]; simp only [List.length_append]; omega
    | succ j =>
      simp at hk
      have := ih (isSingleLineComment x.tok.kind) j hk
      rw [reconGo, offsetForToken]; simp only [List.length_append]; omega

theorem offset_length_le (S : Settings) (ft : FT) (mb : Bool) :
    offsetForToken S ft ft.length ≤ (reconGo S mb ft).length := by
  induction ft generalizing mb with
  | nil => simp [offsetForToken]
  | cons x r ih =>
    have hg := gapOf_length_ge S x mb
    have := ih (isSingleLineComment x.tok.kind)
    rw [reconGo, List.length_cons, offsetForToken]; simp only [List.length_append]; omega
/-- hypothesis of the whitespace case: for an ignored token the newline counter, rendered with the
    configured line ending, is not longer than the verbatim whitespace -/
def ignoredNlFits (S : Settings) (t : FTok) : Prop :=
  t.fmt.ignored = true → S.nlStr.length * t.fmt.nl ≤ t.tok.ws.length

theorem ignoredNlFits_of_not_ignored (S : Settings) (t : FTok) (h : t.fmt.ignored = false) :
    ignoredNlFits S t := by
  intro h'; rw [h] at h'; cases h'

theorem countByte_le_length (c : UInt8) (s : Bytes) : countByte c s ≤ s.length := by
  unfold countByte; exact List.length_filter_le _ _

/-- it holds for the counters computed from the whitespace (`FormattingData::from`) when the
    configured line ending is one byte long (`\n`) -/
theorem ignoredNlFits_ofWs_lf (S : Settings) (t : FTok) (hS : S.nlStr.length = 1)
    (hf : t.fmt.nl = u16sat (countByte 0x0A t.tok.ws)) : ignoredNlFits S t := by
  intro _
  have := countByte_le_length 0x0A t.tok.ws
  rw [hS, hf]; unfold u16sat; omega

/-! unfolding of `relocate` for an existing token, one lemma per position form -/

theorem relocate_content_eq (S : Settings) (ft : FT) (idx o : Nat) (t : FTok) (hk : ft[idx]? = some t) :
    relocate S ft { tokIdx := idx, pos := .content o }
      = some (asU32 (asU32 (offsetForToken S ft idx) + min o (asU32 t.tok.content.length))) := by
  unfold relocate; simp only [hk]

theorem relocate_multiline_eq (S : Settings) (ft : FT) (idx rc nl : Nat) (t : FTok)
    (hk : ft[idx]? = some t) :
    relocate S ft { tokIdx := idx, pos := .multiline rc nl }
      = (checkedSub (offsetForToken S ft idx + t.tok.content.length)
          (lastPiecesLen t.tok.content nl + rc)).map asU32 := by
  unfold relocate; simp only [hk]

theorem relocate_whitespace_eq (S : Settings) (ft : FT) (idx c n : Nat) (t : FTok)
    (hk : ft[idx]? = some t) :
    relocate S ft { tokIdx := idx, pos := .whitespace c n }
      = (if min n t.fmt.nl > 0 then
        let linesBack := if t.fmt.nl ≤ n && t.fmt.nl > 1 then min n t.fmt.nl - 1 else min n t.fmt.nl
        (checkedSub (offsetForToken S ft idx + S.nlStr.length * (t.fmt.nl - linesBack)) (wsLen S t)).map asU32
      else
        let colEnd := colEndPost S ((ft.take (idx + 1)).reverse)
        match checkedSub colEnd t.tok.content.length with
        | none => none
        | some colStart =>
          match checkedSub colStart (nonbreakingWsLen S t).len with
          | none => none
          | some colWsStart =>
            let clamped := max colWsStart (min c colStart)
            (checkedSub (offsetForToken S ft idx) (colStart - clamped)).map asU32) := by
  unfold relocate; simp only [hk]; rfl

theorem nl_le_wsLen (S : Settings) (t : FTok) (hfit : ignoredNlFits S t) :
    S.nlStr.length * t.fmt.nl ≤ wsLen S t := by
  unfold wsLen
  by_cases hi : t.fmt.ignored = true
  · simp only [hi, if_true]; exact hfit hi
  · simp only [hi]
    rw [Nat.mul_comm]
    exact Nat.le_add_left _ _

theorem nonbreaking_le_wsLen (S : Settings) (t : FTok) : (nonbreakingWsLen S t).len ≤ wsLen S t := by
  unfold wsLen nonbreakingWsLen
  by_cases hi : t.fmt.ignored = true
  · simp only [hi, if_true]
    split <;> simp
  · simp only [hi]; simp

/-- value of a whitespace cursor before the `u32` cast: between the start of the gap and the start
    of the token's text -/
theorem relocate_whitespace_pre (S : Settings) (ft : FT) (idx c n : Nat) (t : FTok) (r : Nat)
    (hk : ft[idx]? = some t) (hfit : ignoredNlFits S t)
    (h : relocate S ft { tokIdx := idx, pos := .whitespace c n } = some r) :
    ∃ v, r = asU32 v ∧ v ≤ offsetForToken S ft idx ∧ offsetForToken S ft idx ≤ v + wsLen S t := by
  rw [relocate_whitespace_eq S ft idx c n t hk] at h
  have hnb := nonbreaking_le_wsLen S t
  have hws := nl_le_wsLen S t hfit
  split at h
  · simp only [checkedSub] at h
    generalize hlb : (if (decide (t.fmt.nl ≤ n) && decide (t.fmt.nl > 1)) = true
        then min n t.fmt.nl - 1 else min n t.fmt.nl) = lb at h
    have hmul : S.nlStr.length * (t.fmt.nl - lb) ≤ S.nlStr.length * t.fmt.nl :=
      Nat.mul_le_mul_left _ (Nat.sub_le _ _)
    split at h
    · simp only [Option.map_some, Option.some.injEq] at h
      exact ⟨_, h.symm, by omega, by omega⟩
    · simp at h
  · simp only [checkedSub] at h
    split at h
    · simp at h
    · rename_i colStart hcs
      split at h
      · simp at h
      · rename_i colWsStart hcws
        split at h
        · simp only [Option.map_some, Option.some.injEq] at h
          split at hcws
          · simp only [Option.some.injEq] at hcws
            exact ⟨_, h.symm, by omega, by omega⟩
          · simp at hcws
        · simp at h

/-- a cursor attached to an existing token `t` is never reported behind the end of the text of `t`
    (for the whitespace form: never behind the start of that text) -/
theorem relocate_le_token_end (S : Settings) (ft : FT) (ic : ICursor) (t : FTok) (r : Nat)
    (hk : ft[ic.tokIdx]? = some t)
    (hign : ∀ c n, ic.pos = .whitespace c n → ignoredNlFits S t)
    (h : relocate S ft ic = some r) :
    r ≤ offsetForToken S ft ic.tokIdx + t.tok.content.length := by
  obtain ⟨idx, pos⟩ := ic
  simp only at h hign hk ⊢
  cases pos with
  | content o =>
    rw [relocate_content_eq S ft idx o t hk] at h
    simp only [Option.some.injEq] at h
    subst h
    refine Nat.le_trans (asU32_le _) ?_
    have h1 := asU32_le (offsetForToken S ft idx)
    have h2 := asU32_le t.tok.content.length
    omega
  | multiline rc nl =>
    rw [relocate_multiline_eq S ft idx rc nl t hk] at h
    simp only [checkedSub] at h
    split at h
    · simp only [Option.map_some, Option.some.injEq] at h
      subst h
      refine Nat.le_trans (asU32_le _) ?_
      omega
    · simp at h
  | whitespace c n =>
    obtain ⟨v, hv, hle, _⟩ := relocate_whitespace_pre S ft idx c n t r hk (hign c n rfl) h
    have := asU32_le v
    omega

/-- a cursor in the whitespace in front of token `t` is reported inside the new gap in front of `t`:
    not behind the start of the text of `t`, and not more than the gap's length before it -/
theorem relocate_whitespace_in_gap (S : Settings) (ft : FT) (idx c n : Nat) (t : FTok) (r : Nat)
    (hk : ft[idx]? = some t) (hfit : ignoredNlFits S t)
    (hsmall : offsetForToken S ft idx < 4294967296)
    (h : relocate S ft { tokIdx := idx, pos := .whitespace c n } = some r) :
    r ≤ offsetForToken S ft idx ∧ offsetForToken S ft idx ≤ r + wsLen S t := by
  obtain ⟨v, hv, hle, hge⟩ := relocate_whitespace_pre S ft idx c n t r hk hfit h
  rw [asU32, Nat.mod_eq_of_lt (by omega)] at hv
  omega

/-- **in bounds.**  Every reported cursor lies within the output (with or without safety-net
    newlines), under two side conditions: (`heof`) the token index exists or the last token has
    empty text (it is the end-of-file token), and (`hign`) a cursor in the whitespace of an
    *ignored* token meets `ignoredNlFits`. -/
theorem relocate_in_bounds (S : Settings) (ft : FT) (ic : ICursor) (r : Nat)
    (heof : ic.tokIdx < ft.length ∨ ∀ last, ft.getLast? = some last → last.tok.content = [])
    (hign : ∀ t c n, ft[ic.tokIdx]? = some t → ic.pos = .whitespace c n → ignoredNlFits S t)
    (h : relocate S ft ic = some r) :
    r ≤ (reconstruct S ft).length := by
  cases hk : ft[ic.tokIdx]? with
  | some t =>
    have h1 := relocate_le_token_end S ft ic t r hk (fun c n hp => hign t c n hk hp) h
    have h2 := offset_add_content_le' S ft false ic.tokIdx t hk
    unfold reconstruct; omega
  | none =>
    have hge : ft.length ≤ ic.tokIdx := by
      rcases Nat.lt_or_ge ic.tokIdx ft.length with hlt | hge
      · rw [List.getElem?_eq_getElem hlt] at hk; cases hk
      · exact hge
    have hlastc : ∀ last, ft.getLast? = some last → last.tok.content = [] := by
      rcases heof with hlt | hl
      · omega
      · exact hl
    unfold relocate at h
    simp only [hk] at h
    cases hl : ft.getLast? with
    | none =>
      simp only [hl, Option.some.injEq] at h
      subst h; exact Nat.zero_le _
    | some last =>
      simp only [hl, Option.some.injEq] at h
      subst h
      rw [hlastc last hl, offsetForToken_ge_length S ft _ hge]
      simp only [List.length_nil, asU32, Nat.zero_mod, Nat.min_self, Nat.add_zero, Nat.mod_mod]
      unfold reconstruct
      exact Nat.le_trans (Nat.mod_le _ _) (offset_length_le S ft false)

/-! ### 4. the multi-line position form -/

/-- length of the first `\n`-separated piece (`split('\n').next()`) -/
def firstLen (s : Bytes) : Nat := match findByte 0x0A s with | some p => p | none => s.length

def piecesSum (l : List Bytes) : Nat := (l.map (fun p => p.length + 1)).sum

theorem lastPiecesLen_eq (s : Bytes) (k : Nat) :
    lastPiecesLen s k = piecesSum (((s.splitOn 0x0A).reverse).take k) := rfl

theorem firstLen_cons (b : UInt8) (s : Bytes) :
    firstLen (b :: s) = if b == 0x0A then 0 else firstLen s + 1 := by
  unfold firstLen
  rw [findByte]
  by_cases hb : (b == 0x0A) = true
  · simp only [hb, if_true]
  · simp only [hb]
    cases findByte 0x0A s <;> simp

theorem countByte_cons (c b : UInt8) (s : Bytes) :
    countByte c (b :: s) = (if b == c then 1 else 0) + countByte c s := by
  unfold countByte
  rw [List.filter_cons]
  split <;> simp <;> omega

theorem splitOn_length (s : Bytes) : (s.splitOn 0x0A).length = countByte 0x0A s + 1 := by
  induction s with
  | nil => simp [countByte]
  | cons b r ih =>
    rw [List.splitOn_cons_eq_if_modifyHead, countByte_cons]
    split
    · simp [ih]; omega
    · simp [ih]

theorem piecesSum_modifyHead (b : UInt8) (l : List Bytes) (hl : l ≠ []) :
    piecesSum (l.modifyHead (List.cons b)) = piecesSum l + 1 := by
  cases l with
  | nil => exact absurd rfl hl
  | cons h tl => simp [piecesSum]; omega

theorem splitOn_piecesSum (s : Bytes) : piecesSum (s.splitOn 0x0A) = s.length + 1 := by
  induction s with
  | nil => simp [piecesSum]
  | cons b r ih =>
    rw [List.splitOn_cons_eq_if_modifyHead]
    split
    · simp only [piecesSum, List.map_cons, List.sum_cons, List.length_nil, List.length_cons] at ih ⊢
      omega
    · rw [piecesSum_modifyHead b _ (List.splitOn_ne_nil _ _), ih]; simp

theorem splitOn_head (s : Bytes) : ∃ h tl, s.splitOn 0x0A = h :: tl ∧ h.length = firstLen s := by
  induction s with
  | nil => exact ⟨[], [], by simp, rfl⟩
  | cons b r ih =>
    obtain ⟨h, tl, he, hl⟩ := ih
    rw [List.splitOn_cons_eq_if_modifyHead, firstLen_cons]
    split
    · exact ⟨[], _, rfl, rfl⟩
    · exact ⟨b :: h, tl, by rw [he]; rfl, by simp [hl]⟩

theorem take_reverse_cons {α} (x : α) (l : List α) (n : Nat) (hn : n ≤ l.length) :
    ((x :: l).reverse).take n = l.reverse.take n := by
  rw [List.reverse_cons, List.take_append_of_le_length (by simpa using hn)]

theorem take_reverse_modifyHead {α} (f : α → α) (l : List α) (n : Nat) (hn : n + 1 ≤ l.length) :
    ((l.modifyHead f).reverse).take n = l.reverse.take n := by
  cases l with
  | nil => simp at hn
  | cons h tl =>
    simp only [List.length_cons] at hn
    rw [List.modifyHead_cons, take_reverse_cons _ _ _ (by omega), take_reverse_cons _ _ _ (by omega)]

theorem countByte_drop_le (c : UInt8) (s : Bytes) (o : Nat) : countByte c (s.drop o) ≤ countByte c s := by
  unfold countByte
  exact ((List.drop_sublist o s).filter _).length_le

/-- the last `n` pieces of `s` are the last `n` pieces of any suffix of `s` that still has `n` breaks -/
theorem lastPieces_drop (s : Bytes) (o n : Nat) (hn : n ≤ countByte 0x0A (s.drop o)) :
    ((s.splitOn 0x0A).reverse).take n = (((s.drop o).splitOn 0x0A).reverse).take n := by
  induction s generalizing o with
  | nil => simp
  | cons b r ih =>
    cases o with
    | zero => simp
    | succ o' =>
      simp only [List.drop_succ_cons] at hn ⊢
      rw [← ih o' hn]
      have hle := countByte_drop_le 0x0A r o'
      have hlen := splitOn_length r
      rw [List.splitOn_cons_eq_if_modifyHead]
      split
      · exact take_reverse_cons _ _ _ (by omega)
      · exact take_reverse_modifyHead _ _ _ (by omega)

theorem piecesSum_reverse (l : List Bytes) : piecesSum l.reverse = piecesSum l := by
  unfold piecesSum
  rw [List.map_reverse, List.sum_reverse]

/-- the bytes behind a position `o` of `s`: the rest of the current line plus the last
    `n` lines with their separators, `n` = number of breaks behind `o` -/
theorem lastPiecesLen_drop (s : Bytes) (o : Nat) :
    lastPiecesLen s (countByte 0x0A (s.drop o)) + firstLen (s.drop o) = (s.drop o).length := by
  rw [lastPiecesLen_eq, lastPieces_drop s o _ (Nat.le_refl _)]
  generalize s.drop o = a
  obtain ⟨h, tl, he, hl⟩ := splitOn_head a
  have hlen := splitOn_length a
  have hsum := splitOn_piecesSum a
  rw [he] at hlen hsum ⊢
  simp only [List.length_cons] at hlen
  rw [List.reverse_cons, List.take_append_of_le_length (by simp; omega),
      List.take_of_length_le (by simp; omega), piecesSum_reverse]
  simp only [piecesSum, List.map_cons, List.sum_cons] at hsum ⊢
  omega

/-- **input side, multi-line token.**  A cursor `o` bytes into the text of the multi-line token `k`
    is attached to it with the length of the rest of its line and the number of breaks behind it,
    when both fit into 16 bits. -/
theorem processCursor_in_multiline_token (raw : List RawTok) (k : Nat) (t : RawTok) (o : Nat)
    (hk : raw[k]? = some t) (hm : isMultilineRawKind t.kind = true)
    (ho : o ≤ t.content.length)
    (hfirst : 0 < o ∨ 0 < t.ws.length ∨ k = 0)
    (hcol : firstLen (t.content.drop o) < 65536) (hnl : countByte 0x0A (t.content.drop o) < 65536) :
    processCursor raw (((raw.take k).map RawTok.strLen).sum + t.ws.length + o)
      = { tokIdx := k,
          pos := .multiline (firstLen (t.content.drop o)) (countByte 0x0A (t.content.drop o)) } := by
  unfold processCursor
  rw [Nat.add_assoc, processCursorGo_reach raw k t (t.ws.length + o) hk (by omega),
      processCursorGo_here_multiline _ _ _ t o hm ho]
  simp only [asU16, Nat.mod_eq_of_lt hnl]
  have : (match findByte 0x0A (t.content.drop o) with
          | some p => p | none => (t.content.drop o).length) = firstLen (t.content.drop o) := rfl
  rw [this, Nat.mod_eq_of_lt hcol]

/-- **output side, multi-line token.**  With the position computed from text `c`, and token `k` of
    the output still carrying text `c`, the cursor is reported `o` bytes into that text. -/
theorem relocate_multiline_same (S : Settings) (ft : FT) (k o : Nat) (t' : FTok)
    (hk : ft[k]? = some t') (ho : o ≤ t'.tok.content.length)
    (hsmall : offsetForToken S ft k + t'.tok.content.length < 4294967296) :
    relocate S ft { tokIdx := k,
                    pos := .multiline (firstLen (t'.tok.content.drop o))
                                      (countByte 0x0A (t'.tok.content.drop o)) }
      = some (offsetForToken S ft k + o) := by
  rw [relocate_multiline_eq S ft k _ _ t' hk, lastPiecesLen_drop, List.length_drop, checkedSub,
      if_pos (by omega)]
  simp only [Option.map_some, Option.some.injEq, asU32]
  rw [Nat.mod_eq_of_lt (by omega)]
  omega

end Pasfmt
