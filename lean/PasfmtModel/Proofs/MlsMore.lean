/-
  More about the multi-line string re-indenter (`Model/Mls.lean`), end to end from `mlsRewrite`:
  the exact shape of the rewritten literal, idempotence, preservation of the literal's value
  (declarative `literalValue`).  Everything by induction, for texts of every length.
-/
import PasfmtModel.Model.Mls
import PasfmtModel.Proofs.LinesCustom

namespace Pasfmt.MlsMore

/-! ### small list facts -/

/-- all bytes are the quote `'` -/
def AllQ (q : Bytes) : Prop := ∀ b ∈ q, b = 0x27

theorem noNl_nil : NoNl [] := by intro b hb; simp at hb

theorem noNl_append {a b : Bytes} (ha : NoNl a) (hb : NoNl b) : NoNl (a ++ b) := by
  intro x hx
  rcases List.mem_append.1 hx with h | h
  · exact ha x h
  · exact hb x h

theorem noNl_cons {c : UInt8} {r : Bytes} (hc : isNlCr c = false) (hr : NoNl r) : NoNl (c :: r) := by
  intro x hx
  rcases List.mem_cons.1 hx with rfl | h
  · exact hc
  · exact hr x h

theorem noNl_of_cons {c : UInt8} {r : Bytes} (h : NoNl (c :: r)) : isNlCr c = false ∧ NoNl r :=
  ⟨h c (by simp), fun x hx => h x (by simp [hx])⟩

theorem noNl_reverse {a : Bytes} (ha : NoNl a) : NoNl a.reverse :=
  fun x hx => ha x (List.mem_reverse.1 hx)

theorem noNl_drop {a : Bytes} (ha : NoNl a) (n : Nat) : NoNl (a.drop n) :=
  fun x hx => ha x (List.mem_of_mem_drop hx)

theorem noNl_replicateBytes {s : Bytes} (h : NoNl s) (n : Nat) : NoNl (replicateBytes n s) := by
  intro b hb
  unfold Pasfmt.replicateBytes at hb
  rw [List.mem_flatten] at hb
  obtain ⟨l, hl, hbl⟩ := hb
  rw [List.mem_replicate] at hl
  rw [hl.2] at hbl
  exact h b hbl

theorem allQ_noNl {q : Bytes} (h : AllQ q) : NoNl q := by
  intro b hb
  rw [h b hb]; decide

theorem isPrefixOf_self_append (a b : Bytes) : a.isPrefixOf (a ++ b) = true := by
  induction a with
  | nil => simp
  | cons x a ih => simp [ih]

theorem mem_of_isPrefixOf {a b : Bytes} (h : a.isPrefixOf b = true) {x : UInt8} (hx : x ∈ a) : x ∈ b := by
  rw [List.isPrefixOf_iff_prefix] at h
  exact h.subset hx

/-! ### the reference line splitter -/

theorem refLinesGo_nil (cur : Bytes) : refLinesGo cur [] = if cur.isEmpty then [] else [cur.reverse] := by
  rw [refLinesGo]

/-- a stretch without line-break bytes is pushed onto the current line -/
theorem refLinesGo_noNl (b : Bytes) (hb : NoNl b) (cur s : Bytes) :
    refLinesGo cur (b ++ s) = refLinesGo (b.reverse ++ cur) s := by
  induction b generalizing cur with
  | nil => rfl
  | cons c r ih =>
    obtain ⟨hc, hr⟩ := noNl_of_cons hb
    rw [List.cons_append, refLinesGo_other _ _ _ (by rw [← isNlCr_iff]; exact hc), ih hr]
    simp

/-- `\n` and `\r\n` in front of a text that does not start with `\n` end the current line -/
theorem refLinesGo_lf (cur s : Bytes) : refLinesGo cur (0x0A :: s) = cur.reverse :: refLinesGo [] s :=
  refLinesGo_term cur 0x0A s (by decide) (by rintro ⟨e, _⟩; cases e)

theorem refLinesGo_nonempty (cur s : Bytes) (h : cur ≠ [] ∨ s ≠ []) : refLinesGo cur s ≠ [] := by
  induction s generalizing cur with
  | nil =>
    rcases h with h | h
    · rw [refLinesGo_nil]; simp [h]
    · exact absurd rfl h
  | cons c r ih =>
    by_cases hc : (c == 0x0D || c == 0x0A) = true
    · by_cases hx : c = 0x0D ∧ ∃ r', r = 0x0A :: r'
      · obtain ⟨rfl, r', rfl⟩ := hx
        rw [refLinesGo_cr_lf]; simp
      · rw [refLinesGo_term _ _ _ hc hx]; simp
    · rw [refLinesGo_other _ _ _ (by simpa using hc)]
      exact ih _ (Or.inl (by simp))

/-- no line contains a line-break byte -/
theorem refLinesGo_lines_noNl (n : Nat) : ∀ (s : Bytes), s.length ≤ n → ∀ cur : Bytes, NoNl cur →
    ∀ l ∈ refLinesGo cur s, NoNl l := by
  induction n with
  | zero =>
    intro s hs cur hcur l hl
    have : s = [] := by cases s with | nil => rfl | cons a r => simp at hs
    subst this
    rw [refLinesGo_nil] at hl
    split at hl
    · simp at hl
    · simp at hl; subst hl; exact noNl_reverse hcur
  | succ n ih =>
    intro s hs cur hcur l hl
    cases s with
    | nil => exact ih [] (by simp) cur hcur l hl
    | cons c r =>
      have hr : r.length ≤ n := by simp at hs; omega
      by_cases hc : (c == 0x0D || c == 0x0A) = true
      · by_cases hx : c = 0x0D ∧ ∃ r', r = 0x0A :: r'
        · obtain ⟨rfl, r', rfl⟩ := hx
          rw [refLinesGo_cr_lf] at hl
          rcases List.mem_cons.1 hl with rfl | hl
          · exact noNl_reverse hcur
          · exact ih r' (by simp at hr; omega) [] noNl_nil l hl
        · rw [refLinesGo_term _ _ _ hc hx] at hl
          rcases List.mem_cons.1 hl with rfl | hl
          · exact noNl_reverse hcur
          · exact ih r hr [] noNl_nil l hl
      · have hc' : (c == 0x0D || c == 0x0A) = false := by simpa using hc
        rw [refLinesGo_other _ _ _ hc'] at hl
        exact ih r hr (c :: cur) (noNl_cons (by rw [isNlCr_iff]; exact hc') hcur) l hl

theorem refLines_lines_noNl (s : Bytes) : ∀ l ∈ refLines s, NoNl l :=
  refLinesGo_lines_noNl s.length s (Nat.le_refl _) [] noNl_nil

/-- a text without line-break bytes is one line -/
theorem refLinesGo_single (cur b : Bytes) (hb : NoNl b) (h : cur ≠ [] ∨ b ≠ []) :
    refLinesGo cur b = [cur.reverse ++ b] := by
  have := refLinesGo_noNl b hb cur []
  rw [List.append_nil] at this
  rw [this, refLinesGo_nil]
  have hne : b.reverse ++ cur ≠ [] := by
    rcases h with h | h <;> simp [h]
  simp [hne]

/-- a last line without line-break bytes after a terminator is a line of its own -/
theorem refLinesGo_snoc (n : Nat) : ∀ (s : Bytes), s.length ≤ n → ∀ (cur : Bytes) (t : UInt8) (b : Bytes),
    isNlCr t = true → NoNl b → b ≠ [] →
    refLinesGo cur (s ++ t :: b) = refLinesGo cur (s ++ [t]) ++ [b] := by
  induction n with
  | zero =>
    intro s hs cur t b ht hb hne
    have : s = [] := by cases s with | nil => rfl | cons a r => simp at hs
    subst this
    have ht2 : (t == 0x0D || t == 0x0A) = true := by rw [← isNlCr_iff]; exact ht
    have hb0 : ¬ (t = 0x0D ∧ ∃ r', b = 0x0A :: r') := by
      rintro ⟨_, r', rfl⟩
      have := hb 0x0A (by simp)
      simp [isNlCr] at this
    simp only [List.nil_append]
    rw [refLinesGo_term _ _ _ ht2 hb0, refLinesGo_term _ _ _ ht2 (by rintro ⟨_, r', e⟩; cases e),
      refLinesGo_single [] b hb (Or.inr hne), refLinesGo_nil]
    simp
  | succ n ih =>
    intro s hs cur t b ht hb hne
    cases s with
    | nil => exact ih [] (by simp) cur t b ht hb hne
    | cons c r =>
      have hr : r.length ≤ n := by simp at hs; omega
      simp only [List.cons_append]
      by_cases hc : (c == 0x0D || c == 0x0A) = true
      · by_cases hx : c = 0x0D ∧ ∃ r', r = 0x0A :: r'
        · obtain ⟨rfl, r', rfl⟩ := hx
          simp only [List.cons_append]
          rw [refLinesGo_cr_lf, refLinesGo_cr_lf, ih r' (by simp at hr; omega) [] t b ht hb hne]
          simp
        · by_cases hy : c = 0x0D ∧ r = [] ∧ t = 0x0A
          · obtain ⟨rfl, rfl, rfl⟩ := hy
            simp only [List.nil_append]
            rw [refLinesGo_cr_lf, refLinesGo_cr_lf, refLinesGo_single [] b hb (Or.inr hne), refLinesGo_nil]
            simp
          · have h1 : ¬ (c = 0x0D ∧ ∃ r', r ++ t :: b = 0x0A :: r') := by
              rintro ⟨e, r', er⟩
              cases r with
              | nil => simp at er; exact hy ⟨e, rfl, er.1⟩
              | cons d r'' => simp at er; exact hx ⟨e, r'', by rw [er.1]⟩
            have h2 : ¬ (c = 0x0D ∧ ∃ r', r ++ [t] = 0x0A :: r') := by
              rintro ⟨e, r', er⟩
              cases r with
              | nil => simp at er; exact hy ⟨e, rfl, er.1⟩
              | cons d r'' => simp at er; exact hx ⟨e, r'', by rw [er.1]⟩
            rw [refLinesGo_term _ _ _ hc h1, refLinesGo_term _ _ _ hc h2, ih r hr [] t b ht hb hne]
            simp
      · have hc' : (c == 0x0D || c == 0x0A) = false := by simpa using hc
        rw [refLinesGo_other _ _ _ hc', refLinesGo_other _ _ _ hc', ih r hr _ t b ht hb hne]

/-- every text is a part that is empty or ends in a line-break byte, followed by a part without any -/
theorem exists_tail_split (s : Bytes) :
    ∃ a L, s = a ++ L ∧ NoNl L ∧ (a = [] ∨ ∃ a' t, a = a' ++ [t] ∧ isNlCr t = true) := by
  induction s with
  | nil => exact ⟨[], [], rfl, noNl_nil, Or.inl rfl⟩
  | cons c r ih =>
    obtain ⟨a, L, rfl, hL, ha⟩ := ih
    rcases ha with rfl | ⟨a', t, rfl, ht⟩
    · by_cases hc : isNlCr c = true
      · exact ⟨[c], L, rfl, hL, Or.inr ⟨[], c, rfl, hc⟩⟩
      · exact ⟨[], c :: L, rfl, noNl_cons (by simpa using hc) hL, Or.inl rfl⟩
    · exact ⟨c :: (a' ++ [t]), L, rfl, hL, Or.inr ⟨c :: a', t, rfl, ht⟩⟩

/-! ### the last line as `str::lines().last()` sees it -/

theorem findByte_none_of_not_mem (c : UInt8) (l : Bytes) (h : c ∉ l) : findByte c l = none := by
  induction l with
  | nil => rfl
  | cons a r ih =>
    unfold findByte
    have : (a == c) = false := by
      simp only [beq_eq_false_iff_ne]; intro e; exact h (by simp [e])
    simp only [this, Bool.false_eq_true, if_false]
    rw [ih (fun hm => h (by simp [hm]))]; rfl

theorem findByte_append_left (c : UInt8) (a : Bytes) (b : Bytes) (h : c ∉ a) :
    findByte c (a ++ c :: b) = some a.length := by
  induction a with
  | nil => simp [findByte]
  | cons x r ih =>
    simp only [List.cons_append]
    unfold findByte
    have : (x == c) = false := by
      simp only [beq_eq_false_iff_ne]; intro e; exact h (by simp [e])
    simp only [this, Bool.false_eq_true, if_false]
    rw [ih (fun hm => h (by simp [hm]))]; simp

/-- the text after the last `\n` -/
theorem lastLine_append (pre tail : Bytes) (h : (0x0A : UInt8) ∉ tail) : lastLine (pre ++ 0x0A :: tail) = tail := by
  unfold lastLine rfindByte
  have hrev : (pre ++ 0x0A :: tail).reverse = tail.reverse ++ 0x0A :: pre.reverse := by simp
  rw [hrev, findByte_append_left 0x0A tail.reverse pre.reverse (by simpa using h)]
  simp only [List.length_reverse, List.length_append, List.length_cons]
  have : pre.length + (tail.length + 1) - 1 - tail.length + 1 = pre.length + 1 := by omega
  rw [this]
  have : pre ++ 0x0A :: tail = (pre ++ [0x0A]) ++ tail := by simp
  rw [this, List.drop_left' (by simp)]

theorem lastLine_no_nl (l : Bytes) (h : (0x0A : UInt8) ∉ l) : lastLine l = l := by
  unfold lastLine rfindByte
  rw [findByte_none_of_not_mem 0x0A l.reverse (by simpa using h)]

theorem exists_last_split (c : UInt8) (s : Bytes) (h : c ∈ s) : ∃ a b, s = a ++ c :: b ∧ c ∉ b := by
  induction s with
  | nil => simp at h
  | cons x r ih =>
    by_cases hr : c ∈ r
    · obtain ⟨a, b, rfl, hb⟩ := ih hr
      exact ⟨x :: a, b, rfl, hb⟩
    · rcases List.mem_cons.1 h with rfl | h'
      · exact ⟨[], r, rfl, hr⟩
      · exact absurd h' hr

/-- a tail without `\n` is a tail of the last line -/
theorem lastLine_suffix (s y : Bytes) (hy : (0x0A : UInt8) ∉ y) : ∃ p, lastLine (s ++ y) = p ++ y := by
  by_cases hs : (0x0A : UInt8) ∈ s
  · obtain ⟨a, b, rfl, hb⟩ := exists_last_split 0x0A s hs
    refine ⟨b, ?_⟩
    have : a ++ 0x0A :: b ++ y = a ++ 0x0A :: (b ++ y) := by simp
    rw [this, lastLine_append _ _ (by simp [hb, hy])]
  · exact ⟨s, lastLine_no_nl _ (by simp [hs, hy])⟩

theorem noNl_not_mem_lf {l : Bytes} (h : NoNl l) : (0x0A : UInt8) ∉ l := by
  intro hm
  have := h _ hm
  simp [isNlCr] at this

theorem noNl_not_mem_cr {l : Bytes} (h : NoNl l) : (0x0D : UInt8) ∉ l := by
  intro hm
  have := h _ hm
  simp [isNlCr] at this

/-- `lastLineOf` of a text whose last line does not end in `\r` -/
theorem lastLineOf_eq (s : Bytes) (b : UInt8) (hb : (lastLine s).getLast? = some b) (hne : b ≠ 0x0D) :
    lastLineOf s = lastLine s := by
  unfold lastLineOf
  simp only [hb]
  split
  · rename_i h; simp at h; exact absurd h hne
  · rfl

/-! ### leading blanks, trailing quotes -/

theorem countLeadingWs_le (s : Bytes) : countLeadingWs s ≤ s.length := by
  fun_induction countLeadingWs s with
  | case1 => simp
  | case2 r ih => simp; omega
  | case3 b r _ h ih => simp; omega
  | case4 b r _ h => simp

/-- the leading blanks contain no quote -/
theorem take_countLeadingWs_no_quote (s : Bytes) : (0x27 : UInt8) ∉ s.take (countLeadingWs s) := by
  fun_induction countLeadingWs s with
  | case1 => simp
  | case2 r ih =>
    have : List.take (countLeadingWs r + 3) (0xE3 :: 0x80 :: 0x80 :: r) = 0xE3 :: 0x80 :: 0x80 :: r.take (countLeadingWs r) := by
      simp [List.take_succ_cons]
    rw [this]
    simp [ih]
  | case3 b r _ h ih =>
    rw [List.take_succ_cons]
    simp only [List.mem_cons, not_or]
    refine ⟨?_, ih⟩
    intro e; subst e; revert h; decide
  | case4 b r _ h => simp

/-- blanks `≤ 0x20` in front of a quote (or of nothing) are exactly the leading blanks -/
theorem countLeadingWs_blank_quotes (w q : Bytes) (hw : ∀ b ∈ w, b ≤ 0x20) (hq : AllQ q) :
    countLeadingWs (w ++ q) = w.length := by
  induction w with
  | nil =>
    cases q with
    | nil => rfl
    | cons a r =>
      have : a = 0x27 := hq a (by simp)
      subst this
      rw [List.nil_append, countLeadingWs]
      · simp
      · intro r' e; cases e
  | cons b r ih =>
    have hb : b ≤ 0x20 := hw b (by simp)
    rw [List.cons_append, countLeadingWs]
    · simp [hb, ih (fun x hx => hw x (by simp [hx]))]
    · intro r' e _
      subst e
      revert hb; decide

theorem trimEndQuotes_decomp (s : Bytes) : ∃ q, s = trimEndQuotes s ++ q ∧ AllQ q := by
  refine ⟨(s.reverse.takeWhile (· == 0x27)).reverse, ?_, ?_⟩
  · unfold trimEndQuotes
    rw [← List.reverse_append, List.takeWhile_append_dropWhile, List.reverse_reverse]
  · intro b hb
    rw [List.mem_reverse] at hb
    have := List.all_eq_true.1 (List.all_takeWhile (l := s.reverse) (p := (· == 0x27))) b hb
    simpa using this

/-! ### the loop -/

/-- what the re-indenter makes of one interior line: `none` = the literal is rejected -/
def lineValue (base line : Bytes) : Option Bytes :=
  if base.isPrefixOf line then some (line.drop base.length)
  else if line.isPrefixOf base then some []
  else none

/-- the indentation the re-indenter writes in front of every non-empty interior line and of the closing quotes -/
def newIndent (S : Settings) (ind cont : Nat) : Bytes := replicateBytes ind S.indStr ++ replicateBytes cont S.contStr

/-- an interior line after re-indentation, without its terminator -/
def lineText (S : Settings) (ind cont : Nat) (v : Bytes) : Bytes := if v.isEmpty then [] else newIndent S ind cont ++ v

/-- the rewritten lines after the first: each value with the configured terminator in front -/
def renderAll (S : Settings) (ind cont : Nat) (vs : List Bytes) : Bytes :=
  (vs.map (fun v => S.nlStr ++ lineText S ind cont v)).flatten

theorem rewriteLines_eq (S : Settings) (ind cont : Nat) (base : Bytes) (lines : List Bytes) :
    rewriteLines S ind cont base lines = (lines.mapM (lineValue base)).map (renderAll S ind cont) := by
  induction lines with
  | nil => rfl
  | cons line rest ih =>
    rw [rewriteLines, List.mapM_cons, ih]
    generalize List.mapM (lineValue base) rest = m
    by_cases h1 : base.isPrefixOf line = true
    · cases m <;> simp [lineValue, h1, renderAll, lineText, newIndent, List.append_assoc]
    · by_cases h2 : line.isPrefixOf base = true
      · cases m <;> simp [lineValue, h1, h2, renderAll, lineText]
      · simp [lineValue, h1, h2]

theorem mapM_append_some {α β : Type} (f : α → Option β) (xs : List α) (y : α) (out : List β)
    (h : (xs ++ [y]).mapM f = some out) : ∃ vs v, xs.mapM f = some vs ∧ f y = some v ∧ out = vs ++ [v] := by
  induction xs generalizing out with
  | nil =>
    simp only [List.nil_append, List.mapM_cons, List.mapM_nil] at h
    cases hy : f y with
    | none => simp [hy] at h
    | some v =>
      simp [hy] at h
      exact ⟨[], v, rfl, rfl, by simp [← h]⟩
  | cons x xs ih =>
    simp only [List.cons_append, List.mapM_cons] at h
    cases hx : f x with
    | none => simp [hx] at h
    | some w =>
      cases hr : (xs ++ [y]).mapM f with
      | none => simp [hx, hr] at h
      | some out' =>
        simp [hx, hr] at h
        obtain ⟨vs, v, h1, h2, h3⟩ := ih out' hr
        refine ⟨w :: vs, v, ?_, h2, ?_⟩
        · simp [List.mapM_cons, hx, h1]
        · simp [← h, h3]

theorem mapM_append_of_some {α β : Type} (f : α → Option β) (xs : List α) (y : α) (vs : List β) (v : β)
    (h1 : xs.mapM f = some vs) (h2 : f y = some v) : (xs ++ [y]).mapM f = some (vs ++ [v]) := by
  induction xs generalizing vs with
  | nil =>
    simp at h1; subst h1
    simp [List.mapM_cons, h2]
  | cons x xs ih =>
    simp only [List.mapM_cons] at h1
    cases hx : f x with
    | none => simp [hx] at h1
    | some w =>
      cases hr : xs.mapM f with
      | none => simp [hx, hr] at h1
      | some vs' =>
        simp [hx, hr] at h1
        subst h1
        simp [List.mapM_cons, hx, ih vs' hr]

/-! ### the shape of a successful rewrite -/

theorem getLast?_mem {l : Bytes} {b : UInt8} (h : l.getLast? = some b) : b ∈ l :=
  List.mem_of_getLast? h

theorem getLast?_append_ne (a L : Bytes) (h : L ≠ []) : (a ++ L).getLast? = L.getLast? := by
  rw [List.getLast?_append]
  cases hL : L.getLast? with
  | none => exact absurd (List.getLast?_eq_none_iff.1 hL) h
  | some b => simp

theorem not_ends_crlf {content : Bytes} (hq : content.getLast? = some 0x27) :
    ¬ ∃ p, content = p ++ [0x0D, 0x0A] := by
  rintro ⟨p, rfl⟩
  simp at hq

/-- **Anatomy of a successful rewrite** of a literal that ends in a quote: the lines of the literal are a first line,
    interior lines and a closing line `base ++ q` (`base` = its leading blanks, `q` = a non-empty run of quotes); every
    interior line has a value with respect to `base`; the result is the first line followed by the rendered values,
    the closing quotes being rendered like a value. -/
theorem mlsRewrite_struct (S : Settings) (content : Bytes) (ind cont : Nat) (c' : Bytes)
    (hq : content.getLast? = some 0x27) (h : mlsRewrite S content ind cont = some c') :
    ∃ (first : Bytes) (interior : List Bytes) (base q : Bytes) (vs : List Bytes),
      linesCustom content = first :: (interior ++ [base ++ q]) ∧
      refLines content = first :: (interior ++ [base ++ q]) ∧
      countLeadingWs (base ++ q) = base.length ∧ q ≠ [] ∧ AllQ q ∧
      interior.mapM (lineValue base) = some vs ∧
      c' = first ++ renderAll S ind cont (vs ++ [q]) ∧
      NoNl first ∧ (∀ l ∈ interior, NoNl l) ∧ NoNl base ∧ c' ≠ content ∧
      ∃ a', content = a' ++ 0x0A :: (base ++ q) ∧ refLinesGo [] (a' ++ [0x0A]) = first :: interior := by
  have hlc := linesCustom_eq_refLines content (not_ends_crlf hq)
  unfold mlsRewrite at h
  simp only [] at h
  obtain ⟨last, hlast⟩ : ∃ l, l = lastLineOf content := ⟨_, rfl⟩
  rw [← hlast] at h
  split at h
  · simp at h
  rename_i hlen
  split at h
  case h_2 => simp at h
  rename_i out hout
  split at h
  case isFalse => simp at h
  rename_i hne
  simp only [Option.some.injEq] at h
  subst h
  have hne' : out ≠ content := by simpa using hne
  -- the closing line as `lines().last()` sees it: leading blanks, then quotes
  have hlen' : (last.take (countLeadingWs last)).length = (trimEndQuotes last).length := by simpa using hlen
  obtain ⟨qs, hqs, hAllQ⟩ := trimEndQuotes_decomp last
  have hclw := countLeadingWs_le last
  have hbaseT : last.take (countLeadingWs last) = trimEndQuotes last := by
    have h1 : countLeadingWs last = (trimEndQuotes last).length := by
      rw [List.length_take] at hlen'; omega
    rw [h1]
    have h2 : List.take (trimEndQuotes last).length (trimEndQuotes last ++ qs) = trimEndQuotes last := by simp
    rw [← hqs] at h2
    exact h2
  have hnoq := take_countLeadingWs_no_quote last
  obtain ⟨base, hbase⟩ : ∃ b, b = last.take (countLeadingWs last) := ⟨_, rfl⟩
  rw [← hbase] at hout hnoq hbaseT
  have hlastEq : last = base ++ qs := by rw [hbaseT]; exact hqs
  have hbaseLen : countLeadingWs last = base.length := by
    rw [hbase, List.length_take]; omega
  -- the lines
  obtain ⟨a, L, hcontent, hL, ha⟩ := exists_tail_split content
  have hLne : L ≠ [] := by
    rintro rfl
    rcases ha with rfl | ⟨a', t, rfl, ht⟩
    · subst hcontent; simp at hq
    · subst hcontent
      simp at hq; subst hq
      simp [isNlCr] at ht
  have hLq : L.getLast? = some 0x27 := by
    rw [hcontent, getLast?_append_ne _ _ hLne] at hq
    exact hq
  have hqL : (0x27 : UInt8) ∈ L := getLast?_mem hLq
  have hLlf := noNl_not_mem_lf hL
  unfold tryRewriteString at hout
  rw [hlc] at hout
  rcases ha with rfl | ⟨a', t, rfl, ht⟩
  · -- a single line: nothing changes
    simp only [List.nil_append] at hcontent
    subst hcontent
    have : refLines content = [content] := by
      have := refLinesGo_single [] content hL (Or.inr hLne)
      simpa [refLines] using this
    rw [this] at hout
    simp [rewriteLines] at hout
    exact absurd hout.symm hne'
  · have hcontent' : content = a' ++ t :: L := by rw [hcontent]; simp
    have hlines : refLines content = refLinesGo [] (a' ++ [t]) ++ [L] := by
      unfold refLines
      rw [hcontent']
      exact refLinesGo_snoc _ a' (Nat.le_refl _) [] t L ht hL hLne
    have hpre : refLinesGo [] (a' ++ [t]) ≠ [] := refLinesGo_nonempty _ _ (Or.inr (by simp))
    obtain ⟨first, interior, hfi⟩ : ∃ f i, refLinesGo [] (a' ++ [t]) = f :: i := by
      cases hx : refLinesGo [] (a' ++ [t]) with
      | nil => exact absurd hx hpre
      | cons f i => exact ⟨f, i, rfl⟩
    rw [hfi] at hlines
    have hno := refLines_lines_noNl content
    rw [hlines] at hno hout
    simp only [List.cons_append] at hout hno hlines
    simp only [Option.map_eq_some_iff] at hout
    obtain ⟨R, hR, rfl⟩ := hout
    rw [rewriteLines_eq] at hR
    simp only [Option.map_eq_some_iff] at hR
    obtain ⟨vs', hvs', rfl⟩ := hR
    obtain ⟨vs, vL, hvs, hvL, rfl⟩ := mapM_append_some _ _ _ _ hvs'
    -- the last line of `lines()`
    have hll : ∃ p, lastLine content = p ++ L := by
      rw [hcontent]; exact lastLine_suffix _ _ hLlf
    obtain ⟨p, hp⟩ := hll
    have hlastLL : last = lastLine content := by
      rw [hlast]
      refine lastLineOf_eq content 0x27 ?_ (by decide)
      rw [hp, getLast?_append_ne _ _ hLne]; exact hLq
    -- the terminator before the closing line is `\n`
    have hcrBase : (0x0D : UInt8) ∈ last → (0x0D : UInt8) ∈ base := by
      intro hm
      rw [hlastEq] at hm
      rcases List.mem_append.1 hm with h | h
      · exact h
      · exact absurd (hAllQ _ h) (by decide)
    have hvL' := hvL
    unfold lineValue at hvL'
    have hpfx : base.isPrefixOf L = true := by
      by_cases h1 : base.isPrefixOf L = true
      · exact h1
      · simp only [h1, Bool.false_eq_true, if_false] at hvL'
        by_cases h2 : L.isPrefixOf base = true
        · exact absurd (mem_of_isPrefixOf h2 hqL) hnoq
        · simp [h2] at hvL'
    have htlf : t = 0x0A := by
      by_cases hcr : t = 0x0D
      · subst hcr
        exfalso
        obtain ⟨p', hp'⟩ := lastLine_suffix a' (0x0D :: L) (by simp [hLlf])
        rw [← hcontent', ← hlastLL] at hp'
        have : (0x0D : UInt8) ∈ base := hcrBase (by rw [hp']; simp)
        exact noNl_not_mem_cr hL (mem_of_isPrefixOf hpfx this)
      · simp [isNlCr] at ht
        rcases ht with h | h
        · exact h
        · exact absurd h hcr
    subst htlf
    have hlastL : last = L := by
      rw [hlastLL, hcontent']
      exact lastLine_append _ _ hLlf
    have hLeq : L = base ++ qs := by rw [← hlastL]; exact hlastEq
    have hqsne : qs ≠ [] := by
      rintro rfl
      rw [List.append_nil] at hLeq
      rw [hLeq] at hqL
      exact hnoq hqL
    have hvLq : vL = qs := by
      rw [hLeq] at hvL
      unfold lineValue at hvL
      simp only [isPrefixOf_self_append, if_true, Option.some.injEq] at hvL
      rw [← hvL]; simp
    subst hvLq
    refine ⟨first, interior, base, vL, vs, ?_, ?_, ?_, hqsne, hAllQ, hvs, rfl, ?_, ?_, ?_, hne', a', ?_, hfi⟩
    · rw [hlc, hlines, hLeq]
    · rw [hlines, hLeq]
    · rw [← hLeq, ← hlastL]; exact hbaseLen
    · exact hno first (by simp)
    · intro l hl; exact hno l (by simp [hl])
    · intro b hb
      exact hL b (by rw [hLeq]; simp [hb])
    · rw [← hLeq]; exact hcontent'

/-! ### settings -/

/-- blanks that are not line breaks (spaces, tabs, …) -/
def IndentBytes (s : Bytes) : Prop := ∀ b ∈ s, b ≤ 0x20 ∧ isNlCr b = false

/-- what the theorems below need of the reconstruction settings: the line ending is LF or CR LF, the indentation and
    continuation strings consist of blanks `≤ 0x20` other than CR and LF.  True of the settings of every configuration
    (`settings_ok`). -/
structure SettingsOk (S : Settings) : Prop where
  nl : S.nlStr = [0x0A] ∨ S.nlStr = [0x0D, 0x0A]
  ind : IndentBytes S.indStr
  cont : IndentBytes S.contStr

theorem settings_ok (c : Config) : SettingsOk c.settings := by
  unfold Config.settings
  simp only
  split
  · refine ⟨?_, ?_, ?_⟩
    · simp only; split <;> simp
    · intro b hb; simp at hb; subst hb; decide
    · intro b hb; rw [List.mem_replicate] at hb; rw [hb.2]; decide
  · refine ⟨?_, ?_, ?_⟩
    · simp only; split <;> simp
    · intro b hb; rw [List.mem_replicate] at hb; rw [hb.2]; decide
    · intro b hb; rw [List.mem_replicate] at hb; rw [hb.2]; decide

theorem indentBytes_replicateBytes {s : Bytes} (h : IndentBytes s) (n : Nat) : IndentBytes (replicateBytes n s) := by
  intro b hb
  unfold Pasfmt.replicateBytes at hb
  rw [List.mem_flatten] at hb
  obtain ⟨l, hl, hbl⟩ := hb
  rw [List.mem_replicate] at hl
  rw [hl.2] at hbl
  exact h b hbl

theorem newIndent_indentBytes {S : Settings} (hS : SettingsOk S) (ind cont : Nat) : IndentBytes (newIndent S ind cont) := by
  intro b hb
  unfold newIndent at hb
  rcases List.mem_append.1 hb with h | h
  · exact indentBytes_replicateBytes hS.ind _ b h
  · exact indentBytes_replicateBytes hS.cont _ b h

theorem newIndent_noNl {S : Settings} (hS : SettingsOk S) (ind cont : Nat) : NoNl (newIndent S ind cont) :=
  fun b hb => (newIndent_indentBytes hS ind cont b hb).2

theorem lineText_noNl {S : Settings} (hS : SettingsOk S) (ind cont : Nat) {v : Bytes} (hv : NoNl v) :
    NoNl (lineText S ind cont v) := by
  unfold lineText
  split
  · exact noNl_nil
  · exact noNl_append (newIndent_noNl hS ind cont) hv

theorem refLinesGo_nlStr {S : Settings} (hS : SettingsOk S) (cur s : Bytes) :
    refLinesGo cur (S.nlStr ++ s) = cur.reverse :: refLinesGo [] s := by
  rcases hS.nl with h | h <;> rw [h]
  · exact refLinesGo_lf cur s
  · exact refLinesGo_cr_lf cur s

/-! ### the rewritten literal, read again -/

/-- splitting the joined lines gives the lines back -/
theorem refLinesGo_join {S : Settings} (hS : SettingsOk S) (texts : List Bytes) (t : Bytes) (ht : t ≠ [])
    (hno : ∀ x ∈ texts ++ [t], NoNl x) (cur : Bytes) :
    refLinesGo cur (((texts ++ [t]).map (fun x => S.nlStr ++ x)).flatten) = cur.reverse :: (texts ++ [t]) := by
  induction texts generalizing cur with
  | nil =>
    simp only [List.nil_append, List.map_cons, List.map_nil, List.flatten_cons, List.flatten_nil, List.append_nil]
    rw [refLinesGo_nlStr hS, refLinesGo_single [] t (hno t (by simp)) (Or.inr ht)]
    simp
  | cons x r ih =>
    simp only [List.cons_append, List.map_cons, List.flatten_cons, List.append_assoc]
    rw [refLinesGo_nlStr hS, refLinesGo_noNl x (hno x (by simp))]
    rw [ih (fun y hy => hno y (by simp at hy ⊢; exact Or.inr hy))]
    simp

theorem lineText_quotes (S : Settings) (ind cont : Nat) {q : Bytes} (hq : q ≠ []) :
    lineText S ind cont q = newIndent S ind cont ++ q := by
  unfold lineText
  simp [hq]

theorem renderAll_eq_map (S : Settings) (ind cont : Nat) (vs : List Bytes) :
    renderAll S ind cont vs = ((vs.map (lineText S ind cont)).map (fun x => S.nlStr ++ x)).flatten := by
  unfold renderAll
  rw [List.map_map]
  rfl

theorem renderAll_snoc (S : Settings) (ind cont : Nat) (vs : List Bytes) (q : Bytes) :
    renderAll S ind cont (vs ++ [q]) = renderAll S ind cont vs ++ (S.nlStr ++ lineText S ind cont q) := by
  unfold renderAll
  simp

/-- **the lines of the rewritten literal**: the first line, the re-indented interior lines, the re-indented closing quotes -/
theorem rewritten_lines {S : Settings} (hS : SettingsOk S) (ind cont : Nat) (first : Bytes) (vs : List Bytes) (q : Bytes)
    (hfirst : NoNl first) (hvs : ∀ v ∈ vs, NoNl v) (hq : q ≠ []) (hAllQ : AllQ q) :
    refLines (first ++ renderAll S ind cont (vs ++ [q])) =
      first :: (vs.map (lineText S ind cont) ++ [newIndent S ind cont ++ q]) := by
  unfold refLines
  rw [refLinesGo_noNl first hfirst, renderAll_eq_map, List.map_append, List.map_cons, List.map_nil,
    lineText_quotes S ind cont hq]
  rw [refLinesGo_join hS _ _ (by simp [hq])]
  · simp
  · intro x hx
    rcases List.mem_append.1 hx with h | h
    · rw [List.mem_map] at h
      obtain ⟨v, hv, rfl⟩ := h
      exact lineText_noNl hS ind cont (hvs v hv)
    · simp at h; subst h
      exact noNl_append (newIndent_noNl hS ind cont) (allQ_noNl hAllQ)

theorem ends_quote_of_allQ (x q : Bytes) (hq : q ≠ []) (hAllQ : AllQ q) : (x ++ q).getLast? = some 0x27 := by
  rw [getLast?_append_ne _ _ hq]
  cases hl : q.getLast? with
  | none => exact absurd (List.getLast?_eq_none_iff.1 hl) hq
  | some b => rw [hAllQ b (getLast?_mem hl)]

/-- the rewritten literal ends in a quote -/
theorem rewritten_ends_quote (S : Settings) (ind cont : Nat) (first : Bytes) (vs : List Bytes) (q : Bytes)
    (hq : q ≠ []) (hAllQ : AllQ q) : (first ++ renderAll S ind cont (vs ++ [q])).getLast? = some 0x27 := by
  rw [renderAll_snoc, lineText_quotes S ind cont hq]
  have : first ++ (renderAll S ind cont vs ++ (S.nlStr ++ (newIndent S ind cont ++ q))) =
      (first ++ renderAll S ind cont vs ++ S.nlStr ++ newIndent S ind cont) ++ q := by simp
  rw [this]
  exact ends_quote_of_allQ _ q hq hAllQ

/-- the last line of the rewritten literal as `lines().last()` sees it -/
theorem rewritten_lastLineOf {S : Settings} (hS : SettingsOk S) (ind cont : Nat) (first : Bytes) (vs : List Bytes) (q : Bytes)
    (hq : q ≠ []) (hAllQ : AllQ q) :
    lastLineOf (first ++ renderAll S ind cont (vs ++ [q])) = newIndent S ind cont ++ q := by
  have hno : NoNl (newIndent S ind cont ++ q) := noNl_append (newIndent_noNl hS ind cont) (allQ_noNl hAllQ)
  have hll : lastLine (first ++ renderAll S ind cont (vs ++ [q])) = newIndent S ind cont ++ q := by
    rw [renderAll_snoc, lineText_quotes S ind cont hq]
    rcases hS.nl with h | h <;> rw [h]
    · have : first ++ (renderAll S ind cont vs ++ ([0x0A] ++ (newIndent S ind cont ++ q))) =
          (first ++ renderAll S ind cont vs) ++ 0x0A :: (newIndent S ind cont ++ q) := by simp
      rw [this]
      exact lastLine_append _ _ (noNl_not_mem_lf hno)
    · have : first ++ (renderAll S ind cont vs ++ ([0x0D, 0x0A] ++ (newIndent S ind cont ++ q))) =
          (first ++ renderAll S ind cont vs ++ [0x0D]) ++ 0x0A :: (newIndent S ind cont ++ q) := by simp
      rw [this]
      exact lastLine_append _ _ (noNl_not_mem_lf hno)
  rw [lastLineOf_eq _ 0x27 (by rw [hll]; exact ends_quote_of_allQ _ q hq hAllQ) (by decide), hll]

theorem dropWhile_eq_self {p : UInt8 → Bool} {l : Bytes} (h : ∀ b ∈ l, p b = false) : l.dropWhile p = l := by
  cases l with
  | nil => rfl
  | cons a r => simp [h a (by simp)]

theorem trimEndQuotes_blank_quotes (w q : Bytes) (hw : ∀ b ∈ w, b ≤ 0x20) (hq : AllQ q) : trimEndQuotes (w ++ q) = w := by
  unfold trimEndQuotes
  rw [List.reverse_append, List.dropWhile_append_of_pos (by
    intro b hb; rw [List.mem_reverse] at hb; rw [hq b hb]; decide)]
  rw [dropWhile_eq_self (by
    intro b hb
    rw [List.mem_reverse] at hb
    have := hw b hb
    simp only [beq_eq_false_iff_ne]
    intro e; subst e; revert this; decide), List.reverse_reverse]

theorem lineValue_lineText (S : Settings) (ind cont : Nat) (v : Bytes) :
    lineValue (newIndent S ind cont) (lineText S ind cont v) = some v := by
  unfold lineValue lineText
  by_cases hv : v.isEmpty = true
  · have : v = [] := by simpa using hv
    subst this
    simp only [List.isEmpty_nil, if_true]
    by_cases hb : (newIndent S ind cont).isPrefixOf [] = true
    · simp [hb]
    · simp [hb]
  · simp only [hv, Bool.false_eq_true, if_false, isPrefixOf_self_append, if_true]
    simp

theorem values_preserved (S : Settings) (ind cont : Nat) (vs : List Bytes) :
    (vs.map (lineText S ind cont)).mapM (lineValue (newIndent S ind cont)) = some vs := by
  induction vs with
  | nil => rfl
  | cons v vs ih =>
    simp only [List.map_cons, List.mapM_cons, lineValue_lineText, ih]
    rfl

theorem lineValue_noNl {base l v : Bytes} (h : lineValue base l = some v) (hl : NoNl l) : NoNl v := by
  unfold lineValue at h
  split at h
  · simp at h; subst h; exact noNl_drop hl _
  · split at h
    · simp at h; subst h; exact noNl_nil
    · simp at h

theorem mapM_values_noNl {base : Bytes} {ls vs : List Bytes} (h : ls.mapM (lineValue base) = some vs)
    (hl : ∀ l ∈ ls, NoNl l) : ∀ v ∈ vs, NoNl v := by
  induction ls generalizing vs with
  | nil => simp at h; subst h; intro v hv; simp at hv
  | cons x r ih =>
    simp only [List.mapM_cons] at h
    cases hx : lineValue base x with
    | none => simp [hx] at h
    | some w =>
      cases hr : r.mapM (lineValue base) with
      | none => simp [hx, hr] at h
      | some vs' =>
        simp [hx, hr] at h
        subst h
        intro v hv
        rcases List.mem_cons.1 hv with rfl | hv'
        · exact lineValue_noNl hx (hl x (by simp))
        · exact ih hr (fun l hm => hl l (by simp [hm])) v hv'

/-- **second application**: the rewritten literal is a fixpoint - the rewriter computes the same text again and
    therefore reports "no change" -/
theorem rewritten_fix {S : Settings} (hS : SettingsOk S) (ind cont : Nat) (first : Bytes) (vs : List Bytes) (q : Bytes)
    (hfirst : NoNl first) (hvs : ∀ v ∈ vs, NoNl v) (hq : q ≠ []) (hAllQ : AllQ q) :
    mlsRewrite S (first ++ renderAll S ind cont (vs ++ [q])) ind cont = none := by
  have hblank : ∀ b ∈ newIndent S ind cont, b ≤ 0x20 := fun b hb => (newIndent_indentBytes hS ind cont b hb).1
  have hclw := countLeadingWs_blank_quotes (newIndent S ind cont) q hblank hAllQ
  have hlines := rewritten_lines hS ind cont first vs q hfirst hvs hq hAllQ
  have hlc := linesCustom_eq_refLines _ (not_ends_crlf (rewritten_ends_quote S ind cont first vs q hq hAllQ))
  unfold mlsRewrite
  simp only []
  rw [rewritten_lastLineOf hS ind cont first vs q hq hAllQ, hclw,
    trimEndQuotes_blank_quotes _ _ hblank hAllQ]
  have htake : List.take (newIndent S ind cont).length (newIndent S ind cont ++ q) = newIndent S ind cont := by simp
  rw [htake]
  simp only [bne_self_eq_false, Bool.false_eq_true, if_false]
  unfold tryRewriteString
  rw [hlc, hlines]
  simp only []
  rw [rewriteLines_eq]
  have hval : (vs.map (lineText S ind cont) ++ [newIndent S ind cont ++ q]).mapM (lineValue (newIndent S ind cont))
      = some (vs ++ [q]) := by
    refine mapM_append_of_some _ _ _ _ _ (values_preserved S ind cont vs) ?_
    rw [← lineText_quotes S ind cont hq]
    exact lineValue_lineText S ind cont q
  rw [hval]
  simp

/-! ### the value of a literal, declaratively -/

/-- **The value of a multi-line string literal**, independent of the rewriter: split the text at CR LF / CR / LF
    (`refLines`); there must be at least two lines; the last line must consist of blanks followed by a non-empty run of
    quotes and nothing else, the blanks being *the indentation*; the value is the list of the lines strictly between
    the first and the last, each with the indentation removed - a line that is a (proper) prefix of the indentation
    counts as empty; a line that neither starts with the indentation nor is a prefix of it makes the literal
    ill-formed (`none`). -/
def literalValue (c : Bytes) : Option (List Bytes) :=
  match refLines c with
  | [] => none
  | _ :: rest =>
    match rest.getLast? with
    | none => none
    | some closing =>
      let n := countLeadingWs closing
      let quotes := closing.drop n
      if !quotes.isEmpty && quotes.all (· == 0x27) then rest.dropLast.mapM (lineValue (closing.take n))
      else none

theorem literalValue_of_lines (c first : Bytes) (interior : List Bytes) (base q : Bytes)
    (hl : refLines c = first :: (interior ++ [base ++ q])) (hclw : countLeadingWs (base ++ q) = base.length)
    (hq : q ≠ []) (hAllQ : AllQ q) : literalValue c = interior.mapM (lineValue base) := by
  unfold literalValue
  rw [hl]
  simp only [List.getLast?_append, List.getLast?_singleton, Option.some_or, hclw, List.drop_left',
    List.dropLast_concat]
  have h2 : List.take base.length (base ++ q) = base := by simp
  rw [h2]
  have h3 : q.isEmpty = false := by simpa using hq
  have h4 : q.all (· == 0x27) = true := by
    rw [List.all_eq_true]; intro b hb; rw [hAllQ b hb]; decide
  simp [h3, h4]

/-! ### end to end -/

/-- everything the theorems of C12/C03 need about one successful rewrite of a literal that ends in a quote -/
theorem mlsRewrite_anatomy (S : Settings) (content : Bytes) (ind cont : Nat) (c' : Bytes)
    (hq : content.getLast? = some 0x27) (h : mlsRewrite S content ind cont = some c') :
    ∃ (first : Bytes) (interior : List Bytes) (base q : Bytes) (vs : List Bytes),
      linesCustom content = first :: (interior ++ [base ++ q]) ∧
      refLines content = first :: (interior ++ [base ++ q]) ∧
      countLeadingWs (base ++ q) = base.length ∧ q ≠ [] ∧ AllQ q ∧
      interior.mapM (lineValue base) = some vs ∧
      literalValue content = some vs ∧
      c' = first ++ renderAll S ind cont (vs ++ [q]) ∧
      NoNl first ∧ (∀ v ∈ vs, NoNl v) ∧ c' ≠ content := by
  obtain ⟨first, interior, base, q, vs, h1, h2, h3, h4, h5, h6, h7, h8, h9, _, h11, _⟩ :=
    mlsRewrite_struct S content ind cont c' hq h
  exact ⟨first, interior, base, q, vs, h1, h2, h3, h4, h5, h6,
    by rw [literalValue_of_lines content first interior base q h2 h3 h4 h5, h6], h7, h8,
    mapM_values_noNl h6 h9, h11⟩

/-- the value of the rewritten literal -/
theorem literalValue_rewritten {S : Settings} (hS : SettingsOk S) (ind cont : Nat) (first : Bytes) (vs : List Bytes) (q : Bytes)
    (hfirst : NoNl first) (hvs : ∀ v ∈ vs, NoNl v) (hq : q ≠ []) (hAllQ : AllQ q) :
    literalValue (first ++ renderAll S ind cont (vs ++ [q])) = some vs := by
  have hblank : ∀ b ∈ newIndent S ind cont, b ≤ 0x20 := fun b hb => (newIndent_indentBytes hS ind cont b hb).1
  rw [literalValue_of_lines _ first (vs.map (lineText S ind cont)) (newIndent S ind cont) q
    (rewritten_lines hS ind cont first vs q hfirst hvs hq hAllQ)
    (countLeadingWs_blank_quotes _ q hblank hAllQ) hq hAllQ]
  exact values_preserved S ind cont vs

/-- a second application reports "no change" -/
theorem mls_idem (S : Settings) (hS : SettingsOk S) (content : Bytes) (ind cont : Nat) (c' : Bytes)
    (hq : content.getLast? = some 0x27) (h : mlsRewrite S content ind cont = some c') :
    mlsRewrite S c' ind cont = none := by
  obtain ⟨first, interior, base, q, vs, _, _, _, h4, h5, _, _, h8, h9, h10, _⟩ :=
    mlsRewrite_anatomy S content ind cont c' hq h
  rw [h8]
  exact rewritten_fix hS ind cont first vs q h9 h10 h4 h5

/-- the string-formatting pass on one token, applied to its own result with the same counters, keeps the text -/
theorem mlsTok_idem (S : Settings) (hS : SettingsOk S) (fm : Bool) (t t' : FTok) (ind cont : Nat)
    (hq : isMlsKind t.tok.kind = true → t.tok.content.getLast? = some 0x27)
    (hk : t'.tok.kind = t.tok.kind) (hi : t'.fmt.ignored = t.fmt.ignored)
    (hc : t'.tok.content = mlsTok S fm t ind cont) : mlsTok S fm t' ind cont = t'.tok.content := by
  unfold mlsTok at hc ⊢
  rw [hk, hi]
  split
  · rename_i hcond
    rw [if_pos hcond] at hc
    have hkind : isMlsKind t.tok.kind = true := by
      simp only [Bool.and_eq_true] at hcond; exact hcond.2
    cases hr : mlsRewrite S t.tok.content ind cont with
    | none =>
      rw [hr] at hc
      simp only [Option.getD_none] at hc
      rw [hc, hr]; rfl
    | some c' =>
      rw [hr] at hc
      simp only [Option.getD_some] at hc
      rw [hc, mls_idem S hS _ ind cont c' (hq hkind) hr]; rfl
  · rfl

/-! ### runs of quotes; `memmem::find` -/

/-- `n` quotes -/
def Qn (n : Nat) : Bytes := List.replicate n 0x27

theorem allQ_Qn (n : Nat) : AllQ (Qn n) := by
  intro b hb
  exact (List.mem_replicate.1 hb).2

theorem Qn_ne_nil {n : Nat} (h : 1 ≤ n) : Qn n ≠ [] := by
  unfold Qn
  cases n with
  | zero => omega
  | succ k => simp [List.replicate_succ]

theorem eq_Qn_of_allQ {q : Bytes} (h : AllQ q) : q = Qn q.length := by
  unfold Qn
  exact List.eq_replicate_iff.2 ⟨rfl, h⟩

/-- a run of quotes inside `c :: y`, `c` not a quote, lies inside `y` -/
theorem infix_cons_nonquote {pat : Bytes} (hp : AllQ pat) (hne : pat ≠ []) {c : UInt8} (hc : c ≠ 0x27) {y : Bytes}
    (h : pat <:+: c :: y) : pat <:+: y := by
  rcases List.infix_cons_iff.1 h with h | h
  · rcases List.prefix_cons_iff.1 h with h | ⟨t, rfl, _⟩
    · exact absurd h hne
    · exact absurd (hp c (by simp)) hc
  · exact h

theorem infix_append_nonquote {pat : Bytes} (hp : AllQ pat) (hne : pat ≠ []) {w : Bytes} (hw : ∀ b ∈ w, b ≠ 0x27)
    {y : Bytes} (h : pat <:+: w ++ y) : pat <:+: y := by
  induction w with
  | nil => exact h
  | cons c r ih =>
    exact ih (fun b hb => hw b (by simp [hb])) (infix_cons_nonquote hp hne (hw c (by simp)) h)

/-- a run of quotes inside `x ++ c :: y`, `c` not a quote, lies inside `x` or inside `y` -/
theorem infix_split {pat : Bytes} (hp : AllQ pat) (hne : pat ≠ []) {c : UInt8} (hc : c ≠ 0x27) (x y : Bytes)
    (h : pat <:+: x ++ c :: y) : pat <:+: x ∨ pat <:+: y := by
  induction x with
  | nil => exact Or.inr (infix_cons_nonquote hp hne hc h)
  | cons a x ih =>
    rw [List.cons_append] at h
    rcases List.infix_cons_iff.1 h with h | h
    · have h2 : (a :: x) ++ [c] <+: a :: (x ++ c :: y) := ⟨y, by simp⟩
      rcases List.prefix_or_prefix_of_prefix h h2 with h3 | h3
      · rcases List.prefix_concat_iff.1 h3 with h4 | h4
        · exact absurd (hp c (by rw [h4]; simp)) hc
        · exact Or.inl h4.isInfix
      · exact absurd (hp c (h3.subset (by simp))) hc
    · rcases ih h with h | h
      · exact Or.inl (List.infix_cons h)
      · exact Or.inr h

/-- no run inside `u`, and `u` does not end in a quote: no run starts inside `u`, whatever follows -/
theorem no_early_occurrence {pat : Bytes} (hp : AllQ pat) (u w : Bytes)
    (hend : ∀ b, u.getLast? = some b → b ≠ 0x27) (hno : ¬ pat <:+: u) :
    ∀ i, i < u.length → pat.isPrefixOf ((u ++ w).drop i) = false := by
  intro i hi
  cases hpre : pat.isPrefixOf ((u ++ w).drop i) with
  | false => rfl
  | true =>
    exfalso
    rw [List.isPrefixOf_iff_prefix, List.drop_append_of_le_length (by omega)] at hpre
    have h2 : u.drop i <+: u.drop i ++ w := List.prefix_append _ _
    rcases List.prefix_or_prefix_of_prefix hpre h2 with h3 | h3
    · exact hno (h3.isInfix.trans (List.drop_suffix i u).isInfix)
    · have hne : u.drop i ≠ [] := by
        intro e
        have := congrArg List.length e
        simp at this; omega
      cases hl : (u.drop i).getLast? with
      | none => exact absurd (List.getLast?_eq_none_iff.1 hl) hne
      | some b =>
        have hb : b ∈ pat := h3.subset (getLast?_mem hl)
        rw [List.getLast?_drop] at hl
        have : ¬ u.length ≤ i := by omega
        simp only [this, if_false] at hl
        exact hend b hl (hp b hb)

theorem findSub_spec (pat : Bytes) (hne : pat ≠ []) (s : Bytes) (p : Nat) (h : findSub pat s = some p) :
    pat.isPrefixOf (s.drop p) = true ∧ ∀ i, i < p → pat.isPrefixOf (s.drop i) = false := by
  induction s generalizing p with
  | nil =>
    unfold findSub at h
    have : pat.isEmpty = false := by simpa using hne
    simp [this] at h
  | cons b r ih =>
    unfold findSub at h
    split at h
    · rename_i hp
      simp only [Option.some.injEq] at h
      subst h
      exact ⟨by simpa using hp, by intro i hi; omega⟩
    · rename_i hp
      simp only [Option.map_eq_some_iff] at h
      obtain ⟨p', hp', rfl⟩ := h
      obtain ⟨h1, h2⟩ := ih p' hp'
      refine ⟨by simpa using h1, ?_⟩
      intro i hi
      cases i with
      | zero =>
        simp only [List.drop_zero]
        cases hx : pat.isPrefixOf (b :: r) with
        | false => rfl
        | true => exact absurd hx hp
      | succ j => simpa using h2 j (by omega)

theorem findSub_of_spec (pat : Bytes) (s : Bytes) (p : Nat) (hp : pat.isPrefixOf (s.drop p) = true) (hle : p ≤ s.length)
    (hno : ∀ i, i < p → pat.isPrefixOf (s.drop i) = false) : findSub pat s = some p := by
  induction s generalizing p with
  | nil =>
    have : p = 0 := by simpa using hle
    subst this
    unfold findSub
    have : pat = [] := by
      cases pat with
      | nil => rfl
      | cons a t => simp at hp
    simp [this]
  | cons b r ih =>
    unfold findSub
    cases p with
    | zero => simp only [List.drop_zero] at hp; simp [hp]
    | succ p' =>
      have h0 := hno 0 (by omega)
      simp only [List.drop_zero] at h0
      simp only [h0, Bool.false_eq_true, if_false]
      rw [ih p' (by simpa using hp) (by simpa using hle)
        (fun i hi => by simpa using hno (i + 1) (by omega))]
      rfl

/-! ### the scanner on a multi-line literal -/

theorem textLiteralLoop_not_multi (fuel : Nat) (l : Bytes) : (textLiteralLoop fuel l).2 ≠ .tMultiLine := by
  induction fuel generalizing l with
  | zero => simp [textLiteralLoop]
  | succ f ih =>
    unfold textLiteralLoop
    split
    · simp
    · simp
    · simp only []
      split
      · simp
      · simp
      · exact ih _

theorem countWhile_quotes (n : Nat) (x : Bytes) (hx : ∀ b r, x = b :: r → b ≠ 0x27) :
    countWhile (· == 0x27) (Qn n ++ x) = n := by
  induction n with
  | zero =>
    cases x with
    | nil => rfl
    | cons b r =>
      have := hx b r rfl
      simp [Qn, countWhile, this]
  | succ k ih =>
    have : Qn (k + 1) ++ x = 0x27 :: (Qn k ++ x) := by simp [Qn, List.replicate_succ]
    rw [this, countWhile]
    simp [ih]

theorem countWhile_split (l : Bytes) :
    l = Qn (countWhile (· == 0x27) l) ++ l.drop (countWhile (· == 0x27) l) ∧
      ∀ b r, l.drop (countWhile (· == 0x27) l) = b :: r → b ≠ 0x27 := by
  induction l with
  | nil => simp [countWhile, Qn]
  | cons a t ih =>
    unfold countWhile
    by_cases ha : (a == 0x27) = true
    · simp only [ha, if_true, List.drop_succ_cons]
      have : a = 0x27 := by simpa using ha
      subst this
      refine ⟨?_, ih.2⟩
      conv => lhs; rw [ih.1]
      simp [Qn, List.replicate_succ]
    · simp only [ha, Bool.false_eq_true, if_false, List.drop_zero]
      refine ⟨by simp [Qn], ?_⟩
      intro b r e
      simp at e
      rw [← e.1]
      simpa using ha

theorem length_Qn (n : Nat) : (Qn n).length = n := by simp [Qn]

/-- **the shape of a text that the scanner reads as one multi-line literal of length `len`**: an odd number `n ≥ 3` of
    quotes, a body that starts with CR or LF, the same `n` quotes, and no earlier place in body + closing quotes + rest
    where `n` quotes start -/
theorem textLiteral_multi (l : Bytes) (len : Nat) (h : textLiteral l = (len, .tMultiLine)) :
    ∃ (n : Nat) (t : UInt8) (b1 w : Bytes),
      (decide (n ≥ 3) && n % 2 == 1) = true ∧ (t = 0x0D ∨ t = 0x0A) ∧
      l = Qn n ++ (t :: b1) ++ Qn n ++ w ∧ len = n + (b1.length + 1) + n ∧
      ∀ i, i < b1.length + 1 → (Qn n).isPrefixOf (((t :: b1) ++ (Qn n ++ w)).drop i) = false := by
  obtain ⟨hl, hnq⟩ := countWhile_split l
  have hloop := textLiteralLoop_not_multi (l.length + 1) l
  unfold textLiteral at h
  simp only [] at h
  obtain ⟨qc, hqc⟩ : ∃ q, q = countWhile (· == 0x27) l := ⟨_, rfl⟩
  rw [← hqc] at h hl hnq
  have htake : l.take qc = Qn qc := by
    conv => lhs; rw [hl]
    exact List.take_left' (length_Qn qc)
  rw [htake] at h
  generalize hdrop : l.drop qc = afterQ at h hl hnq
  cases afterQ with
  | nil =>
    simp only [Bool.and_false, Bool.false_eq_true, if_false] at h
    rw [h] at hloop
    exact absurd rfl hloop
  | cons b r =>
    simp only [] at h
    split at h
    case isFalse =>
      rw [h] at hloop
      exact absurd rfl hloop
    rename_i hcond
    simp only [Bool.and_eq_true] at hcond
    obtain ⟨⟨hc1, hc2⟩, hc3⟩ := hcond
    have hqc3 : 3 ≤ qc := by simpa using hc1
    split at h
    case h_2 => simp at h
    rename_i pos hpos
    simp only [Prod.mk.injEq, and_true] at h
    obtain ⟨hpre, hnoocc⟩ := findSub_spec (Qn qc) (Qn_ne_nil (by omega)) (b :: r) pos hpos
    rw [List.isPrefixOf_iff_prefix] at hpre
    obtain ⟨w, hw⟩ := hpre
    simp only [Bool.or_eq_true, beq_iff_eq] at hc3
    cases pos with
    | zero =>
      exfalso
      simp only [List.drop_zero] at hw
      have hb : b = 0x27 := by
        have : Qn qc = 0x27 :: Qn (qc - 1) := by
          have : qc = (qc - 1) + 1 := by omega
          conv => lhs; rw [this]
          simp [Qn, List.replicate_succ]
        rw [this] at hw
        simp at hw
        exact hw.1.symm
      exact hnq b r rfl hb
    | succ p' =>
      have hple : p' ≤ r.length := by
        apply Classical.byContradiction
        intro hgt
        have : List.drop (p' + 1) (b :: r) = [] := by
          simp only [List.drop_succ_cons, List.drop_eq_nil_iff]; omega
        rw [this] at hw
        have := congrArg List.length hw
        simp [length_Qn] at this
        omega
      have hsplit : b :: r = (b :: r.take p') ++ (Qn qc ++ w) := by
        have := List.take_append_drop (p' + 1) (b :: r)
        rw [← hw] at this
        simpa using this.symm
      refine ⟨qc, b, r.take p', w, by simp [hc1, hc2], hc3, ?_, ?_, ?_⟩
      · rw [hl]
        conv => lhs; rw [hsplit]
        simp
      · rw [← h, List.length_take, Nat.min_eq_left hple]
      · intro i hi
        rw [List.length_take, Nat.min_eq_left hple] at hi
        rw [← hsplit]
        exact hnoocc i hi

/-- conversely: such a text scans as one multi-line literal -/
theorem textLiteral_of_shape (n : Nat) (t : UInt8) (b1 w : Bytes)
    (hn : (decide (n ≥ 3) && n % 2 == 1) = true) (ht : t = 0x0D ∨ t = 0x0A)
    (hno : ∀ i, i < b1.length + 1 → (Qn n).isPrefixOf (((t :: b1) ++ (Qn n ++ w)).drop i) = false) :
    textLiteral (Qn n ++ (t :: b1) ++ Qn n ++ w) = (n + (b1.length + 1) + n, .tMultiLine) := by
  obtain ⟨x, hx⟩ : ∃ x, x = b1 ++ (Qn n ++ w) := ⟨_, rfl⟩
  have hl : Qn n ++ (t :: b1) ++ Qn n ++ w = Qn n ++ (t :: x) := by rw [hx]; simp
  have hno' : ∀ i, i < b1.length + 1 → (Qn n).isPrefixOf ((t :: x).drop i) = false := by
    intro i hi; rw [hx]; exact hno i hi
  rw [hl]
  have htq : t ≠ 0x27 := by rcases ht with rfl | rfl <;> decide
  have hcw : countWhile (· == 0x27) (Qn n ++ (t :: x)) = n :=
    countWhile_quotes n _ (by intro b r e; simp at e; rw [← e.1]; exact htq)
  unfold textLiteral
  simp only []
  rw [hcw, List.take_left' (length_Qn n), List.drop_left' (length_Qn n)]
  simp only []
  have hcond : (decide (n ≥ 3) && n % 2 == 1 && (t == 0x0D || t == 0x0A)) = true := by
    rw [hn]
    rcases ht with rfl | rfl <;> simp
  rw [if_pos hcond]
  have hlen : b1.length + 1 ≤ (t :: x).length := by rw [hx]; simp
  rw [findSub_of_spec (Qn n) (t :: x) (b1.length + 1) ?_ hlen hno']
  have : List.drop (b1.length + 1) (t :: x) = Qn n ++ w := by
    rw [hx, List.drop_succ_cons]
    exact List.drop_left' rfl
  rw [this]
  exact isPrefixOf_self_append _ _

/-! ### the rewritten literal is still one token -/

/-- every line is a contiguous part of the text -/
theorem refLinesGo_infix (n : Nat) : ∀ (s : Bytes), s.length ≤ n → ∀ cur : Bytes,
    ∀ l ∈ refLinesGo cur s, l <:+: cur.reverse ++ s := by
  induction n with
  | zero =>
    intro s hs cur l hl
    have : s = [] := by cases s with | nil => rfl | cons a r => simp at hs
    subst this
    rw [refLinesGo_nil] at hl
    split at hl
    · simp at hl
    · simp at hl; subst hl; simp
  | succ n ih =>
    intro s hs cur l hl
    cases s with
    | nil => exact ih [] (by simp) cur l hl
    | cons c r =>
      have hr : r.length ≤ n := by simp at hs; omega
      by_cases hc : (c == 0x0D || c == 0x0A) = true
      · by_cases hx : c = 0x0D ∧ ∃ r', r = 0x0A :: r'
        · obtain ⟨rfl, r', rfl⟩ := hx
          rw [refLinesGo_cr_lf] at hl
          rcases List.mem_cons.1 hl with rfl | hl
          · exact (List.prefix_append _ _).isInfix
          · have := ih r' (by simp at hr; omega) [] l hl
            simp only [List.reverse_nil, List.nil_append] at this
            exact this.trans ⟨cur.reverse ++ [0x0D, 0x0A], [], by simp⟩
        · rw [refLinesGo_term _ _ _ hc hx] at hl
          rcases List.mem_cons.1 hl with rfl | hl
          · exact (List.prefix_append _ _).isInfix
          · have := ih r hr [] l hl
            simp only [List.reverse_nil, List.nil_append] at this
            exact this.trans ⟨cur.reverse ++ [c], [], by simp⟩
      · have hc' : (c == 0x0D || c == 0x0A) = false := by simpa using hc
        rw [refLinesGo_other _ _ _ hc'] at hl
        have := ih r hr (c :: cur) l hl
        simpa using this

theorem lineValue_suffix {base l v : Bytes} (h : lineValue base l = some v) : v <:+ l := by
  unfold lineValue at h
  split at h
  · simp at h; subst h; exact List.drop_suffix _ _
  · split at h
    · simp at h; subst h; exact List.nil_suffix
    · simp at h

theorem mapM_values_mem {base : Bytes} {ls vs : List Bytes} (h : ls.mapM (lineValue base) = some vs) :
    ∀ v ∈ vs, ∃ l ∈ ls, lineValue base l = some v := by
  induction ls generalizing vs with
  | nil => simp at h; subst h; intro v hv; simp at hv
  | cons x r ih =>
    simp only [List.mapM_cons] at h
    cases hx : lineValue base x with
    | none => simp [hx] at h
    | some w =>
      cases hr : r.mapM (lineValue base) with
      | none => simp [hx, hr] at h
      | some vs' =>
        simp [hx, hr] at h
        subst h
        intro v hv
        rcases List.mem_cons.1 hv with rfl | hv'
        · exact ⟨x, by simp, hx⟩
        · obtain ⟨l, hl, hlv⟩ := ih hr v hv'
          exact ⟨l, by simp [hl], hlv⟩

theorem nlStr_head {S : Settings} (hS : SettingsOk S) : ∃ c y, S.nlStr = c :: y ∧ (c = 0x0D ∨ c = 0x0A) := by
  rcases hS.nl with h | h <;> rw [h]
  · exact ⟨0x0A, [], rfl, Or.inr rfl⟩
  · exact ⟨0x0D, [0x0A], rfl, Or.inl rfl⟩

theorem nlStr_no_quote {S : Settings} (hS : SettingsOk S) : ∀ b ∈ S.nlStr, b ≠ 0x27 := by
  rcases hS.nl with h | h <;> rw [h] <;> intro b hb <;> simp at hb
  · subst hb; decide
  · rcases hb with rfl | rfl <;> decide

theorem newIndent_no_quote {S : Settings} (hS : SettingsOk S) (ind cont : Nat) : ∀ b ∈ newIndent S ind cont, b ≠ 0x27 := by
  intro b hb e
  have := (newIndent_indentBytes hS ind cont b hb).1
  subst e
  revert this; decide

/-- the rendered lines followed by a tail start with CR or LF, if the tail does -/
theorem renderAll_append_head {S : Settings} (hS : SettingsOk S) (ind cont : Nat) (vs : List Bytes) (tail : Bytes)
    (ht : ∃ c y, tail = c :: y ∧ (c = 0x0D ∨ c = 0x0A)) :
    ∃ c y, renderAll S ind cont vs ++ tail = c :: y ∧ (c = 0x0D ∨ c = 0x0A) := by
  cases vs with
  | nil => simpa [renderAll] using ht
  | cons v r =>
    obtain ⟨c, y, hy, hc⟩ := nlStr_head hS
    refine ⟨c, y ++ lineText S ind cont v ++ renderAll S ind cont r ++ tail, ?_, hc⟩
    simp [renderAll, hy]

/-- no run of quotes that is in none of the values is in the rendered lines -/
theorem render_no_run {S : Settings} (hS : SettingsOk S) (ind cont : Nat) {pat : Bytes} (hp : AllQ pat) (hne : pat ≠ [])
    (vs : List Bytes) (hvs : ∀ v ∈ vs, ¬ pat <:+: v) (tail : Bytes)
    (ht : ∃ c y, tail = c :: y ∧ (c = 0x0D ∨ c = 0x0A)) (hnt : ¬ pat <:+: tail) :
    ¬ pat <:+: renderAll S ind cont vs ++ tail := by
  induction vs with
  | nil => simpa [renderAll] using hnt
  | cons v r ih =>
    have ihr := ih (fun x hx => hvs x (by simp [hx]))
    obtain ⟨c, y, hy, hc⟩ := renderAll_append_head hS ind cont r tail ht
    have hcq : c ≠ 0x27 := by rcases hc with rfl | rfl <;> decide
    intro hin
    have e : renderAll S ind cont (v :: r) ++ tail =
        S.nlStr ++ (lineText S ind cont v ++ (renderAll S ind cont r ++ tail)) := by
      simp [renderAll]
    rw [e] at hin
    have h1 := infix_append_nonquote hp hne (nlStr_no_quote hS) hin
    unfold lineText at h1
    split at h1
    · exact ihr (by simpa using h1)
    · rw [List.append_assoc] at h1
      have h2 := infix_append_nonquote hp hne (newIndent_no_quote hS ind cont) h1
      rw [hy] at h2
      rcases infix_split hp hne hcq v y h2 with h3 | h3
      · exact hvs v (by simp) h3
      · exact ihr (by rw [hy]; exact List.infix_cons h3)

theorem Qn_succ_eq (n : Nat) : (0x27 : UInt8) :: Qn n = Qn n ++ [0x27] := by
  unfold Qn
  rw [← List.replicate_succ, List.replicate_succ']

/-- **The rewritten literal is still one multi-line literal token.**  If the scanner reads `content` in front of `rest`
    as one multi-line string literal, and the re-indenter turns `content` into `c'`, then the scanner reads `c'` in
    front of the same `rest` as one multi-line string literal again, of length exactly `|c'|`. -/
theorem mls_one_token (S : Settings) (hS : SettingsOk S) (content rest : Bytes) (ind cont : Nat) (c' : Bytes)
    (hscan : textLiteral (content ++ rest) = (content.length, .tMultiLine))
    (h : mlsRewrite S content ind cont = some c') :
    textLiteral (c' ++ rest) = (c'.length, .tMultiLine) := by
  obtain ⟨n, t, b1, w, hn, ht, hl, hlen, hnoocc⟩ := textLiteral_multi _ _ hscan
  have hn3 : 3 ≤ n := by
    simp only [Bool.and_eq_true, decide_eq_true_eq] at hn; exact hn.1
  have hQne : Qn n ≠ [] := Qn_ne_nil (by omega)
  have hQ := allQ_Qn n
  -- content and rest
  have hsplit : content = Qn n ++ (t :: b1) ++ Qn n ∧ rest = w :=
    List.append_inj hl (by simp [length_Qn, hlen]; omega)
  obtain ⟨hcontent, rfl⟩ := hsplit
  have hq : content.getLast? = some 0x27 := by
    rw [hcontent]; exact ends_quote_of_allQ _ _ hQne hQ
  obtain ⟨first, interior, base, q, vs, _, _, hclw, hqne, hAllQ, hvals, hc', _, _, _, _, a', ha', hfi⟩ :=
    mlsRewrite_struct S content ind cont c' hq h
  -- the body of the original contains no run of n quotes
  have hnobody : ¬ Qn n <:+: (t :: b1) := by
    rintro ⟨u, x, hux⟩
    have hi : u.length < b1.length + 1 := by
      have := congrArg List.length hux
      simp [length_Qn] at this
      omega
    have := hnoocc u.length hi
    rw [← hux] at this
    have e : (u ++ Qn n ++ x ++ (Qn n ++ rest)).drop u.length = Qn n ++ (x ++ (Qn n ++ rest)) := by
      have : u ++ Qn n ++ x ++ (Qn n ++ rest) = u ++ (Qn n ++ (x ++ (Qn n ++ rest))) := by simp
      rw [this]; exact List.drop_left' rfl
    rw [e, isPrefixOf_self_append] at this
    exact absurd this (by simp)
  -- the closing quotes are exactly the opening ones
  have hbase_nq : (0x27 : UInt8) ∉ base := by
    have := take_countLeadingWs_no_quote (base ++ q)
    rw [hclw] at this
    simpa using this
  have hlastnq : ∀ b, (a' ++ 0x0A :: base).getLast? = some b → b ≠ 0x27 := by
    intro b hb e
    subst e
    by_cases hbn : base = []
    · subst hbn
      simp at hb
    · have : (a' ++ 0x0A :: base) = (a' ++ [0x0A]) ++ base := by simp
      rw [this, getLast?_append_ne _ _ hbn] at hb
      exact hbase_nq (getLast?_mem hb)
  have heq : (Qn n ++ (t :: b1)) ++ Qn n = (a' ++ 0x0A :: base) ++ q := by
    rw [← hcontent, ha']; simp
  have hkey : q = Qn n ∧ a' ++ 0x0A :: base = Qn n ++ (t :: b1) := by
    rcases List.append_eq_append_iff.1 heq with ⟨m, h1, h2⟩ | ⟨m, h1, h2⟩
    · -- a' ++ LF :: base = Qn n ++ body ++ m, Qn n = m ++ q
      by_cases hm : m = []
      · subst hm
        simp only [List.append_nil, List.nil_append] at h1 h2
        exact ⟨h2.symm, h1⟩
      · exfalso
        have hmQ : AllQ m := fun b hb => hQ b (by rw [h2]; simp [hb])
        have := ends_quote_of_allQ (Qn n ++ (t :: b1)) m hm hmQ
        rw [← h1] at this
        exact hlastnq _ this rfl
    · -- Qn n ++ body = a' ++ LF :: base ++ m, q = m ++ Qn n
      by_cases hm : m = []
      · subst hm
        simp only [List.append_nil, List.nil_append] at h1 h2
        exact ⟨h2, h1.symm⟩
      · exfalso
        have hmQ : AllQ m := fun b hb => hAllQ b (by rw [h2]; simp [hb])
        have h3 := ends_quote_of_allQ (a' ++ 0x0A :: base) m hm hmQ
        rw [← h1, getLast?_append_ne _ _ (by simp)] at h3
        -- the body ends in a quote: n quotes start one byte before its end
        obtain ⟨d, hd⟩ := List.getLast?_eq_some_iff.1 h3
        have hi : d.length < b1.length + 1 := by
          have := congrArg List.length hd
          simp at this
          omega
        have := hnoocc _ hi
        have e : ((t :: b1) ++ (Qn n ++ rest)).drop d.length = Qn n ++ ([0x27] ++ rest) := by
          rw [hd]
          have : d ++ [0x27] ++ (Qn n ++ rest) = d ++ (0x27 :: Qn n ++ rest) := by simp
          rw [this, List.drop_left' rfl, Qn_succ_eq]
          simp
        rw [e, isPrefixOf_self_append] at this
        exact absurd this (by simp)
  obtain ⟨hqQ, hbody⟩ := hkey
  subst hqQ
  -- the first line and the interior lines
  have hkey2 : ∃ bm, a' ++ [0x0A] = Qn n ++ bm ∧ (t :: b1) = bm ++ base := by
    have : (a' ++ [0x0A]) ++ base = Qn n ++ (t :: b1) := by rw [← hbody]; simp
    rcases List.append_eq_append_iff.1 this with ⟨m, h1, h2⟩ | ⟨m, h1, h2⟩
    · exfalso
      have : (0x0A : UInt8) ∈ Qn n := by rw [h1]; simp
      exact absurd (hQ _ this) (by decide)
    · exact ⟨m, h1, h2⟩
  obtain ⟨bm, hbm1, hbm2⟩ := hkey2
  have hlines : first = Qn n ∧ ∃ z, interior = refLinesGo [] z ∧ z <:+: (t :: b1) := by
    rw [hbm1] at hfi
    cases bm with
    | nil =>
      exfalso
      have : (0x0A : UInt8) ∈ Qn n := by
        have e := hbm1
        simp only [List.append_nil] at e
        rw [← e]; simp
      exact absurd (hQ _ this) (by decide)
    | cons t' bm' =>
      have htt : t' = t := by
        simp only [List.cons_append, List.cons.injEq] at hbm2
        exact hbm2.1.symm
      subst htt
      have ht2 : (t' == 0x0D || t' == 0x0A) = true := by rcases ht with rfl | rfl <;> decide
      rw [refLinesGo_noNl (Qn n) (allQ_noNl hQ), List.append_nil] at hfi
      by_cases hx : t' = 0x0D ∧ ∃ r', bm' = 0x0A :: r'
      · obtain ⟨rfl, r', rfl⟩ := hx
        rw [refLinesGo_cr_lf, List.reverse_reverse] at hfi
        simp only [List.cons.injEq] at hfi
        refine ⟨hfi.1.symm, r', hfi.2.symm, ?_⟩
        rw [hbm2]
        exact ⟨[0x0D, 0x0A], base, by simp⟩
      · rw [refLinesGo_term _ _ _ ht2 hx, List.reverse_reverse] at hfi
        simp only [List.cons.injEq] at hfi
        refine ⟨hfi.1.symm, bm', hfi.2.symm, ?_⟩
        rw [hbm2]
        exact ⟨[t'], base, by simp⟩
  obtain ⟨hfirst, z, hz1, hz2⟩ := hlines
  subst hfirst
  -- no value contains a run of n quotes
  have hvsrun : ∀ v ∈ vs, ¬ Qn n <:+: v := by
    intro v hv hin
    obtain ⟨l, hl, hlv⟩ := mapM_values_mem hvals v hv
    rw [hz1] at hl
    have h1 := refLinesGo_infix z.length z (Nat.le_refl _) [] l hl
    simp only [List.reverse_nil, List.nil_append] at h1
    exact hnobody (((hin.trans (lineValue_suffix hlv).isInfix).trans h1).trans hz2)
  -- the new body
  obtain ⟨c0, y0, hnl0, hc0⟩ := nlStr_head hS
  have htail : ∃ c y, S.nlStr ++ newIndent S ind cont = c :: y ∧ (c = 0x0D ∨ c = 0x0A) :=
    ⟨c0, y0 ++ newIndent S ind cont, by rw [hnl0]; simp, hc0⟩
  have htailnq : ∀ b ∈ S.nlStr ++ newIndent S ind cont, b ≠ 0x27 := by
    intro b hb
    rcases List.mem_append.1 hb with h | h
    · exact nlStr_no_quote hS b h
    · exact newIndent_no_quote hS ind cont b h
  have hnt : ¬ Qn n <:+: S.nlStr ++ newIndent S ind cont := by
    intro hin
    have := infix_append_nonquote hQ hQne htailnq (y := []) (by simpa using hin)
    exact hQne (List.infix_nil.1 this)
  obtain ⟨body', hbody'⟩ : ∃ b, b = renderAll S ind cont vs ++ (S.nlStr ++ newIndent S ind cont) := ⟨_, rfl⟩
  have hnorun : ¬ Qn n <:+: body' := by
    rw [hbody']; exact render_no_run hS ind cont hQ hQne vs hvsrun _ htail hnt
  obtain ⟨t2, b2, hb2, ht2⟩ := renderAll_append_head hS ind cont vs _ htail
  rw [← hbody'] at hb2
  have hend : ∀ b, body'.getLast? = some b → b ≠ 0x27 := by
    intro b hb
    have hne : S.nlStr ++ newIndent S ind cont ≠ [] := by rw [hnl0]; simp
    rw [hbody', getLast?_append_ne _ _ hne] at hb
    exact htailnq b (getLast?_mem hb)
  have hceq : c' = Qn n ++ (t2 :: b2) ++ Qn n := by
    rw [hc', renderAll_snoc, lineText_quotes S ind cont hQne, ← hb2, hbody']
    simp
  have hno2 := no_early_occurrence hQ body' (Qn n ++ rest) hend hnorun
  rw [hb2] at hno2
  have := textLiteral_of_shape n t2 b2 rest hn ht2 (by
    intro i hi
    exact hno2 i (by simpa using hi))
  rw [hceq]
  simp only [List.length_append, length_Qn, List.length_cons]
  exact this

/-- the scanner on a text that starts with a quote (in and outside `asm` blocks): no leading blanks, the text-literal
    sub-lexer decides length and kind -/
theorem lexOne_quote (simd : Bool) (st : LexState) (x : Bytes) :
    lexOne simd st (0x27 :: x) = some (some (0, (textLiteral (0x27 :: x)).1, .rTextLiteral (textLiteral (0x27 :: x)).2,
      { isFirst := false, inAsm := st.inAsm, prevReal := some (.rTextLiteral (textLiteral (0x27 :: x)).2) })) := by
  have h1 : lexerMap.getD (0x27 : UInt8).toNat .unknown = .text_literal := by decide +kernel
  have h2 : asmLexerMap.getD (0x27 : UInt8).toNat .unknown = .text_literal := by decide +kernel
  unfold lexOne
  have hws : countLeadingWs (0x27 :: x) = 0 := by
    rw [countLeadingWs]
    · simp
    · intro r' e; cases e
  simp only [hws, List.drop_zero]
  have hsub : (if st.inAsm = true then asmLexerMap else lexerMap).getD (0x27 : UInt8).toNat .unknown = .text_literal := by
    split <;> assumption
  rw [hsub]
  unfold runSub
  simp
  intro hc
  simp [RawTokenType.isCommentOrDirective] at hc

/-- `mls_one_token` for one step of the scanner -/
theorem mls_one_token_lexOne (S : Settings) (hS : SettingsOk S) (content rest : Bytes) (ind cont : Nat) (c' : Bytes)
    (hscan : textLiteral (content ++ rest) = (content.length, .tMultiLine))
    (h : mlsRewrite S content ind cont = some c') (simd : Bool) (st : LexState) :
    lexOne simd st (c' ++ rest) = some (some (0, c'.length, .rTextLiteral .tMultiLine,
      { isFirst := false, inAsm := st.inAsm, prevReal := some (.rTextLiteral .tMultiLine) })) := by
  have h1 := mls_one_token S hS content rest ind cont c' hscan h
  obtain ⟨n, t, b1, w, hn, _, hl, _, _⟩ := textLiteral_multi _ _ h1
  have hn3 : 3 ≤ n := by
    simp only [Bool.and_eq_true, decide_eq_true_eq] at hn; exact hn.1
  obtain ⟨x, hx⟩ : ∃ x, c' ++ rest = 0x27 :: x := by
    rw [hl]
    have : Qn n = 0x27 :: Qn (n - 1) := by
      have : n = (n - 1) + 1 := by omega
      conv => lhs; rw [this]
      simp [Qn, List.replicate_succ]
    exact ⟨Qn (n - 1) ++ (t :: b1) ++ Qn n ++ w, by rw [this]; simp⟩
  rw [hx, lexOne_quote, ← hx, h1]

/-- a text that the scanner reads as a multi-line literal ends in a quote -/
theorem multi_ends_quote (content rest : Bytes)
    (hscan : textLiteral (content ++ rest) = (content.length, .tMultiLine)) : content.getLast? = some 0x27 := by
  obtain ⟨n, t, b1, w, hn, _, hl, hlen, _⟩ := textLiteral_multi _ _ hscan
  have hn3 : 3 ≤ n := by
    simp only [Bool.and_eq_true, decide_eq_true_eq] at hn; exact hn.1
  have hsplit : content = Qn n ++ (t :: b1) ++ Qn n ∧ rest = w :=
    List.append_inj hl (by simp [length_Qn, hlen]; omega)
  rw [hsplit.1]
  exact ends_quote_of_allQ _ _ (Qn_ne_nil (by omega)) (allQ_Qn n)

end Pasfmt.MlsMore
