import PasfmtModel.Model.Bytes

namespace Pasfmt

/-- `g` is absorbed by `stripBlank` whatever follows it -/
def Gap (g : Bytes) : Prop := ∀ x, stripBlank (g ++ x) = stripBlank x

/-- `stripBlank` distributes over `c ++ ·` -/
def Closed (c : Bytes) : Prop := ∀ x, stripBlank (c ++ x) = stripBlank c ++ stripBlank x

theorem Gap.nil : Gap [] := fun _ => rfl

theorem Gap.append {a b : Bytes} (ha : Gap a) (hb : Gap b) : Gap (a ++ b) := by
  intro x; rw [List.append_assoc, ha, hb]

theorem Gap.blankOnly {g : Bytes} (h : Gap g) : BlankOnly g := by
  have := h []; simpa [BlankOnly, stripBlank] using this

theorem Gap.closed {g : Bytes} (h : Gap g) : Closed g := by
  intro x
  rw [h x, Gap.blankOnly h]; rfl

theorem stripBlank_cons_le (b : UInt8) (r : Bytes) (h : b ≤ 0x20) : stripBlank (b :: r) = stripBlank r := by
  have hne : b ≠ 0xE3 := by intro hb; subst hb; exact absurd h (by decide)
  rw [stripBlank.eq_3]
  · simp [h]
  · intro r' hb; exact absurd hb hne

theorem Gap.single {b : UInt8} (h : b ≤ 0x20) : Gap [b] := by
  intro x; simpa using stripBlank_cons_le b x h

theorem Gap.u3000 : Gap [0xE3, 0x80, 0x80] := by
  intro x; simp [stripBlank]

theorem Gap.replicate {b : UInt8} (h : b ≤ 0x20) (n : Nat) : Gap (List.replicate n b) := by
  induction n with
  | zero => exact Gap.nil
  | succ n ih =>
    intro x
    rw [List.replicate_succ, List.cons_append, stripBlank_cons_le _ _ h]
    exact ih x

/-- every byte `≤ 0x20` -/
def AllLe20 (g : Bytes) : Prop := ∀ b ∈ g, b ≤ 0x20

theorem Gap.of_allLe20 {g : Bytes} (h : AllLe20 g) : Gap g := by
  induction g with
  | nil => exact Gap.nil
  | cons b r ih =>
    intro x
    rw [List.cons_append, stripBlank_cons_le _ _ (h b (by simp))]
    exact ih (fun c hc => h c (by simp [hc])) x

theorem Gap.flatten {gs : List Bytes} (h : ∀ g ∈ gs, Gap g) : Gap gs.flatten := by
  induction gs with
  | nil => exact Gap.nil
  | cons g r ih =>
    rw [List.flatten_cons]
    exact Gap.append (h g (by simp)) (ih (fun g' hg' => h g' (by simp [hg'])))

theorem Gap.replicateBytes {s : Bytes} (h : Gap s) (n : Nat) : Gap (replicateBytes n s) := by
  unfold Pasfmt.replicateBytes
  apply Gap.flatten
  intro g hg
  rw [List.mem_replicate] at hg
  rw [hg.2]; exact h

/-- the prefix recognised by `countLeadingWs` is a gap -/
theorem Gap.leadingWs (l : Bytes) : Gap (l.take (countLeadingWs l)) := by
  induction l using countLeadingWs.induct with
  | case1 => simpa [countLeadingWs] using Gap.nil
  | case2 r ih =>
    rw [countLeadingWs]
    intro x
    have : List.take (countLeadingWs r + 3) (0xE3 :: 0x80 :: 0x80 :: r) = [0xE3, 0x80, 0x80] ++ List.take (countLeadingWs r) r := by
      simp [List.take_succ_cons]
    rw [this]
    exact Gap.append Gap.u3000 ih x
  | case3 b r hne hle ih =>
    have : countLeadingWs (b :: r) = countLeadingWs r + 1 := by
      rw [countLeadingWs]
      · simp [hle]
      · intro r' h; exact hne r' h
    rw [this]
    intro x
    rw [List.take_succ_cons, List.cons_append, stripBlank_cons_le _ _ (by simpa using hle)]
    exact ih x
  | case4 b r hne hle =>
    have : countLeadingWs (b :: r) = 0 := by
      rw [countLeadingWs]
      · simp [hle]
      · intro r' h; exact hne r' h
    rw [this]; simpa using Gap.nil

end Pasfmt
