/-
  Declarative specifications of the remaining sub-lexers of `Model/Lexer.lean` (continuation of
  `LexSpecs.lean`), each proved for every input (induction on the text, no length bound):

  * compiler directives `{$…}` / `(*$…*)`: the directive name and the table of conditional
    directives, the plain directive (first closer, else end of text minus trailing blanks), and the
    expression scanner of `{$if …}` / `{$elseif …}` (`DirEnd`: a grammar of skipped constructs);
  * ampersand tokens;
  * assembler mode: when it is entered and left, and its own tokens (labels, numbers, `"…"`).

  The vocabulary (`LongestPrefixIn`, `AllBytes`, `FirstOcc`, `OccursAt`, …) is that of `LexSpecs.lean`.
-/
import PasfmtModel.Proofs.LexSpecs
import PasfmtModel.Proofs.LexLocal4

namespace Pasfmt

/-! ## generic helpers -/

/-- lifting of a statement checked on all 256 byte values -/
theorem forall_byte {P : UInt8 → Prop} (h : ∀ n : Fin 256, P (UInt8.ofNat n.val)) (b : UInt8) : P b := by
  have := h ⟨b.toNat, b.toNat_lt⟩
  simpa only [UInt8.ofNat_toNat] using this

/-! ## 1. compiler directives: name and kind -/

/-- a byte of a directive name: ASCII letter, digit or `_` -/
theorem isDirectiveNameByte_iff (b : UInt8) : isDirectiveNameByte b = true ↔
    (0x41 ≤ b ∧ b ≤ 0x5A) ∨ (0x61 ≤ b ∧ b ≤ 0x7A) ∨ (0x30 ≤ b ∧ b ≤ 0x39) ∨ b = 0x5F := by
  simp [isDirectiveNameByte, isAlnum, isAlpha, isUpper, isLower, isDigit, or_assoc]

/-- the directive names that make a *conditional* directive token, in lower case, with their kinds -/
def conditionalDirectiveTable : List (Bytes × ConditionalDirectiveKind) :=
  [ ([0x69, 0x66], .dIf),                                   -- if
    ([0x69, 0x66, 0x64, 0x65, 0x66], .dIfdef),              -- ifdef
    ([0x69, 0x66, 0x6E, 0x64, 0x65, 0x66], .dIfndef),       -- ifndef
    ([0x69, 0x66, 0x6F, 0x70, 0x74], .dIfopt),              -- ifopt
    ([0x65, 0x6C, 0x73, 0x65, 0x69, 0x66], .dElseif),       -- elseif
    ([0x65, 0x6C, 0x73, 0x65], .dElse),                     -- else
    ([0x69, 0x66, 0x65, 0x6E, 0x64], .dIfend),              -- ifend
    ([0x65, 0x6E, 0x64, 0x69, 0x66], .dEndif) ]             -- endif

/-- the name of a directive: the maximal run of name bytes after `{$` / `(*$` -/
def directiveName (l : Bytes) : Bytes := l.takeWhile isDirectiveNameByte

/-- kind of the directive called `name`: the table entry spelled like the lower-cased name -/
def directiveKindSpec (name : Bytes) : Option ConditionalDirectiveKind :=
  (conditionalDirectiveTable.find? (fun e => e.1 == asciiLower name)).map (·.2)

theorem conditionalDirectiveType_fst (l : Bytes) :
    (conditionalDirectiveType l).1 = countWhile isDirectiveNameByte l := rfl

theorem conditionalDirectiveType_snd (l : Bytes) :
    (conditionalDirectiveType l).2 = directiveKindSpec (directiveName l) := by
  unfold directiveName
  rw [← take_countWhile]
  unfold conditionalDirectiveType directiveKindSpec conditionalDirectiveTable
  simp only
  generalize asciiLower (l.take (countWhile isDirectiveNameByte l)) = w
  have e1 : "if".toUTF8.toList = [0x69, 0x66] := by decide +kernel
  have e2 : "ifdef".toUTF8.toList = [0x69, 0x66, 0x64, 0x65, 0x66] := by decide +kernel
  have e3 : "ifndef".toUTF8.toList = [0x69, 0x66, 0x6E, 0x64, 0x65, 0x66] := by decide +kernel
  have e4 : "ifopt".toUTF8.toList = [0x69, 0x66, 0x6F, 0x70, 0x74] := by decide +kernel
  have e5 : "elseif".toUTF8.toList = [0x65, 0x6C, 0x73, 0x65, 0x69, 0x66] := by decide +kernel
  have e6 : "else".toUTF8.toList = [0x65, 0x6C, 0x73, 0x65] := by decide +kernel
  have e7 : "ifend".toUTF8.toList = [0x69, 0x66, 0x65, 0x6E, 0x64] := by decide +kernel
  have e8 : "endif".toUTF8.toList = [0x65, 0x6E, 0x64, 0x69, 0x66] := by decide +kernel
  rw [e1, e2, e3, e4, e5, e6, e7, e8]
  simp only [List.find?_cons, List.find?_nil]
  repeat' split
  all_goals simp_all

theorem conditionalDirectiveTable_lower :
    conditionalDirectiveTable.all (fun e => asciiLower e.1 == e.1) = true := by decide +kernel

/-- relational reading of the table lookup: the kind is `k` exactly when the name is, up to ASCII
    letter case, the spelling of the table entry for `k` -/
theorem directiveKindSpec_some_iff (name : Bytes) (k : ConditionalDirectiveKind) :
    directiveKindSpec name = some k ↔
      ∃ w, (w, k) ∈ conditionalDirectiveTable ∧ eqIgnoreCase name w = true := by
  have hlow := conditionalDirectiveTable_lower
  rw [List.all_eq_true] at hlow
  unfold directiveKindSpec
  constructor
  · intro h
    rw [Option.map_eq_some_iff] at h
    obtain ⟨e, he, rfl⟩ := h
    refine ⟨e.1, List.mem_of_find?_eq_some he, ?_⟩
    have h1 := List.find?_some he
    have h2 := hlow e (List.mem_of_find?_eq_some he)
    simp only [beq_iff_eq] at h1 h2
    unfold eqIgnoreCase
    rw [h2, h1]; simp
  · rintro ⟨w, hw, hic⟩
    have h2 := hlow (w, k) hw
    simp only [beq_iff_eq] at h2
    unfold eqIgnoreCase at hic
    rw [h2] at hic
    rw [beq_iff_eq.1 hic]
    -- the spellings of the table are pairwise different, so the lookup finds this very entry
    clear hic h2
    simp only [conditionalDirectiveTable, List.mem_cons, Prod.mk.injEq, List.not_mem_nil, or_false] at hw
    rcases hw with ⟨rfl, rfl⟩ | ⟨rfl, rfl⟩ | ⟨rfl, rfl⟩ | ⟨rfl, rfl⟩ | ⟨rfl, rfl⟩ | ⟨rfl, rfl⟩ | ⟨rfl, rfl⟩ | ⟨rfl, rfl⟩ <;>
      decide +kernel

/-- directive names are compared without regard to ASCII letter case -/
theorem directiveKindSpec_case (name : Bytes) :
    directiveKindSpec (asciiLower name) = directiveKindSpec name ∧
    directiveKindSpec (asciiUpper name) = directiveKindSpec name := by
  unfold directiveKindSpec
  rw [asciiLower_idem, asciiLower_upper]
  exact ⟨rfl, rfl⟩

/-! ## 1a. plain directives (every name except `if` / `elseif`) -/

theorem occursAt_head (c : UInt8) (p l : Bytes) (j : Nat) (h : OccursAt (c :: p) l j) : l[j]? = some c := by
  obtain ⟨t, ht⟩ := h
  have : (l.drop j)[0]? = some c := by rw [← ht]; rfl
  simpa using this

theorem occursAt_drop (pat l : Bytes) (n i : Nat) : OccursAt pat (l.drop n) i ↔ OccursAt pat l (n + i) := by
  unfold OccursAt
  rw [List.drop_drop]

theorem firstOcc_drop (pat l : Bytes) (n i : Nat) (h : ∀ j, j < n → ¬ OccursAt pat l j) :
    FirstOcc pat (l.drop n) i ↔ FirstOcc pat l (n + i) := by
  unfold FirstOcc
  rw [occursAt_drop]
  constructor
  · rintro ⟨ho, hmin⟩
    refine ⟨ho, fun j hj hc => ?_⟩
    by_cases hjn : j < n
    · exact h j hjn hc
    · have := hmin (j - n) (by omega)
      rw [occursAt_drop] at this
      exact this (by rwa [show n + (j - n) = j by omega])
  · rintro ⟨ho, hmin⟩
    refine ⟨ho, fun j hj hc => ?_⟩
    rw [occursAt_drop] at hc
    exact hmin (n + j) (by omega) hc

theorem noOcc_drop (pat l : Bytes) (n : Nat) (h : ∀ j, j < n → ¬ OccursAt pat l j) :
    (∀ j, ¬ OccursAt pat (l.drop n) j) ↔ ∀ j, ¬ OccursAt pat l j := by
  constructor
  · intro hall j hc
    by_cases hjn : j < n
    · exact h j hjn hc
    · refine hall (j - n) ?_
      rw [occursAt_drop, show n + (j - n) = j by omega]; exact hc
  · intro hall j hc
    rw [occursAt_drop] at hc
    exact hall _ hc

/-- no closer starts inside the directive name -/
theorem no_closer_in_name (k : BlockCommentKind) (l : Bytes) (j : Nat)
    (hj : j < countWhile isDirectiveNameByte l) : ¬ OccursAt (closer k) l j := by
  intro hc
  have hb : ∀ c p, closer k = c :: p → isDirectiveNameByte c = false := by
    intro c p h; cases k <;> (simp only [closer, List.cons.injEq] at h; rw [← h.1]; decide)
  cases hk : closer k with
  | nil => exact closer_ne_nil k hk
  | cons c p =>
    rw [hk] at hc
    have h1 := occursAt_head c p l j hc
    have h2 := countWhile_all isDirectiveNameByte l j hj c h1
    rw [hb c p hk] at h2
    exact absurd h2 (by simp)

/-- is `name` (any letter case) one of the two directives whose body is an expression:
    `if`, `elseif` -/
def isExprName (name : Bytes) : Bool := isExprDirective (directiveKindSpec name)

theorem isExprName_iff (name : Bytes) : isExprName name = true ↔
    eqIgnoreCase name [0x69, 0x66] = true ∨ eqIgnoreCase name [0x65, 0x6C, 0x73, 0x65, 0x69, 0x66] = true := by
  unfold isExprName
  constructor
  · intro h
    cases hk : directiveKindSpec name with
    | none => rw [hk] at h; simp [isExprDirective] at h
    | some k =>
      obtain ⟨w, hw, hic⟩ := (directiveKindSpec_some_iff name k).1 hk
      rw [hk] at h
      cases k <;> simp [isExprDirective] at h
      · left
        have : w = [0x69, 0x66] := by
          revert hw; simp only [conditionalDirectiveTable, List.mem_cons, Prod.mk.injEq, List.not_mem_nil]
          intro hw; rcases hw with h | h | h | h | h | h | h | h | h <;> simp_all
        rw [← this]; exact hic
      · right
        have : w = [0x65, 0x6C, 0x73, 0x65, 0x69, 0x66] := by
          revert hw; simp only [conditionalDirectiveTable, List.mem_cons, Prod.mk.injEq, List.not_mem_nil]
          intro hw; rcases hw with h | h | h | h | h | h | h | h | h <;> simp_all
        rw [← this]; exact hic
  · rintro (h | h)
    · rw [(directiveKindSpec_some_iff name .dIf).2 ⟨_, by simp [conditionalDirectiveTable], h⟩]; rfl
    · rw [(directiveKindSpec_some_iff name .dElseif).2 ⟨_, by simp [conditionalDirectiveTable], h⟩]; rfl

/-- declarative result `(token length, kind)` of scanning a directive whose name is not `if` /
    `elseif`; `l` = the text after `{$` resp. `(*$`, `openLen` = 2 resp. 3, `tokLen` = number of
    bytes from the opener to the end of the text, `trim` = blank run at the end of the text -/
inductive PlainDirectiveSpec (kind : BlockCommentKind) (trim openLen tokLen : Nat) (l : Bytes) :
    Nat × Option ConditionalDirectiveKind → Prop
  /-- terminated: the token ends right after the first occurrence of the closer in `l` -/
  | closed (i : Nat) (h : FirstOcc (closer kind) l i) :
      PlainDirectiveSpec kind trim openLen tokLen l
        (openLen + (i + (closer kind).length), directiveKindSpec (directiveName l))
  /-- unterminated: to the end of the text minus the trailing blanks -/
  | unterminated (h : ∀ j, ¬ OccursAt (closer kind) l j) :
      PlainDirectiveSpec kind trim openLen tokLen l (tokLen - trim, directiveKindSpec (directiveName l))

theorem directiveName_length (l : Bytes) : (directiveName l).length = (conditionalDirectiveType l).1 := by
  unfold directiveName; rw [← countWhile_eq_takeWhile]; rfl

theorem compilerDirective_plain (trim : Nat) (kind : BlockCommentKind) (openLen tokLen : Nat) (l : Bytes)
    (hx : isExprName (directiveName l) = false) :
    compilerDirective trim kind openLen tokLen l =
      some (match findBlockCommentEnd kind (l.drop (countWhile isDirectiveNameByte l)) with
        | some e => (openLen + (countWhile isDirectiveNameByte l + e), directiveKindSpec (directiveName l))
        | none => (tokLen - trim, directiveKindSpec (directiveName l))) := by
  unfold isExprName at hx
  rw [← conditionalDirectiveType_snd] at hx ⊢
  unfold compilerDirective parseDirectiveExpr
  simp only [hx, Bool.false_eq_true, if_false, conditionalDirectiveType_fst]
  cases findBlockCommentEnd kind (l.drop (countWhile isDirectiveNameByte l)) <;> simp [shiftEnd]

theorem compilerDirective_plain_sat (trim : Nat) (kind : BlockCommentKind) (openLen tokLen : Nat) (l : Bytes)
    (hx : isExprName (directiveName l) = false) :
    ∃ x, compilerDirective trim kind openLen tokLen l = some x ∧ PlainDirectiveSpec kind trim openLen tokLen l x := by
  rw [compilerDirective_plain trim kind openLen tokLen l hx]
  refine ⟨_, rfl, ?_⟩
  have hno := no_closer_in_name kind l
  cases hf : findBlockCommentEnd kind (l.drop (countWhile isDirectiveNameByte l)) with
  | some e =>
    obtain ⟨i, rfl, hi⟩ := (findBlockCommentEnd_some_iff kind _ e).1 hf
    have := (firstOcc_drop _ l _ i hno).1 hi
    simp only
    rw [show openLen + (countWhile isDirectiveNameByte l + (i + (closer kind).length)) =
      openLen + (countWhile isDirectiveNameByte l + i + (closer kind).length) by omega]
    exact .closed _ this
  | none =>
    exact .unterminated ((noOcc_drop _ l _ hno).1 ((findBlockCommentEnd_none_iff kind _).1 hf))

theorem PlainDirectiveSpec.unique {kind : BlockCommentKind} {trim openLen tokLen : Nat} {l : Bytes}
    {x y : Nat × Option ConditionalDirectiveKind}
    (hx : PlainDirectiveSpec kind trim openLen tokLen l x) (hy : PlainDirectiveSpec kind trim openLen tokLen l y) :
    x = y := by
  cases hx with
  | closed i hi =>
    cases hy with
    | closed j hj => rw [FirstOcc.unique hi hj]
    | unterminated h => exact absurd hi.1 (h i)
  | unterminated h =>
    cases hy with
    | closed j hj => exact absurd hj.1 (h j)
    | unterminated _ => rfl

/-! ## 2. ampersand tokens -/

/-- the model's treatment of what follows the run of ampersands:
    `(bytes consumed after the run, kind)` -/
def ampFollow : Bytes → Nat × RawKind
  | c :: r' =>
    if c == 0x24 then (1 + countHex r', .rNumberLiteral .nHex)
    else if c == 0x25 then (1 + countBinary r', .rNumberLiteral .nBinary)
    else if isDigit c then (1 + decNumberRest r', .rNumberLiteral .nDecimal)
    else if isAlpha c || c == 0x5F then (1 + identLen r', .rIdentifier)
    else if c ≥ 0x80 && !(List.isPrefixOf [0xE3, 0x80, 0x80] (c :: r')) then
      (1 + (countWhile isCont r' + identLen (r'.drop (countWhile isCont r'))), .rIdentifier)
    else (0, .rUnknown)
  | [] => (0, .rUnknown)

/-- the model's `ampersand` sub-lexer; `r` = the bytes after the first `&`: `(token length, kind)` -/
def ampersandTok (r : Bytes) : Nat × RawKind :=
  (1 + countWhile (· == 0x26) r + (ampFollow (r.drop (countWhile (· == 0x26) r))).1,
    (ampFollow (r.drop (countWhile (· == 0x26) r))).2)

theorem runSub_ampersand (st : LexState) (b : UInt8) (r : Bytes) (nlb : Bool) (tF : Unit → Nat) (simd : Bool) :
    runSub st .ampersand b r nlb tF simd =
      some { len := (ampersandTok r).1, kind := (ampersandTok r).2, inAsm := st.inAsm } := by
  unfold ampersandTok
  simp only [runSub, idLen_eq]
  generalize r.drop (countWhile (· == 0x26) r) = d
  cases d with
  | nil => rfl
  | cons c r' =>
    simp only [ampFollow]
    by_cases h1 : (c == 0x24) = true
    · simp only [h1, if_true, Nat.add_assoc]
    simp only [h1, Bool.false_eq_true, if_false]
    by_cases h2 : (c == 0x25) = true
    · simp only [h2, if_true, Nat.add_assoc]
    simp only [h2, Bool.false_eq_true, if_false]
    by_cases h3 : isDigit c = true
    · simp only [h3, if_true, Nat.add_assoc]
    simp only [h3, Bool.false_eq_true, if_false]
    by_cases h4 : (isAlpha c || c == 0x5F) = true
    · simp only [h4, if_true, Nat.add_assoc]
    simp only [h4, Bool.false_eq_true, if_false]
    by_cases h5 : (decide (c ≥ 0x80) && !(List.isPrefixOf [0xE3, 0x80, 0x80] (c :: r'))) = true
    · simp only [h5, if_true, Nat.add_assoc]
    · simp only [h5, Bool.false_eq_true, if_false, Nat.add_zero]

/-- `n` is the length of the identifier run at the head of `l`: the identifier prefixes of `l`
    (see `IdentPrefix`) are exactly the lengths `≤ n` -/
def IsIdentRun (l : Bytes) (n : Nat) : Prop := ∀ m, IdentPrefix l m ↔ m ≤ n

theorem isIdentRun_iff (l : Bytes) (n : Nat) : IsIdentRun l n ↔ n = identLen l := by
  constructor
  · intro h
    have h1 := (identPrefix_iff l n).1 ((h n).2 (Nat.le_refl _))
    have h2 := (h (identLen l)).1 ((identPrefix_iff l _).2 (Nat.le_refl _))
    omega
  · rintro rfl m; exact identPrefix_iff l m

/-- what the text after the run of ampersands starts with ↦ `(bytes consumed after the run, kind)` -/
inductive AmpFollower : Bytes → Nat × RawKind → Prop
  /-- `$` + the longest run of hex digits and `_`: a hex literal -/
  | hex (r : Bytes) (n : Nat) (h : LongestPrefixIn (AllBytes isHexByte) r n) :
      AmpFollower (0x24 :: r) (1 + n, .rNumberLiteral .nHex)
  /-- `%` + the longest run of `0`, `1`, `_`: a binary literal -/
  | binary (r : Bytes) (n : Nat) (h : LongestPrefixIn (AllBytes isBinaryByte) r n) :
      AmpFollower (0x25 :: r) (1 + n, .rNumberLiteral .nBinary)
  /-- a digit + the longest decimal tail: a decimal literal -/
  | decimal (d : UInt8) (r : Bytes) (n : Nat) (hd : isDigit d = true) (h : LongestPrefixIn DecTail r n) :
      AmpFollower (d :: r) (1 + n, .rNumberLiteral .nDecimal)
  /-- an ASCII letter or `_` + the identifier run: an identifier (never a keyword) -/
  | ident (c : UInt8) (r : Bytes) (n : Nat) (hc : isAlpha c = true ∨ c = 0x5F) (h : IsIdentRun r n) :
      AmpFollower (c :: r) (1 + n, .rIdentifier)
  /-- a non-ASCII byte that does not start U+3000, the continuation bytes after it, and the
      identifier run after them: an identifier -/
  | unicode (c : UInt8) (r : Bytes) (k n : Nat) (hc : c ≥ 0x80) (hu : ¬ u3000 <+: c :: r)
      (hk : LongestPrefixIn (AllBytes isCont) r k) (h : IsIdentRun (r.drop k) n) :
      AmpFollower (c :: r) (1 + (k + n), .rIdentifier)
  /-- anything else (end of text, blank, U+3000, operator, quote, …): nothing is consumed and the
      ampersands alone form an "unknown" token -/
  | other (l : Bytes)
      (h : ∀ c r, l = c :: r → c ≠ 0x24 ∧ c ≠ 0x25 ∧ isDigit c = false ∧ isAlpha c = false ∧ c ≠ 0x5F ∧
        (c ≥ 0x80 → u3000 <+: l)) :
      AmpFollower l (0, .rUnknown)

theorem u3000_isPrefixOf (l : Bytes) : List.isPrefixOf [0xE3, 0x80, 0x80] l = true ↔ u3000 <+: l :=
  List.isPrefixOf_iff_prefix

theorem ampFollow_sat (l : Bytes) : AmpFollower l (ampFollow l) := by
  cases l with
  | nil => exact .other [] (fun c r h => by simp at h)
  | cons c r' =>
    simp only [ampFollow]
    by_cases h1 : (c == 0x24) = true
    · simp only [h1, if_true]
      rw [beq_iff_eq.1 h1]
      exact .hex r' _ (countWhile_longest isHexByte r')
    simp only [h1, Bool.false_eq_true, if_false]
    by_cases h2 : (c == 0x25) = true
    · simp only [h2, if_true]
      rw [beq_iff_eq.1 h2]
      exact .binary r' _ (countWhile_longest isBinaryByte r')
    simp only [h2, Bool.false_eq_true, if_false]
    by_cases h3 : isDigit c = true
    · simp only [h3, if_true]
      exact .decimal c r' _ h3 (decNumberRest_longest r')
    simp only [h3, Bool.false_eq_true, if_false]
    by_cases h4 : (isAlpha c || c == 0x5F) = true
    · simp only [h4, if_true]
      exact .ident c r' _ (by simpa using h4) ((isIdentRun_iff _ _).2 rfl)
    simp only [h4, Bool.false_eq_true, if_false]
    by_cases h5 : (decide (c ≥ 0x80) && !(List.isPrefixOf [0xE3, 0x80, 0x80] (c :: r'))) = true
    · simp only [h5, if_true]
      simp only [Bool.and_eq_true, decide_eq_true_eq, Bool.not_eq_true', ← Bool.not_eq_true, u3000_isPrefixOf] at h5
      exact .unicode c r' _ _ h5.1 h5.2 (countWhile_longest isCont r') ((isIdentRun_iff _ _).2 rfl)
    · simp only [h5, Bool.false_eq_true, if_false]
      refine .other _ ?_
      intro c' r'' heq
      simp only [List.cons.injEq] at heq
      obtain ⟨rfl, rfl⟩ := heq
      simp only [Bool.or_eq_true, beq_iff_eq, not_or] at h4
      refine ⟨by simpa using h1, by simpa using h2, by simpa using h3, by simpa using h4.1, h4.2, ?_⟩
      intro hge
      simp only [Bool.and_eq_true, decide_eq_true_eq, not_and, Bool.not_eq_true', Bool.not_eq_false] at h5
      exact (u3000_isPrefixOf _).1 (h5 hge)

theorem amp_byte_classes (c : UInt8) :
    (isDigit c = true → (c == 0x24) = false ∧ (c == 0x25) = false) ∧
    (isAlpha c = true ∨ c = 0x5F → (c == 0x24) = false ∧ (c == 0x25) = false ∧ isDigit c = false) ∧
    (c ≥ 0x80 → (c == 0x24) = false ∧ (c == 0x25) = false ∧ isDigit c = false ∧ (isAlpha c || c == 0x5F) = false) :=
  forall_byte (P := fun c =>
    (isDigit c = true → (c == 0x24) = false ∧ (c == 0x25) = false) ∧
    (isAlpha c = true ∨ c = 0x5F → (c == 0x24) = false ∧ (c == 0x25) = false ∧ isDigit c = false) ∧
    (c ≥ 0x80 → (c == 0x24) = false ∧ (c == 0x25) = false ∧ isDigit c = false ∧ (isAlpha c || c == 0x5F) = false))
    (by decide +kernel) c

theorem ampFollow_only (l : Bytes) (x : Nat × RawKind) (h : AmpFollower l x) : x = ampFollow l := by
  cases h with
  | hex r n h =>
    rw [LongestPrefixIn.unique h (countWhile_longest isHexByte r)]; rfl
  | binary r n h =>
    rw [LongestPrefixIn.unique h (countWhile_longest isBinaryByte r)]; rfl
  | decimal d r n hd h =>
    rw [LongestPrefixIn.unique h (decNumberRest_longest r)]
    have := (amp_byte_classes d).1 hd
    simp only [ampFollow, this.1, this.2, hd, Bool.false_eq_true, if_false, if_true]
  | ident c r n hc h =>
    rw [(isIdentRun_iff _ _).1 h]
    have := (amp_byte_classes c).2.1 hc
    have h4 : (isAlpha c || c == 0x5F) = true := by simpa using hc
    simp only [ampFollow, this.1, this.2.1, this.2.2, h4, Bool.false_eq_true, if_false, if_true]
  | unicode c r k n hc hu hk h =>
    rw [(isIdentRun_iff _ _).1 h, LongestPrefixIn.unique hk (countWhile_longest isCont r)]
    have := (amp_byte_classes c).2.2 hc
    have h5 : (decide (c ≥ 0x80) && !(List.isPrefixOf [0xE3, 0x80, 0x80] (c :: r))) = true := by
      have : List.isPrefixOf [0xE3, 0x80, 0x80] (c :: r) = false := by
        apply (Bool.not_eq_true _).mp; rw [u3000_isPrefixOf]; exact hu
      simp [this, hc]
    simp only [ampFollow, this.1, this.2.1, this.2.2.1, this.2.2.2, h5, Bool.false_eq_true, if_false, if_true]
  | other l h =>
    cases l with
    | nil => rfl
    | cons c r =>
      obtain ⟨h1, h2, h3, h4, h5, h6⟩ := h c r rfl
      have h45 : (isAlpha c || c == 0x5F) = false := by simp [h4, h5]
      have h7 : (decide (c ≥ 0x80) && !(List.isPrefixOf [0xE3, 0x80, 0x80] (c :: r))) = false := by
        by_cases hge : c ≥ 0x80
        · simp [(u3000_isPrefixOf _).2 (h6 hge)]
        · simp [hge]
      have h1' : (c == 0x24) = false := by simpa using h1
      have h2' : (c == 0x25) = false := by simpa using h2
      simp only [ampFollow, h1', h2', h3, h45, h7, Bool.false_eq_true, if_false]

/-- declarative result `(token length, kind)` of a token that starts with `&`; `r` = the text after
    that first `&`: all directly following ampersands belong to the token, then comes what
    `AmpFollower` allows -/
inductive AmpersandSpec (r : Bytes) : Nat × RawKind → Prop
  | mk (amps rest : Bytes) (n : Nat) (k : RawKind) (hsplit : r = amps ++ rest) (ha : ∀ b ∈ amps, b = 0x26)
      (hstop : ∀ t, rest ≠ 0x26 :: t) (hf : AmpFollower rest (n, k)) :
      AmpersandSpec r (1 + amps.length + n, k)

theorem ampersandTok_sat (r : Bytes) : AmpersandSpec r (ampersandTok r) := by
  have ha := (countWhile_longest (· == 0x26) r)
  have hlen : (r.take (countWhile (· == 0x26) r)).length = countWhile (· == 0x26) r := by
    simp only [List.length_take]; have := ha.1; omega
  have := AmpersandSpec.mk (r := r) (r.take (countWhile (· == 0x26) r)) (r.drop (countWhile (· == 0x26) r))
    (ampFollow (r.drop (countWhile (· == 0x26) r))).1 (ampFollow (r.drop (countWhile (· == 0x26) r))).2
    (List.take_append_drop _ r).symm
    (fun b hb => by simpa using ha.2.1 b hb)
    (fun t ht => by
      have h0 : r[countWhile (· == 0x26) r]? = some 0x26 := by
        have : (r.drop (countWhile (· == 0x26) r))[0]? = some 0x26 := by rw [ht]; rfl
        simpa using this
      have := countWhile_stop (· == 0x26) r 0x26 h0
      simp at this)
    (ampFollow_sat _)
  rw [hlen] at this
  exact this

theorem ampersandTok_only (r : Bytes) (x : Nat × RawKind) (h : AmpersandSpec r x) : x = ampersandTok r := by
  cases h with
  | mk amps rest n k hsplit ha hstop hf =>
    subst hsplit
    have hcw : countWhile (· == 0x26) (amps ++ rest) = amps.length :=
      countWhile_append_stop _ amps rest (fun b hb => by simp [ha b hb])
        (fun b t hbt => by
          apply (Bool.not_eq_true _).mp
          intro hb
          rw [beq_iff_eq.1 hb] at hbt
          exact hstop t hbt)
    unfold ampersandTok
    rw [hcw, List.drop_left]
    rw [← ampFollow_only rest (n, k) hf]

/-- bytes dispatched to the ampersand sub-lexer inside and outside `asm` blocks -/
theorem dispatch_ampersand (asm : Bool) :
    (if asm then asmLexerMap else lexerMap).getD (0x26 : UInt8).toNat .unknown = .ampersand := by
  cases asm <;> decide

/-- a token that starts with `&` (in every scanner state; assembler mode is neither entered nor left) -/
theorem lexOne_ampersand (simd : Bool) (st : LexState) (inp : Bytes) (r : Bytes)
    (hd : inp.drop (countLeadingWs inp) = 0x26 :: r) :
    lexOne simd st inp =
      some (some (countLeadingWs inp, countLeadingWs inp + (ampersandTok r).1, (ampersandTok r).2,
        stepState st (ampersandTok r).2 st.inAsm)) := by
  apply lexOne_of_runSub simd st inp 0x26 r
    { len := (ampersandTok r).1, kind := (ampersandTok r).2, inAsm := st.inAsm } hd
  rw [dispatch_ampersand st.inAsm]
  exact runSub_ampersand st 0x26 r _ _ simd

/-! ## 3. assembler mode -/

/-- the three letters `asm` / `end` in lower case -/
def asmWord : Bytes := [0x61, 0x73, 0x6D]
def endWord : Bytes := [0x65, 0x6E, 0x64]

theorem asmWord_eq : "asm".toUTF8.toList = asmWord := by decide +kernel
theorem endWord_eq : "end".toUTF8.toList = endWord := by decide +kernel

set_option maxRecDepth 100000 in
theorem keywords_asm_entry :
    keywords.find? (fun e => e.1 == asmWord) = some (asmWord, .rKeyword .kAsm) ∧
    keywords.all (fun e => e.2 != .rKeyword .kAsm || e.1 == asmWord) = true := by
  decide +kernel

/-- the keyword table yields the keyword `asm` exactly for the words spelled `asm` in any letter case -/
theorem wordKind_asm_iff (w : Bytes) : wordKind w = .rKeyword .kAsm ↔ eqIgnoreCase w asmWord = true := by
  have hk := keywords_asm_entry
  rw [wordKind_eq_spec]
  unfold keywordSpec eqIgnoreCase
  have hl : asciiLower asmWord = asmWord := by decide
  rw [hl]
  constructor
  · intro h
    split at h
    · rename_i e he
      have hm := List.mem_of_find?_eq_some he
      have h1 := List.find?_some he
      have h2 := (List.all_eq_true.1 hk.2) e hm
      simp only [beq_iff_eq] at h1
      rw [h] at h2
      simp only [bne_self_eq_false, Bool.false_or, beq_iff_eq] at h2
      rw [← h1, h2]; simp
    · simp at h
  · intro h
    rw [beq_iff_eq.1 h, hk.1]

/-- the sub-lexers of the main table never include the assembler ones, and the assembler table never
    includes the keyword scanner -/
theorem dispatch_tables_disjoint (b : UInt8) :
    (lexerMap.getD b.toNat .unknown ≠ .asm_identifier) ∧
    (asmLexerMap.getD b.toNat .unknown ≠ .identifier_or_keyword) :=
  forall_byte (P := fun b => (lexerMap.getD b.toNat .unknown ≠ .asm_identifier) ∧
    (asmLexerMap.getD b.toNat .unknown ≠ .identifier_or_keyword)) (by decide +kernel) b

theorem dirKind_ne_keyword (k : Option ConditionalDirectiveKind) (kw : KeywordKind) : dirKind k ≠ .rKeyword kw := by
  cases k <;> simp [dirKind]

/-- every sub-lexer except the two word scanners leaves the mode alone and never yields a keyword -/
theorem runSub_mode_other (st : LexState) (sub : SubLexer) (b : UInt8) (r : Bytes) (nlb : Bool)
    (tF : Unit → Nat) (simd : Bool) (o : LexOut) (h : runSub st sub b r nlb tF simd = some o)
    (h1 : sub ≠ .identifier_or_keyword) (h2 : sub ≠ .asm_identifier) :
    o.inAsm = st.inAsm ∧ ∀ kw, o.kind ≠ .rKeyword kw := by
  unfold runSub at h
  cases sub <;> simp only at h
  all_goals first
    | exact absurd rfl h1
    | exact absurd rfl h2
    | (simp only [Option.some.injEq] at h; subst h; simp; done)
    | ((repeat' split at h) <;> (simp only [Option.some.injEq] at h; subst h; simp); done)
    | skip
  case l_paren =>
    split at h
    · simp only [Option.map_eq_some_iff] at h
      obtain ⟨⟨n, k⟩, _, rfl⟩ := h
      exact ⟨rfl, fun kw => dirKind_ne_keyword k kw⟩
    all_goals (simp only [Option.some.injEq] at h; subst h; simp)
  case l_brace =>
    split at h
    · simp only [Option.map_eq_some_iff] at h
      obtain ⟨⟨n, k⟩, _, rfl⟩ := h
      exact ⟨rfl, fun kw => dirKind_ne_keyword k kw⟩
    all_goals (simp only [Option.some.injEq] at h; subst h; simp)

theorem runSub_mode_word (st : LexState) (b : UInt8) (r : Bytes) (nlb : Bool)
    (tF : Unit → Nat) (simd : Bool) (o : LexOut) (h : runSub st .identifier_or_keyword b r nlb tF simd = some o) :
    o.inAsm = (o.kind == .rKeyword .kAsm) := by
  simp only [runSub, Option.some.injEq] at h
  subst h; rfl

theorem runSub_mode_asmWord (st : LexState) (b : UInt8) (r : Bytes) (nlb : Bool)
    (tF : Unit → Nat) (simd : Bool) (o : LexOut) (h : runSub st .asm_identifier b r nlb tF simd = some o) :
    o.inAsm = (st.inAsm && o.kind != .rKeyword .kEnd) := by
  simp only [runSub] at h
  (repeat' split at h) <;> (simp only [Option.some.injEq] at h; subst h; simp)

/-- **Assembler mode is entered exactly by a token of kind keyword `asm` and left exactly by a token
    of kind keyword `end`**: for every step of the scanner, the mode after the token is determined by
    the mode before it and the kind of the token. -/
theorem lexOne_mode (simd : Bool) (st : LexState) (inp : Bytes) (ws e : Nat) (k : RawKind) (st' : LexState)
    (h : lexOne simd st inp = some (some (ws, e, k, st'))) :
    st'.inAsm = (if st.inAsm then k != .rKeyword .kEnd else k == .rKeyword .kAsm) := by
  unfold lexOne at h
  simp only at h
  split at h
  · simp at h
  · rename_i b r hdrop
    split at h
    · simp at h
    · rename_i o ho
      simp only [Option.some.injEq, Prod.mk.injEq] at h
      obtain ⟨_, _, rfl, rfl⟩ := h
      simp only
      have hdis := dispatch_tables_disjoint b
      by_cases hasm : st.inAsm = true
      · simp only [hasm, if_true] at ho ⊢
        by_cases hs : asmLexerMap.getD b.toNat .unknown = .asm_identifier
        · rw [hs] at ho
          rw [runSub_mode_asmWord st b r _ _ simd o ho, hasm]; simp
        · have := runSub_mode_other st _ b r _ _ simd o ho hdis.2 hs
          rw [this.1, hasm]
          have hne := this.2 .kEnd
          simp [hne]
      · have hasm' : st.inAsm = false := by simpa using hasm
        simp only [hasm', Bool.false_eq_true, if_false] at ho ⊢
        by_cases hs : lexerMap.getD b.toNat .unknown = .identifier_or_keyword
        · rw [hs] at ho
          exact runSub_mode_word st b r _ _ simd o ho
        · have := runSub_mode_other st _ b r _ _ simd o ho hs hdis.1
          rw [this.1, hasm']
          have hne := this.2 .kAsm
          simp [hne]

/-- a keyword `asm` token outside assembler mode is a word (letter + identifier run) spelled `asm` in
    any letter case that does not directly follow a `.` -/
theorem lexOne_enters_asm (simd : Bool) (st : LexState) (inp : Bytes) (ws e : Nat) (k : RawKind) (st' : LexState)
    (hasm : st.inAsm = false) (h : lexOne simd st inp = some (some (ws, e, k, st'))) :
    st'.inAsm = true ↔
      ∃ b r, inp.drop (countLeadingWs inp) = b :: r ∧ isAlpha b = true ∧ st.prevReal ≠ some (.rOp .oDot) ∧
        eqIgnoreCase ((b :: r).take (1 + identLen r)) asmWord = true := by
  have hm := lexOne_mode simd st inp ws e k st' h
  rw [hasm] at hm
  simp only [Bool.false_eq_true, if_false] at hm
  rw [hm]
  constructor
  · intro hk
    have hk' : k = .rKeyword .kAsm := by simpa using hk
    subst hk'
    unfold lexOne at h
    simp only at h
    split at h
    · simp at h
    · rename_i b r hdrop
      split at h
      · simp at h
      · rename_i o ho
        simp only [Option.some.injEq, Prod.mk.injEq] at h
        obtain ⟨_, _, hkind, _⟩ := h
        rw [hasm] at ho
        simp only [Bool.false_eq_true, if_false] at ho
        by_cases hs : lexerMap.getD b.toNat .unknown = .identifier_or_keyword
        · rw [hs] at ho
          simp only [runSub, idLen_eq, Option.some.injEq] at ho
          subst ho
          simp only at hkind
          have hb : isAlpha b = true := by
            revert hs
            exact forall_byte (P := fun b => lexerMap.getD b.toNat .unknown = .identifier_or_keyword → isAlpha b = true)
              (by decide +kernel) b
          refine ⟨b, r, hdrop, hb, ?_, ?_⟩
          · intro hp; rw [hp] at hkind; simp at hkind
          · split at hkind
            · simp at hkind
            · exact (wordKind_asm_iff _).1 hkind
        · have := (runSub_mode_other st _ b r _ _ simd o ho hs (dispatch_tables_disjoint b).1).2 .kAsm
          exact absurd hkind this
  · rintro ⟨b, r, hd, hb, hp, hw⟩
    have := lexOne_word simd st inp b r hasm hd hb
    simp only at this
    rw [this] at h
    simp only [Option.some.injEq, Prod.mk.injEq] at h
    have hp' : (st.prevReal == some (.rOp .oDot)) = false := by simpa using hp
    rw [hp'] at h
    simp only [Bool.false_eq_true, if_false] at h
    rw [← h.2.2.1, (wordKind_asm_iff _).2 hw]
    simp

/-- one step of the scanner, opened up: the first non-blank byte selects the sub-lexer -/
theorem lexOne_cases (simd : Bool) (st : LexState) (inp : Bytes) (ws e : Nat) (k : RawKind) (st' : LexState)
    (h : lexOne simd st inp = some (some (ws, e, k, st'))) :
    ∃ b r o, inp.drop (countLeadingWs inp) = b :: r ∧
      runSub st ((if st.inAsm then asmLexerMap else lexerMap).getD b.toNat .unknown) b r
        (nlBeforeOf st inp) (fun _ => countTrailingWs inp) simd = some o ∧
      ws = countLeadingWs inp ∧ e = countLeadingWs inp + o.len ∧ k = o.kind ∧ st' = stepState st o.kind o.inAsm := by
  unfold lexOne at h
  simp only at h
  split at h
  · simp at h
  · rename_i b r hdrop
    split at h
    · simp at h
    · rename_i o ho
      simp only [Option.some.injEq, Prod.mk.injEq] at h
      obtain ⟨rfl, rfl, rfl, rfl⟩ := h
      exact ⟨b, r, o, hdrop, ho, rfl, rfl, rfl, rfl⟩

/-- the assembler dispatch table by byte class -/
theorem asmLexerMap_classes (b : UInt8) :
    (isAlpha b = true → asmLexerMap.getD b.toNat .unknown =
      if b = 0x61 ∨ b = 0x41 ∨ b = 0x65 ∨ b = 0x45 then .asm_identifier else .identifier) ∧
    (isDigit b = true → asmLexerMap.getD b.toNat .unknown = .asm_number_literal) ∧
    (asmLexerMap.getD b.toNat .unknown = .asm_identifier → isAlpha b = true) :=
  forall_byte (P := fun b =>
    (isAlpha b = true → asmLexerMap.getD b.toNat .unknown =
      if b = 0x61 ∨ b = 0x41 ∨ b = 0x65 ∨ b = 0x45 then .asm_identifier else .identifier) ∧
    (isDigit b = true → asmLexerMap.getD b.toNat .unknown = .asm_number_literal) ∧
    (asmLexerMap.getD b.toNat .unknown = .asm_identifier → isAlpha b = true)) (by decide +kernel) b

theorem asm_dispatch_fixed :
    asmLexerMap.getD (0x40 : UInt8).toNat .unknown = .asm_label ∧
    asmLexerMap.getD (0x22 : UInt8).toNat .unknown = .asm_text_literal := by decide

/-- kind of a word in assembler mode: only `end` and `asm` (any letter case) are keywords -/
def asmWordKind (w : Bytes) : RawKind :=
  if eqIgnoreCase w endWord then .rKeyword .kEnd
  else if eqIgnoreCase w asmWord then .rKeyword .kAsm
  else .rIdentifier

theorem eqIgnoreCase_head (b c : UInt8) (t u : Bytes) (h : eqIgnoreCase (b :: t) (c :: u) = true) :
    toLowerByte b = toLowerByte c := by
  unfold eqIgnoreCase asciiLower at h
  simp only [List.map_cons, beq_iff_eq, List.cons.injEq] at h
  exact h.1

theorem lower_head_classes (b : UInt8) :
    (toLowerByte b = 0x65 → b = 0x65 ∨ b = 0x45) ∧ (toLowerByte b = 0x61 → b = 0x61 ∨ b = 0x41) :=
  forall_byte (P := fun b => (toLowerByte b = 0x65 → b = 0x65 ∨ b = 0x45) ∧ (toLowerByte b = 0x61 → b = 0x61 ∨ b = 0x41))
    (by decide +kernel) b

/-- a token that starts with a letter in assembler mode: the letter plus the identifier run; it is the
    keyword `end` (leaving assembler mode), the keyword `asm`, or an identifier — whatever precedes it -/
theorem lexOne_asmWord (simd : Bool) (st : LexState) (inp : Bytes) (b : UInt8) (r : Bytes)
    (hasm : st.inAsm = true) (hd : inp.drop (countLeadingWs inp) = b :: r) (hb : isAlpha b = true) :
    let w := (b :: r).take (1 + identLen r)
    lexOne simd st inp =
      some (some (countLeadingWs inp, countLeadingWs inp + (1 + identLen r), asmWordKind w,
        stepState st (asmWordKind w) (!eqIgnoreCase w endWord))) := by
  intro w
  have hw0 : (b :: r).take (1 + identLen r) = w := rfl
  clear_value w
  apply lexOne_of_runSub simd st inp b r
    { len := 1 + identLen r, kind := asmWordKind w, inAsm := !eqIgnoreCase w endWord } hd
  rw [hasm]
  simp only [if_true, (asmLexerMap_classes b).1 hb]
  by_cases hc : b = 0x61 ∨ b = 0x41 ∨ b = 0x65 ∨ b = 0x45
  · simp only [hc, if_true, runSub, idLen_eq, endWord_eq, asmWord_eq, hw0]
    unfold asmWordKind
    by_cases h1 : eqIgnoreCase w endWord = true
    · simp only [h1, if_true]; rfl
    · simp only [h1, Bool.false_eq_true, if_false]
      by_cases h2 : eqIgnoreCase w asmWord = true
      · simp only [h2, if_true, hasm]; rfl
      · simp only [h2, Bool.false_eq_true, if_false, hasm]; rfl
  · simp only [hc, if_false, runSub, idLen_eq]
    have hw : w = b :: r.take (identLen r) := by
      rw [← hw0, Nat.add_comm, List.take_succ_cons]
    have h1 : eqIgnoreCase w endWord = false := by
      apply (Bool.not_eq_true _).mp
      intro h
      rw [hw] at h
      have := (lower_head_classes b).1 (eqIgnoreCase_head _ _ _ _ h)
      exact hc (Or.inr (Or.inr this))
    have h2 : eqIgnoreCase w asmWord = false := by
      apply (Bool.not_eq_true _).mp
      intro h
      rw [hw] at h
      have := (lower_head_classes b).2 (eqIgnoreCase_head _ _ _ _ h)
      rcases this with h | h
      · exact hc (Or.inl h)
      · exact hc (Or.inr (Or.inl h))
    unfold asmWordKind
    simp only [h1, h2, Bool.false_eq_true, if_false, hasm]
    rfl

/-- assembler mode is left exactly by a word (letter + identifier run) spelled `end` in any letter
    case — also directly after a `.`, and whatever the preceding token is -/
theorem lexOne_leaves_asm (simd : Bool) (st : LexState) (inp : Bytes) (ws e : Nat) (k : RawKind) (st' : LexState)
    (hasm : st.inAsm = true) (h : lexOne simd st inp = some (some (ws, e, k, st'))) :
    st'.inAsm = false ↔
      ∃ b r, inp.drop (countLeadingWs inp) = b :: r ∧ isAlpha b = true ∧
        eqIgnoreCase ((b :: r).take (1 + identLen r)) endWord = true := by
  obtain ⟨b, r, o, hd, ho, _, _, _, hst⟩ := lexOne_cases simd st inp ws e k st' h
  by_cases hb : isAlpha b = true
  · have := lexOne_asmWord simd st inp b r hasm hd hb
    simp only at this
    rw [this] at h
    simp only [Option.some.injEq, Prod.mk.injEq] at h
    rw [← h.2.2.2]
    simp only [stepState, Bool.not_eq_false']
    constructor
    · intro hh; exact ⟨b, r, hd, hb, hh⟩
    · rintro ⟨b', r', hd', _, hh⟩
      rw [hd] at hd'
      simp only [List.cons.injEq] at hd'
      obtain ⟨rfl, rfl⟩ := hd'
      exact hh
  · constructor
    · intro hf
      rw [hasm] at ho
      simp only [if_true] at ho
      have hs : asmLexerMap.getD b.toNat .unknown ≠ .asm_identifier := fun hs => hb ((asmLexerMap_classes b).2.2 hs)
      have := (runSub_mode_other st _ b r _ _ simd o ho (dispatch_tables_disjoint b).2 hs).1
      rw [hst] at hf
      simp only [stepState] at hf
      rw [this, hasm] at hf
      simp at hf
    · rintro ⟨b', r', hd', hb', _⟩
      rw [hd] at hd'
      simp only [List.cons.injEq] at hd'
      obtain ⟨rfl, rfl⟩ := hd'
      exact absurd hb' hb

/-! ### assembler labels -/

/-- a byte of an assembler label: ASCII letter, digit, `_` or `@` (no non-ASCII bytes) -/
def isAsmLabelByte (b : UInt8) : Bool := isAlnum b || b == 0x5F || b == 0x40

theorem asmIdentCharSet_eq : (fun x : UInt8 => asmIdentCharSet.getD x.toNat false) = isAsmLabelByte := by
  funext b
  exact forall_byte (P := fun b => asmIdentCharSet.getD b.toNat false = isAsmLabelByte b) (by decide +kernel) b

theorem isAsmLabelByte_iff (b : UInt8) : isAsmLabelByte b = true ↔
    (0x41 ≤ b ∧ b ≤ 0x5A) ∨ (0x61 ≤ b ∧ b ≤ 0x7A) ∨ (0x30 ≤ b ∧ b ≤ 0x39) ∨ b = 0x5F ∨ b = 0x40 := by
  simp [isAsmLabelByte, isAlnum, isAlpha, isUpper, isLower, isDigit, or_assoc]

/-- a token that starts with `@` in assembler mode: `@` plus the longest run of label bytes; an identifier -/
theorem lexOne_asmLabel (simd : Bool) (st : LexState) (inp : Bytes) (r : Bytes)
    (hasm : st.inAsm = true) (hd : inp.drop (countLeadingWs inp) = 0x40 :: r) :
    lexOne simd st inp =
      some (some (countLeadingWs inp, countLeadingWs inp + (1 + countWhile isAsmLabelByte r), .rIdentifier,
        stepState st .rIdentifier true)) := by
  have := lexOne_of_runSub simd st inp 0x40 r
    { len := 1 + countWhile isAsmLabelByte r, kind := .rIdentifier, inAsm := st.inAsm } hd (by
      rw [hasm]
      simp only [if_true, asm_dispatch_fixed.1, runSub, asmIdentCharSet_eq, hasm])
  rw [this, hasm]

/-! ### assembler numbers -/

/-- declarative result `(bytes consumed after the first digit, kind)` of an assembler number whose
    first digit is `first` and whose following text is `r` -/
inductive AsmNumberSpec (first : UInt8) (r : Bytes) : Nat × NumberLiteralKind → Prop
  /-- the hex-digit run is followed by `o`/`O`: the suffix is consumed, octal -/
  | octal (n : Nat) (hn : LongestPrefixIn (AllBytes isHexByte) r n) (c : UInt8) (hc : r[n]? = some c)
      (ho : c = 0x4F ∨ c = 0x6F) : AsmNumberSpec first r (n + 1, .nOctal)
  /-- … followed by `h`/`H`: the suffix is consumed, hexadecimal -/
  | hex (n : Nat) (hn : LongestPrefixIn (AllBytes isHexByte) r n) (c : UInt8) (hc : r[n]? = some c)
      (hh : c = 0x48 ∨ c = 0x68) : AsmNumberSpec first r (n + 1, .nHex)
  /-- no suffix and the last byte of the run (index `n` of the token) is `b`/`B`: binary -/
  | binary (n : Nat) (hn : LongestPrefixIn (AllBytes isHexByte) r n)
      (hs : ∀ c, r[n]? = some c → c ≠ 0x4F ∧ c ≠ 0x6F ∧ c ≠ 0x48 ∧ c ≠ 0x68)
      (p : UInt8) (hp : (first :: r)[n]? = some p) (hb : p = 0x42 ∨ p = 0x62) : AsmNumberSpec first r (n, .nBinary)
  /-- no suffix and the last byte of the run is not `b`/`B`: decimal -/
  | decimal (n : Nat) (hn : LongestPrefixIn (AllBytes isHexByte) r n)
      (hs : ∀ c, r[n]? = some c → c ≠ 0x4F ∧ c ≠ 0x6F ∧ c ≠ 0x48 ∧ c ≠ 0x68)
      (p : UInt8) (hp : (first :: r)[n]? = some p) (hb : p ≠ 0x42 ∧ p ≠ 0x62) : AsmNumberSpec first r (n, .nDecimal)

theorem asm_last_digit (first : UInt8) (r : Bytes) (n : Nat) (hn : n ≤ r.length) :
    (first :: r)[n]? = some (if n == 0 then first else r.getD (n - 1) 0) := by
  cases n with
  | zero => rfl
  | succ m =>
    have hm : m < r.length := by omega
    simp [List.getD_eq_getElem?_getD, List.getElem?_eq_getElem hm]

theorem asmNumberRest_sat (first : UInt8) (r : Bytes) : AsmNumberSpec first r (asmNumberRest first r) := by
  have hn : LongestPrefixIn (AllBytes isHexByte) r (countHex r) := countWhile_longest isHexByte r
  have hp := asm_last_digit first r (countHex r) hn.1
  have hhead : r[countHex r]? = (r.drop (countHex r)).head? := by rw [List.head?_drop]
  unfold asmNumberRest
  simp only
  generalize (if (countHex r == 0) = true then first else r.getD (countHex r - 1) 0) = p at hp
  cases hd : r.drop (countHex r) with
  | nil =>
    rw [hd] at hhead
    simp only
    by_cases hb : (p == 0x42 || p == 0x62) = true
    · simp only [hb, if_true]
      exact .binary _ hn (by simp [hhead]) p hp (by simpa using hb)
    · simp only [hb, Bool.false_eq_true, if_false]
      exact .decimal _ hn (by simp [hhead]) p hp (by simpa using hb)
  | cons c t =>
    rw [hd] at hhead
    simp only [List.head?_cons] at hhead
    simp only
    by_cases h1 : (c == 0x4F || c == 0x6F) = true
    · simp only [h1, if_true]
      exact .octal _ hn c hhead (by simpa using h1)
    simp only [h1, Bool.false_eq_true, if_false]
    by_cases h2 : (c == 0x48 || c == 0x68) = true
    · simp only [h2, if_true]
      exact .hex _ hn c hhead (by simpa using h2)
    simp only [h2, Bool.false_eq_true, if_false]
    have hs : ∀ c', r[countHex r]? = some c' → c' ≠ 0x4F ∧ c' ≠ 0x6F ∧ c' ≠ 0x48 ∧ c' ≠ 0x68 := by
      intro c' hc'
      rw [hhead] at hc'
      simp only [Option.some.injEq] at hc'
      subst hc'
      simp only [Bool.or_eq_true, beq_iff_eq, not_or] at h1 h2
      exact ⟨h1.1, h1.2, h2.1, h2.2⟩
    by_cases hb : (p == 0x42 || p == 0x62) = true
    · simp only [hb, if_true]
      exact .binary _ hn hs p hp (by simpa using hb)
    · simp only [hb, Bool.false_eq_true, if_false]
      exact .decimal _ hn hs p hp (by simpa using hb)

/-- closed form of the four cases -/
def asmNumberOf (n : Nat) (next : Option UInt8) (last : UInt8) : Nat × NumberLiteralKind :=
  if next = some 0x4F ∨ next = some 0x6F then (n + 1, .nOctal)
  else if next = some 0x48 ∨ next = some 0x68 then (n + 1, .nHex)
  else if last = 0x42 ∨ last = 0x62 then (n, .nBinary) else (n, .nDecimal)

theorem AsmNumberSpec.normal {first : UInt8} {r : Bytes} {x : Nat × NumberLiteralKind}
    (h : AsmNumberSpec first r x) :
    ∃ n p, LongestPrefixIn (AllBytes isHexByte) r n ∧ (first :: r)[n]? = some p ∧ x = asmNumberOf n r[n]? p := by
  cases h with
  | octal n hn c hc ho =>
    refine ⟨n, _, hn, asm_last_digit first r n hn.1, ?_⟩
    rcases ho with rfl | rfl <;> simp [asmNumberOf, hc]
  | hex n hn c hc hh =>
    refine ⟨n, _, hn, asm_last_digit first r n hn.1, ?_⟩
    rcases hh with rfl | rfl <;> simp [asmNumberOf, hc]
  | binary n hn hs p hp hb =>
    refine ⟨n, p, hn, hp, ?_⟩
    have h1 : ¬ (r[n]? = some 0x4F ∨ r[n]? = some 0x6F) := by
      rintro (h | h) <;> (have := hs _ h; simp at this)
    have h2 : ¬ (r[n]? = some 0x48 ∨ r[n]? = some 0x68) := by
      rintro (h | h) <;> (have := hs _ h; simp at this)
    simp only [asmNumberOf, h1, h2, if_false, hb, if_true]
  | decimal n hn hs p hp hb =>
    refine ⟨n, p, hn, hp, ?_⟩
    have h1 : ¬ (r[n]? = some 0x4F ∨ r[n]? = some 0x6F) := by
      rintro (h | h) <;> (have := hs _ h; simp at this)
    have h2 : ¬ (r[n]? = some 0x48 ∨ r[n]? = some 0x68) := by
      rintro (h | h) <;> (have := hs _ h; simp at this)
    have h3 : ¬ (p = 0x42 ∨ p = 0x62) := by rintro (h | h) <;> simp [h] at hb
    simp only [asmNumberOf, h1, h2, h3, if_false]

theorem AsmNumberSpec.unique {first : UInt8} {r : Bytes} {x y : Nat × NumberLiteralKind}
    (hx : AsmNumberSpec first r x) (hy : AsmNumberSpec first r y) : x = y := by
  obtain ⟨n, p, hn, hp, rfl⟩ := hx.normal
  obtain ⟨m, q, hm, hq, rfl⟩ := hy.normal
  have := LongestPrefixIn.unique hn hm
  subst this
  rw [hp] at hq
  simp only [Option.some.injEq] at hq
  rw [hq]

/-! ### assembler text literals `"…"` -/

/-- the inside of a `"…"` literal: any sequence of escape pairs (`\` + any byte, even `"`, CR or LF)
    and of bytes other than `\`, `"`, CR, LF -/
inductive AsmStrBody : Bytes → Prop
  | nil : AsmStrBody []
  | esc (c : UInt8) (t : Bytes) (h : AsmStrBody t) : AsmStrBody (0x5C :: c :: t)
  | plain (b : UInt8) (t : Bytes) (hb : b ≠ 0x5C ∧ b ≠ 0x22 ∧ b ≠ 0x0A ∧ b ≠ 0x0D) (h : AsmStrBody t) :
      AsmStrBody (b :: t)

/-- declarative result `(bytes consumed after the opening quote, kind)`; the argument is the text
    after the opening `"` -/
inductive AsmTextSpec : Bytes → Nat × TextLiteralKind → Prop
  /-- closed by the first `"` that is not the second byte of an escape pair -/
  | closed (body rest : Bytes) (hb : AsmStrBody body) :
      AsmTextSpec (body ++ 0x22 :: rest) (body.length + 1, .tAsm)
  /-- cut by CR, LF (not consumed) or the end of the text: unterminated -/
  | cut (body rest : Bytes) (hb : AsmStrBody body)
      (hr : rest = [] ∨ ∃ c t, rest = c :: t ∧ (c = 0x0A ∨ c = 0x0D)) :
      AsmTextSpec (body ++ rest) (body.length, .tUnterminated)
  /-- the text ends with a lone `\` (consumed): unterminated -/
  | cutEsc (body : Bytes) (hb : AsmStrBody body) :
      AsmTextSpec (body ++ [0x5C]) (body.length + 1, .tUnterminated)

theorem asmText_esc (c : UInt8) (t : Bytes) :
    asmTextLiteralRest (0x5C :: c :: t) = ((asmTextLiteralRest t).1 + 2, (asmTextLiteralRest t).2) := by
  rw [asmTextLiteralRest]

theorem asmText_quote (t : Bytes) : asmTextLiteralRest (0x22 :: t) = (1, .tAsm) := by
  simp [asmTextLiteralRest]

theorem asmText_body (body tail : Bytes) (hb : AsmStrBody body) :
    asmTextLiteralRest (body ++ tail) =
      (body.length + (asmTextLiteralRest tail).1, (asmTextLiteralRest tail).2) := by
  induction hb with
  | nil => simp
  | esc c t h ih =>
    simp only [List.cons_append, asmText_esc, ih, List.length_cons]
    congr 1; omega
  | plain b t hb h ih =>
    have hnl : (b == 0x0A || b == 0x0D) = false := by simp [hb.2.2.1, hb.2.2.2]
    simp only [List.cons_append, asmTextLiteralRest_other b hb.1 hb.2.1, hnl, Bool.false_eq_true, if_false, ih,
      List.length_cons]
    congr 1; omega

/-- the tail at which the body of a `"…"` literal stops -/
def AsmStrTail (tail : Bytes) : Prop :=
  tail = [] ∨ tail = [0x5C] ∨ ∃ c t, tail = c :: t ∧ (c = 0x22 ∨ c = 0x0A ∨ c = 0x0D)

theorem asmText_decompose : ∀ (n : Nat) (r : Bytes), r.length ≤ n →
    ∃ body tail, r = body ++ tail ∧ AsmStrBody body ∧ AsmStrTail tail
  | _, [], _ => ⟨[], [], rfl, .nil, Or.inl rfl⟩
  | 0, _ :: _, h => by simp at h
  | n + 1, b :: t, h => by
    by_cases h1 : b = 0x5C
    · subst h1
      cases t with
      | nil => exact ⟨[], [0x5C], rfl, .nil, Or.inr (Or.inl rfl)⟩
      | cons c u =>
        obtain ⟨body, tail, rfl, hb, ht⟩ := asmText_decompose n u (by simp only [List.length_cons] at h; omega)
        exact ⟨0x5C :: c :: body, tail, rfl, .esc c body hb, ht⟩
    · by_cases hs : b = 0x22 ∨ b = 0x0A ∨ b = 0x0D
      · exact ⟨[], b :: t, rfl, .nil, Or.inr (Or.inr ⟨b, t, rfl, hs⟩)⟩
      · obtain ⟨body, tail, rfl, hb, ht⟩ := asmText_decompose n t (by simp only [List.length_cons] at h; omega)
        simp only [not_or] at hs
        exact ⟨b :: body, tail, rfl, .plain b body ⟨h1, hs.1, hs.2.1, hs.2.2⟩ hb, ht⟩

theorem asmText_nl (c : UInt8) (t : Bytes) (hc : c = 0x0A ∨ c = 0x0D) :
    asmTextLiteralRest (c :: t) = (0, .tUnterminated) := by
  rcases hc with rfl | rfl
  · rw [asmTextLiteralRest_other _ (by decide) (by decide)]; rfl
  · rw [asmTextLiteralRest_other _ (by decide) (by decide)]; rfl

theorem asmTextLiteralRest_sat (r : Bytes) : AsmTextSpec r (asmTextLiteralRest r) := by
  obtain ⟨body, tail, rfl, hb, ht⟩ := asmText_decompose r.length r (Nat.le_refl _)
  rw [asmText_body body tail hb]
  rcases ht with rfl | rfl | ⟨c, t, rfl, hc | hc⟩
  · exact .cut body [] hb (Or.inl rfl)
  · exact .cutEsc body hb
  · subst hc; rw [asmText_quote]; exact .closed body t hb
  · rw [asmText_nl c t hc]; exact .cut body (c :: t) hb (Or.inr ⟨c, t, rfl, hc⟩)

theorem asmTextLiteralRest_only (r : Bytes) (x : Nat × TextLiteralKind) (h : AsmTextSpec r x) :
    x = asmTextLiteralRest r := by
  cases h with
  | closed body rest hb => rw [asmText_body body _ hb, asmText_quote]
  | cut body rest hb hr =>
    rw [asmText_body body _ hb]
    rcases hr with rfl | ⟨c, t, rfl, hc⟩
    · rfl
    · rw [asmText_nl c t hc]; rfl
  | cutEsc body hb => rw [asmText_body body _ hb]; rfl

theorem asm_digit_dispatch (b : UInt8) (hb : isDigit b = true) :
    asmLexerMap.getD b.toNat .unknown = .asm_number_literal := (asmLexerMap_classes b).2.1 hb

/-- a token that starts with a digit in assembler mode -/
theorem lexOne_asmNumber (simd : Bool) (st : LexState) (inp : Bytes) (b : UInt8) (r : Bytes)
    (hasm : st.inAsm = true) (hd : inp.drop (countLeadingWs inp) = b :: r) (hb : isDigit b = true) :
    lexOne simd st inp =
      some (some (countLeadingWs inp, countLeadingWs inp + (1 + (asmNumberRest b r).1),
        .rNumberLiteral (asmNumberRest b r).2, stepState st (.rNumberLiteral (asmNumberRest b r).2) true)) := by
  have := lexOne_of_runSub simd st inp b r
    { len := 1 + (asmNumberRest b r).1, kind := .rNumberLiteral (asmNumberRest b r).2, inAsm := st.inAsm } hd (by
      simp only [hasm, if_true, asm_digit_dispatch b hb, runSub])
  rw [this, hasm]

/-- a token that starts with `"` in assembler mode -/
theorem lexOne_asmText (simd : Bool) (st : LexState) (inp : Bytes) (r : Bytes)
    (hasm : st.inAsm = true) (hd : inp.drop (countLeadingWs inp) = 0x22 :: r) :
    lexOne simd st inp =
      some (some (countLeadingWs inp, countLeadingWs inp + (1 + (asmTextLiteralRest r).1),
        .rTextLiteral (asmTextLiteralRest r).2, stepState st (.rTextLiteral (asmTextLiteralRest r).2) true)) := by
  have := lexOne_of_runSub simd st inp 0x22 r
    { len := 1 + (asmTextLiteralRest r).1, kind := .rTextLiteral (asmTextLiteralRest r).2, inAsm := st.inAsm } hd (by
      simp only [hasm, if_true, asm_dispatch_fixed.2, runSub])
  rw [this, hasm]

/-! ## 1c. the expression scanner of `{$if …}` / `{$elseif …}` -/

/-- the opening delimiter of the two kinds of block comment: `{` and `(*` -/
def opener : BlockCommentKind → Bytes
  | .brace => [0x7B]
  | .parenStar => [0x28, 0x2A]

/-- a construct at the head of the text that the expression scanner skips as a whole, with its
    length (nested directives `{$…}` / `(*$…*)` are not items, see `DirEnd`) -/
inductive DirItem (trim : Nat) : Bytes → Nat → Prop
  /-- a block comment `{…}` / `(*…*)` (opener not followed by `$`), up to its first closer -/
  | comment (k : BlockCommentKind) (r : Bytes) (i : Nat) (hnd : ∀ t, r ≠ 0x24 :: t)
      (h : FirstOcc (closer k) r i) :
      DirItem trim (opener k ++ r) ((opener k).length + (i + (closer k).length))
  /-- an unterminated block comment: everything up to the trailing blanks of the text -/
  | commentOpen (k : BlockCommentKind) (r : Bytes) (hnd : ∀ t, r ≠ 0x24 :: t)
      (h : ∀ j, ¬ OccursAt (closer k) r j) :
      DirItem trim (opener k ++ r) ((opener k).length + (r.length - trim))
  /-- a text literal that starts with `'`, as scanned by `text_literal` (`TextLiteralSpec`), whatever
      its kind: with its `#` escapes and further quoted segments, multi-line, or unterminated (then
      up to the end of the line) -/
  | text (r : Bytes) (n : Nat) (tk : TextLiteralKind) (h : TextLiteralSpec (0x27 :: r) (n, tk)) :
      DirItem trim (0x27 :: r) n
  /-- a `//` comment up to (not including) the end of the line -/
  | lineComment (r : Bytes) (n : Nat) (h : LongestPrefixIn NoLineBreak r n) :
      DirItem trim (0x2F :: 0x2F :: r) (2 + n)
  /-- any other single byte (one that does not open one of the constructs above) -/
  | other (b : UInt8) (r : Bytes) (hb : b ≠ 0x7B ∧ b ≠ 0x27) (h1 : b = 0x28 → ∀ t, r ≠ 0x2A :: t)
      (h2 : b = 0x2F → ∀ t, r ≠ 0x2F :: t) :
      DirItem trim (b :: r) 1

/-- **Where a directive ends.**  `DirEnd trim kind expr l res`: for a directive written with the
    brackets of `kind` whose text after the name is `l`, the end offset (relative to `l`, just after
    the closer) is `res`; `none` = the directive is not terminated.  `expr` tells whether the
    directive is `$if` / `$elseif` (its body is an expression) or any other directive. -/
inductive DirEnd (trim : Nat) : BlockCommentKind → Bool → Bytes → Option Nat → Prop
  /-- not an expression directive: right after the first closer -/
  | plainClosed (kind : BlockCommentKind) (l : Bytes) (i : Nat) (h : FirstOcc (closer kind) l i) :
      DirEnd trim kind false l (some (i + (closer kind).length))
  /-- … and unterminated if there is none -/
  | plainOpen (kind : BlockCommentKind) (l : Bytes) (h : ∀ j, ¬ OccursAt (closer kind) l j) :
      DirEnd trim kind false l none
  /-- expression: the end of the text is reached: unterminated -/
  | eof (kind : BlockCommentKind) : DirEnd trim kind true [] none
  /-- expression: the closer of the directive's own bracket kind at the head: the end -/
  | close (kind : BlockCommentKind) (l : Bytes) (h : closer kind <+: l) :
      DirEnd trim kind true l (some (closer kind).length)
  /-- expression: an item at the head is skipped -/
  | skip (kind : BlockCommentKind) (l : Bytes) (n : Nat) (res : Option Nat) (hc : ¬ closer kind <+: l)
      (hi : DirItem trim l n) (hr : DirEnd trim kind true (l.drop n) res) :
      DirEnd trim kind true l (res.map (n + ·))
  /-- expression: a nested directive (either bracket kind, any name) is skipped up to *its* end,
      determined by the same rules (recursively for a nested `$if` / `$elseif`) -/
  | nested (kind k2 : BlockCommentKind) (body : Bytes) (e : Nat) (res : Option Nat)
      (hn : DirEnd trim k2 (isExprName (directiveName body)) (body.drop (directiveName body).length) (some e))
      (hr : DirEnd trim kind true (body.drop ((directiveName body).length + e)) res) :
      DirEnd trim kind true (opener k2 ++ 0x24 :: body)
        (res.map (((opener k2).length + 1 + (directiveName body).length + e) + ·))
  /-- expression: an unterminated nested directive makes the outer one unterminated -/
  | nestedOpen (kind k2 : BlockCommentKind) (body : Bytes)
      (hn : DirEnd trim k2 (isExprName (directiveName body)) (body.drop (directiveName body).length) none) :
      DirEnd trim kind true (opener k2 ++ 0x24 :: body) none

/-- the model's scan for the end of a directive body -/
def dirEndFn (trim fuel : Nat) (kind : BlockCommentKind) (expr : Bool) (l : Bytes) : Option (Option Nat) :=
  if expr then findDirectiveExprEnd trim fuel kind l else some (findBlockCommentEnd kind l)

/-- the model's length of the item at the head of the text -/
def dirItemLen (trim : Nat) : Bytes → Nat
  | [] => 0
  | b0 :: r0 =>
    if b0 == 0x28 && r0.head? == some 0x2A then 2 + blockCommentEndOrEof .parenStar trim (r0.drop 1)
    else if b0 == 0x7B then 1 + blockCommentEndOrEof .brace trim r0
    else if b0 == 0x27 then (textLiteral (b0 :: r0)).1
    else if b0 == 0x2F && r0.head? == some 0x2F then 2 + lineCommentEnd (r0.drop 1)
    else 1

theorem fde_cons (trim f : Nat) (kind : BlockCommentKind) (b0 : UInt8) (r0 : Bytes) :
    findDirectiveExprEnd trim (f + 1) kind (b0 :: r0) =
      if kind == .parenStar && b0 == 0x2A && r0.head? == some 0x29 then some (some 2)
      else if kind == .brace && b0 == 0x7D then some (some 1)
      else if b0 == 0x28 && r0.head? == some 0x2A && r0.tail.head? == some 0x24 then
        nestedAt trim f kind (b0 :: r0) 3 .parenStar (r0.drop 2)
      else if b0 == 0x7B && r0.head? == some 0x24 then nestedAt trim f kind (b0 :: r0) 2 .brace (r0.drop 1)
      else contAt trim f kind (b0 :: r0) (dirItemLen trim (b0 :: r0)) := by
  rw [findDirectiveExprEnd]
  simp only [dirItemLen]
  by_cases c1 : (kind == .parenStar && b0 == 0x2A && r0.head? == some 0x29) = true
  · simp only [c1, if_true]
  simp only [c1, Bool.false_eq_true, if_false]
  by_cases c2 : (kind == .brace && b0 == 0x7D) = true
  · simp only [c2, if_true]
  simp only [c2, Bool.false_eq_true, if_false]
  by_cases c3 : (b0 == 0x28 && r0.head? == some 0x2A && r0.tail.head? == some 0x24) = true
  · simp only [c3, if_true]; rfl
  simp only [c3, Bool.false_eq_true, if_false]
  by_cases c4 : (b0 == 0x7B && r0.head? == some 0x24) = true
  · simp only [c4, if_true]; rfl
  simp only [c4, Bool.false_eq_true, if_false]
  by_cases c5 : (b0 == 0x28 && r0.head? == some 0x2A) = true
  · simp only [c5, if_true]; rfl
  simp only [c5, Bool.false_eq_true, if_false]
  by_cases c6 : (b0 == 0x7B) = true
  · simp only [c6, if_true]; rfl
  simp only [c6, Bool.false_eq_true, if_false]
  by_cases c7 : (b0 == 0x27) = true
  · simp only [c7, if_true]; rfl
  simp only [c7, Bool.false_eq_true, if_false]
  by_cases c8 : (b0 == 0x2F && r0.head? == some 0x2F) = true
  · simp only [c8, if_true]; rfl
  · simp only [c8, Bool.false_eq_true, if_false]; rfl

theorem shiftEnd_some_map (n : Nat) (res : Option Nat) : shiftEnd n (some res) = some (res.map (n + ·)) := by
  cases res <;> rfl

/-- the closer at the head of a non-empty text, in the model's terms -/
theorem closer_prefix_cons (kind : BlockCommentKind) (b0 : UInt8) (r0 : Bytes) :
    closer kind <+: b0 :: r0 ↔
      ((kind == .parenStar && b0 == 0x2A && r0.head? == some 0x29) = true ∧ (closer kind).length = 2) ∨
      ((kind == .brace && b0 == 0x7D) = true ∧ (closer kind).length = 1) := by
  cases kind with
  | parenStar =>
    cases r0 with
    | nil => simp [closer]
    | cons x t =>
      simp only [closer, List.cons_prefix_cons, List.nil_prefix, and_true, List.head?_cons, beq_self_eq_true,
        Bool.true_and, Bool.and_eq_true, beq_iff_eq, Option.some.injEq, List.length_cons, List.length_nil]
      constructor
      · rintro ⟨rfl, rfl⟩; exact Or.inl ⟨rfl, rfl⟩
      · rintro (⟨rfl, rfl⟩ | ⟨⟨h, _⟩, _⟩)
        · exact ⟨rfl, rfl⟩
        · simp at h
  | brace =>
    simp only [closer, List.cons_prefix_cons, List.nil_prefix, and_true, beq_self_eq_true,
      Bool.true_and, Bool.and_eq_true, beq_iff_eq, List.length_cons, List.length_nil]
    constructor
    · rintro rfl; exact Or.inr rfl
    · rintro (⟨⟨⟨h, _⟩, _⟩, _⟩ | rfl)
      · simp at h
      · rfl

theorem closer_not_prefix_nil (kind : BlockCommentKind) : ¬ closer kind <+: [] := by
  cases kind <;> simp [closer]

theorem nestedParen_iff (b0 : UInt8) (r0 : Bytes) :
    (b0 == 0x28 && r0.head? == some 0x2A && r0.tail.head? == some 0x24) = true ↔
      ∃ body, b0 :: r0 = 0x28 :: 0x2A :: 0x24 :: body := by
  constructor
  · intro h
    match r0, h with
    | x :: y :: t, h =>
      simp only [List.head?_cons, List.tail_cons, Bool.and_eq_true, beq_iff_eq, Option.some.injEq] at h
      obtain ⟨⟨rfl, rfl⟩, rfl⟩ := h
      exact ⟨t, rfl⟩
    | [x], h => simp at h
    | [], h => simp at h
  · rintro ⟨body, h⟩
    simp only [List.cons.injEq] at h
    obtain ⟨rfl, rfl⟩ := h
    simp

theorem nestedBrace_iff (b0 : UInt8) (r0 : Bytes) :
    (b0 == 0x7B && r0.head? == some 0x24) = true ↔ ∃ body, b0 :: r0 = 0x7B :: 0x24 :: body := by
  constructor
  · intro h
    match r0, h with
    | x :: t, h =>
      simp only [List.head?_cons, Bool.and_eq_true, beq_iff_eq, Option.some.injEq] at h
      obtain ⟨rfl, rfl⟩ := h
      exact ⟨t, rfl⟩
    | [], h => simp at h
  · rintro ⟨body, h⟩
    simp only [List.cons.injEq] at h
    obtain ⟨rfl, rfl⟩ := h
    simp

theorem bcee_closed (k : BlockCommentKind) (trim : Nat) (r : Bytes) (i : Nat) (h : FirstOcc (closer k) r i) :
    blockCommentEndOrEof k trim r = i + (closer k).length := by
  unfold blockCommentEndOrEof
  rw [(findBlockCommentEnd_some_iff k r _).2 ⟨i, rfl, h⟩]

theorem bcee_open (k : BlockCommentKind) (trim : Nat) (r : Bytes) (h : ∀ j, ¬ OccursAt (closer k) r j) :
    blockCommentEndOrEof k trim r = r.length - trim := by
  unfold blockCommentEndOrEof
  rw [(findBlockCommentEnd_none_iff k r).2 h]

/-- a block comment item, from the model's search -/
theorem dirItem_comment (trim : Nat) (k : BlockCommentKind) (r : Bytes) (hnd : ∀ t, r ≠ 0x24 :: t) :
    DirItem trim (opener k ++ r) ((opener k).length + blockCommentEndOrEof k trim r) := by
  cases hf : findBlockCommentEnd k r with
  | some e =>
    obtain ⟨i, rfl, hi⟩ := (findBlockCommentEnd_some_iff k r e).1 hf
    rw [bcee_closed k trim r i hi]
    exact .comment k r i hnd hi
  | none =>
    have hn := (findBlockCommentEnd_none_iff k r).1 hf
    rw [bcee_open k trim r hn]
    exact .commentOpen k r hnd hn

/-- the model's item length satisfies the item grammar (when no closer and no nested directive is at the head) -/
theorem dirItem_sat (trim : Nat) (b0 : UInt8) (r0 : Bytes)
    (c3 : ¬ (b0 == 0x28 && r0.head? == some 0x2A && r0.tail.head? == some 0x24) = true)
    (c4 : ¬ (b0 == 0x7B && r0.head? == some 0x24) = true) :
    DirItem trim (b0 :: r0) (dirItemLen trim (b0 :: r0)) := by
  simp only [dirItemLen]
  by_cases c5 : (b0 == 0x28 && r0.head? == some 0x2A) = true
  · simp only [c5, if_true]
    match r0, c3, c5 with
    | x :: r, c3, c5 =>
      simp only [List.head?_cons, Bool.and_eq_true, beq_iff_eq, Option.some.injEq] at c5
      obtain ⟨rfl, rfl⟩ := c5
      have hnd : ∀ t, r ≠ 0x24 :: t := by
        rintro t rfl
        simp at c3
      exact dirItem_comment trim .parenStar r hnd
    | [], _, c5 => simp at c5
  simp only [c5, Bool.false_eq_true, if_false]
  by_cases c6 : (b0 == 0x7B) = true
  · simp only [c6, if_true]
    have hb : b0 = 0x7B := by simpa using c6
    subst hb
    have hnd : ∀ t, r0 ≠ 0x24 :: t := by
      rintro t rfl
      simp at c4
    exact dirItem_comment trim .brace r0 hnd
  simp only [c6, Bool.false_eq_true, if_false]
  by_cases c7 : (b0 == 0x27) = true
  · simp only [c7, if_true]
    have hb : b0 = 0x27 := by simpa using c7
    subst hb
    exact .text r0 _ _ (textLiteral_sat (0x27 :: r0))
  simp only [c7, Bool.false_eq_true, if_false]
  by_cases c8 : (b0 == 0x2F && r0.head? == some 0x2F) = true
  · simp only [c8, if_true]
    match r0, c8 with
    | x :: r, c8 =>
      simp only [List.head?_cons, Bool.and_eq_true, beq_iff_eq, Option.some.injEq] at c8
      obtain ⟨rfl, rfl⟩ := c8
      exact .lineComment r _ (lineCommentEnd_longest r)
    | [], c8 => simp at c8
  · simp only [c8, Bool.false_eq_true, if_false]
    refine .other b0 r0 ⟨by simpa using c6, by simpa using c7⟩ ?_ ?_
    · rintro rfl t rfl; simp at c5
    · rintro rfl t rfl; simp at c8

/-- … and the item grammar determines the length, excludes a nested directive at the head, and every
    item is non-empty -/
theorem dirItem_only (trim : Nat) (l : Bytes) (n : Nat) (h : DirItem trim l n) :
    ∃ b0 r0, l = b0 :: r0 ∧
      ¬ (b0 == 0x28 && r0.head? == some 0x2A && r0.tail.head? == some 0x24) = true ∧
      ¬ (b0 == 0x7B && r0.head? == some 0x24) = true ∧ n = dirItemLen trim l ∧ 1 ≤ n := by
  cases h with
  | comment k r i hnd h =>
    have hd : ¬ r.head? = some 0x24 := by
      cases r with
      | nil => simp
      | cons x t => intro hx; simp only [List.head?_cons, Option.some.injEq] at hx; exact hnd t (by rw [hx])
    cases k with
    | parenStar =>
      refine ⟨0x28, 0x2A :: r, rfl, by simpa using hd, by simp, ?_, by simp only [opener, List.length_cons, List.length_nil]; omega⟩
      simp only [opener, List.cons_append, List.nil_append, dirItemLen, List.head?_cons, beq_self_eq_true,
        Bool.and_self, if_true, List.drop_succ_cons, List.drop_zero, List.length_cons, List.length_nil]
      rw [bcee_closed .parenStar trim r i h]
    | brace =>
      refine ⟨0x7B, r, rfl, by simp, by simpa using hd, ?_, by simp only [opener, List.length_cons, List.length_nil]; omega⟩
      have e1 : ((0x7B : UInt8) == 0x28) = false := by decide
      simp only [opener, List.cons_append, List.nil_append, dirItemLen, e1, Bool.false_and, Bool.false_eq_true,
        if_false, beq_self_eq_true, if_true, List.length_cons, List.length_nil]
      rw [bcee_closed .brace trim r i h]
  | commentOpen k r hnd h =>
    have hd : ¬ r.head? = some 0x24 := by
      cases r with
      | nil => simp
      | cons x t => intro hx; simp only [List.head?_cons, Option.some.injEq] at hx; exact hnd t (by rw [hx])
    cases k with
    | parenStar =>
      refine ⟨0x28, 0x2A :: r, rfl, by simpa using hd, by simp, ?_, by simp only [opener, List.length_cons, List.length_nil]; omega⟩
      simp only [opener, List.cons_append, List.nil_append, dirItemLen, List.head?_cons, beq_self_eq_true,
        Bool.and_self, if_true, List.drop_succ_cons, List.drop_zero, List.length_cons, List.length_nil]
      rw [bcee_open .parenStar trim r h]
    | brace =>
      refine ⟨0x7B, r, rfl, by simp, by simpa using hd, ?_, by simp only [opener, List.length_cons, List.length_nil]; omega⟩
      have e1 : ((0x7B : UInt8) == 0x28) = false := by decide
      simp only [opener, List.cons_append, List.nil_append, dirItemLen, e1, Bool.false_and, Bool.false_eq_true,
        if_false, beq_self_eq_true, if_true, List.length_cons, List.length_nil]
      rw [bcee_open .brace trim r h]
  | text r n tk h =>
    have hx := textLiteral_only _ _ h
    have hn : n = (textLiteral (0x27 :: r)).1 := by rw [← hx]
    refine ⟨0x27, r, rfl, by simp, by simp, ?_, ?_⟩
    · have e1 : ((0x27 : UInt8) == 0x28) = false := by decide
      have e2 : ((0x27 : UInt8) == 0x7B) = false := by decide
      simp only [dirItemLen, e1, e2, Bool.false_and, Bool.false_eq_true, if_false, beq_self_eq_true, if_true]
      exact hn
    · rw [hn]; exact textLiteral_pos 0x27 r (Or.inl rfl)
  | lineComment r n h =>
    refine ⟨0x2F, 0x2F :: r, rfl, by simp, by simp, ?_, by omega⟩
    have e1 : ((0x2F : UInt8) == 0x28) = false := by decide
    have e2 : ((0x2F : UInt8) == 0x7B) = false := by decide
    have e3 : ((0x2F : UInt8) == 0x27) = false := by decide
    simp only [dirItemLen, e1, e2, e3, Bool.false_and, Bool.false_eq_true, if_false, beq_self_eq_true,
      List.head?_cons, Bool.and_self, if_true, List.drop_succ_cons, List.drop_zero]
    rw [LongestPrefixIn.unique h (lineCommentEnd_longest r)]
  | other b r hb h1 h2 =>
    have c5 : (b == 0x28 && r.head? == some 0x2A) = false := by
      apply (Bool.not_eq_true _).mp
      intro hc
      simp only [Bool.and_eq_true, beq_iff_eq] at hc
      cases r with
      | nil => simp at hc
      | cons x t =>
        simp only [List.head?_cons, Option.some.injEq] at hc
        exact h1 hc.1 t (by rw [hc.2])
    have c8 : (b == 0x2F && r.head? == some 0x2F) = false := by
      apply (Bool.not_eq_true _).mp
      intro hc
      simp only [Bool.and_eq_true, beq_iff_eq] at hc
      cases r with
      | nil => simp at hc
      | cons x t =>
        simp only [List.head?_cons, Option.some.injEq] at hc
        exact h2 hc.1 t (by rw [hc.2])
    have c6 : (b == 0x7B) = false := by simpa using hb.1
    have c7 : (b == 0x27) = false := by simpa using hb.2
    refine ⟨b, r, rfl, ?_, by simp [c6], ?_, Nat.le_refl _⟩
    · intro hc
      rw [Bool.and_eq_true] at hc
      rw [hc.1] at c5; simp at c5
    · simp only [dirItemLen, c5, c6, c7, c8, Bool.false_eq_true, if_false]

theorem isExprName_eq (body : Bytes) :
    isExprName (directiveName body) = isExprDirective (conditionalDirectiveType body).2 := by
  unfold isExprName; rw [conditionalDirectiveType_snd]

/-- the model's treatment of a nested directive, in terms of `dirEndFn` -/
theorem nestedAt_eq (trim f : Nat) (kind : BlockCommentKind) (l : Bytes) (skip : Nat) (k2 : BlockCommentKind)
    (body : Bytes) :
    nestedAt trim f kind l skip k2 body =
      match dirEndFn trim f k2 (isExprName (directiveName body)) (body.drop (directiveName body).length) with
      | none => none
      | some none => some none
      | some (some e) => contAt trim f kind l (skip + (directiveName body).length + e) := by
  unfold nestedAt nestedInner dirEndFn
  rw [isExprName_eq, directiveName_length]
  rfl

theorem fde_nested_paren (trim f : Nat) (kind : BlockCommentKind) (body : Bytes) :
    findDirectiveExprEnd trim (f + 1) kind (0x28 :: 0x2A :: 0x24 :: body) =
      nestedAt trim f kind (0x28 :: 0x2A :: 0x24 :: body) 3 .parenStar body := by
  rw [fde_cons]; cases kind <;> rfl

theorem fde_nested_brace (trim f : Nat) (kind : BlockCommentKind) (body : Bytes) :
    findDirectiveExprEnd trim (f + 1) kind (0x7B :: 0x24 :: body) =
      nestedAt trim f kind (0x7B :: 0x24 :: body) 2 .brace body := by
  rw [fde_cons]; cases kind <;> rfl

theorem contAt_of (trim f : Nat) (kind : BlockCommentKind) (l : Bytes) (n : Nat) (res : Option Nat)
    (h : findDirectiveExprEnd trim f kind (l.drop n) = some res) :
    contAt trim f kind l n = some (res.map (n + ·)) := by
  unfold contAt; rw [h, shiftEnd_some_map]

theorem dirEnd_sat_plain (trim f : Nat) (kind : BlockCommentKind) (l : Bytes) :
    ∃ res, dirEndFn trim f kind false l = some res ∧ DirEnd trim kind false l res := by
  refine ⟨findBlockCommentEnd kind l, by simp [dirEndFn], ?_⟩
  cases hf : findBlockCommentEnd kind l with
  | some e =>
    obtain ⟨i, rfl, hi⟩ := (findBlockCommentEnd_some_iff kind l e).1 hf
    exact .plainClosed kind l i hi
  | none => exact .plainOpen kind l ((findBlockCommentEnd_none_iff kind l).1 hf)

/-- **the model's scanner satisfies the grammar** (with enough fuel, which it always has) -/
theorem dirEnd_sat (trim : Nat) : ∀ (f : Nat) (kind : BlockCommentKind) (expr : Bool) (l : Bytes), l.length < f →
    ∃ res, dirEndFn trim f kind expr l = some res ∧ DirEnd trim kind expr l res := by
  intro f
  induction f with
  | zero => intro _ _ l h; omega
  | succ f ih =>
    intro kind expr l hl
    cases expr with
    | false => exact dirEnd_sat_plain trim _ kind l
    | true =>
      simp only [dirEndFn, if_true]
      cases l with
      | nil => exact ⟨none, by simp [findDirectiveExprEnd], .eof kind⟩
      | cons b0 r0 =>
        -- continuing behind a skipped stretch of `n ≥ 1` bytes
        have cont : ∀ n, 1 ≤ n → ∃ res, contAt trim f kind (b0 :: r0) n = some (res.map (n + ·)) ∧
            DirEnd trim kind true ((b0 :: r0).drop n) res := by
          intro n hn
          obtain ⟨res, h1, h2⟩ := ih kind true ((b0 :: r0).drop n)
            (by simp only [List.length_drop, List.length_cons] at hl ⊢; omega)
          simp only [dirEndFn, if_true] at h1
          exact ⟨res, contAt_of _ _ _ _ _ _ h1, h2⟩
        -- a nested directive with body `body`, `skip` = length of its opener + 1
        have nest : ∀ (k2 : BlockCommentKind) (body : Bytes), b0 :: r0 = opener k2 ++ 0x24 :: body →
            ∃ res, nestedAt trim f kind (b0 :: r0) ((opener k2).length + 1) k2 body = some res ∧
              DirEnd trim kind true (b0 :: r0) res := by
          intro k2 body hshape
          have hlen : (b0 :: r0).length = (opener k2).length + 1 + body.length := by rw [hshape]; simp; omega
          obtain ⟨ri, hi1, hi2⟩ := ih k2 (isExprName (directiveName body)) (body.drop (directiveName body).length)
            (by simp only [List.length_drop]; omega)
          rw [nestedAt_eq, hi1]
          cases ri with
          | none => exact ⟨none, rfl, hshape ▸ .nestedOpen kind k2 body hi2⟩
          | some e =>
            obtain ⟨res, h1, h2⟩ := cont ((opener k2).length + 1 + (directiveName body).length + e) (by omega)
            refine ⟨_, h1, ?_⟩
            have hd : (b0 :: r0).drop ((opener k2).length + 1 + (directiveName body).length + e) =
                body.drop ((directiveName body).length + e) := by
              rw [hshape, show (opener k2).length + 1 + (directiveName body).length + e =
                (opener k2).length + (1 + ((directiveName body).length + e)) by omega, ← List.drop_drop,
                List.drop_left, Nat.add_comm 1, List.drop_succ_cons]
            rw [hd] at h2
            exact hshape ▸ .nested kind k2 body e res hi2 h2
        rw [fde_cons]
        by_cases c1 : (kind == .parenStar && b0 == 0x2A && r0.head? == some 0x29) = true
        · simp only [c1, if_true]
          have hp : closer kind <+: b0 :: r0 := (closer_prefix_cons kind b0 r0).2 (Or.inl ⟨c1, by
            simp only [Bool.and_eq_true, beq_iff_eq] at c1; rw [c1.1.1]; rfl⟩)
          have hlen : (closer kind).length = 2 := by
            simp only [Bool.and_eq_true, beq_iff_eq] at c1; rw [c1.1.1]; rfl
          exact ⟨some 2, rfl, hlen ▸ .close kind _ hp⟩
        simp only [c1, Bool.false_eq_true, if_false]
        by_cases c2 : (kind == .brace && b0 == 0x7D) = true
        · simp only [c2, if_true]
          have hlen : (closer kind).length = 1 := by
            simp only [Bool.and_eq_true, beq_iff_eq] at c2; rw [c2.1]; rfl
          have hp : closer kind <+: b0 :: r0 := (closer_prefix_cons kind b0 r0).2 (Or.inr ⟨c2, hlen⟩)
          exact ⟨some 1, rfl, hlen ▸ .close kind _ hp⟩
        simp only [c2, Bool.false_eq_true, if_false]
        have hc : ¬ closer kind <+: b0 :: r0 := by
          intro hp
          rcases (closer_prefix_cons kind b0 r0).1 hp with h | h
          · exact c1 h.1
          · exact c2 h.1
        by_cases c3 : (b0 == 0x28 && r0.head? == some 0x2A && r0.tail.head? == some 0x24) = true
        · simp only [c3, if_true]
          obtain ⟨body, hb⟩ := (nestedParen_iff b0 r0).1 c3
          have hr0 : r0.drop 2 = body := by
            simp only [List.cons.injEq] at hb; rw [hb.2]; rfl
          rw [hr0]
          exact nest .parenStar body hb
        simp only [c3, Bool.false_eq_true, if_false]
        by_cases c4 : (b0 == 0x7B && r0.head? == some 0x24) = true
        · simp only [c4, if_true]
          obtain ⟨body, hb⟩ := (nestedBrace_iff b0 r0).1 c4
          have hr0 : r0.drop 1 = body := by
            simp only [List.cons.injEq] at hb; rw [hb.2]; rfl
          rw [hr0]
          exact nest .brace body hb
        simp only [c4, Bool.false_eq_true, if_false]
        have hi := dirItem_sat trim b0 r0 c3 c4
        obtain ⟨_, _, _, _, _, _, hpos⟩ := dirItem_only trim _ _ hi
        obtain ⟨res, h1, h2⟩ := cont _ hpos
        exact ⟨_, h1, .skip kind _ _ res hc hi h2⟩

/-- **the grammar determines the model's result** -/
theorem dirEnd_only (trim : Nat) (kind : BlockCommentKind) (expr : Bool) (l : Bytes) (res : Option Nat)
    (h : DirEnd trim kind expr l res) : ∀ f, l.length < f → dirEndFn trim f kind expr l = some res := by
  induction h with
  | plainClosed kind l i h =>
    intro f _
    simp only [dirEndFn, Bool.false_eq_true, if_false]
    rw [(findBlockCommentEnd_some_iff kind l _).2 ⟨i, rfl, h⟩]
  | plainOpen kind l h =>
    intro f _
    simp only [dirEndFn, Bool.false_eq_true, if_false]
    rw [(findBlockCommentEnd_none_iff kind l).2 h]
  | eof kind =>
    intro f hf
    cases f with
    | zero => omega
    | succ f => simp [dirEndFn, findDirectiveExprEnd]
  | close kind l h =>
    intro f hf
    cases f with
    | zero => omega
    | succ f =>
      simp only [dirEndFn, if_true]
      cases l with
      | nil => exact absurd h (closer_not_prefix_nil kind)
      | cons b0 r0 =>
        rw [fde_cons]
        rcases (closer_prefix_cons kind b0 r0).1 h with ⟨c1, hlen⟩ | ⟨c2, hlen⟩
        · simp only [c1, if_true, hlen]
        · have c1 : (kind == .parenStar && b0 == 0x2A && r0.head? == some 0x29) = false := by
            simp only [Bool.and_eq_true, beq_iff_eq] at c2
            rw [c2.1]; rfl
          simp only [c1, Bool.false_eq_true, if_false, c2, if_true, hlen]
  | skip kind l n res hc hi hr ih =>
    intro f hf
    cases f with
    | zero => omega
    | succ f =>
      simp only [dirEndFn, if_true] at ih ⊢
      obtain ⟨b0, r0, rfl, c3, c4, hn, hpos⟩ := dirItem_only trim _ _ hi
      rw [fde_cons]
      have c1 : ¬ (kind == .parenStar && b0 == 0x2A && r0.head? == some 0x29) = true := by
        intro c1
        refine hc ((closer_prefix_cons kind b0 r0).2 (Or.inl ⟨c1, ?_⟩))
        simp only [Bool.and_eq_true, beq_iff_eq] at c1; rw [c1.1.1]; rfl
      have c2 : ¬ (kind == .brace && b0 == 0x7D) = true := by
        intro c2
        refine hc ((closer_prefix_cons kind b0 r0).2 (Or.inr ⟨c2, ?_⟩))
        simp only [Bool.and_eq_true, beq_iff_eq] at c2; rw [c2.1]; rfl
      simp only [c1, c2, c3, c4, Bool.false_eq_true, if_false]
      rw [← hn]
      exact contAt_of _ _ _ _ _ _ (ih f (by simp only [List.length_drop, List.length_cons] at hf ⊢; omega))
  | nested kind k2 body e res hn hr ihn ihr =>
    intro f hf
    cases f with
    | zero => omega
    | succ f =>
      simp only [dirEndFn, if_true] at ihr ⊢
      have hlen : (opener k2 ++ 0x24 :: body).length = (opener k2).length + 1 + body.length := by simp; omega
      have hin := ihn f (by simp only [List.length_drop]; omega)
      have hd : (opener k2 ++ 0x24 :: body).drop ((opener k2).length + 1 + (directiveName body).length + e) =
          body.drop ((directiveName body).length + e) := by
        rw [show (opener k2).length + 1 + (directiveName body).length + e =
          (opener k2).length + (1 + ((directiveName body).length + e)) by omega, ← List.drop_drop,
          List.drop_left, Nat.add_comm 1, List.drop_succ_cons]
      have hcont := contAt_of trim f kind (opener k2 ++ 0x24 :: body)
        ((opener k2).length + 1 + (directiveName body).length + e) res (by
          rw [hd]; exact ihr f (by simp only [List.length_drop]; omega))
      have hnest : nestedAt trim f kind (opener k2 ++ 0x24 :: body) ((opener k2).length + 1) k2 body =
          some (res.map (((opener k2).length + 1 + (directiveName body).length + e) + ·)) := by
        rw [nestedAt_eq, hin]; exact hcont
      cases k2 with
      | parenStar =>
        show findDirectiveExprEnd trim (f + 1) kind (0x28 :: 0x2A :: 0x24 :: body) = _
        rw [fde_nested_paren]
        exact hnest
      | brace =>
        show findDirectiveExprEnd trim (f + 1) kind (0x7B :: 0x24 :: body) = _
        rw [fde_nested_brace]
        exact hnest
  | nestedOpen kind k2 body hn ihn =>
    intro f hf
    cases f with
    | zero => omega
    | succ f =>
      simp only [dirEndFn, if_true]
      have hlen : (opener k2 ++ 0x24 :: body).length = (opener k2).length + 1 + body.length := by simp; omega
      have hin := ihn f (by simp only [List.length_drop]; omega)
      have hnest : nestedAt trim f kind (opener k2 ++ 0x24 :: body) ((opener k2).length + 1) k2 body = some none := by
        rw [nestedAt_eq, hin]
      cases k2 with
      | parenStar =>
        show findDirectiveExprEnd trim (f + 1) kind (0x28 :: 0x2A :: 0x24 :: body) = _
        rw [fde_nested_paren]
        exact hnest
      | brace =>
        show findDirectiveExprEnd trim (f + 1) kind (0x7B :: 0x24 :: body) = _
        rw [fde_nested_brace]
        exact hnest

/-- **the scanner computes exactly the grammar**: with more fuel than bytes (the model always supplies
    `2·len + 2`), the result is `res` iff the grammar allows `res`; in particular the grammar is
    deterministic and total -/
theorem dirEnd_iff (trim f : Nat) (kind : BlockCommentKind) (expr : Bool) (l : Bytes) (res : Option Nat)
    (hf : l.length < f) : dirEndFn trim f kind expr l = some res ↔ DirEnd trim kind expr l res := by
  constructor
  · intro h
    obtain ⟨res', h1, h2⟩ := dirEnd_sat trim f kind expr l hf
    rw [h] at h1
    simp only [Option.some.injEq] at h1
    rw [h1]; exact h2
  · intro h; exact dirEnd_only trim kind expr l res h f hf

/-- a terminated directive always ends right after a closer of its own bracket kind, inside the text -/
theorem dirEnd_ends_with_closer (trim : Nat) (kind : BlockCommentKind) (expr : Bool) (l : Bytes) (res : Option Nat)
    (h : DirEnd trim kind expr l res) :
    ∀ e, res = some e → ∃ i, e = i + (closer kind).length ∧ OccursAt (closer kind) l i := by
  induction h with
  | plainClosed kind l i h => intro e he; cases he; exact ⟨i, rfl, h.1⟩
  | plainOpen kind l h => intro e he; cases he
  | eof kind => intro e he; cases he
  | close kind l h => intro e he; cases he; exact ⟨0, by simp, by simpa [OccursAt] using h⟩
  | skip kind l n res hc hi hr ih =>
    intro e he
    cases res with
    | none => cases he
    | some e' =>
      simp only [Option.map_some, Option.some.injEq] at he
      obtain ⟨i, hi1, hi2⟩ := ih e' rfl
      exact ⟨n + i, by omega, (occursAt_drop _ _ _ _).1 hi2⟩
  | nested kind k2 body e0 res hn hr ihn ihr =>
    intro e he
    cases res with
    | none => cases he
    | some e' =>
      simp only [Option.map_some, Option.some.injEq] at he
      obtain ⟨i, hi1, hi2⟩ := ihr e' rfl
      refine ⟨(opener k2).length + 1 + (directiveName body).length + e0 + i, by omega, ?_⟩
      have hd : (opener k2 ++ 0x24 :: body).drop ((opener k2).length + 1 + (directiveName body).length + e0) =
          body.drop ((directiveName body).length + e0) := by
        rw [show (opener k2).length + 1 + (directiveName body).length + e0 =
          (opener k2).length + (1 + ((directiveName body).length + e0)) by omega, ← List.drop_drop,
          List.drop_left, Nat.add_comm 1, List.drop_succ_cons]
      rw [← occursAt_drop, hd]
      exact hi2
  | nestedOpen kind k2 body hn ihn => intro e he; cases he

/-! ### the whole directive token -/

/-- declarative result `(token length, kind)` of scanning a directive; `l` = the text after `{$` resp.
    `(*$`, `openLen` = 2 resp. 3, `tokLen` = number of bytes from the opener to the end of the text,
    `trim` = length of the blank run at the end of the text.  The name is the maximal run of name
    bytes, the kind is looked up in the table, the end is given by `DirEnd` applied to the text after
    the name; an unterminated directive runs to the end of the text minus the trailing blanks. -/
inductive DirectiveSpec (kind : BlockCommentKind) (trim openLen tokLen : Nat) (l : Bytes) :
    Nat × Option ConditionalDirectiveKind → Prop
  | closed (e : Nat)
      (h : DirEnd trim kind (isExprName (directiveName l)) (l.drop (directiveName l).length) (some e)) :
      DirectiveSpec kind trim openLen tokLen l
        (openLen + ((directiveName l).length + e), directiveKindSpec (directiveName l))
  | unterminated
      (h : DirEnd trim kind (isExprName (directiveName l)) (l.drop (directiveName l).length) none) :
      DirectiveSpec kind trim openLen tokLen l (tokLen - trim, directiveKindSpec (directiveName l))

theorem compilerDirective_eq (trim : Nat) (kind : BlockCommentKind) (openLen tokLen : Nat) (l : Bytes) :
    compilerDirective trim kind openLen tokLen l =
      match dirEndFn trim (directiveFuel l) kind (isExprName (directiveName l)) (l.drop (directiveName l).length) with
      | none => none
      | some (some e) => some (openLen + ((directiveName l).length + e), directiveKindSpec (directiveName l))
      | some none => some (tokLen - trim, directiveKindSpec (directiveName l)) := by
  unfold compilerDirective parseDirectiveExpr dirEndFn
  rw [isExprName_eq, directiveName_length, ← conditionalDirectiveType_snd]
  simp only
  by_cases hx : isExprDirective (conditionalDirectiveType l).2 = true
  · simp only [hx, if_true]
    cases findDirectiveExprEnd trim (directiveFuel l) kind (l.drop (conditionalDirectiveType l).1) with
    | none => rfl
    | some o => cases o <;> rfl
  · simp only [hx, Bool.false_eq_true, if_false]
    cases findBlockCommentEnd kind (l.drop (conditionalDirectiveType l).1) <;> rfl

theorem directiveFuel_enough (l : Bytes) (n : Nat) : (l.drop n).length < directiveFuel l := by
  unfold directiveFuel; simp only [List.length_drop]; omega

/-- **the directive scanner computes exactly `DirectiveSpec`** -/
theorem compilerDirective_iff (trim : Nat) (kind : BlockCommentKind) (openLen tokLen : Nat) (l : Bytes)
    (x : Nat × Option ConditionalDirectiveKind) :
    compilerDirective trim kind openLen tokLen l = some x ↔ DirectiveSpec kind trim openLen tokLen l x := by
  rw [compilerDirective_eq]
  constructor
  · intro h
    obtain ⟨res, h1, h2⟩ := dirEnd_sat trim (directiveFuel l) kind (isExprName (directiveName l))
      (l.drop (directiveName l).length) (directiveFuel_enough l _)
    rw [h1] at h
    cases res with
    | none => simp only [Option.some.injEq] at h; rw [← h]; exact .unterminated h2
    | some e => simp only [Option.some.injEq] at h; rw [← h]; exact .closed e h2
  · intro h
    cases h with
    | closed e h => rw [dirEnd_only trim kind _ _ _ h _ (directiveFuel_enough l _)]
    | unterminated h => rw [dirEnd_only trim kind _ _ _ h _ (directiveFuel_enough l _)]

theorem directiveSpec_total (trim : Nat) (kind : BlockCommentKind) (openLen tokLen : Nat) (l : Bytes) :
    ∃ x, DirectiveSpec kind trim openLen tokLen l x := by
  cases h : compilerDirective trim kind openLen tokLen l with
  | none => exact absurd h (compilerDirective_ne_none trim kind openLen tokLen l)
  | some x => exact ⟨x, (compilerDirective_iff trim kind openLen tokLen l x).1 h⟩

/-- for every name except `if` / `elseif` the result is the one of `PlainDirectiveSpec` -/
theorem compilerDirective_plain_iff (trim : Nat) (kind : BlockCommentKind) (openLen tokLen : Nat) (l : Bytes)
    (hx : isExprName (directiveName l) = false) (x : Nat × Option ConditionalDirectiveKind) :
    compilerDirective trim kind openLen tokLen l = some x ↔ PlainDirectiveSpec kind trim openLen tokLen l x := by
  obtain ⟨y, hy1, hy2⟩ := compilerDirective_plain_sat trim kind openLen tokLen l hx
  constructor
  · intro h; rw [hy1] at h; simp only [Option.some.injEq] at h; rw [← h]; exact hy2
  · intro h; rw [hy1, PlainDirectiveSpec.unique h hy2]

/-- a token that starts with `{$` -/
theorem lexOne_braceDirective (simd : Bool) (st : LexState) (inp : Bytes) (r : Bytes)
    (x : Nat × Option ConditionalDirectiveKind)
    (hd : inp.drop (countLeadingWs inp) = 0x7B :: 0x24 :: r)
    (hx : DirectiveSpec .brace (countTrailingWs inp) 2 (r.length + 2) r x) :
    lexOne simd st inp =
      some (some (countLeadingWs inp, countLeadingWs inp + x.1, dirKind x.2, stepState st (dirKind x.2) st.inAsm)) := by
  apply lexOne_of_runSub simd st inp 0x7B (0x24 :: r) { len := x.1, kind := dirKind x.2, inAsm := st.inAsm } hd
  rw [(dispatch_fixed st.inAsm).2.1]
  simp only [runSub, List.length_cons]
  rw [(compilerDirective_iff _ _ _ _ _ x).2 hx]
  rfl

/-- a token that starts with `(*$` -/
theorem lexOne_parenDirective (simd : Bool) (st : LexState) (inp : Bytes) (r : Bytes)
    (x : Nat × Option ConditionalDirectiveKind)
    (hd : inp.drop (countLeadingWs inp) = 0x28 :: 0x2A :: 0x24 :: r)
    (hx : DirectiveSpec .parenStar (countTrailingWs inp) 3 (r.length + 3) r x) :
    lexOne simd st inp =
      some (some (countLeadingWs inp, countLeadingWs inp + x.1, dirKind x.2, stepState st (dirKind x.2) st.inAsm)) := by
  apply lexOne_of_runSub simd st inp 0x28 (0x2A :: 0x24 :: r) { len := x.1, kind := dirKind x.2, inAsm := st.inAsm } hd
  rw [(dispatch_fixed st.inAsm).2.2.1]
  simp only [runSub, List.length_cons]
  rw [(compilerDirective_iff _ _ _ _ _ x).2 hx]
  rfl

end Pasfmt
