import PasfmtModel.Proofs.NoDangling

namespace Pasfmt

theorem validUtf8_unfold (l : Bytes) :
    validUtf8 l = match firstCharLen l with
      | none => l.isEmpty
      | some k => validUtf8 (l.drop k) := by
  rw [validUtf8]
  split <;> simp_all

theorem validUtf8_nil : validUtf8 [] = true := by
  rw [validUtf8_unfold]; simp [firstCharLen]

/-- byte-class facts used below, checked for all 256 values -/
theorem byte_facts (b : UInt8) :
    (b < 0x80 → isCont b = false) ∧
    ((0xC2 ≤ b && b ≤ 0xDF) = true → isCont b = false) ∧
    ((0xE0 ≤ b && b ≤ 0xEF) = true → isCont b = false) ∧
    ((0xF0 ≤ b && b ≤ 0xF4) = true → isCont b = false) ∧
    ((0xA0 ≤ b && b ≤ 0xBF) = true → isCont b = true) ∧
    ((0x80 ≤ b && b ≤ 0x9F) = true → isCont b = true) ∧
    ((0x90 ≤ b && b ≤ 0xBF) = true → isCont b = true) ∧
    ((0x80 ≤ b && b ≤ 0x8F) = true → isCont b = true) := by
  have hall : ∀ n : Fin 256,
    ((UInt8.ofNat n.val) < 0x80 → isCont (UInt8.ofNat n.val) = false) ∧
    ((0xC2 ≤ (UInt8.ofNat n.val) && (UInt8.ofNat n.val) ≤ 0xDF) = true → isCont (UInt8.ofNat n.val) = false) ∧
    ((0xE0 ≤ (UInt8.ofNat n.val) && (UInt8.ofNat n.val) ≤ 0xEF) = true → isCont (UInt8.ofNat n.val) = false) ∧
    ((0xF0 ≤ (UInt8.ofNat n.val) && (UInt8.ofNat n.val) ≤ 0xF4) = true → isCont (UInt8.ofNat n.val) = false) ∧
    ((0xA0 ≤ (UInt8.ofNat n.val) && (UInt8.ofNat n.val) ≤ 0xBF) = true → isCont (UInt8.ofNat n.val) = true) ∧
    ((0x80 ≤ (UInt8.ofNat n.val) && (UInt8.ofNat n.val) ≤ 0x9F) = true → isCont (UInt8.ofNat n.val) = true) ∧
    ((0x90 ≤ (UInt8.ofNat n.val) && (UInt8.ofNat n.val) ≤ 0xBF) = true → isCont (UInt8.ofNat n.val) = true) ∧
    ((0x80 ≤ (UInt8.ofNat n.val) && (UInt8.ofNat n.val) ≤ 0x8F) = true → isCont (UInt8.ofNat n.val) = true) := by
    decide +kernel
  have := hall ⟨b.toNat, b.toNat_lt⟩
  simpa only [UInt8.ofNat_toNat] using this

/-- the character at the head: its bytes, that only they determine `firstCharLen`, and their classes -/
structure HeadChar (l : Bytes) (k : Nat) : Prop where
  le : k ≤ l.length
  pos : 1 ≤ k
  stable : ∀ x, firstCharLen (l.take k ++ x) = some k
  head_notCont : ∀ b, l.head? = some b → isCont b = false
  tail_cont : ∀ i, 0 < i → i < k → ∀ b, l[i]? = some b → isCont b = true

theorem firstCharLen_head (l : Bytes) (k : Nat) (h : firstCharLen l = some k) : HeadChar l k := by
  have hb := firstCharLen_bounds l k h
  unfold firstCharLen at h
  split at h
  · simp at h
  · rename_i b0 r
    by_cases h0 : b0 < 0x80
    · simp only [h0, if_true, Option.some.injEq] at h
      subst h
      refine ⟨hb.2, hb.1, ?_, ?_, ?_⟩
      · intro x; simp [firstCharLen, h0]
      · intro b hb'; simp at hb'; subst hb'; exact (byte_facts b0).1 h0
      · intro i hi hi'; omega
    · simp only [h0, if_false] at h
      by_cases h1 : (0xC2 ≤ b0 && b0 ≤ 0xDF) = true
      · simp only [h1, if_true] at h
        cases r with
        | nil => simp at h
        | cons b1 r1 =>
          simp only at h
          by_cases hc1 : isCont b1 = true
          · simp only [hc1, if_true, Option.some.injEq] at h
            subst h
            refine ⟨hb.2, hb.1, ?_, ?_, ?_⟩
            · intro x; simp [firstCharLen, h0, h1, hc1]
            · intro b hb'; simp at hb'; subst hb'; exact (byte_facts b0).2.1 h1
            · intro i hi hi' b hbi
              have : i = 1 := by omega
              subst this; simp at hbi; subst hbi; exact hc1
          · simp [hc1] at h
      · simp only [h1, Bool.false_eq_true, if_false] at h
        by_cases h2 : (0xE0 ≤ b0 && b0 ≤ 0xEF) = true
        · simp only [h2, if_true] at h
          cases r with
          | nil => simp at h
          | cons b1 r1 =>
            cases r1 with
            | nil => simp at h
            | cons b2 r2 =>
              simp only at h
              generalize hcd : ((if (b0 == 0xE0) = true then 0xA0 ≤ b1 && b1 ≤ 0xBF
                  else if (b0 == 0xED) = true then 0x80 ≤ b1 && b1 ≤ 0x9F else isCont b1) && isCont b2) = cond at h
              cases cond with
              | false => simp at h
              | true =>
                simp only [if_true, Option.some.injEq] at h
                subst h
                have hcond := hcd
                simp only [Bool.and_eq_true] at hcond
                have hc2 : isCont b2 = true := hcond.2
                have hc1 : isCont b1 = true := by
                  have hc := hcond.1
                  split at hc
                  · exact (byte_facts b1).2.2.2.2.1 hc
                  · split at hc
                    · exact (byte_facts b1).2.2.2.2.2.1 hc
                    · exact hc
                refine ⟨hb.2, hb.1, ?_, ?_, ?_⟩
                · intro x
                  simp only [List.take_succ_cons, List.take_zero, List.cons_append, List.nil_append]
                  rw [firstCharLen]
                  simp only [h0, h1, h2, if_true, if_false, Bool.false_eq_true, hcd]
                · intro b hb'; simp at hb'; subst hb'; exact (byte_facts b0).2.2.1 h2
                · intro i hi hi' b hbi
                  have : i = 1 ∨ i = 2 := by omega
                  rcases this with rfl | rfl
                  · simp at hbi; subst hbi; exact hc1
                  · simp at hbi; subst hbi; exact hc2
        · simp only [h2, Bool.false_eq_true, if_false] at h
          by_cases h3 : (0xF0 ≤ b0 && b0 ≤ 0xF4) = true
          · simp only [h3, if_true] at h
            cases r with
            | nil => simp at h
            | cons b1 r1 =>
              cases r1 with
              | nil => simp at h
              | cons b2 r2 =>
                cases r2 with
                | nil => simp at h
                | cons b3 r3 =>
                  simp only at h
                  generalize hcd : ((if (b0 == 0xF0) = true then 0x90 ≤ b1 && b1 ≤ 0xBF
                      else if (b0 == 0xF4) = true then 0x80 ≤ b1 && b1 ≤ 0x8F else isCont b1) && isCont b2 && isCont b3) = cond at h
                  cases cond with
                  | false => simp at h
                  | true =>
                    simp only [if_true, Option.some.injEq] at h
                    subst h
                    have hcond := hcd
                    simp only [Bool.and_eq_true] at hcond
                    have hc3 : isCont b3 = true := hcond.2
                    have hc2 : isCont b2 = true := hcond.1.2
                    have hc1 : isCont b1 = true := by
                      have hc := hcond.1.1
                      split at hc
                      · exact (byte_facts b1).2.2.2.2.2.2.1 hc
                      · split at hc
                        · exact (byte_facts b1).2.2.2.2.2.2.2 hc
                        · exact hc
                    refine ⟨hb.2, hb.1, ?_, ?_, ?_⟩
                    · intro x
                      simp only [List.take_succ_cons, List.take_zero, List.cons_append, List.nil_append]
                      rw [firstCharLen]
                      simp only [h0, h1, h2, h3, if_true, if_false, Bool.false_eq_true, hcd]
                    · intro b hb'; simp at hb'; subst hb'; exact (byte_facts b0).2.2.2.1 h3
                    · intro i hi hi' b hbi
                      have : i = 1 ∨ i = 2 ∨ i = 3 := by omega
                      rcases this with rfl | rfl | rfl
                      · simp at hbi; subst hbi; exact hc1
                      · simp at hbi; subst hbi; exact hc2
                      · simp at hbi; subst hbi; exact hc3
          · simp [h3] at h

end Pasfmt

namespace Pasfmt

/-- the byte at position `p` of `l` is not a continuation byte (or `p` is at/after the end) -/
def NotContAt (l : Bytes) (p : Nat) : Prop := ∀ b, l[p]? = some b → isCont b = false

/-- Lemma C. In well-formed text every position whose byte is not a continuation byte is a
    character boundary: both sides are well-formed. -/
theorem validUtf8_split (l : Bytes) (p : Nat) (hv : validUtf8 l = true) (hp : p ≤ l.length)
    (hnc : NotContAt l p) : validUtf8 (l.take p) = true ∧ validUtf8 (l.drop p) = true := by
  induction hlen : l.length using Nat.strongRecOn generalizing l p with
  | _ n ih =>
    by_cases hp0 : p = 0
    · subst hp0; simp [validUtf8_nil, hv]
    · -- l is non-empty, so it starts with a well-formed character of length k
      rw [validUtf8_unfold] at hv
      cases hk : firstCharLen l with
      | none =>
        rw [hk] at hv
        simp only [List.isEmpty_iff] at hv
        subst hv; simp at hp; omega
      | some k =>
        rw [hk] at hv
        simp only at hv
        have hc := firstCharLen_head l k hk
        by_cases hpk : p < k
        · -- p is inside the first character: its byte is a continuation byte
          exfalso
          have hpl : p < l.length := Nat.lt_of_lt_of_le hpk hc.le
          have hb := hc.tail_cont p (by omega) hpk (l[p]) (List.getElem?_eq_getElem hpl)
          have := hnc (l[p]) (List.getElem?_eq_getElem hpl)
          rw [this] at hb; simp at hb
        · have hkp : k ≤ p := by omega
          have hrec := ih (l.drop k).length (by simp only [List.length_drop]; have := hc.pos; omega)
            (l.drop k) (p - k) hv (by simp only [List.length_drop]; omega)
            (by
              intro b hb
              apply hnc b
              rw [List.getElem?_drop] at hb
              rw [← hb]; congr 1; omega) rfl
          constructor
          · -- take p l = take k l ++ take (p-k) (drop k l)
            have htake : l.take p = l.take k ++ (l.drop k).take (p - k) := by
              have : p = k + (p - k) := by omega
              conv => lhs; rw [this]
              rw [List.take_add]
            rw [htake, validUtf8_unfold, hc.stable]
            simp only
            have hlk : (l.take k).length = k := by rw [List.length_take]; exact Nat.min_eq_left hc.le
            rw [List.drop_append_of_le_length (by omega), List.drop_of_length_le (by omega), List.nil_append]
            exact hrec.1
          · have : l.drop p = (l.drop k).drop (p - k) := by
              rw [List.drop_drop]; congr 1; omega
            rw [this]; exact hrec.2

/-- positions after an ASCII byte, and positions holding an ASCII byte, lead byte or nothing, are
    boundaries of well-formed text -/
theorem notContAt_of_ascii (l : Bytes) (p : Nat) (b : UInt8) (h : l[p]? = some b) (hb : b < 0x80) : NotContAt l p := by
  intro b' hb'
  rw [h] at hb'; simp at hb'; subst hb'
  exact (byte_facts b).1 hb

theorem notContAt_end (l : Bytes) (p : Nat) (h : l.length ≤ p) : NotContAt l p := by
  intro b hb
  rw [List.getElem?_eq_none h] at hb; simp at hb

/-- in well-formed text, the position right after an ASCII byte is a boundary -/
theorem valid_after_ascii (b : UInt8) (r : Bytes) (hb : b < 0x80) (hv : validUtf8 (b :: r) = true) :
    validUtf8 r = true := by
  rw [validUtf8_unfold] at hv
  simp [firstCharLen, hb] at hv
  exact hv

theorem valid_cons_ascii (b : UInt8) (r : Bytes) (hb : b < 0x80) (hv : validUtf8 r = true) :
    validUtf8 (b :: r) = true := by
  rw [validUtf8_unfold]
  simp [firstCharLen, hb, hv]

/-- well-formed text has no dangling `E3` -/
theorem valid_nd (l : Bytes) (hv : validUtf8 l = true) : nd l = true := by
  induction hlen : l.length using Nat.strongRecOn generalizing l with
  | _ n ih =>
    cases l with
    | nil => rfl
    | cons b0 r =>
      rw [validUtf8_unfold] at hv
      cases hk : firstCharLen (b0 :: r) with
      | none => rw [hk] at hv; simp at hv
      | some k =>
        rw [hk] at hv
        simp only at hv
        have hc := firstCharLen_head (b0 :: r) k hk
        have hrest := ih ((b0 :: r).drop k).length
          (by
            have h1 := hc.pos
            have h2 := hc.le
            have h3 : (b0 :: r).length = n := hlen
            simp only [List.length_drop]; omega)
          ((b0 :: r).drop k) hv rfl
        -- the first character: E3 followed by two continuation bytes, or no E3 at its head
        by_cases he : b0 = 0xE3
        · subst he
          -- k = 3 and the two next bytes are continuation bytes
          have hk3 : k = 3 := by
            unfold firstCharLen at hk
            simp only [show ¬ ((0xE3 : UInt8) < 0x80) by decide, if_false,
              show ((0xC2 : UInt8) ≤ 0xE3 && (0xE3 : UInt8) ≤ 0xDF) = false by decide,
              show ((0xE0 : UInt8) ≤ 0xE3 && (0xE3 : UInt8) ≤ 0xEF) = true by decide, if_true,
              Bool.false_eq_true] at hk
            split at hk
            · split at hk <;> simp at hk
              · exact hk.2.symm
              · exact hk.2.symm
            · simp at hk
          subst hk3
          match r, hc with
          | b1 :: b2 :: r', hc =>
            have h1 := hc.tail_cont 1 (by omega) (by omega) b1 rfl
            have h2 := hc.tail_cont 2 (by omega) (by omega) b2 rfl
            rw [nd]
            simp only [h1, h2, Bool.and_self, Bool.true_and]
            simpa using hrest
          | [], hc => have := hc.le; simp at this
          | [_], hc => have := hc.le; simp at this
        · rw [nd_cons_ne _ _ he]
          -- the remaining bytes of the character are continuation bytes (≠ E3); strip them
          have hgen : ∀ (m : Nat) (t : Bytes), m ≤ t.length → (∀ i, i < m → ∀ b, t[i]? = some b → isCont b = true) →
              nd t = nd (t.drop m) := by
            intro m
            induction m with
            | zero => intro t _ _; rfl
            | succ j ihj =>
              intro t hle hall
              cases t with
              | nil => simp at hle
              | cons c t' =>
                have hc0 : isCont c = true := hall 0 (by omega) c rfl
                have hne : c ≠ 0xE3 := (isCont_not_blank hc0).2
                rw [nd_cons_ne _ _ hne, List.drop_succ_cons]
                apply ihj t' (by simp at hle; omega)
                intro i hi b hb
                exact hall (i + 1) (by omega) b (by simpa using hb)
          have := hgen (k - 1) r (by have := hc.le; simp at this; omega)
            (by
              intro i hi b hb
              exact hc.tail_cont (i + 1) (by omega) (by omega) b (by simpa using hb))
          rw [this]
          have hd : (b0 :: r).drop k = r.drop (k - 1) := by
            have := hc.pos
            obtain ⟨j, hj⟩ : ∃ j, k = j + 1 := ⟨k - 1, by omega⟩
            subst hj; simp
          rw [← hd]; exact hrest

end Pasfmt
