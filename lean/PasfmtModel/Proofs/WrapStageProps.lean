/-
  Frame theorems for the exact model of the wrapper stage (`Model/WrapStage.lean`), for EVERY search
  (`solve` arbitrary): applying solutions changes counters only; the string passes change only the text of
  non-ignored multi-line literals, as the exact re-indenter does; hence the stage satisfies the wrapper
  contracts of C01 (`WrapFrame`) and C07 (`WrapKeepsIgnored`) outright, and no token starts a line with spaces.
-/
import PasfmtModel.Model.WrapStage
import PasfmtModel.Proofs.MlsSim
import PasfmtModel.Proofs.PipelineC07

namespace Pasfmt

/-- one token before/after (part of) the wrapper stage -/
def StageRel (S : Settings) (t t' : FTok) : Prop :=
  t'.tok.kind = t.tok.kind ∧ t'.fmt.ignored = t.fmt.ignored ∧
  (t'.tok.ws = t.tok.ws ∨ t'.tok.ws = []) ∧
  (t.fmt.ignored = true → t'.tok = t.tok) ∧
  Sim t.tok.content t'.tok.content

theorem StageRel.refl (S : Settings) (t : FTok) : StageRel S t t :=
  ⟨rfl, rfl, Or.inl rfl, fun _ => rfl, Sim.refl _⟩

theorem StageRel.trans {S : Settings} {a b c : FTok} (h1 : StageRel S a b) (h2 : StageRel S b c) : StageRel S a c := by
  obtain ⟨k1, i1, w1, g1, s1⟩ := h1
  obtain ⟨k2, i2, w2, g2, s2⟩ := h2
  refine ⟨k2.trans k1, i2.trans i1, ?_, ?_, s1.trans s2⟩
  · rcases w2 with e | e
    · rcases w1 with e1 | e1
      · exact Or.inl (e.trans e1)
      · exact Or.inr (e.trans e1)
    · exact Or.inr e
  · intro hi
    have hb : b.fmt.ignored = true := by rw [i1]; exact hi
    rw [g2 hb, g1 hi]

theorem All2.refl' {α : Type} {R : α → α → Prop} (h : ∀ a, R a a) : ∀ (as : List α), All2 R as as
  | [] => .nil
  | a :: r => .cons (h a) (All2.refl' h r)

/-- replacing one element by a related one -/
theorem All2.set_right {α : Type} {R : α → α → Prop} (hr : ∀ a, R a a) (as : List α) (i : Nat) (x a : α)
    (hi : as[i]? = some a) (hx : R a x) : All2 R as (as.set i x) := by
  induction as generalizing i with
  | nil => simp at hi
  | cons b r ih =>
    cases i with
    | zero =>
      simp at hi; subst hi
      simp only [List.set_cons_zero]
      exact .cons hx (All2.refl' hr r)
    | succ j =>
      simp only [List.set_cons_succ]
      exact .cons (hr b) (ih j (by simpa using hi))

theorem setFmt_rel (S : Settings) (ft ft' : FT) (i : Nat) (g : FmtData → FmtData)
    (hg : ∀ f, (g f).ignored = f.ignored) (h : setFmt ft i g = some ft') : All2 (StageRel S) ft ft' := by
  unfold setFmt at h
  split at h
  · rename_i t ht
    simp at h; subst h
    apply All2.set_right (StageRel.refl S) ft i _ t ht
    exact ⟨rfl, hg _, Or.inl rfl, fun _ => rfl, Sim.refl _⟩
  · simp at h

theorem applyDec_ignored (f : FmtData) (first : Bool) (ind cont : Nat) (d : Dec) :
    (applyDec f first ind cont d).ignored = f.ignored := by
  cases d <;> rfl

theorem all2_trans_stage {S : Settings} {a b c : FT} (h1 : All2 (StageRel S) a b) (h2 : All2 (StageRel S) b c) :
    All2 (StageRel S) a c :=
  All2.trans h1 h2 (fun _ _ _ x y => x.trans y)

mutual
theorem applySol_rel (S : Settings) (lines : List Line) (ft ft' : FT) (s : Sol) (li : Nat)
    (h : applySol lines ft s li = some ft') : All2 (StageRel S) ft ft' := by
  cases s with
  | mk ind cont decs =>
    unfold applySol at h
    split at h
    · simp at h
    · exact applyDecs_rel S lines ind cont _ 0 ft ft' decs h

theorem applyDecs_rel (S : Settings) (lines : List Line) (ind cont : Nat) (toks : List Nat) (i : Nat) (ft ft' : FT)
    (decs : List (Dec × List (Nat × Sol))) (h : applyDecs lines ind cont toks i ft decs = some ft') :
    All2 (StageRel S) ft ft' := by
  cases decs with
  | nil =>
    unfold applyDecs at h
    simp at h; subst h; exact All2.refl' (StageRel.refl S) ft
  | cons dk rest =>
    obtain ⟨d, children⟩ := dk
    unfold applyDecs at h
    split at h
    · simp at h
    · split at h
      · simp at h
      · rename_i ft1 h1
        split at h
        · simp at h
        · rename_i ft2 h2
          have r1 := setFmt_rel S ft ft1 _ _ (fun f => applyDec_ignored f _ _ _ _) h1
          have r2 := applyChildren_rel S lines ft1 ft2 children h2
          have r3 := applyDecs_rel S lines ind cont toks (i + 1) ft2 ft' rest h
          exact all2_trans_stage (all2_trans_stage r1 r2) r3

theorem applyChildren_rel (S : Settings) (lines : List Line) (ft ft' : FT) (ks : List (Nat × Sol))
    (h : applyChildren lines ft ks = some ft') : All2 (StageRel S) ft ft' := by
  cases ks with
  | nil =>
    unfold applyChildren at h
    simp at h; subst h; exact All2.refl' (StageRel.refl S) ft
  | cons k rest =>
    obtain ⟨li, s⟩ := k
    unfold applyChildren at h
    split at h
    · simp at h
    · rename_i ft1 h1
      have r1 := applySol_rel S lines ft ft1 s li h1
      have r2 := applyChildren_rel S lines ft1 ft' rest h
      exact all2_trans_stage r1 r2
end

theorem applyLines_rel (S : Settings) (solve : Nat → Option Sol) (lines : List Line) (is : List Nat) (ft ft' : FT)
    (h : applyLines solve lines is ft = some ft') : All2 (StageRel S) ft ft' := by
  induction is generalizing ft with
  | nil => simp [applyLines] at h; subst h; exact All2.refl' (StageRel.refl S) ft
  | cons i rest ih =>
    unfold applyLines at h
    split at h
    · exact ih ft h
    · split at h
      · simp at h
      · rename_i ft1 h1
        exact all2_trans_stage (applySol_rel S lines ft ft1 _ i h1) (ih ft1 h)

theorem zero_rel (S : Settings) (ft : FT) : All2 (StageRel S) ft (zeroLineStartSpaces ft) := by
  unfold zeroLineStartSpaces
  apply All2.refl_map
  intro t
  split
  · exact ⟨rfl, rfl, Or.inl rfl, fun _ => rfl, Sim.refl _⟩
  · exact StageRel.refl S t

theorem mlsLine_rel (S : Settings) (hS : BlankSettings S) (toks : List Nat) (ft ft' : FT) (ch : Bool)
    (h : mlsLine S toks ft = some (ft', ch)) : All2 (StageRel S) ft ft' := by
  induction toks generalizing ft ft' ch with
  | nil => simp [mlsLine] at h; obtain ⟨rfl, _⟩ := h; exact All2.refl' (StageRel.refl S) ft
  | cons idx rest ih =>
    unfold mlsLine at h
    split at h
    · simp at h
    · rename_i t ht
      simp only at h
      split at h
      · simp at h
      · rename_i ft2 ch2 h2
        simp at h
        obtain ⟨rfl, _⟩ := h
        refine all2_trans_stage ?_ (ih _ _ _ h2)
        -- the single-token step
        split
        · rename_i c hc
          apply All2.set_right (StageRel.refl S) ft idx _ t ht
          -- `hc : (if … then mlsRewrite … else none) = some c`
          have hcond : (!t.fmt.ignored && isMlsKind t.tok.kind) = true := by
            by_cases hb : (!t.fmt.ignored && isMlsKind t.tok.kind) = true
            · exact hb
            · simp [hb] at hc
          simp only [hcond, if_true] at hc
          have hni : t.fmt.ignored = false := by
            simp at hcond; exact hcond.1
          unfold FTok.setContent
          simp only [hni, Bool.false_eq_true, if_false]
          refine ⟨rfl, rfl, Or.inr rfl, ?_, mlsRewrite_sim S hS _ _ _ _ hc⟩
          intro hi; rw [hni] at hi; cases hi
        · exact All2.refl' (StageRel.refl S) ft

theorem mlsPass1_rel (S : Settings) (hS : BlankSettings S) (lines : List Line) (ls : List (Line × Nat)) (ft ft' : FT)
    (acc acc' : List Nat) (h : mlsPass1 S lines ls ft acc = some (ft', acc')) : All2 (StageRel S) ft ft' := by
  induction ls generalizing ft acc with
  | nil => simp [mlsPass1] at h; obtain ⟨rfl, _⟩ := h; exact All2.refl' (StageRel.refl S) ft
  | cons li rest ih =>
    obtain ⟨l, i⟩ := li
    unfold mlsPass1 at h
    split at h
    · simp at h
    · rename_i ft1 changed h1
      have r1 := mlsLine_rel S hS _ _ _ _ h1
      split at h
      · split at h
        · simp at h
        · exact all2_trans_stage r1 (ih _ _ h)
      · exact all2_trans_stage r1 (ih _ _ h)

theorem mlsPass2_rel (S : Settings) (hS : BlankSettings S) (ls : List Line) (ft ft' : FT)
    (h : mlsPass2 S ls ft = some ft') : All2 (StageRel S) ft ft' := by
  induction ls generalizing ft with
  | nil => simp [mlsPass2] at h; subst h; exact All2.refl' (StageRel.refl S) ft
  | cons l rest ih =>
    unfold mlsPass2 at h
    split at h
    · simp at h
    · rename_i ft1 ch h1
      exact all2_trans_stage (mlsLine_rel S hS _ _ _ _ h1) (ih _ h)

/-- **The wrapper stage, for every search**: kinds and ignored flags are kept, leading whitespace is kept or
    dropped, ignored tokens are untouched, and text changes only in blanks/case-insensitively equal (only through
    the exact string re-indenter). -/
theorem wrapStage_rel (solve : Nat → Nat → Option Sol) (cfg : Config) (lines : List Line) (ft ft' : FT)
    (h : wrapStage solve cfg lines ft = some ft') : All2 (StageRel cfg.settings) ft ft' := by
  have hS := settings_blank cfg
  unfold wrapStage at h
  split at h
  · simp at h
  · rename_i ft1 h1
    have r1 := applyLines_rel cfg.settings _ _ _ _ _ h1
    split at h
    · simp at h; subst h
      exact all2_trans_stage r1 (zero_rel _ _)
    · split at h
      · simp at h
      · rename_i ft2 toReflow h2
        have r2 := mlsPass1_rel cfg.settings hS _ _ _ _ _ _ h2
        split at h
        · simp at h
        · rename_i ft3 h3
          have r3 := applyLines_rel cfg.settings _ _ _ _ _ h3
          split at h
          · simp at h
          · rename_i ft4 h4
            have r4 := mlsPass2_rel cfg.settings hS _ _ _ h4
            simp at h; subst h
            exact all2_trans_stage (all2_trans_stage (all2_trans_stage (all2_trans_stage r1 r2) r3) r4) (zero_rel _ _)

theorem wrapOfSolver_rel (solve : Nat → Nat → Option Sol) (cfg : Config) (lines : List Line) (ft : FT) :
    All2 (StageRel cfg.settings) ft (wrapOfSolver solve cfg lines ft) := by
  unfold wrapOfSolver
  cases h : wrapStage solve cfg lines ft with
  | none => exact All2.refl' (StageRel.refl _) ft
  | some ft' => exact wrapStage_rel solve cfg lines ft ft' h

/-- a pipeline whose wrapper is the exact stage model around an arbitrary search -/
def Oracles.withSolver (O : Oracles) (solve : Nat → Nat → Option Sol) : Oracles :=
  { O with wrap := wrapOfSolver solve }

/-- the contract of C01 holds for every search -/
theorem wrapFrame_of_solver (O : Oracles) (solve : Nat → Nat → Option Sol) : WrapFrame (O.withSolver solve) := by
  intro cfg lines ft
  exact (wrapOfSolver_rel solve cfg lines ft).imp (fun t t' h => by
    obtain ⟨_, _, w, _, s⟩ := h
    refine ⟨?_, s⟩
    intro hg
    rcases w with e | e
    · rw [e]; exact hg
    · rw [e]; exact Gap.nil)

/-- the contract of C07 holds for every search -/
theorem wrapKeepsIgnored_of_solver (O : Oracles) (solve : Nat → Nat → Option Sol) :
    WrapKeepsIgnored (O.withSolver solve) := by
  intro cfg lines ft
  exact (wrapOfSolver_rel solve cfg lines ft).imp (fun t t' h => by
    obtain ⟨_, i, _, g, _⟩ := h
    exact ⟨i, fun hi => by rw [g hi]; exact ⟨rfl, rfl⟩⟩)

/-- after the stage no token that starts a line carries spaces (C08: indentation is whole units) -/
theorem wrapStage_no_spaces_at_line_start (solve : Nat → Nat → Option Sol) (cfg : Config) (lines : List Line)
    (ft ft' : FT) (h : wrapStage solve cfg lines ft = some ft') : ∀ t ∈ ft', t.fmt.nl > 0 → t.fmt.sp = 0 := by
  have key : ∀ x : FT, ∀ t ∈ zeroLineStartSpaces x, t.fmt.nl > 0 → t.fmt.sp = 0 := by
    intro x t ht hn
    unfold zeroLineStartSpaces at ht
    obtain ⟨u, _, rfl⟩ := List.mem_map.1 ht
    split
    · rfl
    · rename_i hne
      split at hn
      · exact absurd ‹_› hne
      · exact absurd hn hne
  unfold wrapStage at h
  split at h
  · simp at h
  · split at h
    · simp at h; subst h; exact key _
    · split at h
      · simp at h
      · split at h
        · simp at h
        · split at h
          · simp at h
          · simp at h; subst h; exact key _

end Pasfmt
