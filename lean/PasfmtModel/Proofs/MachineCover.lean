import PasfmtModel.Proofs.Machine

namespace Pasfmt

/-- line references held by the machine are valid -/
structure RefsValid (s : MState) : Prop where
  cur : ∀ c ∈ s.cur, c < s.lines.length
  last : s.lastFinished < s.lines.length

/-- every position of the consumed prefix is in a line or in `sk` -/
def Covered (pass : List Nat) (p : Nat) (tl : TL) (sk : List Nat) : Prop :=
  ∀ j tok, j < p → pass[j]? = some tok → tok ∈ tl.flatten ∨ j ∈ sk

theorem mem_flatten_pushTok_of_valid {tl : TL} {i tok : Nat} (hi : i < tl.length) :
    tok ∈ (pushTok tl i tok).flatten := by
  unfold pushTok
  rw [List.getElem?_eq_getElem hi]
  simp only
  rw [List.mem_flatten]
  refine ⟨tl[i] ++ [tok], ?_, by simp⟩
  exact List.mem_set hi _

theorem mem_flatten_pushTok_mono {tl : TL} {i tok x : Nat} (h : x ∈ tl.flatten) : x ∈ (pushTok tl i tok).flatten := by
  unfold pushTok
  split
  · rename_i l hl
    have hperm := flatten_set_perm tl i l tok hl
    exact hperm.mem_iff.2 (List.mem_cons_of_mem _ h)
  · exact h

theorem pushTok_length (tl : TL) (i tok : Nat) : (pushTok tl i tok).length = tl.length := by
  unfold pushTok; split <;> simp

theorem Covered.push {pass : List Nat} {p : Nat} {tl : TL} {sk : List Nat} (h : Covered pass p tl sk)
    (i tok : Nat) (hi : i < tl.length) (hp : pass[p]? = some tok) : Covered pass (p + 1) (pushTok tl i tok) sk := by
  intro j t hj ht
  rcases Nat.lt_or_ge j p with hlt | hge
  · rcases h j t hlt ht with h1 | h1
    · left; exact mem_flatten_pushTok_mono h1
    · right; exact h1
  · have : j = p := by omega
    subst this
    rw [hp] at ht; simp at ht; subst ht
    left; exact mem_flatten_pushTok_of_valid hi

theorem Covered.past_end {pass : List Nat} {p : Nat} {tl : TL} {sk : List Nat} (h : Covered pass p tl sk)
    (hp : pass[p]? = none) : Covered pass (p + 1) tl sk := by
  intro j t hj ht
  rcases Nat.lt_or_ge j p with hlt | hge
  · exact h j t hlt ht
  · have : j = p := by omega
    subst this; rw [hp] at ht; simp at ht

theorem Covered.skip {pass : List Nat} {p : Nat} {tl : TL} {sk : List Nat} (h : Covered pass p tl sk) :
    Covered pass (p + 1) tl (sk ++ [p]) := by
  intro j t hj ht
  rcases Nat.lt_or_ge j p with hlt | hge
  · rcases h j t hlt ht with h1 | h1
    · left; exact h1
    · right; simp [h1]
  · have : j = p := by omega
    right; simp [this]

theorem Covered.append_empty {pass : List Nat} {p : Nat} {tl : TL} {sk : List Nat} (h : Covered pass p tl sk) :
    Covered pass p (tl ++ [[]]) sk := by
  intro j t hj ht
  rcases h j t hj ht with h1 | h1
  · left; simpa using h1
  · right; exact h1

theorem Covered.more_skipped {pass : List Nat} {p : Nat} {tl : TL} {sk sk' : List Nat} (h : Covered pass p tl sk)
    (hs : ∀ x ∈ sk, x ∈ sk') : Covered pass p tl sk' := by
  intro j t hj ht
  rcases h j t hj ht with h1 | h1
  · left; exact h1
  · right; exact hs _ h1

theorem toksOf_length (lines : List PLine) : (toksOf lines).length = lines.length := by simp [toksOf]

theorem modifyLine_length (lines : List PLine) (i : Nat) (f : PLine → PLine) :
    (modifyLine lines i f).length = lines.length := by
  unfold modifyLine; split <;> simp

theorem absorbInline_cover (kinds : List RawKind) (pass : List Nat) (fuel : Nat) (lines : List PLine) (ln p : Nat)
    (sk : List Nat) (hln : ln < lines.length) (h : Covered pass p (toksOf lines) sk) :
    Covered pass (absorbInline kinds pass fuel lines ln p).2 (toksOf (absorbInline kinds pass fuel lines ln p).1) sk ∧
    (absorbInline kinds pass fuel lines ln p).1.length = lines.length := by
  induction fuel generalizing lines p with
  | zero => exact ⟨h, rfl⟩
  | succ n ih =>
    unfold absorbInline
    split
    · rename_i tok htok
      split
      · have hlen := modifyLine_length lines ln (fun l => { l with tokens := l.tokens ++ [tok] })
        have := ih (modifyLine lines ln (fun l => { l with tokens := l.tokens ++ [tok] })) (p + 1)
          (by rw [hlen]; exact hln)
          (by rw [toksOf_modifyLine_push]; exact h.push ln tok (by rw [toksOf_length]; exact hln) htok)
        exact ⟨this.1, by rw [this.2, hlen]⟩
      · exact ⟨h, rfl⟩
    · exact ⟨h, rfl⟩

theorem foldl_modify_length (lines : List PLine) (us : List Nat) (level : Nat) :
    (us.foldl (fun ls u => modifyLine ls u (fun l => { l with level := level })) lines).length = lines.length := by
  induction us generalizing lines with
  | nil => rfl
  | cons u r ih => rw [List.foldl_cons, ih, modifyLine_length]

/-- one primitive keeps reference validity and coverage -/
theorem step_cover (kinds : List RawKind) (pass : List Nat) (s s' : MState) (op : POp) (sk : List Nat)
    (hv : RefsValid s) (h : Covered pass s.passIdx (toksOf s.lines) sk)
    (hstep : s.step kinds pass op = some s') :
    RefsValid s' ∧ Covered pass s'.passIdx (toksOf s'.lines) (sk ++ skippedBy s op) := by
  unfold MState.step at hstep
  split at hstep
  · simp at hstep
  · rename_i top curRest hcur
    have htop : top < s.lines.length := hv.cur top (by rw [hcur]; simp)
    have hrest : ∀ c ∈ curRest, c < s.lines.length := fun c hc => hv.cur c (by rw [hcur]; simp [hc])
    cases op with
    | next =>
      simp only [Option.some.injEq] at hstep
      rw [← hstep]
      simp only [skippedBy, List.append_nil]
      cases htok : pass[s.passIdx]? with
      | none =>
        simp only
        have := absorbInline_cover kinds pass (pass.length + 1) s.lines top (s.passIdx + 1) sk htop (h.past_end htok)
        refine ⟨⟨?_, ?_⟩, this.1⟩
        · intro c hc; simp only at hc ⊢; rw [this.2]; exact hv.cur c hc
        · simp only; rw [this.2]; exact hv.last
      | some tok =>
        simp only
        have hlen := modifyLine_length s.lines top (fun l => { l with tokens := l.tokens ++ [tok] })
        have := absorbInline_cover kinds pass (pass.length + 1)
          (modifyLine s.lines top (fun l => { l with tokens := l.tokens ++ [tok] })) top (s.passIdx + 1) sk
          (by rw [hlen]; exact htop)
          (by rw [toksOf_modifyLine_push]; exact h.push top tok (by rw [toksOf_length]; exact htop) htok)
        refine ⟨⟨?_, ?_⟩, this.1⟩
        · intro c hc; simp only at hc ⊢; rw [this.2, hlen]; exact hv.cur c hc
        · simp only; rw [this.2, hlen]; exact hv.last
    | skip =>
      simp only [Option.some.injEq] at hstep
      rw [← hstep]
      exact ⟨⟨hv.cur, hv.last⟩, h.skip⟩
    | finishEmpty =>
      simp only at hstep
      split at hstep
      · rename_i l hl
        split at hstep
        · simp only [Option.some.injEq] at hstep
          rw [← hstep]
          simp only [skippedBy, List.append_nil]
          refine ⟨⟨?_, ?_⟩, ?_⟩
          · intro c hc; simp only [List.length_set]; exact hv.cur c hc
          · simp only [List.length_set]; exact hv.last
          · rw [toksOf_set_same s.lines top l { l with ltype := .lUnknown } hl rfl]; exact h
        · simp at hstep
      · simp at hstep
    | finish parent level =>
      simp only at hstep
      split at hstep
      · simp at hstep
      · rename_i l hl
        split at hstep
        · simp at hstep
        · simp only [Option.some.injEq] at hstep
          rw [← hstep]
          simp only [skippedBy, List.append_nil]
          have h1 := absorbInline_cover kinds pass (pass.length + 1) s.lines top s.passIdx sk htop h
          -- length bookkeeping
          have hlen3 : ∀ (b : Bool),
              (modifyLine (if b = true then
                  List.foldl (fun ls u => modifyLine ls u fun l => { l with level := level })
                    (absorbInline kinds pass (pass.length + 1) s.lines top s.passIdx).1 s.unfinished
                else (absorbInline kinds pass (pass.length + 1) s.lines top s.passIdx).1) top
                (fun l => { l with parent := parent, level := level })).length = s.lines.length := by
            intro b
            rw [modifyLine_length]
            cases b
            · simp [h1.2]
            · simp [foldl_modify_length, h1.2]
          refine ⟨⟨?_, ?_⟩, ?_⟩
          · intro c hc
            simp only [List.length_append, List.length_singleton] at hc ⊢
            rw [hlen3]
            rcases List.mem_cons.1 hc with rfl | hc'
            · rw [hlen3]; omega
            · have := hrest c hc'; omega
          · simp only [List.length_append, List.length_singleton]
            rw [hlen3]; omega
          · rw [toksOf_append]
            apply Covered.append_empty
            rw [toksOf_modify_parent_level]
            split
            · rw [foldl_modify_level_same]; exact h1.1
            · exact h1.1
    | markUnfinished =>
      simp only [Option.some.injEq] at hstep
      rw [← hstep]
      simp only [skippedBy, List.append_nil]
      exact ⟨⟨hv.cur, hv.last⟩, h⟩
    | pushLine parent =>
      simp only [Option.some.injEq] at hstep
      rw [← hstep]
      simp only [skippedBy, List.append_nil]
      refine ⟨⟨?_, ?_⟩, ?_⟩
      · intro c hc
        simp only [List.length_append, List.length_singleton] at hc ⊢
        rcases List.mem_cons.1 hc with rfl | hc'
        · omega
        · have := hv.cur c hc'; omega
      · simp
      · rw [toksOf_append]; exact h.append_empty
    | popLine =>
      simp only at hstep
      split at hstep
      · simp at hstep
      · simp only [Option.some.injEq] at hstep
        rw [← hstep]
        simp only [skippedBy, List.append_nil]
        exact ⟨⟨hrest, hv.last⟩, h⟩
    | pushLast =>
      simp only [Option.some.injEq] at hstep
      rw [← hstep]
      simp only [skippedBy, List.append_nil]
      refine ⟨⟨?_, hv.last⟩, h⟩
      intro c hc
      rcases List.mem_cons.1 hc with rfl | hc'
      · exact hv.last
      · exact hv.cur c hc'
    | popLast =>
      simp only at hstep
      split at hstep
      · simp at hstep
      · simp only [Option.some.injEq] at hstep
        rw [← hstep]
        simp only [skippedBy, List.append_nil]
        exact ⟨⟨hrest, hv.last⟩, h⟩
    | setType t =>
      simp only [Option.some.injEq] at hstep
      rw [← hstep]
      simp only [skippedBy, List.append_nil]
      refine ⟨⟨?_, ?_⟩, ?_⟩
      · intro c hc; simp only [modifyLine_length]; exact hv.cur c hc
      · simp only [modifyLine_length]; exact hv.last
      · rw [toksOf_modify_type]; exact h

theorem run_cover (kinds : List RawKind) (pass : List Nat) (ops : List POp) (s s' : MState) (sk : List Nat)
    (hv : RefsValid s) (h : Covered pass s.passIdx (toksOf s.lines) sk)
    (hrun : s.run kinds pass ops = some s') :
    Covered pass s'.passIdx (toksOf s'.lines) (sk ++ skippedRun kinds pass s ops) := by
  induction ops generalizing s sk with
  | nil =>
    simp [MState.run] at hrun; rw [← hrun]
    simpa [skippedRun] using h
  | cons op r ih =>
    unfold MState.run at hrun
    split at hrun
    · simp at hrun
    · rename_i s1 hs1
      have := step_cover kinds pass s s1 op sk hv h hs1
      have h2 := ih s1 (sk ++ skippedBy s op) this.1 this.2 hrun
      unfold skippedRun
      rw [hs1]
      simpa [List.append_assoc] using h2

theorem init_refs : RefsValid MState.init := ⟨by intro c hc; simp [MState.init] at hc ⊢; omega, by simp [MState.init]⟩

end Pasfmt
