/-
  C01, second clause: where may the case of a letter change?  Only inside a token that the parser
  typed as a keyword, or inside the name of a compiler directive.  Everything else the content rules
  do (line comments) changes blanks only — exactly, not up to case.
-/
import PasfmtModel.Proofs.PipelineC01

namespace Pasfmt

/-- a content rewrite that changes blanks only (on text without dangling `E3`) -/
def SimX (c c' : Bytes) : Prop := nd c = true → nd c' = true ∧ stripBlank c' = stripBlank c

theorem SimX.refl (c : Bytes) : SimX c c := fun h => ⟨h, rfl⟩

theorem SimX.trans {a b c : Bytes} (h1 : SimX a b) (h2 : SimX b c) : SimX a c := by
  intro ha
  obtain ⟨hb, e1⟩ := h1 ha
  obtain ⟨hc, e2⟩ := h2 hb
  exact ⟨hc, e2.trans e1⟩

theorem SimX.sim {c c' : Bytes} (h : SimX c c') : Sim c c' := by
  intro hc
  obtain ⟨h1, h2⟩ := h hc
  exact ⟨h1, by unfold foldStrip; rw [h2]⟩

theorem simx_trimAsciiEnd (y : Bytes) : SimX y (trimAsciiEnd y) := by
  intro hy
  obtain ⟨tail, hdec, htail⟩ := trimAsciiEnd_decomp y
  have hascii : AllAscii tail := fun b hb => (isAsciiWs_class b (htail b hb)).2
  have hle : AllLe20 tail := fun b hb => (isAsciiWs_class b (htail b hb)).1
  have hnd : nd (trimAsciiEnd y) = true := by
    apply nd_of_append_ascii _ tail hascii
    rw [← hdec]; exact hy
  refine ⟨hnd, ?_⟩
  have := nd_closed _ hnd tail
  rw [← hdec] at this
  rw [this, (Gap.of_allLe20 hle).blankOnly]; simp

theorem simx_insert_space (pre comment : Bytes) (hpre : AllAscii pre) :
    SimX (pre ++ comment) (pre ++ [0x20] ++ comment) := by
  intro h
  have hp := nd_ascii pre hpre
  rw [nd_append _ _ hp] at h
  refine ⟨?_, ?_⟩
  · rw [List.append_assoc, nd_append _ _ hp]
    simpa [nd_cons_ne] using h
  · rw [List.append_assoc, nd_closed _ hp, nd_closed _ hp]
    congr 1

/-- the line-comment rule changes blanks only -/
theorem simx_formatLineComment (U : Bytes → Bool) (c c' : Bytes) (h : formatLineComment U c = some c') :
    SimX c c' := by
  unfold formatLineComment at h
  cases hparts : lineCommentParts c with
  | none => rw [hparts] at h; simp at h
  | some pc =>
    obtain ⟨pre, comment⟩ := pc
    rw [hparts] at h
    obtain ⟨hc, hpre⟩ := lineCommentParts_spec _ _ _ hparts
    have hsim1 : SimX c ((lineCommentSpaced U pre comment).getD c) := by
      unfold lineCommentSpaced
      split
      · split
        · simp only [Option.getD_some]; rw [hc]; exact simx_insert_space _ _ hpre
        · exact SimX.refl _
      · exact SimX.refl _
    simp only at h
    split at h
    · simp only [Option.some.injEq] at h
      rw [← h]
      exact hsim1.trans (simx_trimAsciiEnd _)
    · rw [h] at hsim1
      simpa using hsim1

/-- bytes that can occur in what `format_compiler_directive` takes for the directive name (a word, or
    a list of switches such as `r+,q-` / `z4`) -/
def isDirNameByte (b : UInt8) : Bool := isAlnum b || b == 0x5F || b == 0x2B || b == 0x2D || b == 0x2C

theorem dirStep_next_byte (st : DirState) (sw : Bool) (b : UInt8) (st' : DirState) (sw' : Bool)
    (h : dirStep st sw b = .next st' sw') : isDirNameByte b = true := by
  unfold dirStep at h
  unfold isDirNameByte
  repeat' split at h
  all_goals first
    | (simp at h; done)
    | (rename_i hc
       simp only [Bool.and_eq_true, Bool.or_eq_true, beq_iff_eq] at hc
       unfold isAlnum
       rcases hc with ⟨_, hc⟩
       first
         | (simp [hc]; done)
         | (rcases hc with hc | hc <;> simp [hc]; done)
         | (unfold isAlnum at hc; simp_all; done))
    | (rename_i hc
       simp only [Bool.and_eq_true, Bool.or_eq_true, beq_iff_eq, Bool.not_eq_true'] at hc
       unfold isAlnum at *
       simp_all)

theorem dirScan_bytes (st : DirState) (sw : Bool) (l : Bytes) (n : Nat) (h : dirScan st sw l = some n) :
    ∀ b ∈ l.take n, isDirNameByte b = true := by
  induction l generalizing st sw n with
  | nil => simp
  | cons a r ih =>
    unfold dirScan at h
    split at h
    · rename_i st' sw' hstep
      simp only [Option.map_eq_some_iff] at h
      obtain ⟨m, hm, rfl⟩ := h
      intro b hb
      simp only [List.take_succ_cons, List.mem_cons] at hb
      rcases hb with rfl | hb
      · exact dirStep_next_byte _ _ _ _ _ hstep
      · exact ih st' sw' m hm b hb
    · simp at h
    · simp only [Option.some.injEq] at h; subst h; simp

/-- **what the directive rule changes**: the bytes of the name right after `{$` / `(*$` are upper-cased;
    the opener and everything after the name are kept byte for byte -/
theorem formatCompilerDirective_shape (c c' : Bytes) (h : formatCompilerDirective c = some c') :
    ∃ pre name rest, c = pre ++ name ++ rest ∧ c' = pre ++ asciiUpper name ++ rest ∧
      (pre = [0x7B, 0x24] ∨ pre = [0x28, 0x2A, 0x24]) ∧ ∀ b ∈ name, isDirNameByte b = true := by
  unfold formatCompilerDirective at h
  simp only at h
  split at h
  · simp at h
  · rename_i pre stripped hs
    split at h
    · simp at h
    · rename_i n hn
      split at h
      · simp only [Option.some.injEq] at h
        refine ⟨pre, stripped.take n, stripped.drop n, ?_, h.symm, ?_, dirScan_bytes _ _ _ _ hn⟩
        · rw [List.append_assoc, List.take_append_drop]
          split at hs
          · simp at hs; rw [← hs.1, ← hs.2]; rfl
          · simp at hs; rw [← hs.1, ← hs.2]; rfl
          · simp at hs
        · split at hs
          · simp at hs; left; exact hs.1.symm
          · simp at hs; right; exact hs.1.symm
          · simp at hs
      · simp at h

/-- how the content of one token may differ from the scanned text after the token-level rules -/
inductive CaseRel (k : Kind) (c c' : Bytes) : Prop
  /-- blanks only (line comments), or nothing -/
  | blanks : SimX c c' → CaseRel k c c'
  /-- a keyword, lower-cased as a whole -/
  | keyword : isKeywordKind k = true → c' = asciiLower c → CaseRel k c c'
  /-- a directive whose name is upper-cased -/
  | directive (pre name rest : Bytes) : c = pre ++ name ++ rest → c' = pre ++ asciiUpper name ++ rest →
      (pre = [0x7B, 0x24] ∨ pre = [0x28, 0x2A, 0x24]) → (∀ b ∈ name, isDirNameByte b = true) → CaseRel k c c'

/-- the composition of the content rules on one token, by kind -/
theorem rules_caseRel (U : Bytes → Bool) (t : FTok) :
    CaseRel t.tok.kind t.tok.content (commentFormatTok U (lowercaseTok t)).tok.content := by
  unfold lowercaseTok
  by_cases hk : (isKeywordKind t.tok.kind && t.tok.content.any isUpper) = true
  · -- a keyword: lower-cased (or refused because ignored); the comment rules do not apply to it
    simp only [hk, if_true]
    have hkw : isKeywordKind t.tok.kind = true := by simp only [Bool.and_eq_true] at hk; exact hk.1
    obtain ⟨kw, hkw'⟩ : ∃ kw, t.tok.kind = .tKeyword kw := by
      cases hkk : t.tok.kind <;> simp [isKeywordKind, hkk] at hkw
      exact ⟨_, rfl⟩
    unfold FTok.setContent
    split
    · unfold commentFormatTok; simp only [hkw']; exact .blanks (SimX.refl _)
    · unfold commentFormatTok; simp only [hkw']; exact .keyword rfl rfl
  · simp only [hk, Bool.false_eq_true, if_false]
    unfold commentFormatTok
    split
    · split
      · rename_i c hc
        unfold FTok.setContent
        split
        · exact .blanks (SimX.refl _)
        · obtain ⟨pre, name, rest, h1, h2, h3, h4⟩ := formatCompilerDirective_shape _ _ hc
          exact .directive pre name rest h1 h2 h3 h4
      · exact .blanks (SimX.refl _)
    · split
      · rename_i c hc
        unfold FTok.setContent
        split
        · exact .blanks (SimX.refl _)
        · obtain ⟨pre, name, rest, h1, h2, h3, h4⟩ := formatCompilerDirective_shape _ _ hc
          exact .directive pre name rest h1 h2 h3 h4
      · exact .blanks (SimX.refl _)
    · split
      · rename_i c hc
        unfold FTok.setContent
        split
        · exact .blanks (SimX.refl _)
        · exact .blanks (simx_formatLineComment _ _ _ hc)
      · exact .blanks (SimX.refl _)
    · split
      · rename_i c hc
        unfold FTok.setContent
        split
        · exact .blanks (SimX.refl _)
        · exact .blanks (simx_formatLineComment _ _ _ hc)
      · exact .blanks (SimX.refl _)
    · exact .blanks (SimX.refl _)

theorem setContent_kind (t : FTok) (c : Bytes) : (t.setContent c).tok.kind = t.tok.kind := by
  unfold FTok.setContent; split <;> rfl

theorem rules_kind (U : Bytes → Bool) (t : FTok) : (commentFormatTok U (lowercaseTok t)).tok.kind = t.tok.kind := by
  have h1 : (lowercaseTok t).tok.kind = t.tok.kind := by
    unfold lowercaseTok; split
    · exact setContent_kind _ _
    · rfl
  have h2 : ∀ u : FTok, (commentFormatTok U u).tok.kind = u.tok.kind := by
    intro u
    unfold commentFormatTok
    repeat' split
    all_goals first | rfl | exact setContent_kind _ _
  rw [h2, h1]

/-- what the second clause of C01 needs of a token before the wrapper stage -/
def TokCase (r : RawTok) (t : FTok) : Prop := CaseRel t.tok.kind r.content t.tok.content

theorem preWrap_caseRel (O : Oracles) (raw : List RawTok) :
    All2 TokCase raw (preWrap O raw).2.2 := by
  unfold preWrap
  simp only
  -- contents are the scanned ones up to and including `TokenSpacing`
  have h0 : All2 (fun (r : RawTok) (t : FTok) => t.tok.content = r.content) raw
      (tokenSpacing (FT.new (retype raw (O.parser raw).kinds)
        (fun i => (ignoredMarks (retype raw (O.parser raw).kinds) (O.parser raw).lines).getD i false))) := by
    unfold tokenSpacing FT.new
    have hr : All2 (fun (r : RawTok) (t : Tok) => t.content = r.content) raw (retype raw (O.parser raw).kinds) := by
      generalize (O.parser raw).kinds = kinds
      induction raw generalizing kinds with
      | nil => exact .nil
      | cons r rs ih =>
        cases kinds with
        | nil => rw [retype]; exact .cons rfl (ih [])
        | cons k ks => rw [retype]; exact .cons rfl (ih ks)
    refine All2.zipIdx_map_right (R := fun (r : RawTok) (t : FTok) => t.tok.content = r.content) _ 0 ?_ (fun r t i h => h)
    exact All2.zipIdx_map_right (R := fun (r : RawTok) (t : Tok) => t.content = r.content) _ 0 hr (fun r t i h => h)
  -- the two content rules
  have h1 := All2.map_right (S := TokCase) (commentFormatTok O.alnum ∘ lowercaseTok) h0 (by
    intro r t h
    show CaseRel (commentFormatTok O.alnum (lowercaseTok t)).tok.kind r.content (commentFormatTok O.alnum (lowercaseTok t)).tok.content
    rw [rules_kind, ← h]
    exact rules_caseRel O.alnum t)
  have hmap : ∀ ft : FT, commentFormatter O.alnum (lowercaseKeywords ft) = ft.map (commentFormatTok O.alnum ∘ lowercaseTok) := by
    intro ft; unfold commentFormatter lowercaseKeywords; rw [List.map_map]
  rw [hmap]
  -- `EofNewline` touches counters only
  unfold eofNewline
  split
  · refine All2.zipIdx_map_right _ 0 h1 ?_
    intro r t i h
    simp only
    split <;> exact h
  · exact h1

end Pasfmt
