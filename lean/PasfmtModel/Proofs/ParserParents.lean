/-
  C14, the clauses that were still open for the parser model `parseFileFull`; here: what the consolidation of passes
  (`consolidate_pass_lines`, the directive lines) does.

  A. without conditional directives no token is in two logical lines (`final_lines_nodup_without_conditionals`);
  B. parent references: if, in the lines of every pass, every parent reference points at a line of the pass that holds
     the parent token (the decidable check `parentsOk`), then in the final lines every parent reference points at an
     earlier line that holds the parent token (`final_parents_contain_token`).  That `parentsOk` holds for every
     answer of the model is a fact about the control flow: `Proofs/ParserParentsFlow.lean`, `ParserParentsMutual.lean`;
  C. the end-of-file line: exactly one, holding only the end-of-file token, under the decidable hypothesis `eofOk`
     (`final_single_eof_line`); weakened to `eofLineInEveryPass` in `Proofs/ParserParentsMutual.lean`.

  The surfaced statements are in `Props/C14.lean`.
-/
import PasfmtModel.Proofs.ParserFullSound
import PasfmtModel.Proofs.MachineCover
import PasfmtModel.Proofs.Tree
import PasfmtModel.Proofs.TreeSorted
import PasfmtModel.Model.ParserChecks

namespace Pasfmt.Parents

/-! ## A. no token in two lines -/

/-- the token lists of all lines, one after the other -/
abbrev flat (ls : List PLine) : List Nat := ls.flatMap (·.tokens)

theorem flat_cons (l : PLine) (ls : List PLine) : flat (l :: ls) = l.tokens ++ flat ls := by
  simp [flat]

theorem flat_append (a b : List PLine) : flat (a ++ b) = flat a ++ flat b := by
  simp [flat]

/-- consolidation only drops (empty or repeated) lines: the tokens of the result, read line after line, are a
    sublist of the tokens of the lines it already had followed by those of the lines it was given -/
theorem consolidateGo_sublist (acc : List PLine) (mapped : List Nat) (ls out : List PLine)
    (h : consolidateGo acc mapped ls = some out) : (flat out).Sublist (flat acc ++ flat ls) := by
  induction ls generalizing acc mapped with
  | nil => simp [consolidateGo] at h; subst h; simp [flat]
  | cons line rest ih =>
    unfold consolidateGo at h
    split at h
    · rename_i hemp
      have := ih _ _ h
      have he : line.tokens = [] := by simpa using hemp
      rw [flat_cons, he]; simpa using this
    · simp only at h
      split at h
      · simp at h
      · split at h
        · have := ih _ _ h
          rw [flat_cons]
          exact this.trans (List.Sublist.append_left (List.sublist_append_right _ _) _)
        · have := ih _ _ h
          rw [flat_append, flat_cons] at *
          simpa [flat, List.append_assoc] using this

/-- two lines at different positions of a list whose tokens are pairwise different share no token -/
theorem nodup_flat_index {ls : List PLine} (h : (flat ls).Nodup) {j j' : Nat} {l l' : PLine} {t : Nat}
    (hj : ls[j]? = some l) (hj' : ls[j']? = some l') (ht : t ∈ l.tokens) (ht' : t ∈ l'.tokens) : j = j' := by
  induction ls generalizing j j' with
  | nil => simp at hj
  | cons a r ih =>
    rw [flat_cons, List.nodup_append] at h
    obtain ⟨_, hr, hdis⟩ := h
    have inr : ∀ {k : Nat} {m : PLine}, r[k]? = some m → t ∈ m.tokens → t ∈ flat r := by
      intro k m hk hm
      exact List.mem_flatMap.2 ⟨m, List.mem_of_getElem? hk, hm⟩
    cases j with
    | zero =>
      cases j' with
      | zero => rfl
      | succ k' =>
        simp at hj hj'; subst hj
        exact absurd rfl (hdis t ht t (inr hj' ht'))
    | succ k =>
      cases j' with
      | zero =>
        simp at hj hj'; subst hj'
        exact absurd rfl (hdis t ht' t (inr hj ht))
      | succ k' =>
        simp at hj hj'
        rw [ih hr hj hj']

/-- the tokens of the directive lines, in order, are a sublist of the indices they were made from -/
theorem directiveLines_sublist (attributed : List Nat) (level : Nat) (toks : List (RawKind × Nat)) :
    (flat (directiveLinesGo attributed level toks)).Sublist (toks.map (·.2)) := by
  induction toks generalizing level with
  | nil => simp [directiveLinesGo, flat]
  | cons x r ih =>
    obtain ⟨k, idx⟩ := x
    have skip : ∀ lv, (flat (directiveLinesGo attributed lv r)).Sublist (((k, idx) :: r).map (·.2)) := fun lv =>
      (ih lv).trans (by simp)
    have take : ∀ lv lv' ty, (flat (({ parent := none, level := lv', tokens := [idx], ltype := ty } : PLine) ::
        directiveLinesGo attributed lv r)).Sublist (((k, idx) :: r).map (·.2)) := by
      intro lv lv' ty
      rw [flat_cons]
      simpa using ih lv
    unfold directiveLinesGo
    split
    · exact skip _
    · split
      · exact take _ _ _
      · split
        · exact take _ _ _
        · split
          · exact take _ _ _
          · split
            · exact take _ _ _
            · exact skip _
      · exact skip _

/-- the token of a directive line is a directive that no line of a pass holds -/
theorem directiveLines_mem (attributed : List Nat) (level : Nat) (toks : List (RawKind × Nat)) :
    ∀ l ∈ directiveLinesGo attributed level toks,
      l.parent = none ∧ (l.ltype = .lCompilerDirective ∨ l.ltype = .lConditionalDirective) ∧
      ∃ k t, l.tokens = [t] ∧ (k, t) ∈ toks ∧ t ∉ attributed ∧ isDirectiveRaw k = true := by
  induction toks generalizing level with
  | nil => intro l hl; simp [directiveLinesGo] at hl
  | cons x r ih =>
    obtain ⟨k, idx⟩ := x
    intro l hl
    have lift : (l.parent = none ∧ (l.ltype = .lCompilerDirective ∨ l.ltype = .lConditionalDirective) ∧
          ∃ k' t, l.tokens = [t] ∧ (k', t) ∈ r ∧ t ∉ attributed ∧ isDirectiveRaw k' = true) →
        l.parent = none ∧ (l.ltype = .lCompilerDirective ∨ l.ltype = .lConditionalDirective) ∧
          ∃ k' t, l.tokens = [t] ∧ (k', t) ∈ (k, idx) :: r ∧ t ∉ attributed ∧ isDirectiveRaw k' = true :=
      fun ⟨a, b, k', t, h1, h2, h3, h4⟩ => ⟨a, b, k', t, h1, List.mem_cons_of_mem _ h2, h3, h4⟩
    unfold directiveLinesGo at hl
    split at hl
    · exact lift (ih _ l hl)
    · rename_i hna
      have hna' : idx ∉ attributed := by simpa using hna
      split at hl
      · rcases List.mem_cons.1 hl with e | h1
        · subst e; exact ⟨rfl, Or.inl rfl, _, idx, rfl, List.mem_cons_self, hna', rfl⟩
        · exact lift (ih _ l h1)
      · split at hl
        · rcases List.mem_cons.1 hl with e | h1
          · subst e; exact ⟨rfl, Or.inr rfl, _, idx, rfl, List.mem_cons_self, hna', rfl⟩
          · exact lift (ih _ l h1)
        · split at hl
          · rcases List.mem_cons.1 hl with e | h1
            · subst e; exact ⟨rfl, Or.inr rfl, _, idx, rfl, List.mem_cons_self, hna', rfl⟩
            · exact lift (ih _ l h1)
          · split at hl
            · rcases List.mem_cons.1 hl with e | h1
              · subst e; exact ⟨rfl, Or.inr rfl, _, idx, rfl, List.mem_cons_self, hna', rfl⟩
              · exact lift (ih _ l h1)
            · exact lift (ih _ l hl)
      · exact lift (ih _ l hl)

/-- what the guard `dirKindsKept` gives: a directive of the final kinds was that directive from the start -/
theorem dirKindsKept_final : ∀ (a b : List RawKind), dirKindsKept a b = true →
    ∀ (i : Nat) (y : RawKind), b[i]? = some y → isDirectiveRaw y = true → a[i]? = some y
  | [], [], _ => by intro i y hy; simp at hy
  | [], _ :: _, h => by simp [dirKindsKept] at h
  | _ :: _, [], h => by simp [dirKindsKept] at h
  | x :: as, y :: bs, h => by
    simp only [dirKindsKept, Bool.and_eq_true, Bool.or_eq_true, Bool.not_eq_true', beq_iff_eq] at h
    obtain ⟨hxy, hrest⟩ := h
    intro i y' hy' hd
    cases i with
    | zero =>
      simp at hy'; subst hy'
      rcases hxy with ⟨_, h2⟩ | h1
      · rw [h2] at hd; cases hd
      · simp [h1]
    | succ j => simpa using dirKindsKept_final as bs hrest j y' (by simpa using hy') hd

theorem dirKindsKept_length : ∀ (a b : List RawKind), dirKindsKept a b = true → a.length = b.length
  | [], [], _ => rfl
  | [], _ :: _, h => by simp [dirKindsKept] at h
  | _ :: _, [], h => by simp [dirKindsKept] at h
  | x :: as, y :: bs, h => by
    simp only [dirKindsKept, Bool.and_eq_true] at h
    simp [dirKindsKept_length as bs h.2]

theorem all2_length {α β : Type} {R : α → β → Prop} {as : List α} {bs : List β} (h : All2 R as bs) :
    as.length = bs.length := by
  induction h with
  | nil => rfl
  | cons _ _ ih => simp [ih]

theorem all2_left {α β : Type} {R : α → β → Prop} {as : List α} {bs : List β} (h : All2 R as bs) :
    ∀ a ∈ as, ∃ b ∈ bs, R a b := by
  induction h with
  | nil => intro a ha; cases ha
  | cons hab _ ih =>
    intro a ha
    rcases List.mem_cons.1 ha with rfl | ha'
    · exact ⟨_, List.mem_cons_self, hab⟩
    · obtain ⟨b, hb, hr⟩ := ih a ha'
      exact ⟨b, List.mem_cons_of_mem _ hb, hr⟩

theorem all2_singleton_right {α β : Type} {R : α → β → Prop} {as : List α} {b : β} (h : All2 R as [b]) :
    ∃ a, as = [a] ∧ R a b := by
  cases h with
  | cons hab hrest => cases hrest; exact ⟨_, rfl, hab⟩

/-- the lines of a pass of the parser model: no token twice -/
theorem passLines_nodup (kinds0 : List RawKind) (ls : List PLine) (pt : List Nat × List POp)
    (hs : pt.1.Pairwise (· < ·)) (hok : PassOK kinds0 ls pt) : (flat ls).Nodup := by
  obtain ⟨s, hrun, hlines, _, _⟩ := hok
  have hinv := run_inv kinds0 pt.1 hs pt.2 MState.init s (init_inv pt.1) hrun
  have := hinv.nodup
  unfold toksOf at this
  rw [← List.flatMap_def, hlines] at this
  exact this

/-- without conditional directives the parser model makes exactly one pass -/
theorem single_pass (toks : List (RawKind × Bool)) (o : ParseFullOut)
    (h : parseFileFull toks = some o) (hnc : ∀ k ∈ toks.map (·.1), condKind? k = none) :
    ∃ ls, o.passLines = [ls] := by
  obtain ⟨hall, hpasses⟩ := parseFileFull_passes toks o h
  rw [passes_noCond _ hnc] at hpasses
  obtain ⟨pt, htr⟩ : ∃ pt, o.traces = [pt] := by
    match hm : o.traces, hpasses with
    | [pt], _ => exact ⟨pt, rfl⟩
    | [], hp => simp at hp
    | _ :: _ :: _, hp => simp at hp
  rw [htr] at hall
  obtain ⟨ls, hpl, _⟩ := all2_singleton_right hall
  exact ⟨ls, hpl⟩

theorem consolidateAll_single (ls acc : List PLine) (h : consolidateAll [] [ls] = some acc) :
    consolidateGo [] [] ls = some acc := by
  unfold consolidateAll at h
  split at h
  · simp at h
  · rename_i acc' h1
    simp [consolidateAll] at h; subst h; exact h1

/-- **Without conditional directives no token is in two logical lines** (nor twice in one): the token lists of the
    final lines, read one after the other, have no repetition. -/
theorem final_lines_nodup_without_conditionals (toks : List (RawKind × Bool)) (o : ParseFullOut)
    (h : parseFileFull toks = some o) (hnc : ∀ k ∈ toks.map (·.1), condKind? k = none) :
    (flat o.lines).Nodup := by
  obtain ⟨kinds, acc, _, hacc, hkept, _, hfinal⟩ := parseFileFull_spec toks o h
  obtain ⟨hall, hpasses⟩ := parseFileFull_passes toks o h
  rw [passes_noCond _ hnc] at hpasses
  -- exactly one pass
  obtain ⟨pt, htr⟩ : ∃ pt, o.traces = [pt] := by
    match hm : o.traces, hpasses with
    | [pt], _ => exact ⟨pt, rfl⟩
    | [], hp => simp at hp
    | _ :: _ :: _, hp => simp at hp
  rw [htr] at hall
  obtain ⟨ls, hpl, hok⟩ := all2_singleton_right hall
  have hpt : pt.1 = List.range (toks.map (·.1)).length := by
    rw [htr] at hpasses; simpa using hpasses
  have hsorted : pt.1.Pairwise (· < ·) := by
    rw [hpt]; exact List.pairwise_lt_range
  have hnd := passLines_nodup _ ls pt hsorted hok
  rw [hpl] at hacc
  have hacc' : consolidateGo [] [] ls = some acc := by
    unfold consolidateAll at hacc
    split at hacc
    · simp at hacc
    · rename_i acc' h1
      simp [consolidateAll] at hacc; subst hacc; exact h1
  have hsub1 := consolidateGo_sublist [] [] ls acc hacc'
  have hsub2 := consolidateGo_sublist acc [] _ o.lines hfinal
  refine hsub2.nodup ?_
  rw [List.nodup_append]
  refine ⟨hsub1.nodup (by simpa [flat] using hnd), ?_, ?_⟩
  · refine (directiveLines_sublist _ 0 _).nodup ?_
    rw [List.zipIdx_map_snd]
    exact List.nodup_range'
  · intro t ht t' ht' e
    subst e
    have htl : t ∈ flat ls := by simpa [flat] using hsub1.subset ht
    obtain ⟨dl, hdl, hdt⟩ := List.mem_flatMap.1 ht'
    obtain ⟨_, _, k, t0, he, hmem, hna, hdir⟩ := directiveLines_mem _ 0 _ dl hdl
    rw [he] at hdt; simp at hdt; subst hdt
    have hk : kinds.toList[t]? = some k := by
      rw [List.mem_zipIdx_iff_getElem?] at hmem; simpa using hmem
    have hk0 := dirKindsKept_final _ _ hkept t k hk hdir
    have hkmem : k ∈ toks.map (·.1) := List.mem_of_getElem? hk0
    have hkc : k = .rCompilerDirective := by
      have := hnc k hkmem
      cases k <;> simp [isDirectiveRaw, condKind?] at hdir this ⊢
    apply hna
    unfold attributedOf
    rw [List.mem_filter]
    refine ⟨?_, ?_⟩
    · rw [hpl]; simpa [flat] using htl
    · rw [List.getD_eq_getElem?_getD, hk, hkc]; rfl

/-! ## B. parent references through the consolidation of passes -/

/-- the parent reference `p` points at a line of `ls` that holds the parent token -/
def PV (ls : List PLine) (p : LineParent) : Prop := ∃ pl, ls[p.lineIndex]? = some pl ∧ p.tokenIndex ∈ pl.tokens

/-- every parent reference points at an earlier line, which holds the parent token -/
def AccOk (acc : List PLine) : Prop :=
  ∀ i l p, acc[i]? = some l → l.parent = some p → p.lineIndex < i ∧ PV acc p

/-- what consolidation needs of the lines of a pass: a non-empty line whose parent reference points at an earlier
    line of the pass points at a line that holds the parent token -/
def PassOkW (ls : List PLine) : Prop :=
  ∀ i l p, ls[i]? = some l → l.tokens ≠ [] → l.parent = some p → p.lineIndex < i → PV ls p

/-- `mapped` sends every non-empty line already seen to a line of `acc` with the same tokens -/
def MapOk (acc done : List PLine) (mapped : List Nat) : Prop :=
  mapped.length = done.length ∧
  ∀ (j : Nat) (l : PLine), done[j]? = some l → l.tokens ≠ [] →
    ∃ (m : Nat) (al : PLine), mapped[j]? = some m ∧ acc[m]? = some al ∧ al.tokens = l.tokens

theorem PV.append {acc : List PLine} {p : LineParent} (h : PV acc p) (l : PLine) : PV (acc ++ [l]) p := by
  obtain ⟨pl, h1, h2⟩ := h
  refine ⟨pl, ?_, h2⟩
  rw [List.getElem?_append_left]
  · exact h1
  · rcases Nat.lt_or_ge p.lineIndex acc.length with h3 | h3
    · exact h3
    · rw [List.getElem?_eq_none h3] at h1; cases h1

theorem AccOk.append_none {acc : List PLine} (h : AccOk acc) (l : PLine) (hl : l.parent = none) : AccOk (acc ++ [l]) := by
  intro i l' p hi hp
  rcases Nat.lt_or_ge i acc.length with h1 | h1
  · rw [List.getElem?_append_left h1] at hi
    obtain ⟨a, b⟩ := h i l' p hi hp
    exact ⟨a, b.append l⟩
  · rw [List.getElem?_append_right h1] at hi
    have : i - acc.length = 0 := by
      rcases Nat.eq_zero_or_pos (i - acc.length) with h0 | h0
      · exact h0
      · rw [List.getElem?_eq_none (by simp; omega)] at hi; cases hi
    rw [this] at hi; simp at hi; subst hi
    rw [hl] at hp; cases hp

theorem AccOk.append_some {acc : List PLine} (h : AccOk acc) (l : PLine) (q : LineParent) (hl : l.parent = some q)
    (hq : PV acc q) : AccOk (acc ++ [l]) := by
  intro i l' p hi hp
  rcases Nat.lt_or_ge i acc.length with h1 | h1
  · rw [List.getElem?_append_left h1] at hi
    obtain ⟨a, b⟩ := h i l' p hi hp
    exact ⟨a, b.append l⟩
  · rw [List.getElem?_append_right h1] at hi
    have : i - acc.length = 0 := by
      rcases Nat.eq_zero_or_pos (i - acc.length) with h0 | h0
      · exact h0
      · rw [List.getElem?_eq_none (by simp; omega)] at hi; cases hi
    rw [this] at hi; simp at hi; subst hi
    have hqp : q = p := by rw [hl] at hp; exact Option.some.inj hp
    subst hqp
    refine ⟨?_, hq.append _⟩
    obtain ⟨pl, h2, _⟩ := hq
    rcases Nat.lt_or_ge q.lineIndex acc.length with h3 | h3
    · omega
    · rw [List.getElem?_eq_none h3] at h2; cases h2

theorem MapOk.snoc_same {acc done : List PLine} {mapped : List Nat} (h : MapOk acc done mapped) (line : PLine) (m : Nat)
    (hm : line.tokens ≠ [] → ∃ al, acc[m]? = some al ∧ al.tokens = line.tokens) :
    MapOk acc (done ++ [line]) (mapped ++ [m]) := by
  obtain ⟨hlen, hmap⟩ := h
  refine ⟨by simp [hlen], ?_⟩
  intro j l hj hne
  rcases Nat.lt_or_ge j done.length with h1 | h1
  · rw [List.getElem?_append_left h1] at hj
    obtain ⟨m', al, a, b, c⟩ := hmap j l hj hne
    exact ⟨m', al, by rw [List.getElem?_append_left (by omega)]; exact a, b, c⟩
  · rw [List.getElem?_append_right h1] at hj
    have : j - done.length = 0 := by
      rcases Nat.eq_zero_or_pos (j - done.length) with h0 | h0
      · exact h0
      · rw [List.getElem?_eq_none (by simp; omega)] at hj; cases hj
    rw [this] at hj; simp at hj; subst hj
    obtain ⟨al, a, b⟩ := hm hne
    refine ⟨m, al, ?_, a, b⟩
    rw [List.getElem?_append_right (by omega)]
    have : j - mapped.length = 0 := by omega
    rw [this]; rfl

theorem MapOk.grow {acc done : List PLine} {mapped : List Nat} (h : MapOk acc done mapped) (l : PLine) :
    MapOk (acc ++ [l]) done mapped := by
  obtain ⟨hlen, hmap⟩ := h
  refine ⟨hlen, ?_⟩
  intro j l' hj hne
  obtain ⟨m, al, a, b, c⟩ := hmap j l' hj hne
  refine ⟨m, al, a, ?_, c⟩
  rw [List.getElem?_append_left]
  · exact b
  · rcases Nat.lt_or_ge m acc.length with h3 | h3
    · exact h3
    · rw [List.getElem?_eq_none h3] at b; cases b

/-- **Consolidation keeps parent references meaningful**: if they were in the lines consolidated so far, and the lines
    of the pass satisfy `PassOkW`, they are in the result: every parent reference points at an earlier line that
    holds the parent token. -/
theorem consolidateGo_parents (acc : List PLine) (mapped : List Nat) (done rest out : List PLine)
    (h : consolidateGo acc mapped rest = some out) (hacc : AccOk acc) (hmap : MapOk acc done mapped)
    (hpass : PassOkW (done ++ rest)) : AccOk out := by
  induction rest generalizing acc mapped done with
  | nil => simp [consolidateGo] at h; subst h; exact hacc
  | cons line rest ih =>
    have hfull : done ++ line :: rest = (done ++ [line]) ++ rest := by simp
    unfold consolidateGo at h
    split at h
    · rename_i hemp
      have he : line.tokens = [] := by simpa using hemp
      refine ih _ _ (done ++ [line]) h hacc (hmap.snoc_same line _ (fun hne => absurd he hne)) (hfull ▸ hpass)
    · rename_i hne0
      have hne : line.tokens ≠ [] := by simpa using hne0
      simp only at h
      split at h
      · simp at h
      · rename_i parent hpar
        -- the remapped parent reference, when there is one, is valid in `acc`
        have hvalid : ∀ q, parent = some q → PV acc q := by
          intro q hq
          subst hq
          cases hp : line.parent with
          | none => rw [hp] at hpar; simp at hpar
          | some p =>
            rw [hp] at hpar
            simp only at hpar
            cases hm : mapped[p.lineIndex]? with
            | none => rw [hm] at hpar; simp at hpar
            | some m =>
              rw [hm] at hpar
              simp only [Option.some.injEq] at hpar
              have hlt : p.lineIndex < done.length := by
                rw [← hmap.1]
                rcases Nat.lt_or_ge p.lineIndex mapped.length with h3 | h3
                · exact h3
                · rw [List.getElem?_eq_none h3] at hm; cases hm
              obtain ⟨pl, hpl, htok⟩ := hpass done.length line p (by simp) hne hp hlt
              rw [List.getElem?_append_left hlt] at hpl
              have hplne : pl.tokens ≠ [] := by intro e; rw [e] at htok; cases htok
              obtain ⟨m', al, a, b, c⟩ := hmap.2 _ pl hpl hplne
              rw [hm] at a; cases a
              refine ⟨al, ?_, ?_⟩
              · rw [← hpar]; exact b
              · rw [← hpar, c]; exact htok
        split at h
        · rename_i i hi
          obtain ⟨hlt, hp, _⟩ := List.findIdx?_eq_some_iff_getElem.1 hi
          have heq : acc[i] = { line with parent := parent } := by simpa using hp
          refine ih _ _ (done ++ [line]) h hacc (hmap.snoc_same line i ?_) (hfull ▸ hpass)
          intro _
          exact ⟨acc[i], List.getElem?_eq_getElem hlt, by rw [heq]⟩
        · have hacc' : AccOk (acc ++ [{ line with parent := parent }]) := by
            cases hq : parent with
            | none => exact hacc.append_none _ rfl
            | some q => exact hacc.append_some _ q rfl (hvalid q hq)
          refine ih _ _ (done ++ [line]) h hacc' ((hmap.grow _).snoc_same line acc.length ?_) (hfull ▸ hpass)
          intro _
          exact ⟨{ line with parent := parent }, by simp, rfl⟩

theorem consolidatePass_parents (acc ls out : List PLine) (h : consolidatePass acc ls = some out) (hacc : AccOk acc)
    (hpass : PassOkW ls) : AccOk out :=
  consolidateGo_parents acc [] [] ls out h hacc ⟨rfl, by intro j l hj; simp at hj⟩ (by simpa using hpass)

theorem consolidateAll_parents (acc : List PLine) (pls : List (List PLine)) (out : List PLine)
    (h : consolidateAll acc pls = some out) (hacc : AccOk acc) (hpass : ∀ ls ∈ pls, PassOkW ls) : AccOk out := by
  induction pls generalizing acc with
  | nil => simp [consolidateAll] at h; subst h; exact hacc
  | cons ls rest ih =>
    unfold consolidateAll at h
    split at h
    · simp at h
    · rename_i acc' h1
      exact ih acc' h (consolidatePass_parents acc ls acc' h1 hacc (hpass ls (by simp)))
        (fun ls' hls' => hpass ls' (by simp [hls']))

/-- the check on the lines of one pass: every parent reference points at a line of the pass that holds the parent
    token (the control flow takes a parent reference from the current line and the current token, and consumes that
    token onto that line at once) -/
def passParentsOk (ls : List PLine) : Bool :=
  ls.all fun l =>
    match l.parent with
    | none => true
    | some p =>
      match ls[p.lineIndex]? with
      | some pl => pl.tokens.contains p.tokenIndex
      | none => false

/-- the check on the answer of the parser model: `passParentsOk` for the lines of every pass -/
def parentsOk (o : ParseFullOut) : Bool := o.passLines.all passParentsOk

theorem passParentsOk_spec (ls : List PLine) (h : passParentsOk ls = true) : PassOkW ls := by
  intro i l p hi _ hp _
  unfold passParentsOk at h
  rw [List.all_eq_true] at h
  have := h l (List.mem_of_getElem? hi)
  rw [hp] at this
  simp only at this
  split at this
  · rename_i pl hpl
    exact ⟨pl, hpl, by simpa using this⟩
  · cases this

theorem directiveLines_passOkW (attributed : List Nat) (level : Nat) (toks : List (RawKind × Nat)) :
    PassOkW (directiveLinesGo attributed level toks) := by
  intro i l p hi _ hp _
  have := (directiveLines_mem attributed level toks l (List.mem_of_getElem? hi)).1
  rw [this] at hp; cases hp

/-- **Parent references of the final lines** (given `parentsOk`): the parent line exists, precedes the child line
    and holds the parent token. -/
theorem final_parents_contain_token (toks : List (RawKind × Bool)) (o : ParseFullOut)
    (h : parseFileFull toks = some o) (hg : parentsOk o = true) : AccOk o.lines := by
  obtain ⟨kinds, acc, _, hacc, _, _, hfinal⟩ := parseFileFull_spec toks o h
  have hp : ∀ ls ∈ o.passLines, PassOkW ls := by
    intro ls hls
    unfold parentsOk at hg
    rw [List.all_eq_true] at hg
    exact passParentsOk_spec ls (hg ls hls)
  have h0 : AccOk [] := by intro i l p hi; simp at hi
  have h1 := consolidateAll_parents [] o.passLines acc hacc h0 hp
  exact consolidatePass_parents acc _ o.lines hfinal h1 (directiveLines_passOkW _ _ _)

/-! ## C. the end-of-file line -/

/-- lines that count as "an end-of-file line": typed `Eof`, or holding the token `e` -/
def EofIsh (e : Nat) (l : PLine) : Prop := l.ltype = .lEof ∨ e ∈ l.tokens

/-- consolidation never stores a line twice -/
theorem consolidateGo_nodup_lines (acc : List PLine) (mapped : List Nat) (ls out : List PLine)
    (h : consolidateGo acc mapped ls = some out) (hn : acc.Nodup) : out.Nodup := by
  induction ls generalizing acc mapped with
  | nil => simp [consolidateGo] at h; subst h; exact hn
  | cons line rest ih =>
    unfold consolidateGo at h
    split at h
    · exact ih _ _ h hn
    · simp only at h
      split at h
      · simp at h
      · rename_i parent _
        split at h
        · exact ih _ _ h hn
        · rename_i hnone
          refine ih _ _ h ?_
          rw [List.nodup_append]
          refine ⟨hn, by simp, ?_⟩
          intro a ha b hb e
          simp at hb
          subst e; subst hb
          rw [List.findIdx?_eq_none_iff] at hnone
          have := hnone _ ha
          simp at this

/-- consolidation keeps the lines it already had, and every non-empty line without a parent of the pass -/
theorem consolidateGo_keeps_lines (acc : List PLine) (mapped : List Nat) (ls out : List PLine)
    (h : consolidateGo acc mapped ls = some out) :
    (∀ l ∈ acc, l ∈ out) ∧ (∀ l ∈ ls, l.tokens ≠ [] → l.parent = none → l ∈ out) := by
  induction ls generalizing acc mapped with
  | nil => simp [consolidateGo] at h; subst h; exact ⟨fun l hl => hl, by intro l hl; cases hl⟩
  | cons line rest ih =>
    unfold consolidateGo at h
    split at h
    · rename_i hemp
      have he : line.tokens = [] := by simpa using hemp
      obtain ⟨k1, k2⟩ := ih _ _ h
      refine ⟨k1, ?_⟩
      intro l hl hne hp
      rcases List.mem_cons.1 hl with rfl | h1
      · exact absurd he hne
      · exact k2 l h1 hne hp
    · simp only at h
      split at h
      · simp at h
      · rename_i parent hpar
        have hself : line.parent = none → ({ line with parent := parent } : PLine) = line := by
          intro hp
          rw [hp] at hpar
          simp at hpar
          subst hpar
          cases line; simp_all
        split at h
        · rename_i i hi
          obtain ⟨k1, k2⟩ := ih _ _ h
          refine ⟨k1, ?_⟩
          intro l hl hne hp
          rcases List.mem_cons.1 hl with rfl | h1
          · obtain ⟨hlt, hpp, _⟩ := List.findIdx?_eq_some_iff_getElem.1 hi
            have heq : acc[i] = { l with parent := parent } := by simpa using hpp
            rw [hself hp] at heq
            rw [← heq]
            exact k1 _ (List.getElem_mem hlt)
          · exact k2 l h1 hne hp
        · obtain ⟨k1, k2⟩ := ih _ _ h
          refine ⟨fun l hl => k1 l (List.mem_append_left _ hl), ?_⟩
          intro l hl hne hp
          rcases List.mem_cons.1 hl with rfl | h1
          · have := k1 { l with parent := parent } (by simp)
            rwa [hself hp] at this
          · exact k2 l h1 hne hp

/-- consolidation invents no line: a line of the result was there before, or is a line of the pass with its parent
    reference remapped (or dropped) -/
theorem consolidateGo_lines_from (acc : List PLine) (mapped : List Nat) (ls out : List PLine)
    (h : consolidateGo acc mapped ls = some out) :
    ∀ l' ∈ out, l' ∈ acc ∨ ∃ l ∈ ls, l'.tokens = l.tokens ∧ l'.ltype = l.ltype ∧ l'.level = l.level ∧
      (l.parent = none → l'.parent = none) := by
  induction ls generalizing acc mapped with
  | nil => simp [consolidateGo] at h; subst h; intro l' hl'; exact Or.inl hl'
  | cons line rest ih =>
    have lift : ∀ l' : PLine, (∃ l ∈ rest, l'.tokens = l.tokens ∧ l'.ltype = l.ltype ∧ l'.level = l.level ∧
          (l.parent = none → l'.parent = none)) →
        ∃ l ∈ line :: rest, l'.tokens = l.tokens ∧ l'.ltype = l.ltype ∧ l'.level = l.level ∧
          (l.parent = none → l'.parent = none) :=
      fun l' ⟨l, hl, e⟩ => ⟨l, List.mem_cons_of_mem _ hl, e⟩
    unfold consolidateGo at h
    split at h
    · intro l' hl'
      rcases ih _ _ h l' hl' with h1 | h1
      · exact Or.inl h1
      · exact Or.inr (lift l' h1)
    · simp only at h
      split at h
      · simp at h
      · rename_i parent hpar
        split at h
        · intro l' hl'
          rcases ih _ _ h l' hl' with h1 | h1
          · exact Or.inl h1
          · exact Or.inr (lift l' h1)
        · intro l' hl'
          rcases ih _ _ h l' hl' with h1 | h1
          · rcases List.mem_append.1 h1 with h2 | h2
            · exact Or.inl h2
            · simp at h2; subst h2
              refine Or.inr ⟨line, List.mem_cons_self, rfl, rfl, rfl, ?_⟩
              intro hp
              rw [hp] at hpar
              simp at hpar
              exact hpar.symm
          · exact Or.inr (lift l' h1)

/-- what `passEofOk` and "no token twice in a pass" say about the lines of a pass -/
theorem passEofOk_spec (n : Nat) (ls : List PLine) (h : passEofOk n ls = true) (hnd : (flat ls).Nodup) :
    eofLine n ∈ ls ∧ ∀ l ∈ ls, EofIsh (n - 1) l → l = eofLine n := by
  unfold passEofOk at h
  have hf : ls.filter (fun l => l.ltype == .lEof) = [eofLine n] := by simpa using h
  have hmem : eofLine n ∈ ls := by
    have : eofLine n ∈ ls.filter (fun l => l.ltype == .lEof) := by rw [hf]; simp
    exact (List.mem_filter.1 this).1
  refine ⟨hmem, ?_⟩
  intro l hl hish
  rcases hish with ht | ht
  · have : l ∈ ls.filter (fun l => l.ltype == .lEof) := List.mem_filter.2 ⟨hl, by simp [ht]⟩
    rw [hf] at this
    simpa using this
  · obtain ⟨j, hj⟩ := List.getElem?_of_mem hl
    obtain ⟨j', hj'⟩ := List.getElem?_of_mem hmem
    have := nodup_flat_index hnd hj hj' ht (by simp [eofLine])
    subst this
    rw [hj] at hj'
    exact Option.some.inj hj'

/-- one consolidation keeps "every end-of-file line is `E`" -/
theorem consolidateGo_eof (e : Nat) (E : PLine) (hE : E.parent = none) (acc : List PLine) (mapped : List Nat)
    (ls out : List PLine) (h : consolidateGo acc mapped ls = some out)
    (hacc : ∀ l ∈ acc, EofIsh e l → l = E) (hls : ∀ l ∈ ls, EofIsh e l → l = E) :
    ∀ l ∈ out, EofIsh e l → l = E := by
  intro l' hl' hish
  rcases consolidateGo_lines_from acc mapped ls out h l' hl' with h1 | ⟨l, hl, e1, e2, e3, e4⟩
  · exact hacc l' h1 hish
  · have hl_ish : EofIsh e l := by
      rcases hish with a | a
      · exact Or.inl (by rw [← e2]; exact a)
      · exact Or.inr (by rw [← e1]; exact a)
    have hlE := hls l hl hl_ish
    subst hlE
    have hp := e4 hE
    cases l'; cases l
    simp_all

theorem passes_ne_nil (kinds : List RawKind) : passes kinds ≠ [] := by
  unfold passes
  simp only
  rw [show kinds.length + 2 = (kinds.length + 1) + 1 by omega, passesGo]
  simp only
  split <;> simp

/-- **Exactly one end-of-file line, holding only the end-of-file token** - given that the file ends with the
    end-of-file token and given `eofOk`: the final lines hold `eofLine` at exactly one position, and every line that
    is typed `Eof` or holds the end-of-file token is that line. -/
theorem final_single_eof_line (toks : List (RawKind × Bool)) (o : ParseFullOut)
    (h : parseFileFull toks = some o) (hlast : (toks.map (·.1)).getLast? = some .rEof) (hg : eofOk o = true) :
    ∃ j, o.lines[j]? = some (eofLine toks.length) ∧
      ∀ (j' : Nat) (l : PLine), o.lines[j']? = some l → (l.ltype = .lEof ∨ (toks.length - 1) ∈ l.tokens) → j' = j := by
  obtain ⟨kinds, acc, _, hacc, hkept, hkinds, hfinal⟩ := parseFileFull_spec toks o h
  obtain ⟨hall, hpasses⟩ := parseFileFull_passes toks o h
  have hlen : toks.length = o.kinds.length := by
    rw [hkinds, ← dirKindsKept_length _ _ hkept]; simp
  -- every pass
  have hpass : ∀ ls ∈ o.passLines, eofLine toks.length ∈ ls ∧ ∀ l ∈ ls, EofIsh (toks.length - 1) l → l = eofLine toks.length := by
    intro ls hls
    obtain ⟨pt, hpt, hok⟩ := all2_left hall ls hls
    have hsorted : pt.1.Pairwise (· < ·) :=
      passes_sorted _ pt.1 (by rw [← hpasses]; exact List.mem_map_of_mem hpt)
    have hnd := passLines_nodup _ ls pt hsorted hok
    unfold eofOk at hg
    rw [List.all_eq_true] at hg
    rw [hlen]
    exact passEofOk_spec _ ls (hg ls hls) hnd
  -- the consolidation of the passes
  have hE : (eofLine toks.length).parent = none := rfl
  have hne : (eofLine toks.length).tokens ≠ [] := by simp [eofLine]
  have hacc_all : ∀ (a : List PLine) (pls : List (List PLine)) (out : List PLine),
      consolidateAll a pls = some out → a.Nodup → (∀ l ∈ a, EofIsh (toks.length - 1) l → l = eofLine toks.length) →
      (∀ ls ∈ pls, eofLine toks.length ∈ ls ∧ ∀ l ∈ ls, EofIsh (toks.length - 1) l → l = eofLine toks.length) →
      out.Nodup ∧ (∀ l ∈ out, EofIsh (toks.length - 1) l → l = eofLine toks.length) ∧ (∀ l ∈ a, l ∈ out) ∧
        (pls ≠ [] → eofLine toks.length ∈ out) := by
    intro a pls
    induction pls generalizing a with
    | nil =>
      intro out hc hn ha _
      simp [consolidateAll] at hc; subst hc
      exact ⟨hn, ha, fun l hl => hl, fun hh => absurd rfl hh⟩
    | cons ls rest ih =>
      intro out hc hn ha hp
      unfold consolidateAll at hc
      split at hc
      · simp at hc
      · rename_i a' h1
        have hn' := consolidateGo_nodup_lines a [] ls a' h1 hn
        have ha' := consolidateGo_eof _ _ hE a [] ls a' h1 ha (hp ls (by simp)).2
        obtain ⟨k1, k2⟩ := consolidateGo_keeps_lines a [] ls a' h1
        obtain ⟨r1, r2, r3, _⟩ := ih a' out hc hn' ha' (fun ls' hls' => hp ls' (by simp [hls']))
        refine ⟨r1, r2, fun l hl => r3 l (k1 l hl), ?_⟩
        intro _
        exact r3 _ (k2 _ (hp ls (by simp)).1 hne hE)
  have hpl_ne : o.passLines ≠ [] := by
    intro e
    have h1 := all2_length hall
    rw [e] at h1
    have h2 : (o.traces.map (·.1)).length = 0 := by simp [← h1]
    rw [hpasses] at h2
    exact passes_ne_nil _ (List.length_eq_zero_iff.1 h2)
  obtain ⟨a1, a2, _, a4⟩ := hacc_all [] o.passLines acc hacc List.nodup_nil (by intro l hl; cases hl) hpass
  -- the directive lines
  have hdl : ∀ l ∈ directiveLinesGo (attributedOf kinds.toList o.passLines) 0 kinds.toList.zipIdx,
      EofIsh (toks.length - 1) l → l = eofLine toks.length := by
    intro l hl hish
    exfalso
    obtain ⟨_, hty, k, t, he, hmem, _, hdir⟩ := directiveLines_mem _ 0 _ l hl
    rcases hish with a | a
    · rcases hty with b | b <;> rw [b] at a <;> cases a
    · rw [he] at a; simp at a; subst a
      have hk : kinds.toList[toks.length - 1]? = some k := by
        rw [List.mem_zipIdx_iff_getElem?] at hmem; simpa using hmem
      have hk0 := dirKindsKept_final _ _ hkept _ k hk hdir
      rw [List.getLast?_eq_getElem?] at hlast
      simp only [List.length_map] at hlast hk0
      rw [hlast] at hk0
      cases hk0
      cases hdir
  have f1 := consolidateGo_nodup_lines acc [] _ o.lines hfinal a1
  have f2 := consolidateGo_eof _ _ hE acc [] _ o.lines hfinal a2 hdl
  obtain ⟨f3, _⟩ := consolidateGo_keeps_lines acc [] _ o.lines hfinal
  have hmemE : eofLine toks.length ∈ o.lines := f3 _ (a4 hpl_ne)
  obtain ⟨j, hj⟩ := List.getElem?_of_mem hmemE
  refine ⟨j, hj, ?_⟩
  intro j' l hj' hish
  have hl : l = eofLine toks.length := f2 l (List.mem_of_getElem? hj') hish
  subst hl
  have hjlt : j' < o.lines.length := by
    rcases Nat.lt_or_ge j' o.lines.length with h3 | h3
    · exact h3
    · rw [List.getElem?_eq_none h3] at hj'; cases hj'
  exact (List.getElem?_inj hjlt f1).1 (by rw [hj, hj'])

end Pasfmt.Parents
