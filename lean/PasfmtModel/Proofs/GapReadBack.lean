/-
  What `FormattingData::from` reads back from the whitespace the reconstructor emits for a
  non-ignored token: the same number of line breaks, and the width of the indentation + spaces.
-/
import PasfmtModel.Model.Recon
import PasfmtModel.Proofs.ReconProps

namespace Pasfmt

/-- tabs and spaces only -/
def TabsSpaces (l : Bytes) : Prop := ∀ b ∈ l, b = 0x09 ∨ b = 0x20

theorem TabsSpaces.append {a b : Bytes} (ha : TabsSpaces a) (hb : TabsSpaces b) : TabsSpaces (a ++ b) := by
  intro x hx
  rcases List.mem_append.1 hx with h | h
  · exact ha x h
  · exact hb x h

theorem TabsSpaces.replicateBytes {s : Bytes} (h : TabsSpaces s) (n : Nat) : TabsSpaces (replicateBytes n s) := by
  intro b hb
  unfold Pasfmt.replicateBytes at hb
  rw [List.mem_flatten] at hb
  obtain ⟨l, hl, hbl⟩ := hb
  rw [List.mem_replicate] at hl
  rw [hl.2] at hbl
  exact h b hbl

theorem trimStartLen_tabsSpaces (l : Bytes) (h : TabsSpaces l) : trimStartLen l = l.length := by
  induction l with
  | nil => rfl
  | cons b r ih =>
    have hb := h b (by simp)
    have hr : TabsSpaces r := fun x hx => h x (by simp [hx])
    rcases hb with rfl | rfl
    · rw [trimStartLen]
      · simp [ih hr]
      · intro r' hh; simp at hh
    · rw [trimStartLen]
      · simp [ih hr]
      · intro r' hh; simp at hh

theorem trimEndCr_tabsSpaces (l : Bytes) (h : TabsSpaces l) : trimEndCr l = l := by
  unfold trimEndCr
  have : l.reverse.dropWhile (· == 0x0D) = l.reverse := by
    cases hr : l.reverse with
    | nil => rfl
    | cons a t =>
      have ha : a ∈ l := by rw [← List.mem_reverse, hr]; simp
      rcases h a ha with rfl | rfl <;> simp [List.dropWhile_cons]
  rw [this, List.reverse_reverse]

theorem findByte_none_of_not_mem (c : UInt8) (l : Bytes) (h : c ∉ l) : findByte c l = none := by
  induction l with
  | nil => rfl
  | cons a r ih =>
    unfold findByte
    have : (a == c) = false := by
      simp only [beq_eq_false_iff_ne]; intro e; exact h (by simp [e])
    simp only [this, Bool.false_eq_true, if_false]
    rw [ih (fun hm => h (by simp [hm]))]; rfl

theorem findByte_append_left (c : UInt8) (a : Bytes) (b : Bytes) (h : c ∉ a) :
    findByte c (a ++ c :: b) = some a.length := by
  induction a with
  | nil => simp [findByte]
  | cons x r ih =>
    simp only [List.cons_append]
    unfold findByte
    have : (x == c) = false := by
      simp only [beq_eq_false_iff_ne]; intro e; exact h (by simp [e])
    simp only [this, Bool.false_eq_true, if_false]
    rw [ih (fun hm => h (by simp [hm]))]; simp

/-- the text after the last `\n` -/
theorem lastLine_append (pre tail : Bytes) (h : (0x0A : UInt8) ∉ tail) : lastLine (pre ++ 0x0A :: tail) = tail := by
  unfold lastLine rfindByte
  have hrev : (pre ++ 0x0A :: tail).reverse = tail.reverse ++ 0x0A :: pre.reverse := by simp
  rw [hrev, findByte_append_left 0x0A tail.reverse pre.reverse (by simpa using h)]
  simp only [List.length_reverse, List.length_append, List.length_cons]
  have : pre.length + (tail.length + 1) - 1 - tail.length + 1 = pre.length + 1 := by omega
  rw [this]
  have : pre ++ 0x0A :: tail = (pre ++ [0x0A]) ++ tail := by simp
  rw [this, List.drop_left' (by simp)]

theorem lastLine_no_nl (l : Bytes) (h : (0x0A : UInt8) ∉ l) : lastLine l = l := by
  unfold lastLine rfindByte
  rw [findByte_none_of_not_mem 0x0A l.reverse (by simpa using h)]


theorem replicateBytes_succ' (n : Nat) (s : Bytes) : replicateBytes (n + 1) s = replicateBytes n s ++ s := by
  unfold replicateBytes
  rw [List.replicate_succ']
  simp

theorem countByte_append (c : UInt8) (a b : Bytes) : countByte c (a ++ b) = countByte c a + countByte c b := by
  unfold countByte; simp

theorem countByte_replicateBytes (c : UInt8) (n : Nat) (s : Bytes) :
    countByte c (replicateBytes n s) = n * countByte c s := by
  induction n with
  | zero => simp [replicateBytes, countByte]
  | succ k ih => rw [replicateBytes_succ', countByte_append, ih]; rw [Nat.succ_mul]

theorem countByte_zero_of_not_mem (c : UInt8) (l : Bytes) (h : c ∉ l) : countByte c l = 0 := by
  unfold countByte
  simp only [List.length_eq_zero_iff, List.filter_eq_nil_iff, beq_iff_eq]
  intro a ha e; exact h (e ▸ ha)

theorem tabsSpaces_no_nl {l : Bytes} (h : TabsSpaces l) : (0x0A : UInt8) ∉ l := by
  intro hm
  rcases h _ hm with e | e <;> exact absurd e (by decide)

theorem settings_tabsSpaces (cfg : Config) : TabsSpaces cfg.settings.indStr ∧ TabsSpaces cfg.settings.contStr := by
  unfold Config.settings
  simp only
  split
  · exact ⟨by intro b hb; simp at hb; exact Or.inl hb,
      by intro b hb; rw [List.mem_replicate] at hb; exact Or.inl hb.2⟩
  · exact ⟨by intro b hb; rw [List.mem_replicate] at hb; exact Or.inr hb.2,
      by intro b hb; rw [List.mem_replicate] at hb; exact Or.inr hb.2⟩

theorem settings_nl_shape (cfg : Config) : ∃ pre, cfg.settings.nlStr = pre ++ [0x0A] ∧ (0x0A : UInt8) ∉ pre := by
  unfold Config.settings
  simp only
  split <;> (split <;> first | exact ⟨[0x0D], rfl, by decide⟩ | exact ⟨[], rfl, by simp⟩)

/-- **Read-back of an emitted gap.**  The whitespace the reconstructor emits for a non-ignored token with
    counters `(n, i, c, s)` is read by `FormattingData::from` as `n` line breaks and a blank run as wide
    as the indentation, the continuation and the spaces together (both saturating at `u16::MAX`). -/
theorem ofWs_gap (cfg : Config) (n i c s : Nat) :
    FmtData.ofWs (replicateBytes n cfg.settings.nlStr ++ (replicateBytes i cfg.settings.indStr ++
        replicateBytes c cfg.settings.contStr ++ List.replicate s 0x20)) false =
      { ignored := false, nl := u16sat n, ind := 0, cont := 0,
        sp := u16sat (replicateBytes i cfg.settings.indStr ++ replicateBytes c cfg.settings.contStr ++
          List.replicate s 0x20).length } := by
  obtain ⟨hi, hc⟩ := settings_tabsSpaces cfg
  obtain ⟨pre, hnl, hpre⟩ := settings_nl_shape cfg
  have htail : TabsSpaces (replicateBytes i cfg.settings.indStr ++ replicateBytes c cfg.settings.contStr ++
      List.replicate s 0x20) :=
    (TabsSpaces.append (hi.replicateBytes i) (hc.replicateBytes c)).append
      (by intro b hb; rw [List.mem_replicate] at hb; exact Or.inr hb.2)
  generalize replicateBytes i cfg.settings.indStr ++ replicateBytes c cfg.settings.contStr ++ List.replicate s 0x20 = tail at htail ⊢
  have hno := tabsSpaces_no_nl htail
  unfold FmtData.ofWs
  -- number of line breaks
  have hcount : countByte 0x0A (replicateBytes n cfg.settings.nlStr ++ tail) = n := by
    rw [countByte_append, countByte_replicateBytes, countByte_zero_of_not_mem _ _ hno, hnl, countByte_append,
      countByte_zero_of_not_mem _ _ hpre]
    simp [countByte]
  -- the last line
  have hlast : lastLine (replicateBytes n cfg.settings.nlStr ++ tail) = tail := by
    cases n with
    | zero => simpa [replicateBytes] using lastLine_no_nl tail hno
    | succ m =>
      rw [replicateBytes_succ', hnl]
      have : replicateBytes m (pre ++ [0x0A]) ++ (pre ++ [0x0A]) ++ tail =
          (replicateBytes m (pre ++ [0x0A]) ++ pre) ++ 0x0A :: tail := by simp
      rw [this]
      exact lastLine_append _ tail hno
  rw [hcount, hlast, trimEndCr_tabsSpaces tail htail, trimStartLen_tabsSpaces tail htail]

end Pasfmt
