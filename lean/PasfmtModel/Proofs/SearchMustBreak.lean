/-
  The search breaks where it must: wherever `get_formatting_invariant` answers `MustBreak` for a token of a line, the
  decision of every solution `find_optimal_solution` returns (child-line solutions included) is a break.
  The invariant is walked through the search the way `SearchBeginWrap` does; the loop lemmas are re-proved here for a
  node invariant that `get_potential_solution` keeps only for the decisions the search really offers (a `Continue`
  is offered only at a token whose invariant is not `MustBreak`).
-/
import PasfmtModel.Proofs.SearchBeginWrap

namespace Pasfmt

/-! ### the predicate -/

/-- the decision `d` at token index `i` of `line` respects the invariant "must break" -/
def MBDec (O : Olf) (line : LineA) (i : Nat) (d : Dec) : Prop :=
  O.getFormattingInvariant i line = some .mustBreak → d.toRaw = .brk

/-- every decision of the solution of line `li`, and of every child solution below it, respects "must break" -/
inductive TreeMB (O : Olf) : Nat → FormattingSolution → Prop
  | mk (li : Nat) (ws : LineWhitespace) (decs : List TokenDecision) (pen len : Nat)
      (h : ∀ i d, decs[i]? = some d → MBDec O (O.lines[li]!) i d.decision)
      (hrec : ∀ d ∈ decs, ∀ x ∈ d.childSolutions, TreeMB O x.1 x.2) :
      TreeMB O li (.mk ws decs pen len)

def ChildListMB (O : Olf) (sols : List (Nat × FormattingSolution)) : Prop := ∀ x ∈ sols, TreeMB O x.1 x.2

theorem treeMB_iff (O : Olf) (li : Nat) (sol : FormattingSolution) :
    TreeMB O li sol ↔ ∀ i d, sol.decisions[i]? = some d →
      MBDec O (O.lines[li]!) i d.decision ∧ ChildListMB O d.childSolutions := by
  constructor
  · intro h
    cases h with
    | mk li ws decs pen len h hrec =>
      intro i d hd
      exact ⟨h i d hd, hrec d (List.mem_of_getElem? hd)⟩
  · intro h
    cases sol with
    | mk ws decs pen len =>
      refine TreeMB.mk li ws decs pen len (fun i d hd => (h i d hd).1) (fun d hd => ?_)
      obtain ⟨i, hi⟩ := List.getElem?_of_mem hd
      exact (h i d hi).2

def CacheMB (O : Olf) (cache : ChildLineCache) : Prop :=
  ∀ (key : ChildLineInitialConditions) sols, cache[key]? = some sols → ChildListMB O sols

def SolverMB (O : Olf) (solve : Solver) : Prop :=
  ∀ cache ws li fd, CacheMB O cache →
    CacheMB O (solve cache ws li fd).2 ∧ ∀ sol, (solve cache ws li fd).1 = .ok sol → TreeMB O li sol

/-! ### the child lines -/

theorem solveChildLines_mb (O : Olf) (solve : Solver) (hT : SolverMB O solve) (option : ChildLineOption)
    (cws : ChildWhitespace) :
    ∀ (ls : List Nat) (idx : Nat) (cache : ChildLineCache) (lll : Nat) (acc : List (Nat × FormattingSolution))
      (r : Option (List (Nat × FormattingSolution))) (cache' : ChildLineCache),
      CacheMB O cache → ChildListMB O acc →
      solveChildLines O solve option cws ls idx cache lll acc = (r, cache') →
      CacheMB O cache' ∧ ∀ sols, r = some sols → ChildListMB O sols := by
  intro ls
  induction ls with
  | nil =>
    intro idx cache lll acc r cache' hc hacc h
    simp only [solveChildLines, Prod.mk.injEq] at h
    obtain ⟨rfl, rfl⟩ := h
    exact ⟨hc, fun sols hs => by cases hs; intro x hx; exact hacc x (by simpa using hx)⟩
  | cons childLine rest ih =>
    intro idx cache lll acc r cache' hc hacc h
    unfold solveChildLines at h
    extract_lets line src cw fd at h
    have hok := hT cache cw childLine fd hc
    split at h
    · rename_i e c1 hs
      simp only [Prod.mk.injEq] at h
      obtain ⟨rfl, rfl⟩ := h
      rw [hs] at hok
      exact ⟨hok.1, fun sols hs => by cases hs⟩
    · rename_i solution c1 hs
      rw [hs] at hok
      refine ih _ _ _ _ _ _ hok.1 ?_ h
      intro x hx
      simp only [List.mem_cons] at hx
      rcases hx with rfl | hx
      · exact hok.2 _ rfl
      · exact hacc x hx

theorem childLinesOfOptions_mb (O : Olf) (solve : Solver) (hT : SolverMB O solve)
    (cache : ChildLineCache) (lineParent : Nat × Nat) (lineChildren : LineChildren)
    (tll : Nat) (opts : Potentials ChildLineOption) (hc : CacheMB O cache) :
    CacheMB O (childLinesOfOptions O solve cache lineParent lineChildren tll opts).2 ∧
    ∀ sols ∈ (childLinesOfOptions O solve cache lineParent lineChildren tll opts).1.toList, ChildListMB O sols := by
  unfold childLinesOfOptions
  have := andThenM_spec (CacheMB O)
    (fun (_ : ChildLineOption) sols => ChildListMB O sols) opts
    (fun (cache : ChildLineCache) option =>
      let childStartingWs : ChildWhitespace :=
        match option with
        | .continueAll => { whitespace := LineWhitespace.zero, deindent := 0 }
        | .breakAll ws | .continueThenBreak ws => ws
      let cacheKey : ChildLineInitialConditions :=
        { lastLineLength := tll, parentLine := lineParent.1, parentToken := lineParent.2,
          childLineOption := option }
      match cache.get? cacheKey with
      | some sol => (some sol, cache)
      | none =>
        match solveChildLines O solve option childStartingWs lineChildren.lineIndices.toList 0 cache tll [] with
        | (none, cache) => (none, cache)
        | (some childSolutions, cache) => (some childSolutions, cache.insert cacheKey childSolutions))
    ?_ cache hc
  · refine ⟨this.1, fun sols hs => ?_⟩
    obtain ⟨o, _, h1⟩ := this.2 sols hs
    exact h1
  · intro c o ho hcO
    dsimp only
    split
    · rename_i sol hg
      refine ⟨hcO, fun b hb => ?_⟩
      simp only [Option.some.injEq] at hb
      subst hb
      rw [Std.HashMap.get?_eq_getElem?] at hg
      exact hcO _ _ hg
    · split
      · rename_i c1 hs
        have := solveChildLines_mb O solve hT _ _ _ _ _ _ _ _ _ hcO (fun x hx => by simp at hx) hs
        exact ⟨this.1, fun b hb => by cases hb⟩
      · rename_i cs c1 hs
        have := solveChildLines_mb O solve hT _ _ _ _ _ _ _ _ _ hcO (fun x hx => by simp at hx) hs
        have hcs : ChildListMB O cs := this.2 _ rfl
        refine ⟨?_, fun b hb => ?_⟩
        · intro key sols hk
          rw [Std.HashMap.getElem?_insert] at hk
          split at hk
          · simp only [Option.some.injEq] at hk
            subst hk
            exact hcs
          · exact this.1 _ _ hk
        · simp only [Option.some.injEq] at hb
          subst hb
          exact hcs

theorem findOptimalChildLinesSolution_mb (O : Olf) (solve : Solver) (hT : SolverMB O solve)
    (cache : ChildLineCache) (line : Nat × LineA) (nli : Nat) (W : LineWhitespace) (decision : DecisionRef)
    (stack : SpecificContextStack) (node : FormattingNode) (tll pc : Nat) (hc : CacheMB O cache) :
    CacheMB O (O.findOptimalChildLinesSolution solve cache line nli W decision stack node tll pc).2 ∧
    ∀ sols ∈ (O.findOptimalChildLinesSolution solve cache line nli W decision stack node tll pc).1.toList,
      ChildListMB O sols := by
  rw [findOptimalChildLinesSolution_eq]
  have hnil : ∀ sols ∈ (Potentials.one ([] : List (Nat × FormattingSolution))).toList, ChildListMB O sols := by
    intro sols hs
    simp only [Potentials.toList, List.mem_singleton] at hs
    subst hs
    intro x hx; simp at hx
  split
  · exact ⟨hc, hnil⟩
  · split
    · exact ⟨hc, hnil⟩
    · exact childLinesOfOptions_mb O solve hT cache _ _ tll _ hc

/-! ### the nodes of the search -/

/-- a decision path, nearest decision first: each decision respects "must break" at its token index, and so do the
    child solutions -/
def PathMB (O : Olf) (line : LineA) : List TokenDecision → Prop
  | [] => True
  | d :: rest => (MBDec O line rest.length d.decision ∧ ChildListMB O d.childSolutions) ∧ PathMB O line rest

theorem PathMB.reverse {O : Olf} {line : LineA} : ∀ {l : List TokenDecision}, PathMB O line l →
    ∀ i d, l.reverse[i]? = some d → MBDec O line i d.decision ∧ ChildListMB O d.childSolutions
  | [], _, i, d, hd => by simp at hd
  | x :: rest, h, i, d, hd => by
    rw [List.reverse_cons, List.getElem?_append] at hd
    split at hd
    · exact PathMB.reverse h.2 i d hd
    · rename_i hi
      simp only [List.length_reverse] at hi hd
      have : i = rest.length := by
        rcases Nat.lt_or_ge (i - rest.length) 1 with h1 | h1
        · omega
        · rw [List.getElem?_eq_none (by simpa using h1)] at hd; cases hd
      subst this
      simp only [Nat.sub_self, List.getElem?_cons_zero, Option.some.injEq] at hd
      subst hd
      exact h.1

/-- the node invariant: the path has one decision per token passed, all respecting "must break" -/
def NodeMB (O : Olf) (line : LineA) (n : FormattingNode) : Prop :=
  n.decision.walkParentsData.length = n.nextLineIndex ∧ PathMB O line n.decision.walkParentsData

/-- the decision path and the position of a node -/
def FormattingNode.dn (n : FormattingNode) : DecisionRef × Nat := (n.decision, n.nextLineIndex)

theorem dn_modifyData (n : FormattingNode) (i : Nat) (f : FormattingContextState → FormattingContextState) :
    (n.modifyData i f).dn = n.dn := by
  cases n; rfl

theorem NodeMB.of_dn {O : Olf} {line : LineA} {a b : FormattingNode} (h : a.dn = b.dn) (hb : NodeMB O line b) :
    NodeMB O line a := by
  have h1 : a.decision = b.decision := congrArg Prod.fst h
  have h2 : a.nextLineIndex = b.nextLineIndex := congrArg Prod.snd h
  unfold NodeMB; rw [h1, h2]; exact hb

theorem NodeMB.intoSolution {O : Olf} {li : Nat} {n : FormattingNode} (h : NodeMB O (O.lines[li]!) n) :
    TreeMB O li n.intoSolution := by
  rw [treeMB_iff]
  intro i d hd
  exact h.2.reverse i d (by simpa [FormattingNode.intoSolution, FormattingSolution.decisions] using hd)

/-- a `Continue` may be offered at the node's position -/
def MayCont (O : Olf) (line : LineA) (n : FormattingNode) : Prop :=
  O.getFormattingInvariant n.nextLineIndex line ≠ some .mustBreak

/-- THE ONE-STEP LEMMA: `get_potential_solution` keeps the node invariant whenever the decision offered is a break or
    the invariant at the node's position is not "must break" -/
theorem getPotentialSolution_mb (E : SearchEnv) (hE : SolverMB E.O E.solveChild) (cache : ChildLineCache)
    (n : FormattingNode) (contexts : SpecificContextStack) (rd : RawDecision) (req : DR)
    (hc : CacheMB E.O cache) (hn : NodeMB E.O E.line.2 n) (ha : rd = .cont → MayCont E.O E.line.2 n) :
    CacheMB E.O (E.getPotentialSolution cache n contexts rd req).2 ∧
    ∀ x ∈ (E.getPotentialSolution cache n contexts rd req).1.toList, NodeMB E.O E.line.2 x := by
  unfold SearchEnv.getPotentialSolution
  extract_lets lineIndex n1 cc dec tll n2 gnn
  have h1 : n1.dn = n.dn := blind_updateContexts FormattingNode.dn dn_modifyData _ _ _ _
  have h2 : n2.dn = n.dn := h1
  have hn2 : NodeMB E.O E.line.2 n2 := NodeMB.of_dn h2 hn
  have hidx : n2.nextLineIndex = n.nextLineIndex := congrArg Prod.snd h2
  have hdec : MBDec E.O E.line.2 n2.nextLineIndex dec := by
    intro hi
    rw [hidx] at hi
    cases rd with
    | brk => rfl
    | cont => exact absurd hi (ha rfl)
  have hg : ∀ cs, ChildListMB E.O cs → NodeMB E.O E.line.2 (gnn n2 cs) := by
    intro cs hd
    have h3 : (updateContextsFromChildSolutions contexts n2 cs).dn = n2.dn :=
      blind_updateContextsFromChildSolutions FormattingNode.dn dn_modifyData _ _ _
    have h4 : (updateContextsFromChildSolutions contexts n2 cs).decision = n2.decision := congrArg Prod.fst h3
    have h5 : (updateContextsFromChildSolutions contexts n2 cs).nextLineIndex = n2.nextLineIndex := congrArg Prod.snd h3
    refine ⟨?_, ?_⟩
    · show ((updateContextsFromChildSolutions contexts n2 cs).decision.addSuccessor _).walkParentsData.length =
        (updateContextsFromChildSolutions contexts n2 cs).nextLineIndex + 1
      rw [h4, h5, ← hn2.1]
      simp [DecisionRef.addSuccessor, DecisionRef.walkParentsData]
    · show PathMB E.O E.line.2 ((updateContextsFromChildSolutions contexts n2 cs).decision.addSuccessor _).walkParentsData
      rw [h4]
      have hl : (n2.decision.value :: n2.decision.parents).length = n2.nextLineIndex := hn2.1
      refine ⟨⟨?_, hd⟩, hn2.2⟩
      show MBDec E.O E.line.2 (n2.decision.value :: n2.decision.parents).length dec
      rw [hl]
      exact hdec
  have hf := findOptimalChildLinesSolution_mb E.O E.solveChild hE cache E.line n2.nextLineIndex n2.startingWs
    n2.decision contexts n2 tll cc hc
  generalize E.O.findOptimalChildLinesSolution _ _ _ _ _ _ _ _ _ _ = r at hf ⊢
  obtain ⟨cls, c⟩ := r
  refine ⟨hf.1, ?_⟩
  cases cls with
  | none => intro x hx; simp [Potentials.toList] at hx
  | one a =>
    intro x hx; simp [Potentials.toList] at hx; subst hx
    exact hg a (hf.2 a (by simp [Potentials.toList]))
  | two a b =>
    intro x hx; simp [Potentials.toList] at hx
    rcases hx with rfl | rfl
    · exact hg a (hf.2 a (by simp [Potentials.toList]))
    · exact hg b (hf.2 b (by simp [Potentials.toList]))

/-- where `get_formatting_requirement` answers `MustNotBreak` or `Indifferent`, the invariant is not "must break" -/
theorem getFormattingRequirement_mayCont (O : Olf) (i : Nat) (line : LineA) (stack : SpecificContextStack)
    (node : FormattingNode) (h : O.getFormattingRequirement i line stack node = .mustNotBreak ∨
      O.getFormattingRequirement i line stack node = .indifferent) :
    O.getFormattingInvariant i line ≠ some .mustBreak := by
  intro hinv
  unfold Olf.getFormattingRequirement at h
  split at h
  · rcases h with h | h <;> cases h
  · simp only [hinv] at h
    generalize parentsSupportBreak stack node = ps at h
    cases ps <;> rcases h with h | h <;> cases h

/-! ### the loops -/

/-- the inner loop of `get_successors` -/
theorem indiffLoop_mb (E : SearchEnv) (hE : SolverMB E.O E.solveChild) :
    ∀ (fuel : Nat) (cache : ChildLineCache) (bp : Array Nat) (node : FormattingNode)
      (indiff : Option (FormattingNode × SpecificContextStack)),
      CacheMB E.O cache → NodeMB E.O E.line.2 node →
      (∀ p, indiff = some p → NodeMB E.O E.line.2 p.1 ∧ MayCont E.O E.line.2 p.1) →
      (E.indiffLoop fuel cache bp node indiff).1.All (NodeMB E.O E.line.2) ∧
      CacheMB E.O (E.indiffLoop fuel cache bp node indiff).2.1 := by
  intro fuel
  induction fuel with
  | zero => intro cache bp node indiff hc hn hi; exact ⟨trivial, hc⟩
  | succ f ih =>
    intro cache bp node indiff hc hn hi
    have hpair : ∀ (c : ChildLineCache) (n : FormattingNode) (st : SpecificContextStack) (req : DR)
        (pre : List FormattingNode), CacheMB E.O c → NodeMB E.O E.line.2 n → MayCont E.O E.line.2 n →
        (∀ x ∈ pre, NodeMB E.O E.line.2 x) →
        (∀ x ∈ pre ++ (E.getPotentialSolution c n st .brk req).1.toList ++
          (E.getPotentialSolution (E.getPotentialSolution c n st .brk req).2 n st .cont req).1.toList,
            NodeMB E.O E.line.2 x) ∧
        CacheMB E.O (E.getPotentialSolution (E.getPotentialSolution c n st .brk req).2 n st .cont req).2 := by
      intro c n st req pre hcc hnn hmc hpre
      obtain ⟨a1, a2⟩ := getPotentialSolution_mb E hE c n st .brk req hcc hnn (fun h => by cases h)
      obtain ⟨b1, b2⟩ := getPotentialSolution_mb E hE _ n st .cont req a1 hnn (fun _ => hmc)
      refine ⟨fun x hx => ?_, b1⟩
      simp only [List.mem_append] at hx
      rcases hx with (hx | hx) | hx
      · exact hpre x hx
      · exact a2 x hx
      · exact b2 x hx
    unfold SearchEnv.indiffLoop
    extract_lets lineIndex contexts ltl lcl lll tooLong requirement getSolutions continueWith indifferenceLine
    have hreq : requirement = E.O.getFormattingRequirement node.nextLineIndex E.line.2 contexts node := rfl
    have hcw : ∀ c il l, CacheMB E.O c → (∀ p, il = some p → NodeMB E.O E.line.2 p.1 ∧ MayCont E.O E.line.2 p.1) →
        (∀ x ∈ l, NodeMB E.O E.line.2 x) →
        (continueWith c il l).1.All (NodeMB E.O E.line.2) ∧ CacheMB E.O (continueWith c il l).2.1 := by
      intro c il l hcc hil hl
      simp only [continueWith]
      split
      · exact ih _ _ _ _ hcc (hl _ (by simp)) hil
      · split
        · rename_i indiff' stack
          have hk := hil _ rfl
          exact hpair c indiff' stack requirement l hcc hk.1 hk.2 hl
        · exact ⟨hl, hcc⟩
    clear_value tooLong requirement lineIndex contexts
    split
    · rename_i indiff' stack hif
      have hk : NodeMB E.O E.line.2 indiff' ∧ MayCont E.O E.line.2 indiff' := by
        split at hif
        · exact hi _ hif
        · cases hif
      extract_lets stack'
      have := hpair cache indiff' stack' .indifferent [] hc hk.1 hk.2 (by simp)
      simpa [IndiffOutcome.All] using this
    · split
      · exact ⟨hn, hc⟩
      · split
        · -- invalid
          split
          · rename_i indiff' stack _
            have hk := hi _ rfl
            have := hpair cache indiff' stack .invalid [] hc hk.1 hk.2 (by simp)
            simpa [getSolutions, IndiffOutcome.All] using this
          · exact ⟨trivial, hc⟩
        · -- mustBreak
          obtain ⟨a1, a2⟩ := getPotentialSolution_mb E hE cache node contexts .brk .mustBreak hc hn (fun h => by cases h)
          have hfold : ∀ (l : List FormattingNode) (acc : List FormattingNode × Array Nat),
              (∀ x ∈ l, NodeMB E.O E.line.2 x) →
              (∀ x ∈ acc.1, NodeMB E.O E.line.2 x) → ∀ x ∈ (l.foldl (fun (acc : List FormattingNode × Array Nat) (node : FormattingNode) =>
                if node.penalty < acc.2[lineIndex]! then (acc.1 ++ [node], acc.2.set! lineIndex node.penalty)
                else acc) acc).1, NodeMB E.O E.line.2 x := by
            intro l
            induction l with
            | nil => intro acc _ ha; exact ha
            | cons y r ihl =>
              intro acc hl ha
              rw [List.foldl_cons]
              apply ihl _ (fun x hx => hl x (by simp [hx]))
              split
              · intro x hx
                simp only [List.mem_append, List.mem_singleton] at hx
                rcases hx with hx | rfl
                · exact ha x hx
                · exact hl _ (by simp)
              · exact ha
          have := hfold (getSolutions cache RawDecision.brk node contexts).1.toList ([], bp) a2 (by simp)
          exact ⟨this, a1⟩
        · have hmc : MayCont E.O E.line.2 node :=
            getFormattingRequirement_mayCont _ _ _ contexts node (Or.inl hreq.symm)
          obtain ⟨a1, a2⟩ := getPotentialSolution_mb E hE cache node contexts .cont .mustNotBreak hc hn (fun _ => hmc)
          exact hcw _ _ _ a1 hi a2
        · have hmc : MayCont E.O E.line.2 node :=
            getFormattingRequirement_mayCont _ _ _ contexts node (Or.inr hreq.symm)
          obtain ⟨a1, a2⟩ := getPotentialSolution_mb E hE cache node contexts .cont .indifferent hc hn (fun _ => hmc)
          refine hcw _ _ _ a1 ?_ a2
          intro p hp
          simp only [indifferenceLine] at hp
          split at hp
          · cases hp; exact ⟨hn, hmc⟩
          · exact hi _ hp

/-- `get_successors` / the push onto the heap -/
theorem successorLoop_mb (E : SearchEnv) (hE : SolverMB E.O E.solveChild) :
    ∀ (fuel : Nat) (heap : NodeHeap) (cache : ChildLineCache) (bp : Array Nat) (node : FormattingNode),
      HAll (NodeMB E.O E.line.2) heap → CacheMB E.O cache → NodeMB E.O E.line.2 node →
      HAll (NodeMB E.O E.line.2) (E.successorLoop fuel heap cache bp node).1 ∧
      CacheMB E.O (E.successorLoop fuel heap cache bp node).2.1 := by
  intro fuel
  induction fuel with
  | zero => intro heap cache bp node H hc hn; exact ⟨H, hc⟩
  | succ f ih =>
    intro heap cache bp node H hc hn
    unfold SearchEnv.successorLoop
    have hi := indiffLoop_mb E hE (E.line.2.tokens.size + 2) cache bp node none hc hn (by simp)
    split
    · rename_i n' c' bp' heq
      rw [heq] at hi
      exact ⟨heapPush_all _ _ H hi.1, hi.2⟩
    · rename_i c' bp' heq
      rw [heq] at hi
      exact ⟨H, hi.2⟩
    · rename_i single c' bp' heq
      rw [heq] at hi
      exact ih _ _ _ _ H hi.2 (hi.1 single (by simp))
    · rename_i l c' bp' _ heq
      rw [heq] at hi
      exact ⟨heapExtend_all _ _ H hi.1, hi.2⟩

/-- the main loop of the search -/
theorem nodeHeapLoop_mb (E : SearchEnv) (hE : SolverMB E.O E.solveChild) :
    ∀ (fuel : Nat) (heap : NodeHeap) (cache : ChildLineCache) (bp : Array Nat) (it : Nat),
      HAll (NodeMB E.O E.line.2) heap → CacheMB E.O cache →
      CacheMB E.O (E.nodeHeapLoop fuel heap cache bp it).2 ∧
      ∀ sol, (E.nodeHeapLoop fuel heap cache bp it).1 = .ok sol →
        ∃ node : FormattingNode, NodeMB E.O E.line.2 node ∧ sol = node.intoSolution := by
  intro fuel
  induction fuel with
  | zero => intro heap cache bp it H hc; exact ⟨hc, fun sol h => by simp [SearchEnv.nodeHeapLoop] at h⟩
  | succ f ih =>
    intro heap cache bp it H hc
    unfold SearchEnv.nodeHeapLoop
    split
    · exact ⟨hc, fun sol h => by simp at h⟩
    · rename_i node heap' hp
      obtain ⟨hn, H'⟩ := heapPop_all heap H node heap' hp
      split
      · exact ⟨hc, fun sol h => by simp at h⟩
      · simp only []
        split
        · refine ⟨hc, fun sol h => ?_⟩
          simp only [Except.ok.injEq] at h
          exact ⟨node, hn, h.symm⟩
        · split
          · exact ih _ _ _ _ H' hc
          · have := successorLoop_mb E hE (E.line.2.tokens.size + 2) heap' cache bp node H' hc hn
            exact ih _ _ _ _ this.1 this.2

theorem dn_ite {c : Prop} [Decidable c] {a b : FormattingNode} {k : DecisionRef × Nat}
    (ha : a.dn = k) (hb : b.dn = k) : (if c then a else b).dn = k := by
  split <;> assumption

/-- one level of `find_optimal_solution` -/
theorem findOptimalSolutionWith_mb (O : Olf) (solve : Solver) (hT : SolverMB O solve)
    (cache : ChildLineCache) (ws : LineWhitespace) (lineIdx : Nat) (fd : FirstDecision) (hc : CacheMB O cache) :
    CacheMB O (O.findOptimalSolutionWith solve cache ws lineIdx fd).2 ∧
    ∀ sol, (O.findOptimalSolutionWith solve cache ws lineIdx fd).1 = .ok sol → TreeMB O lineIdx sol := by
  unfold Olf.findOptimalSolutionWith
  extract_lets lineA line fc E bp inv ics
  split
  · refine ⟨hc, fun sol h => ?_⟩
    simp only [Except.ok.injEq] at h
    subst h
    rw [treeMB_iff]
    intro i d hd
    simp [FormattingSolution.decisions] at hd
  · rename_i t0 ht0
    extract_lets tl sb cl
    split
    rename_i newLine req lll bcb hq
    split
    · exact ⟨hc, fun sol h => by simp at h⟩
    · rename_i hnot
      extract_lets root node0 node src1 src2 withChildren
      have hroot : MBDec O lineA 0 newLine := by
        intro h0
        have h0' : (inv == some .mustBreak) = true := by simp only [inv]; rw [h0]; rfl
        cases hnl : newLine.toRaw with
        | brk => rfl
        | cont =>
          exfalso
          apply hnot
          rw [h0', hnl]
          simp
      have hnode : node.dn = (root, 1) := by
        simp only [node]
        apply dn_ite
        · rw [dn_modifyData]; rfl
        · rfl
      have hidx : node.nextLineIndex = 1 := congrArg Prod.snd hnode
      have hdec : node.decision = root := congrArg Prod.fst hnode
      have hf := findOptimalChildLinesSolution_mb O solve hT cache line 0 node.startingWs root ics node lll 0 hc
      generalize O.findOptimalChildLinesSolution _ _ _ _ _ _ _ _ _ _ = r at hf ⊢
      obtain ⟨childSols, cache1⟩ := r
      have hwc : ∀ cs ∈ childSols.toList, NodeMB O lineA (withChildren cs) := by
        intro cs hcs
        refine ⟨?_, ?_⟩
        · simp only [withChildren, src1, src2, hdec, hidx, DecisionRef.walkParentsData]
          simp [root]
        · simp only [withChildren, src1, src2, hdec, DecisionRef.walkParentsData]
          simp only [root, PathMB, List.length_nil, and_true]
          exact ⟨hroot, hf.2 cs hcs⟩
      clear_value withChildren node
      have fin : ∀ initial : List FormattingNode, (∀ x ∈ initial, NodeMB O lineA x) →
          CacheMB O (E.nodeHeapLoop (O.iterationMax + 3) (heapExtend #[] initial) cache1 bp 0).2 ∧
          ∀ sol, (E.nodeHeapLoop (O.iterationMax + 3) (heapExtend #[] initial) cache1 bp 0).1 = .ok sol →
            TreeMB O lineIdx sol := by
        intro initial hinit
        have hheap : HAll (NodeMB O lineA) (heapExtend #[] initial) :=
          heapExtend_all #[] initial (fun i hi => absurd hi (Nat.not_lt_zero i)) hinit
        have := nodeHeapLoop_mb E hT (O.iterationMax + 3) _ cache1 bp 0 hheap hf.1
        refine ⟨this.1, fun sol h => ?_⟩
        obtain ⟨nd, h1, rfl⟩ := this.2 sol h
        exact NodeMB.intoSolution h1
      cases childSols with
      | none => exact fin [] (by simp)
      | one a =>
        refine fin [withChildren a] ?_
        intro x hx; simp only [List.mem_singleton] at hx; subst hx; exact hwc _ (by simp [Potentials.toList])
      | two a b =>
        refine fin [withChildren b, withChildren b] ?_
        intro x hx; simp only [List.mem_cons, List.not_mem_nil, or_false, or_self] at hx; subst hx
        exact hwc _ (by simp [Potentials.toList])

/-- `find_optimal_solution`, at every depth of the recursion over child lines -/
theorem findOptimalSolution_mb (O : Olf) : ∀ fuel : Nat, SolverMB O (O.findOptimalSolution fuel)
  | 0 => fun cache ws li fd hc => ⟨hc, fun sol h => by simp [Olf.findOptimalSolution] at h⟩
  | fuel + 1 => fun cache ws li fd hc => by
    unfold Olf.findOptimalSolution
    exact findOptimalSolutionWith_mb O _ (findOptimalSolution_mb O fuel) cache ws li fd hc

/-- `format_line` -/
theorem format_line_mb (O : Olf) (cache : ChildLineCache) (lineIdx : Nat) (hc : CacheMB O cache) :
    CacheMB O (O.formatLine cache lineIdx).2 ∧ ∀ sol, (O.formatLine cache lineIdx).1 = some sol → TreeMB O lineIdx sol := by
  unfold Olf.formatLine
  split
  · exact ⟨hc, fun sol h => by simp at h⟩
  · rename_i line hl
    split
    · exact ⟨hc, fun sol h => by simp at h⟩
    · extract_lets fd
      have := findOptimalSolution_mb O (O.lines.size + 1) cache { indentations := line.level, continuations := 0 } lineIdx fd hc
      split
      · rename_i s c hs
        rw [hs] at this
        refine ⟨this.1, fun sol h => ?_⟩
        simp only [Option.some.injEq] at h
        subst h
        exact this.2 _ rfl
      · rename_i e c hs
        rw [hs] at this
        exact ⟨this.1, fun sol h => by simp at h⟩

theorem cacheMB_empty (O : Olf) : CacheMB O {} := by
  intro key sols h
  simp at h

/-! ### the wrapper stage -/

/-- token `j` follows a line comment that shares its line with code, and its own spacing rule can keep the input's
    spaces (`freeAtB`, in terms of the formatter state) -/
def FreeO (O : Olf) (j : Nat) : Prop :=
  j ≥ 1 ∧ O.getTokenType (j - 1) = some (.tComment .cInlineLine) ∧ ∃ k, O.getTokenType j = some k ∧ keepsCur k = true

/-- at a free token - wherever it stands in its line - the invariant is "must break" -/
theorem invariant_of_free (O : Olf) (line : LineA) (i j : Nat) (hf : FreeO O j) (hi : line.tokens[i]? = some j) :
    O.getFormattingInvariant i line = some .mustBreak := by
  obtain ⟨h0, h1, k, hk, hkc⟩ := hf
  unfold Olf.getFormattingInvariant Olf.getPrevTokenTypeForLineIndex Olf.getTokenTypeForLineIndex
  have hj0 : (j == 0) = false := by
    cases j with
    | zero => omega
    | succ n => rfl
  simp only [hi, hj0, h1, hk, Bool.false_eq_true, if_false]
  cases k <;> first
    | (simp [keepsCur] at hkc; done)
    | (simp; done)
    | (rename_i x; cases x <;> simp; done)

theorem TreeMB.congr {O O' : Olf} (h : SameView O O') {li : Nat} {sol : FormattingSolution} (hs : TreeMB O li sol) :
    TreeMB O' li sol := by
  induction hs with
  | mk li ws decs pen len h1 hrec ih =>
    refine TreeMB.mk li ws decs pen len (fun i d hd => ?_) ih
    have := h1 i d hd
    unfold MBDec at this ⊢
    rw [h.1, getFormattingInvariant_congr h]
    exact this

theorem CacheMB.congr {O O' : Olf} (h : SameView O O') {cache : ChildLineCache} (hc : CacheMB O cache) :
    CacheMB O' cache :=
  fun key sols hk x hx => (hc key sols hk x hx).congr h

/-- the applied form of a solution: a free token never gets a `Continue`, at any depth -/
inductive SolBrk (lines : List Line) (F : Nat → Prop) : Nat → Sol → Prop
  | mk (li ind cont : Nat) (decs : List (Dec × List (Nat × Sol)))
      (h : ∀ l : Line, lines[li]? = some l → ∀ (i : Nat) (p : Dec × List (Nat × Sol)) (tok : Nat), decs[i]? = some p → l.tokens[i]? = some tok → F tok → p.1 ≠ .cont)
      (hrec : ∀ p ∈ decs, ∀ x ∈ p.2, SolBrk lines F x.1 x.2) :
      SolBrk lines F li (.mk ind cont decs)

theorem TreeMB.toSolBrk {O : Olf} {lines : List Line} (hl : O.lines = (lines.map Line.toA).toArray) :
    ∀ (fuel li : Nat) (sol : FormattingSolution), TreeMB O li sol → SolBrk lines (FreeO O) li (sol.toSol fuel)
  | 0, li, .mk ws decs pen len, _ => by
    simp only [FormattingSolution.toSol]
    exact SolBrk.mk _ _ _ _ (fun l _ i p tok hp => by simp at hp) (fun p hp => by simp at hp)
  | fuel + 1, li, .mk ws decs pen len, h => by
    cases h with
    | mk _ _ _ _ _ h1 hrec =>
      simp only [FormattingSolution.toSol]
      refine SolBrk.mk _ _ _ _ ?_ ?_
      · intro l hl' i p tok hp htok hF
        rw [List.getElem?_map] at hp
        cases hd : decs[i]? with
        | none => rw [hd] at hp; cases hp
        | some d =>
          rw [hd] at hp
          simp only [Option.map_some, Option.some.injEq] at hp
          subst hp
          have hline : O.lines[li]? = some l.toA := by
            rw [hl]; simp [List.getElem?_map, hl']
          have htok' : (O.lines[li]!).tokens[i]? = some tok := by
            rw [getElem!_of_getElem? _ _ _ hline]
            simpa [Line.toA] using htok
          have := h1 i d hd (invariant_of_free O _ i tok hF htok')
          show d.decision ≠ .cont
          intro hc; rw [hc] at this; cases this
      · intro p hp x hx
        obtain ⟨d, hd, rfl⟩ := List.mem_map.mp hp
        obtain ⟨y, hy, rfl⟩ := List.mem_map.mp hx
        exact TreeMB.toSolBrk hl fuel y.1 y.2 (hrec d hd y hy)

/-- token `j` exists and starts a line -/
def nlpos (ft : FT) (j : Nat) : Prop := ∃ f, fmtAt ft j = some f ∧ f.nl > 0

theorem setFmt_brk (ft ft1 : FT) (tok : Nat) (b : Bool) (ind cont : Nat) (d : Dec)
    (h : setFmt ft tok (fun f => applyDec f b ind cont d) = some ft1) (j : Nat) (hd : tok = j → d ≠ .cont)
    (hj : nlpos ft j ∨ j = tok) : nlpos ft1 j := by
  obtain ⟨⟨t, h1, h2⟩, h3⟩ := setFmt_spec ft ft1 tok _ h
  by_cases hjt : j = tok
  · subst hjt
    refine ⟨_, by unfold fmtAt; rw [h2]; rfl, ?_⟩
    cases d with
    | cont => exact absurd rfl (hd rfl)
    | brk c =>
      simp only [applyDec]
      split <;> omega
  · rcases hj with hj | hj
    · unfold nlpos fmtAt at hj ⊢
      rw [h3 j hjt]; exact hj
    · exact absurd hj hjt

mutual
theorem applySol_brk (lines : List Line) (F : Nat → Prop) (ft ft1 : FT) (s : Sol) (li : Nat)
    (hs : SolBrk lines F li s) (h : applySol lines ft s li = some ft1) (j : Nat) (hF : F j)
    (hj : nlpos ft j ∨ j ∈ solTokens lines s li) : nlpos ft1 j := by
  cases s with
  | mk ind cont decs =>
    unfold applySol at h
    split at h
    · simp at h
    · rename_i l hl
      cases hs with
      | mk _ _ _ _ h1 hrec =>
        refine applyDecs_brk lines F ind cont l.tokens 0 ft ft1 decs ?_ hrec h j hF ?_
        · intro k p tok hp htok
          exact h1 l hl k p tok hp (by simpa using htok)
        · rcases hj with hj | hj
          · exact Or.inl hj
          · right
            unfold solTokens at hj
            rw [hl] at hj
            exact hj

theorem applyDecs_brk (lines : List Line) (F : Nat → Prop) (ind cont : Nat) (toks : List Nat) (i : Nat) (ft ft1 : FT)
    (decs : List (Dec × List (Nat × Sol)))
    (h1 : ∀ k p tok, decs[k]? = some p → toks[i + k]? = some tok → F tok → p.1 ≠ .cont)
    (hrec : ∀ p ∈ decs, ∀ x ∈ p.2, SolBrk lines F x.1 x.2)
    (h : applyDecs lines ind cont toks i ft decs = some ft1) (j : Nat) (hF : F j)
    (hj : nlpos ft j ∨ j ∈ decsTokens lines toks i decs) : nlpos ft1 j := by
  cases decs with
  | nil =>
    unfold applyDecs at h
    simp at h; subst h
    rcases hj with hj | hj
    · exact hj
    · simp [decsTokens] at hj
  | cons dk rest =>
    obtain ⟨d, children⟩ := dk
    unfold applyDecs at h
    split at h
    · simp at h
    · rename_i tok htok
      split at h
      · simp at h
      · rename_i fta ha
        split at h
        · simp at h
        · rename_i ftb hb
          have hd : F tok → d ≠ .cont := h1 0 (d, children) tok (by simp) (by simpa using htok)
          have hj' : nlpos ft j ∨ j = tok ∨ j ∈ childrenTokens lines children ∨
              j ∈ decsTokens lines toks (i + 1) rest := by
            rcases hj with hj | hj
            · exact Or.inl hj
            · right
              unfold decsTokens at hj
              rw [htok] at hj
              simpa [List.mem_append, or_assoc] using hj
          have hb' : nlpos ftb j ∨ j ∈ decsTokens lines toks (i + 1) rest := by
            rcases hj' with a | a | a | a
            · exact Or.inl (applyChildren_brk lines F fta ftb children (hrec (d, children) (by simp)) hb j hF
                (Or.inl (setFmt_brk ft fta tok _ ind cont d ha j (fun e => hd (e ▸ hF)) (Or.inl a))))
            · exact Or.inl (applyChildren_brk lines F fta ftb children (hrec (d, children) (by simp)) hb j hF
                (Or.inl (setFmt_brk ft fta tok _ ind cont d ha j (fun e => hd (e ▸ hF)) (Or.inr a))))
            · exact Or.inl (applyChildren_brk lines F fta ftb children (hrec (d, children) (by simp)) hb j hF (Or.inr a))
            · exact Or.inr a
          refine applyDecs_brk lines F ind cont toks (i + 1) ftb ft1 rest ?_ (fun p hp => hrec p (by simp [hp])) h j hF hb'
          intro k p tok' hp ht
          refine h1 (k + 1) p tok' (by simpa using hp) ?_
          have : i + (k + 1) = i + 1 + k := by omega
          rw [this]; exact ht

theorem applyChildren_brk (lines : List Line) (F : Nat → Prop) (ft ft1 : FT) (ks : List (Nat × Sol))
    (hrec : ∀ x ∈ ks, SolBrk lines F x.1 x.2)
    (h : applyChildren lines ft ks = some ft1) (j : Nat) (hF : F j)
    (hj : nlpos ft j ∨ j ∈ childrenTokens lines ks) : nlpos ft1 j := by
  cases ks with
  | nil =>
    unfold applyChildren at h
    simp at h; subst h
    rcases hj with hj | hj
    · exact hj
    · simp [childrenTokens] at hj
  | cons k rest =>
    obtain ⟨li, s⟩ := k
    unfold applyChildren at h
    split at h
    · simp at h
    · rename_i fta ha
      have hj' : nlpos fta j ∨ j ∈ childrenTokens lines rest := by
        rcases hj with hj | hj
        · exact Or.inl (applySol_brk lines F ft fta s li (hrec (li, s) (by simp)) ha j hF (Or.inl hj))
        · unfold childrenTokens at hj
          rw [List.mem_append] at hj
          rcases hj with hj | hj
          · exact Or.inl (applySol_brk lines F ft fta s li (hrec (li, s) (by simp)) ha j hF (Or.inr hj))
          · exact Or.inr hj
      exact applyChildren_brk lines F fta ft1 rest (fun x hx => hrec x (by simp [hx])) h j hF hj'
end

/-- token `j` is written by one of the solutions -/
def WrittenBy (lines : List Line) (sols : List (Nat × Nat × Sol)) (j : Nat) : Prop :=
  ∃ x ∈ sols, j ∈ solTokens lines x.2.2 x.2.1

/-- the loop of the wrapper stage over the lines to wrap: every solution applied is break-respecting (`SolBrk`);
    a free token that starts a line keeps starting a line; a free token written by a solution applied in this loop
    starts a line afterwards -/
theorem applyLinesS_mb (phase : Nat) (lines : List Line) (O0 : Olf) (hl0 : O0.lines = (lines.map Line.toA).toArray)
    (is : List Nat) (st st1 : SearchState)
    (ft ft1 : FT) (acc sols : List (Nat × Nat × Sol))
    (h : applyLinesS phase lines is st ft acc = some (ft1, st1, sols))
    (hv : SameView O0 (stageOlf st ft)) (hc : CacheMB O0 st.childLineCache)
    (hacc : ∀ x ∈ acc, SolBrk lines (FreeO O0) x.2.1 x.2.2) :
    SameView O0 (stageOlf st1 ft1) ∧ CacheMB O0 st1.childLineCache ∧
    (∀ x ∈ sols, SolBrk lines (FreeO O0) x.2.1 x.2.2) ∧
    ∀ j, FreeO O0 j → (nlpos ft j → nlpos ft1 j) ∧
      (WrittenBy lines sols j → WrittenBy lines acc j ∨ nlpos ft1 j) := by
  induction is generalizing st ft acc with
  | nil =>
    simp [applyLinesS] at h; obtain ⟨rfl, rfl, rfl⟩ := h
    exact ⟨hv, hc, hacc, fun j _ => ⟨id, Or.inl⟩⟩
  | cons i rest ih =>
    unfold applyLinesS at h
    have hfl := format_line_mb (stageOlf st ft) st.childLineCache i (hc.congr hv)
    rw [searchSolve_eq] at h
    split at h
    · rename_i st' hs
      simp only [Prod.mk.injEq] at hs
      obtain ⟨_, rfl⟩ := hs
      exact ih _ _ _ h hv (hfl.1.congr hv.symm) hacc
    · rename_i s st' hs
      simp only [Prod.mk.injEq] at hs
      obtain ⟨hs1, rfl⟩ := hs
      split at h
      · simp at h
      · rename_i ft' ha
        have hv' : SameView O0 (stageOlf { st with childLineCache := ((stageOlf st ft).formatLine st.childLineCache i).2 } ft') :=
          hv.trans (stageOlf_sameView _ _ _ _ rfl (fun j => applySol_kindAt lines ft ft' s i ha j))
        have hsb : SolBrk lines (FreeO O0) i s := by
          cases hsol : ((stageOlf st ft).formatLine st.childLineCache i).1 with
          | none => rw [hsol] at hs1; simp at hs1
          | some sol =>
            rw [hsol] at hs1
            simp only [Option.map_some, Option.some.injEq] at hs1
            rw [← hs1]
            exact TreeMB.toSolBrk hl0 _ i sol ((hfl.2 sol hsol).congr hv.symm)
        obtain ⟨r1, r2, r3, r4⟩ := ih _ _ _ h hv' (hfl.1.congr hv.symm) (by
          intro x hx
          simp only [List.mem_append, List.mem_singleton] at hx
          rcases hx with hx | rfl
          · exact hacc x hx
          · exact hsb)
        refine ⟨r1, r2, r3, fun j hF => ?_⟩
        obtain ⟨q1, q2⟩ := r4 j hF
        refine ⟨fun hn => q1 (applySol_brk lines _ ft ft' s i hsb ha j hF (Or.inl hn)), fun hw => ?_⟩
        rcases q2 hw with ⟨x, hx, hxj⟩ | hn
        · simp only [List.mem_append, List.mem_singleton] at hx
          rcases hx with hx | rfl
          · exact Or.inl ⟨x, hx, hxj⟩
          · exact Or.inr (q1 (applySol_brk lines _ ft ft' s i hsb ha j hF (Or.inr hxj)))
        · exact Or.inr hn

theorem nlpos_of_fmtAt {ft ft1 : FT} {j : Nat} (h : fmtAt ft1 j = fmtAt ft j) (hn : nlpos ft j) : nlpos ft1 j := by
  unfold nlpos at hn ⊢
  rw [h]; exact hn

theorem zeroLineStartSpaces_nlpos {ft : FT} {j : Nat} (hn : nlpos ft j) : nlpos (zeroLineStartSpaces ft) j := by
  obtain ⟨f, hf, hpos⟩ := hn
  unfold fmtAt at hf
  cases ht : ft[j]? with
  | none => rw [ht] at hf; cases hf
  | some t =>
    rw [ht] at hf
    simp only [Option.map_some, Option.some.injEq] at hf
    subst hf
    unfold nlpos fmtAt zeroLineStartSpaces
    rw [List.getElem?_map, ht]
    simp only [Option.map_some, hpos, if_true]
    exact ⟨_, rfl, hpos⟩

/-- the free tokens, in terms of the token state the stage starts with -/
def FreeK (ft : FT) (j : Nat) : Prop :=
  j ≥ 1 ∧ kindAt ft (j - 1) = some (.tComment .cInlineLine) ∧ ∃ k, kindAt ft j = some k ∧ keepsCur k = true

/-- THE WRAPPER STAGE, SEARCH INCLUDED: every token that follows a line comment sharing its line with code (and can
    keep its spacing) and is written by a solution the stage applies - first wrapping or re-wrapping, at any depth of
    child lines, at any position of its line - starts a line in the final state -/
theorem wrapStageFull_free_broken (cfg : Config) (lines : List Line) (ft ftz : FT) (sols : List (Nat × Nat × Sol))
    (h : wrapStageFull cfg lines ft = some (ftz, sols)) (j : Nat) (hF : FreeK ft j) (hw : WrittenBy lines sols j) :
    nlpos ftz j := by
  have hF' : FreeO (stageOlf (searchInit cfg lines ft) ft) j := by
    unfold FreeO
    simp only [stageOlf_getTokenType]
    exact hF
  unfold wrapStageFull at h
  simp only [] at h
  split at h
  · simp at h
  · rename_i ft1 st1 sols1 h1
    obtain ⟨a1, b1, c1, d1⟩ := applyLinesS_mb 0 lines (stageOlf (searchInit cfg lines ft) ft) rfl _ _ _ _ _ _ _ h1
      (SameView.refl _) (cacheMB_empty _) (by simp)
    have hw1 : WrittenBy lines sols1 j → nlpos ft1 j := by
      intro hw1
      rcases (d1 j hF').2 hw1 with ⟨x, hx, _⟩ | hn
      · simp at hx
      · exact hn
    split at h
    · simp only [Option.some.injEq, Prod.mk.injEq] at h
      obtain ⟨rfl, rfl⟩ := h
      exact zeroLineStartSpaces_nlpos (hw1 hw)
    · split at h
      · simp at h
      · rename_i ft2 toReflow h2
        split at h
        · simp at h
        · rename_i ft3 st3 sols2 h3
          split at h
          · simp at h
          · rename_i ft4 h4
            simp only [Option.some.injEq, Prod.mk.injEq] at h
            obtain ⟨rfl, rfl⟩ := h
            have hv2 : SameView (stageOlf (searchInit cfg lines ft) ft) (stageOlf st1 ft2) :=
              a1.trans (stageOlf_sameView _ _ _ _ rfl (fun j => (mlsPass1_at _ _ _ _ _ _ _ h2 j).1))
            obtain ⟨_, _, _, d3⟩ := applyLinesS_mb 1 lines _ rfl _ _ _ _ _ _ _ h3 hv2 b1 c1
            have h12 : nlpos ft1 j → nlpos ft2 j := nlpos_of_fmtAt (mlsPass1_at _ _ _ _ _ _ _ h2 j).2
            have h3n : nlpos ft3 j := by
              rcases (d3 j hF').2 hw with hw' | hn
              · exact (d3 j hF').1 (h12 (hw1 hw'))
              · exact hn
            exact zeroLineStartSpaces_nlpos (nlpos_of_fmtAt (mlsPass2_at _ _ _ _ h4 j).2 h3n)

/-! ### the checked premise `freeBrokenB`, proved -/

theorem freeK_of_freeAtB {ft : FT} {j : Nat} (h : freeAtB ft j = true) : FreeK ft j ∧ j < ft.length := by
  unfold freeAtB at h
  simp only [Bool.and_eq_true, decide_eq_true_eq, beq_iff_eq] at h
  obtain ⟨⟨h0, h1⟩, h2⟩ := h
  cases ht : ft[j]? with
  | none => rw [ht] at h2; cases h2
  | some t =>
    rw [ht] at h2
    refine ⟨⟨h0, h1, t.tok.kind, by unfold kindAt; rw [ht]; rfl, h2⟩, ?_⟩
    rcases Nat.lt_or_ge j ft.length with hlt | hge
    · exact hlt
    · rw [List.getElem?_eq_none hge] at ht; cases ht

/-- `freeBrokenB` follows from `allWritten` and `freeBeforeBrokenB`: a free token the search writes starts a line
    because the search must break there; only the free tokens the search never writes (verbatim, or the end-of-file
    token written by the end-of-file rule) are still looked at in the result -/
theorem freeBrokenB_of_stage' (cfg : Config) (lines : List Line) (ft ftz : FT) (sols : List (Nat × Nat × Sol))
    (h : wrapStageFull cfg lines ft = some (ftz, sols))
    (hall : allWritten lines (writtenBefore lines ft) ft.length sols = true)
    (hnb : freeBeforeBrokenB lines ft ftz = true) : freeBrokenB ft ftz = true := by
  unfold freeBrokenB
  rw [List.all_eq_true]
  intro p hp
  obtain ⟨t, j⟩ := p
  have ht : ftz[j]? = some t := List.mem_zipIdx_iff_getElem?.1 hp
  cases hfa : freeAtB ft j with
  | false => rfl
  | true =>
    simp only [Bool.not_true, Bool.false_or, decide_eq_true_eq]
    obtain ⟨hF, hlt⟩ := freeK_of_freeAtB hfa
    cases hwb : writtenBefore lines ft j with
    | true =>
      unfold freeBeforeBrokenB at hnb
      rw [List.all_eq_true] at hnb
      have h2 := hnb (t, j) hp
      simp only [hfa, hwb, Bool.and_self, Bool.not_true, Bool.false_or, decide_eq_true_eq] at h2
      exact h2
    | false =>
      unfold allWritten at hall
      rw [List.all_eq_true] at hall
      have h1 := hall j (List.mem_range.2 hlt)
      rw [hwb] at h1
      simp only [Bool.false_or, List.any_eq_true, Bool.and_eq_true] at h1
      obtain ⟨x, hx, _, hxj⟩ := h1
      have hw : WrittenBy lines sols j := ⟨x, hx, by simpa using hxj⟩
      obtain ⟨f, hf, hpos⟩ := wrapStageFull_free_broken cfg lines ft ftz sols h j hF hw
      unfold fmtAt at hf
      rw [ht] at hf
      simp only [Option.map_some, Option.some.injEq] at hf
      subst hf
      exact hpos

theorem freeBeforeBrokenB_of_not (lines : List Line) (ft ftz : FT) (hlen : ftz.length ≤ ft.length)
    (hnb : freeNotBeforeB lines ft = true) : freeBeforeBrokenB lines ft ftz = true := by
  unfold freeBeforeBrokenB
  rw [List.all_eq_true]
  intro p hp
  obtain ⟨t, j⟩ := p
  have ht : ftz[j]? = some t := List.mem_zipIdx_iff_getElem?.1 hp
  have hlt : j < ft.length := by
    rcases Nat.lt_or_ge j ftz.length with hlt | hge
    · omega
    · rw [List.getElem?_eq_none hge] at ht; cases ht
  unfold freeNotBeforeB at hnb
  rw [List.all_eq_true] at hnb
  have h2 := hnb j (List.mem_range.2 hlt)
  simp only [h2, Bool.true_or]

theorem freeBeforeBrokenB_of_broken (lines : List Line) (ft ftz : FT) (h : freeBrokenB ft ftz = true) :
    freeBeforeBrokenB lines ft ftz = true := by
  unfold freeBrokenB at h
  unfold freeBeforeBrokenB
  rw [List.all_eq_true] at h ⊢
  intro p hp
  have := h p hp
  cases hfa : freeAtB ft p.2 with
  | false => simp
  | true =>
    have h2 : 0 < p.1.fmt.nl := by simpa [hfa] using this
    simp [h2]

/-- `freeBrokenB` is no premise any more wherever every token is written (`allWritten`) and no free token is among
    the tokens that are final before the stage (`freeNotBeforeB`) -/
theorem freeBrokenB_of_stage (cfg : Config) (lines : List Line) (ft ftz : FT) (sols : List (Nat × Nat × Sol))
    (h : wrapStageFull cfg lines ft = some (ftz, sols))
    (hall : allWritten lines (writtenBefore lines ft) ft.length sols = true)
    (hnb : freeNotBeforeB lines ft = true) : freeBrokenB ft ftz = true := by
  unfold freeBrokenB
  rw [List.all_eq_true]
  intro p hp
  obtain ⟨t, j⟩ := p
  have ht : ftz[j]? = some t := List.mem_zipIdx_iff_getElem?.1 hp
  cases hfa : freeAtB ft j with
  | false => rfl
  | true =>
    simp only [Bool.not_true, Bool.false_or, decide_eq_true_eq]
    obtain ⟨hF, hlt⟩ := freeK_of_freeAtB hfa
    unfold allWritten at hall
    rw [List.all_eq_true] at hall
    have h1 := hall j (List.mem_range.2 hlt)
    unfold freeNotBeforeB at hnb
    rw [List.all_eq_true] at hnb
    have h2 := hnb j (List.mem_range.2 hlt)
    rw [hfa] at h2
    simp only [Bool.true_and, Bool.not_eq_true'] at h2
    rw [h2] at h1
    simp only [Bool.false_or, List.any_eq_true, Bool.and_eq_true] at h1
    obtain ⟨x, hx, _, hxj⟩ := h1
    have hw : WrittenBy lines sols j := ⟨x, hx, by simpa using hxj⟩
    obtain ⟨f, hf, hpos⟩ := wrapStageFull_free_broken cfg lines ft ftz sols h j hF hw
    unfold fmtAt at hf
    rw [ht] at hf
    simp only [Option.map_some, Option.some.injEq] at hf
    subst hf
    exact hpos

/-- the new premises imply the old ones -/
theorem layoutPremisesB_of' (cfg : Config) (alnum : Bytes → Bool) (s1 s2 : Bytes)
    (h : layoutPremisesB' cfg alnum s1 s2 = true) : layoutPremisesB cfg alnum s1 s2 = true := by
  unfold layoutPremisesB' at h
  unfold layoutPremisesB
  split
  · rename_i raw1 raw2 hl1 hl2
    simp only [hl1, hl2] at h
    split
    · rename_i hpo
      simp only [hpo] at h
      cases h
    · rename_i po hpo
      simp only [hpo, Bool.and_eq_true] at h
      obtain ⟨⟨ha, hb⟩, hc⟩ := h
      simp only [Bool.and_eq_true]
      refine ⟨⟨ha, hb⟩, ?_⟩
      split
      · rename_i hw
        rw [hw] at hc
        cases hc
      · rename_i ftz sols hw
        rw [hw] at hc
        simp only [Bool.and_eq_true] at hc
        rw [Bool.and_eq_true]
        exact ⟨hc.1, freeBrokenB_of_stage' cfg _ _ ftz sols hw hc.1 hc.2⟩
  · rename_i hno
    split at h
    · rename_i raw1 raw2 hl1 hl2
      exact absurd hl2 (hno raw1 raw2 hl1)
    · exact h

/-- the old premises imply the new ones: the new premise set holds wherever the old one did -/
theorem layoutPremisesB'_of (cfg : Config) (alnum : Bytes → Bool) (s1 s2 : Bytes)
    (h : layoutPremisesB cfg alnum s1 s2 = true) : layoutPremisesB' cfg alnum s1 s2 = true := by
  unfold layoutPremisesB at h
  unfold layoutPremisesB'
  split
  · rename_i raw1 raw2 hl1 hl2
    simp only [hl1, hl2] at h
    split
    · rename_i hpo
      simp only [hpo] at h
      cases h
    · rename_i po hpo
      simp only [hpo, Bool.and_eq_true] at h
      obtain ⟨⟨ha, hb⟩, hc⟩ := h
      simp only [Bool.and_eq_true]
      refine ⟨⟨ha, hb⟩, ?_⟩
      split
      · rename_i hw
        rw [hw] at hc
        cases hc
      · rename_i ftz sols hw
        rw [hw] at hc
        simp only [Bool.and_eq_true] at hc
        rw [Bool.and_eq_true]
        exact ⟨hc.1, freeBeforeBrokenB_of_broken _ _ ftz hc.2⟩
  · rename_i hno
    split at h
    · rename_i raw1 raw2 hl1 hl2
      exact absurd hl2 (hno raw1 raw2 hl1)
    · exact h

end Pasfmt
