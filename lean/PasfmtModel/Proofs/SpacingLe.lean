/-
  Every value the spacing rule writes is 0, 1 or `min(original, 1)`.
-/
import PasfmtModel.Model.Rules

namespace Pasfmt

def OptLe1 : Option Nat → Prop
  | none => True
  | some x => x ≤ 1

theorem optLe1_before (prev : Option Kind) : OptLe1 (spacesBeforeFn prev 1) := by
  unfold spacesBeforeFn
  split
  · simp [OptLe1]
  · split <;> simp [OptLe1]

theorem optLe1_after (next : Option Kind) : OptLe1 (spacesAfterFn next 1) := by
  unfold spacesAfterFn
  split <;> simp [OptLe1]

theorem optLe1_plusMinus (prevReal : Option Kind) :
    OptLe1 (plusMinusSpacing prevReal).1 ∧ OptLe1 (plusMinusSpacing prevReal).2 := by
  unfold plusMinusSpacing
  split <;> simp [OptLe1]

theorem optLe1_openBracket (prev : Option Kind) :
    OptLe1 (openBracketSpacing prev).1 ∧ OptLe1 (openBracketSpacing prev).2 := by
  unfold openBracketSpacing
  split
  · simp [OptLe1]
  · split <;> simp [OptLe1]
  · simp [OptLe1]

theorem optLe1_operator (op : OperatorKind) (prev prevReal next : Option Kind) :
    OptLe1 (spaceOperator op prev prevReal next).1 ∧ OptLe1 (spaceOperator op prev prevReal next).2 := by
  unfold spaceOperator
  split
  all_goals first
    | exact optLe1_plusMinus _
    | exact optLe1_openBracket _
    | exact ⟨optLe1_before _, by simp [OptLe1]⟩
    | (simp [OptLe1]; done)
    | (split <;> simp [OptLe1]; done)

theorem spacingRule_le_one (k : Kind) (prev prevReal next : Option Kind) (cur : Nat) (nextSp : Option Nat) :
    OptLe1 (spacingRule k prev prevReal next cur nextSp).1 ∧
    OptLe1 (spacingRule k prev prevReal next cur nextSp).2 := by
  unfold spacingRule
  split
  · exact optLe1_operator _ _ _ _
  · simp [OptLe1]
  · exact ⟨optLe1_before _, optLe1_after _⟩
  · exact ⟨optLe1_before _, optLe1_after _⟩
  · exact ⟨optLe1_before _, optLe1_after _⟩
  · exact ⟨optLe1_before _, optLe1_after _⟩
  · simp [OptLe1]
  · constructor
    · simp only [OptLe1]; omega
    · cases nextSp <;> simp [OptLe1]; omega


end Pasfmt
