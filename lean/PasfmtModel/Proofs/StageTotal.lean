/-
  The wrapper stage never aborts (C04, closed model): `wrapStageFull` answers on well-formed lines.
  `none` results of the stage's functions stand for panics of the real code: `applySol` (a decision without a token, a
  child line that does not exist, a token index without formatting data), `mlsLine` (a token index without formatting
  data), `topParent` (a parent index out of range or a parent cycle).
-/
import PasfmtModel.Model.WrapStageFull

namespace Pasfmt

/-! ### well-formed lines -/

/-- the lines are well formed for `n` tokens: every token index of every line is below `n`, and the parent of a line
    (if it has one) is an EARLIER line -/
def LinesOk (lines : List Line) (n : Nat) : Prop :=
  ∀ x ∈ lines.zipIdx, (∀ t ∈ x.1.tokens, t < n) ∧ ∀ p ∈ x.1.parent, p.lineIndex < x.2

instance (lines : List Line) (n : Nat) : Decidable (LinesOk lines n) := by
  unfold LinesOk; infer_instance

/-- on well-formed lines the token indices of an existing line are below `n` -/
theorem LinesOk.tokens {lines : List Line} {n : Nat} (h : LinesOk lines n) {i : Nat} {l : Line}
    (hl : lines[i]? = some l) : ∀ t ∈ l.tokens, t < n :=
  (h (l, i) (List.mem_zipIdx_iff_getElem?.2 hl)).1

/-- on well-formed lines the parent of line `i` is a line before `i` -/
theorem LinesOk.parent {lines : List Line} {n : Nat} (h : LinesOk lines n) {i : Nat} {l : Line}
    (hl : lines[i]? = some l) {p : LineParent} (hp : l.parent = some p) : p.lineIndex < i :=
  (h (l, i) (List.mem_zipIdx_iff_getElem?.2 hl)).2 p hp

/-- `LinesOk` in plain form: for every line `i`, its token indices are below `n` and its parent, if any, is a line
    with a smaller index -/
theorem linesOk_iff (lines : List Line) (n : Nat) :
    LinesOk lines n ↔ ∀ (i : Nat) (l : Line), lines[i]? = some l →
      (∀ t ∈ l.tokens, t < n) ∧ ∀ p : LineParent, l.parent = some p → p.lineIndex < i := by
  constructor
  · intro h i l hl
    exact ⟨h.tokens hl, fun p hp => h.parent hl hp⟩
  · intro h x hx
    obtain ⟨l, i⟩ := x
    have hl := List.mem_zipIdx_iff_getElem?.1 hx
    exact ⟨(h i l hl).1, fun p hp => (h i l hl).2 p hp⟩

/-! ### `topParent` -/

/-- the walk to the top-level ancestor answers with an existing line whenever the fuel exceeds the line index -/
theorem topParent_total_aux (lines : List Line) (n : Nat) (h : LinesOk lines n) :
    ∀ (fuel i : Nat), i < fuel → i < lines.length → ∃ p, topParent lines fuel i = some p ∧ p < lines.length := by
  intro fuel
  induction fuel with
  | zero => intro i hi; omega
  | succ f ih =>
    intro i hi hlen
    unfold topParent
    have hl : lines[i]? = some lines[i] := List.getElem?_eq_getElem hlen
    rw [hl]
    simp only
    split
    · exact ⟨i, rfl, hlen⟩
    · rename_i p hp
      have := h.parent hl hp
      exact ih p.lineIndex (by omega) (by omega)

/-- the walk to the top-level ancestor of a line ends inside its fuel when parents are earlier lines: no index out of
    range, no cycle -/
theorem topParent_total (lines : List Line) (n : Nat) (h : LinesOk lines n) (i : Nat) (hi : i < lines.length) :
    topParent lines (lines.length + 1) i ≠ none := by
  obtain ⟨p, hp, _⟩ := topParent_total_aux lines n h (lines.length + 1) i (by omega) hi
  rw [hp]; simp

/-! ### the string passes -/

/-- the string pass over the tokens of one line answers when all token indices have formatting data; it keeps the
    number of tokens -/
theorem mlsLine_total (S : Settings) : ∀ (toks : List Nat) (ft : FT), (∀ t ∈ toks, t < ft.length) →
    ∃ ft1 ch, mlsLine S toks ft = some (ft1, ch) ∧ ft1.length = ft.length := by
  intro toks
  induction toks with
  | nil => intro ft _; exact ⟨ft, false, rfl, rfl⟩
  | cons idx rest ih =>
    intro ft h
    have hidx : idx < ft.length := h idx (by simp)
    unfold mlsLine
    rw [List.getElem?_eq_getElem hidx]
    simp only
    generalize hr : (if (!ft[idx].fmt.ignored && isMlsKind ft[idx].tok.kind) = true then
      mlsRewrite S ft[idx].tok.content ft[idx].fmt.ind ft[idx].fmt.cont else none) = r
    clear hr
    cases r with
    | none =>
      simp only
      obtain ⟨ft2, ch, h2, hl2⟩ := ih ft (fun t ht => h t (by simp [ht]))
      rw [h2]
      exact ⟨ft2, _, rfl, hl2⟩
    | some c =>
      simp only
      have hlen : (ft.set idx (ft[idx].setContent c)).length = ft.length := by simp
      obtain ⟨ft2, ch, h2, hl2⟩ := ih (ft.set idx (ft[idx].setContent c))
        (fun t ht => by rw [hlen]; exact h t (by simp [ht]))
      rw [h2]
      exact ⟨ft2, _, rfl, hl2.trans hlen⟩

/-- the first string pass answers on well-formed lines and keeps the number of tokens -/
theorem mlsPass1_total (S : Settings) (lines : List Line) (n : Nat) (h : LinesOk lines n) :
    ∀ (ls : List (Line × Nat)) (ft : FT) (acc : List Nat), (∀ x ∈ ls, x ∈ lines.zipIdx) → ft.length = n →
    ∃ ft1 out, mlsPass1 S lines ls ft acc = some (ft1, out) ∧ ft1.length = n := by
  intro ls
  induction ls with
  | nil => intro ft acc _ hn; exact ⟨ft, acc, rfl, hn⟩
  | cons x rest ih =>
    intro ft acc hls hn
    obtain ⟨l, i⟩ := x
    have hmem : (l, i) ∈ lines.zipIdx := hls _ (by simp)
    have hl : lines[i]? = some l := List.mem_zipIdx_iff_getElem?.1 hmem
    obtain ⟨ft1, ch, h1, hl1⟩ := mlsLine_total S l.tokens ft (fun t ht => by rw [hn]; exact h.tokens hl t ht)
    unfold mlsPass1
    rw [h1]
    simp only
    have hrest : ∀ x ∈ rest, x ∈ lines.zipIdx := fun x hx => hls x (by simp [hx])
    split
    · have hi : i < lines.length := by
        rcases Nat.lt_or_ge i lines.length with h' | h'
        · exact h'
        · rw [List.getElem?_eq_none h'] at hl; cases hl
      obtain ⟨p, hp, _⟩ := topParent_total_aux lines n h (lines.length + 1) i (by omega) hi
      rw [hp]
      exact ih ft1 _ hrest (hl1.trans hn)
    · exact ih ft1 _ hrest (hl1.trans hn)

/-- the second string pass answers on well-formed lines and keeps the number of tokens -/
theorem mlsPass2_total (S : Settings) (n : Nat) :
    ∀ (ls : List Line) (ft : FT), (∀ l ∈ ls, ∀ t ∈ l.tokens, t < n) → ft.length = n →
    ∃ ft1, mlsPass2 S ls ft = some ft1 ∧ ft1.length = n := by
  intro ls
  induction ls with
  | nil => intro ft _ hn; exact ⟨ft, rfl, hn⟩
  | cons l rest ih =>
    intro ft hls hn
    obtain ⟨ft1, ch, h1, hl1⟩ := mlsLine_total S l.tokens ft (fun t ht => by rw [hn]; exact hls l (by simp) t ht)
    unfold mlsPass2
    rw [h1]
    exact ih ft1 (fun l' hl' => hls l' (by simp [hl'])) (hl1.trans hn)

/-- on well-formed lines every token index of every line is below `n` -/
theorem LinesOk.all_tokens {lines : List Line} {n : Nat} (h : LinesOk lines n) : ∀ l ∈ lines, ∀ t ∈ l.tokens, t < n := by
  intro l hl
  obtain ⟨i, hi, rfl⟩ := List.mem_iff_getElem.1 hl
  exact h.tokens (List.getElem?_eq_getElem hi)

/-! ### applying a solution -/

/-- the shape of a solution fits the lines: its line exists, it has at most as many decisions as the line has tokens,
    the line's token indices are below `n`, and every solution of a child line fits that child line -/
inductive SolFits (lines : List Line) (n : Nat) : Sol → Nat → Prop
  | mk (ind cont : Nat) (decs : List (Dec × List (Nat × Sol))) (i : Nat) (l : Line)
      (hl : lines[i]? = some l) (hlen : decs.length ≤ l.tokens.length) (htok : ∀ t ∈ l.tokens, t < n)
      (hrec : ∀ d ∈ decs, ∀ x ∈ d.2, SolFits lines n x.2 x.1) : SolFits lines n (.mk ind cont decs) i

/-- reading `SolFits` back -/
theorem solFits_inv {lines : List Line} {n : Nat} {ind cont : Nat} {decs : List (Dec × List (Nat × Sol))} {i : Nat}
    (h : SolFits lines n (.mk ind cont decs) i) :
    ∃ l, lines[i]? = some l ∧ decs.length ≤ l.tokens.length ∧ (∀ t ∈ l.tokens, t < n) ∧
      ∀ d ∈ decs, ∀ x ∈ d.2, SolFits lines n x.2 x.1 := by
  cases h with
  | mk _ _ _ _ l hl hlen htok hrec => exact ⟨l, hl, hlen, htok, hrec⟩

/-- writing the formatting data of an existing token answers and keeps the number of tokens -/
theorem setFmt_total (ft : FT) (i : Nat) (g : FmtData → FmtData) (hi : i < ft.length) :
    ∃ ft1, setFmt ft i g = some ft1 ∧ ft1.length = ft.length := by
  unfold setFmt
  rw [List.getElem?_eq_getElem hi]
  exact ⟨_, rfl, by simp⟩

mutual
/-- applying a solution whose shape fits the lines answers (no decision without a token, no missing child line, no
    token index without formatting data) and keeps the number of tokens -/
theorem applySol_total (lines : List Line) (n : Nat) (ft : FT) (s : Sol) (i : Nat)
    (h : SolFits lines n s i) (hn : ft.length = n) : ∃ ft1, applySol lines ft s i = some ft1 ∧ ft1.length = n := by
  cases s with
  | mk ind cont decs =>
    obtain ⟨l, hl, hlen, htok, hrec⟩ := solFits_inv h
    unfold applySol
    rw [hl]
    exact applyDecs_total lines n ind cont l.tokens 0 ft decs (by omega) htok hrec hn

/-- applying the decisions from token position `i` on answers when there are enough tokens left and the child
    solutions fit -/
theorem applyDecs_total (lines : List Line) (n : Nat) (ind cont : Nat) (toks : List Nat) (i : Nat) (ft : FT)
    (decs : List (Dec × List (Nat × Sol))) (hlen : i + decs.length ≤ toks.length) (htok : ∀ t ∈ toks, t < n)
    (hrec : ∀ d ∈ decs, ∀ x ∈ d.2, SolFits lines n x.2 x.1) (hn : ft.length = n) :
    ∃ ft1, applyDecs lines ind cont toks i ft decs = some ft1 ∧ ft1.length = n := by
  cases decs with
  | nil => exact ⟨ft, by unfold applyDecs; rfl, hn⟩
  | cons dk rest =>
    obtain ⟨d, children⟩ := dk
    unfold applyDecs
    simp only [List.length_cons] at hlen
    have hi : i < toks.length := by omega
    rw [List.getElem?_eq_getElem hi]
    simp only
    have ht : toks[i] < ft.length := by rw [hn]; exact htok _ (List.getElem_mem hi)
    obtain ⟨fta, ha, hla⟩ := setFmt_total ft toks[i] (fun f => applyDec f (i == 0) ind cont d) ht
    rw [ha]
    simp only
    obtain ⟨ftb, hb, hlb⟩ := applyChildren_total lines n fta children
      (fun x hx => hrec (d, children) (by simp) x hx) (hla.trans hn)
    rw [hb]
    simp only
    exact applyDecs_total lines n ind cont toks (i + 1) ftb rest (by omega) htok
      (fun d' hd' => hrec d' (by simp [hd'])) hlb

/-- applying a list of fitting child solutions answers -/
theorem applyChildren_total (lines : List Line) (n : Nat) (ft : FT) (ks : List (Nat × Sol))
    (hrec : ∀ x ∈ ks, SolFits lines n x.2 x.1) (hn : ft.length = n) :
    ∃ ft1, applyChildren lines ft ks = some ft1 ∧ ft1.length = n := by
  cases ks with
  | nil => exact ⟨ft, by unfold applyChildren; rfl, hn⟩
  | cons k rest =>
    obtain ⟨li, s⟩ := k
    unfold applyChildren
    obtain ⟨fta, ha, hla⟩ := applySol_total lines n ft s li (hrec (li, s) (by simp)) hn
    rw [ha]
    simp only
    exact applyChildren_total lines n fta rest (fun x hx => hrec x (by simp [hx])) hla
end

/-! ### the stage, for a search that returns fitting solutions -/

/-- the search returns only solutions whose shape fits the lines, from every state reachable in the stage (`P`) -/
def SearchFits (lines : List Line) (n : Nat) (P : SearchState → Prop) : Prop :=
  ∀ st ft i, P st → ft.length = n →
    P (searchSolve st ft i).2 ∧ ∀ s, (searchSolve st ft i).1 = some s → SolFits lines n s i

/-- applying the solutions of a list of top-level lines answers when the search returns fitting solutions -/
theorem applyLinesS_total (phase : Nat) (lines : List Line) (n : Nat) (P : SearchState → Prop)
    (hS : SearchFits lines n P) :
    ∀ (is : List Nat) (st : SearchState) (ft : FT) (acc : List (Nat × Nat × Sol)), P st → ft.length = n →
    ∃ ft1 st1 sols, applyLinesS phase lines is st ft acc = some (ft1, st1, sols) ∧ ft1.length = n ∧ P st1 := by
  intro is
  induction is with
  | nil => intro st ft acc hp hn; exact ⟨ft, st, acc, rfl, hn, hp⟩
  | cons i rest ih =>
    intro st ft acc hp hn
    unfold applyLinesS
    have := hS st ft i hp hn
    split
    · rename_i st' heq
      rw [heq] at this
      exact ih st' ft acc this.1 hn
    · rename_i s st' heq
      rw [heq] at this
      obtain ⟨ft1, h1, hl1⟩ := applySol_total lines n ft s i (this.2 s rfl) hn
      rw [h1]
      exact ih st' ft1 _ this.1 hl1

/-- the wrapper stage answers on well-formed lines, if every solution the search returns fits the lines (`P` is an
    invariant of the search state that holds initially) -/
theorem wrapStageFull_total_of_fits (cfg : Config) (lines : List Line) (ft : FT) (P : SearchState → Prop)
    (hL : LinesOk lines ft.length) (h0 : P (searchInit cfg lines ft)) (hS : SearchFits lines ft.length P) :
    ∃ r, wrapStageFull cfg lines ft = some r := by
  unfold wrapStageFull
  simp only
  obtain ⟨ft1, st1, sols1, h1, hl1, hp1⟩ :=
    applyLinesS_total 0 lines ft.length P hS (firstPassLines lines) _ ft [] h0 rfl
  rw [h1]
  simp only
  split
  · exact ⟨_, rfl⟩
  · obtain ⟨ft2, out, h2, hl2⟩ := mlsPass1_total cfg.settings lines ft.length hL lines.zipIdx ft1 []
      (fun _ h => h) hl1
    rw [h2]
    simp only
    obtain ⟨ft3, st3, sols3, h3, hl3, _⟩ :=
      applyLinesS_total 1 lines ft.length P hS (sortDedup out) st1 ft2 sols1 hp1 hl2
    rw [h3]
    simp only
    obtain ⟨ft4, h4, _⟩ := mlsPass2_total cfg.settings ft.length lines ft3 hL.all_tokens hl3
    rw [h4]
    exact ⟨_, rfl⟩

end Pasfmt
