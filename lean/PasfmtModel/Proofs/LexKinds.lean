import PasfmtModel.Model.Lexer

namespace Pasfmt

set_option maxRecDepth 100000 in
theorem lookupTable_ne_eof :
    lookupTable.all (fun e => match e with | none => true | some (_, k) => k != .rEof) = true := by
  decide +kernel

theorem wordKind_ne_eof (w : Bytes) : wordKind w ≠ .rEof := by
  unfold wordKind
  split
  · split
    · rename_i cand k heq
      split
      · have hall := lookupTable_ne_eof
        rw [List.all_eq_true] at hall
        by_cases hlt : hashKeyword w < lookupTable.length
        · have hmem : (some (cand, k)) ∈ lookupTable := by
            rw [List.getD_eq_getElem?_getD, List.getElem?_eq_getElem hlt] at heq
            simp at heq
            rw [← heq]; exact List.getElem_mem hlt
          have := hall _ hmem
          simpa using this
        · rw [List.getD_eq_getElem?_getD, List.getElem?_eq_none (by omega)] at heq
          simp at heq
      · simp
    · simp
  · simp

theorem dirKind_ne_eof (k : Option ConditionalDirectiveKind) : dirKind k ≠ .rEof := by
  cases k <;> simp [dirKind]

theorem runSub_ne_eof (st : LexState) (sub : SubLexer) (b : UInt8) (r : Bytes) (nlb : Bool)
    (trimF : Unit → Nat) (simd : Bool) (o : LexOut)
    (h : runSub st sub b r nlb trimF simd = some o) : o.kind ≠ .rEof := by
  unfold runSub at h
  cases sub <;> simp only at h
  all_goals first
    | (simp at h; rw [← h]; simp; done)
    | ((repeat' split at h) <;> (simp at h; rw [← h]; simp); done)
    | skip
  case identifier_or_keyword =>
    simp at h; rw [← h]; simp only
    split
    · simp
    · exact wordKind_ne_eof _
  case l_brace =>
    split at h
    · simp only [Option.map_eq_some_iff] at h
      obtain ⟨⟨n, k⟩, _, hk⟩ := h
      rw [← hk]; exact dirKind_ne_eof k
    · simp at h; rw [← h]; simp
  case l_paren =>
    split at h
    · simp only [Option.map_eq_some_iff] at h
      obtain ⟨⟨n, k⟩, _, hk⟩ := h
      rw [← hk]; exact dirKind_ne_eof k
    · simp at h; rw [← h]; simp
    · simp at h; rw [← h]; simp
    · simp at h; rw [← h]; simp

end Pasfmt
