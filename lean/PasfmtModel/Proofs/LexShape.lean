import PasfmtModel.Proofs.LexBasic
import PasfmtModel.Proofs.LexKinds
import PasfmtModel.Proofs.Blank

namespace Pasfmt

/-- first byte is not blank and the text does not start with U+3000 -/
def NonBlankStart (c : Bytes) : Prop :=
  ∃ b r, c = b :: r ∧ ¬ b ≤ 0x20 ∧ ¬ ([0xE3, 0x80, 0x80] <+: c)

theorem drop_countLeadingWs (l : Bytes) :
    l.drop (countLeadingWs l) = [] ∨ NonBlankStart (l.drop (countLeadingWs l)) := by
  induction l using countLeadingWs.induct with
  | case1 => left; simp [countLeadingWs]
  | case2 r ih =>
    rw [countLeadingWs]
    simpa [List.drop_succ_cons] using ih
  | case3 b r hne hle ih =>
    have : countLeadingWs (b :: r) = countLeadingWs r + 1 := by
      rw [countLeadingWs]
      · simp [hle]
      · intro r' h; exact hne r' h
    rw [this]; simpa using ih
  | case4 b r hne hle =>
    have : countLeadingWs (b :: r) = 0 := by
      rw [countLeadingWs]
      · simp [hle]
      · intro r' h; exact hne r' h
    rw [this]
    right
    refine ⟨b, r, by simp, by simpa using hle, ?_⟩
    intro hpre
    simp only [List.drop_zero] at hpre
    obtain ⟨t, ht⟩ := hpre
    simp at ht
    exact hne t ht.1.symm ht.2.symm

theorem NonBlankStart.take {c : Bytes} (h : NonBlankStart c) (n : Nat) (hn : 0 < n) :
    NonBlankStart (c.take n) := by
  obtain ⟨b, r, hc, hb, hp⟩ := h
  subst hc
  cases n with
  | zero => omega
  | succ m =>
    refine ⟨b, r.take m, by simp, hb, ?_⟩
    intro hpre
    apply hp
    exact List.IsPrefix.trans hpre (List.take_prefix _ _)

theorem lexOne_some (simd : Bool) (st : LexState) (inp : Bytes) (ws e : Nat) (k : RawKind) (st' : LexState)
    (h : lexOne simd st inp = some (some (ws, e, k, st'))) :
    ws = countLeadingWs inp ∧ k ≠ .rEof := by
  unfold lexOne at h
  simp only at h
  split at h
  · simp at h
  · rename_i b r hd
    split at h
    · simp at h
    · rename_i o ho
      simp at h
      obtain ⟨h1, _, h3, _⟩ := h
      refine ⟨h1.symm, ?_⟩
      rw [← h3]
      exact runSub_ne_eof _ _ _ _ _ _ _ _ ho

theorem lexOne_none (simd : Bool) (st : LexState) (inp : Bytes)
    (h : lexOne simd st inp = some none) : inp.drop (countLeadingWs inp) = [] := by
  unfold lexOne at h
  simp only at h
  split at h
  · assumption
  · split at h <;> simp at h

structure TokOk (t : RawTok) : Prop where
  kind_ne : t.kind ≠ .rEof
  ws_gap : Gap t.ws
  nonblank : NonBlankStart t.content

structure EofOk (t : RawTok) : Prop where
  kind_eq : t.kind = .rEof
  content_nil : t.content = []
  ws_gap : Gap t.ws

theorem lexFuel_shape (simd : Bool) (fuel : Nat) (st : LexState) (inp : Bytes) (toks : List RawTok)
    (h : lexFuel simd fuel st inp = some toks) :
    ∃ pre e, toks = pre ++ [e] ∧ EofOk e ∧ ∀ t ∈ pre, TokOk t := by
  induction fuel generalizing st inp toks with
  | zero => simp [lexFuel] at h
  | succ n ih =>
    unfold lexFuel at h
    split at h
    · simp at h
    · rename_i hone
      simp at h; subst h
      refine ⟨[], _, rfl, ⟨rfl, rfl, ?_⟩, by simp⟩
      have hd := lexOne_none _ _ _ hone
      have : inp.take (countLeadingWs inp) = inp := by
        have h2 := List.take_append_drop (countLeadingWs inp) inp
        rw [hd, List.append_nil] at h2; exact h2
      show Gap inp
      rw [← this]; exact Gap.leadingWs inp
    · rename_i ws e kind st' hone
      obtain ⟨hws, hk⟩ := lexOne_some _ _ _ _ _ _ _ hone
      split at h
      · rename_i hcond
        split at h
        · simp at h
        · rename_i rest hrest
          simp at h; subst h
          obtain ⟨pre, e', hpre, heof, hall⟩ := ih _ _ _ hrest
          refine ⟨{ ws := List.take ws inp, content := List.drop ws (List.take e inp), kind := kind } :: pre, e', by simp [hpre], heof, ?_⟩
          intro t ht
          simp at ht
          rcases ht with rfl | ht
          · refine ⟨hk, ?_, ?_⟩
            · show Gap (inp.take ws); rw [hws]; exact Gap.leadingWs inp
            · show NonBlankStart ((inp.take e).drop ws)
              rw [List.drop_take]
              have hle : e ≤ inp.length := (leLength_iff _ _).1 hcond.2
              rcases drop_countLeadingWs inp with hnil | hnb
              · exfalso
                have : (inp.drop ws).length = 0 := by rw [hws, hnil]; rfl
                simp at this; omega
              · rw [hws]; rw [hws] at hcond
                exact hnb.take _ (by omega)
          · exact hall t ht
      · simp at h

end Pasfmt
