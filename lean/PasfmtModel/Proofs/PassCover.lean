/-
  Coverage of the conditional-directive passes: every token that is not a conditional directive is
  contained in some pass (`passes_cover`).  The argument: every pass marks the flat sections it
  visits as explored; while some flat section is unexplored the next pass explores at least one
  more (progress); the iteration stops only when all are explored; the number of flat sections is
  at most the number of tokens plus one; and the depth fuel of the model is adequate for the tree.
-/
import PasfmtModel.Proofs.TreeSorted

namespace Pasfmt

/-! ### adequate fuel, unexplored flats -/

mutual
/-- the fuel suffices to look through the whole section -/
def secFits (fuel : Nat) : DSection → Bool
  | .flat _ _ _ => true
  | .nested trees =>
    match fuel with
    | 0 => false
    | fuel + 1 => trees.all (treeFits fuel)

def treeFits (fuel : Nat) (t : DTree) : Bool :=
  match fuel with
  | 0 => false
  | fuel + 1 => t.all (secFits fuel)
end

/-- largest element (0 for the empty list) -/
def maxL (l : List Nat) : Nat := l.foldr max 0

theorem maxL_cons (a : Nat) (r : List Nat) : maxL (a :: r) = max a (maxL r) := rfl

theorem maxL_eq_zero_iff (l : List Nat) : maxL l = 0 ↔ ∀ x ∈ l, x = 0 := by
  induction l with
  | nil => simp [maxL]
  | cons a r ih =>
    rw [maxL_cons]
    simp only [List.mem_cons, forall_eq_or_imp, ← ih]
    omega

theorem maxL_map_le {α : Type} (l : List α) (g g' : α → Nat) (h : ∀ x ∈ l, g' x ≤ g x) :
    maxL (l.map g') ≤ maxL (l.map g) := by
  induction l with
  | nil => simp [maxL]
  | cons a r ih =>
    simp only [List.map_cons, maxL_cons]
    have := h a (by simp)
    have := ih (fun x hx => h x (by simp [hx]))
    omega

theorem maxL_map_lt {α : Type} (l : List α) (g g' : α → Nat) (h : ∀ x ∈ l, g' x ≤ g x)
    (hs : ∀ x ∈ l, 0 < g x → g' x < g x) (hpos : 0 < maxL (l.map g)) : maxL (l.map g') < maxL (l.map g) := by
  -- every new value is below the old maximum
  have key : ∀ x ∈ l, g' x < maxL (l.map g) := by
    intro x hx
    have hle : g x ≤ maxL (l.map g) := by
      clear h hs hpos
      induction l with
      | nil => simp at hx
      | cons a r ih =>
        simp only [List.map_cons, maxL_cons]
        rcases List.mem_cons.1 hx with rfl | h'
        · omega
        · have := ih h'; omega
    by_cases hg : 0 < g x
    · have := hs x hx hg; omega
    · have := h x hx; omega
  clear h hs
  generalize maxL (l.map g) = m at key hpos
  induction l with
  | nil => simpa [maxL] using hpos
  | cons a r ih =>
    simp only [List.map_cons, maxL_cons]
    have := key a (by simp)
    have := ih (fun x hx => key x (by simp [hx]))
    omega

mutual
/-- number of further passes needed to explore the section, as visible with the given fuel: a nested
    section explores one branch per pass (sum), the sections of a tree are explored side by side (max) -/
def secN (fuel : Nat) : DSection → Nat
  | .flat e _ _ => if e then 0 else 1
  | .nested trees =>
    match fuel with
    | 0 => 0
    | fuel + 1 => (trees.map (treeN fuel)).sum

def treeN (fuel : Nat) (t : DTree) : Nat :=
  match fuel with
  | 0 => 0
  | fuel + 1 => maxL (t.map (secN fuel))
end

mutual
/-- tokens of the unexplored flat sections visible with the given fuel -/
def secU (fuel : Nat) : DSection → List Nat
  | .flat e lo hi => if e then [] else (List.range (hi - lo)).map (· + lo)
  | .nested trees =>
    match fuel with
    | 0 => []
    | fuel + 1 => (trees.map (treeU fuel)).flatten

def treeU (fuel : Nat) (t : DTree) : List Nat :=
  match fuel with
  | 0 => []
  | fuel + 1 => (t.map (secU fuel)).flatten
end

theorem all_congr_mem {α : Type} (l : List α) (p q : α → Bool) (h : ∀ x ∈ l, p x = q x) : l.all p = l.all q := by
  induction l with
  | nil => rfl
  | cons a r ih =>
    simp only [List.all_cons]
    rw [h a (by simp), ih (fun x hx => h x (by simp [hx]))]

theorem sum_eq_zero_iff (l : List Nat) : l.sum = 0 ↔ ∀ x ∈ l, x = 0 := by
  induction l with
  | nil => simp
  | cons a r ih => simp [List.sum_cons, ih]

/-- explored = no unexplored flat section (same fuel) -/
theorem explored_iff (f : Nat) :
    (∀ s, sectionExplored f s = true ↔ secN f s = 0) ∧ (∀ t, treeExplored f t = true ↔ treeN f t = 0) := by
  induction f with
  | zero =>
    refine ⟨?_, ?_⟩
    · intro s
      cases s with
      | flat e lo hi => cases e <;> simp [sectionExplored, secN]
      | nested trees => simp [sectionExplored, secN]
    · intro t; simp [treeExplored, treeN]
  | succ f ih =>
    have hs : ∀ s, sectionExplored (f + 1) s = true ↔ secN (f + 1) s = 0 := by
      intro s
      cases s with
      | flat e lo hi => cases e <;> simp [sectionExplored, secN]
      | nested trees =>
        simp only [sectionExplored, secN, List.all_eq_true, sum_eq_zero_iff, List.mem_map]
        constructor
        · rintro h x ⟨t, ht, rfl⟩; exact (ih.2 t).1 (h t ht)
        · intro h t ht; exact (ih.2 t).2 (h _ ⟨t, ht, rfl⟩)
    refine ⟨hs, ?_⟩
    intro t
    simp only [treeExplored, treeN, List.all_eq_true, maxL_eq_zero_iff, List.mem_map]
    constructor
    · rintro h x ⟨s, hs', rfl⟩; exact (ih.1 s).1 (h s hs')
    · intro h s hs'; exact (ih.1 s).2 (h _ ⟨s, hs', rfl⟩)

/-- nothing unexplored, no unexplored tokens -/
theorem U_nil_of_N_zero (f : Nat) :
    (∀ s, secN f s = 0 → secU f s = []) ∧ (∀ t, treeN f t = 0 → treeU f t = []) := by
  induction f with
  | zero =>
    refine ⟨?_, ?_⟩
    · intro s h
      cases s with
      | flat e lo hi => cases e <;> simp [secN, secU] at h ⊢
      | nested trees => simp [secU]
    · intro t _; simp [treeU]
  | succ f ih =>
    have hs : ∀ s, secN (f + 1) s = 0 → secU (f + 1) s = [] := by
      intro s h
      cases s with
      | flat e lo hi => cases e <;> simp [secN, secU] at h ⊢
      | nested trees =>
        simp only [secN, sum_eq_zero_iff, List.mem_map] at h
        simp only [secU, List.flatten_eq_nil_iff, List.mem_map]
        rintro l ⟨t, ht, rfl⟩
        exact ih.2 t (h _ ⟨t, ht, rfl⟩)
    refine ⟨hs, ?_⟩
    intro t h
    simp only [treeN, maxL_eq_zero_iff, List.mem_map] at h
    simp only [treeU, List.flatten_eq_nil_iff, List.mem_map]
    rintro l ⟨s, hs', rfl⟩
    exact ih.1 s (h _ ⟨s, hs', rfl⟩)

/-- with adequate fuel, one more unit of fuel changes nothing -/
theorem fits_stable (f : Nat) :
    (∀ s, secFits f s = true → secFits (f + 1) s = true ∧ secN (f + 1) s = secN f s ∧ secU (f + 1) s = secU f s ∧
        sectionExplored (f + 1) s = sectionExplored f s) ∧
    (∀ t, treeFits f t = true → treeFits (f + 1) t = true ∧ treeN (f + 1) t = treeN f t ∧ treeU (f + 1) t = treeU f t ∧
        treeExplored (f + 1) t = treeExplored f t) := by
  induction f with
  | zero =>
    refine ⟨?_, ?_⟩
    · intro s h
      cases s with
      | flat e lo hi => simp [secFits, secN, secU, sectionExplored]
      | nested trees => simp [secFits] at h
    · intro t h; simp [treeFits] at h
  | succ f ih =>
    have hs : ∀ s, secFits (f + 1) s = true → secFits (f + 2) s = true ∧ secN (f + 2) s = secN (f + 1) s ∧
        secU (f + 2) s = secU (f + 1) s ∧ sectionExplored (f + 2) s = sectionExplored (f + 1) s := by
      intro s h
      cases s with
      | flat e lo hi => simp [secFits, secN, secU, sectionExplored]
      | nested trees =>
        simp only [secFits, List.all_eq_true] at h
        refine ⟨?_, ?_, ?_, ?_⟩
        · simp only [secFits, List.all_eq_true]; intro t ht; exact (ih.2 t (h t ht)).1
        · simp only [secN]; congr 1; apply List.map_congr_left; intro t ht; exact (ih.2 t (h t ht)).2.1
        · simp only [secU]; congr 1; apply List.map_congr_left; intro t ht; exact (ih.2 t (h t ht)).2.2.1
        · simp only [sectionExplored]
          exact all_congr_mem _ _ _ (fun t ht => (ih.2 t (h t ht)).2.2.2)
    refine ⟨hs, ?_⟩
    intro t h
    simp only [treeFits, List.all_eq_true] at h
    refine ⟨?_, ?_, ?_, ?_⟩
    · simp only [treeFits, List.all_eq_true]; intro s hs'; exact (ih.1 s (h s hs')).1
    · simp only [treeN]; congr 1; apply List.map_congr_left; intro s hs'; exact (ih.1 s (h s hs')).2.1
    · simp only [treeU]; congr 1; apply List.map_congr_left; intro s hs'; exact (ih.1 s (h s hs')).2.2.1
    · simp only [treeExplored]
      exact all_congr_mem _ _ _ (fun s hs' => (ih.1 s (h s hs')).2.2.2)


/-! ### list arithmetic -/

theorem sum_map_le {α : Type} (l : List α) (g g' : α → Nat) (h : ∀ x ∈ l, g' x ≤ g x) :
    (l.map g').sum ≤ (l.map g).sum := by
  induction l with
  | nil => simp
  | cons a r ih =>
    simp only [List.map_cons, List.sum_cons]
    have := h a (by simp)
    have := ih (fun x hx => h x (by simp [hx]))
    omega

theorem sum_map_lt {α : Type} (l : List α) (g g' : α → Nat) (h : ∀ x ∈ l, g' x ≤ g x)
    (hs : ∀ x ∈ l, 0 < g x → g' x < g x) (hpos : 0 < (l.map g).sum) : (l.map g').sum < (l.map g).sum := by
  induction l with
  | nil => simp at hpos
  | cons a r ih =>
    simp only [List.map_cons, List.sum_cons] at hpos ⊢
    have h1 := h a (by simp)
    have h2 := sum_map_le r g g' (fun x hx => h x (by simp [hx]))
    by_cases ha : 0 < g a
    · have := hs a (by simp) ha; omega
    · have hr : 0 < (r.map g).sum := by omega
      have := ih (fun x hx => h x (by simp [hx])) (fun x hx => hs x (by simp [hx])) hr
      omega

theorem sum_map_set {α : Type} (l : List α) (g : α → Nat) (i : Nat) (x y : α) (h : l[i]? = some x) :
    ((l.set i y).map g).sum + g x = (l.map g).sum + g y := by
  induction l generalizing i with
  | nil => simp at h
  | cons a r ih =>
    cases i with
    | zero =>
      simp at h; subst h
      simp only [List.set_cons_zero, List.map_cons, List.sum_cons]; omega
    | succ j =>
      simp at h
      simp only [List.set_cons_succ, List.map_cons, List.sum_cons]
      have := ih j h
      omega

theorem mem_flatten_map_set {α : Type} (l : List α) (g : α → List Nat) (i : Nat) (x y : α) (h : l[i]? = some x)
    (v : Nat) (hv : v ∈ (l.map g).flatten) : v ∈ g x ∨ v ∈ ((l.set i y).map g).flatten := by
  induction l generalizing i with
  | nil => simp at h
  | cons a r ih =>
    cases i with
    | zero =>
      simp at h; subst h
      simp only [List.map_cons, List.flatten_cons, List.mem_append, List.set_cons_zero] at hv ⊢
      rcases hv with h1 | h1
      · exact Or.inl h1
      · exact Or.inr (Or.inr h1)
    | succ j =>
      simp at h
      simp only [List.map_cons, List.flatten_cons, List.mem_append, List.set_cons_succ] at hv ⊢
      rcases hv with h1 | h1
      · exact Or.inr (Or.inl h1)
      · rcases ih j h h1 with h2 | h2
        · exact Or.inl h2
        · exact Or.inr (Or.inr h2)

theorem mem_flatten_set_new {α : Type} (l : List α) (g : α → List Nat) (i : Nat) (y : α) (hi : i < l.length)
    (v : Nat) (hv : v ∈ g y) : v ∈ ((l.set i y).map g).flatten := by
  rw [List.mem_flatten]
  refine ⟨g y, ?_, hv⟩
  rw [List.mem_map]
  exact ⟨y, List.mem_set hi y, rfl⟩

/-! ### one pass explores -/

/-- what a pass does to a section / a tree examined with adequate fuel -/
structure PassFacts (f : Nat) : Prop where
  sec : ∀ s, secFits f s = true →
    (∀ x ∈ secU f s, x ∈ (sectionPass f s).2 ∨ x ∈ secU f (sectionPass f s).1) ∧
    secN f (sectionPass f s).1 ≤ secN f s ∧ (0 < secN f s → secN f (sectionPass f s).1 < secN f s) ∧
    secFits f (sectionPass f s).1 = true
  tree : ∀ t, treeFits f t = true →
    (∀ x ∈ treeU f t, x ∈ (treePass f t).2 ∨ x ∈ treeU f (treePass f t).1) ∧
    treeN f (treePass f t).1 ≤ treeN f t ∧ (0 < treeN f t → treeN f (treePass f t).1 < treeN f t) ∧
    treeFits f (treePass f t).1 = true

theorem flat_facts (f : Nat) (e : Bool) (lo hi : Nat) :
    (∀ x ∈ secU f (.flat e lo hi), x ∈ (sectionPass f (.flat e lo hi)).2 ∨ x ∈ secU f (sectionPass f (.flat e lo hi)).1) ∧
    secN f (sectionPass f (.flat e lo hi)).1 ≤ secN f (.flat e lo hi) ∧
    (0 < secN f (.flat e lo hi) → secN f (sectionPass f (.flat e lo hi)).1 < secN f (.flat e lo hi)) ∧
    secFits f (sectionPass f (.flat e lo hi)).1 = true := by
  rw [sectionPass_flat]
  cases f <;> cases e <;> simp [secU, secN, secFits]


/-- a pass over a nested section whose chosen branch is `t = trees[i]` -/
theorem nested_facts (f : Nat) (ih : PassFacts f) (trees : List DTree) (hfit : ∀ t ∈ trees, treeFits f t = true)
    (i : Nat) (t : DTree) (hi : trees[i]? = some t)
    (hpick : 0 < (trees.map (treeN f)).sum → 0 < treeN f t) :
    (∀ x ∈ (trees.map (treeU f)).flatten,
        x ∈ (treePass f t).2 ∨ x ∈ ((trees.set i (treePass f t).1).map (treeU f)).flatten) ∧
    ((trees.set i (treePass f t).1).map (treeN f)).sum ≤ (trees.map (treeN f)).sum ∧
    (0 < (trees.map (treeN f)).sum →
        ((trees.set i (treePass f t).1).map (treeN f)).sum < (trees.map (treeN f)).sum) ∧
    (∀ t' ∈ trees.set i (treePass f t).1, treeFits f t' = true) := by
  have hmem : t ∈ trees := List.mem_of_getElem? hi
  have hilt : i < trees.length := (List.getElem?_eq_some_iff.1 hi).1
  obtain ⟨ha, hb, hc, hd⟩ := ih.tree t (hfit t hmem)
  have hsum := sum_map_set trees (treeN f) i t (treePass f t).1 hi
  refine ⟨?_, by omega, ?_, ?_⟩
  · intro x hx
    rcases mem_flatten_map_set trees (treeU f) i t (treePass f t).1 hi x hx with h1 | h1
    · rcases ha x h1 with h2 | h2
      · exact Or.inl h2
      · exact Or.inr (mem_flatten_set_new trees (treeU f) i _ hilt x h2)
    · exact Or.inr h1
  · intro hpos
    have := hc (hpick hpos)
    omega
  · intro t' ht'
    rcases List.mem_or_eq_of_mem_set ht' with h1 | h1
    · exact hfit t' h1
    · rw [h1]; exact hd

theorem passFacts (f : Nat) : PassFacts f := by
  induction f with
  | zero =>
    refine ⟨?_, ?_⟩
    · intro s h
      cases s with
      | flat e lo hi => exact flat_facts 0 e lo hi
      | nested trees => simp [secFits] at h
    · intro t h; simp [treeFits] at h
  | succ f ih =>
    have hsec : ∀ s, secFits (f + 1) s = true →
        (∀ x ∈ secU (f + 1) s, x ∈ (sectionPass (f + 1) s).2 ∨ x ∈ secU (f + 1) (sectionPass (f + 1) s).1) ∧
        secN (f + 1) (sectionPass (f + 1) s).1 ≤ secN (f + 1) s ∧
        (0 < secN (f + 1) s → secN (f + 1) (sectionPass (f + 1) s).1 < secN (f + 1) s) ∧
        secFits (f + 1) (sectionPass (f + 1) s).1 = true := by
      intro s h
      cases s with
      | flat e lo hi => exact flat_facts (f + 1) e lo hi
      | nested trees =>
        simp only [secFits, List.all_eq_true] at h
        -- nothing changes: all the claims hold trivially when the total is zero
        have same : (0 < (trees.map (treeN f)).sum → False) →
            (∀ x ∈ secU (f + 1) (.nested trees), x ∈ ([] : List Nat) ∨ x ∈ secU (f + 1) (.nested trees)) ∧
            secN (f + 1) (.nested trees) ≤ secN (f + 1) (.nested trees) ∧
            (0 < secN (f + 1) (.nested trees) → secN (f + 1) (.nested trees) < secN (f + 1) (.nested trees)) ∧
            secFits (f + 1) (.nested trees) = true := by
          intro hz
          refine ⟨fun x hx => Or.inr hx, Nat.le_refl _, ?_, by simp only [secFits, List.all_eq_true]; exact h⟩
          intro hp; simp only [secN] at hp; exact absurd hp (fun hp' => hz hp')
        unfold sectionPass
        simp only
        -- which branch is chosen
        cases hfi : trees.findIdx? (fun g => !treeExplored (f + 1) g) with
        | some i =>
          simp only
          obtain ⟨hil, hp, _⟩ := List.findIdx?_eq_some_iff_getElem.1 hfi
          have hget : trees[i]? = some trees[i] := by simp [hil]
          rw [hget]
          simp only
          have hti : trees[i] ∈ trees := List.getElem_mem hil
          have hunexp : 0 < treeN f trees[i] := by
            have h1 : treeExplored (f + 1) trees[i] = false := by simpa using hp
            rw [((fits_stable f).2 _ (h _ hti)).2.2.2] at h1
            have := (explored_iff f).2 trees[i]
            cases hz : treeN f trees[i] with
            | zero => rw [this.2 hz] at h1; simp at h1
            | succ k => omega
          obtain ⟨a, b, c, d⟩ := nested_facts f ih trees h i trees[i] hget (fun _ => hunexp)
          refine ⟨?_, ?_, ?_, ?_⟩
          · simpa only [secU] using a
          · simpa only [secN] using b
          · simpa only [secN] using c
          · simp only [secFits, List.all_eq_true]; exact d
        | none =>
          simp only
          have hall : ∀ t ∈ trees, treeN f t = 0 := by
            intro t ht
            have h1 := List.findIdx?_eq_none_iff.1 hfi t ht
            have h2 : treeExplored (f + 1) t = true := by simpa using h1
            rw [((fits_stable f).2 _ (h _ ht)).2.2.2] at h2
            exact ((explored_iff f).2 t).1 h2
          have hzero : (trees.map (treeN f)).sum = 0 := by
            rw [sum_eq_zero_iff]; intro x hx; rw [List.mem_map] at hx; obtain ⟨t, ht, rfl⟩ := hx; exact hall t ht
          by_cases hemp : trees.isEmpty = true
          · -- no branch at all
            simp only [hemp, if_true]
            exact same (by omega)
          · simp only [hemp]
            have hlen : trees.length - 1 < trees.length := by
              have : trees ≠ [] := by simpa using hemp
              have := List.length_pos_iff.2 this
              omega
            have hget : trees[trees.length - 1]? = some trees[trees.length - 1] := by simp [hlen]
            simp only [Bool.false_eq_true, if_false]
            rw [hget]
            simp only
            obtain ⟨a, b, c, d⟩ := nested_facts f ih trees h _ _ hget (by rw [hzero]; intro hp; omega)
            refine ⟨?_, ?_, ?_, ?_⟩
            · simpa only [secU] using a
            · simpa only [secN] using b
            · simpa only [secN] using c
            · simp only [secFits, List.all_eq_true]; exact d
    refine ⟨hsec, ?_⟩
    intro t h
    simp only [treeFits, List.all_eq_true] at h
    rw [treePass_succ]
    simp only
    refine ⟨?_, ?_, ?_, ?_⟩
    · intro x hx
      simp only [treeU, List.mem_flatten, List.mem_map] at hx ⊢
      obtain ⟨l, ⟨s, hs, rfl⟩, hxl⟩ := hx
      rcases (ih.sec s (h s hs)).1 x hxl with h1 | h1
      · exact Or.inl ⟨_, ⟨s, hs, rfl⟩, h1⟩
      · exact Or.inr ⟨_, ⟨_, ⟨s, hs, rfl⟩, rfl⟩, h1⟩
    · simp only [treeN, List.map_map]
      exact maxL_map_le t _ _ (fun s hs => (ih.sec s (h s hs)).2.1)
    · intro hpos
      simp only [treeN, List.map_map] at hpos ⊢
      exact maxL_map_lt t _ _ (fun s hs => (ih.sec s (h s hs)).2.1) (fun s hs => (ih.sec s (h s hs)).2.2.1) hpos
    · simp only [treeFits, List.all_eq_true, List.mem_map]
      rintro s' ⟨s, hs, rfl⟩
      exact (ih.sec s (h s hs)).2.2.2


/-! ### the iteration -/

/-- every token of an unexplored flat section ends up in some pass, provided the iteration is allowed
    as many passes as there are unexplored flat sections -/
theorem passesGo_cover (df : Nat) (n : Nat) (t : DTree) (hfit : treeFits df t = true) (hn : treeN df t ≤ n) :
    ∀ x ∈ treeU df t, ∃ p ∈ passesGo df n t, x ∈ p := by
  induction n generalizing t with
  | zero =>
    intro x hx
    have : treeN df t = 0 := by omega
    rw [(U_nil_of_N_zero df).2 t this] at hx
    simp at hx
  | succ k ih =>
    intro x hx
    obtain ⟨ha, hb, hc, hd⟩ := (passFacts df).tree t hfit
    unfold passesGo
    simp only
    rcases ha x hx with h1 | h1
    · split
      · exact ⟨_, by simp, h1⟩
      · exact ⟨_, by simp, h1⟩
    · split
      · rename_i hexp
        have hz := ((explored_iff df).2 _).1 hexp
        rw [(U_nil_of_N_zero df).2 _ hz] at h1
        simp at h1
      · have hpos : 0 < treeN df t := by
          cases hz : treeN df t with
          | zero => rw [(U_nil_of_N_zero df).2 t hz] at hx; simp at hx
          | succ m => omega
        have hlt := hc hpos
        obtain ⟨p, hp, hxp⟩ := ih _ hd (by omega) x h1
        exact ⟨p, by simp [hp], hxp⟩


/-! ### more fuel never hurts -/

theorem fits_mono (f d : Nat) :
    (∀ s, secFits f s = true → secFits (f + d) s = true ∧ secN (f + d) s = secN f s ∧ secU (f + d) s = secU f s) ∧
    (∀ t, treeFits f t = true → treeFits (f + d) t = true ∧ treeN (f + d) t = treeN f t ∧ treeU (f + d) t = treeU f t) := by
  induction d with
  | zero => exact ⟨fun s h => ⟨h, rfl, rfl⟩, fun t h => ⟨h, rfl, rfl⟩⟩
  | succ d ih =>
    refine ⟨?_, ?_⟩
    · intro s h
      obtain ⟨h1, h2, h3⟩ := ih.1 s h
      obtain ⟨g1, g2, g3, _⟩ := (fits_stable (f + d)).1 s h1
      exact ⟨g1, by rw [← h2]; exact g2, by rw [← h3]; exact g3⟩
    · intro t h
      obtain ⟨h1, h2, h3⟩ := ih.2 t h
      obtain ⟨g1, g2, g3, _⟩ := (fits_stable (f + d)).2 t h1
      exact ⟨g1, by rw [← h2]; exact g2, by rw [← h3]; exact g3⟩

theorem secFits_le {f f' : Nat} (hle : f ≤ f') {s : DSection} (h : secFits f s = true) :
    secFits f' s = true ∧ secN f' s = secN f s ∧ secU f' s = secU f s := by
  have := (fits_mono f (f' - f)).1 s h
  have e : f + (f' - f) = f' := by omega
  rwa [e] at this

theorem treeFits_le {f f' : Nat} (hle : f ≤ f') {t : DTree} (h : treeFits f t = true) :
    treeFits f' t = true ∧ treeN f' t = treeN f t ∧ treeU f' t = treeU f t := by
  have := (fits_mono f (f' - f)).2 t h
  have e : f + (f' - f) = f' := by omega
  rwa [e] at this

/-! ### what `parse_flat` consumes, exactly -/

theorem parseFlat_exact (toks : List (Nat × RawKind)) (i0 : Nat) (start : Option Nat) (lo hi : Nat)
    (hc : Consec toks i0)
    (hinv : (start = none ∧ lo = hi) ∨ (start = some lo ∧ lo ≤ hi ∧ hi = i0)) :
    ∃ (k d lo' hi' : Nat) (c : Option ConditionalDirectiveKind),
      parseFlat start lo hi toks = (.flat false lo' hi', c, toks.drop (k + d)) ∧
      k + d ≤ toks.length ∧
      ((k = 0 ∧ lo' = lo ∧ hi' = hi) ∨ (0 < k ∧ lo' = start.getD i0 ∧ hi' = i0 + k)) ∧
      (∀ p ∈ toks.take k, condKind? p.2 = none) ∧
      (c = none → d = 0 ∧ k = toks.length) ∧
      (c ≠ none → d = 1 ∧ ∀ q, toks[k]? = some q → condKind? q.2 ≠ none) := by
  induction toks generalizing i0 start lo hi with
  | nil =>
    exact ⟨0, 0, lo, hi, none, by simp [parseFlat], by simp, Or.inl ⟨rfl, rfl, rfl⟩, by simp, by simp, by simp⟩
  | cons x r ih =>
    obtain ⟨idx, kd⟩ := x
    have hidx : idx = i0 := hc.head
    subst hidx
    rw [parseFlat]
    cases hk : condKind? kd with
    | some c =>
      simp only
      refine ⟨0, 1, lo, hi, some c, by simp, by simp, Or.inl ⟨rfl, rfl, rfl⟩, by simp, by simp, ?_⟩
      intro _
      refine ⟨rfl, ?_⟩
      intro q hq
      simp at hq; subst hq
      simp [hk]
    | none =>
      simp only
      have hs' : start.getD idx ≤ idx := by
        rcases hinv with ⟨hs, _⟩ | ⟨hs, h1, h2⟩
        · rw [hs]; simp
        · rw [hs]; simp; omega
      obtain ⟨k, d, lo', hi', c, heq, hle, hfl, hnc, hnone, hsome⟩ :=
        ih (idx + 1) (some (start.getD idx)) (start.getD idx) (idx + 1) hc.tail (Or.inr ⟨rfl, by omega, rfl⟩)
      refine ⟨k + 1, d, lo', hi', c, ?_, by simp; omega, ?_, ?_, ?_, ?_⟩
      rotate_left 4
      · intro hcn
        obtain ⟨h1, h2⟩ := hsome hcn
        exact ⟨h1, by intro q hq; exact h2 q (by simpa using hq)⟩
      · rw [heq]; congr 2
        have e : k + 1 + d = (k + d) + 1 := by omega
        rw [e, List.drop_succ_cons]
      · right
        rcases hfl with ⟨h0, h1, h2⟩ | ⟨h0, h1, h2⟩
        · subst h0; exact ⟨by omega, by rw [h1], by rw [h2]⟩
        · simp only [Option.getD_some] at h1; exact ⟨by omega, h1, by omega⟩
      · intro p hp
        rw [List.take_succ_cons] at hp
        rcases List.mem_cons.1 hp with rfl | hp'
        · exact hk
        · exact hnc p hp'
      · intro hcn
        obtain ⟨h1, h2⟩ := hnone hcn
        exact ⟨h1, by simp [h2]⟩


/-! ### what parsing the directive tree guarantees -/

theorem Consec.drop {toks : List (Nat × RawKind)} {i0 : Nat} (h : Consec toks i0) (c : Nat) :
    Consec (toks.drop c) (i0 + c) := by
  intro j hj
  simp only [List.length_drop] at hj
  have := h (c + j) (by omega)
  simp only [List.getElem_drop]
  omega

theorem maxL_le_of_forall (l : List Nat) (b : Nat) (h : ∀ x ∈ l, x ≤ b) : maxL l ≤ b := by
  induction l with
  | nil => simp [maxL]
  | cons a r ih =>
    rw [maxL_cons]
    have := h a (by simp)
    have := ih (fun x hx => h x (by simp [hx]))
    omega

/-- 1 when the directive ends a branch with `{$else}` / `{$elseif}` -/
def eOf : Option ConditionalDirectiveKind → Nat
  | some c => if c.isElse then 1 else 0
  | none => 0

def tOf : Option ConditionalDirectiveKind → Nat
  | some _ => 1
  | none => 0

theorem eOf_le_tOf (c : Option ConditionalDirectiveKind) : eOf c ≤ tOf c := by
  cases c with
  | none => simp [eOf, tOf]
  | some x => simp only [eOf, tOf]; split <;> omega

/-- the sections `new` built from the first `c` tokens of `toks`; `t` = 1 when the directive that ended
    the scan was consumed too -/
structure SecsGood (new : DTree) (toks : List (Nat × RawKind)) (c t : Nat) : Prop where
  tle : t ≤ c
  fits : ∀ F, 2 * c + 1 ≤ F → ∀ s ∈ new, secFits F s = true
  need : ∀ F, 2 * c + 1 ≤ F → ∀ s ∈ new, secN F s ≤ c + 1 - t
  cover : ∀ F, 2 * c + 1 ≤ F → ∀ p ∈ toks.take c, condKind? p.2 = none → p.1 ∈ (new.map (secU F)).flatten

/-- tree-level consequences for a branch -/
theorem SecsGood.tree {new : DTree} {toks : List (Nat × RawKind)} {c t : Nat} (h : SecsGood new toks c t) :
    ∀ F, 2 * c + 2 ≤ F → treeFits F new = true ∧ treeN F new ≤ c + 1 - t ∧
      ∀ p ∈ toks.take c, condKind? p.2 = none → p.1 ∈ treeU F new := by
  intro F hF
  cases F with
  | zero => omega
  | succ f =>
    refine ⟨?_, ?_, ?_⟩
    · simp only [treeFits, List.all_eq_true]; exact h.fits f (by omega)
    · simp only [treeN]
      apply maxL_le_of_forall
      intro x hx
      rw [List.mem_map] at hx
      obtain ⟨s, hs, rfl⟩ := hx
      exact h.need f (by omega) s hs
    · intro p hp hnc
      simp only [treeU]
      exact h.cover f (by omega) p hp hnc

structure ParseFacts (g : Nat) : Prop where
  next : ∀ (topLevel : Bool) (acc : DTree) (toks : List (Nat × RawKind)) (i0 : Nat), Consec toks i0 →
    ∃ (new : DTree) (c : Nat), c ≤ toks.length ∧
      (parseNext g topLevel acc toks).1 = acc.reverse ++ new ∧
      (parseNext g topLevel acc toks).2.2 = toks.drop c ∧
      SecsGood new toks c (tOf (parseNext g topLevel acc toks).2.1)
  nested : ∀ (toks : List (Nat × RawKind)) (i0 : Nat), Consec toks i0 →
    ∃ c : Nat, c ≤ toks.length ∧ (parseNested g toks).2 = toks.drop c ∧
      (∀ F, 2 * c + 3 ≤ F → secFits F (parseNested g toks).1 = true ∧ secN F (parseNested g toks).1 ≤ c + 1) ∧
      (∀ F, 2 * c + 3 ≤ F → ∀ p ∈ toks.take c, condKind? p.2 = none → p.1 ∈ secU F (parseNested g toks).1)
  els : ∀ (acc : List DTree) (cdk : Option ConditionalDirectiveKind) (toks : List (Nat × RawKind)) (i0 : Nat),
    Consec toks i0 →
    ∃ (newB : List DTree) (c : Nat), c ≤ toks.length ∧
      parseNestedElse g acc cdk toks = (.nested (acc.reverse ++ newB), toks.drop c) ∧
      (∀ F, 2 * c + 2 ≤ F → ∀ b ∈ newB, treeFits F b = true) ∧
      (∀ F, 2 * c + 2 ≤ F → (newB.map (treeN F)).sum ≤ c + eOf cdk) ∧
      (∀ F, 2 * c + 2 ≤ F → ∀ p ∈ toks.take c, condKind? p.2 = none → p.1 ∈ (newB.map (treeU F)).flatten)

/-- the flat section made from the first `k` tokens -/
theorem flat_good (toks : List (Nat × RawKind)) (i0 k lo' hi' : Nat) (hc : Consec toks i0) (hk : k ≤ toks.length)
    (hfl : (k = 0 ∧ lo' = 0 ∧ hi' = 0) ∨ (0 < k ∧ lo' = i0 ∧ hi' = i0 + k)) (F : Nat) :
    secFits F (.flat false lo' hi') = true ∧ secN F (.flat false lo' hi') = 1 ∧
    ∀ p ∈ toks.take k, p.1 ∈ secU F (.flat false lo' hi') := by
  refine ⟨by cases F <;> simp [secFits], by cases F <;> simp [secN], ?_⟩
  intro p hp
  rcases hfl with ⟨h0, _, _⟩ | ⟨hpos, h1, h2⟩
  · subst h0; simp at hp
  · rw [h1, h2]
    have hU : secU F (.flat false i0 (i0 + k)) = (List.range (i0 + k - i0)).map (· + i0) := by
      cases F <;> simp [secU]
    rw [hU]
    obtain ⟨j, hj, hpj⟩ := List.getElem_of_mem hp
    simp only [List.length_take] at hj
    have hjl : j < toks.length := by omega
    have := hc j hjl
    rw [List.getElem_take] at hpj
    rw [← hpj, this, List.mem_map]
    exact ⟨j, by rw [List.mem_range]; omega, by omega⟩


theorem take_add_mem {α : Type} (l : List α) (a b : Nat) (p : α) (h : p ∈ l.take (a + b)) :
    p ∈ l.take a ∨ p ∈ (l.drop a).take b := by
  rw [List.take_add] at h
  exact List.mem_append.1 h

/-- membership in the first `k + 1` tokens when token `k` is a conditional directive -/
theorem take_succ_cond (toks : List (Nat × RawKind)) (k : Nat) (p : Nat × RawKind) (hp : p ∈ toks.take (k + 1))
    (hnc : condKind? p.2 = none) (hcond : ∀ q, toks[k]? = some q → condKind? q.2 ≠ none) : p ∈ toks.take k := by
  rcases take_add_mem toks k 1 p hp with h | h
  · exact h
  · exfalso
    cases hd : toks.drop k with
    | nil => rw [hd] at h; simp at h
    | cons q r =>
      rw [hd] at h
      simp at h; subst h
      have : toks[k]? = some p := by
        have := congrArg (fun x => x[0]?) hd
        simpa [List.getElem?_drop] using this
      exact hcond p this hnc

theorem parseFacts (g : Nat) : ParseFacts g := by
  induction g with
  | zero =>
    refine ⟨?_, ?_, ?_⟩
    · intro topLevel acc toks i0 hc
      refine ⟨[], 0, by omega, by simp [parseNext], by simp [parseNext], ?_⟩
      simp only [parseNext, tOf]
      exact ⟨by omega, by intro F _ s hs; simp at hs, by intro F _ s hs; simp at hs, by intro F _ p hp; simp at hp⟩
    · intro toks i0 hc
      refine ⟨0, by omega, by simp [parseNested], ?_, ?_⟩
      · intro F hF
        cases F with
        | zero => omega
        | succ f => simp [parseNested, secFits, secN]
      · intro F _ p hp; simp at hp
    · intro acc cdk toks i0 hc
      exact ⟨[], 0, by omega, by simp [parseNestedElse], by intro F _ b hb; simp at hb, by intro F _; simp,
        by intro F _ p hp; simp at hp⟩
  | succ g ih =>
    refine ⟨?_, ?_, ?_⟩
    · -- parseNext
      intro topLevel acc toks i0 hc
      rw [parseNext]
      obtain ⟨k, d, lo', hi', c, heq, hle, hfl, hnc, hnone, hsome⟩ :=
        parseFlat_exact toks i0 none 0 0 hc (Or.inl ⟨rfl, rfl⟩)
      simp only [Option.getD_none] at hfl
      rw [heq]
      simp only
      have hk : k ≤ toks.length := by omega
      have hflat := flat_good toks i0 k lo' hi' hc hk hfl
      cases c with
      | none =>
        obtain ⟨hd0, hkl⟩ := hnone rfl
        subst hd0
        simp only
        refine ⟨[.flat false lo' hi'], k, hk, by simp, by simp, ?_⟩
        simp only [tOf]
        refine ⟨by omega, ?_, ?_, ?_⟩
        · intro F _ s hs; simp at hs; subst hs; exact (hflat F).1
        · intro F _ s hs; simp at hs; subst hs; rw [(hflat F).2.1]; omega
        · intro F _ p hp _; simpa using (hflat F).2.2 p hp
      | some cd =>
        obtain ⟨hd1, hcondk⟩ := hsome (by simp)
        subst hd1
        simp only
        split
        · -- `if`: a nested section, then the rest
          obtain ⟨cn, hcn, hrestn, hgoodn, hcovn⟩ := ih.nested (toks.drop (k + 1)) (i0 + (k + 1)) (hc.drop _)
          generalize hres : parseNested g (toks.drop (k + 1)) = res at hrestn hgoodn hcovn
          obtain ⟨nested, rest'⟩ := res
          simp only at hrestn hgoodn hcovn ⊢
          subst hrestn
          rw [List.drop_drop] at *
          obtain ⟨new2, c2, hc2, htree2, hrest2, hgood2⟩ :=
            ih.next topLevel (nested :: .flat false lo' hi' :: acc) (toks.drop (k + 1 + cn)) (i0 + (k + 1 + cn))
              (hc.drop _)
          simp only [List.length_drop] at hcn hc2
          refine ⟨.flat false lo' hi' :: nested :: new2, k + 1 + cn + c2, by omega, ?_, ?_, ?_⟩
          · rw [htree2]; simp
          · rw [hrest2, List.drop_drop]
          · have ht2 := hgood2.tle
            refine ⟨by omega, ?_, ?_, ?_⟩
            · intro F hF s hs
              simp only [List.mem_cons] at hs
              rcases hs with rfl | rfl | hs
              · exact (hflat F).1
              · exact (hgoodn F (by omega)).1
              · exact hgood2.fits F (by omega) s hs
            · intro F hF s hs
              simp only [List.mem_cons] at hs
              rcases hs with rfl | rfl | hs
              · rw [(hflat F).2.1]; omega
              · have := (hgoodn F (by omega)).2; omega
              · have := hgood2.need F (by omega) s hs; omega
            · intro F hF p hp hnp
              simp only [List.map_cons, List.flatten_cons, List.mem_append]
              have e : k + 1 + cn + c2 = (k + 1) + (cn + c2) := by omega
              rw [e] at hp
              rcases take_add_mem toks (k + 1) (cn + c2) p hp with h1 | h1
              · exact Or.inl ((hflat F).2.2 p (take_succ_cond toks k p h1 hnp hcondk))
              · rcases take_add_mem (toks.drop (k + 1)) cn c2 p h1 with h2 | h2
                · exact Or.inr (Or.inl (hcovn F (by omega) p h2 hnp))
                · rw [List.drop_drop] at h2
                  exact Or.inr (Or.inr (hgood2.cover F (by omega) p h2 hnp))
        · split
          · -- top level: the directive is skipped
            obtain ⟨new2, c2, hc2, htree2, hrest2, hgood2⟩ :=
              ih.next topLevel (.flat false lo' hi' :: acc) (toks.drop (k + 1)) (i0 + (k + 1)) (hc.drop _)
            simp only [List.length_drop] at hc2
            refine ⟨.flat false lo' hi' :: new2, k + 1 + c2, by omega, ?_, ?_, ?_⟩
            · rw [htree2]; simp
            · rw [hrest2, List.drop_drop]
            · have ht2 := hgood2.tle
              refine ⟨by omega, ?_, ?_, ?_⟩
              · intro F hF s hs
                simp only [List.mem_cons] at hs
                rcases hs with rfl | hs
                · exact (hflat F).1
                · exact hgood2.fits F (by omega) s hs
              · intro F hF s hs
                simp only [List.mem_cons] at hs
                rcases hs with rfl | hs
                · rw [(hflat F).2.1]; omega
                · have := hgood2.need F (by omega) s hs; omega
              · intro F hF p hp hnp
                simp only [List.map_cons, List.flatten_cons, List.mem_append]
                rcases take_add_mem toks (k + 1) c2 p hp with h1 | h1
                · exact Or.inl ((hflat F).2.2 p (take_succ_cond toks k p h1 hnp hcondk))
                · exact Or.inr (hgood2.cover F (by omega) p h1 hnp)
          · -- a branch ends here
            simp only
            refine ⟨[.flat false lo' hi'], k + 1, by omega, by simp, rfl, ?_⟩
            simp only [tOf]
            refine ⟨by omega, ?_, ?_, ?_⟩
            · intro F _ s hs; simp at hs; subst hs; exact (hflat F).1
            · intro F _ s hs; simp at hs; subst hs; rw [(hflat F).2.1]; omega
            · intro F _ p hp hnp
              simpa using (hflat F).2.2 p (take_succ_cond toks k p hp hnp hcondk)
    · -- parseNested
      intro toks i0 hc
      rw [parseNested]
      obtain ⟨new1, c1, hc1, htree1, hrest1, hgood1⟩ := ih.next false [] toks i0 hc
      generalize hres : parseNext g false [] toks = res at htree1 hrest1 hgood1
      obtain ⟨ifTree, cdk, rest⟩ := res
      simp only [List.reverse_nil, List.nil_append] at htree1 hrest1 hgood1 ⊢
      subst htree1 hrest1
      obtain ⟨newB, c2, hc2, heq2, hfit2, hneed2, hcov2⟩ := ih.els [ifTree] cdk (toks.drop c1) (i0 + c1) (hc.drop _)
      simp only [List.length_drop] at hc2
      rw [heq2]
      simp only [List.reverse_cons, List.reverse_nil, List.nil_append, List.singleton_append, List.drop_drop]
      have ht := hgood1.tle
      have hte := eOf_le_tOf cdk
      refine ⟨c1 + c2, by omega, rfl, ?_, ?_⟩
      · intro F hF
        cases F with
        | zero => omega
        | succ f =>
          obtain ⟨hf1, hn1, _⟩ := hgood1.tree f (by omega)
          refine ⟨?_, ?_⟩
          · simp only [secFits, List.all_cons, Bool.and_eq_true, List.all_eq_true]
            exact ⟨hf1, hfit2 f (by omega)⟩
          · simp only [secN, List.map_cons, List.sum_cons]
            have := hneed2 f (by omega)
            omega
      · intro F hF p hp hnp
        cases F with
        | zero => omega
        | succ f =>
          simp only [secU, List.map_cons, List.flatten_cons, List.mem_append]
          rcases take_add_mem toks c1 c2 p hp with h1 | h1
          · exact Or.inl ((hgood1.tree f (by omega)).2.2 p h1 hnp)
          · exact Or.inr (hcov2 f (by omega) p h1 hnp)
    · -- parseNestedElse
      intro acc cdk toks i0 hc
      rw [parseNestedElse.eq_def]
      simp only
      have done : ∃ (newB : List DTree) (c : Nat), c ≤ toks.length ∧
          (DSection.nested acc.reverse, toks) = (DSection.nested (acc.reverse ++ newB), toks.drop c) ∧
          (∀ F, 2 * c + 2 ≤ F → ∀ b ∈ newB, treeFits F b = true) ∧
          (∀ F, 2 * c + 2 ≤ F → (newB.map (treeN F)).sum ≤ c + eOf cdk) ∧
          (∀ F, 2 * c + 2 ≤ F → ∀ p ∈ toks.take c, condKind? p.2 = none → p.1 ∈ (newB.map (treeU F)).flatten) :=
        ⟨[], 0, by omega, by simp, by intro F _ b hb; simp at hb, by intro F _; simp, by intro F _ p hp; simp at hp⟩
      cases cdk with
      | none => exact done
      | some cd =>
        simp only
        split
        · rename_i hel
          obtain ⟨new1, c1, hc1, htree1, hrest1, hgood1⟩ := ih.next false [] toks i0 hc
          generalize hres : parseNext g false [] toks = res at htree1 hrest1 hgood1
          obtain ⟨tree, next, rest⟩ := res
          simp only [List.reverse_nil, List.nil_append] at htree1 hrest1 hgood1 ⊢
          subst htree1 hrest1
          obtain ⟨newB, c2, hc2, heq2, hfit2, hneed2, hcov2⟩ :=
            ih.els (tree :: acc) next (toks.drop c1) (i0 + c1) (hc.drop _)
          simp only [List.length_drop] at hc2
          rw [heq2]
          have ht := hgood1.tle
          have hte := eOf_le_tOf next
          refine ⟨tree :: newB, c1 + c2, by omega, by simp [List.drop_drop], ?_, ?_, ?_⟩
          · intro F hF b hb
            rcases List.mem_cons.1 hb with rfl | hb'
            · exact (hgood1.tree F (by omega)).1
            · exact hfit2 F (by omega) b hb'
          · intro F hF
            simp only [List.map_cons, List.sum_cons, eOf, hel, if_true]
            have := (hgood1.tree F (by omega)).2.1
            have := hneed2 F (by omega)
            omega
          · intro F hF p hp hnp
            simp only [List.map_cons, List.flatten_cons, List.mem_append]
            rcases take_add_mem toks c1 c2 p hp with h1 | h1
            · exact Or.inl ((hgood1.tree F (by omega)).2.2 p h1 hnp)
            · exact Or.inr (hcov2 F (by omega) p h1 hnp)
        · exact done


/-! ### the top level consumes everything -/

theorem top_consumes_all (g : Nat) (acc : DTree) (toks : List (Nat × RawKind)) (i0 : Nat) (hc : Consec toks i0)
    (hg : toks.length < g) : (parseNext g true acc toks).2.2 = [] := by
  induction g generalizing acc toks i0 with
  | zero => omega
  | succ g ih =>
    rw [parseNext]
    obtain ⟨k, d, lo', hi', c, heq, hle, _, _, hnone, hsome⟩ :=
      parseFlat_exact toks i0 none 0 0 hc (Or.inl ⟨rfl, rfl⟩)
    rw [heq]
    simp only
    cases c with
    | none =>
      obtain ⟨hd0, hkl⟩ := hnone rfl
      simp only
      rw [hd0, hkl]; simp
    | some cd =>
      obtain ⟨hd1, _⟩ := hsome (by simp)
      subst hd1
      simp only
      split
      · obtain ⟨cn, hcn, hrestn, _, _⟩ := (parseFacts g).nested (toks.drop (k + 1)) (i0 + (k + 1)) (hc.drop _)
        generalize hres : parseNested g (toks.drop (k + 1)) = res at hrestn
        obtain ⟨nested, rest'⟩ := res
        simp only at hrestn ⊢
        subst hrestn
        rw [List.drop_drop]
        exact ih _ _ (i0 + (k + 1 + cn)) (hc.drop _) (by simp only [List.length_drop]; omega)
      · simp only [if_true]
        exact ih _ _ (i0 + (k + 1)) (hc.drop _) (by simp only [List.length_drop]; omega)

/-- **Every token that is not a conditional directive is contained in some pass.** -/
theorem passes_cover (kinds : List RawKind) (i : Nat) (hi : i < kinds.length)
    (hnc : condKind? kinds[i] = none) : ∃ p ∈ passes kinds, i ∈ p := by
  unfold passes parseTree
  simp only
  have hfun : (fun (x : RawKind × Nat) => (x.2, x.1)) = (fun x => match x with | (k, i) => (i, k)) := by
    funext x; rfl
  rw [← hfun]
  generalize htoks : (kinds.zipIdx 0).map (fun (x : RawKind × Nat) => (x.2, x.1)) = toks
  have hlen : toks.length = kinds.length := by rw [← htoks]; simp
  have hmemi : (i, kinds[i]) ∈ toks := by
    rw [← htoks, List.mem_map]
    refine ⟨(kinds[i], i), ?_, rfl⟩
    rw [List.mem_zipIdx_iff_getElem?]
    simp [hi]
  have hc : Consec toks 0 := by
    subst htoks
    intro j hj
    have := zipIdx_swap_idx kinds 0 j hj
    simpa using this
  obtain ⟨new, c, hcl, htree, hrest, hgood⟩ := (parseFacts (3 * kinds.length + 3)).next true [] toks 0 hc
  have hall := top_consumes_all (3 * kinds.length + 3) [] toks 0 hc (by omega)
  rw [hall] at hrest
  have hcn : c = toks.length := by
    have := congrArg List.length hrest
    simp only [List.length_nil, List.length_drop] at this
    omega
  simp only [List.reverse_nil, List.nil_append] at htree
  rw [htree]
  have hdf : 2 * c + 2 ≤ 2 * kinds.length + 4 := by omega
  obtain ⟨hfit, hneed, hcov⟩ := hgood.tree (2 * kinds.length + 4) hdf
  have hmem : (i, kinds[i]) ∈ toks.take c := by
    rw [hcn, List.take_length]; exact hmemi
  have hU := hcov (i, kinds[i]) hmem hnc
  exact passesGo_cover _ _ new hfit (by omega) i hU

end Pasfmt
