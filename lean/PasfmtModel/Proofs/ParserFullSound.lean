/-
  The model of the whole parser (`Model/ParserFull.lean`) builds its lines through the primitive machine only:
  the line builder's state is carried together with the trace that produced it (`Traced`), so for every input the
  lines of every conditional-directive pass are the result of running the issued trace from the initial state.
  Hence every theorem that holds for all traces (C14) holds for the parser model, with no hypothesis on control flow.
-/
import PasfmtModel.Model.ParserFull
import PasfmtModel.Proofs.PipelineC01

namespace Pasfmt

/-- the lines of one pass are what the machine makes of the pass's trace -/
def PassOK (kinds0 : List RawKind) (lines : List PLine) (pt : List Nat × List POp) : Prop :=
  ∃ s, MState.init.run kinds0 pt.1 pt.2 = some s ∧ s.lines = lines ∧ pt.1.length ≤ s.passIdx ∧
    ∀ j ∈ skippedRun kinds0 pt.1 MState.init pt.2, ∃ tok, pt.1[j]? = some tok ∧ kinds0[tok]? = some .rCompilerDirective

theorem all2_reverse {α β : Type} {R : α → β → Prop} {as : List α} {bs : List β} (h : All2 R as bs) :
    All2 R as.reverse bs.reverse := by
  have app : ∀ {as1 : List α} {bs1 : List β} {as2 : List α} {bs2 : List β}, All2 R as1 bs1 → All2 R as2 bs2 → All2 R (as1 ++ as2) (bs1 ++ bs2) := by
    intro as1 bs1 as2 bs2 h1 h2
    induction h1 with
    | nil => exact h2
    | cons hab _ ih => exact .cons hab ih
  induction h with
  | nil => exact .nil
  | cons hab _ ih =>
    rw [List.reverse_cons, List.reverse_cons]
    exact app ih (.cons hab .nil)

open PFull in
theorem runPasses_ok (kinds0 : List RawKind) (nl : Array Bool) (fuel : Nat) :
    ∀ (ps : List (List Nat)) (kinds : Array RawKind) (ls : List (List PLine)) (trs : List (List Nat × List POp))
      (kinds' : Array RawKind) (L : List (List PLine)) (T : List (List Nat × List POp)),
      All2 (PassOK kinds0) ls trs →
      runPasses kinds0 nl fuel ps kinds ls trs = some (kinds', L, T) →
      All2 (PassOK kinds0) L T ∧ T.map (·.1) = (trs.map (·.1)).reverse ++ ps
  | [], kinds, ls, trs, kinds', L, T, hacc, h => by
    simp only [runPasses, Option.some.injEq, Prod.mk.injEq] at h
    obtain ⟨_, rfl, rfl⟩ := h
    exact ⟨all2_reverse hacc, by simp [List.map_reverse]⟩
  | pass :: rest, kinds, ls, trs, kinds', L, T, hacc, h => by
    unfold runPasses at h
    split at h
    · simp at h
    · rename_i s hs
      split at h
      · rename_i hg
        obtain ⟨hk, hp, hdone⟩ := hg
        subst hk
        subst hp
        split at h
        · simp at h
        · rename_i kinds2 hc
          have hok : PassOK s.kinds0 s.m.lines (s.pass, s.trace.reverse) := ⟨s.m, s.mt.ok, rfl, hdone, s.mt.skipOk⟩
          obtain ⟨r1, r2⟩ := runPasses_ok s.kinds0 nl fuel rest kinds2 (s.m.lines :: ls) ((s.pass, s.trace.reverse) :: trs)
            kinds' L T (.cons hok hacc) h
          refine ⟨r1, ?_⟩
          rw [r2]
          simp
      · simp at h

open PFull in
/-- what an answer of `parseFileFull` consists of -/
theorem parseFileFull_spec (toks : List (RawKind × Bool)) (o : ParseFullOut) (h : parseFileFull toks = some o) :
    ∃ (kinds : Array RawKind) (acc : List PLine),
      runPasses (toks.map (·.1)) ((toks.map (·.2)).toArray) (200 * (toks.length + 10)) (passes (toks.map (·.1)))
        (toks.map (·.1)).toArray [] [] = some (kinds, o.passLines, o.traces) ∧
      consolidateAll [] o.passLines = some acc ∧
      dirKindsKept (toks.map (·.1)) kinds.toList = true ∧
      o.kinds = kinds.toList ∧
      consolidatePass acc (directiveLinesGo (attributedOf kinds.toList o.passLines) 0 kinds.toList.zipIdx) = some o.lines := by
  unfold parseFileFull at h
  simp only at h
  split at h
  · simp at h
  · rename_i kinds passLines traces hr
    split at h
    · simp at h
    · rename_i acc hacc
      split at h
      · simp at h
      · rename_i hk
        split at h
        · simp at h
        · rename_i lines hl
          simp only [Option.some.injEq] at h
          subst h
          refine ⟨kinds, acc, hr, hacc, ?_, rfl, hl⟩
          simpa using hk

open PFull in
/-- **The parser model builds its lines through the machine only.**  For every input on which the model answers:
    the passes are the conditional-directive passes of the file, and the lines of every pass are exactly what the
    primitive machine makes of the trace the control flow issued in that pass (which consumed the whole pass and
    skipped nothing but compiler directives). -/
theorem parseFileFull_passes (toks : List (RawKind × Bool)) (o : ParseFullOut) (h : parseFileFull toks = some o) :
    All2 (PassOK (toks.map (·.1))) o.passLines o.traces ∧ o.traces.map (·.1) = passes (toks.map (·.1)) := by
  obtain ⟨kinds, acc, hr, _, _, _, _⟩ := parseFileFull_spec toks o h
  have := runPasses_ok _ _ _ _ _ _ _ _ _ _ All2.nil hr
  simpa using this

end Pasfmt
