/-
  Locality of the scanner, part 5: every sub-lexer, then `lexOne`.
  If the token found in `y ++ s` ends at least three bytes before the end of `y`, the same token is
  found in `y ++ s'`, for every `s'`.
-/
import PasfmtModel.Proofs.LexLocal4
import PasfmtModel.Proofs.LexTotal

namespace Pasfmt

theorem compilerDirective_pd (trim trim' : Nat) (kind : BlockCommentKind) (openLen tokLen tokLen' : Nat)
    (y s s' : Bytes) (n : Nat) (k : Option ConditionalDirectiveKind) (ht : trim ≤ s.length)
    (htok : tokLen = openLen + (y ++ s).length)
    (h : compilerDirective trim kind openLen tokLen (y ++ s) = some (n, k)) (hn : n + 2 ≤ openLen + y.length) :
    compilerDirective trim' kind openLen tokLen' (y ++ s') = some (n, k) := by
  unfold compilerDirective at h ⊢
  unfold parseDirectiveExpr at h ⊢
  simp only at h ⊢
  have hnl := conditionalDirectiveType_le (y ++ s)
  by_cases hx : isExprDirective (conditionalDirectiveType (y ++ s)).2 = true
  · simp only [hx, if_true] at h
    cases hf : findDirectiveExprEnd trim (directiveFuel (y ++ s)) kind ((y ++ s).drop (conditionalDirectiveType (y ++ s)).1) with
    | none => rw [hf] at h; simp [shiftEnd] at h
    | some oe =>
      cases oe with
      | none =>
        rw [hf] at h
        simp only [shiftEnd, Option.some.injEq, Prod.mk.injEq] at h
        simp only [List.length_append] at htok
        omega
      | some e' =>
        rw [hf] at h
        simp only [shiftEnd, Option.some.injEq, Prod.mk.injEq] at h
        obtain ⟨rfl, rfl⟩ := h
        have hname : (conditionalDirectiveType (y ++ s)).1 < y.length := by
          have := (findDirectiveExprEnd_le _ _ _ _ _ hf).1; omega
        have hcdt := conditionalDirectiveType_pd y s s' hname
        rw [hcdt]
        simp only [hx, if_true]
        have hd : ∀ t : Bytes, (y ++ t).drop (conditionalDirectiveType (y ++ s)).1 = y.drop (conditionalDirectiveType (y ++ s)).1 ++ t :=
          fun t => List.drop_append_of_le_length (by omega)
        rw [hd s] at hf
        rw [hd s']
        rw [fde_pd trim trim' _ (directiveFuel (y ++ s')) kind _ s s' e' ht
          (by unfold directiveFuel; simp only [List.length_append, List.length_drop]; omega) hf
          (by simp only [List.length_drop]; omega)]
        simp [shiftEnd]
  · simp only [hx, Bool.false_eq_true, if_false] at h
    cases hf : findBlockCommentEnd kind ((y ++ s).drop (conditionalDirectiveType (y ++ s)).1) with
    | none =>
      rw [hf] at h
      simp only [shiftEnd, Option.some.injEq, Prod.mk.injEq] at h
      simp only [List.length_append] at htok
      omega
    | some e' =>
      rw [hf] at h
      simp only [shiftEnd, Option.some.injEq, Prod.mk.injEq] at h
      obtain ⟨rfl, rfl⟩ := h
      have hname : (conditionalDirectiveType (y ++ s)).1 < y.length := by
        have := (findBlockCommentEnd_le _ _ _ hf).1; omega
      have hcdt := conditionalDirectiveType_pd y s s' hname
      rw [hcdt]
      simp only [hx, Bool.false_eq_true, if_false]
      have hd : ∀ t : Bytes, (y ++ t).drop (conditionalDirectiveType (y ++ s)).1 = y.drop (conditionalDirectiveType (y ++ s)).1 ++ t :=
        fun t => List.drop_append_of_le_length (by omega)
      rw [hd s] at hf
      rw [hd s']
      rw [findBlockCommentEnd_pd kind _ s s' e' hf (by simp only [List.length_drop]; omega)]
      simp [shiftEnd]

theorem blockComment_pd (trim trim' : Nat) (kind : BlockCommentKind) (openLen tokLen tokLen' : Nat) (nlb : Bool)
    (y s s' : Bytes) (ht : trim ≤ s.length) (htok : tokLen = openLen + (y ++ s).length)
    (hn : (blockComment trim kind openLen tokLen nlb (y ++ s)).1 + 1 ≤ openLen + y.length) :
    blockComment trim' kind openLen tokLen' nlb (y ++ s') = blockComment trim kind openLen tokLen nlb (y ++ s) := by
  unfold blockComment at hn ⊢
  cases hf : findBlockCommentEnd kind (y ++ s) with
  | none =>
    rw [hf] at hn
    simp only [List.length_append] at htok hn
    omega
  | some e =>
    rw [hf] at hn
    simp only at hn
    rw [findBlockCommentEnd_pd kind y s s' e hf (by omega)]
    simp only
    rw [List.take_append_of_le_length (by omega), List.take_append_of_le_length (by omega)]


theorem runSub_pd_slash (st : LexState) (b a1 a2 a3 : UInt8) (y3 s s' : Bytes) (nlb : Bool)
    (tF tF' : Unit → Nat) (o : LexOut)
    (h : runSub st .slash b (a1 :: a2 :: a3 :: (y3 ++ s)) nlb tF false = some o) (hlen : o.len + 3 ≤ y3.length + 4) :
    runSub st .slash b (a1 :: a2 :: a3 :: (y3 ++ s')) nlb tF' false = some o := by
  unfold runSub at h ⊢
  simp only at h ⊢
  by_cases c1 : a1 = 0x2F
  · subst c1
    simp only [Option.some.injEq] at h ⊢
    subst h
    simp only at hlen
    have e : ∀ u : Bytes, a2 :: a3 :: (y3 ++ u) = (a2 :: a3 :: y3) ++ u := fun _ => rfl
    rw [e s] at hlen ⊢
    rw [e s', lineCommentEnd_pd (a2 :: a3 :: y3) s s' (by simp only [List.length_cons]; omega)]
  · split at h <;> split <;> first | exact h | (exfalso; simp_all)

theorem runSub_pd_lbrace (st : LexState) (b a1 a2 a3 : UInt8) (y3 s s' : Bytes) (nlb : Bool)
    (tF tF' : Unit → Nat) (o : LexOut) (ht : tF () ≤ s.length)
    (h : runSub st .l_brace b (a1 :: a2 :: a3 :: (y3 ++ s)) nlb tF false = some o) (hlen : o.len + 3 ≤ y3.length + 4) :
    runSub st .l_brace b (a1 :: a2 :: a3 :: (y3 ++ s')) nlb tF' false = some o := by
  unfold runSub at h ⊢
  simp only at h ⊢
  by_cases c1 : a1 = 0x24
  · subst c1
    simp only [Option.map_eq_some_iff] at h ⊢
    obtain ⟨⟨n, k⟩, hcd, rfl⟩ := h
    refine ⟨(n, k), ?_, rfl⟩
    have e : ∀ u : Bytes, a2 :: a3 :: (y3 ++ u) = (a2 :: a3 :: y3) ++ u := fun _ => rfl
    rw [e s] at hcd
    rw [e s']
    exact compilerDirective_pd (tF ()) (tF' ()) .brace 2 _ _ (a2 :: a3 :: y3) s s' n k ht
      (by simp only [List.length_cons, List.length_append]; omega) hcd
      (by simp only [List.length_cons] at hlen ⊢; omega)
  · have hne : ∀ (u : Bytes) (r' : List UInt8), a1 :: a2 :: a3 :: (y3 ++ u) = 0x24 :: r' → False := by
      intro u r' hh; simp only [List.cons.injEq] at hh; exact c1 hh.1
    split at h
    · rename_i r' heq; exact absurd heq (fun hh => hne s r' hh)
    split
    · rename_i r' heq; exact absurd heq (fun hh => hne s' r' hh)
    simp only [Option.some.injEq] at h ⊢
    subst h
    simp only at hlen
    have e : ∀ u : Bytes, a1 :: a2 :: a3 :: (y3 ++ u) = (a1 :: a2 :: a3 :: y3) ++ u := fun _ => rfl
    have key := blockComment_pd (tF ()) (tF' ()) .brace 1 ((a1 :: a2 :: a3 :: (y3 ++ s)).length + 1)
      ((a1 :: a2 :: a3 :: (y3 ++ s')).length + 1) nlb (a1 :: a2 :: a3 :: y3) s s' ht
      (by simp only [List.length_cons, List.length_append]; omega)
      (by rw [← e s]; simp only [List.length_cons] at hlen ⊢; omega)
    rw [← e s, ← e s'] at key
    rw [key]

theorem runSub_pd_lparen (st : LexState) (b a1 a2 a3 : UInt8) (y3 s s' : Bytes) (nlb : Bool)
    (tF tF' : Unit → Nat) (o : LexOut) (ht : tF () ≤ s.length)
    (h : runSub st .l_paren b (a1 :: a2 :: a3 :: (y3 ++ s)) nlb tF false = some o) (hlen : o.len + 3 ≤ y3.length + 4) :
    runSub st .l_paren b (a1 :: a2 :: a3 :: (y3 ++ s')) nlb tF' false = some o := by
  unfold runSub at h ⊢
  simp only at h ⊢
  by_cases c1 : a1 = 0x2A
  · subst c1
    by_cases c2 : a2 = 0x24
    · subst c2
      simp only [Option.map_eq_some_iff] at h ⊢
      obtain ⟨⟨n, k⟩, hcd, rfl⟩ := h
      refine ⟨(n, k), ?_, rfl⟩
      have e : ∀ u : Bytes, a3 :: (y3 ++ u) = (a3 :: y3) ++ u := fun _ => rfl
      rw [e s] at hcd
      rw [e s']
      exact compilerDirective_pd (tF ()) (tF' ()) .parenStar 3 _ _ (a3 :: y3) s s' n k ht
        (by simp only [List.length_cons, List.length_append]; omega) hcd
        (by simp only [List.length_cons] at hlen ⊢; omega)
    · have hne : ∀ (u : Bytes) (r' : List UInt8), (0x2A : UInt8) :: a2 :: a3 :: (y3 ++ u) = 0x2A :: 0x24 :: r' → False := by
        intro u r' hh; simp only [List.cons.injEq, true_and] at hh; exact c2 hh.1
      split at h
      · rename_i r' heq; exact absurd heq (fun hh => hne s r' hh)
      · split
        · rename_i r' heq; exact absurd heq (fun hh => hne s' r' hh)
        · rename_i r1 _ h1 _ r2 _ h2
          simp only [List.cons.injEq, true_and] at h1 h2
          subst h1 h2
          simp only [Option.some.injEq] at h ⊢
          subst h
          simp only at hlen
          have e : ∀ u : Bytes, a2 :: a3 :: (y3 ++ u) = (a2 :: a3 :: y3) ++ u := fun _ => rfl
          have key := blockComment_pd (tF ()) (tF' ()) .parenStar 2 (((0x2A : UInt8) :: a2 :: a3 :: (y3 ++ s)).length + 1)
            (((0x2A : UInt8) :: a2 :: a3 :: (y3 ++ s')).length + 1) nlb (a2 :: a3 :: y3) s s' ht
            (by simp only [List.length_cons, List.length_append]; omega)
            (by rw [← e s]; simp only [List.length_cons] at hlen ⊢; omega)
          rw [← e s, ← e s'] at key
          rw [key]
        · rename_i heq; simp at heq
        · exfalso; simp_all
      · rename_i heq; simp at heq
      · exfalso; simp_all
  · split at h <;> split <;> first | exact h | (exfalso; simp_all)

/-- **every sub-lexer is local**: `b` is the token's first byte, the rest of the input is
    `a1 :: a2 :: a3 :: y3` followed by `s`; the token ends at least three bytes before `s`. -/
theorem runSub_pd (st : LexState) (sub : SubLexer) (b a1 a2 a3 : UInt8) (y3 s s' : Bytes) (nlb : Bool)
    (tF tF' : Unit → Nat) (o : LexOut) (ht : tF () ≤ s.length)
    (h : runSub st sub b (a1 :: a2 :: a3 :: (y3 ++ s)) nlb tF false = some o)
    (hlen : o.len + 3 ≤ y3.length + 4) :
    runSub st sub b (a1 :: a2 :: a3 :: (y3 ++ s')) nlb tF' false = some o := by
  have hy : ∀ u : Bytes, a1 :: a2 :: a3 :: (y3 ++ u) = (a1 :: a2 :: a3 :: y3) ++ u := fun _ => rfl
  have hyl : (a1 :: a2 :: a3 :: y3).length = y3.length + 3 := by simp
  unfold runSub at h ⊢
  simp only [Bool.false_eq_true, if_false] at h ⊢
  cases sub <;> simp only at h ⊢
  all_goals first
    | exact h
    | (split at h <;> split <;> first | exact h | (exfalso; simp_all); done)
    | skip
  case slash => exact runSub_pd_slash st b a1 a2 a3 y3 s s' nlb tF tF' o (by unfold runSub; exact h) hlen |> fun r => by unfold runSub at r; exact r
  case l_paren => exact runSub_pd_lparen st b a1 a2 a3 y3 s s' nlb tF tF' o ht (by unfold runSub; exact h) hlen |> fun r => by unfold runSub at r; exact r
  case l_brace => exact runSub_pd_lbrace st b a1 a2 a3 y3 s s' nlb tF tF' o ht (by unfold runSub; exact h) hlen |> fun r => by unfold runSub at r; exact r
  case text_literal =>
    simp only [Option.some.injEq] at h ⊢
    subst h
    simp only at hlen
    have e : ∀ u : Bytes, b :: a1 :: a2 :: a3 :: (y3 ++ u) = (b :: a1 :: a2 :: a3 :: y3) ++ u := fun _ => rfl
    rw [e s] at hlen ⊢
    rw [e s', textLiteral_pd _ s s' (by simp only [List.length_cons]; omega)]
  case binary_number_literal =>
    simp only [Option.some.injEq] at h ⊢
    subst h
    simp only [countBinary] at hlen ⊢
    rw [hy s] at hlen ⊢
    rw [hy s', countWhile_pd isBinaryByte _ s s' (by omega)]
  case hex_number_literal =>
    simp only [Option.some.injEq] at h ⊢
    subst h
    simp only [countHex] at hlen ⊢
    rw [hy s] at hlen ⊢
    rw [hy s', countWhile_pd isHexByte _ s s' (by omega)]
  case dec_number_literal =>
    simp only [Option.some.injEq] at h ⊢
    subst h
    simp only at hlen
    rw [hy s] at hlen ⊢
    rw [hy s', decNumberRest_pd _ s s' (by omega)]
  case identifier =>
    simp only [Option.some.injEq] at h ⊢
    subst h
    simp only at hlen
    rw [hy s] at hlen ⊢
    rw [hy s', identLen_pd _ s s' (by omega)]
  case unicode_identifier =>
    simp only [Option.some.injEq] at h ⊢
    subst h
    simp only at hlen
    rw [hy s] at hlen ⊢
    rw [hy s']
    have hk : countWhile isCont ((a1 :: a2 :: a3 :: y3) ++ s') = countWhile isCont ((a1 :: a2 :: a3 :: y3) ++ s) :=
      countWhile_pd isCont _ s s' (by omega)
    rw [hk]
    have hd : ∀ t : Bytes, ((a1 :: a2 :: a3 :: y3) ++ t).drop (countWhile isCont ((a1 :: a2 :: a3 :: y3) ++ s)) =
        (a1 :: a2 :: a3 :: y3).drop (countWhile isCont ((a1 :: a2 :: a3 :: y3) ++ s)) ++ t :=
      fun t => List.drop_append_of_le_length (by omega)
    rw [hd s] at hlen ⊢
    rw [hd s', identLen_pd _ s s' (by simp only [List.length_drop]; omega)]
  case identifier_or_keyword =>
    simp only [Option.some.injEq] at h ⊢
    subst h
    simp only at hlen
    rw [hy s] at hlen ⊢
    rw [hy s', identLen_pd _ s s' (by omega)]
    have ht1 : ∀ t : Bytes, (b :: ((a1 :: a2 :: a3 :: y3) ++ t)).take (1 + identLen ((a1 :: a2 :: a3 :: y3) ++ s)) =
        (b :: a1 :: a2 :: a3 :: y3).take (1 + identLen ((a1 :: a2 :: a3 :: y3) ++ s)) := by
      intro t
      rw [← List.cons_append, List.take_append_of_le_length (by simp only [List.length_cons]; omega)]
    rw [ht1 s, ht1 s']
  case asm_label =>
    simp only [Option.some.injEq] at h ⊢
    subst h
    simp only at hlen
    rw [hy s] at hlen ⊢
    rw [hy s', countWhile_pd _ _ s s' (by omega)]
  case asm_identifier =>
    have hid : identLen ((a1 :: a2 :: a3 :: y3) ++ s) + 1 ≤ o.len := by
      rw [hy s] at h
      (repeat' split at h) <;> (simp only [Option.some.injEq] at h; subst h; simp only; omega)
    rw [hy s] at h
    rw [hy s', identLen_pd _ s s' (by omega)]
    have ht1 : ∀ t : Bytes, (b :: ((a1 :: a2 :: a3 :: y3) ++ t)).take (1 + identLen ((a1 :: a2 :: a3 :: y3) ++ s)) =
        (b :: a1 :: a2 :: a3 :: y3).take (1 + identLen ((a1 :: a2 :: a3 :: y3) ++ s)) := by
      intro t
      rw [← List.cons_append, List.take_append_of_le_length (by simp only [List.length_cons]; omega)]
    rw [ht1 s] at h
    rw [ht1 s']
    exact h
  case asm_text_literal =>
    simp only [Option.some.injEq] at h ⊢
    subst h
    simp only at hlen
    rw [hy s] at hlen ⊢
    rw [hy s', asmTextLiteralRest_pd _ s s' (by omega)]
  case asm_number_literal =>
    simp only [Option.some.injEq] at h ⊢
    subst h
    simp only at hlen
    rw [hy s] at hlen ⊢
    rw [hy s', asmNumberRest_pd b _ s s' (by omega)]
  case ampersand =>
    rw [hy s] at h
    rw [hy s']
    have hale : countWhile (· == 0x26) ((a1 :: a2 :: a3 :: y3) ++ s) + 1 ≤ o.len := by
      (repeat' split at h) <;> (simp only [Option.some.injEq] at h; subst h; simp only; omega)
    have ha := countWhile_pd (· == 0x26) (a1 :: a2 :: a3 :: y3) s s' (by omega)
    rw [ha]
    generalize hA : countWhile (· == 0x26) ((a1 :: a2 :: a3 :: y3) ++ s) = A at *
    have hd : ∀ t : Bytes, ((a1 :: a2 :: a3 :: y3) ++ t).drop A = (a1 :: a2 :: a3 :: y3).drop A ++ t :=
      fun t => List.drop_append_of_le_length (by omega)
    rw [hd s] at h
    rw [hd s']
    obtain ⟨c, y', hy'⟩ : ∃ c y', (a1 :: a2 :: a3 :: y3).drop A = c :: y' := by
      cases hx : (a1 :: a2 :: a3 :: y3).drop A with
      | nil => have hl := congrArg List.length hx; simp only [List.length_drop, List.length_nil] at hl; omega
      | cons c y' => exact ⟨c, y', rfl⟩
    have hyl' : y'.length + 1 + A = y3.length + 3 := by
      have hl := congrArg List.length hy'; simp only [List.length_drop, List.length_cons] at hl; omega
    rw [hy'] at h ⊢
    simp only [List.cons_append] at h ⊢
    by_cases c1 : (c == 0x24) = true
    · simp only [c1, if_true, Option.some.injEq] at h ⊢
      subst h
      simp only [countHex] at hlen ⊢
      rw [countWhile_pd isHexByte y' s s' (by omega)]
    simp only [c1, Bool.false_eq_true, if_false] at h ⊢
    by_cases c2 : (c == 0x25) = true
    · simp only [c2, if_true, Option.some.injEq] at h ⊢
      subst h
      simp only [countBinary] at hlen ⊢
      rw [countWhile_pd isBinaryByte y' s s' (by omega)]
    simp only [c2, Bool.false_eq_true, if_false] at h ⊢
    by_cases c3 : isDigit c = true
    · simp only [c3, if_true, Option.some.injEq] at h ⊢
      subst h
      simp only at hlen
      rw [decNumberRest_pd y' s s' (by omega)]
    simp only [c3, Bool.false_eq_true, if_false] at h ⊢
    by_cases c4 : (isAlpha c || c == 0x5F) = true
    · simp only [c4, if_true, Option.some.injEq] at h ⊢
      subst h
      simp only at hlen
      rw [identLen_pd y' s s' (by omega)]
    simp only [c4, Bool.false_eq_true, if_false] at h ⊢
    have hpre : ∀ t : Bytes, List.isPrefixOf [0xE3, 0x80, 0x80] (c :: (y' ++ t)) = List.isPrefixOf [0xE3, 0x80, 0x80] (c :: y') := by
      intro t
      rw [← List.cons_append]
      exact isPrefixOf_append_of_le _ _ _ (by simp only [List.length_cons, List.length_nil]; omega)
    rw [hpre s] at h
    rw [hpre s']
    by_cases c5 : (decide (c ≥ 0x80) && !List.isPrefixOf [0xE3, 0x80, 0x80] (c :: y')) = true
    · simp only [c5, if_true, Option.some.injEq] at h ⊢
      subst h
      simp only at hlen
      have hk : countWhile isCont (y' ++ s') = countWhile isCont (y' ++ s) := countWhile_pd isCont _ s s' (by omega)
      rw [hk]
      have hd2 : ∀ t : Bytes, (y' ++ t).drop (countWhile isCont (y' ++ s)) = y'.drop (countWhile isCont (y' ++ s)) ++ t :=
        fun t => List.drop_append_of_le_length (by omega)
      rw [hd2 s] at hlen ⊢
      rw [hd2 s', identLen_pd _ s s' (by simp only [List.length_drop]; omega)]
    · simp only [c5, Bool.false_eq_true, if_false] at h ⊢
      exact h

end Pasfmt
