/-
  C15, the clause "every reported cursor lies on a character boundary".

  * general facts connecting `isCharBoundary` (Rust's `str::is_char_boundary`) with `validUtf8`;
  * the gaps the reconstructor writes in front of non-ignored tokens are ASCII;
  * the output of `reconstruct` is a chain of well-formed pieces, so every piece starts on a boundary;
  * relocated cursors (whitespace form before a non-ignored token, content form at a boundary of
    the token's text) are on a boundary of the output.
-/
import PasfmtModel.Proofs.Utf8
import PasfmtModel.Proofs.CursorProps2

namespace Pasfmt

/-! ### 1. `isCharBoundary` and well-formed text -/

theorem isCharBoundary_zero (s : Bytes) : isCharBoundary s 0 = true := by
  simp [isCharBoundary]

theorem isCharBoundary_length (s : Bytes) : isCharBoundary s s.length = true := by
  unfold isCharBoundary
  split
  · rfl
  · simp

/-- the first byte of non-empty well-formed text is not a continuation byte -/
theorem valid_head_notCont (b : UInt8) (r : Bytes) (hv : validUtf8 (b :: r) = true) : isCont b = false := by
  rw [validUtf8_unfold] at hv
  cases hk : firstCharLen (b :: r) with
  | none => rw [hk] at hv; simp at hv
  | some k => exact (firstCharLen_head (b :: r) k hk).head_notCont b rfl

/-- a position inside the text from which on the text is well-formed is a character boundary -/
theorem isCharBoundary_of_valid_drop (s : Bytes) (i : Nat) (hi : i ≤ s.length)
    (hv : validUtf8 (s.drop i) = true) : isCharBoundary s i = true := by
  unfold isCharBoundary
  split
  · rfl
  · cases hb : s[i]? with
    | none =>
      have : s.length ≤ i := by
        rcases Nat.lt_or_ge i s.length with hlt | hge
        · rw [List.getElem?_eq_getElem hlt] at hb; cases hb
        · exact hge
      have : i = s.length := by omega
      simp [this]
    | some b =>
      obtain ⟨hlt, hget⟩ := List.getElem?_eq_some_iff.mp hb
      have hd : s.drop i = b :: s.drop (i + 1) := by
        rw [← hget, List.getElem_cons_drop]
      rw [hd] at hv
      have := valid_head_notCont b _ hv
      simp only
      unfold isCont at this
      rw [this]; rfl

/-- a character boundary other than 0 does not hold a continuation byte -/
theorem notContAt_of_isCharBoundary (s : Bytes) (i : Nat) (hpos : 0 < i)
    (h : isCharBoundary s i = true) : i ≤ s.length ∧ NotContAt s i := by
  unfold isCharBoundary at h
  have hi : (i == 0) = false := by simp; omega
  rw [hi] at h
  simp only [Bool.false_eq_true, if_false] at h
  cases hb : s[i]? with
  | none =>
    rw [hb] at h
    simp only [beq_iff_eq] at h
    refine ⟨by omega, ?_⟩
    intro b hb'; rw [hb] at hb'; cases hb'
  | some b =>
    rw [hb] at h
    obtain ⟨hlt, _⟩ := List.getElem?_eq_some_iff.mp hb
    refine ⟨by omega, ?_⟩
    intro b' hb'
    rw [hb] at hb'
    simp only [Option.some.injEq] at hb'
    subst hb'
    simp only [Bool.not_eq_true'] at h
    exact h

/-- concatenating well-formed texts gives well-formed text -/
theorem validUtf8_append (a b : Bytes) (ha : validUtf8 a = true) (hb : validUtf8 b = true) :
    validUtf8 (a ++ b) = true := by
  induction hlen : a.length using Nat.strongRecOn generalizing a with
  | _ n ih =>
    cases a with
    | nil => simpa using hb
    | cons x r =>
      rw [validUtf8_unfold] at ha
      cases hk : firstCharLen (x :: r) with
      | none => rw [hk] at ha; simp at ha
      | some k =>
        rw [hk] at ha
        simp only at ha
        have hc := firstCharLen_head (x :: r) k hk
        have hsplit : (x :: r) ++ b = (x :: r).take k ++ ((x :: r).drop k ++ b) := by
          rw [← List.append_assoc, List.take_append_drop]
        have hfc : firstCharLen ((x :: r) ++ b) = some k := by
          rw [hsplit]; exact hc.stable _
        rw [validUtf8_unfold, hfc]
        simp only
        rw [List.drop_append_of_le_length hc.le]
        exact ih ((x :: r).drop k).length
          (by have := hc.pos; have := hc.le; simp only [List.length_drop]; omega)
          ((x :: r).drop k) ha rfl

/-- ASCII text is well-formed -/
theorem validUtf8_of_ascii (t : Bytes) (h : AllAscii t) : validUtf8 t = true := by
  induction t with
  | nil => exact validUtf8_nil
  | cons b r ih =>
    exact valid_cons_ascii b r (h b (by simp)) (ih (fun c hc => h c (by simp [hc])))

theorem allAscii_append (a b : Bytes) (ha : AllAscii a) (hb : AllAscii b) : AllAscii (a ++ b) := by
  intro c hc
  rcases List.mem_append.1 hc with h | h
  · exact ha c h
  · exact hb c h

theorem allAscii_nil : AllAscii [] := by intro c hc; cases hc

theorem allAscii_replicate (n : Nat) (x : UInt8) (hx : x < 0x80) : AllAscii (List.replicate n x) := by
  intro c hc
  rw [List.mem_replicate] at hc
  rw [hc.2]; exact hx

theorem allAscii_replicateBytes (n : Nat) (s : Bytes) (hs : AllAscii s) : AllAscii (replicateBytes n s) := by
  intro c hc
  unfold replicateBytes at hc
  rw [List.mem_flatten] at hc
  obtain ⟨l, hl, hcl⟩ := hc
  rw [List.mem_replicate] at hl
  rw [hl.2] at hcl
  exact hs c hcl

theorem allAscii_drop (s : Bytes) (j : Nat) (hs : AllAscii s) : AllAscii (s.drop j) :=
  fun c hc => hs c (List.mem_of_mem_drop hc)

/-- the text from a character boundary of well-formed text on is well-formed -/
theorem valid_drop_of_boundary (c : Bytes) (o : Nat) (hv : validUtf8 c = true)
    (hb : isCharBoundary c o = true) : validUtf8 (c.drop o) = true := by
  rcases Nat.eq_zero_or_pos o with h0 | hpos
  · subst h0; simpa using hv
  · obtain ⟨hle, hnc⟩ := notContAt_of_isCharBoundary c o hpos hb
    exact (validUtf8_split c o hv hle hnc).2

/-- and so is the text up to it -/
theorem valid_take_of_boundary (c : Bytes) (o : Nat) (hv : validUtf8 c = true)
    (hb : isCharBoundary c o = true) : validUtf8 (c.take o) = true := by
  rcases Nat.eq_zero_or_pos o with h0 | hpos
  · subst h0; simpa using validUtf8_nil
  · obtain ⟨hle, hnc⟩ := notContAt_of_isCharBoundary c o hpos hb
    exact (validUtf8_split c o hv hle hnc).1

/-- `isCharBoundary_append`: in `A ++ X`, the position `|A| + j` is a character boundary as soon as
    `X` is well-formed from `j` on -/
theorem isCharBoundary_append (A X : Bytes) (j : Nat) (hj : j ≤ X.length)
    (hv : validUtf8 (X.drop j) = true) : isCharBoundary (A ++ X) (A.length + j) = true := by
  apply isCharBoundary_of_valid_drop
  · simp only [List.length_append]; omega
  · rw [List.drop_append, List.drop_of_length_le (by omega), List.nil_append]
    have : A.length + j - A.length = j := by omega
    rw [this]; exact hv

/-- a boundary of a middle piece is a boundary of the whole, when the piece and what follows it are
    well-formed -/
theorem isCharBoundary_middle (A c R : Bytes) (o : Nat) (hc : validUtf8 c = true)
    (hR : validUtf8 R = true) (hb : isCharBoundary c o = true) (ho : o ≤ c.length) :
    isCharBoundary (A ++ (c ++ R)) (A.length + o) = true := by
  apply isCharBoundary_append
  · simp only [List.length_append]; omega
  · rw [List.drop_append_of_le_length ho]
    exact validUtf8_append _ _ (valid_drop_of_boundary c o hc hb) hR

/-- conversely a boundary of the whole inside a piece is a boundary of the piece (no well-formedness
    needed) -/
theorem isCharBoundary_of_append (P c Q : Bytes) (o : Nat) (ho : o ≤ c.length)
    (h : isCharBoundary (P ++ (c ++ Q)) (P.length + o) = true) : isCharBoundary c o = true := by
  rcases Nat.eq_zero_or_pos o with h0 | hpos
  · subst h0; exact isCharBoundary_zero c
  · rcases Nat.lt_or_ge o c.length with hlt | hge
    · have hnc := (notContAt_of_isCharBoundary _ _ (by omega) h).2
      have hget : (P ++ (c ++ Q))[P.length + o]? = some c[o] := by
        rw [List.getElem?_append_right (by omega)]
        have : P.length + o - P.length = o := by omega
        rw [this, List.getElem?_append_left hlt, List.getElem?_eq_getElem hlt]
      have := hnc _ hget
      unfold isCharBoundary
      have hi : (o == 0) = false := by simp; omega
      rw [hi, List.getElem?_eq_getElem hlt]
      simp only [Bool.false_eq_true, if_false]
      unfold isCont at this
      rw [this]; rfl
    · have : o = c.length := by omega
      rw [this]; exact isCharBoundary_length c

/-- in well-formed text the position right behind an ASCII byte is a character boundary -/
theorem isCharBoundary_after_ascii (s : Bytes) (p : Nat) (b : UInt8) (hv : validUtf8 s = true)
    (hb : s[p]? = some b) (hlt : b < 0x80) : isCharBoundary s (p + 1) = true := by
  obtain ⟨hp, hget⟩ := List.getElem?_eq_some_iff.mp hb
  have hd := (validUtf8_split s p hv (by omega) (notContAt_of_ascii s p b hb hlt)).2
  have hd' : s.drop p = b :: s.drop (p + 1) := by rw [← hget, List.getElem_cons_drop]
  rw [hd'] at hd
  exact isCharBoundary_of_valid_drop s (p + 1) (by omega) (valid_after_ascii b _ hlt hd)

/-- a position holding an ASCII byte is a character boundary -/
theorem isCharBoundary_at_ascii (s : Bytes) (p : Nat) (b : UInt8)
    (hb : s[p]? = some b) (hlt : b < 0x80) : isCharBoundary s p = true := by
  unfold isCharBoundary
  split
  · rfl
  · rw [hb]
    have := (byte_facts b).1 hlt
    unfold isCont at this
    simp only
    rw [this]; rfl

/-! ### 2. the gaps are ASCII, the output is a chain of well-formed pieces -/

/-- the three strings of the reconstruction settings are ASCII -/
def AsciiSettings (S : Settings) : Prop := AllAscii S.nlStr ∧ AllAscii S.indStr ∧ AllAscii S.contStr

/-- true of the settings of every configuration: `\n` or `\r\n`, tabs or spaces -/
theorem config_settings_ascii (cfg : Config) : AsciiSettings cfg.settings := by
  have h1 : AllAscii ([0x0D, 0x0A] : Bytes) := by
    intro c hc; simp at hc; rcases hc with rfl | rfl <;> decide
  have h2 : AllAscii ([0x0A] : Bytes) := by
    intro c hc; simp at hc; subst hc; decide
  unfold Config.settings AsciiSettings
  cases cfg.crlf <;> cases cfg.useTabs <;>
    simp only [Bool.false_eq_true, if_false, if_true] <;>
    exact ⟨by assumption, allAscii_replicate _ _ (by decide), allAscii_replicate _ _ (by decide)⟩

/-- what `reconstruct` writes in front of a non-ignored token is ASCII -/
theorem gapOf_ascii (S : Settings) (t : FTok) (mb : Bool) (hS : AsciiSettings S)
    (hi : t.fmt.ignored = false) : AllAscii (gapOf S t mb) := by
  unfold gapOf
  simp only [hi, Bool.false_eq_true, if_false]
  exact allAscii_append _ _ (allAscii_append _ _ (allAscii_append _ _
    (allAscii_replicateBytes _ _ hS.1) (allAscii_replicateBytes _ _ hS.2.1))
    (allAscii_replicateBytes _ _ hS.2.2)) (allAscii_replicate _ _ (by decide))

/-- every token text is well-formed UTF-8, and so is the verbatim whitespace of every ignored token
    (both hold for the tokens the scanner produces from well-formed input, `lex_char_boundaries`) -/
def PiecesValid (ft : FT) : Prop :=
  ∀ t ∈ ft, ValidUtf8 t.tok.content ∧ (t.fmt.ignored = true → ValidUtf8 t.tok.ws)

/-- executable form of `PiecesValid`, for concrete token lists -/
def piecesValidB (ft : FT) : Bool :=
  ft.all fun t => validUtf8 t.tok.content && (!t.fmt.ignored || validUtf8 t.tok.ws)

theorem piecesValid_of_b (ft : FT) (h : piecesValidB ft = true) : PiecesValid ft := by
  intro t ht
  unfold piecesValidB at h
  rw [List.all_eq_true] at h
  have := h t ht
  simp only [Bool.and_eq_true, Bool.or_eq_true, Bool.not_eq_true'] at this
  refine ⟨this.1, fun hi => ?_⟩
  rcases this.2 with h2 | h2
  · rw [hi] at h2; cases h2
  · exact h2

theorem gapOf_valid (S : Settings) (t : FTok) (mb : Bool) (hS : AsciiSettings S)
    (hws : t.fmt.ignored = true → validUtf8 t.tok.ws = true) : validUtf8 (gapOf S t mb) = true := by
  by_cases hi : t.fmt.ignored = true
  · unfold gapOf
    simp only [hi, if_true]
    apply validUtf8_append _ _ _ (hws hi)
    split
    · exact validUtf8_of_ascii _ hS.1
    · exact validUtf8_nil
  · exact validUtf8_of_ascii _ (gapOf_ascii S t mb hS (by simpa using hi))

/-- the output (and every tail of it that starts at a gap) is well-formed UTF-8 -/
theorem reconGo_valid (S : Settings) (mb : Bool) (ft : FT) (hS : AsciiSettings S) (hv : PiecesValid ft) :
    validUtf8 (reconGo S mb ft) = true := by
  induction ft generalizing mb with
  | nil => exact validUtf8_nil
  | cons x r ih =>
    rw [reconGo, List.append_assoc]
    have hx := hv x (by simp)
    exact validUtf8_append _ _ (gapOf_valid S x mb hS hx.2)
      (validUtf8_append _ _ hx.1 (ih _ (fun t ht => hv t (by simp [ht]))))

/-- the output split at token `k`: a prefix `A`, the gap of the token (of the length
    `offset_for_token` assumes), its text, and a well-formed rest -/
theorem reconGo_split (S : Settings) (ft : FT) (mb : Bool) (k : Nat) (t : FTok)
    (hk : ft[k]? = some t) (hsn : noSafetyNetGo mb ft = true)
    (hS : AsciiSettings S) (hv : PiecesValid ft) :
    ∃ A g R, reconGo S mb ft = A ++ (g ++ (t.tok.content ++ R)) ∧
      A.length + wsLen S t = offsetForToken S ft k ∧ g.length = wsLen S t ∧
      (∃ mb', g = gapOf S t mb') ∧ validUtf8 R = true := by
  induction ft generalizing mb k with
  | nil => simp at hk
  | cons x r ih =>
    rw [noSafetyNetGo_cons, Bool.and_eq_true] at hsn
    have hvr : PiecesValid r := fun t ht => hv t (by simp [ht])
    cases k with
    | zero =>
      simp at hk; subst hk
      refine ⟨[], gapOf S x mb, reconGo S (isSingleLineComment x.tok.kind) r, ?_, ?_, ?_, ⟨mb, rfl⟩, ?_⟩
      · rw [reconGo]; simp [List.append_assoc]
      · rw [offsetForToken]; simp
      · exact gapOf_length S x mb hsn.1
      · exact reconGo_valid S _ r hS hvr
    | succ j =>
      simp at hk
      obtain ⟨A, g, R, hAB, hA, hg, hmb, hR⟩ := ih _ j hk hsn.2 hvr
      refine ⟨gapOf S x mb ++ x.tok.content ++ A, g, R, ?_, ?_, hg, hmb, hR⟩
      · rw [reconGo, hAB]; simp [List.append_assoc]
      · rw [offsetForToken]
        simp only [List.length_append]
        rw [gapOf_length S x mb hsn.1]; omega

/-! ### 3. relocated cursors are on character boundaries -/

/-- every offset inside, at the start or at the end of the gap in front of a non-ignored token `k`
    is a character boundary of the output -/
theorem gap_offsets_boundary (S : Settings) (ft : FT) (k : Nat) (t : FTok) (r : Nat)
    (hk : ft[k]? = some t) (hi : t.fmt.ignored = false)
    (hS : AsciiSettings S) (hv : PiecesValid ft) (hsn : noSafetyNetGo false ft = true)
    (h1 : r ≤ offsetForToken S ft k) (h2 : offsetForToken S ft k ≤ r + wsLen S t) :
    isCharBoundary (reconstruct S ft) r = true := by
  obtain ⟨A, g, R, hAB, hA, hg, ⟨mb', hmb⟩, hR⟩ := reconGo_split S ft false k t hk hsn hS hv
  unfold reconstruct
  rw [hAB]
  have hr : r = A.length + (r - A.length) := by omega
  rw [hr]
  have hj : r - A.length ≤ g.length := by omega
  apply isCharBoundary_append
  · simp only [List.length_append]; omega
  · rw [List.drop_append_of_le_length hj]
    have hc := (hv t (List.mem_of_getElem? hk)).1
    refine validUtf8_append _ _ (validUtf8_of_ascii _ (allAscii_drop _ _ ?_)) (validUtf8_append _ _ hc hR)
    rw [hmb]; exact gapOf_ascii S t mb' hS hi

/-- offset `o` of the text of token `k`, when `o` is a character boundary of that text, is a
    character boundary of the output -/
theorem token_offsets_boundary (S : Settings) (ft : FT) (k o : Nat) (t : FTok)
    (hk : ft[k]? = some t) (ho : o ≤ t.tok.content.length)
    (hb : isCharBoundary t.tok.content o = true)
    (hS : AsciiSettings S) (hv : PiecesValid ft) (hsn : noSafetyNetGo false ft = true) :
    isCharBoundary (reconstruct S ft) (offsetForToken S ft k + o) = true := by
  obtain ⟨A, g, R, hAB, hA, hg, _, hR⟩ := reconGo_split S ft false k t hk hsn hS hv
  unfold reconstruct
  rw [hAB, ← List.append_assoc]
  have : offsetForToken S ft k + o = (A ++ g).length + o := by
    simp only [List.length_append]; omega
  rw [this]
  exact isCharBoundary_middle (A ++ g) t.tok.content R o (hv t (List.mem_of_getElem? hk)).1 hR hb ho

/-- a cursor from the whitespace in front of a non-ignored token is reported on a character
    boundary -/
theorem relocate_whitespace_boundary (S : Settings) (ft : FT) (idx c n : Nat) (t : FTok) (r : Nat)
    (hk : ft[idx]? = some t) (hi : t.fmt.ignored = false)
    (hS : AsciiSettings S) (hv : PiecesValid ft) (hsn : noSafetyNetGo false ft = true)
    (hsmall : offsetForToken S ft idx < 4294967296)
    (h : relocate S ft { tokIdx := idx, pos := .whitespace c n } = some r) :
    isCharBoundary (reconstruct S ft) r = true := by
  obtain ⟨h1, h2⟩ := relocate_whitespace_in_gap S ft idx c n t r hk
    (ignoredNlFits_of_not_ignored S t hi) hsmall h
  exact gap_offsets_boundary S ft idx t r hk hi hS hv hsn h1 h2

/-- the input text of a token list -/
def rawInput (raw : List RawTok) : Bytes := raw.flatMap (fun t => t.ws ++ t.content)

theorem rawInput_split (raw : List RawTok) (k : Nat) (t : RawTok) (hk : raw[k]? = some t) :
    ∃ P Q, rawInput raw = P ++ (t.content ++ Q) ∧
      P.length = ((raw.take k).map RawTok.strLen).sum + t.ws.length := by
  obtain ⟨hsplit, _⟩ := raw_split raw k t hk
  refine ⟨rawInput (raw.take k) ++ t.ws, rawInput (raw.drop (k + 1)), ?_, ?_⟩
  · conv => lhs; rw [hsplit]
    simp [rawInput, List.flatMap_append, List.append_assoc]
  · have hlen : ∀ l : List RawTok, (rawInput l).length = (l.map RawTok.strLen).sum := by
      intro l
      induction l with
      | nil => rfl
      | cons a b ih =>
        simp only [rawInput, List.flatMap_cons, List.length_append, List.map_cons, List.sum_cons,
          RawTok.strLen] at ih ⊢
        omega
    rw [List.length_append, hlen]

/-- an input cursor on a character boundary of the input, `o` bytes into the text of token `k`, is
    on a character boundary of that text -/
theorem input_boundary_in_token (raw : List RawTok) (k o : Nat) (t : RawTok)
    (hk : raw[k]? = some t) (ho : o ≤ t.content.length)
    (hb : isCharBoundary (rawInput raw) (((raw.take k).map RawTok.strLen).sum + t.ws.length + o) = true) :
    isCharBoundary t.content o = true := by
  obtain ⟨P, Q, hPQ, hP⟩ := rawInput_split raw k t hk
  rw [hPQ, ← hP] at hb
  exact isCharBoundary_of_append P t.content Q o ho hb

/-- in well-formed text `A ++ g ++ R` with `g` ASCII, every offset inside `g` and at its end is a
    character boundary, and its start is one as soon as it is given to be -/
theorem ascii_run_offsets_boundary (s A g R : Bytes) (hs : s = A ++ g ++ R) (hv : validUtf8 s = true)
    (hg : AllAscii g) (hA : isCharBoundary s A.length = true) (j : Nat) (hj : j ≤ g.length) :
    isCharBoundary s (A.length + j) = true := by
  cases j with
  | zero => exact hA
  | succ i =>
    have hlt : i < g.length := by omega
    have hget : s[A.length + i]? = some g[i] := by
      rw [hs, List.append_assoc, List.getElem?_append_right (by omega)]
      have : A.length + i - A.length = i := by omega
      rw [this, List.getElem?_append_left hlt, List.getElem?_eq_getElem hlt]
    exact isCharBoundary_after_ascii s (A.length + i) g[i] hv hget (hg _ (List.getElem_mem hlt))

end Pasfmt
