/-
  The number of decisions of a returned solution: a solution the search returns for line `li` has at most as many
  decisions as the line has tokens, and so have all the child solutions nested in it.  Proved the same way as `TreeOk'`
  (Proofs/SearchBeginWrap.lean): an invariant of the cache, of the solver of the child lines and of the nodes of the
  search, carried through the loops.  The node invariant is only kept by `get_potential_solution` for nodes that still
  have a token to decide, hence the loop lemmas with two node predicates.
-/
import PasfmtModel.Proofs.SearchBeginWrap

namespace Pasfmt

/-- the solution of line `li` has at most as many decisions as the line has tokens, and so do all child solutions -/
inductive CntOk (O : Olf) : Nat → FormattingSolution → Prop
  | mk (li : Nat) (ws : LineWhitespace) (decs : List TokenDecision) (pen len : Nat)
      (h : decs.length ≤ (O.lines[li]!).tokens.size)
      (hrec : ∀ d ∈ decs, ∀ x ∈ d.childSolutions, CntOk O x.1 x.2) : CntOk O li (.mk ws decs pen len)

/-- every list of child solutions in the cache consists of solutions satisfying `CntOk` for their lines -/
def CacheCnt (O : Olf) (cache : ChildLineCache) : Prop :=
  ∀ (key : ChildLineInitialConditions) sols, cache[key]? = some sols → ∀ x ∈ sols, CntOk O x.1 x.2

/-- a solver of child lines keeps `CacheCnt` and returns solutions satisfying `CntOk` for the line solved -/
def SolverCnt (O : Olf) (solve : Solver) : Prop :=
  ∀ cache ws li fd, CacheCnt O cache →
    CacheCnt O (solve cache ws li fd).2 ∧ ∀ sol, (solve cache ws li fd).1 = .ok sol → CntOk O li sol

/-! ### child lines -/

/-- the loop over the child lines keeps the cache invariant, and every solution in the list it returns satisfies
    `CntOk` for its line -/
theorem solveChildLines_cnt (O : Olf) (solve : Solver) (hT : SolverCnt O solve) (option : ChildLineOption)
    (cws : ChildWhitespace) :
    ∀ (ls : List Nat) (idx : Nat) (cache : ChildLineCache) (lll : Nat) (acc : List (Nat × FormattingSolution))
      (r : Option (List (Nat × FormattingSolution))) (cache' : ChildLineCache),
      CacheCnt O cache → (∀ x ∈ acc, CntOk O x.1 x.2) →
      solveChildLines O solve option cws ls idx cache lll acc = (r, cache') →
      CacheCnt O cache' ∧ ∀ sols, r = some sols → ∀ x ∈ sols, CntOk O x.1 x.2 := by
  intro ls
  induction ls with
  | nil =>
    intro idx cache lll acc r cache' hc hacc h
    simp only [solveChildLines, Prod.mk.injEq] at h
    obtain ⟨rfl, rfl⟩ := h
    exact ⟨hc, fun sols hs x hx => by cases hs; exact hacc x (by simpa using hx)⟩
  | cons childLine rest ih =>
    intro idx cache lll acc r cache' hc hacc h
    unfold solveChildLines at h
    extract_lets line src cw fd at h
    have hok := hT cache cw childLine fd hc
    split at h
    · rename_i e c1 hs
      simp only [Prod.mk.injEq] at h
      obtain ⟨rfl, rfl⟩ := h
      rw [hs] at hok
      exact ⟨hok.1, fun sols hs => by cases hs⟩
    · rename_i solution c1 hs
      rw [hs] at hok
      refine ih _ _ _ _ _ _ hok.1 ?_ h
      intro x hx
      simp only [List.mem_cons] at hx
      rcases hx with rfl | hx
      · exact hok.2 _ rfl
      · exact hacc x hx

/-- looking the options up in the cache or solving them: every solution in every list offered - computed or cached -
    satisfies `CntOk` for its line -/
theorem childLinesOfOptions_cnt (O : Olf) (solve : Solver) (hT : SolverCnt O solve) (cache : ChildLineCache)
    (lineParent : Nat × Nat) (lineChildren : LineChildren) (tll : Nat) (opts : Potentials ChildLineOption)
    (hc : CacheCnt O cache) :
    CacheCnt O (childLinesOfOptions O solve cache lineParent lineChildren tll opts).2 ∧
    ∀ sols ∈ (childLinesOfOptions O solve cache lineParent lineChildren tll opts).1.toList,
      ∀ x ∈ sols, CntOk O x.1 x.2 := by
  unfold childLinesOfOptions
  have := andThenM_spec (CacheCnt O)
    (fun (_ : ChildLineOption) (sols : List (Nat × FormattingSolution)) => ∀ x ∈ sols, CntOk O x.1 x.2) opts
    (fun (cache : ChildLineCache) option =>
      let childStartingWs : ChildWhitespace :=
        match option with
        | .continueAll => { whitespace := LineWhitespace.zero, deindent := 0 }
        | .breakAll ws | .continueThenBreak ws => ws
      let cacheKey : ChildLineInitialConditions :=
        { lastLineLength := tll, parentLine := lineParent.1, parentToken := lineParent.2,
          childLineOption := option }
      match cache.get? cacheKey with
      | some sol => (some sol, cache)
      | none =>
        match solveChildLines O solve option childStartingWs lineChildren.lineIndices.toList 0 cache tll [] with
        | (none, cache) => (none, cache)
        | (some childSolutions, cache) => (some childSolutions, cache.insert cacheKey childSolutions))
    ?_ cache hc
  · refine ⟨this.1, fun sols hs => ?_⟩
    obtain ⟨o, _, h1⟩ := this.2 sols hs
    exact h1
  · intro c o ho hcO
    dsimp only
    split
    · rename_i sol hg
      refine ⟨hcO, fun b hb => ?_⟩
      simp only [Option.some.injEq] at hb
      subst hb
      rw [Std.HashMap.get?_eq_getElem?] at hg
      exact hcO _ _ hg
    · split
      · rename_i c1 hs
        have := solveChildLines_cnt O solve hT _ _ _ _ _ _ _ _ _ hcO (by simp) hs
        exact ⟨this.1, fun b hb => by cases hb⟩
      · rename_i cs c1 hs
        have := solveChildLines_cnt O solve hT _ _ _ _ _ _ _ _ _ hcO (by simp) hs
        have hcs := this.2 _ rfl
        refine ⟨?_, fun b hb => ?_⟩
        · intro key sols hk
          rw [Std.HashMap.getElem?_insert] at hk
          split at hk
          · simp only [Option.some.injEq] at hk
            subst hk
            exact hcs
          · exact this.1 _ _ hk
        · simp only [Option.some.injEq] at hb
          subst hb
          exact hcs

/-- `find_optimal_child_lines_solution` keeps the cache invariant, and every solution in every list of child
    solutions it offers satisfies `CntOk` for its line -/
theorem findOptimalChildLinesSolution_cnt (O : Olf) (solve : Solver) (hT : SolverCnt O solve)
    (cache : ChildLineCache) (line : Nat × LineA) (nli : Nat) (W : LineWhitespace) (decision : DecisionRef)
    (stack : SpecificContextStack) (node : FormattingNode) (tll pc : Nat) (hc : CacheCnt O cache) :
    CacheCnt O (O.findOptimalChildLinesSolution solve cache line nli W decision stack node tll pc).2 ∧
    ∀ sols ∈ (O.findOptimalChildLinesSolution solve cache line nli W decision stack node tll pc).1.toList,
      ∀ x ∈ sols, CntOk O x.1 x.2 := by
  rw [findOptimalChildLinesSolution_eq]
  have hnil : ∀ sols ∈ (Potentials.one ([] : List (Nat × FormattingSolution))).toList,
      ∀ x ∈ sols, CntOk O x.1 x.2 := by
    intro sols hs
    simp only [Potentials.toList, List.mem_singleton] at hs
    subst hs
    intro x hx
    simp at hx
  split
  · exact ⟨hc, hnil⟩
  · split
    · exact ⟨hc, hnil⟩
    · exact childLinesOfOptions_cnt O solve hT cache _ _ tll _ hc

/-! ### the nodes of the search -/

/-- the path of a node has as many decisions as the node has decided tokens, which are at most the tokens of the line,
    and all the child solutions on the path satisfy `CntOk` -/
def NodeCnt (E : SearchEnv) (n : FormattingNode) : Prop :=
  n.decision.walkParentsData.length = n.nextLineIndex ∧ n.nextLineIndex ≤ E.line.2.tokens.size ∧
    ∀ d ∈ n.decision.walkParentsData, ∀ x ∈ d.childSolutions, CntOk E.O x.1 x.2

/-- a node satisfying `NodeCnt` that still has a token to decide -/
def NodeCntX (E : SearchEnv) (n : FormattingNode) : Prop :=
  NodeCnt E n ∧ n.nextLineIndex < E.line.2.tokens.size

/-- the parts of a node the updates of the context data do not change, with the index of the next token -/
def FormattingNode.sdn (n : FormattingNode) : (LineWhitespace × DecisionRef) × Nat := (n.sd, n.nextLineIndex)

/-- changing the context data changes neither the path nor the index of the next token -/
theorem sdn_modifyData (n : FormattingNode) (i : Nat) (f : FormattingContextState → FormattingContextState) :
    (n.modifyData i f).sdn = n.sdn := by
  cases n; rfl

/-- `get_potential_solution` on a node that still has a token to decide keeps the cache invariant and returns nodes
    satisfying `NodeCnt` (one decision and one token further) -/
theorem getPotentialSolution_cnt (E : SearchEnv) (hE : SolverCnt E.O E.solveChild) (cache : ChildLineCache)
    (n : FormattingNode) (contexts : SpecificContextStack) (rd : RawDecision) (req : DR)
    (hc : CacheCnt E.O cache) (hn : NodeCntX E n) :
    CacheCnt E.O (E.getPotentialSolution cache n contexts rd req).2 ∧
    ∀ x ∈ (E.getPotentialSolution cache n contexts rd req).1.toList, NodeCnt E x := by
  unfold SearchEnv.getPotentialSolution
  extract_lets lineIndex n1 cc dec tll n2 gnn
  have h1 : n1.sdn = n.sdn := blind_updateContexts FormattingNode.sdn sdn_modifyData _ _ _ _
  have h2 : n2.sdn = n.sdn := h1
  have hd2 : n2.decision = n.decision := congrArg (fun p => p.1.2) h2
  have hi2 : n2.nextLineIndex = n.nextLineIndex := congrArg (fun p => p.2) h2
  have hg : ∀ cs, (∀ x ∈ cs, CntOk E.O x.1 x.2) → NodeCnt E (gnn n2 cs) := by
    intro cs hcs
    have h3 : (updateContextsFromChildSolutions contexts n2 cs).sdn = n2.sdn :=
      blind_updateContextsFromChildSolutions FormattingNode.sdn sdn_modifyData _ _ _
    have h5 : (updateContextsFromChildSolutions contexts n2 cs).decision = n2.decision :=
      congrArg (fun p => p.1.2) h3
    have h6 : (updateContextsFromChildSolutions contexts n2 cs).nextLineIndex = n2.nextLineIndex :=
      congrArg (fun p => p.2) h3
    obtain ⟨⟨a1, a2, a3⟩, a4⟩ := hn
    refine ⟨?_, ?_, ?_⟩
    · show ((updateContextsFromChildSolutions contexts n2 cs).decision.addSuccessor _).walkParentsData.length =
        (updateContextsFromChildSolutions contexts n2 cs).nextLineIndex + 1
      rw [h5, h6, hd2, hi2, ← a1]
      simp [DecisionRef.addSuccessor, DecisionRef.walkParentsData]
    · show (updateContextsFromChildSolutions contexts n2 cs).nextLineIndex + 1 ≤ _
      rw [h6, hi2]
      exact a4
    · show ∀ d ∈ ((updateContextsFromChildSolutions contexts n2 cs).decision.addSuccessor _).walkParentsData, _
      rw [h5, hd2]
      intro d hd'
      simp only [DecisionRef.addSuccessor, DecisionRef.walkParentsData, List.mem_cons] at hd'
      rcases hd' with rfl | hd'
      · exact hcs
      · exact a3 d (by simp only [DecisionRef.walkParentsData, List.mem_cons]; exact hd')
  have hf := findOptimalChildLinesSolution_cnt E.O E.solveChild hE cache E.line n2.nextLineIndex n2.startingWs
    n2.decision contexts n2 tll cc hc
  generalize E.O.findOptimalChildLinesSolution _ _ _ _ _ _ _ _ _ _ = r at hf ⊢
  obtain ⟨cls, c⟩ := r
  refine ⟨hf.1, ?_⟩
  cases cls with
  | none => intro x hx; simp [Potentials.toList] at hx
  | one a =>
    intro x hx; simp [Potentials.toList] at hx; subst hx
    exact hg a (hf.2 a (by simp [Potentials.toList]))
  | two a b =>
    intro x hx; simp [Potentials.toList] at hx
    rcases hx with rfl | rfl
    · exact hg a (hf.2 a (by simp [Potentials.toList]))
    · exact hg b (hf.2 b (by simp [Potentials.toList]))

/-! ### the loops, for an invariant of the nodes that `get_potential_solution` keeps for expandable nodes only -/

/-- the inner loop of `get_successors`, for an invariant `N` of all nodes and an invariant `M` of the nodes that
    `get_potential_solution` is called on (nodes with a token still to decide) -/
theorem indiffLoop_gen2 (E : SearchEnv) (C : ChildLineCache → Prop) (N M : FormattingNode → Prop)
    (hg : ∀ cache n contexts rd req, C cache → M n → C (E.getPotentialSolution cache n contexts rd req).2 ∧
      ∀ x ∈ (E.getPotentialSolution cache n contexts rd req).1.toList, N x)
    (hM : ∀ n, N n → n.nextLineIndex < E.line.2.tokens.size → M n) :
    ∀ (fuel : Nat) (cache : ChildLineCache) (bp : Array Nat) (node : FormattingNode)
      (indiff : Option (FormattingNode × SpecificContextStack)),
      C cache → N node → (∀ p, indiff = some p → M p.1) →
      (E.indiffLoop fuel cache bp node indiff).1.All (N) ∧
      C (E.indiffLoop fuel cache bp node indiff).2.1 := by
  intro fuel
  induction fuel with
  | zero => intro cache bp node indiff hc hn hi; exact ⟨trivial, hc⟩
  | succ f ih =>
    intro cache bp node indiff hc hn hi
    -- two calls of `get_potential_solution` in a row (break, then continue) from the same node
    have hpair : ∀ (c : ChildLineCache) (n : FormattingNode) (st : SpecificContextStack) (req : DR)
        (pre : List FormattingNode), C c → M n → (∀ x ∈ pre, N x) →
        (∀ x ∈ pre ++ (E.getPotentialSolution c n st .brk req).1.toList ++
          (E.getPotentialSolution (E.getPotentialSolution c n st .brk req).2 n st .cont req).1.toList, N x) ∧
        C (E.getPotentialSolution (E.getPotentialSolution c n st .brk req).2 n st .cont req).2 := by
      intro c n st req pre hcc hnn hpre
      obtain ⟨a1, a2⟩ := hg c n st .brk req hcc hnn
      obtain ⟨b1, b2⟩ := hg _ n st .cont req a1 hnn
      refine ⟨fun x hx => ?_, b1⟩
      simp only [List.mem_append] at hx
      rcases hx with (hx | hx) | hx
      · exact hpre x hx
      · exact a2 x hx
      · exact b2 x hx
    unfold SearchEnv.indiffLoop
    extract_lets lineIndex contexts ltl lcl lll tooLong requirement getSolutions continueWith indifferenceLine
    have hcw : ∀ c il l, C c → (∀ p, il = some p → M p.1) → (∀ x ∈ l, N x) →
        (continueWith c il l).1.All (N) ∧ C (continueWith c il l).2.1 := by
      intro c il l hcc hil hl
      simp only [continueWith]
      split
      · exact ih _ _ _ _ hcc (hl _ (by simp)) hil
      · split
        · rename_i indiff' stack
          have hk : M indiff' := hil _ rfl
          exact hpair c indiff' stack requirement l hcc hk hl
        · exact ⟨hl, hcc⟩
    have hli : lineIndex = node.nextLineIndex := rfl
    clear_value tooLong requirement lineIndex contexts
    split
    · rename_i indiff' stack hif
      have hk : M indiff' := by
        split at hif
        · exact hi _ hif
        · cases hif
      extract_lets stack'
      have := hpair cache indiff' stack' .indifferent [] hc hk (by simp)
      simpa [IndiffOutcome.All] using this
    · split
      · exact ⟨hn, hc⟩
      · rename_i hge
        have hm : M node := hM node hn (by rw [hli] at hge; omega)
        split
        · -- invalid
          split
          · rename_i indiff' stack _
            have hk : M indiff' := hi _ rfl
            have := hpair cache indiff' stack .invalid [] hc hk (by simp)
            simpa [getSolutions, IndiffOutcome.All] using this
          · exact ⟨trivial, hc⟩
        · -- mustBreak
          obtain ⟨a1, a2⟩ := hg cache node contexts .brk .mustBreak hc hm
          have hfold : ∀ (l : List FormattingNode) (acc : List FormattingNode × Array Nat), (∀ x ∈ l, N x) →
              (∀ x ∈ acc.1, N x) → ∀ x ∈ (l.foldl (fun (acc : List FormattingNode × Array Nat) (node : FormattingNode) =>
                if node.penalty < acc.2[lineIndex]! then (acc.1 ++ [node], acc.2.set! lineIndex node.penalty)
                else acc) acc).1, N x := by
            intro l
            induction l with
            | nil => intro acc _ ha; exact ha
            | cons y r ihl =>
              intro acc hl ha
              rw [List.foldl_cons]
              apply ihl _ (fun x hx => hl x (by simp [hx]))
              split
              · intro x hx
                simp only [List.mem_append, List.mem_singleton] at hx
                rcases hx with hx | rfl
                · exact ha x hx
                · exact hl _ (by simp)
              · exact ha
          have := hfold (getSolutions cache RawDecision.brk node contexts).1.toList ([], bp) a2 (by simp)
          exact ⟨this, a1⟩
        · obtain ⟨a1, a2⟩ := hg cache node contexts .cont .mustNotBreak hc hm
          exact hcw _ _ _ a1 hi a2
        · obtain ⟨a1, a2⟩ := hg cache node contexts .cont .indifferent hc hm
          refine hcw _ _ _ a1 ?_ a2
          intro p hp
          simp only [indifferenceLine] at hp
          split at hp
          · cases hp; exact hm
          · exact hi _ hp

/-- `get_successors` / the push onto the heap, for the two node invariants of `indiffLoop_gen2` -/
theorem successorLoop_gen2 (E : SearchEnv) (C : ChildLineCache → Prop) (N M : FormattingNode → Prop)
    (hg : ∀ cache n contexts rd req, C cache → M n → C (E.getPotentialSolution cache n contexts rd req).2 ∧
      ∀ x ∈ (E.getPotentialSolution cache n contexts rd req).1.toList, N x)
    (hM : ∀ n, N n → n.nextLineIndex < E.line.2.tokens.size → M n) :
    ∀ (fuel : Nat) (heap : NodeHeap) (cache : ChildLineCache) (bp : Array Nat) (node : FormattingNode),
      HAll (N) heap → C cache → N node →
      HAll (N) (E.successorLoop fuel heap cache bp node).1 ∧
      C (E.successorLoop fuel heap cache bp node).2.1 := by
  intro fuel
  induction fuel with
  | zero => intro heap cache bp node H hc hn; exact ⟨H, hc⟩
  | succ f ih =>
    intro heap cache bp node H hc hn
    unfold SearchEnv.successorLoop
    have hi := indiffLoop_gen2 E C N M hg hM (E.line.2.tokens.size + 2) cache bp node none hc hn (by simp)
    split
    · rename_i n' c' bp' heq
      rw [heq] at hi
      exact ⟨heapPush_all _ _ H hi.1, hi.2⟩
    · rename_i c' bp' heq
      rw [heq] at hi
      exact ⟨H, hi.2⟩
    · rename_i single c' bp' heq
      rw [heq] at hi
      exact ih _ _ _ _ H hi.2 (hi.1 single (by simp))
    · rename_i l c' bp' _ heq
      rw [heq] at hi
      exact ⟨heapExtend_all _ _ H hi.1, hi.2⟩

/-- the main loop of the search, for the two node invariants of `indiffLoop_gen2`: the solution returned is a node
    satisfying `N`, turned into a solution -/
theorem nodeHeapLoop_gen2 (E : SearchEnv) (C : ChildLineCache → Prop) (N M : FormattingNode → Prop)
    (hg : ∀ cache n contexts rd req, C cache → M n → C (E.getPotentialSolution cache n contexts rd req).2 ∧
      ∀ x ∈ (E.getPotentialSolution cache n contexts rd req).1.toList, N x)
    (hM : ∀ n, N n → n.nextLineIndex < E.line.2.tokens.size → M n) :
    ∀ (fuel : Nat) (heap : NodeHeap) (cache : ChildLineCache) (bp : Array Nat) (it : Nat),
      HAll (N) heap → C cache →
      C (E.nodeHeapLoop fuel heap cache bp it).2 ∧
      ∀ sol, (E.nodeHeapLoop fuel heap cache bp it).1 = .ok sol →
        ∃ node : FormattingNode, N node ∧ sol = node.intoSolution := by
  intro fuel
  induction fuel with
  | zero => intro heap cache bp it H hc; exact ⟨hc, fun sol h => by simp [SearchEnv.nodeHeapLoop] at h⟩
  | succ f ih =>
    intro heap cache bp it H hc
    unfold SearchEnv.nodeHeapLoop
    split
    · exact ⟨hc, fun sol h => by simp at h⟩
    · rename_i node heap' hp
      obtain ⟨hn, H'⟩ := heapPop_all heap H node heap' hp
      split
      · exact ⟨hc, fun sol h => by simp at h⟩
      · simp only []
        split
        · refine ⟨hc, fun sol h => ?_⟩
          simp only [Except.ok.injEq] at h
          exact ⟨node, hn, h.symm⟩
        · split
          · exact ih _ _ _ _ H' hc
          · have := successorLoop_gen2 E C N M hg hM (E.line.2.tokens.size + 2) heap' cache bp node H' hc hn
            exact ih _ _ _ _ this.1 this.2

/-- a node satisfying `NodeCnt` gives a solution satisfying `CntOk` for the line of the search -/
theorem NodeCnt.intoSolution {E : SearchEnv} {n : FormattingNode} (h : NodeCnt E n)
    (hl : E.line.2 = E.O.lines[E.line.1]!) : CntOk E.O E.line.1 n.intoSolution := by
  obtain ⟨a1, a2, a3⟩ := h
  refine CntOk.mk _ _ _ _ _ ?_ ?_
  · rw [List.length_reverse, a1, ← hl]
    exact a2
  · intro d hd
    exact a3 d (by simpa using hd)

/-- one level of `find_optimal_solution` (child lines solved by `solve`) keeps the cache invariant and returns
    solutions satisfying `CntOk` for the line solved -/
theorem findOptimalSolutionWith_cnt (O : Olf) (solve : Solver) (hT : SolverCnt O solve)
    (cache : ChildLineCache) (ws : LineWhitespace) (lineIdx : Nat) (fd : FirstDecision) (hc : CacheCnt O cache) :
    CacheCnt O (O.findOptimalSolutionWith solve cache ws lineIdx fd).2 ∧
    ∀ sol, (O.findOptimalSolutionWith solve cache ws lineIdx fd).1 = .ok sol → CntOk O lineIdx sol := by
  unfold Olf.findOptimalSolutionWith
  extract_lets lineA line fc E bp inv ics
  split
  · refine ⟨hc, fun sol h => ?_⟩
    simp only [Except.ok.injEq] at h
    subst h
    exact CntOk.mk _ _ _ _ _ (by simp) (fun d hd => by simp at hd)
  · rename_i t0 ht0
    have hsz : 1 ≤ lineA.tokens.size := by
      rcases Nat.lt_or_ge 0 lineA.tokens.size with h | h
      · exact h
      · rw [Array.getElem?_eq_none h] at ht0; cases ht0
    extract_lets tl sb cl
    split
    rename_i newLine req lll bcb hq
    split
    · exact ⟨hc, fun sol h => by simp at h⟩
    · extract_lets root node0 node src1 src2 withChildren
      have hnode : node.sdn = ((ws, root), 1) := by
        simp only [node]
        split
        · rw [sdn_modifyData]; rfl
        · rfl
      have hdec : node.decision = root := congrArg (fun p => p.1.2) hnode
      have hidx : node.nextLineIndex = 1 := congrArg (fun p => p.2) hnode
      have hf := findOptimalChildLinesSolution_cnt O solve hT cache line 0 node.startingWs root ics node lll 0 hc
      generalize O.findOptimalChildLinesSolution _ _ _ _ _ _ _ _ _ _ = r at hf ⊢
      obtain ⟨childSols, cache1⟩ := r
      have hwc : ∀ cs ∈ childSols.toList, NodeCnt E (withChildren cs) := by
        intro cs hcs
        have hw : (withChildren cs).decision.walkParentsData =
            [{ decision := newLine, requirement := req, childSolutions := cs, lastLineLength := lll }] := by
          simp only [withChildren, src1, src2, hdec, DecisionRef.walkParentsData]
          simp [root]
        refine ⟨?_, ?_, ?_⟩
        · rw [hw]
          show 1 = node.nextLineIndex
          exact hidx.symm
        · show node.nextLineIndex ≤ lineA.tokens.size
          rw [hidx]
          exact hsz
        · rw [hw]
          intro d hd
          simp only [List.mem_singleton] at hd
          subst hd
          exact hf.2 cs hcs
      clear_value withChildren node
      have fin : ∀ initial : List FormattingNode, (∀ x ∈ initial, NodeCnt E x) →
          CacheCnt O (E.nodeHeapLoop (O.iterationMax + 3) (heapExtend #[] initial) cache1 bp 0).2 ∧
          ∀ sol, (E.nodeHeapLoop (O.iterationMax + 3) (heapExtend #[] initial) cache1 bp 0).1 = .ok sol →
            CntOk O lineIdx sol := by
        intro initial hinit
        have hheap : HAll (NodeCnt E) (heapExtend #[] initial) :=
          heapExtend_all #[] initial (fun i hi => absurd hi (Nat.not_lt_zero i)) hinit
        have := nodeHeapLoop_gen2 E (CacheCnt O) (NodeCnt E) (NodeCntX E)
          (fun cache n contexts rd req hcc hnn => getPotentialSolution_cnt E hT cache n contexts rd req hcc hnn)
          (fun n hn hlt => ⟨hn, hlt⟩) (O.iterationMax + 3) _ cache1 bp 0 hheap hf.1
        refine ⟨this.1, fun sol h => ?_⟩
        obtain ⟨nd, h1, rfl⟩ := this.2 sol h
        exact h1.intoSolution rfl
      cases childSols with
      | none => exact fin [] (by simp)
      | one a =>
        refine fin [withChildren a] ?_
        intro x hx; simp only [List.mem_singleton] at hx; subst hx; exact hwc _ (by simp [Potentials.toList])
      | two a b =>
        refine fin [withChildren b, withChildren b] ?_
        intro x hx; simp only [List.mem_cons, List.not_mem_nil, or_false, or_self] at hx; subst hx
        exact hwc _ (by simp [Potentials.toList])

/-- `find_optimal_solution`, at every depth of the recursion over child lines, keeps the cache invariant and returns
    solutions with at most as many decisions as the line has tokens, recursively for the child solutions -/
theorem findOptimalSolution_cnt (O : Olf) : ∀ fuel : Nat, SolverCnt O (O.findOptimalSolution fuel)
  | 0 => fun cache ws li fd hc => ⟨hc, fun sol h => by simp [Olf.findOptimalSolution] at h⟩
  | fuel + 1 => fun cache ws li fd hc => by
    unfold Olf.findOptimalSolution
    exact findOptimalSolutionWith_cnt O _ (findOptimalSolution_cnt O fuel) cache ws li fd hc

/-- `format_line`: the solution it returns for line `lineIdx` has at most as many decisions as the line has tokens,
    and so have all the child solutions nested in it (for their lines); the cache keeps its invariant -/
theorem format_line_cnt (O : Olf) (cache : ChildLineCache) (lineIdx : Nat) (hc : CacheCnt O cache) :
    CacheCnt O (O.formatLine cache lineIdx).2 ∧ ∀ sol, (O.formatLine cache lineIdx).1 = some sol → CntOk O lineIdx sol := by
  unfold Olf.formatLine
  split
  · exact ⟨hc, fun sol h => by simp at h⟩
  · rename_i line hl
    split
    · exact ⟨hc, fun sol h => by simp at h⟩
    · extract_lets fd
      have := findOptimalSolution_cnt O (O.lines.size + 1) cache { indentations := line.level, continuations := 0 } lineIdx fd hc
      split
      · rename_i s c hs
        rw [hs] at this
        refine ⟨this.1, fun sol h => ?_⟩
        simp only [Option.some.injEq] at h
        subst h
        exact this.2 _ rfl
      · rename_i e c hs
        rw [hs] at this
        exact ⟨this.1, fun sol h => by simp at h⟩

/-- the empty cache satisfies the invariant -/
theorem cacheCnt_empty (O : Olf) : CacheCnt O {} := by
  intro key sols h
  simp at h

/-- `CntOk` only depends on the lines -/
theorem CntOk.congr {O O' : Olf} (h : O'.lines = O.lines) {li : Nat} {sol : FormattingSolution} (hs : CntOk O li sol) :
    CntOk O' li sol := by
  induction hs with
  | mk li ws decs pen len h1 hrec ih =>
    exact CntOk.mk li ws decs pen len (by rw [h]; exact h1) ih

/-- `CacheCnt` only depends on the lines -/
theorem CacheCnt.congr {O O' : Olf} (h : O'.lines = O.lines) {cache : ChildLineCache} (hc : CacheCnt O cache) :
    CacheCnt O' cache := by
  intro key sols hk x hx
  exact (hc key sols hk x hx).congr h

end Pasfmt
