/-
  The link between the level of a logical line and the counters its first token gets THROUGH THE SEARCH (for C05):
  whatever `find_optimal_solution` explores, every node of its heap carries the starting whitespace and the root
  decision the search was started with, so the solution `format_line` returns starts with `level` indentations, no
  continuation, and a first decision that is a plain break (or "continue" for the very first token of the file and
  for a line that must not be broken off its predecessor).  Applying such a solution (`reconstruct_solution`) gives the
  first token of the line the counters "1 or 2 line breaks, `level` indentations, no continuation".

  All statements are about the model of the search (Model/Search.lean) and hold for every input: induction over the
  fuels of the loops, no bound.
-/
import PasfmtModel.Model.WrapStageFull
import PasfmtModel.Model.LayoutCheck

namespace Pasfmt

/-! ### what the search never changes in a node -/

/-- the decision at the root of the decision tree a `NodeRef` points into -/
def DecisionRef.rootDecision (r : DecisionRef) : Option Dec := (r.walkParentsData.getLast?).map (·.decision)

/-- the two parts of a node that no step of the search changes: the starting whitespace and the root decision -/
def FormattingNode.key (n : FormattingNode) : LineWhitespace × Option Dec := (n.startingWs, n.decision.rootDecision)

theorem rootDecision_addSuccessor (r : DecisionRef) (d : TokenDecision) :
    (r.addSuccessor d).rootDecision = r.rootDecision := by
  simp [DecisionRef.rootDecision, DecisionRef.addSuccessor, DecisionRef.walkParentsData, List.getLast?_cons_cons]

/-! The updates of the context data change nothing else in a node: stated for any projection `π` of a node that does
    not see the context data. -/

section Blind
variable {β : Type} (π : FormattingNode → β) (hπ : ∀ n i f, π (FormattingNode.modifyData n i f) = π n)
include hπ

theorem blind_ite {c : Prop} [Decidable c] {a b : FormattingNode} {k : β}
    (ha : π a = k) (hb : π b = k) : π (if c then a else b) = k := by
  split <;> assumption

theorem blind_foldl {α : Type} (g : FormattingNode → α → FormattingNode) (hg : ∀ n x, π (g n x) = π n)
    (l : List α) (n : FormattingNode) : π (l.foldl g n) = π n := by
  induction l generalizing n with
  | nil => rfl
  | cons x r ih => rw [List.foldl_cons, ih, hg]

theorem blind_afoldl {α : Type} (g : FormattingNode → α → FormattingNode) (hg : ∀ n x, π (g n x) = π n)
    (l : Array α) (n : FormattingNode) : π (l.foldl g n) = π n := by
  rw [← Array.foldl_toList]; exact blind_foldl π hπ g hg _ n

theorem blind_updateLastMatchingContext (stack : SpecificContextStack) (n : FormattingNode) (filter : CT → Bool)
    (op : FormattingContext → FormattingContextState → FormattingContextState) :
    π (updateLastMatchingContext stack n filter op) = π n := by
  unfold updateLastMatchingContext
  split <;> simp [hπ]

theorem blind_updateOperatorPrecedences (stack : SpecificContextStack) (n : FormattingNode) (b : Bool) :
    π (updateOperatorPrecedences stack n b) = π n := by
  unfold updateOperatorPrecedences
  simp only []
  split
  · rw [blind_foldl π hπ]
    · exact blind_updateLastMatchingContext π hπ _ _ _ _
    · intro n x; simp [hπ]
  · exact blind_updateLastMatchingContext π hπ _ _ _ _

theorem blind_updateContexts (fc : LineFormattingContexts) (stack : SpecificContextStack) (n : FormattingNode)
    (d : RawDecision) : π (updateContexts fc stack n d) = π n := by
  have hu := blind_updateLastMatchingContext π hπ
  have ho := blind_updateOperatorPrecedences π hπ
  unfold updateContexts
  extract_lets lineIndex isBreak lastReal n6 apb orb cur last n5 found n4 n3 n2 isTypeParens n1 n0
  clear_value found isTypeParens last cur apb orb lastReal isBreak lineIndex
  have h6 : π n6 = π n := by
    apply blind_foldl π hπ
    intro n x; split <;> simp [hπ]
  have h5 : π n5 = π n := by simp [n5, h6, hu]
  have h4 : π n4 = π n := by
    simp only [n4]
    split <;> simp [h6, hu, hπ]
  have h3 : π n3 = π n := by simp [n3, h6, hu]
  have h2 : π n2 = π n := by simp [n2, h3, hu]
  have h1 : π n1 = π n := by
    simp only [n1]
    repeat' with_reducible apply blind_ite π hπ
    all_goals first
      | (simp [h6, h5, h4, h2, hu, ho, hπ]; done)
      | (repeat' split
         all_goals simp [h6, hu, ho, hπ])
  have h0 : π n0 = π n := by
    simp only [n0]
    repeat' split
    all_goals simp [h1, hπ]
  rw [blind_afoldl π hπ]
  · exact h0
  · intro n x
    repeat' split
    all_goals simp [hπ]

theorem blind_updateContextsFromChildSolutions (stack : SpecificContextStack) (n : FormattingNode)
    (cs : List (Nat × FormattingSolution)) : π (updateContextsFromChildSolutions stack n cs) = π n := by
  unfold updateContextsFromChildSolutions
  split
  · apply blind_afoldl π hπ; intro n x; simp [hπ]
  · split
    · split <;> simp [hπ]
    · rfl

end Blind

theorem key_modifyData (n : FormattingNode) (i : Nat) (f : FormattingContextState → FormattingContextState) :
    (n.modifyData i f).key = n.key := by
  cases n; rfl

theorem key_ite {c : Prop} [Decidable c] {a b : FormattingNode} {k : LineWhitespace × Option Dec}
    (ha : a.key = k) (hb : b.key = k) : (if c then a else b).key = k := by
  split <;> assumption

theorem key_updateContexts (fc : LineFormattingContexts) (stack : SpecificContextStack) (n : FormattingNode)
    (d : RawDecision) : (updateContexts fc stack n d).key = n.key :=
  blind_updateContexts FormattingNode.key key_modifyData fc stack n d

theorem key_updateContextsFromChildSolutions (stack : SpecificContextStack) (n : FormattingNode)
    (cs : List (Nat × FormattingSolution)) : (updateContextsFromChildSolutions stack n cs).key = n.key :=
  blind_updateContextsFromChildSolutions FormattingNode.key key_modifyData stack n cs

/-- `get_potential_solution` hands the starting whitespace and the root decision on to every node it makes -/
theorem key_getPotentialSolution (E : SearchEnv) (cache : ChildLineCache) (n : FormattingNode)
    (contexts : SpecificContextStack) (rd : RawDecision) (req : DR) :
    ∀ x ∈ (E.getPotentialSolution cache n contexts rd req).1.toList, x.key = n.key := by
  unfold SearchEnv.getPotentialSolution
  extract_lets lineIndex n1 cc dec tll n2 gnn
  have hg : ∀ cs, (gnn n2 cs).key = n.key := by
    intro cs
    show ((updateContextsFromChildSolutions contexts n2 cs).startingWs,
      ((updateContextsFromChildSolutions contexts n2 cs).decision.addSuccessor _).rootDecision) = _
    rw [rootDecision_addSuccessor]
    show (updateContextsFromChildSolutions contexts n2 cs).key = _
    rw [key_updateContextsFromChildSolutions]
    show n1.key = _
    exact key_updateContexts _ _ _ _
  generalize E.O.findOptimalChildLinesSolution _ _ _ _ _ _ _ _ _ _ = r
  obtain ⟨cls, c⟩ := r
  cases cls with
  | none => intro x hx; simp [Potentials.toList] at hx
  | one a => intro x hx; simp [Potentials.toList] at hx; subst hx; exact hg a
  | two a b =>
    intro x hx; simp [Potentials.toList] at hx
    rcases hx with rfl | rfl
    · exact hg a
    · exact hg b

/-! ### the binary heap only moves nodes around -/

/-- every node in the heap satisfies `P` -/
def HAll (P : FormattingNode → Prop) (h : NodeHeap) : Prop := ∀ i (hi : i < h.size), P h[i]

theorem HAll.get! {P : FormattingNode → Prop} {h : NodeHeap} (H : HAll P h) {i : Nat} (hi : i < h.size) : P h[i]! := by
  rw [getElem!_pos h i hi]; exact H i hi

theorem HAll.set! {P : FormattingNode → Prop} {h : NodeHeap} (H : HAll P h) (i : Nat) {x : FormattingNode} (hx : P x) :
    HAll P (h.set! i x) := by
  rw [Array.set!_eq_setIfInBounds]
  intro j hj
  have hj' : j < h.size := by simpa using hj
  rw [Array.getElem_setIfInBounds hj']
  split
  · exact hx
  · exact H j hj'

theorem HAll.push {P : FormattingNode → Prop} {h : NodeHeap} (H : HAll P h) {x : FormattingNode} (hx : P x) :
    HAll P (h.push x) := by
  intro j hj
  rw [Array.getElem_push]
  split
  · exact H j _
  · exact hx

theorem HAll.pop {P : FormattingNode → Prop} {h : NodeHeap} (H : HAll P h) : HAll P h.pop := by
  intro j hj
  rw [Array.getElem_pop]
  exact H j _

@[simp] theorem size_set! (h : NodeHeap) (i : Nat) (x : FormattingNode) : (h.set! i x).size = h.size := by
  simp [Array.set!_eq_setIfInBounds]

theorem heapSiftUpGo_all {P : FormattingNode → Prop} (start : Nat) (elem : FormattingNode) (hE : P elem) :
    ∀ (fuel : Nat) (data : NodeHeap) (pos : Nat), HAll P data → pos < data.size →
      HAll P (heapSiftUpGo start elem fuel data pos) ∧ (heapSiftUpGo start elem fuel data pos).size = data.size := by
  intro fuel
  induction fuel with
  | zero => intro data pos H hp; exact ⟨H.set! pos hE, by simp [heapSiftUpGo]⟩
  | succ f ih =>
    intro data pos H hp
    unfold heapSiftUpGo
    split
    · simp only []
      split
      · exact ⟨H.set! pos hE, by simp⟩
      · have hpar : (pos - 1) / 2 < data.size := by omega
        have := ih (data.set! pos data[(pos - 1) / 2]!) ((pos - 1) / 2) (H.set! pos (H.get! hpar)) (by simpa using hpar)
        simpa using this
    · exact ⟨H.set! pos hE, by simp⟩

theorem heapSiftUp_all {P : FormattingNode → Prop} (data : NodeHeap) (start pos : Nat) (H : HAll P data)
    (hp : pos < data.size) : HAll P (heapSiftUp data start pos) ∧ (heapSiftUp data start pos).size = data.size :=
  heapSiftUpGo_all start _ (H.get! hp) _ data pos H hp

theorem heapPush_all {P : FormattingNode → Prop} (data : NodeHeap) (x : FormattingNode) (H : HAll P data) (hx : P x) :
    HAll P (heapPush data x) := by
  unfold heapPush
  exact (heapSiftUp_all (data.push x) 0 data.size (H.push hx) (by simp)).1

theorem heapSiftDownToBottomGo_all {P : FormattingNode → Prop} (endIdx : Nat) :
    ∀ (fuel : Nat) (data : NodeHeap) (pos : Nat), HAll P data → endIdx = data.size → pos < data.size →
      HAll P (heapSiftDownToBottomGo endIdx fuel data pos).1 ∧
      (heapSiftDownToBottomGo endIdx fuel data pos).1.size = data.size ∧
      (heapSiftDownToBottomGo endIdx fuel data pos).2 < data.size := by
  intro fuel
  induction fuel with
  | zero => intro data pos H he hp; exact ⟨H, rfl, hp⟩
  | succ f ih =>
    intro data pos H he hp
    unfold heapSiftDownToBottomGo
    simp only []
    split
    · rename_i hc
      have hc1 : 2 * pos + 1 + 1 < data.size := by omega
      have hc0 : 2 * pos + 1 < data.size := by omega
      have hch : (if data[2 * pos + 1]!.le data[2 * pos + 1 + 1]! = true then 2 * pos + 1 + 1 else 2 * pos + 1) < data.size := by
        split <;> assumption
      have := ih (data.set! pos data[(if data[2 * pos + 1]!.le data[2 * pos + 1 + 1]! = true then 2 * pos + 1 + 1 else 2 * pos + 1)]!)
        (if data[2 * pos + 1]!.le data[2 * pos + 1 + 1]! = true then 2 * pos + 1 + 1 else 2 * pos + 1)
        (H.set! pos (H.get! hch)) (by simpa using he) (by simpa using hch)
      simpa using this
    · split
      · rename_i hc
        have hc0 : 2 * pos + 1 < data.size := by
          have : 2 * pos + 1 = endIdx - 1 := by simpa using hc
          omega
        exact ⟨H.set! pos (H.get! hc0), by simp, hc0⟩
      · exact ⟨H, rfl, hp⟩

theorem heapSiftDownToBottom_all {P : FormattingNode → Prop} (data : NodeHeap) (pos : Nat) (H : HAll P data)
    (hp : pos < data.size) : HAll P (heapSiftDownToBottom data pos) := by
  unfold heapSiftDownToBottom
  simp only []
  obtain ⟨h1, h2, h3⟩ := heapSiftDownToBottomGo_all (P := P) data.size (data.size + 1) data pos H rfl hp
  exact (heapSiftUpGo_all pos _ (H.get! hp) _ _ _ h1 (by omega)).1

/-- `BinaryHeap::pop` returns a node of the heap and leaves nodes of the heap -/
theorem heapPop_all {P : FormattingNode → Prop} (data : NodeHeap) (H : HAll P data) (x : FormattingNode) (rest : NodeHeap)
    (h : heapPop data = some (x, rest)) : P x ∧ HAll P rest := by
  unfold heapPop at h
  split at h
  · simp at h
  · rename_i item hb
    have hitem : P item := by
      rw [Array.back?_eq_getElem?] at hb
      have hl : data.size - 1 < data.size := by
        rcases Nat.lt_or_ge (data.size - 1) data.size with h1 | h1
        · exact h1
        · rw [Array.getElem?_eq_none h1] at hb; cases hb
      rw [Array.getElem?_eq_getElem hl] at hb
      cases hb
      exact H _ hl
    simp only [] at h
    split at h
    · cases h; exact ⟨hitem, H.pop⟩
    · rename_i hne
      have hs : 0 < data.pop.size := by
        rcases Nat.eq_zero_or_pos data.pop.size with h0 | h0
        · exact absurd (by simpa [Array.isEmpty] using h0) hne
        · exact h0
      cases h
      exact ⟨H.pop.get! hs, heapSiftDownToBottom_all _ 0 (H.pop.set! 0 hitem) (by simpa using hs)⟩

theorem heapSiftDownRangeGo_all {P : FormattingNode → Prop} (endIdx : Nat) (elem : FormattingNode) (hE : P elem) :
    ∀ (fuel : Nat) (data : NodeHeap) (pos : Nat), HAll P data → endIdx = data.size → pos < data.size →
      HAll P (heapSiftDownRangeGo endIdx elem fuel data pos) ∧
      (heapSiftDownRangeGo endIdx elem fuel data pos).size = data.size := by
  intro fuel
  induction fuel with
  | zero => intro data pos H he hp; exact ⟨H.set! pos hE, by simp [heapSiftDownRangeGo]⟩
  | succ f ih =>
    intro data pos H he hp
    unfold heapSiftDownRangeGo
    simp only []
    split
    · rename_i hc
      have hc1 : 2 * pos + 1 + 1 < data.size := by omega
      have hc0 : 2 * pos + 1 < data.size := by omega
      have hch : (if data[2 * pos + 1]!.le data[2 * pos + 1 + 1]! = true then 2 * pos + 1 + 1 else 2 * pos + 1) < data.size := by
        split <;> assumption
      generalize (if data[2 * pos + 1]!.le data[2 * pos + 1 + 1]! = true then 2 * pos + 1 + 1 else 2 * pos + 1) = child at hch ⊢
      split
      · exact ⟨H.set! pos hE, by simp⟩
      · have := ih (data.set! pos data[child]!) child (H.set! pos (H.get! hch)) (by simpa using he) (by simpa using hch)
        simpa using this
    · split
      · rename_i hc
        have hc0 : 2 * pos + 1 < data.size := by
          have : 2 * pos + 1 = endIdx - 1 := by
            simp only [Bool.and_eq_true, beq_iff_eq] at hc; exact hc.1
          omega
        exact ⟨(H.set! pos (H.get! hc0)).set! _ hE, by simp⟩
      · exact ⟨H.set! pos hE, by simp⟩

theorem heapSiftDown_all {P : FormattingNode → Prop} (data : NodeHeap) (pos : Nat) (H : HAll P data)
    (hp : pos < data.size) : HAll P (heapSiftDown data pos) ∧ (heapSiftDown data pos).size = data.size :=
  heapSiftDownRangeGo_all data.size _ (H.get! hp) _ data pos H rfl hp

theorem foldl_heap_all {P : FormattingNode → Prop} (g : NodeHeap → Nat → NodeHeap)
    (hg : ∀ d n, HAll P d → n < d.size → HAll P (g d n) ∧ (g d n).size = d.size) :
    ∀ (l : List Nat) (data : NodeHeap), HAll P data → (∀ n ∈ l, n < data.size) →
      HAll P (l.foldl g data) ∧ (l.foldl g data).size = data.size := by
  intro l
  induction l with
  | nil => intro data H _; exact ⟨H, rfl⟩
  | cons n r ih =>
    intro data H hl
    obtain ⟨h1, h2⟩ := hg data n H (hl n (by simp))
    obtain ⟨h3, h4⟩ := ih (g data n) h1 (fun m hm => by rw [h2]; exact hl m (by simp [hm]))
    exact ⟨h3, by rw [List.foldl_cons, h4, h2]⟩

theorem heapRebuild_all {P : FormattingNode → Prop} (data : NodeHeap) (H : HAll P data) : HAll P (heapRebuild data) := by
  unfold heapRebuild
  refine (foldl_heap_all (fun d n => heapSiftDown d n) (fun d n a b => heapSiftDown_all d n a b) _ data H ?_).1
  intro n hn
  simp only [List.mem_reverse, List.mem_range] at hn
  omega

theorem heapRebuildTail_all {P : FormattingNode → Prop} (data : NodeHeap) (start : Nat) (H : HAll P data) :
    HAll P (heapRebuildTail data start) := by
  unfold heapRebuildTail
  split
  · exact H
  · simp only []
    generalize (if start < data.size - start then true else _) = b
    split
    · exact heapRebuild_all data H
    · refine (foldl_heap_all (fun d i => heapSiftUp d 0 i) (fun d n a b => heapSiftUp_all d 0 n a b) _ data H ?_).1
      intro n hn
      simp only [List.mem_range'_1] at hn
      omega

/-- `BinaryHeap::extend` leaves nodes of the heap and the new nodes -/
theorem heapExtend_all {P : FormattingNode → Prop} (data : NodeHeap) (items : List FormattingNode) (H : HAll P data)
    (hi : ∀ x ∈ items, P x) : HAll P (heapExtend data items) := by
  unfold heapExtend
  apply heapRebuildTail_all
  induction items generalizing data with
  | nil => exact H
  | cons x r ih => exact ih (data.push x) (H.push (hi x (by simp))) (fun y hy => hi y (by simp [hy]))

/-! ### the loops of the search keep the starting whitespace and the root decision of every node -/

/-- all nodes an execution of the `'indiff` loop hands back satisfy `K` -/
def IndiffOutcome.All (K : FormattingNode → Prop) : IndiffOutcome → Prop
  | .pushNode n => K n
  | .deadEnd => True
  | .broke l => ∀ x ∈ l, K x

theorem key_getPotentialSolution' (E : SearchEnv) (k : LineWhitespace × Option Dec) (cache : ChildLineCache)
    (n : FormattingNode) (contexts : SpecificContextStack) (rd : RawDecision) (req : DR)
    (s : Potentials FormattingNode) (c : ChildLineCache) (hn : n.key = k)
    (h : E.getPotentialSolution cache n contexts rd req = (s, c)) : ∀ x ∈ s.toList, x.key = k := by
  have := key_getPotentialSolution E cache n contexts rd req
  rw [h, hn] at this; exact this

theorem indiffLoop_key (E : SearchEnv) (k : LineWhitespace × Option Dec) :
    ∀ (fuel : Nat) (cache : ChildLineCache) (bp : Array Nat) (node : FormattingNode)
      (indiff : Option (FormattingNode × SpecificContextStack)),
      node.key = k → (∀ p, indiff = some p → p.1.key = k) →
      (E.indiffLoop fuel cache bp node indiff).1.All (fun x => x.key = k) := by
  intro fuel
  induction fuel with
  | zero => intro cache bp node indiff hn hi; exact trivial
  | succ f ih =>
    intro cache bp node indiff hn hi
    unfold SearchEnv.indiffLoop
    extract_lets lineIndex contexts ltl lcl lll tooLong requirement getSolutions continueWith indifferenceLine
    have hcw : ∀ c il l, (∀ p, il = some p → p.1.key = k) → (∀ x ∈ l, x.key = k) →
        (continueWith c il l).1.All (fun x => x.key = k) := by
      intro c il l hil hl
      simp only [continueWith]
      split
      · exact ih _ _ _ _ (hl _ (by simp)) hil
      · split
        · rename_i indiff' stack
          have hk : indiff'.key = k := hil _ rfl
          intro x hx
          simp only [List.mem_append] at hx
          rcases hx with (hx | hx) | hx
          · exact hl x hx
          · exact (key_getPotentialSolution E _ _ _ _ _ x hx).trans hk
          · exact (key_getPotentialSolution E _ _ _ _ _ x hx).trans hk
        · exact hl
    clear_value tooLong requirement lineIndex contexts
    split
    · rename_i indiff' stack hif
      have hk : indiff'.key = k := by
        split at hif
        · exact hi _ hif
        · cases hif
      extract_lets stack'
      split
      rename_i s1 c1 h1
      split
      rename_i s2 c2 h2
      intro x hx
      simp only [List.mem_append] at hx
      rcases hx with hx | hx
      · exact key_getPotentialSolution' E k _ _ _ _ _ _ _ hk h1 x hx
      · exact key_getPotentialSolution' E k _ _ _ _ _ _ _ hk h2 x hx
    · split
      · exact hn
      · split
        · -- invalid
          split
          · rename_i indiff' stack
            have hk := hi _ rfl
            split
            rename_i s1 c1 h1
            split
            rename_i s2 c2 h2
            intro x hx
            simp only [List.mem_append] at hx
            rcases hx with hx | hx
            · exact key_getPotentialSolution' E k _ _ _ _ _ _ _ hk h1 x hx
            · exact key_getPotentialSolution' E k _ _ _ _ _ _ _ hk h2 x hx
          · exact trivial
        · -- mustBreak
          split
          rename_i sols c1 h1
          have hs := key_getPotentialSolution' E k _ _ _ _ _ _ _ hn h1
          split
          rename_i ns bp' h2
          have : ∀ (l : List FormattingNode) (acc : List FormattingNode × Array Nat), (∀ x ∈ l, x.key = k) →
              (∀ x ∈ acc.1, x.key = k) → ∀ x ∈ (l.foldl (fun (acc : List FormattingNode × Array Nat) (node : FormattingNode) =>
                if node.penalty < acc.2[lineIndex]! then (acc.1 ++ [node], acc.2.set! lineIndex node.penalty)
                else acc) acc).1, x.key = k := by
            intro l
            induction l with
            | nil => intro acc _ ha; exact ha
            | cons y r ihl =>
              intro acc hl ha
              rw [List.foldl_cons]
              apply ihl _ (fun x hx => hl x (by simp [hx]))
              split
              · intro x hx
                simp only [List.mem_append, List.mem_singleton] at hx
                rcases hx with hx | rfl
                · exact ha x hx
                · exact hl _ (by simp)
              · exact ha
          have := this sols.toList ([], bp) hs (by simp)
          rw [h2] at this
          exact this
        · split
          rename_i sols c1 h1
          exact hcw _ _ _ hi (key_getPotentialSolution' E k _ _ _ _ _ _ _ hn h1)
        · split
          rename_i sols c1 h1
          refine hcw _ _ _ ?_ (key_getPotentialSolution' E k _ _ _ _ _ _ _ hn h1)
          intro p hp
          simp only [indifferenceLine] at hp
          split at hp
          · cases hp; exact hn
          · exact hi _ hp
theorem successorLoop_key (E : SearchEnv) (k : LineWhitespace × Option Dec) :
    ∀ (fuel : Nat) (heap : NodeHeap) (cache : ChildLineCache) (bp : Array Nat) (node : FormattingNode),
      HAll (fun x => x.key = k) heap → node.key = k →
      HAll (fun x => x.key = k) (E.successorLoop fuel heap cache bp node).1 := by
  intro fuel
  induction fuel with
  | zero => intro heap cache bp node H hn; exact H
  | succ f ih =>
    intro heap cache bp node H hn
    unfold SearchEnv.successorLoop
    have hi := indiffLoop_key E k (E.line.2.tokens.size + 2) cache bp node none hn (by simp)
    split
    · rename_i n' c' bp' heq
      rw [heq] at hi
      exact heapPush_all _ _ H hi
    · exact H
    · rename_i single c' bp' heq
      rw [heq] at hi
      exact ih _ _ _ _ H (hi single (by simp))
    · rename_i l c' bp' _ heq
      rw [heq] at hi
      exact heapExtend_all _ _ H hi

/-- the `'node_heap` loop returns a node of the heap: the solution has the starting whitespace and the root decision
    all nodes share -/
theorem nodeHeapLoop_key (E : SearchEnv) (k : LineWhitespace × Option Dec) :
    ∀ (fuel : Nat) (heap : NodeHeap) (cache : ChildLineCache) (bp : Array Nat) (it : Nat)
      (sol : FormattingSolution) (cache' : ChildLineCache),
      HAll (fun x => x.key = k) heap → E.nodeHeapLoop fuel heap cache bp it = (.ok sol, cache') →
      ∃ node : FormattingNode, node.key = k ∧ sol = node.intoSolution := by
  intro fuel
  induction fuel with
  | zero => intro heap cache bp it sol cache' H h; simp [SearchEnv.nodeHeapLoop] at h
  | succ f ih =>
    intro heap cache bp it sol cache' H h
    unfold SearchEnv.nodeHeapLoop at h
    split at h
    · simp at h
    · rename_i node heap' hp
      obtain ⟨hn, H'⟩ := heapPop_all heap H node heap' hp
      split at h
      · simp at h
      · simp only [] at h
        split at h
        · simp only [Prod.mk.injEq, Except.ok.injEq] at h
          exact ⟨node, hn, h.1.symm⟩
        · split at h
          · exact ih _ _ _ _ _ _ H' h
          · have := successorLoop_key E k (E.line.2.tokens.size + 2) heap' cache bp node H' hn
            exact ih _ _ _ _ _ _ this h
theorem rootDecision_setChildren (r : DecisionRef) (cs : List (Nat × FormattingSolution)) :
    ({ value := { r.value with childSolutions := cs }, parents := r.parents } : DecisionRef).rootDecision =
      r.rootDecision := by
  unfold DecisionRef.rootDecision DecisionRef.walkParentsData
  cases r.parents with
  | nil => simp
  | cons a l => simp [List.getLast?_cons_cons]

/-- the decision `find_optimal_solution` puts at the root of its decision tree -/
def rootDec (O : Olf) (line : LineA) : FirstDecision → Dec
  | .brk => if O.getFormattingInvariant 0 line == some .mustNotBreak then .cont else .brk 0
  | .cont _ _ => .cont

theorem findOptimalSolutionWith_key (O : Olf) (solveChild : Solver) (cache : ChildLineCache) (ws : LineWhitespace)
    (lineIdx : Nat) (fd : FirstDecision) (sol : FormattingSolution) (cache' : ChildLineCache)
    (h : O.findOptimalSolutionWith solveChild cache ws lineIdx fd = (.ok sol, cache')) :
    sol.startingWs = ws ∧
      ((O.lines[lineIdx]!).tokens[0]?.isSome →
        (sol.decisions.head?).map (·.decision) = some (rootDec O (O.lines[lineIdx]!) fd)) := by
  unfold Olf.findOptimalSolutionWith at h
  extract_lets lineA line fc E bp inv ics at h
  split at h
  · simp only [Prod.mk.injEq, Except.ok.injEq] at h
    rename_i h0
    rw [← h.1]
    exact ⟨rfl, by simp [lineA] at h0; simp [h0]⟩
  · rename_i t0 ht0
    extract_lets tl sb cl at h
    split at h
    rename_i newLine req lll bcb hq
    have hnl : newLine = rootDec O lineA fd := by
      unfold rootDec
      cases fd with
      | brk =>
        simp only [] at hq ⊢
        split at hq <;> rename_i hc
        · simp only [inv] at hc; rw [if_pos hc]; cases hq; rfl
        · simp only [inv] at hc; rw [if_neg hc]; cases hq; rfl
      | cont a b => cases hq; rfl
    split at h
    · simp at h
    · extract_lets root node0 node src1 src2 withChildren at h
      split at h
      rename_i childSols cache1 hcs
      extract_lets initial heap at h
      have hnode : node.key = (ws, some newLine) := by
        simp only [node]
        apply key_ite
        · rw [key_modifyData]; rfl
        · rfl
      clear_value node
      have hwc : ∀ cs, (withChildren cs).key = (ws, some newLine) := by
        intro cs
        rw [← hnode]
        exact congrArg (Prod.mk node.startingWs) (rootDecision_setChildren node.decision cs)
      have hinit : ∀ x ∈ initial, x.key = (ws, some newLine) := by
        simp only [initial]
        split
        · simp
        · intro x hx; simp only [List.mem_singleton] at hx; subst hx; exact hwc _
        · intro x hx; simp only [List.mem_cons, List.not_mem_nil, or_false, or_self] at hx; subst hx; exact hwc _
      clear_value withChildren
      have hheap : HAll (fun x => x.key = (ws, some newLine)) heap :=
        heapExtend_all #[] initial (fun i hi => absurd hi (Nat.not_lt_zero i)) hinit
      clear_value heap
      obtain ⟨nd, hk, rfl⟩ := nodeHeapLoop_key _ _ _ _ _ _ _ _ _ hheap h
      have hk1 : nd.startingWs = ws := congrArg Prod.fst hk
      have hk2 : nd.decision.rootDecision = some newLine := congrArg Prod.snd hk
      refine ⟨hk1, fun _ => ?_⟩
      show Option.map (fun x => x.decision) (nd.decision.walkParentsData.reverse).head? = _
      rw [List.head?_reverse, ← hnl]
      exact hk2
theorem findOptimalSolution_key (O : Olf) : ∀ (fuel : Nat) (cache : ChildLineCache) (ws : LineWhitespace)
    (lineIdx : Nat) (fd : FirstDecision) (sol : FormattingSolution) (cache' : ChildLineCache),
    O.findOptimalSolution fuel cache ws lineIdx fd = (.ok sol, cache') →
    sol.startingWs = ws ∧
      ((O.lines[lineIdx]!).tokens[0]?.isSome →
        (sol.decisions.head?).map (·.decision) = some (rootDec O (O.lines[lineIdx]!) fd))
  | 0, _, _, _, _, _, _, h => by simp [Olf.findOptimalSolution] at h
  | fuel + 1, cache, ws, lineIdx, fd, sol, cache', h => by
    unfold Olf.findOptimalSolution at h
    exact findOptimalSolutionWith_key O _ cache ws lineIdx fd sol cache' h

/-- which lines must not be broken off the token before them (`get_formatting_invariant` at the first token of a
    line says "must not break"): the line that starts with the first token of the file, a line whose first token has
    no token before it in the token list, and a line that starts with a comment that shares its line with code -/
theorem invariant_zero_mustNotBreak_iff (O : Olf) (line : LineA) (t0 : Nat) (ht : line.tokens[0]? = some t0) :
    O.getFormattingInvariant 0 line = some .mustNotBreak ↔
      (t0 = 0 ∨ O.formattedTokens[t0 - 1]? = none ∨
        ∃ t, O.formattedTokens[t0]? = some t ∧ (t.kind = .tComment .cInlineLine ∨ t.kind = .tComment .cInlineBlock)) := by
  unfold Olf.getFormattingInvariant Olf.getPrevTokenTypeForLineIndex Olf.getTokenTypeForLineIndex Olf.getTokenType
  simp only [ht]
  by_cases h0 : t0 = 0
  · simp [h0]
  · have hb : (t0 == 0) = false := by simpa using h0
    simp only [hb, h0, false_or]
    cases hp : O.formattedTokens[t0 - 1]? with
    | none => simp
    | some p =>
      simp only [Bool.false_eq_true, if_false, false_or, reduceCtorEq]
      cases hc : O.formattedTokens[t0]? with
      | none => simp; repeat' split <;> simp
      | some c =>
        simp only [Option.some.injEq, exists_eq_left']
        split
        · rename_i h; simp only [Option.some.injEq] at h; simp [h]
        · rename_i h; simp only [Option.some.injEq] at h; simp [h]
        · rename_i h1 h2
          have hK : ¬ (c.kind = TokenType.tComment CommentKind.cInlineLine ∨ c.kind = TokenType.tComment CommentKind.cInlineBlock) := by
            intro h
            rcases h with h | h
            · exact h1 (by rw [h])
            · exact h2 (by rw [h])
          simp only [Bool.false_eq_true, if_false, hK, iff_false]
          repeat' split
          all_goals simp

/-! ### `format_line` -/

theorem getElem!_of_getElem? {α : Type} [Inhabited α] (a : Array α) (i : Nat) (x : α) (h : a[i]? = some x) : a[i]! = x := by
  rw [getElem!_def, h]

/-- `format_line`: the solution it returns starts with the whitespace "`level` indentations, no continuation" of the
    line it was asked to wrap -/
theorem format_line_starting_ws (O : Olf) (cache cache' : ChildLineCache) (lineIdx : Nat) (line : LineA)
    (sol : FormattingSolution) (hl : O.lines[lineIdx]? = some line)
    (h : O.formatLine cache lineIdx = (some sol, cache')) :
    sol.startingWs = { indentations := line.level, continuations := 0 } := by
  unfold Olf.formatLine at h
  simp only [hl] at h
  split at h
  · simp at h
  · split at h
    · rename_i s c hs
      simp only [Prod.mk.injEq, Option.some.injEq] at h
      rw [← h.1]
      exact (findOptimalSolution_key O _ _ _ _ _ _ _ hs).1
    · simp at h

/-- `format_line`: the first decision of the solution it returns is "continue" when the line must not be broken off
    the token before it (see `invariant_zero_mustNotBreak_iff`: the first token of the file, or a comment sharing its
    line with code) and a break with no continuation otherwise -/
theorem format_line_first_decision (O : Olf) (cache cache' : ChildLineCache) (lineIdx : Nat) (line : LineA)
    (sol : FormattingSolution) (t0 : Nat) (hl : O.lines[lineIdx]? = some line) (ht : line.tokens[0]? = some t0)
    (h : O.formatLine cache lineIdx = (some sol, cache')) :
    (sol.decisions.head?).map (·.decision) =
      some (if O.getFormattingInvariant 0 line = some .mustNotBreak then Dec.cont else Dec.brk 0) := by
  unfold Olf.formatLine at h
  simp only [hl] at h
  split at h
  · simp at h
  · split at h
    · rename_i s c hs
      simp only [Prod.mk.injEq, Option.some.injEq] at h
      rw [← h.1]
      have hli : O.lines[lineIdx]! = line := getElem!_of_getElem? _ _ _ hl
      have := (findOptimalSolution_key O _ _ _ _ _ _ _ hs).2 (by rw [hli, ht]; rfl)
      rw [this, hli]
      congr 1
      simp only [ht]
      by_cases h0 : t0 = 0
      · subst h0
        have : O.getFormattingInvariant 0 line = some .mustNotBreak :=
          (invariant_zero_mustNotBreak_iff O line 0 ht).mpr (Or.inl rfl)
        simp [rootDec, this]
      · cases t0 with
        | zero => exact absurd rfl h0
        | succ n =>
          show rootDec O line FirstDecision.brk = _
          simp [rootDec]
    · simp at h
/-! ### applying the solution -/

theorem setFmt_spec (ft ft1 : FT) (i : Nat) (g : FmtData → FmtData) (h : setFmt ft i g = some ft1) :
    (∃ t, ft[i]? = some t ∧ ft1[i]? = some { t with fmt := g t.fmt }) ∧ ∀ j, j ≠ i → ft1[j]? = ft[j]? := by
  unfold setFmt at h
  split at h
  · rename_i t ht
    simp only [Option.some.injEq] at h
    subst h
    have hlt : i < ft.length := by
      rcases Nat.lt_or_ge i ft.length with h1 | h1
      · exact h1
      · rw [List.getElem?_eq_none h1] at ht; cases ht
    refine ⟨⟨t, ht, ?_⟩, fun j hj => ?_⟩
    · rw [List.getElem?_set]; simp [hlt]
    · rw [List.getElem?_set]; simp [Ne.symm hj]
  · simp at h

mutual
/-- applying a solution changes no token outside `solTokens` -/
theorem applySol_untouched (lines : List Line) (ft ft1 : FT) (s : Sol) (li : Nat)
    (h : applySol lines ft s li = some ft1) (j : Nat) (hj : j ∉ solTokens lines s li) : ft1[j]? = ft[j]? := by
  cases s with
  | mk ind cont decs =>
    unfold applySol at h
    unfold solTokens at hj
    split at h
    · simp at h
    · rename_i l hl
      simp only [hl] at hj
      exact applyDecs_untouched lines ind cont l.tokens 0 ft ft1 decs h j hj

theorem applyDecs_untouched (lines : List Line) (ind cont : Nat) (toks : List Nat) (i : Nat) (ft ft1 : FT)
    (decs : List (Dec × List (Nat × Sol))) (h : applyDecs lines ind cont toks i ft decs = some ft1)
    (j : Nat) (hj : j ∉ decsTokens lines toks i decs) : ft1[j]? = ft[j]? := by
  cases decs with
  | nil =>
    unfold applyDecs at h
    simp at h; subst h; rfl
  | cons dk rest =>
    obtain ⟨d, children⟩ := dk
    unfold applyDecs at h
    unfold decsTokens at hj
    split at h
    · simp at h
    · rename_i tok htok
      simp only [htok, List.mem_append, List.mem_singleton, not_or] at hj
      split at h
      · simp at h
      · rename_i fta ha
        split at h
        · simp at h
        · rename_i ftb hb
          rw [applyDecs_untouched lines ind cont toks (i + 1) ftb ft1 rest h j hj.2,
            applyChildren_untouched lines fta ftb children hb j hj.1.2,
            (setFmt_spec ft fta _ _ ha).2 j hj.1.1]

theorem applyChildren_untouched (lines : List Line) (ft ft1 : FT) (ks : List (Nat × Sol))
    (h : applyChildren lines ft ks = some ft1) (j : Nat) (hj : j ∉ childrenTokens lines ks) : ft1[j]? = ft[j]? := by
  cases ks with
  | nil =>
    unfold applyChildren at h
    simp at h; subst h; rfl
  | cons k rest =>
    obtain ⟨li, s⟩ := k
    unfold applyChildren at h
    unfold childrenTokens at hj
    simp only [List.mem_append, not_or] at hj
    split at h
    · simp at h
    · rename_i fta ha
      rw [applyChildren_untouched lines fta ft1 rest h j hj.2, applySol_untouched lines ft fta s li ha j hj.1]
end

/-- applying a solution whose first decision is a break with no continuation: the first token of the line gets one
    line break (two when there was a blank line before it), the starting whitespace of the solution as its indentation
    and continuation, provided no later part of the solution (a child line) writes the same token again -/
theorem applySol_first_token (lines : List Line) (ft ft1 : FT) (ind cont : Nat) (ch : List (Nat × Sol))
    (rest : List (Dec × List (Nat × Sol))) (li : Nat) (l : Line) (t0 : Nat) (d : Dec)
    (hl : lines[li]? = some l) (ht : l.tokens[0]? = some t0)
    (h : applySol lines ft (.mk ind cont ((d, ch) :: rest)) li = some ft1)
    (hone : (solTokens lines (.mk ind cont ((d, ch) :: rest)) li).count t0 = 1) :
    ∃ t, ft[t0]? = some t ∧ ft1[t0]? = some { t with fmt := applyDec t.fmt true ind cont d } := by
  unfold solTokens at hone
  unfold applySol at h
  simp only [hl] at h hone
  unfold decsTokens at hone
  unfold applyDecs at h
  simp only [ht] at h hone
  split at h
  · simp at h
  · rename_i fta ha
    split at h
    · simp at h
    · rename_i ftb hb
      obtain ⟨⟨t, h1, h2⟩, _⟩ := setFmt_spec ft fta _ _ ha
      have hnot : t0 ∉ childrenTokens lines ch ∧ t0 ∉ decsTokens lines l.tokens (0 + 1) rest := by
        simp only [List.singleton_append, List.count_cons_self, List.count_append] at hone
        have h3 : List.count t0 (childrenTokens lines ch) = 0 := by omega
        have h4 : List.count t0 (decsTokens lines l.tokens (0 + 1) rest) = 0 := by omega
        exact ⟨List.count_eq_zero.mp h3, List.count_eq_zero.mp h4⟩
      refine ⟨t, h1, ?_⟩
      rw [applyDecs_untouched lines ind cont l.tokens (0 + 1) ftb ft1 rest h t0 hnot.2,
        applyChildren_untouched lines fta ftb ch hb t0 hnot.1, h2]
      rfl
/-! ### the solutions the wrapper stage gets from the search -/

/-- the solution in the form the wrapper stage applies keeps the starting whitespace and the decisions -/
theorem toSol_succ (n : Nat) (sol : FormattingSolution) :
    sol.toSol (n + 1) = .mk sol.startingWs.indentations sol.startingWs.continuations
      (sol.decisions.map fun d => (d.decision, d.childSolutions.map fun (i, s) => (i, s.toSol n))) := by
  cases sol; rfl

/-- the first token of the line is a comment that shares its line with code -/
def startsWithInlineComment (k : Kind) : Prop := k = .tComment .cInlineLine ∨ k = .tComment .cInlineBlock

/-- the shape of every solution the search hands to the wrapper stage for a top-level line (with at least one token):
    starting whitespace = `level` indentations and no continuation; first decision = a break with no continuation,
    or "continue" for the line that starts with token 0 of the file and for a line starting with a comment that
    shares its line with code -/
theorem searchSolve_shape (lines : List Line) (st st' : SearchState) (ft : FT) (i : Nat) (s : Sol)
    (l : Line) (t0 : Nat)
    (hst : st.lines = (lines.map Line.toA).toArray)
    (hl : lines[i]? = some l) (ht : l.tokens[0]? = some t0)
    (hs : searchSolve st ft i = (some s, st')) :
    ∃ d ch rest, s = .mk l.level 0 ((d, ch) :: rest) ∧ ∀ tok, ft[t0]? = some tok →
      ((t0 = 0 ∨ startsWithInlineComment tok.tok.kind) → d = .cont) ∧
      (¬ (t0 = 0 ∨ startsWithInlineComment tok.tok.kind) → d = .brk 0) := by
  unfold searchSolve searchSolveV at hs
  extract_lets O at hs
  split at hs
  rename_i osol cache hf
  simp only [Prod.mk.injEq] at hs
  obtain ⟨hs, _⟩ := hs
  cases osol with
  | none => simp at hs
  | some sol =>
    simp only [Option.map_some, Option.some.injEq] at hs
    have hlA : O.lines[i]? = some l.toA := by
      show st.lines[i]? = _
      rw [hst]; simp [hl]
    have htA : l.toA.tokens[0]? = some t0 := by
      show l.tokens.toArray[0]? = _
      simp [ht]
    have h1 := format_line_starting_ws O _ _ i l.toA sol hlA hf
    have h2 := format_line_first_decision O _ _ i l.toA sol t0 hlA htA hf
    have hiff := invariant_zero_mustNotBreak_iff O l.toA t0 htA
    have hcond : ∀ tok, ft[t0]? = some tok →
        (O.getFormattingInvariant 0 l.toA = some .mustNotBreak ↔ (t0 = 0 ∨ startsWithInlineComment tok.tok.kind)) := by
      intro tok htok
      have hlt : t0 < ft.length := by
        rcases Nat.lt_or_ge t0 ft.length with h | h
        · exact h
        · rw [List.getElem?_eq_none h] at htok; cases htok
      rw [hiff]
      have e1 : O.formattedTokens[t0]? = some tok.sview := by
        show (ft.map FTok.sview).toArray[t0]? = _
        simp [htok]
      have e2 : O.formattedTokens[t0 - 1]? ≠ none := by
        show (ft.map FTok.sview).toArray[t0 - 1]? ≠ none
        have : t0 - 1 < ft.length := by omega
        simp [this]
      simp only [e1, e2, false_or, Option.some.injEq, exists_eq_left']
      rfl
    rw [toSol_succ] at hs
    cases hd : sol.decisions with
    | nil => rw [hd] at h2; simp at h2
    | cons d0 r =>
      rw [hd] at h2 hs
      simp only [List.head?_cons, Option.map_some, Option.some.injEq] at h2
      rw [h1] at hs
      refine ⟨d0.decision, _, _, hs.symm, fun tok htok => ⟨?_, ?_⟩⟩
      · intro hc; rw [h2, if_pos ((hcond tok htok).mpr hc)]
      · intro hc; rw [h2, if_neg (fun h => hc ((hcond tok htok).mp h))]

/-- THE LINK BETWEEN LEVEL AND COUNTERS, THROUGH THE SEARCH.  When the search finds a solution for a top-level line
    and the solution is applied, the first token `t0` of the line (not token 0 of the file, not a comment sharing its
    line with code) gets: one line break (two when there was a blank line before it), `level` indentations, no
    continuation.  Side condition: no child line of the solution writes `t0` again (`t0` occurs once in the tokens
    the solution writes). -/
theorem searchSolve_first_token (lines : List Line) (st st' : SearchState) (ft ft1 : FT) (i : Nat) (s : Sol)
    (l : Line) (t0 : Nat)
    (hst : st.lines = (lines.map Line.toA).toArray)
    (hl : lines[i]? = some l) (ht : l.tokens[0]? = some t0) (h0 : t0 ≠ 0)
    (hs : searchSolve st ft i = (some s, st'))
    (ha : applySol lines ft s i = some ft1)
    (hone : (solTokens lines s i).count t0 = 1) :
    ∃ t, ft[t0]? = some t ∧
      (¬ startsWithInlineComment t.tok.kind →
        ft1[t0]? = some { t with fmt := { t.fmt with nl := nlc t.fmt.nl, ind := l.level, cont := 0 } }) := by
  obtain ⟨d, ch, rest, rfl, hd⟩ := searchSolve_shape lines st st' ft i s l t0 hst hl ht hs
  obtain ⟨t, h1, h2⟩ := applySol_first_token lines ft ft1 _ _ ch rest i l t0 d hl ht ha hone
  refine ⟨t, h1, fun hk => ?_⟩
  rw [h2, (hd t h1).2 (by simp [h0, hk])]
  simp [applyDec, nlc]

/-! ### through the whole wrapper stage -/

/-- the type of the token at position `j` -/
def kindAt (ft : FT) (j : Nat) : Option Kind := (ft[j]?).map (·.tok.kind)
/-- the counters of the token at position `j` -/
def fmtAt (ft : FT) (j : Nat) : Option FmtData := (ft[j]?).map (·.fmt)

theorem setFmt_kindAt (ft ft1 : FT) (i : Nat) (g : FmtData → FmtData) (h : setFmt ft i g = some ft1) (j : Nat) :
    kindAt ft1 j = kindAt ft j := by
  obtain ⟨⟨t, h1, h2⟩, h3⟩ := setFmt_spec ft ft1 i g h
  unfold kindAt
  by_cases hj : j = i
  · subst hj; rw [h1, h2]; rfl
  · rw [h3 j hj]

mutual
theorem applySol_kindAt (lines : List Line) (ft ft1 : FT) (s : Sol) (li : Nat)
    (h : applySol lines ft s li = some ft1) (j : Nat) : kindAt ft1 j = kindAt ft j := by
  cases s with
  | mk ind cont decs =>
    unfold applySol at h
    split at h
    · simp at h
    · exact applyDecs_kindAt lines ind cont _ 0 ft ft1 decs h j

theorem applyDecs_kindAt (lines : List Line) (ind cont : Nat) (toks : List Nat) (i : Nat) (ft ft1 : FT)
    (decs : List (Dec × List (Nat × Sol))) (h : applyDecs lines ind cont toks i ft decs = some ft1) (j : Nat) :
    kindAt ft1 j = kindAt ft j := by
  cases decs with
  | nil =>
    unfold applyDecs at h
    simp at h; subst h; rfl
  | cons dk rest =>
    obtain ⟨d, children⟩ := dk
    unfold applyDecs at h
    split at h
    · simp at h
    · split at h
      · simp at h
      · rename_i fta ha
        split at h
        · simp at h
        · rename_i ftb hb
          rw [applyDecs_kindAt lines ind cont toks (i + 1) ftb ft1 rest h j,
            applyChildren_kindAt lines fta ftb children hb j, setFmt_kindAt ft fta _ _ ha j]

theorem applyChildren_kindAt (lines : List Line) (ft ft1 : FT) (ks : List (Nat × Sol))
    (h : applyChildren lines ft ks = some ft1) (j : Nat) : kindAt ft1 j = kindAt ft j := by
  cases ks with
  | nil =>
    unfold applyChildren at h
    simp at h; subst h; rfl
  | cons k rest =>
    obtain ⟨li, s⟩ := k
    unfold applyChildren at h
    split at h
    · simp at h
    · rename_i fta ha
      rw [applyChildren_kindAt lines fta ft1 rest h j, applySol_kindAt lines ft fta s li ha j]
end

theorem mlsLine_at (S : Settings) (toks : List Nat) (ft ft1 : FT) (ch : Bool) (h : mlsLine S toks ft = some (ft1, ch))
    (j : Nat) : kindAt ft1 j = kindAt ft j ∧ fmtAt ft1 j = fmtAt ft j := by
  induction toks generalizing ft ft1 ch with
  | nil => simp [mlsLine] at h; obtain ⟨rfl, _⟩ := h; exact ⟨rfl, rfl⟩
  | cons idx rest ih =>
    unfold mlsLine at h
    split at h
    · simp at h
    · rename_i t ht
      simp only [] at h
      split at h
      · simp at h
      · rename_i ft2 ch2 h2
        simp only [Option.some.injEq, Prod.mk.injEq] at h
        obtain ⟨rfl, _⟩ := h
        obtain ⟨a, b⟩ := ih _ _ _ h2
        rw [a, b]
        split
        · rename_i c _
          have hlt : idx < ft.length := by
            rcases Nat.lt_or_ge idx ft.length with h1 | h1
            · exact h1
            · rw [List.getElem?_eq_none h1] at ht; cases ht
          unfold kindAt fmtAt
          rw [List.getElem?_set]
          by_cases hj : idx = j
          · subst hj
            simp only [hlt, if_true, ht, Option.map_some]
            unfold FTok.setContent
            split <;> exact ⟨rfl, rfl⟩
          · simp [hj]
        · exact ⟨rfl, rfl⟩

theorem mlsPass1_at (S : Settings) (lines : List Line) (ls : List (Line × Nat)) (ft ft1 : FT) (acc out : List Nat)
    (h : mlsPass1 S lines ls ft acc = some (ft1, out)) (j : Nat) :
    kindAt ft1 j = kindAt ft j ∧ fmtAt ft1 j = fmtAt ft j := by
  induction ls generalizing ft acc with
  | nil => simp [mlsPass1] at h; obtain ⟨rfl, _⟩ := h; exact ⟨rfl, rfl⟩
  | cons x rest ih =>
    obtain ⟨l, i⟩ := x
    unfold mlsPass1 at h
    split at h
    · simp at h
    · rename_i ft2 ch h2
      obtain ⟨a, b⟩ := mlsLine_at S _ _ _ _ h2 j
      split at h
      · split at h
        · simp at h
        · obtain ⟨c, d⟩ := ih _ _ h
          exact ⟨c.trans a, d.trans b⟩
      · obtain ⟨c, d⟩ := ih _ _ h
        exact ⟨c.trans a, d.trans b⟩

theorem mlsPass2_at (S : Settings) (ls : List Line) (ft ft1 : FT) (h : mlsPass2 S ls ft = some ft1) (j : Nat) :
    kindAt ft1 j = kindAt ft j ∧ fmtAt ft1 j = fmtAt ft j := by
  induction ls generalizing ft with
  | nil => simp [mlsPass2] at h; subst h; exact ⟨rfl, rfl⟩
  | cons l rest ih =>
    unfold mlsPass2 at h
    split at h
    · simp at h
    · rename_i ft2 ch h2
      obtain ⟨a, b⟩ := mlsLine_at S _ _ _ _ h2 j
      obtain ⟨c, d⟩ := ih _ h
      exact ⟨c.trans a, d.trans b⟩
/-- the counters of a token that starts a line of level `level`: one or two line breaks, `level` indentations, no
    continuation -/
def LineStart (level : Nat) (f : FmtData) : Prop := (f.nl = 1 ∨ f.nl = 2) ∧ f.ind = level ∧ f.cont = 0

/-- side condition on the solutions the stage applied: the solutions for line `i` write token `t0` once (as the first
    token of the line) and the solutions for other lines never write it -/
def WrittenOnlyAsFirst (lines : List Line) (i t0 : Nat) (sols : List (Nat × Nat × Sol)) : Prop :=
  ∀ x ∈ sols, (x.2.1 = i → (solTokens lines x.2.2 x.2.1).count t0 = 1) ∧ (x.2.1 ≠ i → t0 ∉ solTokens lines x.2.2 x.2.1)

theorem searchSolve_lines (st : SearchState) (ft : FT) (i : Nat) : (searchSolve st ft i).2.lines = st.lines := rfl

theorem applyLinesS_acc_sub (phase : Nat) (lines : List Line) (is : List Nat) (st st1 : SearchState) (ft ft1 : FT)
    (acc sols : List (Nat × Nat × Sol)) (h : applyLinesS phase lines is st ft acc = some (ft1, st1, sols)) :
    ∀ x ∈ acc, x ∈ sols := by
  induction is generalizing st ft acc with
  | nil => simp [applyLinesS] at h; obtain ⟨_, _, rfl⟩ := h; exact fun x hx => hx
  | cons i rest ih =>
    unfold applyLinesS at h
    split at h
    · exact ih _ _ _ h
    · split at h
      · simp at h
      · exact fun x hx => ih _ _ _ h x (by simp [hx])

theorem applyLinesS_first_token (phase : Nat) (lines : List Line) (is : List Nat) (st st1 : SearchState) (ft ft1 : FT)
    (acc sols : List (Nat × Nat × Sol)) (i : Nat) (l : Line) (t0 : Nat)
    (h : applyLinesS phase lines is st ft acc = some (ft1, st1, sols))
    (hst : st.lines = (lines.map Line.toA).toArray)
    (hl : lines[i]? = some l) (ht : l.tokens[0]? = some t0) (h0 : t0 ≠ 0)
    (hk : ∀ k, kindAt ft t0 = some k → ¬ startsWithInlineComment k)
    (hW : WrittenOnlyAsFirst lines i t0 sols)
    (hP : (∃ x ∈ acc, x.2.1 = i) → ∃ f, fmtAt ft t0 = some f ∧ LineStart l.level f) :
    st1.lines = st.lines ∧ kindAt ft1 t0 = kindAt ft t0 ∧
      ((∃ x ∈ sols, x.2.1 = i) → ∃ f, fmtAt ft1 t0 = some f ∧ LineStart l.level f) := by
  induction is generalizing st ft acc with
  | nil => simp [applyLinesS] at h; obtain ⟨rfl, rfl, rfl⟩ := h; exact ⟨rfl, rfl, hP⟩
  | cons i' rest ih =>
    unfold applyLinesS at h
    split at h
    · rename_i st' hs
      have hl' : st'.lines = st.lines := by rw [← searchSolve_lines st ft i', hs]
      obtain ⟨a, b, c⟩ := ih _ _ _ h (hl'.trans hst) hk hP
      exact ⟨a.trans hl', b, c⟩
    · rename_i s' st' hs
      have hl' : st'.lines = st.lines := by rw [← searchSolve_lines st ft i', hs]
      split at h
      · simp at h
      · rename_i ft' ha
        have hmem : (phase, i', s') ∈ sols := applyLinesS_acc_sub _ _ _ _ _ _ _ _ _ h _ (by simp)
        have hkk : kindAt ft' t0 = kindAt ft t0 := applySol_kindAt lines ft ft' s' i' ha t0
        have hP' : (∃ x ∈ acc ++ [(phase, i', s')], x.2.1 = i) → ∃ f, fmtAt ft' t0 = some f ∧ LineStart l.level f := by
          by_cases hi : i' = i
          · subst hi
            intro _
            obtain ⟨t, h1, h2⟩ := searchSolve_first_token lines st st' ft ft' i' s' l t0 hst hl ht h0 hs ha
              ((hW _ hmem).1 rfl)
            have := h2 (hk t.tok.kind (by unfold kindAt; rw [h1]; rfl))
            refine ⟨_, by unfold fmtAt; rw [this]; rfl, ?_, rfl, rfl⟩
            show nlc t.fmt.nl = 1 ∨ nlc t.fmt.nl = 2
            unfold nlc; omega
          · intro ⟨x, hx, hxi⟩
            have hun : ft'[t0]? = ft[t0]? := applySol_untouched lines ft ft' s' i' ha t0 ((hW _ hmem).2 hi)
            simp only [List.mem_append, List.mem_singleton] at hx
            rcases hx with hx | rfl
            · obtain ⟨f, hf, hg⟩ := hP ⟨x, hx, hxi⟩
              exact ⟨f, by unfold fmtAt at hf ⊢; rw [hun]; exact hf, hg⟩
            · exact absurd hxi hi
        obtain ⟨a, b, c⟩ := ih _ _ _ h (hl'.trans hst) (by rw [hkk]; exact hk) hP'
        exact ⟨a.trans hl', b.trans hkk, c⟩

theorem zeroLineStartSpaces_getElem? (ft : FT) (j : Nat) :
    (zeroLineStartSpaces ft)[j]? =
      (ft[j]?).map fun t => if t.fmt.nl > 0 then { t with fmt := { t.fmt with sp := 0 } } else t := by
  unfold zeroLineStartSpaces; rw [List.getElem?_map]

/-- THE WRAPPER STAGE, SEARCH INCLUDED: for every top-level line `i` the stage found (and applied) a solution for, the
    first token `t0` of the line (not token 0 of the file, not a comment sharing its line with code) leaves the stage
    with the counters "one or two line breaks, `level` indentations, no continuation, no spaces" - provided the
    applied solutions write `t0` only as the first token of line `i` (`WrittenOnlyAsFirst`: the lines of a parse have
    disjoint tokens). -/
theorem wrapStageFull_first_token (cfg : Config) (lines : List Line) (ft ftz : FT) (sols : List (Nat × Nat × Sol))
    (i : Nat) (l : Line) (t0 : Nat)
    (h : wrapStageFull cfg lines ft = some (ftz, sols))
    (hl : lines[i]? = some l) (ht : l.tokens[0]? = some t0) (h0 : t0 ≠ 0)
    (hk : ∀ k, kindAt ft t0 = some k → ¬ startsWithInlineComment k)
    (hsolved : ∃ x ∈ sols, x.2.1 = i)
    (hW : WrittenOnlyAsFirst lines i t0 sols) :
    ∃ t, ftz[t0]? = some t ∧ LineStart l.level t.fmt ∧ t.fmt.sp = 0 := by
  have fin : ∀ ft4 : FT, (∃ f, fmtAt ft4 t0 = some f ∧ LineStart l.level f) →
      ∃ t, (zeroLineStartSpaces ft4)[t0]? = some t ∧ LineStart l.level t.fmt ∧ t.fmt.sp = 0 := by
    intro ft4 ⟨f, hf, hg⟩
    unfold fmtAt at hf
    cases hq : ft4[t0]? with
    | none => rw [hq] at hf; cases hf
    | some t =>
      rw [hq] at hf
      simp only [Option.map_some, Option.some.injEq] at hf
      subst hf
      have hnl : t.fmt.nl > 0 := by rcases hg.1 with h | h <;> omega
      refine ⟨_, by rw [zeroLineStartSpaces_getElem?, hq]; rfl, ?_⟩
      show LineStart l.level (if t.fmt.nl > 0 then ({ t with fmt := { t.fmt with sp := 0 } } : FTok) else t).fmt ∧
        (if t.fmt.nl > 0 then ({ t with fmt := { t.fmt with sp := 0 } } : FTok) else t).fmt.sp = 0
      rw [if_pos hnl]
      exact ⟨hg, rfl⟩
  unfold wrapStageFull at h
  simp only [] at h
  split at h
  · simp at h
  · rename_i ft1 st1 sols1 h1
    split at h
    · simp only [Option.some.injEq, Prod.mk.injEq] at h
      obtain ⟨rfl, rfl⟩ := h
      obtain ⟨_, _, c⟩ := applyLinesS_first_token 0 lines _ _ _ _ _ _ _ i l t0 h1 rfl hl ht h0 hk hW (by simp)
      exact fin _ (c hsolved)
    · split at h
      · simp at h
      · rename_i ft2 toReflow h2
        split at h
        · simp at h
        · rename_i ft3 st3 sols2 h3
          split at h
          · simp at h
          · rename_i ft4 h4
            simp only [Option.some.injEq, Prod.mk.injEq] at h
            obtain ⟨rfl, rfl⟩ := h
            have hsub := applyLinesS_acc_sub _ _ _ _ _ _ _ _ _ h3
            have hW1 : WrittenOnlyAsFirst lines i t0 sols1 := fun x hx => hW x (hsub x hx)
            obtain ⟨a1, b1, c1⟩ := applyLinesS_first_token 0 lines _ _ _ _ _ _ _ i l t0 h1 rfl hl ht h0 hk hW1 (by simp)
            obtain ⟨k2, f2⟩ := mlsPass1_at _ _ _ _ _ _ _ h2 t0
            obtain ⟨_, b3, c3⟩ := applyLinesS_first_token 1 lines _ _ _ _ _ _ _ i l t0 h3 a1 hl ht h0
              (by rw [k2, b1]; exact hk) hW (by rw [f2]; exact c1)
            obtain ⟨_, f4⟩ := mlsPass2_at _ _ _ _ h4 t0
            exact fin _ (by rw [f4]; exact c3 hsolved)
end Pasfmt
