/-
  Two facts about the control flow of the parser model (`Model/ParserBase.lean`, `ParserLeaf.lean`, `ParserFull.lean`),
  as an invariant over its state monad, proved function by function (Hoare style: `Good E V x` = the computation `x`
  keeps the invariant `CInv E`, provided the parent references in `V` are meaningful):

  * the parent references handed to the line builder are always meaningful: a parent reference is taken from the
    current line and the current token (`get_line_parent_of_current_token`), that token is consumed onto that line at
    once (`next_token`), before the reference is used; lines never lose tokens, line positions never change;
  * no function makes a line typed `Eof` (only the last lines of `parse` do): the parameter `E` of the invariant.

  This file: the line builder's primitives, the framework, the symbolic-execution tactic `good`, and the functions of
  `ParserBase` and `ParserLeaf`.  The mutually recursive functions, `parse` and `parse_file`:
  `Proofs/ParserParentsMutual.lean`.
-/
import PasfmtModel.Proofs.ParserParents

namespace Pasfmt.Parents

open PFull

/-! ### the machine: lines only grow, parent references stay meaningful -/

/-- every line is still there, at the same position, with at least the same tokens -/
def Grows (ls ls' : List PLine) : Prop :=
  ∀ (i : Nat) (l : PLine), ls[i]? = some l → ∃ l' : PLine, ls'[i]? = some l' ∧ ∀ t ∈ l.tokens, t ∈ l'.tokens

theorem Grows.refl (ls : List PLine) : Grows ls ls := fun _ l h => ⟨l, h, fun _ ht => ht⟩

theorem Grows.trans {a b c : List PLine} (h1 : Grows a b) (h2 : Grows b c) : Grows a c := by
  intro i l hl
  obtain ⟨l1, a1, b1⟩ := h1 i l hl
  obtain ⟨l2, a2, b2⟩ := h2 i l1 a1
  exact ⟨l2, a2, fun t ht => b2 t (b1 t ht)⟩

theorem PV.grows {ls ls' : List PLine} {p : LineParent} (h : PV ls p) (hg : Grows ls ls') : PV ls' p := by
  obtain ⟨pl, h1, h2⟩ := h
  obtain ⟨l', a, b⟩ := hg _ pl h1
  exact ⟨l', a, b _ h2⟩

theorem grows_modifyLine (ls : List PLine) (i : Nat) (f : PLine → PLine)
    (hf : ∀ (l : PLine), ∀ t ∈ l.tokens, t ∈ (f l).tokens) : Grows ls (modifyLine ls i f) := by
  intro j l hl
  unfold modifyLine
  split
  · rename_i li hli
    by_cases hij : i = j
    · subst hij
      rw [hli] at hl; cases hl
      refine ⟨f l, ?_, hf l⟩
      rw [List.getElem?_set_self]
      rcases Nat.lt_or_ge i ls.length with h3 | h3
      · exact h3
      · rw [List.getElem?_eq_none h3] at hli; cases hli
    · exact ⟨l, by rw [List.getElem?_set_ne hij]; exact hl, fun _ ht => ht⟩
  · exact ⟨l, hl, fun _ ht => ht⟩

theorem grows_append (ls : List PLine) (x : PLine) : Grows ls (ls ++ [x]) := by
  intro j l hl
  refine ⟨l, ?_, fun _ ht => ht⟩
  rw [List.getElem?_append_left]
  · exact hl
  · rcases Nat.lt_or_ge j ls.length with h3 | h3
    · exact h3
    · rw [List.getElem?_eq_none h3] at hl; cases hl

/-- every parent reference of a line points at a line that holds the parent token -/
def LInv (ls : List PLine) : Prop := ∀ l ∈ ls, ∀ p, l.parent = some p → PV ls p

theorem LInv.modify {ls : List PLine} (h : LInv ls) (i : Nat) (f : PLine → PLine)
    (hf : ∀ (l : PLine), ∀ t ∈ l.tokens, t ∈ (f l).tokens)
    (hp : ∀ (l : PLine) (p : LineParent), (f l).parent = some p → l.parent = some p ∨ PV ls p) :
    LInv (modifyLine ls i f) := by
  have hg := grows_modifyLine ls i f hf
  intro l' hl' p hpar
  have hsrc : (∃ l ∈ ls, l' = f l) ∨ l' ∈ ls := by
    unfold modifyLine at hl'
    split at hl'
    · rename_i li hli
      rcases List.mem_or_eq_of_mem_set hl' with h1 | h1
      · exact Or.inr h1
      · exact Or.inl ⟨li, List.mem_of_getElem? hli, h1⟩
    · exact Or.inr hl'
  rcases hsrc with ⟨l, hl, rfl⟩ | hl
  · rcases hp l p hpar with h1 | h1
    · exact (h l hl p h1).grows hg
    · exact h1.grows hg
  · exact (h l' hl p hpar).grows hg

theorem LInv.append {ls : List PLine} (h : LInv ls) (x : PLine) (hx : ∀ p, x.parent = some p → PV ls p) :
    LInv (ls ++ [x]) := by
  have hg := grows_append ls x
  intro l' hl' p hpar
  rcases List.mem_append.1 hl' with h1 | h1
  · exact (h l' h1 p hpar).grows hg
  · simp at h1; subst h1
    exact (hx p hpar).grows hg

theorem absorbInline_grows (kinds : List RawKind) (pass : List Nat) (fuel : Nat) (lines : List PLine) (ln p : Nat) :
    Grows lines (absorbInline kinds pass fuel lines ln p).1 := by
  induction fuel generalizing lines p with
  | zero => exact Grows.refl _
  | succ n ih =>
    unfold absorbInline
    split
    · split
      · exact (grows_modifyLine _ _ _ (by intro l t ht; simp [ht])).trans (ih _ _)
      · exact Grows.refl _
    · exact Grows.refl _

theorem absorbInline_linv (kinds : List RawKind) (pass : List Nat) (fuel : Nat) (lines : List PLine) (ln p : Nat)
    (h : LInv lines) : LInv (absorbInline kinds pass fuel lines ln p).1 := by
  induction fuel generalizing lines p with
  | zero => exact h
  | succ n ih =>
    unfold absorbInline
    split
    · split
      · exact ih _ _ (h.modify _ _ (by intro l t ht; simp [ht]) (by intro l p hp; exact Or.inl hp))
      · exact h
    · exact h

theorem foldl_level_grows (lines : List PLine) (us : List Nat) (level : Nat) :
    Grows lines (us.foldl (fun ls u => modifyLine ls u (fun l => { l with level := level })) lines) := by
  induction us generalizing lines with
  | nil => exact Grows.refl _
  | cons u r ih =>
    rw [List.foldl_cons]
    exact (grows_modifyLine _ _ _ (by intro l t ht; exact ht)).trans (ih _)

theorem foldl_level_linv (lines : List PLine) (us : List Nat) (level : Nat) (h : LInv lines) :
    LInv (us.foldl (fun ls u => modifyLine ls u (fun l => { l with level := level })) lines) := by
  induction us generalizing lines with
  | nil => exact h
  | cons u r ih =>
    rw [List.foldl_cons]
    exact ih _ (h.modify _ _ (by intro l t ht; exact ht) (by intro l p hp; exact Or.inl hp))

/-- the parent reference an operation carries, if any -/
def opParent : POp → Option LineParent
  | .pushLine p => some p
  | .finish p _ => p
  | _ => none

/-- one primitive: lines only grow; if the parent reference the operation carries is meaningful, all stay so -/
theorem step_parents (kinds : List RawKind) (pass : List Nat) (s s' : MState) (op : POp)
    (hstep : s.step kinds pass op = some s') :
    Grows s.lines s'.lines ∧ (LInv s.lines → (∀ p, opParent op = some p → PV s.lines p) → LInv s'.lines) := by
  unfold MState.step at hstep
  split at hstep
  · simp at hstep
  · rename_i top curRest hcur
    cases op with
    | next =>
      simp only [Option.some.injEq] at hstep
      rw [← hstep]
      simp only
      have hg1 : Grows s.lines (match pass[s.passIdx]? with
          | some tok => modifyLine s.lines top (fun l => { l with tokens := l.tokens ++ [tok] })
          | none => s.lines) := by
        split
        · exact grows_modifyLine _ _ _ (by intro l t ht; simp [ht])
        · exact Grows.refl _
      refine ⟨hg1.trans (absorbInline_grows _ _ _ _ _ _), ?_⟩
      intro hl _
      apply absorbInline_linv
      split
      · exact hl.modify _ _ (by intro l t ht; simp [ht]) (by intro l p hp; exact Or.inl hp)
      · exact hl
    | skip =>
      simp only [Option.some.injEq] at hstep
      rw [← hstep]; exact ⟨Grows.refl _, fun h _ => h⟩
    | finishEmpty =>
      simp only at hstep
      split at hstep
      · rename_i l hl
        split at hstep
        · simp only [Option.some.injEq] at hstep
          rw [← hstep]
          simp only
          have e : s.lines.set top { l with ltype := .lUnknown } =
              modifyLine s.lines top (fun l => { l with ltype := .lUnknown }) := by
            unfold modifyLine; rw [hl]
          rw [e]
          exact ⟨grows_modifyLine _ _ _ (by intro l t ht; exact ht),
            fun h _ => h.modify _ _ (by intro l t ht; exact ht) (by intro l p hp; exact Or.inl hp)⟩
        · simp at hstep
      · simp at hstep
    | finish parent level =>
      simp only at hstep
      split at hstep
      · simp at hstep
      · rename_i l hl
        split at hstep
        · simp at hstep
        · simp only [Option.some.injEq] at hstep
          rw [← hstep]
          simp only
          have g1 := absorbInline_grows kinds pass (pass.length + 1) s.lines top s.passIdx
          have g2 : Grows s.lines (if (!s.curUnfinished) = true then
                List.foldl (fun ls u => modifyLine ls u fun l => { l with level := level })
                  (absorbInline kinds pass (pass.length + 1) s.lines top s.passIdx).1 s.unfinished
              else (absorbInline kinds pass (pass.length + 1) s.lines top s.passIdx).1) := by
            split
            · exact g1.trans (foldl_level_grows _ _ _)
            · exact g1
          have g3 := g2.trans (grows_modifyLine _ top (fun l => { l with parent := parent, level := level })
            (by intro l t ht; exact ht))
          refine ⟨g3.trans (grows_append _ _), ?_⟩
          intro hinv hpar
          apply LInv.append
          · apply LInv.modify
            · split
              · exact foldl_level_linv _ _ _ (absorbInline_linv _ _ _ _ _ _ hinv)
              · exact absorbInline_linv _ _ _ _ _ _ hinv
            · intro l t ht; exact ht
            · intro l p hp
              simp only at hp
              exact Or.inr ((hpar p hp).grows g2)
          · intro p hp; simp at hp
    | markUnfinished =>
      simp only [Option.some.injEq] at hstep
      rw [← hstep]; exact ⟨Grows.refl _, fun h _ => h⟩
    | pushLine parent =>
      simp only [Option.some.injEq] at hstep
      rw [← hstep]
      simp only
      refine ⟨grows_append _ _, fun h hp => h.append _ ?_⟩
      intro p hpp
      simp only [Option.some.injEq] at hpp
      exact hp p (by simp [opParent, hpp])
    | popLine =>
      simp only at hstep
      split at hstep
      · simp at hstep
      · simp only [Option.some.injEq] at hstep
        rw [← hstep]; exact ⟨Grows.refl _, fun h _ => h⟩
    | pushLast =>
      simp only [Option.some.injEq] at hstep
      rw [← hstep]; exact ⟨Grows.refl _, fun h _ => h⟩
    | popLast =>
      simp only at hstep
      split at hstep
      · simp at hstep
      · simp only [Option.some.injEq] at hstep
        rw [← hstep]; exact ⟨Grows.refl _, fun h _ => h⟩
    | setType t =>
      simp only [Option.some.injEq] at hstep
      rw [← hstep]
      simp only
      exact ⟨grows_modifyLine _ _ _ (by intro l t ht; exact ht),
        fun h _ => h.modify _ _ (by intro l t ht; exact ht) (by intro l p hp; exact Or.inl hp)⟩

/-- `next_token` puts the current token onto the current line -/
theorem step_next_current (kinds : List RawKind) (pass : List Nat) (s s' : MState) (top tok : Nat)
    (hcur : s.cur.head? = some top) (htop : top < s.lines.length) (htok : pass[s.passIdx]? = some tok)
    (hstep : s.step kinds pass .next = some s') : PV s'.lines { lineIndex := top, tokenIndex := tok } := by
  unfold MState.step at hstep
  split at hstep
  · simp at hstep
  · rename_i top' curRest hc
    rw [hc] at hcur
    simp at hcur; subst hcur
    simp only [Option.some.injEq] at hstep
    rw [← hstep]
    simp only [htok]
    refine PV.grows ?_ (absorbInline_grows _ _ _ _ _ _)
    unfold modifyLine
    rw [List.getElem?_eq_getElem htop]
    simp only
    exact ⟨_, List.getElem?_set_self (by simpa using htop), by simp⟩

theorem step_refs (kinds : List RawKind) (pass : List Nat) (s s' : MState) (op : POp) (hv : RefsValid s)
    (hstep : s.step kinds pass op = some s') : RefsValid s' :=
  (step_cover kinds pass s s' op (List.range s.passIdx) hv
    (by intro j tok hj _; exact Or.inr (List.mem_range.2 hj)) hstep).1

theorem run_refs (kinds : List RawKind) (pass : List Nat) (ops : List POp) (s s' : MState) (hv : RefsValid s)
    (hrun : s.run kinds pass ops = some s') : RefsValid s' := by
  induction ops generalizing s with
  | nil => simp [MState.run] at hrun; rw [← hrun]; exact hv
  | cons op r ih =>
    unfold MState.run at hrun
    split at hrun
    · simp at hrun
    · rename_i s1 hs1
      exact ih s1 (step_refs kinds pass s s1 op hv hs1) hrun


/-! ### lines typed `Eof` -/

/-- lines typed `Eof` occur only at the positions `S` -/
def EofOnlyAt (ls : List PLine) (S : Nat → Prop) : Prop :=
  ∀ (j : Nat) (l : PLine), ls[j]? = some l → l.ltype = .lEof → S j

theorem EofOnlyAt.modify {ls : List PLine} {S : Nat → Prop} (h : EofOnlyAt ls S) (i : Nat) (f : PLine → PLine)
    (hf : ∀ l : PLine, (f l).ltype = .lEof → l.ltype = .lEof ∨ S i) : EofOnlyAt (modifyLine ls i f) S := by
  intro j l' hj ht
  unfold modifyLine at hj
  split at hj
  · rename_i li hli
    by_cases hij : i = j
    · subst hij
      rw [List.getElem?_set_self (by
        rcases Nat.lt_or_ge i ls.length with h3 | h3
        · exact h3
        · rw [List.getElem?_eq_none h3] at hli; cases hli)] at hj
      cases hj
      rcases hf li ht with h1 | h1
      · exact h i li hli h1
      · exact h1
    · rw [List.getElem?_set_ne hij] at hj
      exact h j l' hj ht
  · exact h j l' hj ht

theorem EofOnlyAt.append {ls : List PLine} {S : Nat → Prop} (h : EofOnlyAt ls S) (x : PLine) (hx : x.ltype ≠ .lEof) :
    EofOnlyAt (ls ++ [x]) S := by
  intro j l' hj ht
  rcases Nat.lt_or_ge j ls.length with h1 | h1
  · rw [List.getElem?_append_left h1] at hj
    exact h j l' hj ht
  · rw [List.getElem?_append_right h1] at hj
    rcases Nat.eq_zero_or_pos (j - ls.length) with h0 | h0
    · rw [h0] at hj; simp at hj; subst hj; exact absurd ht hx
    · rw [List.getElem?_eq_none (by simp; omega)] at hj; cases hj

theorem absorbInline_eof (kinds : List RawKind) (pass : List Nat) (fuel : Nat) (lines : List PLine) (ln p : Nat)
    (S : Nat → Prop) (h : EofOnlyAt lines S) : EofOnlyAt (absorbInline kinds pass fuel lines ln p).1 S := by
  induction fuel generalizing lines p with
  | zero => exact h
  | succ n ih =>
    unfold absorbInline
    split
    · split
      · exact ih _ _ (h.modify _ _ (by intro l hl; exact Or.inl hl))
      · exact h
    · exact h

theorem foldl_level_eof (lines : List PLine) (us : List Nat) (level : Nat) (S : Nat → Prop) (h : EofOnlyAt lines S) :
    EofOnlyAt (us.foldl (fun ls u => modifyLine ls u (fun l => { l with level := level })) lines) S := by
  induction us generalizing lines with
  | nil => exact h
  | cons u r ih =>
    rw [List.foldl_cons]
    exact ih _ (h.modify _ _ (by intro l hl; exact Or.inl hl))

/-- one primitive other than `set_logical_line_type(Eof)` makes no line an `Eof` line -/
theorem step_eof (kinds : List RawKind) (pass : List Nat) (s s' : MState) (op : POp) (S : Nat → Prop)
    (hop : op ≠ .setType .lEof) (hstep : s.step kinds pass op = some s') (h : EofOnlyAt s.lines S) :
    EofOnlyAt s'.lines S := by
  unfold MState.step at hstep
  split at hstep
  · simp at hstep
  · rename_i top curRest hcur
    cases op with
    | next =>
      simp only [Option.some.injEq] at hstep
      rw [← hstep]
      simp only
      apply absorbInline_eof
      split
      · exact h.modify _ _ (by intro l hl; exact Or.inl hl)
      · exact h
    | skip =>
      simp only [Option.some.injEq] at hstep
      rw [← hstep]; exact h
    | finishEmpty =>
      simp only at hstep
      split at hstep
      · rename_i l hl
        split at hstep
        · simp only [Option.some.injEq] at hstep
          rw [← hstep]
          simp only
          have e : s.lines.set top { l with ltype := .lUnknown } =
              modifyLine s.lines top (fun l => { l with ltype := .lUnknown }) := by
            unfold modifyLine; rw [hl]
          rw [e]
          exact h.modify _ _ (by intro l hl; simp at hl)
        · simp at hstep
      · simp at hstep
    | finish parent level =>
      simp only at hstep
      split at hstep
      · simp at hstep
      · rename_i l hl
        split at hstep
        · simp at hstep
        · simp only [Option.some.injEq] at hstep
          rw [← hstep]
          simp only
          apply EofOnlyAt.append
          · apply EofOnlyAt.modify
            · split
              · exact foldl_level_eof _ _ _ _ (absorbInline_eof _ _ _ _ _ _ _ h)
              · exact absorbInline_eof _ _ _ _ _ _ _ h
            · intro l hl; exact Or.inl hl
          · simp
    | markUnfinished =>
      simp only [Option.some.injEq] at hstep
      rw [← hstep]; exact h
    | pushLine parent =>
      simp only [Option.some.injEq] at hstep
      rw [← hstep]
      simp only
      exact h.append _ (by simp)
    | popLine =>
      simp only at hstep
      split at hstep
      · simp at hstep
      · simp only [Option.some.injEq] at hstep
        rw [← hstep]; exact h
    | pushLast =>
      simp only [Option.some.injEq] at hstep
      rw [← hstep]; exact h
    | popLast =>
      simp only at hstep
      split at hstep
      · simp at hstep
      · simp only [Option.some.injEq] at hstep
        rw [← hstep]; exact h
    | setType t =>
      simp only [Option.some.injEq] at hstep
      rw [← hstep]
      simp only
      refine h.modify _ _ ?_
      intro l hl
      simp only at hl
      exact absurd (by rw [hl]) hop

/-- `set_logical_line_type(Eof)` makes at most the current line an `Eof` line -/
theorem step_setEof (kinds : List RawKind) (pass : List Nat) (s s' : MState) (S : Nat → Prop)
    (hstep : s.step kinds pass (.setType .lEof) = some s') (h : EofOnlyAt s.lines S) :
    EofOnlyAt s'.lines (fun j => S j ∨ some j = s.cur.head?) := by
  unfold MState.step at hstep
  split at hstep
  · simp at hstep
  · rename_i top curRest hcur
    simp only [Option.some.injEq] at hstep
    rw [← hstep]
    simp only
    have h' : EofOnlyAt s.lines (fun j => S j ∨ some j = s.cur.head?) := fun j l hj ht => Or.inl (h j l hj ht)
    refine h'.modify _ _ ?_
    intro l _
    exact Or.inr (Or.inr (by rw [hcur]; rfl))

/-! ### the state monad of the parser model: a Hoare-style invariant -/

/-- the parent reference is meaningful for the line builder's current lines -/
def PVs (s : PS) (p : LineParent) : Prop := PV s.m.lines p

/-- the parent reference of a context level (if it has one) is one of `V` -/
def lvlIn (V : List LineParent) : ParserContextLevel → Prop
  | .parent p _ => p ∈ V
  | .level _ => True

/-- what is required of lines typed `Eof`: nothing (`none`), or that they occur at the positions `S` only -/
abbrev EofSpec := Option (Nat → Prop)

/-- invariant of the parser state: the parent references of all lines and of all open contexts are meaningful;
    `E` switches on a second invariant about lines typed `Eof` -/
structure CInv (E : EofSpec) (s : PS) : Prop where
  lines : LInv s.m.lines
  ctx : ∀ c ∈ s.contexts, ∀ p d, c.1.level = .parent p d → PVs s p
  arr : s.passArr = s.pass.toArray
  /-- with `E = some S`: lines typed `Eof` occur at the positions `S` only (`S` is empty until the last lines of `parse`) -/
  noEof : ∀ S, E = some S → EofOnlyAt s.m.lines S

/-- the lines of the line builder only grow -/
def Ext (s s' : PS) : Prop := Grows s.m.lines s'.m.lines

/-- `x` keeps the invariant and only lets lines grow, provided the parent references in `V` are meaningful -/
def Good {α : Type} (E : EofSpec) (V : List LineParent) (x : PM α) : Prop :=
  ∀ s a s', CInv E s → (∀ p ∈ V, PVs s p) → x s = some (a, s') → CInv E s' ∧ Ext s s'

/-- `p` is what `get_line_parent_of_current_token` answers in state `s` -/
def Pending (s : PS) (p : LineParent) : Prop :=
  s.m.cur.head? = some p.lineIndex ∧ s.pass[s.m.passIdx]? = some p.tokenIndex

/-- as `Good`, for a computation that starts by consuming the current token, which makes `p` meaningful -/
def GoodP {α : Type} (E : EofSpec) (p : LineParent) (V : List LineParent) (x : PM α) : Prop :=
  ∀ s a s', CInv E s → (∀ q ∈ V, PVs s q) → Pending s p → x s = some (a, s') → CInv E s' ∧ Ext s s' ∧ PVs s' p

theorem bind_eq_some {α β : Type} {x : PM α} {f : α → PM β} {s : PS} {b : β} {s' : PS}
    (h : (x >>= f) s = some (b, s')) : ∃ a s1, x s = some (a, s1) ∧ f a s1 = some (b, s') := by
  simp only [bind, StateT.bind] at h
  cases hx : x s with
  | none => rw [hx] at h; simp at h
  | some r =>
    obtain ⟨a, s1⟩ := r
    rw [hx] at h
    exact ⟨a, s1, rfl, h⟩

theorem PVs.ext {s s' : PS} {p : LineParent} (h : PVs s p) (he : Ext s s') : PVs s' p := PV.grows h he

theorem Good.pure {α : Type} (E : EofSpec) (V : List LineParent) (a : α) : Good E V (pure a : PM α) := by
  intro s a' s' hi _ h
  simp only [Pure.pure, StateT.pure] at h
  cases h
  exact ⟨hi, Grows.refl _⟩

theorem Good.panic {α : Type} (E : EofSpec) (V : List LineParent) : Good E V (panic_ : PM α) := by
  intro s a' s' _ _ h
  simp [panic_] at h

theorem Good.bind {α β : Type} {E : EofSpec} {V : List LineParent} {x : PM α} {f : α → PM β}
    (hx : Good E V x) (hf : ∀ a, Good E V (f a)) : Good E V (x >>= f) := by
  intro s b s' hi hv h
  obtain ⟨a, s1, h1, h2⟩ := bind_eq_some h
  obtain ⟨i1, e1⟩ := hx s a s1 hi hv h1
  obtain ⟨i2, e2⟩ := hf a s1 b s' i1 (fun p hp => (hv p hp).ext e1) h2
  exact ⟨i2, e1.trans e2⟩

theorem Good.ite {α : Type} {E : EofSpec} {V : List LineParent} {c : Prop} [Decidable c] {x y : PM α}
    (hx : Good E V x) (hy : Good E V y) : Good E V (if c then x else y) := by
  split
  · exact hx
  · exact hy

/-- a computation that does not change the state -/
theorem Good.reader {α : Type} (E : EofSpec) (V : List LineParent) {x : PM α} (h : ∀ s a s', x s = some (a, s') → s' = s) :
    Good E V x := by
  intro s a s' hi _ hx
  rw [h s a s' hx]
  exact ⟨hi, Grows.refl _⟩

theorem Good.get (E : EofSpec) (V : List LineParent) : Good E V (get : PM PS) :=
  Good.reader E V (by intro s a s' h; have h' : (some (s, s) : Option (PS × PS)) = some (a, s') := h; cases h'; rfl)

theorem Good.modify (E : EofSpec) (V : List LineParent) (f : PS → PS) (h : ∀ s, CInv E s → (∀ p ∈ V, PVs s p) → CInv E (f s) ∧ Ext s (f s)) :
    Good E V (modify f : PM Unit) := by
  intro s a s' hi hv hx
  have hx' : (some ((), f s) : Option (Unit × PS)) = some (a, s') := hx
  cases hx'
  exact h s hi hv

theorem Good.liftOpt {α : Type} (E : EofSpec) (V : List LineParent) (o : Option α) : Good E V (liftOpt o) := by
  cases o with
  | none => exact Good.panic E V
  | some a => exact Good.pure E V a

theorem Good.mono {α : Type} {E : EofSpec} {V V' : List LineParent} {x : PM α} (h : Good E V x) (hs : ∀ p ∈ V, p ∈ V') : Good E V' x :=
  fun s a s' hi hv hx => h s a s' hi (fun p hp => hv p (hs p hp)) hx

/-! #### the primitives -/

theorem traced_refs {kinds0 : List RawKind} {pass : List Nat} (t : Traced kinds0 pass) : RefsValid t.m :=
  run_refs kinds0 pass _ MState.init t.m init_refs t.ok

/-- what one primitive does to the parser state -/
theorem prim_spec (op : POp) (s : PS) (a : Unit) (s' : PS) (h : prim op s = some (a, s')) :
    s.m.step s.kinds0 s.pass op = some s'.m ∧ s'.contexts = s.contexts ∧ s'.pass = s.pass ∧ s'.passArr = s.passArr := by
  unfold prim at h
  split at h
  · simp at h
  · rename_i mt' hmt
    simp only [Option.some.injEq, Prod.mk.injEq] at h
    obtain ⟨_, rfl⟩ := h
    unfold Traced.step at hmt
    split at hmt
    · simp at hmt
    · rename_i m' hm'
      split at hmt
      · simp only [Option.some.injEq] at hmt
        subst hmt
        exact ⟨hm', rfl, rfl, rfl⟩
      · simp at hmt

/-- a primitive whose parent reference (if it carries one) is meaningful in the current state -/
theorem prim_good_at (E : EofSpec) (op : POp) (s : PS) (a : Unit) (s' : PS) (hi : CInv E s)
    (hp : ∀ p, opParent op = some p → PVs s p) (hE : E.isSome = true → op ≠ .setType .lEof)
    (h : prim op s = some (a, s')) : CInv E s' ∧ Ext s s' := by
  obtain ⟨hstep, hc, hpass, harr⟩ := prim_spec op s a s' h
  obtain ⟨hg, hl⟩ := step_parents _ _ _ _ _ hstep
  refine ⟨⟨hl hi.lines hp, ?_, by rw [harr, hpass, hi.arr],
    fun S hS => step_eof _ _ _ _ _ _ (hE (by rw [hS]; rfl)) hstep (hi.noEof S hS)⟩, hg⟩
  intro c hcm p d hlv
  rw [hc] at hcm
  exact (hi.ctx c hcm p d hlv).ext hg

theorem good_prim (E : EofSpec) (V : List LineParent) (op : POp) (hp : ∀ p, opParent op = some p → p ∈ V)
    (hE : E.isSome = true → op ≠ .setType .lEof) : Good E V (prim op) :=
  fun s a s' hi hv h => prim_good_at E op s a s' hi (fun p hpp => hv p (hp p hpp)) hE h

theorem good_prim0 (E : EofSpec) (V : List LineParent) (op : POp) (hp : opParent op = none)
    (hE : E.isSome = true → op ≠ .setType .lEof) : Good E V (prim op) :=
  good_prim E V op (by intro p h; rw [hp] at h; cases h) hE

/-- the state with other bracket levels -/
def withLevels (s : PS) (a b c : Nat) : PS := { s with parenLevel := a, brackLevel := b, genericLevel := c }

theorem get_bind {α : Type} (f : PS → PM α) (s : PS) : (get >>= f) s = f s s := rfl

theorem liftOpt_eq_some {α : Type} {o : Option α} {s : PS} {a : α} {s' : PS} (h : PFull.liftOpt o s = some (a, s')) :
    o = some a ∧ s' = s := by
  cases o with
  | none => simp [PFull.liftOpt, panic_] at h
  | some x =>
    have h' : (some (x, s) : Option (α × PS)) = some (a, s') := h
    cases h'; exact ⟨rfl, rfl⟩

theorem nextToken_cases (s : PS) (P : Option (Unit × PS) → Prop)
    (hP : ∀ a b c, P (prim .next (withLevels s a b c))) : P (nextToken s) := by
  unfold nextToken
  rw [get_bind]
  have alts : ∀ r : Option (Unit × PS),
      (r = prim .next (withLevels s s.parenLevel s.brackLevel s.genericLevel) ∨
       r = prim .next (withLevels s (s.parenLevel + 1) s.brackLevel s.genericLevel) ∨
       r = prim .next (withLevels s (s.parenLevel - 1) s.brackLevel s.genericLevel) ∨
       r = prim .next (withLevels s s.parenLevel (s.brackLevel + 1) s.genericLevel) ∨
       r = prim .next (withLevels s s.parenLevel (s.brackLevel - 1) s.genericLevel) ∨
       r = prim .next (withLevels s s.parenLevel s.brackLevel (s.genericLevel + 1)) ∨
       r = prim .next (withLevels s s.parenLevel s.brackLevel (s.genericLevel - 1))) → P r := by
    intro r hr
    rcases hr with h | h | h | h | h | h | h <;> rw [h] <;> exact hP _ _ _
  apply alts
  rcases s.getCurrentTokenType with _ | k
  · exact Or.inl rfl
  · cases k with
    | rOp o =>
      cases o <;> first
        | exact Or.inl rfl
        | exact Or.inr (Or.inl rfl)
        | exact Or.inr (Or.inr (Or.inl rfl))
        | exact Or.inr (Or.inr (Or.inr (Or.inl rfl)))
        | exact Or.inr (Or.inr (Or.inr (Or.inr (Or.inl rfl))))
        | exact Or.inr (Or.inr (Or.inr (Or.inr (Or.inr (Or.inl rfl)))))
        | exact Or.inr (Or.inr (Or.inr (Or.inr (Or.inr (Or.inr rfl)))))
    | _ => exact Or.inl rfl

theorem nextToken_eq (s : PS) : ∃ a b c, nextToken s = prim .next (withLevels s a b c) :=
  nextToken_cases s (fun r => ∃ a b c, r = prim .next (withLevels s a b c)) (fun a b c => ⟨a, b, c, rfl⟩)

theorem CInv.withLevels {s : PS} (h : CInv E s) (a b c : Nat) : CInv E (withLevels s a b c) := ⟨h.lines, h.ctx, h.arr, h.noEof⟩

theorem good_nextToken (E : EofSpec) (V : List LineParent) : Good E V nextToken := by
  intro s u s' hi hv h
  obtain ⟨a, b, c, e⟩ := nextToken_eq s
  rw [e] at h
  exact good_prim0 E V .next rfl (fun _ => by decide) (withLevels s a b c) u s' (hi.withLevels a b c) hv h

/-- `next_token` makes the pending parent reference meaningful -/
theorem goodP_nextToken (E : EofSpec) (p : LineParent) (V : List LineParent) : GoodP E p V nextToken := by
  intro s u s' hi hv hp h
  obtain ⟨h1, h2⟩ := good_nextToken E V s u s' hi hv h
  refine ⟨h1, h2, ?_⟩
  obtain ⟨a, b, c, e⟩ := nextToken_eq s
  rw [e] at h
  obtain ⟨hstep, _⟩ := prim_spec .next _ u s' h
  have hrefs : RefsValid s.m := traced_refs s.mt
  obtain ⟨hcur, htok⟩ := hp
  have htop : p.lineIndex < s.m.lines.length := by
    apply hrefs.cur
    cases hc : s.m.cur with
    | nil => rw [hc] at hcur; simp at hcur
    | cons t r => rw [hc] at hcur; simp at hcur; simp [hcur]
  exact step_next_current _ _ _ _ p.lineIndex p.tokenIndex hcur htop htok hstep

theorem Good.getLP {α : Type} {E : EofSpec} {V : List LineParent} {rest : LineParent → PM α} (h : ∀ p, GoodP E p V (rest p)) :
    Good E V (getLineParentOfCurrentToken >>= rest) := by
  intro s b s' hi hv hx
  obtain ⟨p, s1, h1, h2⟩ := bind_eq_some hx
  have : s1 = s ∧ Pending s p := by
    unfold getLineParentOfCurrentToken at h1
    rw [get_bind] at h1
    obtain ⟨li, s2, e1, h1b⟩ := bind_eq_some h1
    obtain ⟨hli, rfl⟩ := liftOpt_eq_some e1
    obtain ⟨ti, s3, e2, h1c⟩ := bind_eq_some h1b
    obtain ⟨hti, rfl⟩ := liftOpt_eq_some e2
    have h1' : (some (({ lineIndex := li, tokenIndex := ti } : LineParent), s3) : Option (LineParent × PS)) = some (p, s1) := h1c
    cases h1'
    refine ⟨rfl, hli, ?_⟩
    unfold PS.getCurrentTokenIndex at hti
    rw [hi.arr] at hti
    simpa using hti
  obtain ⟨rfl, hp⟩ := this
  obtain ⟨a1, a2, _⟩ := h p s1 b s' hi hv hp h2
  exact ⟨a1, a2⟩

theorem GoodP.next {α : Type} {E : EofSpec} {p : LineParent} {V : List LineParent} {rest : Unit → PM α}
    (h : ∀ u, Good E (p :: V) (rest u)) : GoodP E p V (nextToken >>= rest) := by
  intro s b s' hi hv hp hx
  obtain ⟨u, s1, h1, h2⟩ := bind_eq_some hx
  obtain ⟨i1, e1, v1⟩ := goodP_nextToken E p V s u s1 hi hv hp h1
  obtain ⟨i2, e2⟩ := h u s1 b s' i1 (by
    intro q hq
    rcases List.mem_cons.1 hq with rfl | hq'
    · exact v1
    · exact (hv q hq').ext e1) h2
  exact ⟨i2, e1.trans e2, v1.ext e2⟩

theorem GoodP.bind {α β : Type} {E : EofSpec} {p : LineParent} {V : List LineParent} {x : PM α} {f : α → PM β}
    (hx : GoodP E p V x) (hf : ∀ a, Good E (p :: V) (f a)) : GoodP E p V (x >>= f) := by
  intro s b s' hi hv hp h
  obtain ⟨a, s1, h1, h2⟩ := bind_eq_some h
  obtain ⟨i1, e1, v1⟩ := hx s a s1 hi hv hp h1
  obtain ⟨i2, e2⟩ := hf a s1 b s' i1 (by
    intro q hq
    rcases List.mem_cons.1 hq with rfl | hq'
    · exact v1
    · exact (hv q hq').ext e1) h2
  exact ⟨i2, e1.trans e2, v1.ext e2⟩

theorem good_pushCtx (E : EofSpec) (V : List LineParent) (c : ParserContext) (hc : lvlIn V c.level) : Good E V (pushCtx c) := by
  apply Good.modify
  intro s hi hv
  refine ⟨⟨hi.lines, ?_, hi.arr, hi.noEof⟩, Grows.refl _⟩
  intro c' hc' p d hl
  rcases List.mem_cons.1 hc' with rfl | h1
  · simp only at hl
    rw [hl] at hc
    exact hv p hc
  · exact hi.ctx c' h1 p d hl

theorem good_popCtx (E : EofSpec) (V : List LineParent) : Good E V popCtx := by
  apply Good.modify
  intro s hi hv
  refine ⟨⟨hi.lines, ?_, hi.arr, hi.noEof⟩, Grows.refl _⟩
  intro c' hc' p d hl
  exact hi.ctx c' (List.mem_of_mem_tail hc') p d hl

theorem markEnded_mem (n : Nat) (l : List (ParserContext × Bool)) :
    ∀ c ∈ markEnded n l, ∃ c' ∈ l, c.1 = c'.1 := by
  induction n generalizing l with
  | zero => intro c hc; exact ⟨c, by simpa [markEnded] using hc, rfl⟩
  | succ k ih =>
    cases l with
    | nil => intro c hc; simp [markEnded] at hc
    | cons x r =>
      obtain ⟨c0, b0⟩ := x
      intro c hc
      simp only [markEnded, List.mem_cons] at hc
      rcases hc with rfl | h1
      · exact ⟨(c0, b0), by simp, rfl⟩
      · obtain ⟨c', a, b⟩ := ih r c h1
        exact ⟨c', by simp [a], b⟩

theorem good_updateStatuses (E : EofSpec) (V : List LineParent) (i : Nat) : Good E V (updateStatuses i) := by
  apply Good.modify
  intro s hi hv
  refine ⟨⟨hi.lines, ?_, hi.arr, hi.noEof⟩, Grows.refl _⟩
  intro c hc p d hl
  obtain ⟨c', a, b⟩ := markEnded_mem _ _ c hc
  exact hi.ctx c' a p d (by rw [← b]; exact hl)

theorem good_setKind (E : EofSpec) (V : List LineParent) (i : Nat) (k : RawKind) : Good E V (setKind i k) := by
  apply Good.modify
  intro s hi hv
  exact ⟨⟨hi.lines, hi.ctx, hi.arr, hi.noEof⟩, Grows.refl _⟩

theorem good_endingIdx (E : EofSpec) (V : List LineParent) : Good E V endingIdx :=
  Good.reader E V (by
    intro s a s' h
    unfold endingIdx at h
    split at h
    · simp at h
    · simp only [Option.some.injEq, Prod.mk.injEq] at h; exact h.2.symm)

theorem good_cur (E : EofSpec) (V : List LineParent) : Good E V cur :=
  Good.reader E V (by intro s a s' h; simp only [cur, Option.some.injEq, Prod.mk.injEq] at h; exact h.2.symm)
theorem good_prevTT (E : EofSpec) (V : List LineParent) : Good E V prevTT :=
  Good.reader E V (by intro s a s' h; simp only [prevTT, Option.some.injEq, Prod.mk.injEq] at h; exact h.2.symm)
theorem good_nextTT (E : EofSpec) (V : List LineParent) : Good E V nextTT :=
  Good.reader E V (by intro s a s' h; simp only [nextTT, Option.some.injEq, Prod.mk.injEq] at h; exact h.2.symm)
theorem good_curKw (E : EofSpec) (V : List LineParent) : Good E V curKw :=
  Good.reader E V (by intro s a s' h; simp only [curKw, Option.some.injEq, Prod.mk.injEq] at h; exact h.2.symm)
theorem good_lastCtxType (E : EofSpec) (V : List LineParent) : Good E V lastCtxType :=
  Good.reader E V (by intro s a s' h; simp only [lastCtxType, Option.some.injEq, Prod.mk.injEq] at h; exact h.2.symm)
theorem good_curLine (E : EofSpec) (V : List LineParent) : Good E V curLine :=
  Good.reader E V (by
    intro s a s' h
    unfold curLine at h
    split at h
    · simp only [Option.some.injEq, Prod.mk.injEq] at h; exact h.2.symm
    · simp at h)

/-! #### the structural tactic -/

/-- closes the side condition "the parent reference of this context level is known to be meaningful" -/
macro "lvl_side" : tactic =>
  `(tactic| first
    | assumption
    | (simp only [lvlIn, mkCtx]; done)
    | (simp only [lvlIn, mkCtx]; assumption)
    | (simp [lvlIn, mkCtx, *]; done)
    | (simp [lvlIn, mkCtx]; done)
    | (simp only [mkCtx]; assumption))

/-- goals about functions already dealt with; extended after every lemma -/
syntax "good_leaf" : tactic
macro_rules | `(tactic| good_leaf) => `(tactic| assumption)

macro "good_struct" : tactic =>
  `(tactic| with_reducible first
    | exact Good.pure _ _ _
    | exact Good.panic _ _
    | exact Good.get _ _
    | exact Good.liftOpt _ _ _
    | (refine Good.getLP ?_; intro _)
    | (refine GoodP.next ?_; intro _)
    | refine Good.bind ?_ ?_
    | refine Good.ite ?_ ?_
    | intro _)

/-- symbolic execution of a `do` block -/
macro "good" : tactic => `(tactic| repeat' (first | good_leaf | good_struct | dsimp only | split))

macro_rules | `(tactic| good_leaf) => `(tactic| with_reducible exact good_nextToken _ _)
macro_rules | `(tactic| good_leaf) => `(tactic| with_reducible (refine good_pushCtx _ _ _ ?_; lvl_side))
macro_rules | `(tactic| good_leaf) => `(tactic| with_reducible exact good_popCtx _ _)
macro_rules | `(tactic| good_leaf) => `(tactic| with_reducible exact good_updateStatuses _ _ _)
macro_rules | `(tactic| good_leaf) => `(tactic| with_reducible exact good_setKind _ _ _ _)
macro_rules | `(tactic| good_leaf) => `(tactic| with_reducible exact good_endingIdx _ _)
macro_rules | `(tactic| good_leaf) => `(tactic| with_reducible exact good_cur _ _)
macro_rules | `(tactic| good_leaf) => `(tactic| with_reducible exact good_prevTT _ _)
macro_rules | `(tactic| good_leaf) => `(tactic| with_reducible exact good_nextTT _ _)
macro_rules | `(tactic| good_leaf) => `(tactic| with_reducible exact good_curKw _ _)
macro_rules | `(tactic| good_leaf) => `(tactic| with_reducible exact good_lastCtxType _ _)
macro_rules | `(tactic| good_leaf) => `(tactic| with_reducible exact good_curLine _ _)
macro_rules | `(tactic| good_leaf) => `(tactic| with_reducible exact good_prim0 _ _ _ rfl (fun _ => by decide))

/-! #### `ParserBase` -/

theorem good_isAtStartOfLine (E : EofSpec) (V : List LineParent) : Good E V isAtStartOfLine := by
  unfold isAtStartOfLine; good
macro_rules | `(tactic| good_leaf) => `(tactic| with_reducible exact good_isAtStartOfLine _ _)

theorem good_curLineTokenTypes (E : EofSpec) (V : List LineParent) : Good E V curLineTokenTypes := by
  unfold curLineTokenTypes; good
macro_rules | `(tactic| good_leaf) => `(tactic| with_reducible exact good_curLineTokenTypes _ _)

theorem good_isDirectiveBeforeNextToken (E : EofSpec) (V : List LineParent) : Good E V isDirectiveBeforeNextToken := by
  unfold isDirectiveBeforeNextToken; good
macro_rules | `(tactic| good_leaf) => `(tactic| with_reducible exact good_isDirectiveBeforeNextToken _ _)

theorem good_isDirectiveAfterPrevToken (E : EofSpec) (V : List LineParent) : Good E V isDirectiveAfterPrevToken := by
  unfold isDirectiveAfterPrevToken; good
macro_rules | `(tactic| good_leaf) => `(tactic| with_reducible exact good_isDirectiveAfterPrevToken _ _)

theorem good_consolidateCurrentIdent (E : EofSpec) (V : List LineParent) : Good E V consolidateCurrentIdent := by
  unfold consolidateCurrentIdent; good
macro_rules | `(tactic| good_leaf) => `(tactic| with_reducible exact good_consolidateCurrentIdent _ _)

theorem good_consolidateCurrentKeyword (E : EofSpec) (V : List LineParent) : Good E V consolidateCurrentKeyword := by
  unfold consolidateCurrentKeyword; good
macro_rules | `(tactic| good_leaf) => `(tactic| with_reducible exact good_consolidateCurrentKeyword _ _)

theorem good_consolidatePrevKeyword (E : EofSpec) (V : List LineParent) : Good E V consolidatePrevKeyword := by
  unfold consolidatePrevKeyword; good
macro_rules | `(tactic| good_leaf) => `(tactic| with_reducible exact good_consolidatePrevKeyword _ _)

theorem good_setCurrentTokenType (E : EofSpec) (V : List LineParent) (k : RawKind) : Good E V (setCurrentTokenType k) := by
  unfold setCurrentTokenType; good
macro_rules | `(tactic| good_leaf) => `(tactic| with_reducible exact good_setCurrentTokenType _ _ _)

theorem good_setCurrentDeclKind (E : EofSpec) (V : List LineParent) (k : DeclKind) : Good E V (setCurrentDeclKind k) := by
  unfold setCurrentDeclKind; good
macro_rules | `(tactic| good_leaf) => `(tactic| with_reducible exact good_setCurrentDeclKind _ _ _)

theorem good_consolidateCurrentCaretToType (E : EofSpec) (V : List LineParent) : Good E V consolidateCurrentCaretToType := by
  unfold consolidateCurrentCaretToType; good
macro_rules | `(tactic| good_leaf) => `(tactic| with_reducible exact good_consolidateCurrentCaretToType _ _)

theorem good_consolidateClassOpIn (E : EofSpec) (V : List LineParent) : Good E V consolidateClassOpIn := by
  unfold consolidateClassOpIn; good
macro_rules | `(tactic| good_leaf) => `(tactic| with_reducible exact good_consolidateClassOpIn _ _)

/-! #### `ParserLeaf` -/

theorem good_skipToken (E : EofSpec) (V : List LineParent) : Good E V skipToken := by
  unfold skipToken; good
macro_rules | `(tactic| good_leaf) => `(tactic| with_reducible exact good_skipToken _ _)

theorem good_setLogicalLineType (E : EofSpec) (V : List LineParent) (t : LogicalLineType)
    (ht : E.isSome = true → t ≠ .lEof) : Good E V (setLogicalLineType t) := by
  unfold setLogicalLineType
  exact good_prim0 E V _ rfl (fun he h => ht he (by cases h; rfl))

/-- closes the side condition "this line type is not `Eof`" -/
macro "eof_side" : tactic =>
  `(tactic| first
    | assumption
    | (intro _; decide)
    | (intro _; split <;> decide))

macro_rules | `(tactic| good_leaf) => `(tactic| with_reducible (refine good_setLogicalLineType _ _ _ ?_; eof_side))

theorem good_consolidatePortabilityDirectivesGo (E : EofSpec) (V : List LineParent) (lineTokens : Array Nat) :
    ∀ (fuel lineIndex : Nat), Good E V (consolidatePortabilityDirectivesGo lineTokens fuel lineIndex)
  | 0, _ => by rw [consolidatePortabilityDirectivesGo]; exact Good.panic _ _
  | fuel + 1, lineIndex => by
    rw [consolidatePortabilityDirectivesGo]
    have ih := good_consolidatePortabilityDirectivesGo E V lineTokens fuel (lineIndex - 1)
    good
macro_rules | `(tactic| good_leaf) => `(tactic| with_reducible exact good_consolidatePortabilityDirectivesGo _ _ _ _ _)

theorem good_consolidatePortabilityDirectives (E : EofSpec) (V : List LineParent) : Good E V consolidatePortabilityDirectives := by
  unfold consolidatePortabilityDirectives; good
macro_rules | `(tactic| good_leaf) => `(tactic| with_reducible exact good_consolidatePortabilityDirectives _ _)

theorem getContextLevelGo_parent (cs : List (ParserContext × Bool)) (sum : Int) (p : LineParent)
    (h : (PS.getContextLevelGo cs sum).1 = some p) : ∃ c ∈ cs, ∃ d, c.1.level = .parent p d := by
  induction cs generalizing sum with
  | nil => simp [PS.getContextLevelGo] at h
  | cons x r ih =>
    obtain ⟨c, b⟩ := x
    unfold PS.getContextLevelGo at h
    split at h
    · rename_i q d hq
      simp only [Option.some.injEq] at h
      subst h
      exact ⟨(c, b), by simp, d, hq⟩
    · obtain ⟨c', a1, a2⟩ := ih _ h
      exact ⟨c', by simp [a1], a2⟩

/-- the tail of `finish_logical_line`: the parent reference comes from an open context -/
theorem good_finishTail (E : EofSpec) (V : List LineParent) :
    Good E V (get >>= fun s => match s.getContextLevel with | (parent, contextLevel) => prim (.finish parent contextLevel)) := by
  intro s a s' hi hv h
  rw [get_bind] at h
  have hpar : ∀ p, (s.getContextLevel).1 = some p → PVs s p := by
    intro p hp
    unfold PS.getContextLevel at hp
    obtain ⟨c, hc, d, hd⟩ := getContextLevelGo_parent s.contexts 0 p (by
      revert hp
      generalize PS.getContextLevelGo s.contexts 0 = r
      obtain ⟨r1, r2⟩ := r
      intro hp; exact hp)
    exact hi.ctx c hc p d hd
  revert h hpar
  generalize s.getContextLevel = r
  obtain ⟨parent, lvl⟩ := r
  intro h hpar
  exact prim_good_at E _ s a s' hi (by intro p hp; exact hpar p hp) (fun _ => by intro h; cases h) h

theorem good_finishLogicalLine (E : EofSpec) (V : List LineParent) : Good E V finishLogicalLine := by
  unfold finishLogicalLine
  have := good_finishTail E V
  good
macro_rules | `(tactic| good_leaf) => `(tactic| with_reducible exact good_finishLogicalLine _ _)

theorem good_makeUnfinishedLine (E : EofSpec) (V : List LineParent) : Good E V makeUnfinishedLine := by
  unfold makeUnfinishedLine; good
macro_rules | `(tactic| good_leaf) => `(tactic| with_reducible exact good_makeUnfinishedLine _ _)

theorem good_skipPairGo (E : EofSpec) (V : List LineParent) (a b c : Nat) : ∀ fuel, Good E V (skipPairGo a b c fuel)
  | 0 => by rw [skipPairGo]; exact Good.panic _ _
  | fuel + 1 => by
    rw [skipPairGo]
    have ih := good_skipPairGo E V a b c fuel
    good
macro_rules | `(tactic| good_leaf) => `(tactic| with_reducible exact good_skipPairGo _ _ _ _ _ _)

theorem good_skipPair (E : EofSpec) (V : List LineParent) (fuel : Nat) : Good E V (skipPair fuel) := by
  unfold skipPair; good
macro_rules | `(tactic| good_leaf) => `(tactic| with_reducible exact good_skipPair _ _ _)

theorem good_takeUntil (E : EofSpec) (V : List LineParent) (pred : PS → Bool) : ∀ fuel, Good E V (takeUntil pred fuel)
  | 0 => by rw [takeUntil]; exact Good.panic _ _
  | fuel + 1 => by
    rw [takeUntil]
    have ih := good_takeUntil E V pred fuel
    good
macro_rules | `(tactic| good_leaf) => `(tactic| with_reducible exact good_takeUntil _ _ _ _)

theorem good_parseExpressionGo (E : EofSpec) (V : List LineParent) : ∀ fuel, Good E V (parseExpressionGo fuel)
  | 0 => by rw [parseExpressionGo]; exact Good.panic _ _
  | fuel + 1 => by
    rw [parseExpressionGo]
    have ih := good_parseExpressionGo E V fuel
    good
macro_rules | `(tactic| good_leaf) => `(tactic| with_reducible exact good_parseExpressionGo _ _ _)

theorem good_parseExpression (E : EofSpec) (V : List LineParent) (fuel : Nat) : Good E V (parseExpression fuel) := by
  unfold parseExpression; good
macro_rules | `(tactic| good_leaf) => `(tactic| with_reducible exact good_parseExpression _ _ _)

theorem good_fixNextEqGo (E : EofSpec) (V : List LineParent) : ∀ fuel index, Good E V (fixNextEqGo fuel index)
  | 0, _ => by rw [fixNextEqGo]; exact Good.panic _ _
  | fuel + 1, index => by
    rw [fixNextEqGo]
    have ih := good_fixNextEqGo E V fuel (index + 1)
    good
macro_rules | `(tactic| good_leaf) => `(tactic| with_reducible exact good_fixNextEqGo _ _ _ _)

theorem good_fixNextEq (E : EofSpec) (V : List LineParent) (fuel : Nat) : Good E V (fixNextEq fuel) := by
  unfold fixNextEq; good
macro_rules | `(tactic| good_leaf) => `(tactic| with_reducible exact good_fixNextEq _ _ _)

theorem good_parseParameterListGo (E : EofSpec) (V : List LineParent) (a b : Nat) : ∀ fuel, Good E V (parseParameterListGo a b fuel)
  | 0 => by rw [parseParameterListGo]; exact Good.panic _ _
  | fuel + 1 => by
    rw [parseParameterListGo]
    have ih := good_parseParameterListGo E V a b fuel
    good
macro_rules | `(tactic| good_leaf) => `(tactic| with_reducible exact good_parseParameterListGo _ _ _ _ _)

theorem good_parseParameterList (E : EofSpec) (V : List LineParent) (fuel : Nat) : Good E V (parseParameterList fuel) := by
  unfold parseParameterList; good
macro_rules | `(tactic| good_leaf) => `(tactic| with_reducible exact good_parseParameterList _ _ _)

theorem good_parseExports (E : EofSpec) (V : List LineParent) (fuel : Nat) : Good E V (parseExports fuel) := by
  unfold parseExports; good
macro_rules | `(tactic| good_leaf) => `(tactic| with_reducible exact good_parseExports _ _ _)

theorem good_routineHeaderOp (E : EofSpec) (V : List LineParent) (fuel : Nat) : Good E V (routineHeaderOp fuel) := by
  unfold routineHeaderOp; good
macro_rules | `(tactic| good_leaf) => `(tactic| with_reducible exact good_routineHeaderOp _ _ _)

theorem good_propertyDeclarationOp (E : EofSpec) (V : List LineParent) (fuel : Nat) : Good E V (propertyDeclarationOp fuel) := by
  unfold propertyDeclarationOp; good
macro_rules | `(tactic| good_leaf) => `(tactic| with_reducible exact good_propertyDeclarationOp _ _ _)

theorem good_runUntilOp (E : EofSpec) (V : List LineParent) (fuel : Nat) (op : UntilOp) : Good E V (runUntilOp fuel op) := by
  cases op <;> (unfold runUntilOp; good)
macro_rules | `(tactic| good_leaf) => `(tactic| with_reducible exact good_runUntilOp _ _ _ _)

theorem good_opUntil (E : EofSpec) (V : List LineParent) (pred : PS → Bool) (op : UntilOp) : ∀ fuel, Good E V (opUntil pred op fuel)
  | 0 => by rw [opUntil]; exact Good.panic _ _
  | fuel + 1 => by
    rw [opUntil]
    have ih := good_opUntil E V pred op fuel
    good
macro_rules | `(tactic| good_leaf) => `(tactic| with_reducible exact good_opUntil _ _ _ _ _)

theorem good_parseRoutineHeader (E : EofSpec) (V : List LineParent) (fuel : Nat) : Good E V (parseRoutineHeader fuel) := by
  unfold parseRoutineHeader; good
macro_rules | `(tactic| good_leaf) => `(tactic| with_reducible exact good_parseRoutineHeader _ _ _)

theorem good_parsePropertyDeclaration (E : EofSpec) (V : List LineParent) (fuel : Nat) : Good E V (parsePropertyDeclaration fuel) := by
  unfold parsePropertyDeclaration; good
macro_rules | `(tactic| good_leaf) => `(tactic| with_reducible exact good_parsePropertyDeclaration _ _ _)

theorem good_addAsmInstructionLine (E : EofSpec) (V : List LineParent) : Good E V addAsmInstructionLine := by
  unfold addAsmInstructionLine; good
macro_rules | `(tactic| good_leaf) => `(tactic| with_reducible exact good_addAsmInstructionLine _ _)

theorem good_parseAsmInstructionsGo (E : EofSpec) (V : List LineParent) : ∀ fuel, Good E V (parseAsmInstructionsGo fuel)
  | 0 => by rw [parseAsmInstructionsGo]; exact Good.panic _ _
  | fuel + 1 => by
    rw [parseAsmInstructionsGo]
    have ih := good_parseAsmInstructionsGo E V fuel
    good
macro_rules | `(tactic| good_leaf) => `(tactic| with_reducible exact good_parseAsmInstructionsGo _ _ _)

theorem good_parseAsmInstructions (E : EofSpec) (V : List LineParent) (fuel : Nat) : Good E V (parseAsmInstructions fuel) := by
  unfold parseAsmInstructions; good
macro_rules | `(tactic| good_leaf) => `(tactic| with_reducible exact good_parseAsmInstructions _ _ _)

theorem good_takeSeparatorsOnLastLine (E : EofSpec) (V : List LineParent) (fuel : Nat) (level : ParserContextLevel)
    (hl : lvlIn V level) : Good E V (takeSeparatorsOnLastLine fuel level) := by
  unfold takeSeparatorsOnLastLine; good
macro_rules
  | `(tactic| good_leaf) => `(tactic| with_reducible (refine good_takeSeparatorsOnLastLine _ _ _ _ ?_; lvl_side))

theorem good_andM (E : EofSpec) (V : List LineParent) (b : Bool) (m : PM Bool) (h : Good E V m) : Good E V (PFull.andM b m) := by
  unfold PFull.andM; good
macro_rules | `(tactic| good_leaf) => `(tactic| with_reducible (refine good_andM _ _ _ _ ?_))

end Pasfmt.Parents
