/-
  Line breaks inside a re-indented multi-line string: the rewritten literal is its first line followed
  by segments, each introduced by the configured line ending and free of `\n` / `\r` itself.
-/
import PasfmtModel.Model.Mls
import PasfmtModel.Proofs.RulesSim
import PasfmtModel.Proofs.MlsMore

namespace Pasfmt

-- `NoNl` (no `\n`, no `\r`) is the definition of `Proofs/LinesCustom.lean` (the same text was declared here a second
-- time); this file now sits above `Proofs/MlsMore.lean`, so that both can be imported together
-- (`Proofs/CrlfPremise.lean`).  `trimNlCr_piece_lf` below was `trimNlCr_piece`, a name `Proofs/LinesCustom.lean` uses
-- for another statement.

theorem NoNl.nil : NoNl [] := by intro b hb; simp at hb

theorem NoNl.append {a b : Bytes} (ha : NoNl a) (hb : NoNl b) : NoNl (a ++ b) := by
  intro x hx
  rcases List.mem_append.1 hx with h | h
  · exact ha x h
  · exact hb x h

theorem NoNl.drop {a : Bytes} (ha : NoNl a) (n : Nat) : NoNl (a.drop n) :=
  fun x hx => ha x (List.mem_of_mem_drop hx)

theorem NoNl.replicateBytes {s : Bytes} (h : NoNl s) (n : Nat) : NoNl (replicateBytes n s) := by
  intro b hb
  unfold Pasfmt.replicateBytes at hb
  rw [List.mem_flatten] at hb
  obtain ⟨l, hl, hbl⟩ := hb
  rw [List.mem_replicate] at hl
  rw [hl.2] at hbl
  exact h b hbl

/-- shape of a piece of `lines_custom`: an optional leading `\n` (second half of a CRLF whose `\r`
    ended the previous piece), a body without line-break bytes, an optional terminator -/
def PieceShape (p : Bytes) : Prop :=
  ∃ pre body suf, p = pre ++ body ++ suf ∧ (pre = [] ∨ pre = [0x0A]) ∧ NoNl body ∧
    (suf = [] ∨ ∃ t, suf = [t] ∧ isNlCr t = true)

theorem splitCustomGo_shapes (skip : Bool) (cur s : Bytes)
    (hcur : ∃ pre body, cur.reverse = pre ++ body ∧ (pre = [] ∨ pre = [0x0A]) ∧ NoNl body)
    (hskip : skip = true → cur = []) :
    ∀ p ∈ splitCustomGo skip cur s, PieceShape p := by
  induction s generalizing skip cur with
  | nil =>
    unfold splitCustomGo
    split
    · intro p hp; simp at hp
    · intro p hp
      simp at hp; subst hp
      obtain ⟨pre, body, h1, h2, h3⟩ := hcur
      exact ⟨pre, body, [], by simp [h1], h2, h3, Or.inl rfl⟩
  | cons c r ih =>
    unfold splitCustomGo
    obtain ⟨pre, body, h1, h2, h3⟩ := hcur
    split
    · rename_i hc
      simp only [Bool.and_eq_true, beq_iff_eq] at hc
      have hcur0 := hskip hc.1
      subst hcur0
      apply ih
      · exact ⟨[0x0A], [], by simp [hc.2], Or.inr rfl, NoNl.nil⟩
      · intro h; simp at h
    · split
      · rename_i hnl
        intro p hp
        rcases List.mem_cons.1 hp with rfl | hp'
        · exact ⟨pre, body, [c], by simp [h1], h2, h3, Or.inr ⟨c, rfl, hnl⟩⟩
        · exact ih _ _ ⟨[], [], by simp, Or.inl rfl, NoNl.nil⟩ (fun _ => rfl) p hp'
      · rename_i hnl
        apply ih
        · refine ⟨pre, body ++ [c], by simp [h1], h2, ?_⟩
          exact NoNl.append h3 (by intro b hb; simp at hb; subst hb; simpa using hnl)
        · intro h; simp at h

theorem dropWhile_of_all {p : UInt8 → Bool} {l : Bytes} (h : ∀ b ∈ l, p b = true) (r : Bytes) :
    (l ++ r).dropWhile p = r.dropWhile p := List.dropWhile_append_of_pos h

theorem dropWhile_noNl {body : Bytes} (h : NoNl body) (r : Bytes) (hb : body ≠ []) :
    (body ++ r).dropWhile isNlCr = body ++ r := by
  cases body with
  | nil => exact absurd rfl hb
  | cons a t =>
    have := h a (by simp)
    simp [this]

/-- trimming a piece leaves its body -/
theorem trimNlCr_piece_lf (pre body suf : Bytes) (hpre : pre = [] ∨ pre = [0x0A]) (hbody : NoNl body)
    (hsuf : suf = [] ∨ ∃ t, suf = [t] ∧ isNlCr t = true) : trimNlCr (pre ++ body ++ suf) = body := by
  have hpre_all : ∀ b ∈ pre, isNlCr b = true := by
    rcases hpre with rfl | rfl
    · intro b hb; simp at hb
    · intro b hb; simp at hb; subst hb; decide
  have hsuf_all : ∀ b ∈ suf, isNlCr b = true := by
    rcases hsuf with rfl | ⟨t, rfl, ht⟩
    · intro b hb; simp at hb
    · intro b hb; simp at hb; subst hb; exact ht
  unfold trimNlCr
  rw [List.append_assoc, dropWhile_of_all hpre_all]
  by_cases hb : body = []
  · subst hb
    simp only [List.nil_append]
    have : suf.dropWhile isNlCr = [] := by
      have := dropWhile_of_all hsuf_all []
      simpa using this
    rw [this]; rfl
  · rw [dropWhile_noNl hbody _ hb, List.reverse_append]
    have hsr : ∀ b ∈ suf.reverse, isNlCr b = true := fun b hb => hsuf_all b (List.mem_reverse.1 hb)
    rw [dropWhile_of_all hsr]
    have hbr : NoNl body.reverse := fun b hb => hbody b (List.mem_reverse.1 hb)
    have : body.reverse ≠ [] := by simpa using hb
    have := dropWhile_noNl hbr [] this
    simp only [List.append_nil] at this
    rw [this, List.reverse_reverse]

/-- no interior line of `lines_custom` contains a line-break byte -/
theorem linesCustom_noNl (c : Bytes) : ∀ l ∈ linesCustom c, NoNl l := by
  intro l hl
  unfold linesCustom at hl
  rw [List.mem_map] at hl
  obtain ⟨p, hp, rfl⟩ := hl
  obtain ⟨pre, body, suf, rfl, h1, h2, h3⟩ :=
    splitCustomGo_shapes false [] c ⟨[], [], by simp, Or.inl rfl, NoNl.nil⟩ (by intro h; simp at h) p hp
  rw [trimNlCr_piece_lf pre body suf h1 h2 h3]
  exact h2

/-- the rewriting loop emits, per line, the configured terminator followed by a segment without
    line-break bytes -/
theorem rewriteLines_breaks (S : Settings) (hind : NoNl S.indStr) (hcont : NoNl S.contStr) (ind cont : Nat)
    (base : Bytes) (lines : List Bytes) (R : Bytes) (hl : ∀ l ∈ lines, NoNl l)
    (h : rewriteLines S ind cont base lines = some R) :
    ∃ segs : List Bytes, R = (segs.map (S.nlStr ++ ·)).flatten ∧ segs.length = lines.length ∧ ∀ s ∈ segs, NoNl s := by
  induction lines generalizing R with
  | nil =>
    simp only [rewriteLines, Option.some.injEq] at h
    exact ⟨[], by simp [← h], rfl, by intro s hs; simp at hs⟩
  | cons line rest ih =>
    have hline := hl line (by simp)
    have hrest : ∀ l ∈ rest, NoNl l := fun l hm => hl l (by simp [hm])
    unfold rewriteLines at h
    split at h
    · simp only [] at h
      split at h
      · simp at h
      · rename_i tail htail
        simp only [Option.some.injEq] at h
        obtain ⟨segs, hR, hlen, hsegs⟩ := ih tail hrest htail
        refine ⟨(if (line.drop base.length).isEmpty then [] else
            replicateBytes ind S.indStr ++ replicateBytes cont S.contStr ++ line.drop base.length) :: segs, ?_, by simp [hlen], ?_⟩
        · rw [← h, hR]; simp
        · intro s hs
          rcases List.mem_cons.1 hs with rfl | hm
          · split
            · exact NoNl.nil
            · exact NoNl.append (NoNl.append (hind.replicateBytes _) (hcont.replicateBytes _)) (hline.drop _)
          · exact hsegs s hm
    · split at h
      · simp only [Option.map_eq_some_iff] at h
        obtain ⟨tail, htail, rfl⟩ := h
        obtain ⟨segs, hR, hlen, hsegs⟩ := ih tail hrest htail
        refine ⟨[] :: segs, by rw [hR]; simp, by simp [hlen], ?_⟩
        intro s hs
        rcases List.mem_cons.1 hs with rfl | hm
        · exact NoNl.nil
        · exact hsegs s hm
      · simp at h

/-- **Every line break inside a re-indented multi-line string is the configured line ending.** -/
theorem mlsRewrite_breaks (S : Settings) (hind : NoNl S.indStr) (hcont : NoNl S.contStr)
    (content : Bytes) (ind cont : Nat) (c' : Bytes) (h : mlsRewrite S content ind cont = some c') :
    ∃ (first : Bytes) (segs : List Bytes),
      c' = first ++ (segs.map (S.nlStr ++ ·)).flatten ∧ NoNl first ∧ ∀ s ∈ segs, NoNl s := by
  unfold mlsRewrite at h
  simp only [] at h
  split at h
  · simp at h
  · split at h
    · rename_i out hout
      split at h
      · simp only [Option.some.injEq] at h; subst h
        unfold tryRewriteString at hout
        have hno := linesCustom_noNl content
        cases hlc : linesCustom content with
        | nil =>
          rw [hlc] at hout
          simp only [Option.some.injEq] at hout
          exact ⟨[], [], by simp [← hout], NoNl.nil, by intro s hs; simp at hs⟩
        | cons first rest =>
          rw [hlc] at hout hno
          simp only [Option.map_eq_some_iff] at hout
          obtain ⟨R, hR, rfl⟩ := hout
          obtain ⟨segs, hseg, _, hsn⟩ := rewriteLines_breaks S hind hcont ind cont _ rest R
            (fun l hl => hno l (by simp [hl])) hR
          exact ⟨first, segs, by rw [hseg], hno first (by simp), hsn⟩
      · simp at h
    · simp at h

theorem settings_noNl (c : Config) : NoNl c.settings.indStr ∧ NoNl c.settings.contStr := by
  unfold Config.settings
  simp only
  split
  · exact ⟨by intro b hb; simp at hb; rw [hb]; decide,
      by intro b hb; rw [List.mem_replicate] at hb; rw [hb.2]; decide⟩
  · exact ⟨by intro b hb; rw [List.mem_replicate] at hb; rw [hb.2]; decide,
      by intro b hb; rw [List.mem_replicate] at hb; rw [hb.2]; decide⟩

end Pasfmt
