/-
  Length bounds for every sub-lexer of `Model/Lexer.lean`: each consumes at least one byte and
  never more than what is left, and the directive scanner never runs out of fuel.
  These are the facts behind `lex_total` (Props/C04, Props/C13).
-/
import PasfmtModel.Proofs.ScanLemmas
import PasfmtModel.Proofs.Simd

namespace Pasfmt

theorem identLen_le (l : Bytes) : identLen l ≤ l.length := by
  induction l using identLen.induct with
  | case1 => simp [identLen]
  | case2 r => simp [identLen]
  | case3 b r hne h ih =>
    rw [identLen]
    · simp only [h, if_true, List.length_cons]; omega
    · exact hne
  | case4 b r hne h =>
    rw [identLen]
    · simp [h]
    · exact hne

theorem countFullDecimal_le (l : Bytes) : countFullDecimal l ≤ l.length := by
  unfold countFullDecimal
  split
  · omega
  · exact countWhile_le _ _

theorem decNumberRest_le (r : Bytes) : decNumberRest r ≤ r.length := by
  unfold decNumberRest
  simp only
  have h1 := countWhile_le isDecimalByte r
  generalize hn1 : countDecimal r = n1
  have h1' : n1 ≤ r.length := by rw [← hn1]; exact h1
  generalize hr1 : r.drop n1 = r1
  have hl1 : r1.length = r.length - n1 := by rw [← hr1]; simp
  -- fractional part
  have h2 : (match r1 with
      | 0x2E :: r2 => if countFullDecimal r2 > 0 then 1 + countFullDecimal r2 else 0
      | _ => 0) ≤ r1.length := by
    split
    · rename_i r2
      have := countFullDecimal_le r2
      split <;> simp <;> omega
    · omega
  generalize hn2 : (match r1 with
      | 0x2E :: r2 => if countFullDecimal r2 > 0 then 1 + countFullDecimal r2 else 0
      | _ => 0) = n2 at h2
  generalize hr3 : r1.drop n2 = r3
  have hl3 : r3.length = r1.length - n2 := by rw [← hr3]; simp
  have h3 : (match r3 with
      | b :: r4 =>
        if b == 0x65 || b == 0x45 then
          match r4 with
          | s :: r5 => if s == 0x2B || s == 0x2D then 2 + countFullDecimal r5 else 1 + countFullDecimal r4
          | [] => 1
        else 0
      | [] => 0) ≤ r3.length := by
    split
    · rename_i b r4
      split
      · split
        · rename_i s r5
          have h5 := countFullDecimal_le r5
          have h4 := countFullDecimal_le (s :: r5)
          split <;> simp at * <;> omega
        · simp
      · omega
    · omega
  omega

theorem asmNumberRest_le (first : UInt8) (r : Bytes) : (asmNumberRest first r).1 ≤ r.length := by
  unfold asmNumberRest
  simp only
  have h1 := countWhile_le isHexByte r
  generalize hn : countHex r = n
  have hn' : n ≤ r.length := by rw [← hn]; exact h1
  split
  · rename_i b t heq
    have : (r.drop n).length = r.length - n := by simp
    rw [heq] at this
    simp at this
    repeat' split
    all_goals simp <;> omega
  · repeat' split
    all_goals simp <;> omega

theorem asmTextLiteralRest_le (r : Bytes) : (asmTextLiteralRest r).1 ≤ r.length := by
  induction r using asmTextLiteralRest.induct with
  | case1 => simp [asmTextLiteralRest]
  | case2 => simp [asmTextLiteralRest]
  | case3 x r ih => rw [asmTextLiteralRest]; simp only [List.length_cons]; omega
  | case4 t => simp [asmTextLiteralRest]
  | case5 b r h1 h2 h3 hnl =>
    rw [asmTextLiteralRest]
    · simp [hnl]
    all_goals (first | exact h1 | exact h2 | exact h3 | skip)
  | case6 b r h1 h2 h3 hnl ih =>
    rw [asmTextLiteralRest]
    · simp only [hnl, List.length_cons]; simp; omega
    all_goals (first | exact h1 | exact h2 | exact h3 | skip)

end Pasfmt
