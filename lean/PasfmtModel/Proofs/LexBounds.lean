/-
  Length bounds for every sub-lexer of `Model/Lexer.lean`: each consumes at least one byte and
  never more than what is left, and the directive scanner never runs out of fuel.
  These are the facts behind `lex_total` (Props/C04, Props/C13).
-/
import PasfmtModel.Proofs.ScanLemmas
import PasfmtModel.Proofs.Simd

namespace Pasfmt

theorem identLen_le (l : Bytes) : identLen l ≤ l.length := by
  induction l using identLen.induct with
  | case1 => simp [identLen]
  | case2 r => simp [identLen]
  | case3 b r hne h ih =>
    rw [identLen]
    · simp only [h, if_true, List.length_cons]; omega
    · exact hne
  | case4 b r hne h =>
    rw [identLen]
    · simp [h]
    · exact hne

theorem countFullDecimal_le (l : Bytes) : countFullDecimal l ≤ l.length := by
  unfold countFullDecimal
  split
  · omega
  · exact countWhile_le _ _

theorem fracLen_le (r1 : Bytes) :
    (match r1 with
      | 0x2E :: r2 => let f := countFullDecimal r2; if f > 0 then 1 + f else 0
      | _ => 0) ≤ r1.length := by
  split
  · rename_i r2
    have := countFullDecimal_le r2
    simp only [List.length_cons]
    split <;> omega
  · omega

theorem expLen_le (r3 : Bytes) :
    (match r3 with
      | b :: r4 =>
        if b == 0x65 || b == 0x45 then
          match r4 with
          | s :: r5 => if s == 0x2B || s == 0x2D then 2 + countFullDecimal r5 else 1 + countFullDecimal r4
          | [] => 1
        else 0
      | [] => 0) ≤ r3.length := by
  split
  · rename_i b r4
    split
    · split
      · rename_i s r5
        have h5 := countFullDecimal_le r5
        have h4 := countFullDecimal_le (s :: r5)
        simp only [List.length_cons] at *
        split <;> omega
      · simp
    · omega
  · omega

theorem three_parts_le (r : Bytes) (n1 : Nat) (f g : Bytes → Nat) (h1 : n1 ≤ r.length)
    (hf : ∀ l, f l ≤ l.length) (hg : ∀ l, g l ≤ l.length) :
    n1 + f (r.drop n1) + g ((r.drop n1).drop (f (r.drop n1))) ≤ r.length := by
  have h2 := hf (r.drop n1)
  have h3 := hg ((r.drop n1).drop (f (r.drop n1)))
  simp only [List.length_drop] at h2 h3
  omega

theorem decNumberRest_le (r : Bytes) : decNumberRest r ≤ r.length :=
  three_parts_le r (countDecimal r) _ _ (countWhile_le _ _) fracLen_le expLen_le

theorem asmNumberRest_le (first : UInt8) (r : Bytes) : (asmNumberRest first r).1 ≤ r.length := by
  unfold asmNumberRest
  simp only
  have h1 := countWhile_le isHexByte r
  generalize hn : countHex r = n
  have hn' : n ≤ r.length := by rw [← hn]; exact h1
  split
  · rename_i b t heq
    have : (r.drop n).length = r.length - n := by simp
    rw [heq] at this
    simp at this
    repeat' split
    all_goals simp <;> omega
  · repeat' split
    all_goals simp <;> omega

theorem asmTextLiteralRest_le (r : Bytes) : (asmTextLiteralRest r).1 ≤ r.length := by
  induction r using asmTextLiteralRest.induct with
  | case1 => simp [asmTextLiteralRest]
  | case2 => simp [asmTextLiteralRest]
  | case3 x r ih => rw [asmTextLiteralRest]; simp only [List.length_cons]; omega
  | case4 t => simp [asmTextLiteralRest]
  | case5 b r h1 h2 h3 hnl =>
    rw [asmTextLiteralRest]
    · simp [hnl]
    all_goals (first | exact h1 | exact h2 | exact h3 | skip)
  | case6 b r h1 h2 h3 hnl ih =>
    rw [asmTextLiteralRest]
    · simp only [hnl, List.length_cons]; simp; omega
    all_goals (first | exact h1 | exact h2 | exact h3 | skip)

end Pasfmt

namespace Pasfmt

/-! ### text literals -/

def ParseState.n : ParseState → Nat
  | .cont n => n
  | .stop n => n
  | .unterminated n => n

theorem consumePascalStr_le (l : Bytes) : (consumePascalStr l).n ≤ l.length := by
  unfold consumePascalStr
  split
  · rename_i r
    split
    · simp [ParseState.n]
    · split
      · rename_i pos hpos
        have := findIdx_lt _ _ _ hpos
        split <;> simp [ParseState.n] <;> omega
      · simp [ParseState.n]; omega
  · simp [ParseState.n]

theorem consumePascalStr_pos (r : Bytes) : 1 ≤ (consumePascalStr (0x27 :: r)).n := by
  unfold consumePascalStr
  simp only
  split
  · simp [ParseState.n]
  · split
    · split <;> simp [ParseState.n] <;> omega
    · simp [ParseState.n]

def sumN : Sum Nat Nat → Nat
  | .inl n => n
  | .inr n => n

theorem consumeOneEscape_bounds (a : Bytes) : 1 ≤ sumN (consumeOneEscape a) ∧ sumN (consumeOneEscape a) ≤ 1 + a.length := by
  unfold consumeOneEscape
  split
  · rename_i b r
    have hd := countWhile_le isDecimalByte r
    have hh := countWhile_le isHexByte r
    have hb := countWhile_le isBinaryByte r
    unfold countDecimal countHex countBinary
    simp only [List.length_cons]
    split
    · simp [sumN]; omega
    · split
      · split
        · simp [sumN]; omega
        · rename_i c hc; simp [sumN]; omega
      · split
        · split
          · simp [sumN]; omega
          · simp [sumN]; omega
        · simp [sumN]
  · simp [sumN]

theorem consumeEscapedChars_le (fuel : Nat) (l : Bytes) : (consumeEscapedChars fuel l).n ≤ l.length := by
  induction fuel generalizing l with
  | zero => simp [consumeEscapedChars, ParseState.n]
  | succ k ih =>
    unfold consumeEscapedChars
    split
    · rename_i r
      have hb := consumeOneEscape_bounds r
      split
      · rename_i n hn
        rw [hn] at hb; simp [sumN] at hb
        have hrec := ih ((0x23 :: r).drop n)
        simp only [List.length_drop, List.length_cons] at hrec
        split <;> rename_i m hm <;> rw [hm] at hrec <;> simp [ParseState.n] at * <;> omega
      · rename_i n hn
        rw [hn] at hb; simp [sumN] at hb
        simp [ParseState.n]; omega
    · simp [ParseState.n]

theorem consumeEscapedChars_pos (fuel : Nat) (r : Bytes) : 1 ≤ (consumeEscapedChars (fuel + 1) (0x23 :: r)).n := by
  unfold consumeEscapedChars
  simp only
  have hb := consumeOneEscape_bounds r
  split
  · rename_i n hn
    rw [hn] at hb; simp [sumN] at hb
    split <;> simp [ParseState.n] <;> omega
  · rename_i n hn
    rw [hn] at hb; simp [sumN] at hb
    simp [ParseState.n]; omega

theorem textLiteralLoop_le (fuel : Nat) (l : Bytes) : (textLiteralLoop fuel l).1 ≤ l.length := by
  induction fuel generalizing l with
  | zero => simp [textLiteralLoop]
  | succ k ih =>
    unfold textLiteralLoop
    have he := consumeEscapedChars_le (l.length + 1) l
    split
    · rename_i n hn; rw [hn] at he; simpa [ParseState.n] using he
    · rename_i n hn; rw [hn] at he; simpa [ParseState.n] using he
    · rename_i n hn
      rw [hn] at he; simp only [ParseState.n] at he
      have hp := consumePascalStr_le (l.drop n)
      simp only [List.length_drop] at hp
      simp only []
      split
      · rename_i m hm; rw [hm] at hp; simp only [ParseState.n] at hp; simp only; omega
      · rename_i m hm; rw [hm] at hp; simp only [ParseState.n] at hp; simp only; omega
      · rename_i m hm
        rw [hm] at hp; simp only [ParseState.n] at hp
        have hrec := ih ((l.drop n).drop m)
        simp only [List.length_drop] at hrec
        simp only
        omega

end Pasfmt

namespace Pasfmt

theorem consumeEscapedChars_nohash (fuel : Nat) (l : Bytes) (h : ∀ r, l ≠ 0x23 :: r) :
    consumeEscapedChars fuel l = .cont 0 := by
  cases fuel with
  | zero => simp [consumeEscapedChars]
  | succ k =>
    unfold consumeEscapedChars
    split
    · rename_i r; exact absurd rfl (h r)
    · rfl

/-- a literal that starts with `'` or `#` consumes at least one byte -/
theorem textLiteralLoop_pos (fuel : Nat) (b : UInt8) (r : Bytes) (hb : b = 0x27 ∨ b = 0x23) :
    1 ≤ (textLiteralLoop (fuel + 1) (b :: r)).1 := by
  unfold textLiteralLoop
  rcases hb with rfl | rfl
  · rw [consumeEscapedChars_nohash _ _ (by intro r' h; simp at h)]
    simp only [List.drop_zero]
    have hp := consumePascalStr_pos r
    split
    · rename_i m hm; rw [hm] at hp; simpa [ParseState.n] using hp
    · rename_i m hm; rw [hm] at hp; simpa [ParseState.n] using hp
    · rename_i m hm; rw [hm] at hp; simp only [ParseState.n] at hp; simp only; omega
  · have hp := consumeEscapedChars_pos (r.length + 1) r
    simp only [List.length_cons]
    split
    · rename_i n hn; rw [hn] at hp; simpa [ParseState.n] using hp
    · rename_i n hn; rw [hn] at hp; simpa [ParseState.n] using hp
    · rename_i n hn
      rw [hn] at hp; simp only [ParseState.n] at hp
      split <;> simp only <;> omega

theorem textLiteral_le (l : Bytes) : (textLiteral l).1 ≤ l.length := by
  unfold textLiteral
  simp only []
  repeat' split
  all_goals first
    | exact textLiteralLoop_le _ _
    | (rename_i pos hpos
       have := findSub_le _ _ _ hpos
       have hq := countWhile_le (· == 0x27) l
       simp only [List.length_take, List.length_drop] at this
       simp only
       omega)
    | simp

theorem textLiteral_pos (b : UInt8) (r : Bytes) (hb : b = 0x27 ∨ b = 0x23) : 1 ≤ (textLiteral (b :: r)).1 := by
  unfold textLiteral
  simp only []
  repeat' split
  all_goals first
    | exact textLiteralLoop_pos _ b r hb
    | (simp only [List.length_cons]; omega)
    | (simp_all; done)
    | (simp_all; omega)

/-! ### comments and directives -/

theorem findBlockCommentEnd_le (k : BlockCommentKind) (l : Bytes) (e : Nat)
    (h : findBlockCommentEnd k l = some e) : 1 ≤ e ∧ e ≤ l.length := by
  unfold findBlockCommentEnd at h
  cases k with
  | parenStar =>
    simp only [Option.map_eq_some_iff] at h
    obtain ⟨p, hp, rfl⟩ := h
    have := findSub_le _ _ _ hp
    simp at this; omega
  | brace =>
    simp only [Option.map_eq_some_iff] at h
    obtain ⟨p, hp, rfl⟩ := h
    have := findByte_lt _ _ _ hp
    omega

theorem blockCommentEndOrEof_le (k : BlockCommentKind) (trim : Nat) (l : Bytes) :
    blockCommentEndOrEof k trim l ≤ l.length := by
  unfold blockCommentEndOrEof
  split
  · rename_i e he; exact (findBlockCommentEnd_le k l e he).2
  · omega


theorem shiftEnd_ne_none (n : Nat) (x : Option (Option Nat)) (h : x ≠ none) : shiftEnd n x ≠ none := by
  cases x with
  | none => exact absurd rfl h
  | some y => cases y <;> simp [shiftEnd]

/-- the directive scanner does not run out of fuel when given more fuel than bytes -/
theorem findDirectiveExprEnd_fuel (trim : Nat) (fuel : Nat) (kind : BlockCommentKind) (l : Bytes)
    (hf : l.length < fuel) : findDirectiveExprEnd trim fuel kind l ≠ none := by
  induction fuel generalizing kind l with
  | zero => omega
  | succ f ih =>
    cases l with
    | nil => simp [findDirectiveExprEnd]
    | cons b0 r0 =>
      have cont : ∀ n, 1 ≤ n → shiftEnd n (findDirectiveExprEnd trim f kind ((b0 :: r0).drop n)) ≠ none := by
        intro n hn
        apply shiftEnd_ne_none
        apply ih
        simp only [List.length_drop, List.length_cons] at *; omega
      have nested : ∀ (skip : Nat) (k2 : BlockCommentKind) (r : Bytes), 1 ≤ skip → r.length < f →
          (match (if isExprDirective (conditionalDirectiveType r).2
                    then findDirectiveExprEnd trim f k2 (r.drop (conditionalDirectiveType r).1)
                    else some (findBlockCommentEnd k2 (r.drop (conditionalDirectiveType r).1))) with
            | none => (none : Option (Option Nat))
            | some none => some none
            | some (some e) =>
              shiftEnd (skip + (conditionalDirectiveType r).1 + e)
                (findDirectiveExprEnd trim f kind ((b0 :: r0).drop (skip + (conditionalDirectiveType r).1 + e)))) ≠ none := by
        intro skip k2 r hs hr
        have hin : findDirectiveExprEnd trim f k2 (r.drop (conditionalDirectiveType r).1) ≠ none := by
          apply ih
          simp only [List.length_drop]; omega
        split
        · rename_i hnone
          split at hnone
          · exact absurd hnone hin
          · simp at hnone
        · simp
        · exact cont _ (by omega)
      unfold findDirectiveExprEnd
      simp only []
      have hr0 : r0.length < f := by simp only [List.length_cons] at hf; omega
      iterate 8
        (split
         (first
          | (focus (simp; done))
          | exact cont _ (by omega)
          | (focus (rename_i hq; exact cont _ (textLiteral_pos b0 r0 (Or.inl (by simpa using hq)))))
          | (focus (apply nested _ _ _ (by omega); simp only [List.length_drop]; omega))))
      exact cont _ (by omega)

/-- a found end lies inside the scanned text -/
theorem findDirectiveExprEnd_le (trim : Nat) (fuel : Nat) (kind : BlockCommentKind) (l : Bytes) (e : Nat)
    (h : findDirectiveExprEnd trim fuel kind l = some (some e)) : 1 ≤ e ∧ e ≤ l.length := by
  induction fuel generalizing kind l e with
  | zero => simp [findDirectiveExprEnd] at h
  | succ f ih =>
    cases l with
    | nil => simp [findDirectiveExprEnd] at h
    | cons b0 r0 =>
      have cont : ∀ n e, 1 ≤ n → shiftEnd n (findDirectiveExprEnd trim f kind ((b0 :: r0).drop n)) = some (some e) →
          1 ≤ e ∧ e ≤ (b0 :: r0).length := by
        intro n e hn hs
        cases hx : findDirectiveExprEnd trim f kind ((b0 :: r0).drop n) with
        | none => rw [hx] at hs; simp [shiftEnd] at hs
        | some y =>
          cases y with
          | none => rw [hx] at hs; simp [shiftEnd] at hs
          | some e' =>
            rw [hx] at hs; simp [shiftEnd] at hs
            have := ih kind _ e' hx
            simp only [List.length_drop] at this
            omega
      unfold findDirectiveExprEnd at h
      simp only [] at h
      have nested : ∀ (skip : Nat) (k2 : BlockCommentKind) (r : Bytes) (e : Nat), 1 ≤ skip →
          (match (if isExprDirective (conditionalDirectiveType r).2
                    then findDirectiveExprEnd trim f k2 (r.drop (conditionalDirectiveType r).1)
                    else some (findBlockCommentEnd k2 (r.drop (conditionalDirectiveType r).1))) with
            | none => (none : Option (Option Nat))
            | some none => some none
            | some (some e) =>
              shiftEnd (skip + (conditionalDirectiveType r).1 + e)
                (findDirectiveExprEnd trim f kind ((b0 :: r0).drop (skip + (conditionalDirectiveType r).1 + e)))) = some (some e) →
          1 ≤ e ∧ e ≤ (b0 :: r0).length := by
        intro skip k2 r e hs hm
        split at hm
        · simp at hm
        · simp at hm
        · exact cont _ _ (by omega) hm
      iterate 2
        (split at h
         focus (
          simp only [Option.some.injEq] at h; subst h;
          rename_i hc;
          simp only [Bool.and_eq_true, beq_iff_eq] at hc;
          simp only [List.length_cons];
          first
            | omega
            | (have : r0 ≠ [] := by (intro hn; simp [hn] at hc));
              (have := List.length_pos_iff.2 this); omega))
      iterate 6
        (split at h
         (first
          | exact cont _ _ (by omega) h
          | (focus (rename_i hq; exact cont _ _ (textLiteral_pos b0 r0 (Or.inl (by simpa using hq))) h))
          | exact nested _ _ _ _ (by omega) h))
      exact cont _ _ (by omega) h


theorem conditionalDirectiveType_le (l : Bytes) : (conditionalDirectiveType l).1 ≤ l.length := by
  unfold conditionalDirectiveType
  exact countWhile_le _ _

theorem parseDirectiveExpr_ne_none (trim : Nat) (kind : BlockCommentKind) (l : Bytes) :
    (parseDirectiveExpr trim (directiveFuel l) kind l).2 ≠ none := by
  unfold parseDirectiveExpr
  simp only []
  split
  · apply shiftEnd_ne_none
    apply findDirectiveExprEnd_fuel
    unfold directiveFuel
    simp only [List.length_drop]; omega
  · apply shiftEnd_ne_none; simp

theorem parseDirectiveExpr_le (trim fuel : Nat) (kind : BlockCommentKind) (l : Bytes) (e : Nat)
    (h : (parseDirectiveExpr trim fuel kind l).2 = some (some e)) : 1 ≤ e ∧ e ≤ l.length := by
  unfold parseDirectiveExpr at h
  simp only [] at h
  have hn := conditionalDirectiveType_le l
  split at h
  · cases hx : findDirectiveExprEnd trim fuel kind (l.drop (conditionalDirectiveType l).1) with
    | none => rw [hx] at h; simp [shiftEnd] at h
    | some y =>
      cases y with
      | none => rw [hx] at h; simp [shiftEnd] at h
      | some e' =>
        rw [hx] at h; simp [shiftEnd] at h
        have := findDirectiveExprEnd_le _ _ _ _ _ hx
        simp only [List.length_drop] at this
        omega
  · cases hx : findBlockCommentEnd kind (l.drop (conditionalDirectiveType l).1) with
    | none => rw [hx] at h; simp [shiftEnd] at h
    | some e' =>
      rw [hx] at h; simp [shiftEnd] at h
      have := findBlockCommentEnd_le _ _ _ hx
      simp only [List.length_drop] at this
      omega

theorem compilerDirective_ne_none (trim : Nat) (kind : BlockCommentKind) (openLen tokLen : Nat) (l : Bytes) :
    compilerDirective trim kind openLen tokLen l ≠ none := by
  unfold compilerDirective
  have := parseDirectiveExpr_ne_none trim kind l
  split
  · rename_i heq; rw [heq] at this; simp at this
  · simp
  · simp

theorem compilerDirective_bounds (trim : Nat) (kind : BlockCommentKind) (openLen tokLen : Nat) (l : Bytes)
    (n : Nat) (k : Option ConditionalDirectiveKind)
    (h : compilerDirective trim kind openLen tokLen l = some (n, k))
    (htok : tokLen = openLen + l.length) (htrim : trim < tokLen) : 1 ≤ n ∧ n ≤ tokLen := by
  unfold compilerDirective at h
  split at h
  · simp at h
  · rename_i tt e heq
    simp only [Option.some.injEq, Prod.mk.injEq] at h
    have := parseDirectiveExpr_le trim (directiveFuel l) kind l e (by rw [heq])
    omega
  · simp only [Option.some.injEq, Prod.mk.injEq] at h
    omega

theorem blockComment_bounds (trim : Nat) (kind : BlockCommentKind) (openLen tokLen : Nat) (nlb : Bool) (l : Bytes)
    (htok : tokLen = openLen + l.length) (htrim : trim < tokLen) :
    1 ≤ (blockComment trim kind openLen tokLen nlb l).1 ∧ (blockComment trim kind openLen tokLen nlb l).1 ≤ tokLen := by
  unfold blockComment
  split
  · rename_i e he
    have := findBlockCommentEnd_le _ _ _ he
    simp only; omega
  · simp only; omega

theorem lineCommentEnd_le (l : Bytes) : lineCommentEnd l ≤ l.length := by
  unfold lineCommentEnd
  split
  · rename_i o ho; exact Nat.le_of_lt (findIdx_lt _ _ _ ho)
  · omega

end Pasfmt
