/-
  C12 end to end, for the closed model of the whole formatter (`Model/PipelineFull.lean`):
  what happens to the text of a multi-line string literal between the scanner and the reconstructor.

  * every token that the scanner types `TextLiteral(MultiLine)` ends in a quote (`lex_multi_ends_quote`);
  * the parser and the consolidators never retype a text literal (`Proofs/ParserLiterals.lean`), and the token rules
    keep every kind (`preWrap_kind`);
  * the token rules before the wrapper stage (`tokenSpacing`, `lowercaseKeywords`, `commentFormatter`, `eofNewline`)
    leave the text of every token that is not typed keyword / line comment / directive alone, and the text of every
    ignored token (`rules_keep_tok`, `preWrap_keeps`);
  * through the wrapper stage with the search inside (`wrapStageFull`, whatever solutions the search returns) the text
    of a token changes only by applications of the re-indenter `mlsRewrite` (`MlsReach`, `wrapStageFull_reach`), at
    most two of them for a literal that ends in a quote (first and second string pass; `MlsChain`, `StageOutcome`,
    `wrapStageFull_at`), and not at all for ignored tokens, other kinds, and with `format_multiline_strings = false`;
  * the value of a literal (`MlsMore.literalValue`) is the same along such a chain (`chain_value`); a literal that the
    re-indenter rejects for all counters is reproduced byte for byte (`chain_rejected`);
  * all of it together: `formatFull_literals`.
-/
import PasfmtModel.Proofs.PipelineFullProps
import PasfmtModel.Proofs.MlsMore
import PasfmtModel.Proofs.LexShape
import PasfmtModel.Proofs.LexBasic
import PasfmtModel.Proofs.ParserLiterals

namespace Pasfmt.MlsPipe

open MlsMore (literalValue SettingsOk settings_ok)

/-! ### chains of applications of the re-indenter -/

/-- one application of the re-indenter, with some pair of counters, that changes the text -/
def MlsStep (S : Settings) (c c' : Bytes) : Prop := ∃ ind cont, mlsRewrite S c ind cont = some c'

/-- `c'` is obtained from `c` by exactly `k` successive applications of the re-indenter (each with its own counters) -/
inductive MlsChain (S : Settings) : Nat → Bytes → Bytes → Prop
  | zero (c : Bytes) : MlsChain S 0 c c
  | succ {k : Nat} {c c1 c2 : Bytes} : MlsChain S k c c1 → MlsStep S c1 c2 → MlsChain S (k + 1) c c2

/-- reflexive-transitive closure of `MlsStep` -/
def MlsReach (S : Settings) (c c' : Bytes) : Prop := ∃ k, MlsChain S k c c'

theorem MlsChain.trans {S : Settings} {k1 k2 : Nat} {a b c : Bytes} (h1 : MlsChain S k1 a b) (h2 : MlsChain S k2 b c) :
    MlsChain S (k1 + k2) a c := by
  induction h2 with
  | zero => exact h1
  | succ _ hs ih => exact MlsChain.succ (ih h1) hs

theorem MlsChain.one {S : Settings} {c c' : Bytes} (h : MlsStep S c c') : MlsChain S 1 c c' := .succ (.zero c) h

theorem MlsReach.refl (S : Settings) (c : Bytes) : MlsReach S c c := ⟨0, .zero c⟩

theorem MlsReach.trans {S : Settings} {a b c : Bytes} (h1 : MlsReach S a b) (h2 : MlsReach S b c) : MlsReach S a c := by
  obtain ⟨k1, h1⟩ := h1
  obtain ⟨k2, h2⟩ := h2
  exact ⟨k1 + k2, h1.trans h2⟩

theorem MlsReach.step {S : Settings} {c c' : Bytes} (h : MlsStep S c c') : MlsReach S c c' := ⟨1, .one h⟩

/-- a chain of length zero, one or two, spelled out -/
theorem MlsChain.le_two {S : Settings} {k : Nat} {c c' : Bytes} (h : MlsChain S k c c') (hk : k ≤ 2) :
    c' = c ∨ MlsStep S c c' ∨ ∃ c1, MlsStep S c c1 ∧ MlsStep S c1 c' := by
  cases h with
  | zero => exact Or.inl rfl
  | succ h1 s1 =>
    cases h1 with
    | zero => exact Or.inr (Or.inl s1)
    | succ h2 s2 =>
      cases h2 with
      | zero => exact Or.inr (Or.inr ⟨_, s2, s1⟩)
      | succ _ _ => omega

/-- the rewritten literal ends in a quote again -/
theorem step_ends_quote {S : Settings} {c c' : Bytes} (hq : c.getLast? = some 0x27) (h : MlsStep S c c') :
    c'.getLast? = some 0x27 := by
  obtain ⟨ind, cont, h⟩ := h
  obtain ⟨first, interior, base, q, vs, _, _, _, h4, h5, _, _, h8, _⟩ := MlsMore.mlsRewrite_anatomy S c ind cont c' hq h
  rw [h8]
  exact MlsMore.rewritten_ends_quote S ind cont first vs q h4 h5

/-- one application keeps the value of the literal -/
theorem step_value {S : Settings} (hS : SettingsOk S) {c c' : Bytes} (hq : c.getLast? = some 0x27) (h : MlsStep S c c') :
    literalValue c' = literalValue c := by
  obtain ⟨ind, cont, h⟩ := h
  obtain ⟨first, interior, base, q, vs, _, _, _, h4, h5, _, h7, h8, h9, h10, _⟩ :=
    MlsMore.mlsRewrite_anatomy S c ind cont c' hq h
  rw [h7, h8]
  exact MlsMore.literalValue_rewritten hS ind cont first vs q h9 h10 h4 h5

/-- **the value of a literal that ends in a quote is the same all along a chain**, and every text of the chain ends in
    a quote -/
theorem chain_value {S : Settings} (hS : SettingsOk S) {k : Nat} {c c' : Bytes} (hq : c.getLast? = some 0x27)
    (h : MlsChain S k c c') : c'.getLast? = some 0x27 ∧ literalValue c' = literalValue c := by
  induction h with
  | zero => exact ⟨hq, rfl⟩
  | succ _ hs ih =>
    obtain ⟨q1, v1⟩ := ih hq
    exact ⟨step_ends_quote q1 hs, (step_value hS q1 hs).trans v1⟩

/-- a text that the re-indenter leaves alone for every pair of counters is the only text its chains reach -/
theorem chain_rejected {S : Settings} {k : Nat} {c c' : Bytes} (hrej : ∀ ind cont, mlsRewrite S c ind cont = none)
    (h : MlsChain S k c c') : c' = c := by
  induction h with
  | zero => rfl
  | succ _ hs ih =>
    obtain ⟨ind, cont, hs⟩ := hs
    rw [ih hrej, hrej] at hs
    cases hs

/-! ### `All2`, position by position -/

theorem all2_getElem? {α β : Type} {R : α → β → Prop} {as : List α} {bs : List β} (h : All2 R as bs) {j : Nat} {a : α}
    (ha : as[j]? = some a) : ∃ b, bs[j]? = some b ∧ R a b := by
  induction h generalizing j with
  | nil => simp at ha
  | cons hr _ ih =>
    cases j with
    | zero => simp at ha; subst ha; exact ⟨_, by simp, hr⟩
    | succ n => simp at ha; simpa using ih ha

theorem all2_length {α β : Type} {R : α → β → Prop} {as : List α} {bs : List β} (h : All2 R as bs) :
    as.length = bs.length := by
  induction h with
  | nil => rfl
  | cons _ _ ih => simp [ih]

theorem all2_refl {α : Type} {R : α → α → Prop} (h : ∀ a, R a a) : ∀ (as : List α), All2 R as as
  | [] => .nil
  | a :: r => .cons (h a) (all2_refl h r)

theorem all2_set_right {α : Type} {R : α → α → Prop} (hr : ∀ a, R a a) (as : List α) (i : Nat) (x a : α)
    (hi : as[i]? = some a) (hx : R a x) : All2 R as (as.set i x) := by
  induction as generalizing i with
  | nil => simp at hi
  | cons b r ih =>
    cases i with
    | zero =>
      simp at hi; subst hi
      simp only [List.set_cons_zero]
      exact .cons hx (all2_refl hr r)
    | succ j =>
      simp only [List.set_cons_succ]
      exact .cons (hr b) (ih j (by simpa using hi))

/-! ### the wrapper stage: solutions write counters only -/

/-- a step that leaves the token itself (text, blanks, kind) and the ignored flag alone -/
def FmtOnly (t t' : FTok) : Prop := t'.tok = t.tok ∧ t'.fmt.ignored = t.fmt.ignored

theorem FmtOnly.refl (t : FTok) : FmtOnly t t := ⟨rfl, rfl⟩

theorem FmtOnly.trans {a b c : FTok} (h1 : FmtOnly a b) (h2 : FmtOnly b c) : FmtOnly a c :=
  ⟨h2.1.trans h1.1, h2.2.trans h1.2⟩

theorem all2_fmtOnly_trans {a b c : FT} (h1 : All2 FmtOnly a b) (h2 : All2 FmtOnly b c) : All2 FmtOnly a c :=
  All2.trans h1 h2 (fun _ _ _ x y => x.trans y)

theorem setFmt_fmtOnly (ft ft' : FT) (i : Nat) (g : FmtData → FmtData)
    (hg : ∀ f, (g f).ignored = f.ignored) (h : setFmt ft i g = some ft') : All2 FmtOnly ft ft' := by
  unfold setFmt at h
  split at h
  · rename_i t ht
    simp at h; subst h
    exact all2_set_right FmtOnly.refl ft i _ t ht ⟨rfl, hg _⟩
  · simp at h

mutual
theorem applySol_fmtOnly (lines : List Line) (ft ft' : FT) (s : Sol) (li : Nat)
    (h : applySol lines ft s li = some ft') : All2 FmtOnly ft ft' := by
  cases s with
  | mk ind cont decs =>
    unfold applySol at h
    split at h
    · simp at h
    · exact applyDecs_fmtOnly lines ind cont _ 0 ft ft' decs h

theorem applyDecs_fmtOnly (lines : List Line) (ind cont : Nat) (toks : List Nat) (i : Nat) (ft ft' : FT)
    (decs : List (Dec × List (Nat × Sol))) (h : applyDecs lines ind cont toks i ft decs = some ft') :
    All2 FmtOnly ft ft' := by
  cases decs with
  | nil =>
    unfold applyDecs at h
    simp at h; subst h; exact all2_refl FmtOnly.refl ft
  | cons dk rest =>
    obtain ⟨d, children⟩ := dk
    unfold applyDecs at h
    split at h
    · simp at h
    · split at h
      · simp at h
      · rename_i ft1 h1
        split at h
        · simp at h
        · rename_i ft2 h2
          have r1 := setFmt_fmtOnly ft ft1 _ _ (fun f => applyDec_ignored f _ _ _ _) h1
          have r2 := applyChildren_fmtOnly lines ft1 ft2 children h2
          have r3 := applyDecs_fmtOnly lines ind cont toks (i + 1) ft2 ft' rest h
          exact all2_fmtOnly_trans (all2_fmtOnly_trans r1 r2) r3

theorem applyChildren_fmtOnly (lines : List Line) (ft ft' : FT) (ks : List (Nat × Sol))
    (h : applyChildren lines ft ks = some ft') : All2 FmtOnly ft ft' := by
  cases ks with
  | nil =>
    unfold applyChildren at h
    simp at h; subst h; exact all2_refl FmtOnly.refl ft
  | cons k rest =>
    obtain ⟨li, s⟩ := k
    unfold applyChildren at h
    split at h
    · simp at h
    · rename_i ft1 h1
      have r1 := applySol_fmtOnly lines ft ft1 s li h1
      have r2 := applyChildren_fmtOnly lines ft1 ft' rest h
      exact all2_fmtOnly_trans r1 r2
end

/-- applying the solutions of the search changes no token text (and no kind, no ignored flag) -/
theorem applyLinesS_fmtOnly (phase : Nat) (lines : List Line) (is : List Nat) (st st' : SearchState)
    (ft ft' : FT) (acc acc' : List (Nat × Nat × Sol))
    (h : applyLinesS phase lines is st ft acc = some (ft', st', acc')) : All2 FmtOnly ft ft' := by
  induction is generalizing st ft acc with
  | nil => simp [applyLinesS] at h; obtain ⟨rfl, _, _⟩ := h; exact all2_refl FmtOnly.refl ft
  | cons i rest ih =>
    unfold applyLinesS at h
    split at h
    · exact ih _ _ _ h
    · split at h
      · simp at h
      · rename_i s st1 hs ft1 h1
        exact all2_fmtOnly_trans (applySol_fmtOnly lines ft ft1 _ i h1) (ih _ _ _ h)

theorem zero_fmtOnly (ft : FT) : All2 FmtOnly ft (zeroLineStartSpaces ft) := by
  unfold zeroLineStartSpaces
  apply All2.refl_map
  intro t
  split
  · exact ⟨rfl, rfl⟩
  · exact FmtOnly.refl t

/-! ### the string passes, one pass at a time -/

/-- what one string pass (in which no counter changes) does to one token: nothing, or - for a token that is not
    ignored and is typed multi-line literal - one application of the re-indenter with the token's own counters -/
def PassRel (S : Settings) (t t' : FTok) : Prop :=
  t'.fmt = t.fmt ∧ t'.tok.kind = t.tok.kind ∧
  (t'.tok = t.tok ∨
    (t.fmt.ignored = false ∧ isMlsKind t.tok.kind = true ∧
      mlsRewrite S t.tok.content t.fmt.ind t.fmt.cont = some t'.tok.content))

theorem PassRel.refl (S : Settings) (t : FTok) : PassRel S t t := ⟨rfl, rfl, Or.inl rfl⟩

theorem setContent_fmt (t : FTok) (c : Bytes) : (t.setContent c).fmt = t.fmt := by
  unfold FTok.setContent; split <;> rfl

theorem setContent_kind (t : FTok) (c : Bytes) : (t.setContent c).tok.kind = t.tok.kind := by
  unfold FTok.setContent; split <;> rfl

theorem getElem?_lt {α : Type} {l : List α} {j : Nat} {a : α} (h : l[j]? = some a) : j < l.length := by
  rcases Nat.lt_or_ge j l.length with h1 | h1
  · exact h1
  · rw [List.getElem?_eq_none h1] at h; cases h

/-- one more visit of a token within the same pass: still at most one application since the pass began (a second
    application with the same counters reports "no change": idempotence) -/
theorem visit_passRel {S : Settings} (hS : SettingsOk S) {t0 t : FTok}
    (hq : isMlsKind t0.tok.kind = true → t0.tok.content.getLast? = some 0x27) (h : PassRel S t0 t) (c : Bytes)
    (hc : (if !t.fmt.ignored && isMlsKind t.tok.kind then mlsRewrite S t.tok.content t.fmt.ind t.fmt.cont else none)
      = some c) : PassRel S t0 (t.setContent c) := by
  obtain ⟨hf, hk, hcase⟩ := h
  have hcond : (!t.fmt.ignored && isMlsKind t.tok.kind) = true := by
    by_cases hb : (!t.fmt.ignored && isMlsKind t.tok.kind) = true
    · exact hb
    · simp [hb] at hc
  simp only [hcond, if_true] at hc
  simp only [Bool.and_eq_true, Bool.not_eq_true'] at hcond
  obtain ⟨hni, hkind⟩ := hcond
  refine ⟨by rw [setContent_fmt]; exact hf, by rw [setContent_kind]; exact hk, ?_⟩
  rcases hcase with he | ⟨_, hk0, hr⟩
  · refine Or.inr ⟨by rw [← hf]; exact hni, by rw [← hk]; exact hkind, ?_⟩
    unfold FTok.setContent
    simp only [hni, Bool.false_eq_true, if_false]
    rw [← he, ← hf]; exact hc
  · exfalso
    have hidem := MlsMore.mls_idem S hS _ _ _ _ (hq hk0) hr
    rw [hf, hidem] at hc
    cases hc

theorem mlsLine_at {S : Settings} (hS : SettingsOk S) (toks : List Nat) (ft ft' : FT) (ch : Bool)
    (h : mlsLine S toks ft = some (ft', ch)) (j : Nat) (t0 t : FTok)
    (hq : isMlsKind t0.tok.kind = true → t0.tok.content.getLast? = some 0x27)
    (hj : ft[j]? = some t) (hrel : PassRel S t0 t) : ∃ t', ft'[j]? = some t' ∧ PassRel S t0 t' := by
  induction toks generalizing ft ft' ch t with
  | nil => simp [mlsLine] at h; obtain ⟨rfl, _⟩ := h; exact ⟨t, hj, hrel⟩
  | cons idx rest ih =>
    unfold mlsLine at h
    split at h
    · simp at h
    · rename_i u hu
      simp only at h
      split at h
      · simp at h
      · rename_i ft2 ch2 h2
        simp at h
        obtain ⟨rfl, _⟩ := h
        split at h2
        · rename_i c hc
          by_cases hij : idx = j
          · subst hij
            rw [hu] at hj; cases hj
            exact ih _ _ _ h2 (t.setContent c) (by simp [getElem?_lt hu]) (visit_passRel hS hq hrel c hc)
          · exact ih _ _ _ h2 t (by rw [List.getElem?_set_ne hij]; exact hj) hrel
        · exact ih _ _ _ h2 t hj hrel

theorem mlsPass1_at {S : Settings} (hS : SettingsOk S) (lines : List Line) (ls : List (Line × Nat)) (ft ft' : FT)
    (acc acc' : List Nat) (h : mlsPass1 S lines ls ft acc = some (ft', acc')) (j : Nat) (t0 t : FTok)
    (hq : isMlsKind t0.tok.kind = true → t0.tok.content.getLast? = some 0x27)
    (hj : ft[j]? = some t) (hrel : PassRel S t0 t) : ∃ t', ft'[j]? = some t' ∧ PassRel S t0 t' := by
  induction ls generalizing ft acc t with
  | nil => simp [mlsPass1] at h; obtain ⟨rfl, _⟩ := h; exact ⟨t, hj, hrel⟩
  | cons li rest ih =>
    obtain ⟨l, i⟩ := li
    unfold mlsPass1 at h
    split at h
    · simp at h
    · rename_i ft1 changed h1
      obtain ⟨t1, hj1, hrel1⟩ := mlsLine_at hS _ _ _ _ h1 j t0 t hq hj hrel
      split at h
      · split at h
        · simp at h
        · exact ih _ _ h t1 hj1 hrel1
      · exact ih _ _ h t1 hj1 hrel1

theorem mlsPass2_at {S : Settings} (hS : SettingsOk S) (ls : List Line) (ft ft' : FT)
    (h : mlsPass2 S ls ft = some ft') (j : Nat) (t0 t : FTok)
    (hq : isMlsKind t0.tok.kind = true → t0.tok.content.getLast? = some 0x27)
    (hj : ft[j]? = some t) (hrel : PassRel S t0 t) : ∃ t', ft'[j]? = some t' ∧ PassRel S t0 t' := by
  induction ls generalizing ft t with
  | nil => simp [mlsPass2] at h; subst h; exact ⟨t, hj, hrel⟩
  | cons l rest ih =>
    unfold mlsPass2 at h
    split at h
    · simp at h
    · rename_i ft1 ch h1
      obtain ⟨t1, hj1, hrel1⟩ := mlsLine_at hS _ _ _ _ h1 j t0 t hq hj hrel
      exact ih _ h t1 hj1 hrel1

/-! ### the whole stage, for one token -/

theorem zero_at (ft : FT) (j : Nat) (t : FTok) (hj : ft[j]? = some t) :
    ∃ t', (zeroLineStartSpaces ft)[j]? = some t' ∧ t'.tok = t.tok ∧ t'.fmt.ignored = t.fmt.ignored ∧
      t'.fmt.ind = t.fmt.ind ∧ t'.fmt.cont = t.fmt.cont := by
  unfold zeroLineStartSpaces
  rw [List.getElem?_map, hj]
  simp only [Option.map_some]
  split
  · exact ⟨_, rfl, rfl, rfl, rfl, rfl⟩
  · exact ⟨_, rfl, rfl, rfl, rfl, rfl⟩

/-- what the wrapper stage does to the text of one token: nothing; or one application of the re-indenter; or two, the
    second with the counters the token has in the end.  The last two only for a token that is not ignored, is typed
    multi-line literal, and with `format_multiline_strings = true`. -/
def StageOutcome (S : Settings) (fmtMls : Bool) (t tz : FTok) : Prop :=
  tz.tok = t.tok ∨
  (t.fmt.ignored = false ∧ isMlsKind t.tok.kind = true ∧ fmtMls = true ∧
    ((∃ i k, mlsRewrite S t.tok.content i k = some tz.tok.content) ∨
     (∃ i k c1, mlsRewrite S t.tok.content i k = some c1 ∧
        mlsRewrite S c1 tz.fmt.ind tz.fmt.cont = some tz.tok.content)))

/-- **the wrapper stage with the search inside, token by token, whatever the search returns**: kind and ignored flag
    are kept, and the text of a token whose text ends in a quote if it is typed multi-line literal (every scanned
    literal does) is the result of at most two applications of the re-indenter: `StageOutcome` -/
theorem wrapStageFull_at (cfg : Config) (lines : List Line) (ft ftz : FT) (sols : List (Nat × Nat × Sol))
    (h : wrapStageFull cfg lines ft = some (ftz, sols)) (j : Nat) (t : FTok) (hj : ft[j]? = some t)
    (hq : isMlsKind t.tok.kind = true → t.tok.content.getLast? = some 0x27) :
    ∃ tz, ftz[j]? = some tz ∧ tz.tok.kind = t.tok.kind ∧ tz.fmt.ignored = t.fmt.ignored ∧
      StageOutcome cfg.settings cfg.fmtMls t tz := by
  have hS := settings_ok cfg
  unfold wrapStageFull at h
  simp only at h
  split at h
  · simp at h
  · rename_i fta sta solsa ha
    obtain ⟨t1, hj1, htok1, hign1⟩ := all2_getElem? (applyLinesS_fmtOnly _ _ _ _ _ _ _ _ _ ha) hj
    split at h
    · rename_i hoff
      simp at h; obtain ⟨rfl, _⟩ := h
      obtain ⟨tz, hjz, htokz, hignz, _, _⟩ := zero_at fta j t1 hj1
      exact ⟨tz, hjz, by rw [htokz, htok1], hignz.trans hign1, Or.inl (htokz.trans htok1)⟩
    · rename_i hon
      have hon : cfg.fmtMls = true := by simpa using hon
      split at h
      · simp at h
      · rename_i ftb toReflow hb
        have hq1 : isMlsKind t1.tok.kind = true → t1.tok.content.getLast? = some 0x27 := by rw [htok1]; exact hq
        obtain ⟨t2, hj2, hfmt2, hkind2, hcase2⟩ := mlsPass1_at hS _ _ _ _ _ _ hb j t1 t1 hq1 hj1 (PassRel.refl _ _)
        split at h
        · simp at h
        · rename_i ftc stc solsc hc
          obtain ⟨t3, hj3, htok3, hign3⟩ := all2_getElem? (applyLinesS_fmtOnly _ _ _ _ _ _ _ _ _ hc) hj2
          split at h
          · simp at h
          · rename_i ftd hd
            have hq3 : isMlsKind t3.tok.kind = true → t3.tok.content.getLast? = some 0x27 := by
              rw [htok3]
              rcases hcase2 with he | ⟨_, hk1, hr⟩
              · rw [he]; exact hq1
              · intro _; exact step_ends_quote (hq1 hk1) ⟨_, _, hr⟩
            obtain ⟨t4, hj4, hfmt4, hkind4, hcase4⟩ := mlsPass2_at hS _ _ _ hd j t3 t3 hq3 hj3 (PassRel.refl _ _)
            simp at h; obtain ⟨rfl, _⟩ := h
            obtain ⟨tz, hjz, htokz, hignz, hindz, hcontz⟩ := zero_at ftd j t4 hj4
            have hign : tz.fmt.ignored = t.fmt.ignored := by
              rw [hignz, hfmt4, hign3, hfmt2, hign1]
            have hkind : tz.tok.kind = t.tok.kind := by
              rw [htokz, hkind4, htok3, hkind2, htok1]
            refine ⟨tz, hjz, hkind, hign, ?_⟩
            rcases hcase2 with he2 | ⟨hi2, hk2, hr2⟩
            · rcases hcase4 with he4 | ⟨hi4, hk4, hr4⟩
              · exact Or.inl (by rw [htokz, he4, htok3, he2, htok1])
              · refine Or.inr ⟨?_, ?_, hon, Or.inl ⟨t3.fmt.ind, t3.fmt.cont, ?_⟩⟩
                · rw [← hign1, ← hfmt2, ← hign3]; exact hi4
                · rw [← htok1, ← he2, ← htok3]; exact hk4
                · rw [htokz, ← htok1, ← he2, ← htok3]; exact hr4
            · have hi : t.fmt.ignored = false := by rw [← hign1]; exact hi2
              have hk : isMlsKind t.tok.kind = true := by rw [← htok1]; exact hk2
              rcases hcase4 with he4 | ⟨hi4, hk4, hr4⟩
              · refine Or.inr ⟨hi, hk, hon, Or.inl ⟨t1.fmt.ind, t1.fmt.cont, ?_⟩⟩
                rw [htokz, he4, htok3, ← htok1]; exact hr2
              · refine Or.inr ⟨hi, hk, hon, Or.inr ⟨t1.fmt.ind, t1.fmt.cont, t2.tok.content, ?_, ?_⟩⟩
                · rw [← htok1]; exact hr2
                · rw [hindz, hcontz, hfmt4, htokz, ← htok3]; exact hr4

theorem StageOutcome.chain {S : Settings} {b : Bool} {t tz : FTok} (h : StageOutcome S b t tz) :
    ∃ k, k ≤ 2 ∧ MlsChain S k t.tok.content tz.tok.content := by
  rcases h with he | ⟨_, _, _, h1 | h2⟩
  · exact ⟨0, by omega, by rw [he]; exact .zero _⟩
  · obtain ⟨i, k, h1⟩ := h1
    exact ⟨1, by omega, .one ⟨i, k, h1⟩⟩
  · obtain ⟨i, k, c1, h1, h2⟩ := h2
    exact ⟨2, by omega, .succ (.one ⟨i, k, h1⟩) ⟨_, _, h2⟩⟩

theorem StageOutcome.frozen {S : Settings} {b : Bool} {t tz : FTok} (h : StageOutcome S b t tz)
    (hf : t.fmt.ignored = true ∨ isMlsKind t.tok.kind = false ∨ b = false) : tz.tok = t.tok := by
  rcases h with he | ⟨h1, h2, h3, _⟩
  · exact he
  · rcases hf with hf | hf | hf
    · rw [h1] at hf; cases hf
    · rw [h2] at hf; cases hf
    · rw [h3] at hf; cases hf

/-! ### the whole stage, for all tokens, without the hypothesis "ends in a quote" -/

/-- one token before/after (part of) the wrapper stage: kind and ignored flag kept; the text changed by applications
    of the re-indenter only; the token untouched if it is ignored, not typed multi-line literal, or `b = false` -/
structure ReachRel (S : Settings) (b : Bool) (t t' : FTok) : Prop where
  kind : t'.tok.kind = t.tok.kind
  ign : t'.fmt.ignored = t.fmt.ignored
  reach : MlsReach S t.tok.content t'.tok.content
  frozen : (t.fmt.ignored = true ∨ isMlsKind t.tok.kind = false ∨ b = false) → t'.tok = t.tok

theorem ReachRel.refl (S : Settings) (b : Bool) (t : FTok) : ReachRel S b t t :=
  ⟨rfl, rfl, MlsReach.refl _ _, fun _ => rfl⟩

theorem ReachRel.trans {S : Settings} {b : Bool} {x y z : FTok} (h1 : ReachRel S b x y) (h2 : ReachRel S b y z) :
    ReachRel S b x z := by
  refine ⟨h2.kind.trans h1.kind, h2.ign.trans h1.ign, h1.reach.trans h2.reach, ?_⟩
  intro hf
  have e1 := h1.frozen hf
  have e2 := h2.frozen (by rw [h1.ign, h1.kind]; exact hf)
  exact e2.trans e1

theorem FmtOnly.reachRel (S : Settings) (b : Bool) {t t' : FTok} (h : FmtOnly t t') : ReachRel S b t t' :=
  ⟨by rw [h.1], h.2, by rw [h.1]; exact MlsReach.refl _ _, fun _ => h.1⟩

theorem all2_reach_trans {S : Settings} {b : Bool} {x y z : FT} (h1 : All2 (ReachRel S b) x y)
    (h2 : All2 (ReachRel S b) y z) : All2 (ReachRel S b) x z :=
  All2.trans h1 h2 (fun _ _ _ p q => p.trans q)

theorem mlsLine_reach (S : Settings) (toks : List Nat) (ft ft' : FT) (ch : Bool)
    (h : mlsLine S toks ft = some (ft', ch)) : All2 (ReachRel S true) ft ft' := by
  induction toks generalizing ft ft' ch with
  | nil => simp [mlsLine] at h; obtain ⟨rfl, _⟩ := h; exact all2_refl (ReachRel.refl S true) ft
  | cons idx rest ih =>
    unfold mlsLine at h
    split at h
    · simp at h
    · rename_i t ht
      simp only at h
      split at h
      · simp at h
      · rename_i ft2 ch2 h2
        simp at h
        obtain ⟨rfl, _⟩ := h
        refine all2_reach_trans ?_ (ih _ _ _ h2)
        split
        · rename_i c hc
          apply all2_set_right (ReachRel.refl S true) ft idx _ t ht
          have hcond : (!t.fmt.ignored && isMlsKind t.tok.kind) = true := by
            by_cases hb : (!t.fmt.ignored && isMlsKind t.tok.kind) = true
            · exact hb
            · simp [hb] at hc
          simp only [hcond, if_true] at hc
          simp only [Bool.and_eq_true, Bool.not_eq_true'] at hcond
          obtain ⟨hni, hkind⟩ := hcond
          refine ⟨setContent_kind t c, by rw [setContent_fmt], ?_, ?_⟩
          · unfold FTok.setContent
            simp only [hni, Bool.false_eq_true, if_false]
            exact MlsReach.step ⟨_, _, hc⟩
          · intro hf
            rcases hf with hf | hf | hf
            · rw [hni] at hf; cases hf
            · rw [hkind] at hf; cases hf
            · cases hf
        · exact all2_refl (ReachRel.refl S true) ft

theorem mlsPass1_reach (S : Settings) (lines : List Line) (ls : List (Line × Nat)) (ft ft' : FT)
    (acc acc' : List Nat) (h : mlsPass1 S lines ls ft acc = some (ft', acc')) : All2 (ReachRel S true) ft ft' := by
  induction ls generalizing ft acc with
  | nil => simp [mlsPass1] at h; obtain ⟨rfl, _⟩ := h; exact all2_refl (ReachRel.refl S true) ft
  | cons li rest ih =>
    obtain ⟨l, i⟩ := li
    unfold mlsPass1 at h
    split at h
    · simp at h
    · rename_i ft1 changed h1
      have r1 := mlsLine_reach S _ _ _ _ h1
      split at h
      · split at h
        · simp at h
        · exact all2_reach_trans r1 (ih _ _ h)
      · exact all2_reach_trans r1 (ih _ _ h)

theorem mlsPass2_reach (S : Settings) (ls : List Line) (ft ft' : FT)
    (h : mlsPass2 S ls ft = some ft') : All2 (ReachRel S true) ft ft' := by
  induction ls generalizing ft with
  | nil => simp [mlsPass2] at h; subst h; exact all2_refl (ReachRel.refl S true) ft
  | cons l rest ih =>
    unfold mlsPass2 at h
    split at h
    · simp at h
    · rename_i ft1 ch h1
      exact all2_reach_trans (mlsLine_reach S _ _ _ _ h1) (ih _ h)

/-- **the wrapper stage with the search inside, all tokens, no hypothesis on the texts**: same number of tokens; per
    token the kind and the ignored flag are kept, the text changes through applications of the re-indenter only, and
    the token is untouched if it is ignored, not typed multi-line literal, or `format_multiline_strings = false` -/
theorem wrapStageFull_reach (cfg : Config) (lines : List Line) (ft ftz : FT) (sols : List (Nat × Nat × Sol))
    (h : wrapStageFull cfg lines ft = some (ftz, sols)) : All2 (ReachRel cfg.settings cfg.fmtMls) ft ftz := by
  unfold wrapStageFull at h
  simp only at h
  split at h
  · simp at h
  · rename_i ft1 st1 sols1 h1
    have r1 := applyLinesS_fmtOnly _ _ _ _ _ _ _ _ _ h1
    split at h
    · simp at h; obtain ⟨rfl, _⟩ := h
      exact (all2_fmtOnly_trans r1 (zero_fmtOnly _)).imp (fun _ _ x => x.reachRel _ _)
    · rename_i hon
      have hon : cfg.fmtMls = true := by simpa using hon
      rw [hon]
      split at h
      · simp at h
      · rename_i ft2 toReflow h2
        have r2 := mlsPass1_reach cfg.settings _ _ _ _ _ _ h2
        split at h
        · simp at h
        · rename_i ft3 st3 sols2 h3
          have r3 := applyLinesS_fmtOnly _ _ _ _ _ _ _ _ _ h3
          split at h
          · simp at h
          · rename_i ft4 h4
            have r4 := mlsPass2_reach cfg.settings _ _ _ h4
            simp at h; obtain ⟨rfl, _⟩ := h
            exact all2_reach_trans (all2_reach_trans (all2_reach_trans (all2_reach_trans
              (r1.imp (fun _ _ y => y.reachRel cfg.settings true)) r2)
              (r3.imp (fun _ _ y => y.reachRel cfg.settings true))) r4)
              ((zero_fmtOnly _).imp (fun _ _ y => y.reachRel cfg.settings true))

/-! ### the scanner: a token typed `TextLiteral(MultiLine)` was read by the text-literal sub-lexer as such -/

def isTextLitRaw : RawKind → Bool
  | .rTextLiteral _ => true
  | _ => false

set_option maxRecDepth 100000 in
theorem lookupTable_no_textLiteral :
    lookupTable.all (fun e => match e with | none => true | some (_, k) => !isTextLitRaw k) = true := by
  decide +kernel

theorem wordKind_not_textLiteral (w : Bytes) : isTextLitRaw (wordKind w) = false := by
  unfold wordKind
  split
  · split
    · rename_i cand k heq
      split
      · have hall := lookupTable_no_textLiteral
        rw [List.all_eq_true] at hall
        by_cases hlt : hashKeyword w < lookupTable.length
        · have hmem : (some (cand, k)) ∈ lookupTable := by
            rw [List.getD_eq_getElem?_getD, List.getElem?_eq_getElem hlt] at heq
            simp at heq
            rw [← heq]; exact List.getElem_mem hlt
          have := hall _ hmem
          simpa using this
        · rw [List.getD_eq_getElem?_getD, List.getElem?_eq_none (by omega)] at heq
          simp at heq
      · rfl
    · rfl
  · rfl

theorem dirKind_not_textLiteral (k : Option ConditionalDirectiveKind) : isTextLitRaw (dirKind k) = false := by
  cases k <;> rfl

theorem asmTextLiteralRest_not_multi (l : Bytes) : (asmTextLiteralRest l).2 ≠ .tMultiLine := by
  fun_induction asmTextLiteralRest l <;> simp_all

theorem runSub_multi (st : LexState) (sub : SubLexer) (b : UInt8) (r : Bytes) (nlb : Bool)
    (trimF : Unit → Nat) (simd : Bool) (o : LexOut)
    (h : runSub st sub b r nlb trimF simd = some o) (hk : o.kind = .rTextLiteral .tMultiLine) :
    textLiteral (b :: r) = (o.len, .tMultiLine) := by
  unfold runSub at h
  cases sub <;> simp only at h
  all_goals first
    | (simp at h; rw [← h] at hk; simp at hk; done)
    | ((repeat' split at h) <;> (simp at h; rw [← h] at hk; simp at hk); done)
    | skip
  case identifier_or_keyword =>
    simp at h; rw [← h] at hk; simp only at hk
    split at hk
    · cases hk
    · have := wordKind_not_textLiteral ((b :: r).take (1 + (if simd then identLenSimd (r.length + 1) r else identLen r)))
      rw [hk] at this; cases this
  case l_brace =>
    split at h
    · simp only [Option.map_eq_some_iff] at h
      obtain ⟨⟨n, k⟩, _, hk'⟩ := h
      rw [← hk'] at hk
      have := dirKind_not_textLiteral k
      simp only at hk
      rw [hk] at this; cases this
    · simp at h; rw [← h] at hk; simp at hk
  case l_paren =>
    split at h
    · simp only [Option.map_eq_some_iff] at h
      obtain ⟨⟨n, k⟩, _, hk'⟩ := h
      rw [← hk'] at hk
      have := dirKind_not_textLiteral k
      simp only at hk
      rw [hk] at this; cases this
    · simp at h; rw [← h] at hk; simp at hk
    · simp at h; rw [← h] at hk; simp at hk
    · simp at h; rw [← h] at hk; simp at hk
  case text_literal =>
    simp at h; rw [← h] at hk ⊢
    injection hk with hk
    simp only
    rw [← hk]
  case asm_text_literal =>
    simp at h; rw [← h] at hk
    injection hk with hk
    exact absurd hk (asmTextLiteralRest_not_multi r)

theorem lexOne_multi (simd : Bool) (st : LexState) (inp : Bytes) (ws e : Nat) (st' : LexState)
    (h : lexOne simd st inp = some (some (ws, e, .rTextLiteral .tMultiLine, st'))) (hle : e ≤ inp.length) :
    ∃ rest, textLiteral ((inp.take e).drop ws ++ rest) = (((inp.take e).drop ws).length, .tMultiLine) := by
  unfold lexOne at h
  simp only at h
  split at h
  · simp at h
  · rename_i b r hd
    split at h
    · simp at h
    · rename_i o ho
      simp at h
      obtain ⟨h1, h2, h3, _⟩ := h
      have hm := runSub_multi _ _ _ _ _ _ _ _ ho h3
      refine ⟨(b :: r).drop o.len, ?_⟩
      have hlen : (inp.drop ws).length = inp.length - ws := by simp
      have e1 : (inp.take e).drop ws = (b :: r).take o.len := by
        rw [List.drop_take, ← h1, hd, ← h2]
        congr 1; omega
      rw [e1, List.take_append_drop, hm]
      congr 1
      rw [List.length_take]
      have : (b :: r).length = inp.length - ws := by rw [← hd, h1]; simp
      omega

/-- **every token the scanner types `TextLiteral(MultiLine)` ends in a quote**: its text, standing in front of some
    rest, is read by the text-literal sub-lexer as one multi-line literal of exactly that length -/
theorem lexFuel_multi (simd : Bool) (fuel : Nat) (st : LexState) (inp : Bytes) (toks : List RawTok)
    (h : lexFuel simd fuel st inp = some toks) :
    ∀ t ∈ toks, t.kind = .rTextLiteral .tMultiLine →
      ∃ rest, textLiteral (t.content ++ rest) = (t.content.length, .tMultiLine) := by
  induction fuel generalizing st inp toks with
  | zero => simp [lexFuel] at h
  | succ n ih =>
    unfold lexFuel at h
    split at h
    · simp at h
    · simp at h; subst h
      intro t ht hk
      simp at ht; subst ht; cases hk
    · rename_i ws e kind st' hone
      split at h
      · rename_i hcond
        split at h
        · simp at h
        · rename_i rest hrest
          simp at h; subst h
          intro t ht hk
          simp at ht
          rcases ht with rfl | ht
          · simp only at hk
            subst hk
            exact lexOne_multi simd st inp ws e st' hone ((leLength_iff _ _).1 hcond.2)
          · exact ih _ _ _ hrest t ht hk
      · simp at h

theorem lex_multi_ends_quote (s : Bytes) (raw : List RawTok) (h : lex s = some raw) :
    ∀ t ∈ raw, t.kind = .rTextLiteral .tMultiLine → t.content.getLast? = some 0x27 := by
  intro t ht hk
  obtain ⟨rest, hr⟩ := lexFuel_multi false _ _ _ _ h t ht hk
  exact MlsMore.multi_ends_quote t.content rest hr

/-! ### the token rules before the wrapper stage -/

/-- the kinds whose text a token rule may rewrite: keywords (`LowercaseKeywords`), line comments and directives
    (`CommentFormatter`) -/
def ruleKind : Kind → Bool
  | .tKeyword _ => true
  | .tCompilerDirective => true
  | .tConditionalDirective _ => true
  | .tComment .cInlineLine => true
  | .tComment .cIndividualLine => true
  | _ => false

theorem ruleKind_textLiteral (k : TextLiteralKind) : ruleKind (.tTextLiteral k) = false := rfl

theorem setContent_ignored (t : FTok) (c : Bytes) (h : t.fmt.ignored = true) : t.setContent c = t := by
  unfold FTok.setContent; simp [h]

theorem lowercaseTok_keep (t : FTok) (h : ruleKind t.tok.kind = false ∨ t.fmt.ignored = true) : lowercaseTok t = t := by
  unfold lowercaseTok
  split
  · rename_i hc
    rcases h with h | h
    · simp only [Bool.and_eq_true] at hc
      have hk := hc.1
      unfold isKeywordKind at hk
      split at hk
      · rename_i heq; rw [heq] at h; cases h
      · cases hk
    · exact setContent_ignored t _ h
  · rfl

theorem commentFormatTok_keep (U : Bytes → Bool) (t : FTok) (h : ruleKind t.tok.kind = false ∨ t.fmt.ignored = true) :
    commentFormatTok U t = t := by
  rcases h with h | h
  · unfold commentFormatTok
    split
    · rename_i heq; rw [heq] at h; cases h
    · rename_i heq; rw [heq] at h; cases h
    · rename_i heq; rw [heq] at h; cases h
    · rename_i heq; rw [heq] at h; cases h
    · rfl
  · unfold commentFormatTok
    split
    · split
      · exact setContent_ignored t _ h
      · rfl
    · split
      · exact setContent_ignored t _ h
      · rfl
    · split
      · exact setContent_ignored t _ h
      · rfl
    · split
      · exact setContent_ignored t _ h
      · rfl
    · rfl

theorem lowercaseTok_kind_fmt (t : FTok) : (lowercaseTok t).tok.kind = t.tok.kind ∧ (lowercaseTok t).fmt = t.fmt := by
  unfold lowercaseTok
  split
  · exact ⟨setContent_kind _ _, setContent_fmt _ _⟩
  · exact ⟨rfl, rfl⟩

theorem commentFormatTok_kind_fmt (U : Bytes → Bool) (t : FTok) :
    (commentFormatTok U t).tok.kind = t.tok.kind ∧ (commentFormatTok U t).fmt = t.fmt := by
  unfold commentFormatTok
  split
  · split
    · exact ⟨setContent_kind _ _, setContent_fmt _ _⟩
    · exact ⟨rfl, rfl⟩
  · split
    · exact ⟨setContent_kind _ _, setContent_fmt _ _⟩
    · exact ⟨rfl, rfl⟩
  · split
    · exact ⟨setContent_kind _ _, setContent_fmt _ _⟩
    · exact ⟨rfl, rfl⟩
  · split
    · exact ⟨setContent_kind _ _, setContent_fmt _ _⟩
    · exact ⟨rfl, rfl⟩
  · exact ⟨rfl, rfl⟩

/-- **the token rules keep literals**: a token that is ignored, or whose kind is not keyword / line comment /
    directive - every text literal - leaves the two text-rewriting rules exactly as it entered them -/
theorem rules_keep_tok (U : Bytes → Bool) (t : FTok) (h : ruleKind t.tok.kind = false ∨ t.fmt.ignored = true) :
    commentFormatTok U (lowercaseTok t) = t := by
  rw [lowercaseTok_keep t h, commentFormatTok_keep U t h]

/-- a formatted token relative to the scanned token it came from: if it is ignored or of a kind no text rule
    handles, it still has the scanned text -/
def PreRel (r : RawTok) (t : FTok) : Prop :=
  (ruleKind t.tok.kind = false ∨ t.fmt.ignored = true) → t.tok.content = r.content

theorem retype_content (raw : List RawTok) (kinds : List Kind) :
    All2 (fun (r : RawTok) (t : Tok) => t.content = r.content) raw (retype raw kinds) := by
  induction raw generalizing kinds with
  | nil => exact .nil
  | cons r rs ih =>
    cases kinds with
    | nil => rw [retype]; exact .cons rfl (ih [])
    | cons k ks => rw [retype]; exact .cons rfl (ih ks)

/-- **before the wrapper stage**: as many tokens as scanned, and every token that is ignored or not of a kind the
    text rules handle has its scanned text -/
theorem preWrap_keeps (O : Oracles) (raw : List RawTok) : All2 PreRel raw (preWrap O raw).2.2 := by
  unfold preWrap
  simp only
  have h0 : All2 PreRel raw (FT.new (retype raw (O.parser raw).kinds)
      (fun i => (ignoredMarks (retype raw (O.parser raw).kinds) (O.parser raw).lines).getD i false)) := by
    unfold FT.new
    exact All2.zipIdx_map_right _ 0 (retype_content raw _) (fun r t i h _ => h)
  have h1 : All2 PreRel raw (tokenSpacing (FT.new (retype raw (O.parser raw).kinds)
      (fun i => (ignoredMarks (retype raw (O.parser raw).kinds) (O.parser raw).lines).getD i false))) := by
    unfold tokenSpacing
    exact All2.zipIdx_map_right _ 0 h0 (fun r t i h => h)
  have h2 := All2.map_right (S := PreRel) lowercaseTok h1 (by
    intro r t h hp
    have hkf := lowercaseTok_kind_fmt t
    rw [hkf.1, hkf.2] at hp
    rw [lowercaseTok_keep t hp]; exact h hp)
  have h3 := All2.map_right (S := PreRel) (commentFormatTok O.alnum) h2 (by
    intro r t h hp
    have hkf := commentFormatTok_kind_fmt O.alnum t
    rw [hkf.1, hkf.2] at hp
    rw [commentFormatTok_keep O.alnum t hp]; exact h hp)
  unfold eofNewline
  split
  · refine All2.zipIdx_map_right _ 0 h3 ?_
    intro r t i h
    simp only
    split
    · exact h
    · exact h
  · exact h3

/-! ### kinds before the wrapper stage -/

theorem retype_getElem? (raw : List RawTok) (kinds : List Kind) (j : Nat) (r : RawTok) (k : Kind)
    (hj : raw[j]? = some r) (hk : kinds[j]? = some k) :
    (retype raw kinds)[j]? = some { ws := r.ws, content := r.content, kind := k } := by
  induction raw generalizing kinds j with
  | nil => simp at hj
  | cons x rs ih =>
    cases kinds with
    | nil => simp at hk
    | cons k0 ks =>
      rw [retype]
      cases j with
      | zero => simp at hj hk; subst hj; subst hk; simp
      | succ n => simp at hj hk; simpa using ih ks n hj hk

/-- the token rules keep every kind: before the wrapper stage token `j` has the kind the parser gave it -/
theorem preWrap_kind (O : Oracles) (raw : List RawTok) (j : Nat) (r : RawTok) (k : Kind)
    (hj : raw[j]? = some r) (hk : (O.parser raw).kinds[j]? = some k) :
    ∃ t, (preWrap O raw).2.2[j]? = some t ∧ t.tok.kind = k := by
  have hall : All2 (fun (a : Tok) (t : FTok) => t.tok.kind = a.kind) (retype raw (O.parser raw).kinds)
      (preWrap O raw).2.2 := by
    unfold preWrap
    simp only
    have h0 : All2 (fun (a : Tok) (t : FTok) => t.tok.kind = a.kind) (retype raw (O.parser raw).kinds)
        (FT.new (retype raw (O.parser raw).kinds)
          (fun i => (ignoredMarks (retype raw (O.parser raw).kinds) (O.parser raw).lines).getD i false)) := by
      unfold FT.new
      exact All2.zipIdx_map_right _ 0 (all2_refl (R := fun (a b : Tok) => b = a) (fun _ => rfl) _)
        (fun a b i h => by simp only; rw [h])
    have h1 : All2 (fun (a : Tok) (t : FTok) => t.tok.kind = a.kind) (retype raw (O.parser raw).kinds)
        (tokenSpacing (FT.new (retype raw (O.parser raw).kinds)
          (fun i => (ignoredMarks (retype raw (O.parser raw).kinds) (O.parser raw).lines).getD i false))) := by
      unfold tokenSpacing
      exact All2.zipIdx_map_right _ 0 h0 (fun r t i h => h)
    have h2 := All2.map_right (S := fun (a : Tok) (t : FTok) => t.tok.kind = a.kind) lowercaseTok h1
      (fun a t h => by rw [(lowercaseTok_kind_fmt t).1]; exact h)
    have h3 := All2.map_right (S := fun (a : Tok) (t : FTok) => t.tok.kind = a.kind) (commentFormatTok O.alnum) h2
      (fun a t h => by rw [(commentFormatTok_kind_fmt O.alnum t).1]; exact h)
    unfold eofNewline
    split
    · refine All2.zipIdx_map_right _ 0 h3 ?_
      intro r t i h
      simp only
      split
      · exact h
      · exact h
    · exact h3
  obtain ⟨t, ht, hkt⟩ := all2_getElem? hall (retype_getElem? raw _ j r k hj hk)
  exact ⟨t, ht, hkt⟩

/-! ### the whole formatter -/

/-- the stages of the closed model, spelled out: whenever the formatter answers, its answer is the reconstruction of a
    final token state `ftz` that the wrapper stage made of the state `ft1` the token rules left; in `ft1` every scanned
    text literal is still typed text literal (the parser and the consolidators never retype one:
    `Proofs/ParserLiterals.lean`) -/
theorem formatFull_stages (cfg : Config) (alnum : Bytes → Bool) (s out : Bytes) (h : formatFull cfg alnum s = some out) :
    ∃ (raw : List RawTok) (lines : List Line) (ft1 ftz : FT) (sols : List (Nat × Nat × Sol)),
      lex s = some raw ∧ All2 PreRel raw ft1 ∧ wrapStageFull cfg lines ft1 = some (ftz, sols) ∧
      out = reconstruct cfg.settings ftz ∧
      ∀ (j : Nat) (r : RawTok) (k : TextLiteralKind), raw[j]? = some r → r.kind = .rTextLiteral k →
        ∃ t, ft1[j]? = some t ∧ t.tok.kind = .tTextLiteral k := by
  unfold formatFull at h
  split at h
  · simp at h
  · rename_i raw hl
    unfold formatTokensFull at h
    split at h
    · simp at h
    · rename_i po hpo
      simp only at h
      split at h
      · simp at h
      · rename_i ftz sols hw
        simp at h
        refine ⟨raw, _, _, ftz, sols, hl, preWrap_keeps _ raw, hw, h.symm, ?_⟩
        intro j r k hj hk
        exact preWrap_kind { parser := fun _ => po, wrap := fun _ _ ft => ft, alnum := alnum } raw j r (.tTextLiteral k) hj
          (ParserLit.parseAndConsolidate_keeps_literals raw po hpo j r k hj hk)

/-- everything C12 says about one scanned multi-line literal `r` and the final token `tz` at the same position -/
structure LiteralKept (cfg : Config) (r : RawTok) (tz : FTok) : Prop where
  /-- the token is still typed multi-line literal -/
  kind : tz.tok.kind = .tTextLiteral .tMultiLine
  /-- the text still ends in a quote -/
  ends : tz.tok.content.getLast? = some 0x27
  /-- in a verbatim region the text is the scanned text -/
  ignored : tz.fmt.ignored = true → tz.tok.content = r.content
  /-- the text is the scanned text after at most two applications of the re-indenter: none; or one; or two, the second
      one with the counters the token has in the end -/
  outcome : tz.tok.content = r.content ∨
    (tz.fmt.ignored = false ∧ cfg.fmtMls = true ∧
      ((∃ i k, mlsRewrite cfg.settings r.content i k = some tz.tok.content) ∨
       (∃ i k c1, mlsRewrite cfg.settings r.content i k = some c1 ∧
          mlsRewrite cfg.settings c1 tz.fmt.ind tz.fmt.cont = some tz.tok.content)))
  /-- hence a chain of at most two applications -/
  chain : ∃ k, k ≤ 2 ∧ MlsChain cfg.settings k r.content tz.tok.content
  /-- the value of the literal is unchanged -/
  value : literalValue tz.tok.content = literalValue r.content
  /-- with `format_multiline_strings = false` the text is the scanned text -/
  off : cfg.fmtMls = false → tz.tok.content = r.content
  /-- a literal that the re-indenter rejects (for all counters) is reproduced byte for byte -/
  rejected : (∀ ind cont, mlsRewrite cfg.settings r.content ind cont = none) → tz.tok.content = r.content

/-- **C12 for the closed model of the whole formatter.**  Whenever the formatter answers, its answer is the
    reconstruction of a final token state with as many tokens as were scanned, and every token that the scanner
    typed `TextLiteral(MultiLine)` is kept in the sense of `LiteralKept`. -/
theorem formatFull_literals (cfg : Config) (alnum : Bytes → Bool) (s out : Bytes) (h : formatFull cfg alnum s = some out) :
    ∃ (raw : List RawTok) (ftz : FT), lex s = some raw ∧ out = reconstruct cfg.settings ftz ∧
      ftz.length = raw.length ∧
      ∀ (j : Nat) (r : RawTok), raw[j]? = some r → r.kind = .rTextLiteral .tMultiLine →
        ∃ tz, ftz[j]? = some tz ∧ LiteralKept cfg r tz := by
  obtain ⟨raw, lines, ft1, ftz, sols, hl, hpre, hw, hout, hkinds⟩ := formatFull_stages cfg alnum s out h
  have hlen : ftz.length = ft1.length := (all2_length (wrapStageFull_reach cfg lines ft1 ftz sols hw)).symm
  refine ⟨raw, ftz, hl, hout, hlen.trans (all2_length hpre).symm, ?_⟩
  intro j r hj hk
  have hq : r.content.getLast? = some 0x27 := lex_multi_ends_quote s raw hl r (List.mem_of_getElem? hj) hk
  obtain ⟨t1, hj1, hp1⟩ := all2_getElem? hpre hj
  obtain ⟨t1', hj1', hk1⟩ := hkinds j r .tMultiLine hj hk
  rw [hj1] at hj1'; cases hj1'
  have hc1 : t1.tok.content = r.content := hp1 (Or.inl (by rw [hk1]; rfl))
  obtain ⟨tz, hjz, hkz, hiz, ho⟩ := wrapStageFull_at cfg lines ft1 ftz sols hw j t1 hj1 (fun _ => by rw [hc1]; exact hq)
  refine ⟨tz, hjz, ?_⟩
  have hchain : ∃ k, k ≤ 2 ∧ MlsChain cfg.settings k r.content tz.tok.content := by
    rw [← hc1]; exact ho.chain
  obtain ⟨k, _, hc⟩ := hchain
  have hv := chain_value (settings_ok cfg) hq hc
  refine ⟨hkz.trans hk1, hv.1, ?_, ?_, ⟨k, ‹_›, hc⟩, hv.2, ?_, fun hrej => chain_rejected hrej hc⟩
  · intro hi
    rw [ho.frozen (Or.inl (by rw [← hiz]; exact hi))]
    exact hc1
  · rcases ho with he | ⟨h1, _, h3, h4⟩
    · exact Or.inl (by rw [he]; exact hc1)
    · rw [hc1] at h4
      exact Or.inr ⟨by rw [hiz]; exact h1, h3, h4⟩
  · intro hoff
    rw [ho.frozen (Or.inr (Or.inr hoff))]
    exact hc1

end Pasfmt.MlsPipe
