import PasfmtModel.Model.Lexer

namespace Pasfmt

/-- the lane predicate computed with signed compares equals the scalar byte class on ASCII bytes
    (checked for all 256 byte values) -/
theorem laneIdent_eq_all : ∀ n : Fin 256, UInt8.ofNat n.val < 0x80 →
    laneIdent (UInt8.ofNat n.val) = isIdentAscii (UInt8.ofNat n.val) := by
  decide +kernel

theorem laneIdent_eq (b : UInt8) (h : b < 0x80) : laneIdent b = isIdentAscii b := by
  have := laneIdent_eq_all ⟨b.toNat, b.toNat_lt⟩
  simp only [UInt8.ofNat_toNat] at this
  exact this h

/-- a byte `< 0x80` cannot start `E3 80 80`, so `identLen` steps over it like the scalar class -/
theorem identLen_cons_ascii (b : UInt8) (r : Bytes) (h : b < 0x80) :
    identLen (b :: r) = if isIdentAscii b then identLen r + 1 else 0 := by
  have hne : b ≠ 0xE3 := by intro hb; subst hb; exact absurd h (by decide)
  rw [identLen.eq_3]
  · have : ¬ b ≥ 0x80 := by simpa using h
    simp [this]
  · intro r' hb; exact absurd hb hne

/-- on an all-ASCII prefix `c`, `identLen` agrees with counting lane bits -/
theorem identLen_ascii_chunk (c rest : Bytes) (hc : ∀ b ∈ c, b < 0x80) :
    identLen (c ++ rest) =
      if countWhile laneIdent c < c.length then countWhile laneIdent c
      else c.length + identLen rest := by
  induction c with
  | nil => simp [countWhile]
  | cons b r ih =>
    have hb : b < 0x80 := hc b (by simp)
    have hr : ∀ x ∈ r, x < 0x80 := fun x hx => hc x (by simp [hx])
    rw [List.cons_append, identLen_cons_ascii _ _ hb, countWhile, laneIdent_eq b hb]
    by_cases hi : isIdentAscii b = true
    · simp only [hi, if_true, List.length_cons]
      rw [ih hr]
      by_cases hlt : countWhile laneIdent r < r.length
      · simp [hlt]
      · simp [hlt]; omega
    · simp [hi]

theorem any_ge80_false_iff (c : Bytes) : c.any (fun b => b ≥ 0x80) = false ↔ ∀ b ∈ c, b < 0x80 := by
  simp [List.any_eq_false]

/-- `find_identifier_end_avx2` and `find_identifier_end_generic` return the same offset on
    every byte string, for every chunk count. -/
theorem identLenSimd_eq (fuel : Nat) (l : Bytes) : identLenSimd fuel l = identLen l := by
  induction fuel generalizing l with
  | zero => rfl
  | succ n ih =>
    unfold identLenSimd
    split
    · rename_i hlen
      dsimp only
      split
      · rfl
      · rename_i hany
        have hascii : ∀ b ∈ l.take simdChunkBytes, b < 0x80 := by
          have := (any_ge80_false_iff (l.take simdChunkBytes)).1 (by simpa using hany)
          exact this
        have hsplit := identLen_ascii_chunk (l.take simdChunkBytes) (l.drop simdChunkBytes) hascii
        rw [List.take_append_drop] at hsplit
        have hl : (l.take simdChunkBytes).length = simdChunkBytes := by
          rw [List.length_take]; omega
        rw [hl] at hsplit
        split
        · rename_i hlt; rw [hsplit]; simp [hlt]
        · rename_i hlt; rw [hsplit, ih]; simp [hlt]
    · rfl

end Pasfmt

namespace Pasfmt

theorem runSub_simd (st : LexState) (sub : SubLexer) (b : UInt8) (r : Bytes) (nlb : Bool)
    (trimF : Unit → Nat) :
    runSub st sub b r nlb trimF true = runSub st sub b r nlb trimF false := by
  unfold runSub
  simp only [identLenSimd_eq, if_true, Bool.false_eq_true, if_false]

theorem lexOne_simd (st : LexState) (inp : Bytes) : lexOne true st inp = lexOne false st inp := by
  unfold lexOne
  simp only [runSub_simd]

theorem lexFuel_simd (fuel : Nat) (st : LexState) (inp : Bytes) :
    lexFuel true fuel st inp = lexFuel false fuel st inp := by
  induction fuel generalizing st inp with
  | zero => rfl
  | succ n ih =>
    unfold lexFuel
    rw [lexOne_simd]
    simp only [ih]

/-- whichever identifier routine is selected at run time, the token stream is the same -/
theorem lexWith_simd (s : Bytes) : lexWith true s = lexWith false s := lexFuel_simd _ _ _

end Pasfmt
