/-
  The invariant of `Proofs/ParserParentsFlow.lean` for the mutually recursive functions of `Model/ParserFull.lean`
  (induction on the fuel: `allGood`), for `parse` (`parse_lines`) and for every pass of `parse_file`
  (`passLines_ok`).  Consequences, for every answer of `parseFileFull`: `parentsOk` holds (`parentsOk_holds`), hence
  the parent clause of C14 for the final lines (`final_parents`); no pass has two lines typed `Eof`, hence the
  hypothesis of the end-of-file clause can be weakened to `eofLineInEveryPass` (`eofOk_iff`, `final_single_eof_line'`).
-/
import PasfmtModel.Proofs.ParserParentsFlow

namespace Pasfmt.Parents

open PFull

/-- the invariant holds for every function of the mutual block, called with fuel `n` -/
structure AllGood (E : EofSpec) (n : Nat) : Prop where
  parseStructures : ∀ V, Good E V (PFull.parseStructures n)
  parseAsmBlock : ∀ V, Good E V (PFull.parseAsmBlock n)
  doWithContext : ∀ V ctx act, lvlIn V ctx.level → Good E V (PFull.doWithContext n ctx act)
  runAction : ∀ V act, Good E V (PFull.runAction n act)
  parseRoutine : ∀ V, Good E V (PFull.parseRoutine n)
  parseBeginEnd : ∀ V lvl, lvlIn V lvl → Good E V (PFull.parseBeginEnd n lvl)
  parseBeginEndP : ∀ V p, GoodP E p V (PFull.parseBeginEnd n (.parent p 1))
  parseStatementListBlock : ∀ V ctx, lvlIn V ctx.level → Good E V (PFull.parseStatementListBlock n ctx)
  parseStatementBlockWithKind : ∀ V ctx k, lvlIn V ctx.level → Good E V (PFull.parseStatementBlockWithKind n ctx k)
  parseBlock : ∀ V ctx, lvlIn V ctx.level → Good E V (PFull.parseBlock n ctx)
  parseStatementListWithType : ∀ V ct, Good E V (PFull.parseStatementListWithType n ct)
  parseStatementListWithTypeAndPredicate : ∀ V ct p, Good E V (PFull.parseStatementListWithTypeAndPredicate n ct p)
  parseCommentLines : ∀ V, Good E V (PFull.parseCommentLines n)
  parseImportClause : ∀ V, Good E V (PFull.parseImportClause n)
  parseCaseStatement : ∀ V, Good E V (PFull.parseCaseStatement n)
  parseLineSection : ∀ V ctx, lvlIn V ctx.level → Good E V (PFull.parseLineSection n ctx)
  parseStatement : ∀ V, Good E V (PFull.parseStatement n)
  parseAnonymousRoutine : ∀ V, Good E V (PFull.parseAnonymousRoutine n)
  parseAnonymousRoutineGo : ∀ V p, p ∈ V → Good E V (PFull.parseAnonymousRoutineGo n p)
  parseCaseArm : ∀ V p, p ∈ V → Good E V (PFull.parseCaseArm n p)
  parseVariantRecordFields : ∀ V, Good E V (PFull.parseVariantRecordFields n)
  parseParens : ∀ V, Good E V (PFull.parseParens n)
  parseParensGo : ∀ V, Good E V (PFull.parseParensGo n)
  parseVariantRecord : ∀ V, Good E V (PFull.parseVariantRecord n)
  parseIfThen : ∀ V, Good E V (PFull.parseIfThen n)
  parseDoStatement : ∀ V k, Good E V (PFull.parseDoStatement n k)

/-- goals about the functions of the mutual block at the smaller fuel -/
macro "good_ih" ih:ident : tactic =>
  `(tactic| with_reducible first
    | exact AllGood.parseStructures $ih _
    | exact AllGood.parseAsmBlock $ih _
    | (refine AllGood.doWithContext $ih _ _ _ ?_; lvl_side)
    | exact AllGood.runAction $ih _ _
    | exact AllGood.parseRoutine $ih _
    | (refine AllGood.parseBeginEnd $ih _ _ ?_; lvl_side)
    | exact AllGood.parseBeginEndP $ih _ _
    | (refine AllGood.parseStatementListBlock $ih _ _ ?_; lvl_side)
    | (refine AllGood.parseStatementBlockWithKind $ih _ _ _ ?_; lvl_side)
    | (refine AllGood.parseBlock $ih _ _ ?_; lvl_side)
    | exact AllGood.parseStatementListWithType $ih _ _
    | exact AllGood.parseStatementListWithTypeAndPredicate $ih _ _ _
    | exact AllGood.parseCommentLines $ih _
    | exact AllGood.parseImportClause $ih _
    | exact AllGood.parseCaseStatement $ih _
    | (refine AllGood.parseLineSection $ih _ _ ?_; lvl_side)
    | exact AllGood.parseStatement $ih _
    | exact AllGood.parseAnonymousRoutine $ih _
    | (refine AllGood.parseAnonymousRoutineGo $ih _ _ ?_; lvl_side)
    | (refine AllGood.parseCaseArm $ih _ _ ?_; lvl_side)
    | exact AllGood.parseVariantRecordFields $ih _
    | exact AllGood.parseParens $ih _
    | exact AllGood.parseParensGo $ih _
    | exact AllGood.parseVariantRecord $ih _
    | exact AllGood.parseIfThen $ih _
    | exact AllGood.parseDoStatement $ih _ _)

macro "goodm" ih:ident : tactic =>
  `(tactic| repeat' (first | good_ih $ih | good_leaf | good_struct | (with_reducible refine GoodP.bind ?_ ?_) | dsimp only | split))

theorem step_parseIfThen (E : EofSpec) (n : Nat) (ih : AllGood E n) : ∀ V, Good E V (parseIfThen (n + 1)) := by
  intro V; rw [parseIfThen]; goodm ih

theorem step_parseDoStatement (E : EofSpec) (n : Nat) (ih : AllGood E n) : ∀ V k, Good E V (parseDoStatement (n + 1) k) := by
  intro V k; rw [parseDoStatement]; goodm ih

theorem step_parseAnonymousRoutineGo (E : EofSpec) (n : Nat) (ih : AllGood E n) :
    ∀ V p, p ∈ V → Good E V (parseAnonymousRoutineGo (n + 1) p) := by
  intro V p hp; rw [parseAnonymousRoutineGo]; goodm ih

theorem step_parseStructures (E : EofSpec) (n : Nat) (ih : AllGood E n) : ∀ V, Good E V (parseStructures (n + 1)) := by
  intro V; rw [parseStructures]; goodm ih

theorem step_parseAsmBlock (E : EofSpec) (n : Nat) (ih : AllGood E n) : ∀ V, Good E V (parseAsmBlock (n + 1)) := by
  intro V; rw [parseAsmBlock]; goodm ih

theorem step_doWithContext (E : EofSpec) (n : Nat) (ih : AllGood E n) :
    ∀ V ctx act, lvlIn V ctx.level → Good E V (doWithContext (n + 1) ctx act) := by
  intro V ctx act hc
  rw [doWithContext]
  cases hlv : ctx.level with
  | level d =>
    simp only [ParserContextLevel.parent?, Option.isSome, Bool.false_eq_true, ↓reduceIte]
    goodm ih
  | parent p d =>
    rw [hlv] at hc
    simp only [ParserContextLevel.parent?, Option.isSome, ↓reduceIte]
    have hpush : Good E V (prim (.pushLine p)) :=
      good_prim E V _ (by intro q hq; simp only [opParent, Option.some.injEq] at hq; subst hq; exact hc)
        (fun _ => by intro h; cases h)
    have hctx : lvlIn V ctx.level := by rw [hlv]; exact hc
    goodm ih

theorem step_runAction (E : EofSpec) (n : Nat) (ih : AllGood E n) : ∀ V act, Good E V (runAction (n + 1) act) := by
  intro V act; cases act <;> (rw [runAction]; goodm ih)

theorem step_parseRoutine (E : EofSpec) (n : Nat) (ih : AllGood E n) : ∀ V, Good E V (parseRoutine (n + 1)) := by
  intro V; rw [parseRoutine]; goodm ih

theorem step_parseBeginEnd (E : EofSpec) (n : Nat) (ih : AllGood E n) : ∀ V lvl, lvlIn V lvl → Good E V (parseBeginEnd (n + 1) lvl) := by
  intro V lvl hl; rw [parseBeginEnd]; goodm ih

theorem step_parseBeginEndP (E : EofSpec) (n : Nat) (ih : AllGood E n) : ∀ V p, GoodP E p V (parseBeginEnd (n + 1) (.parent p 1)) := by
  intro V p; rw [parseBeginEnd]; goodm ih

theorem step_parseStatementListBlock (E : EofSpec) (n : Nat) (ih : AllGood E n) :
    ∀ V ctx, lvlIn V ctx.level → Good E V (parseStatementListBlock (n + 1) ctx) := by
  intro V ctx hc; rw [parseStatementListBlock]; goodm ih

theorem step_parseStatementBlockWithKind (E : EofSpec) (n : Nat) (ih : AllGood E n) :
    ∀ V ctx k, lvlIn V ctx.level → Good E V (parseStatementBlockWithKind (n + 1) ctx k) := by
  intro V ctx k hc; rw [parseStatementBlockWithKind]; goodm ih

theorem step_parseBlock (E : EofSpec) (n : Nat) (ih : AllGood E n) : ∀ V ctx, lvlIn V ctx.level → Good E V (parseBlock (n + 1) ctx) := by
  intro V ctx hc; rw [parseBlock]; goodm ih

theorem step_parseStatementListWithType (E : EofSpec) (n : Nat) (ih : AllGood E n) :
    ∀ V ct, Good E V (parseStatementListWithType (n + 1) ct) := by
  intro V ct; rw [parseStatementListWithType]; goodm ih

theorem step_parseStatementListWithTypeAndPredicate (E : EofSpec) (n : Nat) (ih : AllGood E n) :
    ∀ V ct p, Good E V (parseStatementListWithTypeAndPredicate (n + 1) ct p) := by
  intro V ct p; rw [parseStatementListWithTypeAndPredicate]; goodm ih

theorem step_parseCommentLines (E : EofSpec) (n : Nat) (ih : AllGood E n) : ∀ V, Good E V (parseCommentLines (n + 1)) := by
  intro V; rw [parseCommentLines]; goodm ih

theorem step_parseImportClause (E : EofSpec) (n : Nat) (ih : AllGood E n) : ∀ V, Good E V (parseImportClause (n + 1)) := by
  intro V; rw [parseImportClause]; goodm ih

theorem step_parseCaseStatement (E : EofSpec) (n : Nat) (ih : AllGood E n) : ∀ V, Good E V (parseCaseStatement (n + 1)) := by
  intro V; rw [parseCaseStatement]; goodm ih

theorem step_parseLineSection (E : EofSpec) (n : Nat) (ih : AllGood E n) :
    ∀ V ctx, lvlIn V ctx.level → Good E V (parseLineSection (n + 1) ctx) := by
  intro V ctx hc; rw [parseLineSection]; goodm ih

/-- as `goodm`, with a fact about a join point of the `do` block -/
macro "goodj" ih:ident hjp:ident : tactic =>
  `(tactic| repeat' (first | (with_reducible exact $hjp _ _) | good_ih $ih | good_leaf | good_struct | (with_reducible refine GoodP.bind ?_ ?_) | dsimp only | split))

set_option maxHeartbeats 1000000 in
theorem step_parseStatement (E : EofSpec) (n : Nat) (ih : AllGood E n) : ∀ V, Good E V (parseStatement (n + 1)) := by
  intro V
  rw [parseStatement]
  refine Good.bind (Good.get _ _) ?_
  intro s
  split
  · -- the rest of the function after the prologue is a join point: deal with it once
    extract_lets -underBinder +onlyGivenNames jp
    have hjp : ∀ V' r, Good E V' (jp r) := by
      intro V' r
      simp only [jp]
      goodm ih
    clear_value jp
    goodj ih hjp
    -- left: the line type chosen from the context type is not `Eof`
    refine good_setLogicalLineType _ _ _ ?_
    intro _ hc
    subst hc
    rename_i heq
    split at heq <;> simp at heq
  · exact Good.pure _ _ _

theorem step_parseAnonymousRoutine (E : EofSpec) (n : Nat) (ih : AllGood E n) : ∀ V, Good E V (parseAnonymousRoutine (n + 1)) := by
  intro V; rw [parseAnonymousRoutine]; goodm ih

theorem step_parseCaseArm (E : EofSpec) (n : Nat) (ih : AllGood E n) : ∀ V p, p ∈ V → Good E V (parseCaseArm (n + 1) p) := by
  intro V p hp; rw [parseCaseArm]; goodm ih

theorem step_parseVariantRecordFields (E : EofSpec) (n : Nat) (ih : AllGood E n) : ∀ V, Good E V (parseVariantRecordFields (n + 1)) := by
  intro V; rw [parseVariantRecordFields]; goodm ih

theorem step_parseParens (E : EofSpec) (n : Nat) (ih : AllGood E n) : ∀ V, Good E V (parseParens (n + 1)) := by
  intro V; rw [parseParens]; goodm ih

theorem step_parseParensGo (E : EofSpec) (n : Nat) (ih : AllGood E n) : ∀ V, Good E V (parseParensGo (n + 1)) := by
  intro V; rw [parseParensGo]; goodm ih

theorem step_parseVariantRecord (E : EofSpec) (n : Nat) (ih : AllGood E n) : ∀ V, Good E V (parseVariantRecord (n + 1)) := by
  intro V; rw [parseVariantRecord]; goodm ih

/-- with no fuel every function of the mutual block panics -/
theorem allGood_zero (E : EofSpec) : AllGood E 0 where
  parseStructures := by intro V; rw [PFull.parseStructures]; exact Good.panic _ _
  parseAsmBlock := by intro V; rw [PFull.parseAsmBlock]; exact Good.panic _ _
  doWithContext := by intro V ctx act _; rw [PFull.doWithContext]; exact Good.panic _ _
  runAction := by intro V act; rw [PFull.runAction]; exact Good.panic _ _
  parseRoutine := by intro V; rw [PFull.parseRoutine]; exact Good.panic _ _
  parseBeginEnd := by intro V lvl _; rw [PFull.parseBeginEnd]; exact Good.panic _ _
  parseBeginEndP := by
    intro V p s a s' _ _ _ h
    rw [PFull.parseBeginEnd] at h
    simp [panic_] at h
  parseStatementListBlock := by intro V ctx _; rw [PFull.parseStatementListBlock]; exact Good.panic _ _
  parseStatementBlockWithKind := by intro V ctx k _; rw [PFull.parseStatementBlockWithKind]; exact Good.panic _ _
  parseBlock := by intro V ctx _; rw [PFull.parseBlock]; exact Good.panic _ _
  parseStatementListWithType := by intro V ct; rw [PFull.parseStatementListWithType]; exact Good.panic _ _
  parseStatementListWithTypeAndPredicate := by
    intro V ct p; rw [PFull.parseStatementListWithTypeAndPredicate]; exact Good.panic _ _
  parseCommentLines := by intro V; rw [PFull.parseCommentLines]; exact Good.panic _ _
  parseImportClause := by intro V; rw [PFull.parseImportClause]; exact Good.panic _ _
  parseCaseStatement := by intro V; rw [PFull.parseCaseStatement]; exact Good.panic _ _
  parseLineSection := by intro V ctx _; rw [PFull.parseLineSection]; exact Good.panic _ _
  parseStatement := by intro V; rw [PFull.parseStatement]; exact Good.panic _ _
  parseAnonymousRoutine := by intro V; rw [PFull.parseAnonymousRoutine]; exact Good.panic _ _
  parseAnonymousRoutineGo := by intro V p _; rw [PFull.parseAnonymousRoutineGo]; exact Good.panic _ _
  parseCaseArm := by intro V p _; rw [PFull.parseCaseArm]; exact Good.panic _ _
  parseVariantRecordFields := by intro V; rw [PFull.parseVariantRecordFields]; exact Good.panic _ _
  parseParens := by intro V; rw [PFull.parseParens]; exact Good.panic _ _
  parseParensGo := by intro V; rw [PFull.parseParensGo]; exact Good.panic _ _
  parseVariantRecord := by intro V; rw [PFull.parseVariantRecord]; exact Good.panic _ _
  parseIfThen := by intro V; rw [PFull.parseIfThen]; exact Good.panic _ _
  parseDoStatement := by intro V k; rw [PFull.parseDoStatement]; exact Good.panic _ _

/-- **every function of the parser model keeps parent references meaningful**, whatever the fuel -/
theorem allGood (E : EofSpec) : ∀ n, AllGood E n
  | 0 => allGood_zero E
  | n + 1 =>
    have ih := allGood E n
    { parseStructures := step_parseStructures E n ih
      parseAsmBlock := step_parseAsmBlock E n ih
      doWithContext := step_doWithContext E n ih
      runAction := step_runAction E n ih
      parseRoutine := step_parseRoutine E n ih
      parseBeginEnd := step_parseBeginEnd E n ih
      parseBeginEndP := step_parseBeginEndP E n ih
      parseStatementListBlock := step_parseStatementListBlock E n ih
      parseStatementBlockWithKind := step_parseStatementBlockWithKind E n ih
      parseBlock := step_parseBlock E n ih
      parseStatementListWithType := step_parseStatementListWithType E n ih
      parseStatementListWithTypeAndPredicate := step_parseStatementListWithTypeAndPredicate E n ih
      parseCommentLines := step_parseCommentLines E n ih
      parseImportClause := step_parseImportClause E n ih
      parseCaseStatement := step_parseCaseStatement E n ih
      parseLineSection := step_parseLineSection E n ih
      parseStatement := step_parseStatement E n ih
      parseAnonymousRoutine := step_parseAnonymousRoutine E n ih
      parseAnonymousRoutineGo := step_parseAnonymousRoutineGo E n ih
      parseCaseArm := step_parseCaseArm E n ih
      parseVariantRecordFields := step_parseVariantRecordFields E n ih
      parseParens := step_parseParens E n ih
      parseParensGo := step_parseParensGo E n ih
      parseVariantRecord := step_parseVariantRecord E n ih
      parseIfThen := step_parseIfThen E n ih
      parseDoStatement := step_parseDoStatement E n ih }

/-- what `InternalDelphiLogicalLineParser::parse` guarantees of the line builder's final lines, whatever the input:
    parent references are meaningful, and at most one position holds a line typed `Eof` (only the last
    `set_logical_line_type` of `parse` makes an `Eof` line, out of the then current line) -/
theorem parse_lines (fuel : Nat) (s0 s : PS) (h0 : CInv (some (fun _ => False)) s0)
    (h : parse fuel s0 = some ((), s)) :
    LInv s.m.lines ∧ ∃ top : Option Nat, EofOnlyAt s.m.lines (fun j => some j = top) := by
  have ih := allGood (some (fun _ => False)) fuel
  unfold parse at h
  obtain ⟨_, s1, h1, h⟩ := bind_eq_some h
  obtain ⟨_, s2, h2, h⟩ := bind_eq_some h
  obtain ⟨_, s3, h3, h⟩ := bind_eq_some h
  obtain ⟨_, s4, h4, h5⟩ := bind_eq_some h
  have nov : ∀ (s : PS), ∀ p ∈ ([] : List LineParent), PVs s p := by intro s p hp; cases hp
  obtain ⟨i1, _⟩ := ih.parseStatementListWithTypeAndPredicate [] _ _ s0 _ s1 h0 (nov _) h1
  obtain ⟨i2, _⟩ := good_finishLogicalLine _ [] s1 _ s2 i1 (nov _) h2
  obtain ⟨i3, _⟩ := good_nextToken _ [] s2 _ s3 i2 (nov _) h3
  -- `set_logical_line_type(Eof)`: at most the current line becomes an `Eof` line
  unfold setLogicalLineType at h4
  have i3' : CInv none s3 := ⟨i3.lines, i3.ctx, i3.arr, by intro S hS; cases hS⟩
  obtain ⟨i4, _⟩ := good_prim0 none [] (.setType .lEof) rfl (by intro h; cases h) s3 _ s4 i3' (nov _) h4
  obtain ⟨hstep, _⟩ := prim_spec _ s3 _ s4 h4
  have e4 := step_setEof _ _ _ _ _ hstep (i3.noEof _ rfl)
  have i4' : CInv (some (fun j => False ∨ some j = s3.m.cur.head?)) s4 :=
    ⟨i4.lines, i4.ctx, i4.arr, by intro S hS; cases hS; exact e4⟩
  obtain ⟨i5, _⟩ := good_finishLogicalLine _ [] s4 _ s i4' (nov _) h5
  refine ⟨i5.lines, s3.m.cur.head?, ?_⟩
  intro j l hj ht
  rcases i5.noEof _ rfl j l hj ht with hf | hh
  · exact hf.elim
  · exact hh

theorem cinv_new (E : EofSpec) (kinds0 : List RawKind) (kinds : Array RawKind) (nl : Array Bool) (pass : List Nat) :
    CInv E (PS.new kinds0 kinds nl pass) := by
  have hl : ∀ l ∈ (PS.new kinds0 kinds nl pass).m.lines,
      l = { parent := none, level := 0, tokens := [], ltype := .lUnknown } := by
    intro l hl
    simpa [PS.new, PS.m, Traced.init, MState.init] using hl
  refine ⟨?_, ?_, rfl, ?_⟩
  · intro l hl' p hp
    rw [hl l hl'] at hp; cases hp
  · intro c hc; simp [PS.new] at hc
  · intro S _ j l hj ht
    rw [hl l (List.mem_of_getElem? hj)] at ht; cases ht

theorem linv_passParentsOk (ls : List PLine) (h : LInv ls) : passParentsOk ls = true := by
  unfold passParentsOk
  rw [List.all_eq_true]
  intro l hl
  cases hp : l.parent with
  | none => rfl
  | some p =>
    obtain ⟨pl, h1, h2⟩ := h l hl p hp
    simp only [h1]
    simpa using h2

/-- the two facts about the lines of a pass that hold for every input -/
def PassLinesOk (ls : List PLine) : Prop :=
  passParentsOk ls = true ∧ ∃ top : Option Nat, EofOnlyAt ls (fun j => some j = top)

/-- the lines of every pass of `parse_file` have meaningful parent references and at most one line typed `Eof` -/
theorem runPasses_linesOk (kinds0 : List RawKind) (nl : Array Bool) (fuel : Nat) :
    ∀ (ps : List (List Nat)) (kinds : Array RawKind) (ls : List (List PLine)) (trs : List (List Nat × List POp))
      (kinds' : Array RawKind) (L : List (List PLine)) (T : List (List Nat × List POp)),
      (∀ x ∈ ls, PassLinesOk x) →
      runPasses kinds0 nl fuel ps kinds ls trs = some (kinds', L, T) → ∀ x ∈ L, PassLinesOk x
  | [], kinds, ls, trs, kinds', L, T, hacc, h => by
    simp only [runPasses, Option.some.injEq, Prod.mk.injEq] at h
    obtain ⟨_, rfl, _⟩ := h
    intro x hx
    exact hacc x (List.mem_reverse.1 hx)
  | pass :: rest, kinds, ls, trs, kinds', L, T, hacc, h => by
    unfold runPasses at h
    split at h
    · simp at h
    · rename_i s hs
      split at h
      · split at h
        · simp at h
        · rename_i kinds2 hc
          have hgood := parse_lines fuel (PS.new kinds0 kinds nl pass) s (cinv_new _ _ _ _ _) hs
          refine runPasses_linesOk kinds0 nl fuel rest kinds2 (s.m.lines :: ls) _ kinds' L T ?_ h
          intro x hx
          rcases List.mem_cons.1 hx with rfl | h1
          · exact ⟨linv_passParentsOk _ hgood.1, hgood.2⟩
          · exact hacc x h1
      · simp at h

theorem passLines_ok (toks : List (RawKind × Bool)) (o : ParseFullOut) (h : parseFileFull toks = some o) :
    ∀ ls ∈ o.passLines, PassLinesOk ls := by
  obtain ⟨kinds, acc, hr, _, _, _, _⟩ := parseFileFull_spec toks o h
  exact runPasses_linesOk _ _ _ _ _ _ _ _ _ _ (by intro x hx; cases hx) hr

/-- **`parentsOk` holds for every answer of the parser model**: in the lines of every pass, every parent reference
    points at a line of the pass that holds the parent token. -/
theorem parentsOk_holds (toks : List (RawKind × Bool)) (o : ParseFullOut) (h : parseFileFull toks = some o) :
    parentsOk o = true := by
  unfold parentsOk
  rw [List.all_eq_true]
  exact fun ls hls => (passLines_ok toks o h ls hls).1

/-- **Parent references of the final lines** (no hypothesis): the parent line exists, precedes the child line and
    holds the parent token. -/
theorem final_parents (toks : List (RawKind × Bool)) (o : ParseFullOut) (h : parseFileFull toks = some o) :
    AccOk o.lines :=
  final_parents_contain_token toks o h (parentsOk_holds toks o h)

/-- if at most one position of a list satisfies `p`, and the element there is `a`, filtering by `p` gives `[a]` -/
theorem filter_unique {α : Type} (p : α → Bool) : ∀ (ls : List α) (i : Nat) (a : α), ls[i]? = some a → p a = true →
    (∀ (j : Nat) (b : α), ls[j]? = some b → p b = true → j = i) → ls.filter p = [a]
  | [], i, a, hi, _, _ => by simp at hi
  | x :: r, 0, a, hi, hp, hu => by
    simp at hi; subst hi
    have hr : r.filter p = [] := by
      rw [List.filter_eq_nil_iff]
      intro b hb hpb
      obtain ⟨j, hj⟩ := List.getElem?_of_mem hb
      have := hu (j + 1) b (by simpa using hj) hpb
      omega
    simp [hp, hr]
  | x :: r, k + 1, a, hi, hp, hu => by
    have hx : p x = false := by
      cases hpx : p x with
      | false => rfl
      | true => have := hu 0 x (by simp) hpx; omega
    rw [List.filter_cons, hx]
    simp only [Bool.false_eq_true, if_false]
    refine filter_unique p r k a (by simpa using hi) hp ?_
    intro j b hj hpb
    have := hu (j + 1) b (by simpa using hj) hpb
    omega

/-- the weaker, more natural hypothesis about the end-of-file line: the lines of every pass include `eofLine`
    (the pass ended by putting the end-of-file token alone on a line, at level 0, without a parent) -/
def eofLineInEveryPass (o : ParseFullOut) : Bool := o.passLines.all (fun ls => ls.contains (eofLine o.kinds.length))

/-- for an answer of the parser model the two hypotheses say the same: a pass never has two lines typed `Eof` -/
theorem eofOk_iff (toks : List (RawKind × Bool)) (o : ParseFullOut) (h : parseFileFull toks = some o) :
    eofOk o = true ↔ eofLineInEveryPass o = true := by
  unfold eofOk eofLineInEveryPass
  rw [List.all_eq_true, List.all_eq_true]
  constructor
  · intro hg ls hls
    have := hg ls hls
    unfold passEofOk at this
    have hf : ls.filter (fun l => l.ltype == .lEof) = [eofLine o.kinds.length] := by simpa using this
    have hm : eofLine o.kinds.length ∈ ls.filter (fun l => l.ltype == .lEof) := by rw [hf]; simp
    simpa using (List.mem_filter.1 hm).1
  · intro hg ls hls
    have hmem : eofLine o.kinds.length ∈ ls := by simpa using hg ls hls
    obtain ⟨_, top, htop⟩ := passLines_ok toks o h ls hls
    obtain ⟨i, hi⟩ := List.getElem?_of_mem hmem
    have hti : some i = top := htop i _ hi rfl
    unfold passEofOk
    rw [filter_unique (fun l : PLine => l.ltype == .lEof) ls i _ hi (by simp [eofLine])]
    · simp
    · intro j b hj hb
      have := htop j b hj (by simpa using hb)
      rw [← hti] at this
      exact Option.some.inj this

/-- **Exactly one end-of-file line, holding only the end-of-file token**, from the weaker hypothesis -/
theorem final_single_eof_line' (toks : List (RawKind × Bool)) (o : ParseFullOut)
    (h : parseFileFull toks = some o) (hlast : (toks.map (·.1)).getLast? = some .rEof)
    (hg : eofLineInEveryPass o = true) :
    ∃ j, o.lines[j]? = some (eofLine toks.length) ∧
      ∀ (j' : Nat) (l : PLine), o.lines[j']? = some l → (l.ltype = .lEof ∨ (toks.length - 1) ∈ l.tokens) → j' = j :=
  final_single_eof_line toks o h hlast ((eofOk_iff toks o h).2 hg)

end Pasfmt.Parents
