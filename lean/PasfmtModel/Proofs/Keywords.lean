import PasfmtModel.Model.Lexer

namespace Pasfmt

/-- declarative meaning of keyword recognition: the unique table entry spelled like the
    lower-cased word, otherwise an identifier -/
def keywordSpec (w : Bytes) : RawKind :=
  match keywords.find? (fun e => e.1 == asciiLower w) with
  | some e => e.2
  | none => .rIdentifier

set_option maxRecDepth 100000

theorem table_finds_all :
    keywords.all (fun e => lookupTable.getD (hashKeyword e.1) none == some e) = true := by
  decide +kernel

theorem keywords_lower_short :
    keywords.all (fun e => asciiLower e.1 == e.1 && decide (e.1.length ≤ maxWordLength)) = true := by
  decide +kernel

theorem table_entries_are_keywords :
    lookupTable.all (fun x => match x with | none => true | some e => keywords.contains e) = true := by
  decide +kernel

theorem keywords_nodup : (keywords.map (·.1)).Nodup := by
  decide +kernel

theorem asso_case_symmetric : ∀ n : Fin 256,
    assoValue (toLowerByte (UInt8.ofNat n.val)) = assoValue (UInt8.ofNat n.val) := by
  decide +kernel

theorem assoValue_lower (b : UInt8) : assoValue (toLowerByte b) = assoValue b := by
  have := asso_case_symmetric ⟨b.toNat, b.toNat_lt⟩
  simpa using this

theorem getD_map_lower (w : Bytes) (i : Nat) : (asciiLower w).getD i 0 = toLowerByte (w.getD i 0) := by
  unfold asciiLower
  rw [List.getD_eq_getElem?_getD, List.getD_eq_getElem?_getD, List.getElem?_map]
  cases h : w[i]? with
  | none => simp [toLowerByte, isUpper]
  | some x => simp

theorem asciiLower_length (w : Bytes) : (asciiLower w).length = w.length := by simp [asciiLower]

theorem hashKeyword_lower (w : Bytes) : hashKeyword (asciiLower w) = hashKeyword w := by
  unfold hashKeyword
  simp only [asciiLower_length, getD_map_lower, assoValue_lower]

theorem asciiLower_idem (w : Bytes) : asciiLower (asciiLower w) = asciiLower w := by
  unfold asciiLower
  rw [List.map_map]
  apply List.map_congr_left
  intro b _
  simp only [Function.comp]
  unfold toLowerByte
  split
  · rename_i h
    have : isUpper (b + 0x20) = false := by
      have hall : ∀ n : Fin 256, isUpper (UInt8.ofNat n.val) = true → isUpper (UInt8.ofNat n.val + 0x20) = false := by
        decide +kernel
      have := hall ⟨b.toNat, b.toNat_lt⟩
      simp only [UInt8.ofNat_toNat] at this
      exact this h
    simp [this]
  · rfl

theorem find_of_mem {e : Bytes × RawKind} (he : e ∈ keywords) :
    keywords.find? (fun x => x.1 == e.1) = some e := by
  have hnd := keywords_nodup
  generalize keywords = ks at he hnd
  induction ks with
  | nil => simp at he
  | cons a r ih =>
    rw [List.map_cons, List.nodup_cons] at hnd
    rw [List.find?_cons]
    by_cases hae : a = e
    · subst hae; simp
    · have her : e ∈ r := by
        rcases List.mem_cons.1 he with h | h
        · exact absurd h.symm hae
        · exact h
      have hne : (a.1 == e.1) = false := by
        apply Bool.eq_false_iff.2
        intro heq
        have : a.1 = e.1 := by simpa using heq
        apply hnd.1
        rw [this]
        exact List.mem_map_of_mem her
      rw [hne]
      exact ih her hnd.2

/-- `get_word_token_type` finds exactly the table entry spelled like the lower-cased word -/
theorem wordKind_eq_spec (w : Bytes) : wordKind w = keywordSpec w := by
  unfold keywordSpec
  have hfa := table_finds_all
  have hls := keywords_lower_short
  have hte := table_entries_are_keywords
  rw [List.all_eq_true] at hfa hls hte
  cases hfind : keywords.find? (fun e => e.1 == asciiLower w) with
  | some e =>
    -- the table has `e` at `hash w`
    have hmem : e ∈ keywords := List.mem_of_find?_eq_some hfind
    have hkey : e.1 = asciiLower w := by
      have := List.find?_some hfind; simpa using this
    have h1 := hfa e hmem
    have h2 := hls e hmem
    simp only [Bool.and_eq_true, beq_iff_eq, decide_eq_true_eq] at h1 h2
    have hlen : w.length ≤ maxWordLength := by
      have := h2.2; rw [hkey, asciiLower_length] at this; exact this
    have hhash : hashKeyword w = hashKeyword e.1 := by rw [hkey, hashKeyword_lower]
    unfold wordKind
    rw [if_pos hlen, hhash, h1]
    have : eqIgnoreCase w e.1 = true := by
      unfold eqIgnoreCase; rw [hkey, asciiLower_idem]; simp
    simp [this]
  | none =>
    unfold wordKind
    split
    · split
      · rename_i cand k heq
        split
        · rename_i hic
          exfalso
          -- cand is a keyword spelled `asciiLower w`
          have hmemT : some (cand, k) ∈ lookupTable := by
            by_cases hlt : hashKeyword w < lookupTable.length
            · rw [List.getD_eq_getElem?_getD, List.getElem?_eq_getElem hlt] at heq
              simp at heq
              rw [← heq]; exact List.getElem_mem hlt
            · rw [List.getD_eq_getElem?_getD, List.getElem?_eq_none (by omega)] at heq
              simp at heq
          have hk : (cand, k) ∈ keywords := by
            have := hte _ hmemT
            simpa using this
          have hlow := (hls _ hk)
          simp only [Bool.and_eq_true, beq_iff_eq, decide_eq_true_eq] at hlow
          have hcand : cand = asciiLower w := by
            unfold eqIgnoreCase at hic
            have : asciiLower w = asciiLower cand := by simpa using hic
            rw [this, hlow.1]
          have hf := find_of_mem hk
          simp only at hf
          rw [hcand] at hf
          rw [hfind] at hf
          simp at hf
        · rfl
      · rfl
    · rfl

end Pasfmt
