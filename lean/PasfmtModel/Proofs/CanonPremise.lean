/-
  The clause "at most one space before" of `preStageOkB` is a theorem at every position that is not free
  (`freeAtB`): `TokenSpacing` writes 0 or 1 everywhere else, and the later token rules keep or zero the spaces.
-/
import PasfmtModel.Proofs.LayoutFull
import PasfmtModel.Proofs.SpacingLe
import PasfmtModel.Proofs.CanonStage

namespace Pasfmt.CanonPremise

theorem rule_none_keeps (k : Kind) (prev prevReal next : Option Kind) (cur : Nat) (nextSp : Option Nat)
    (h : (spacingRule k prev prevReal next cur nextSp).1 = none) : keepsCur k = true := by
  unfold spacingRule at h
  split at h
  · rename_i op
    unfold spaceOperator at h
    split at h <;> first
      | (simp [keepsCur]; done)
      | (simp at h; done)
      | (split at h <;> simp at h; done)
      | (exfalso; revert h; unfold spacesBeforeFn; split <;> (try split) <;> simp)
  · simp at h
  all_goals first
    | (exfalso; revert h; unfold spacesBeforeFn; split <;> (try split) <;> simp; done)
    | (simp [keepsCur]; done)
    | (simp at h; done)
    | skip


theorem rule_after_none (k : Kind) (prev prevReal next : Option Kind) (cur : Nat) (nextSp : Option Nat)
    (h : (spacingRule k prev prevReal next cur nextSp).2 = none) : k = .tComment .cInlineLine ∨ nextSp = none := by
  unfold spacingRule at h
  split at h
  · rename_i op
    exfalso
    unfold spaceOperator at h
    split at h <;> first
      | (simp at h; done)
      | (split at h <;> simp at h; done)
      | (revert h; unfold plusMinusSpacing; split <;> simp; done)
      | (revert h; unfold openBracketSpacing; split <;> (try split) <;> simp; done)
  · left; rfl
  all_goals first
    | (exfalso; revert h; unfold spacesAfterFn; split <;> simp; done)
    | (simp at h; done)
    | (right; cases nextSp <;> simp at h ⊢; done)

theorem rule_eof (prev prevReal next : Option Kind) (cur : Nat) (nextSp : Option Nat) :
    (spacingRule .tEof prev prevReal next cur nextSp).1 = some (min cur 1) := by
  simp [spacingRule]


/-- kind in front of position `j` of the items, `prev` in front of the first -/
def kindBefore (prev : Option Kind) (l : List (Kind × Nat)) (j : Nat) : Option Kind :=
  if j = 0 then prev else (l[j - 1]?).map (·.1)

theorem spacingGo_free (prev prevReal : Option Kind) (cur : Nat) (l : List (Kind × Nat))
    (hc : ∀ p, l.head? = some p → cur ≤ 1 ∨ prev = some (.tComment .cInlineLine) ∨ p.1 = .tEof) :
    ∀ j v, (spacingGo prev prevReal cur l)[j]? = some v →
      v ≤ 1 ∨ (kindBefore prev l j = some (.tComment .cInlineLine) ∧ (l[j]?).map (fun p => keepsCur p.1) = some true) := by
  induction l generalizing prev prevReal cur with
  | nil => intro j v hv; simp [spacingGo] at hv
  | cons x rest ih =>
    obtain ⟨k, sp⟩ := x
    have hrule := spacingRule_le_one k prev prevReal (rest.head?.map (·.1)) cur (rest.head?.map (·.2))
    have hfinal : (spacingRule k prev prevReal (rest.head?.map (·.1)) cur (rest.head?.map (·.2))).1.getD cur ≤ 1 ∨
        (prev = some (.tComment .cInlineLine) ∧ keepsCur k = true) := by
      cases h1 : (spacingRule k prev prevReal (rest.head?.map (·.1)) cur (rest.head?.map (·.2))).1 with
      | none =>
        have hk := rule_none_keeps _ _ _ _ _ _ h1
        rcases hc (k, sp) rfl with h | h | h
        · left; simpa using h
        · right; exact ⟨h, hk⟩
        · simp only at h; subst h; rw [rule_eof] at h1; cases h1
      | some v => left; have := hrule.1; rw [h1] at this; simpa [OptLe1] using this
    unfold spacingGo
    simp only
    cases rest with
    | nil =>
      intro j v hv
      cases j with
      | zero =>
        simp at hv; subst hv
        rcases hfinal with h | h
        · left; simpa using h
        · right; simpa [kindBefore] using h
      | succ j => simp at hv
    | cons y rest' =>
      obtain ⟨k', sp'⟩ := y
      intro j v hv
      cases j with
      | zero =>
        simp at hv; subst hv
        rcases hfinal with h | h
        · left; simpa using h
        · right; simpa [kindBefore] using h
      | succ j =>
        simp only [List.head?_cons, Option.map_some, List.getElem?_cons_succ] at hv hrule
        have := ih (some k) _ _ (by
          intro p hp
          simp only [List.head?_cons, Option.some.injEq] at hp
          subst hp
          simp only
          cases ha : (spacingRule k prev prevReal (some k') cur (some sp')).2 with
          | none =>
            rcases rule_after_none _ _ _ _ _ _ ha with h | h
            · right; left; rw [h]
            · cases h
          | some a =>
            have h2 := hrule.2
            rw [ha] at h2
            simp only [OptLe1] at h2
            unfold nextCur
            simp only
            by_cases he : k' = .tEof
            · right; right; exact he
            · left; simp [he]; exact h2) j v hv
        rcases this with h | ⟨h1, h2⟩
        · left; exact h
        · right
          refine ⟨?_, by simpa using h2⟩
          unfold kindBefore at h1 ⊢
          simp only [Nat.add_one_ne_zero, if_false, Nat.add_sub_cancel]
          cases j with
          | zero => simpa using h1
          | succ j => simpa using h1


theorem next_hc (k : Kind) (prev prevReal : Option Kind) (k' : Kind) (cur sp' : Nat) :
    nextCur (spacingRule k prev prevReal (some k') cur (some sp')).2 k' sp' ≤ 1 ∨
      some k = some (.tComment .cInlineLine) ∨ k' = .tEof := by
  have hrule := spacingRule_le_one k prev prevReal (some k') cur (some sp')
  cases ha : (spacingRule k prev prevReal (some k') cur (some sp')).2 with
  | none =>
    rcases rule_after_none _ _ _ _ _ _ ha with h | h
    · right; left; rw [h]
    · cases h
  | some a =>
    have h2 := hrule.2
    rw [ha] at h2
    simp only [OptLe1] at h2
    unfold nextCur
    simp only
    by_cases he : k' = .tEof
    · right; right; exact he
    · left; simp [he]; exact h2

theorem spacingResult_free (l : List (Kind × Nat)) (j v : Nat) (hv : (spacingResult l)[j]? = some v) :
    v ≤ 1 ∨ (j ≥ 1 ∧ (l[j - 1]?).map (·.1) = some (.tComment .cInlineLine) ∧
      (l[j]?).map (fun p => keepsCur p.1) = some true) := by
  unfold spacingResult at hv
  cases l with
  | nil => simp at hv
  | cons p rest =>
    obtain ⟨k, sp⟩ := p
    simp only at hv
    unfold spacingGo at hv
    simp only at hv
    cases rest with
    | nil =>
      cases j with
      | zero => simp at hv; subst hv; left; omega
      | succ j => simp at hv
    | cons y rest' =>
      obtain ⟨k', sp'⟩ := y
      cases j with
      | zero => simp at hv; subst hv; left; omega
      | succ j =>
        simp only [List.head?_cons, Option.map_some, List.getElem?_cons_succ] at hv
        have := spacingGo_free (some k) _ _ ((k', sp') :: rest') (by
          intro p hp
          simp only [List.head?_cons, Option.some.injEq] at hp
          subst hp
          exact next_hc k none none k' sp sp') j v hv
        rcases this with h | ⟨h1, h2⟩
        · left; exact h
        · right
          refine ⟨by omega, ?_, by simpa using h2⟩
          unfold kindBefore at h1
          simp only [Nat.add_sub_cancel]
          cases j with
          | zero => simpa using h1
          | succ j => simpa using h1

/-- after `TokenSpacing` every token at a position that is not free has at most one space before it -/
theorem tokenSpacing_sp (ft : FT) (j : Nat) (t : FTok) (ht : (tokenSpacing ft)[j]? = some t) :
    t.fmt.sp ≤ 1 ∨ freeAtB ft j = true := by
  rw [tokenSpacing_eq] at ht
  simp only [List.getElem?_map, List.getElem?_zipIdx, Option.map_eq_some_iff] at ht
  obtain ⟨⟨a, i⟩, ha, rfl⟩ := ht
  cases hj : ft[j]? with
  | none => rw [hj] at ha; simp at ha
  | some t0 =>
    rw [hj] at ha
    simp only [Option.some.injEq, Prod.mk.injEq] at ha
    obtain ⟨w, rfl, rfl, hi⟩ := ha
    simp only [Nat.zero_add] at hi
    subst hi
    simp only
    have hlt : j < ft.length := by
      rcases Nat.lt_or_ge j ft.length with h | h
      · exact h
      · rw [List.getElem?_eq_none h] at hj; cases hj
    have hil : (spacingItems ft).length = ft.length := by unfold spacingItems; rw [spacingItemsGo_length]
    have hlen : j < (spacingResult (spacingItems ft)).length := by rw [spacingResult_length, hil]; exact hlt
    have hg : ∀ d, (spacingResult (spacingItems ft)).getD j d = (spacingResult (spacingItems ft))[j] := by
      intro d; rw [List.getD_eq_getElem?_getD, List.getElem?_eq_getElem hlen]; rfl
    rw [hg]
    rcases spacingResult_free _ j _ (List.getElem?_eq_getElem hlen) with h | ⟨h0, h1, h2⟩
    · left; exact h
    · right
      have hk1 : ((spacingItems ft)[j - 1]?).map (·.1) = (ft[j - 1]?).map (·.tok.kind) := spacingItemsGo_getElem? false ft (j - 1)
      have hk2 : ((spacingItems ft)[j]?).map (·.1) = (ft[j]?).map (·.tok.kind) := spacingItemsGo_getElem? false ft j
      rw [h1] at hk1
      rw [hj] at hk2
      unfold freeAtB
      rw [hj, ← hk1]
      simp only [Option.map_some] at hk2
      cases hx : (spacingItems ft)[j]? with
      | none => rw [hx] at h2; simp at h2
      | some q =>
        rw [hx] at h2 hk2
        simp only [Option.map_some, Option.some.injEq] at h2 hk2
        rw [hk2] at h2
        simp [h0, h2]


/-- "at most one space before, except at the positions `F`" -/
def SpOk (F : Nat → Prop) (ft : FT) : Prop := ∀ j t, ft[j]? = some t → t.fmt.sp ≤ 1 ∨ F j

theorem SpOk.map {F : Nat → Prop} {ft : FT} (h : SpOk F ft) (f : FTok → FTok) (hf : ∀ t, (f t).fmt = t.fmt) :
    SpOk F (ft.map f) := by
  intro j t ht
  simp only [List.getElem?_map, Option.map_eq_some_iff] at ht
  obtain ⟨a, ha, rfl⟩ := ht
  rw [hf]; exact h j a ha

theorem SpOk.eofNewline {F : Nat → Prop} {ft : FT} (h : SpOk F ft) (lines : List Line) :
    SpOk F (eofNewline lines ft) := by
  unfold Pasfmt.eofNewline
  split
  · intro j t ht
    simp only [List.getElem?_map, List.getElem?_zipIdx, Option.map_eq_some_iff] at ht
    obtain ⟨⟨a, i⟩, ha, rfl⟩ := ht
    cases hj : ft[j]? with
    | none => rw [hj] at ha; simp at ha
    | some t0 =>
      rw [hj] at ha
      simp only [Option.some.injEq, Prod.mk.injEq] at ha
      obtain ⟨w, rfl, rfl, _⟩ := ha
      simp only
      split
      · left; simp
      · exact h j _ hj
  · exact h

theorem lowercaseTok_fmt (t : FTok) : (lowercaseTok t).fmt = t.fmt := by
  unfold lowercaseTok
  split
  · exact setContent_fmt _ _
  · rfl

theorem commentFormatTok_fmt (U : Bytes → Bool) (t : FTok) : (commentFormatTok U t).fmt = t.fmt := by
  unfold commentFormatTok
  split <;> (try split) <;> first | exact setContent_fmt _ _ | rfl

/-- **before the wrapper stage every token at a position that is not free has at most one space before it** -/
theorem preWrap_sp (O : Oracles) (raw : List RawTok) (j : Nat) (t : FTok)
    (ht : (preWrap O raw).2.2[j]? = some t) :
    t.fmt.sp ≤ 1 ∨ freeAtB (preWrap O raw).2.2 j = true := by
  unfold preWrap at ht ⊢
  simp only at ht ⊢
  rw [freeAtB_congr _ _ (preRules_kinds O.alnum _ _) j]
  have h0 : SpOk (fun j => freeAtB (FT.new (retype raw (O.parser raw).kinds)
      (fun i => (ignoredMarks (retype raw (O.parser raw).kinds) (O.parser raw).lines).getD i false)) j = true)
      (tokenSpacing (FT.new (retype raw (O.parser raw).kinds)
      (fun i => (ignoredMarks (retype raw (O.parser raw).kinds) (O.parser raw).lines).getD i false))) :=
    fun j t ht => tokenSpacing_sp _ j t ht
  have h1 := h0.map lowercaseTok lowercaseTok_fmt
  have h2 := h1.map (commentFormatTok O.alnum) (commentFormatTok_fmt O.alnum)
  exact (h2.eofNewline _) j t ht

theorem preStageOkB_of_prime (O : Oracles) (raw : List RawTok)
    (h : preStageOkB' (preWrap O raw).2.1 (preWrap O raw).2.2 = true) :
    preStageOkB (preWrap O raw).2.1 (preWrap O raw).2.2 = true := by
  unfold preStageOkB' at h
  unfold preStageOkB
  rw [List.all_eq_true] at h ⊢
  intro p hp
  have hp' := h p hp
  obtain ⟨t, j⟩ := p
  have ht := List.mem_zipIdx_iff_getElem?.1 hp
  simp only at ht hp' ⊢
  cases hi : t.fmt.ignored with
  | true => simp
  | false =>
    rw [hi] at hp'
    simp only [Bool.false_or, Bool.and_eq_true, Bool.or_eq_true, Bool.not_eq_true', decide_eq_true_eq] at hp' ⊢
    refine ⟨?_, hp'.2⟩
    rcases preWrap_sp O raw j t ht with h1 | h1
    · exact h1
    · rcases hp'.1 with h2 | h2
      · rw [h1] at h2; cases h2
      · exact h2

/-- the reduced premises imply the premises of the canonical-counters theorem -/
theorem canonPremisesB_of_prime (cfg : Config) (alnum : Bytes → Bool) (s : Bytes)
    (h : canonPremisesB' cfg alnum s = true) : canonPremisesB cfg alnum s = true := by
  unfold canonPremisesB' at h
  unfold canonPremisesB
  split
  · rename_i hl; rw [hl] at h; cases h
  · rename_i raw hl
    rw [hl] at h
    simp only at h
    split
    · rename_i hpo; rw [hpo] at h; cases h
    · rename_i po hpo
      rw [hpo] at h
      simp only [Bool.and_eq_true] at h ⊢
      exact ⟨preStageOkB_of_prime _ raw h.1, h.2⟩

end Pasfmt.CanonPremise
