/-
  A sharper form of `spacingGo_layout`: the original spacing of a token matters only when the token
  before it is handled by `max_one_either_side` (a literal or an unknown token), or when the token is
  the end-of-file token.  Together with the view `spacingItems` (a token on another line counts as
  having one space before it, b68b46e) this gives: a gap that is "a space" and a gap that is "a line
  break and any indentation" are the same thing to `TokenSpacing`.
-/
import PasfmtModel.Proofs.SpacingLayout

namespace Pasfmt

/-- `po` = the token before the head is of an "other" kind -/
inductive LayoutEqW : Bool → List (Kind × Nat) → List (Kind × Nat) → Prop
  | nil {po} : LayoutEqW po [] []
  | cons {po k a b r1 r2} : ((po = true ∨ k = .tEof) → min a 1 = min b 1) →
      LayoutEqW (isOtherKind k) r1 r2 → LayoutEqW po ((k, a) :: r1) ((k, b) :: r2)

/-- the rule of a token that is not of an "other" kind reads neither its own nor the next spacing -/
theorem spacingRule_const (k : Kind) (prev prevReal next : Option Kind) (c1 c2 : Nat) (n1 n2 : Option Nat)
    (hk : isOtherKind k = false) :
    spacingRule k prev prevReal next c1 n1 = spacingRule k prev prevReal next c2 n2 := by
  unfold spacingRule
  split <;> first | rfl | (simp [isOtherKind] at hk)

theorem isOtherKind_eof : isOtherKind .tEof = true := rfl

theorem spacingGo_layoutW (po : Bool) (l1 l2 : List (Kind × Nat)) (h : LayoutEqW po l1 l2)
    (hni : noInlineLine l1) (prev prevReal : Option Kind) (c1 c2 : Nat)
    (hc : ∀ k a r, l1 = (k, a) :: r → CurEq k c1 c2) :
    spacingGo prev prevReal c1 l1 = spacingGo prev prevReal c2 l2 := by
  induction h generalizing prev prevReal c1 c2 with
  | nil => rfl
  | @cons po k a b r1 r2 hab hr ih =>
    have hce : CurEq k c1 c2 := hc k a r1 rfl
    have hmin : min c1 1 = min c2 1 := by
      rcases hce with h | h
      · rw [h]
      · exact h.2
    cases hr with
    | nil =>
      unfold spacingGo
      simp only [List.head?_nil, Option.map_none]
      have hrule := spacingRule_layout k prev prevReal none c1 c2 none none hmin rfl
      rw [hrule]
      rcases hce with h | h
      · rw [h]
      · obtain ⟨hk, hm⟩ := h
        subst hk
        simp [spacingRule_eof]
    | @cons _ k' a' b' r1' r2' hab' hr' =>
      have hk : k ≠ .tComment .cInlineLine := hni (k, a) (by simp)
      unfold spacingGo
      simp only [List.head?_cons, Option.map_some]
      have hrule : spacingRule k prev prevReal (some k') c1 (some a') = spacingRule k prev prevReal (some k') c2 (some b') := by
        by_cases ho : isOtherKind k = true
        · exact spacingRule_layout k prev prevReal (some k') c1 c2 (some a') (some b') hmin (by simp [hab' (Or.inl ho)])
        · exact spacingRule_const k prev prevReal (some k') c1 c2 _ _ (by simpa using ho)
      rw [hrule]
      obtain ⟨av, hav⟩ := spacingRule_after_some k prev prevReal (some k') c2 b' hk
      have hfinal : (spacingRule k prev prevReal (some k') c2 (some b')).1.getD c1 =
          (spacingRule k prev prevReal (some k') c2 (some b')).1.getD c2 := by
        rcases hce with h | h
        · rw [h]
        · obtain ⟨hk', _⟩ := h
          subst hk'
          simp [spacingRule_eof]
      rw [hfinal]
      congr 1
      apply ih (fun p hp => hni p (by simp [hp])) (some k)
      intro k2 a2 r2' heq
      simp only [List.cons.injEq, Prod.mk.injEq] at heq
      obtain ⟨⟨hk2, ha2⟩, _⟩ := heq
      subst hk2
      rw [hav]
      unfold nextCur CurEq
      by_cases he : (k' == .tEof) = true
      · right
        simp only [he, if_true]
        have hke : k' = .tEof := by simpa using he
        exact ⟨hke, hab' (Or.inr hke)⟩
      · left; simp [he]

/-- final spacing after `TokenSpacing::format` under the weaker relation -/
theorem spacingResult_layoutW (l1 l2 : List (Kind × Nat)) (h : LayoutEqW false l1 l2) (hni : noInlineLine l1) :
    spacingResult l1 = spacingResult l2 := by
  cases h with
  | nil => rfl
  | @cons _ k a b r1 r2 hab hr =>
    unfold spacingResult
    simp only
    have key : (spacingGo none none a ((k, a) :: r1)).tail = (spacingGo none none b ((k, b) :: r2)).tail := by
      cases hr with
      | nil => unfold spacingGo; rfl
      | @cons _ k' a' b' r1' r2' hab' hr' =>
        have hk : k ≠ .tComment .cInlineLine := hni (k, a) (by simp)
        unfold spacingGo
        simp only [List.head?_cons, Option.map_some, List.tail_cons]
        -- the head's own value is dropped; only what its rule writes to the next token matters
        have hsnd : (spacingRule k none none (some k') a (some a')).2 = (spacingRule k none none (some k') b (some b')).2 := by
          by_cases ho : isOtherKind k = true
          · have hm := hab' (Or.inl ho)
            unfold spacingRule
            split <;> first | rfl | (simp [hm])
          · rw [spacingRule_const k none none (some k') a b _ _ (by simpa using ho)]
        rw [hsnd]
        obtain ⟨av, hav⟩ := spacingRule_after_some k none none (some k') b b' hk
        apply spacingGo_layoutW _ _ _ (LayoutEqW.cons hab' hr') (fun p hp => hni p (by simp [hp])) (some k)
        intro k2 a2 r2' heq
        simp only [List.cons.injEq, Prod.mk.injEq] at heq
        obtain ⟨⟨hk2, ha2⟩, _⟩ := heq
        subst hk2
        rw [hav]
        unfold nextCur CurEq
        by_cases he : (k' == .tEof) = true
        · right
          simp only [he, if_true]
          have hke : k' = .tEof := by simpa using he
          exact ⟨hke, hab' (Or.inr hke)⟩
        · left; simp [he]
    have hlen1 : ∃ x t, spacingGo none none a ((k, a) :: r1) = x :: t := by
      unfold spacingGo; cases r1 <;> exact ⟨_, _, rfl⟩
    have hlen2 : ∃ x t, spacingGo none none b ((k, b) :: r2) = x :: t := by
      unfold spacingGo; cases r2 <;> exact ⟨_, _, rfl⟩
    obtain ⟨x1, t1, e1⟩ := hlen1
    obtain ⟨x2, t2, e2⟩ := hlen2
    rw [e1, e2] at key
    rw [e1, e2]
    simp only [List.tail_cons] at key
    simp [key]

/-! ### from token lists -/


/-- two layouts of one token sequence: same kinds, a gap is empty in one iff it is empty in the other
    (how many spaces, whether there is a line break, and how far the next line is indented are free);
    the end-of-file token keeps `min spaces 1` -/
inductive GapEq : FT → FT → Prop
  | nil : GapEq [] []
  | cons {t1 t2 r1 r2} : t1.tok.kind = t2.tok.kind → gapEmpty t1 = gapEmpty t2 →
      (t1.tok.kind = .tEof → min t1.fmt.sp 1 = min t2.fmt.sp 1) → GapEq r1 r2 → GapEq (t1 :: r1) (t2 :: r2)

theorem spacingItemsGo_layoutW (po : Bool) (ft1 ft2 : FT) (h : GapEq ft1 ft2) :
    LayoutEqW po (spacingItemsGo po ft1) (spacingItemsGo po ft2) := by
  induction h generalizing po with
  | nil => exact LayoutEqW.nil
  | @cons t1 t2 r1 r2 hk hg he hr ih =>
    unfold spacingItemsGo
    simp only
    rw [← hk]
    refine LayoutEqW.cons ?_ (ih _)
    intro hpo
    by_cases hke : t1.tok.kind = .tEof
    · have hke2 : t2.tok.kind = .tEof := hk ▸ hke
      simp [hke, he hke]
    · rcases hpo with hpo | hpo
      · subst hpo
        have e1 : (t1.tok.kind == TokenType.tEof) = false := by simpa using hke
        simp only [Bool.true_and, e1, Bool.not_false, Bool.and_true]
        unfold gapEmpty at hg
        by_cases h1 : t1.fmt.nl > 0 <;> by_cases h2 : t2.fmt.nl > 0
        · simp only [h1, h2, decide_true, if_true]; omega
        · have h2' : t2.fmt.nl = 0 := by omega
          have h1' : (t1.fmt.nl == 0) = false := by simp; omega
          simp [h2', h1'] at hg
          simp only [h1, h2, decide_true, decide_false, if_true]
          simp; omega
        · have h1' : t1.fmt.nl = 0 := by omega
          have h2' : (t2.fmt.nl == 0) = false := by simp; omega
          simp [h1', h2'] at hg
          simp only [h1, h2, decide_true, decide_false, if_true]
          simp; omega
        · have h1' : t1.fmt.nl = 0 := by omega
          have h2' : t2.fmt.nl = 0 := by omega
          simp [h1', h2'] at hg
          simp only [h1, h2, decide_false]
          simp
          by_cases z1 : t1.fmt.sp = 0 <;> by_cases z2 : t2.fmt.sp = 0 <;> simp_all <;> omega
      · exact absurd hpo hke

/-- **space or line break.**  After a literal the two are the same to `TokenSpacing`; after any other
    token the original gap is not read at all.  (No inline line comment: the token after one starts
    a line in every layout.) -/
theorem spacingResult_gapEq (ft1 ft2 : FT) (h : GapEq ft1 ft2)
    (hni : noInlineLine (spacingItems ft1)) :
    spacingResult (spacingItems ft1) = spacingResult (spacingItems ft2) :=
  spacingResult_layoutW _ _ (spacingItemsGo_layoutW false ft1 ft2 h) hni

end Pasfmt
