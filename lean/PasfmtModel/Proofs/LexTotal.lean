/-
  `lex_total`: the scanner model never returns `none` — no sub-lexer runs out of fuel, every token
  is non-empty and inside the text, and the outer loop's fuel suffices.
-/
import PasfmtModel.Proofs.LexBounds
import PasfmtModel.Proofs.LexShape
import PasfmtModel.Proofs.TrailingWs

namespace Pasfmt

theorem runSub_ne_none (st : LexState) (sub : SubLexer) (b : UInt8) (r : Bytes) (nlb : Bool)
    (trimF : Unit → Nat) (simd : Bool) : runSub st sub b r nlb trimF simd ≠ none := by
  unfold runSub
  cases sub <;> simp only
  all_goals first
    | (simp; done)
    | ((repeat' split) <;> simp [compilerDirective_ne_none]; done)
    | skip


theorem idLen_le (simd : Bool) (l : Bytes) :
    (if simd then identLenSimd (l.length + 1) l else identLen l) ≤ l.length := by
  rw [identLenSimd_eq]; simp [identLen_le]

/-- every sub-lexer consumes at least one byte and at most what is left (`trim` = trailing blanks of the
    whole input, which never reach the token's first byte) -/
theorem runSub_bounds (st : LexState) (sub : SubLexer) (b : UInt8) (r : Bytes) (nlb : Bool)
    (trimF : Unit → Nat) (simd : Bool) (o : LexOut)
    (h : runSub st sub b r nlb trimF simd = some o)
    (htrim : trimF () ≤ r.length)
    (htl : sub = .text_literal → b = 0x27 ∨ b = 0x23) :
    1 ≤ o.len ∧ o.len ≤ r.length + 1 := by
  unfold runSub at h
  simp only [identLenSimd_eq, ite_self] at h
  have hid := identLen_le
  cases sub <;> simp only at h
  all_goals first
    | (simp only [Option.some.injEq] at h; subst h; simp; done)
    | ((repeat' split at h) <;> (simp only [Option.some.injEq] at h; subst h; simp_all <;> omega); done)
    | skip
  case binary_number_literal =>
    simp only [Option.some.injEq] at h; subst h
    have := countWhile_le isBinaryByte r
    simp only [countBinary]; omega
  case hex_number_literal =>
    simp only [Option.some.injEq] at h; subst h
    have := countWhile_le isHexByte r
    simp only [countHex]; omega
  case dec_number_literal =>
    simp only [Option.some.injEq] at h; subst h
    have := decNumberRest_le r
    simp only; omega
  case identifier =>
    simp only [Option.some.injEq] at h; subst h
    have := hid r
    simp only; omega
  case identifier_or_keyword =>
    simp only [Option.some.injEq] at h; subst h
    have := hid r
    simp only; omega
  case asm_identifier =>
    have := hid r
    (repeat' split at h) <;> (simp only [Option.some.injEq] at h; subst h; simp only; omega)
  case asm_label =>
    simp only [Option.some.injEq] at h; subst h
    have := countWhile_le (fun x => asmIdentCharSet.getD x.toNat false) r
    simp only; omega
  case asm_number_literal =>
    simp only [Option.some.injEq] at h; subst h
    have := asmNumberRest_le b r
    simp only; omega
  case asm_text_literal =>
    simp only [Option.some.injEq] at h; subst h
    have := asmTextLiteralRest_le r
    simp only; omega
  case text_literal =>
    simp only [Option.some.injEq] at h; subst h
    have h1 := textLiteral_le (b :: r)
    have h2 := textLiteral_pos b r (htl rfl)
    simp only [List.length_cons] at h1
    simp only; omega
  case unicode_identifier =>
    simp only [Option.some.injEq] at h; subst h
    have h1 := countWhile_le isCont r
    have h2 := hid (r.drop (countWhile isCont r))
    simp only [List.length_drop] at h2
    simp only; omega
  case slash =>
    split at h
    · rename_i r'
      simp only [Option.some.injEq] at h; subst h
      have := lineCommentEnd_le r'
      simp only [List.length_cons]; omega
    · simp only [Option.some.injEq] at h; subst h; simp
  case l_brace =>
    split at h
    · rename_i r'
      simp only [Option.map_eq_some_iff] at h
      obtain ⟨⟨n, k⟩, hcd, rfl⟩ := h
      have := compilerDirective_bounds _ _ _ _ _ _ _ hcd (by simp only [List.length_cons]; omega)
        (by simp only [List.length_cons] at htrim ⊢; omega)
      simp only [List.length_cons] at this ⊢; omega
    · simp only [Option.some.injEq] at h; subst h
      have := blockComment_bounds (trimF ()) .brace 1 (r.length + 1) nlb r (by omega) (by omega)
      simp only; omega
  case l_paren =>
    split at h
    · rename_i r'
      simp only [Option.map_eq_some_iff] at h
      obtain ⟨⟨n, k⟩, hcd, rfl⟩ := h
      have := compilerDirective_bounds _ _ _ _ _ _ _ hcd (by simp only [List.length_cons]; omega)
        (by simp only [List.length_cons] at htrim ⊢; omega)
      simp only [List.length_cons] at this ⊢; omega
    · rename_i r' _
      simp only [Option.some.injEq] at h; subst h
      have := blockComment_bounds (trimF ()) .parenStar 2 ((0x2A :: r').length + 1) nlb r'
        (by simp only [List.length_cons]; omega) (by simp only [List.length_cons] at htrim ⊢; omega)
      simp only [List.length_cons] at this ⊢; omega
    · simp only [Option.some.injEq] at h; subst h; simp
    · simp only [Option.some.injEq] at h; subst h; simp
  case ampersand =>
    have ha := countWhile_le (· == 0x26) r
    split at h
    · rename_i c r' hdrop
      have hl : (r.drop (countWhile (· == 0x26) r)).length = r'.length + 1 := by rw [hdrop]; simp
      simp only [List.length_drop] at hl
      have h1 := countWhile_le isHexByte r'
      have h2 := countWhile_le isBinaryByte r'
      have h3 := decNumberRest_le r'
      have h4 := hid r'
      have h5 := countWhile_le isCont r'
      have h6 := hid (r'.drop (countWhile isCont r'))
      simp only [List.length_drop] at h6
      (repeat' split at h) <;>
        (simp only [Option.some.injEq] at h; subst h; simp only [countHex, countBinary]; omega)
    · simp only [Option.some.injEq] at h; subst h
      simp only; omega


/-- the dispatch tables send only `'` and `#` to the text-literal scanner -/
theorem lexerMap_text_literal (b : UInt8) :
    (lexerMap.getD b.toNat .unknown = .text_literal → b = 0x27 ∨ b = 0x23) ∧
    (asmLexerMap.getD b.toNat .unknown = .text_literal → b = 0x27 ∨ b = 0x23) := by
  have hall : ∀ n : Fin 256,
      (lexerMap.getD (UInt8.ofNat n.val).toNat .unknown = .text_literal →
        UInt8.ofNat n.val = 0x27 ∨ UInt8.ofNat n.val = 0x23) ∧
      (asmLexerMap.getD (UInt8.ofNat n.val).toNat .unknown = .text_literal →
        UInt8.ofNat n.val = 0x27 ∨ UInt8.ofNat n.val = 0x23) := by decide +kernel
  have := hall ⟨b.toNat, b.toNat_lt⟩
  simpa only [UInt8.ofNat_toNat] using this

/-- one step of the scanner never fails, and a token it returns is non-empty and inside the text -/
theorem lexOne_ok (simd : Bool) (st : LexState) (inp : Bytes) :
    lexOne simd st inp ≠ none ∧
    ∀ ws e k st', lexOne simd st inp = some (some (ws, e, k, st')) → ws < e ∧ e ≤ inp.length := by
  unfold lexOne
  simp only []
  split
  · simp
  · rename_i b r hdrop
    have htrim := countTrailingWs_lt inp b r hdrop
    have hlen : (inp.drop (countLeadingWs inp)).length = r.length + 1 := by rw [hdrop]; simp
    simp only [List.length_drop] at hlen
    have hne := runSub_ne_none st ((if st.inAsm = true then asmLexerMap else lexerMap).getD b.toNat .unknown) b r
      (containsByte 0x0A (inp.take (countLeadingWs inp)) || st.isFirst) (fun _ => countTrailingWs inp) simd
    split
    · rename_i hnone; exact absurd hnone hne
    · rename_i o ho
      refine ⟨by simp, ?_⟩
      intro ws e k st' heq
      simp only [Option.some.injEq, Prod.mk.injEq] at heq
      obtain ⟨rfl, rfl, _, _⟩ := heq
      have := runSub_bounds _ _ _ _ _ _ _ _ ho htrim (by
        intro hs
        have hm := lexerMap_text_literal b
        by_cases ha : st.inAsm = true
        · simp only [ha, if_true] at hs; exact hm.2 hs
        · simp only [ha] at hs; exact hm.1 hs)
      omega

theorem lexFuel_total (simd : Bool) (fuel : Nat) (st : LexState) (inp : Bytes) (hf : inp.length < fuel) :
    lexFuel simd fuel st inp ≠ none := by
  induction fuel generalizing st inp with
  | zero => omega
  | succ f ih =>
    unfold lexFuel
    have hok := lexOne_ok simd st inp
    split
    · rename_i hnone; exact absurd hnone hok.1
    · simp
    · rename_i ws e kind st' heq
      have hb := hok.2 ws e kind st' heq
      have hle : leLength e inp = true := (leLength_iff e inp).2 hb.2
      simp only [hb.1, hle, and_self, if_true]
      have := ih st' (inp.drop e) (by simp only [List.length_drop]; omega)
      split
      · rename_i hn; exact absurd hn this
      · simp

/-- **The scanner is total**: for every byte string (in particular every UTF-8 text) the model
    returns a token list: no sub-lexer runs out of fuel, no token is empty (no stalled loop), no
    slice is out of range. -/
theorem lexWith_total (simd : Bool) (inp : Bytes) : ∃ toks, lexWith simd inp = some toks := by
  have := lexFuel_total simd (inp.length + 1) LexState.init inp (by omega)
  unfold lexWith
  cases h : lexFuel simd (inp.length + 1) LexState.init inp with
  | none => exact absurd h this
  | some toks => exact ⟨toks, rfl⟩

theorem lex_total (inp : Bytes) : ∃ toks, lex inp = some toks := lexWith_total false inp

end Pasfmt
