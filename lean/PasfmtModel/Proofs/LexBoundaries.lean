/-
  `lex_char_boundaries`: in well-formed UTF-8 text every token boundary the scanner model computes
  is a character boundary, so leading blanks and contents of all tokens are well-formed UTF-8
  themselves (the Rust code slices `&str` at exactly these offsets; a slice off a character
  boundary panics).
-/
import PasfmtModel.Proofs.LexEnds
import PasfmtModel.Proofs.LexTotal

namespace Pasfmt

theorem unicodeIdent_notCont (r : Bytes) :
    NotContAt r (countWhile isCont r + identLen (r.drop (countWhile isCont r))) :=
  notContAt_drop (identLen_notCont _)

theorem ends_one_plus_notCont {b : UInt8} {r : Bytes} {m : Nat} (h : NotContAt r m) : Ends (b :: r) (1 + m) := by
  apply Ends.of_notCont
  have : NotContAt ((b :: r).drop 1) m := by simpa using h
  exact notContAt_drop this

/-- every sub-lexer stops at an `Ends` offset of the text that starts at the token -/
theorem runSub_ends (st : LexState) (sub : SubLexer) (b : UInt8) (r : Bytes) (nlb : Bool)
    (trimF : Unit → Nat) (simd : Bool) (o : LexOut)
    (h : runSub st sub b r nlb trimF simd = some o)
    (hasc : sub ≠ .unicode_identifier → b < 0x80)
    (htrim : Ends (b :: r) (r.length + 1 - trimF ())) : Ends (b :: r) o.len := by
  unfold runSub at h
  simp only [identLenSimd_eq, ite_self] at h
  have one : b < 0x80 → Ends (b :: r) 1 := fun hb => Ends.of_asciiAt (l := b :: r) (i := 0) ⟨b, by simp, hb⟩
  have two : ∀ (c : UInt8) (t : Bytes), r = c :: t → c < 0x80 → Ends (b :: r) 2 := by
    intro c t hr hc
    subst hr
    exact Ends.of_asciiAt (l := b :: c :: t) (i := 1) ⟨c, by simp, hc⟩
  cases sub <;> simp only at h
  all_goals first
    | (simp only [Option.some.injEq] at h; subst h; exact one (hasc (by simp)); done)
    | skip
  case colon =>
    split at h <;> (simp only [Option.some.injEq] at h; subst h)
    · exact two _ _ rfl (by decide)
    · exact one (hasc (by simp))
  case l_angle =>
    split at h <;> (simp only [Option.some.injEq] at h; subst h)
    · exact two _ _ rfl (by decide)
    · exact two _ _ rfl (by decide)
    · exact one (hasc (by simp))
  case r_angle =>
    split at h <;> (simp only [Option.some.injEq] at h; subst h)
    · exact two _ _ rfl (by decide)
    · exact one (hasc (by simp))
  case dot =>
    split at h <;> (simp only [Option.some.injEq] at h; subst h)
    · exact two _ _ rfl (by decide)
    · exact two _ _ rfl (by decide)
    · exact one (hasc (by simp))
  case slash =>
    split at h <;> (simp only [Option.some.injEq] at h; subst h)
    · rename_i r'
      apply Ends.of_notCont
      have : NotContAt ((b :: 0x2F :: r').drop 2) (lineCommentEnd r') := by simpa using lineCommentEnd_notCont r'
      exact notContAt_drop this
    · exact one (hasc (by simp))
  case l_paren =>
    split at h
    · rename_i r'
      simp only [Option.map_eq_some_iff] at h
      obtain ⟨⟨n, k⟩, hcd, rfl⟩ := h
      exact compilerDirective_ends _ _ _ [b, 0x2A, 0x24] r' n k hcd (by simpa using htrim)
    · rename_i r' _
      simp only [Option.some.injEq] at h; subst h
      exact blockComment_ends _ _ _ _ [b, 0x2A] r' (by simpa using htrim)
    · simp only [Option.some.injEq] at h; subst h; exact two _ _ rfl (by decide)
    · simp only [Option.some.injEq] at h; subst h; exact one (hasc (by simp))
  case l_brace =>
    split at h
    · rename_i r'
      simp only [Option.map_eq_some_iff] at h
      obtain ⟨⟨n, k⟩, hcd, rfl⟩ := h
      exact compilerDirective_ends _ _ _ [b, 0x24] r' n k hcd (by simpa using htrim)
    · simp only [Option.some.injEq] at h; subst h
      exact blockComment_ends _ _ _ _ [b] r (by simpa using htrim)
  case text_literal =>
    simp only [Option.some.injEq] at h; subst h
    exact textLiteral_ends (b :: r)
  case binary_number_literal =>
    simp only [Option.some.injEq] at h; subst h
    exact Ends.cons_ascii (hasc (by simp)) (asciiUpTo_countWhile _ (fun x hx => (class_ascii x).2.2.1 hx) r).ends
  case hex_number_literal =>
    simp only [Option.some.injEq] at h; subst h
    exact Ends.cons_ascii (hasc (by simp)) (asciiUpTo_countWhile _ (fun x hx => (class_ascii x).2.1 hx) r).ends
  case dec_number_literal =>
    simp only [Option.some.injEq] at h; subst h
    exact Ends.cons_ascii (hasc (by simp)) (decNumberRest_ascii r).ends
  case identifier =>
    simp only [Option.some.injEq] at h; subst h
    exact ends_one_plus_notCont (identLen_notCont r)
  case identifier_or_keyword =>
    simp only [Option.some.injEq] at h; subst h
    exact ends_one_plus_notCont (identLen_notCont r)
  case asm_identifier =>
    (repeat' split at h) <;> (simp only [Option.some.injEq] at h; subst h; exact ends_one_plus_notCont (identLen_notCont r))
  case unicode_identifier =>
    simp only [Option.some.injEq] at h; subst h
    exact ends_one_plus_notCont (unicodeIdent_notCont r)
  case asm_label =>
    simp only [Option.some.injEq] at h; subst h
    exact Ends.cons_ascii (hasc (by simp)) (asciiUpTo_countWhile _ (fun x hx => (class_ascii x).2.2.2.1 hx) r).ends
  case asm_text_literal =>
    simp only [Option.some.injEq] at h; subst h
    exact Ends.cons_ascii (hasc (by simp)) (asmTextLiteralRest_ends r)
  case asm_number_literal =>
    simp only [Option.some.injEq] at h; subst h
    exact Ends.cons_ascii (hasc (by simp)) (asmNumberRest_ascii b r).ends
  case ampersand =>
    have hb := hasc (by simp)
    have hpre : AsciiUpTo (b :: r) (1 + countWhile (· == 0x26) r) :=
      AsciiUpTo.cons hb (asciiUpTo_countWhile _ (by intro x hx; simp only [beq_iff_eq] at hx; subst hx; decide) r)
    split at h
    · rename_i c r' hdrop
      have hd : (b :: r).drop (1 + countWhile (· == 0x26) r) = c :: r' := by
        rw [Nat.add_comm]; simpa using hdrop
      -- an end `1 + x` in `c :: r'` is an end `1 + a + 1 + x` in `b :: r`
      have lift : ∀ x, Ends (c :: r') (1 + x) → Ends (b :: r) (1 + countWhile (· == 0x26) r + 1 + x) := by
        intro x hx
        rw [← hd] at hx
        have := Ends.seq hpre.ends hx
        rwa [← Nat.add_assoc] at this
      have hdig : isDigit c = true → c < 0x80 := (class_ascii c).2.2.2.2.1
      have halpha : isAlpha c = true → c < 0x80 := (class_ascii c).2.2.2.2.2.1
      (repeat' split at h) <;> (simp only [Option.some.injEq] at h; subst h)
      · rename_i hc; simp only [beq_iff_eq] at hc; subst hc
        exact lift _ (Ends.cons_ascii (by decide) (asciiUpTo_countWhile _ (fun x hx => (class_ascii x).2.1 hx) r').ends)
      · rename_i hc; simp only [beq_iff_eq] at hc; subst hc
        exact lift _ (Ends.cons_ascii (by decide) (asciiUpTo_countWhile _ (fun x hx => (class_ascii x).2.2.1 hx) r').ends)
      · rename_i hc
        exact lift _ (Ends.cons_ascii (hdig hc) (decNumberRest_ascii r').ends)
      · exact lift _ (ends_one_plus_notCont (identLen_notCont r'))
      · exact lift _ (ends_one_plus_notCont (unicodeIdent_notCont r'))
      · exact hpre.ends
    · simp only [Option.some.injEq] at h; subst h
      exact hpre.ends


/-! ### the two ends of the blank runs -/

theorem clwr_last (l : Bytes) : countLeadingWsRev l = 0 ∨
    ∃ a, l[countLeadingWsRev l - 1]? = some a ∧ (a ≤ 0x20 ∨ a = 0xE3) := by
  induction l using countLeadingWsRev.induct with
  | case1 => left; simp [countLeadingWsRev]
  | case2 r ih =>
    right
    rw [clwr_triple]
    by_cases hz : countLeadingWsRev r = 0
    · rw [hz]; exact ⟨0xE3, by simp, Or.inr rfl⟩
    · rcases ih with h0 | ⟨a, ha, hc⟩
      · exact absurd h0 hz
      · refine ⟨a, ?_, hc⟩
        have e : countLeadingWsRev r + 3 - 1 = (countLeadingWsRev r - 1) + 3 := by omega
        rw [e]
        simpa using ha
  | case3 b r hne hle ih =>
    right
    rw [clwr_cons b r (fun t ht => by simp only [List.cons.injEq] at ht; exact hne t ht.1 ht.2)]
    simp only [hle, if_true]
    rcases ih with h0 | ⟨a, ha, hc⟩
    · rw [h0]; exact ⟨b, by simp, Or.inl (by simpa using hle)⟩
    · by_cases hz : countLeadingWsRev r = 0
      · rw [hz]; exact ⟨b, by simp, Or.inl (by simpa using hle)⟩
      · refine ⟨a, ?_, hc⟩
        have e : countLeadingWsRev r + 1 - 1 = (countLeadingWsRev r - 1) + 1 := by omega
        rw [e]
        simpa using ha
  | case4 b r hne hle =>
    left
    rw [clwr_cons b r (fun t ht => by simp only [List.cons.injEq] at ht; exact hne t ht.1 ht.2)]
    simp [hle]


theorem blankOrE3_notCont (a : UInt8) (h : a ≤ 0x20 ∨ a = 0xE3) : isCont a = false := by
  rcases h with h | rfl
  · have hall : ∀ n : Fin 256, UInt8.ofNat n.val ≤ 0x20 → isCont (UInt8.ofNat n.val) = false := by decide +kernel
    have := hall ⟨a.toNat, a.toNat_lt⟩
    simp only [UInt8.ofNat_toNat] at this
    exact this h
  · decide

/-- the trailing blanks of a text start at a byte that is not a continuation byte -/
theorem trailing_notCont (s : Bytes) : NotContAt s (s.length - countTrailingWs s) := by
  unfold countTrailingWs
  have hle := clwr_le s.reverse
  simp only [List.length_reverse] at hle
  rcases clwr_last s.reverse with h0 | ⟨a, ha, hc⟩
  · rw [h0]; exact notContAt_end s _ (by omega)
  · by_cases hz : countLeadingWsRev s.reverse = 0
    · rw [hz]; exact notContAt_end s _ (by omega)
    · intro b hb
      have hi : countLeadingWsRev s.reverse - 1 < s.length := by omega
      rw [List.getElem?_reverse hi] at ha
      have e : s.length - 1 - (countLeadingWsRev s.reverse - 1) = s.length - countLeadingWsRev s.reverse := by omega
      rw [e] at ha
      rw [ha] at hb
      simp only [Option.some.injEq] at hb
      subst hb
      exact blankOrE3_notCont a hc

/-- skipping leading blanks keeps the text well-formed -/
theorem valid_drop_leadingWs (l : Bytes) (hv : validUtf8 l = true) :
    validUtf8 (l.drop (countLeadingWs l)) = true := by
  induction l using countLeadingWs.induct with
  | case1 => simpa [countLeadingWs] using hv
  | case2 r ih =>
    rw [countLeadingWs]
    rw [validUtf8_unfold] at hv
    have hf : firstCharLen (0xE3 :: 0x80 :: 0x80 :: r) = some 3 := by
      simp [firstCharLen, isCont]
    rw [hf] at hv
    simp only [List.drop_succ_cons, List.drop_zero] at hv
    have := ih hv
    simpa [List.drop_succ_cons] using this
  | case3 b r hne hle ih =>
    have : countLeadingWs (b :: r) = countLeadingWs r + 1 := by
      rw [countLeadingWs]
      · simp [hle]
      · intro r' h; exact hne r' h
    rw [this]
    have hb : b < 0x80 := by
      have hall : ∀ n : Fin 256, UInt8.ofNat n.val ≤ 0x20 → UInt8.ofNat n.val < 0x80 := by decide +kernel
      have := hall ⟨b.toNat, b.toNat_lt⟩
      simp only [UInt8.ofNat_toNat] at this
      exact this (by simpa using hle)
    have := ih (valid_after_ascii b r hb hv)
    simpa using this
  | case4 b r hne hle =>
    have : countLeadingWs (b :: r) = 0 := by
      rw [countLeadingWs]
      · simp [hle]
      · intro r' h; exact hne r' h
    rw [this]; simpa using hv

/-- the dispatch tables send every non-ASCII byte to `unicode_identifier` -/
theorem lexerMap_ascii (b : UInt8) :
    (lexerMap.getD b.toNat .unknown ≠ .unicode_identifier → b < 0x80) ∧
    (asmLexerMap.getD b.toNat .unknown ≠ .unicode_identifier → b < 0x80) := by
  have hall : ∀ n : Fin 256,
      (lexerMap.getD (UInt8.ofNat n.val).toNat .unknown ≠ .unicode_identifier → UInt8.ofNat n.val < 0x80) ∧
      (asmLexerMap.getD (UInt8.ofNat n.val).toNat .unknown ≠ .unicode_identifier → UInt8.ofNat n.val < 0x80) := by
    decide +kernel
  have := hall ⟨b.toNat, b.toNat_lt⟩
  simpa only [UInt8.ofNat_toNat] using this

/-- one step: in well-formed text the blanks, the token and the rest are well-formed -/
theorem lexOne_boundaries (simd : Bool) (st : LexState) (inp : Bytes) (hv : validUtf8 inp = true)
    (ws e : Nat) (k : RawKind) (st' : LexState)
    (h : lexOne simd st inp = some (some (ws, e, k, st'))) :
    validUtf8 (inp.take ws) = true ∧ validUtf8 ((inp.take e).drop ws) = true ∧ validUtf8 (inp.drop e) = true := by
  have hok := (lexOne_ok simd st inp).2 ws e k st' h
  unfold lexOne at h
  simp only [] at h
  split at h
  · simp at h
  · rename_i b r hdrop
    split at h
    · simp at h
    · rename_i o ho
      simp only [Option.some.injEq, Prod.mk.injEq] at h
      obtain ⟨hws, he, _, _⟩ := h
      have hvd := valid_drop_leadingWs inp hv
      rw [hdrop] at hvd
      have hlen : (inp.drop (countLeadingWs inp)).length = r.length + 1 := by rw [hdrop]; simp
      simp only [List.length_drop] at hlen
      -- the trailing blanks start at an `Ends` offset of the token text
      have htrim : Ends (b :: r) (r.length + 1 - countTrailingWs inp) := by
        apply Ends.of_notCont
        intro c hc
        have htn := trailing_notCont inp
        apply htn c
        rw [← hdrop] at hc
        rw [List.getElem?_drop] at hc
        have ht := countTrailingWs_lt inp b r hdrop
        have e2 : countLeadingWs inp + (r.length + 1 - countTrailingWs inp) = inp.length - countTrailingWs inp := by omega
        rwa [e2] at hc
      have hasc : (if st.inAsm = true then asmLexerMap else lexerMap).getD b.toNat .unknown ≠ .unicode_identifier → b < 0x80 := by
        intro hs
        have hm := lexerMap_ascii b
        by_cases ha : st.inAsm = true
        · simp only [ha, if_true] at hs; exact hm.2 hs
        · simp only [ha] at hs; exact hm.1 hs
      have hends := runSub_ends _ _ _ _ _ _ _ _ ho hasc htrim
      have hbnd := runSub_bounds _ _ _ _ _ _ _ _ ho (countTrailingWs_lt inp b r hdrop) (by
        intro hs
        have hm := lexerMap_text_literal b
        by_cases ha : st.inAsm = true
        · simp only [ha, if_true] at hs; exact hm.2 hs
        · simp only [ha] at hs; exact hm.1 hs)
      have hnc := hends.notCont hvd hbnd.1
      -- split the token text at the token end, and the input at the token start
      have hsp2 := validUtf8_split (b :: r) o.len hvd (by simp only [List.length_cons]; omega) hnc
      have hnc0 : NotContAt inp (countLeadingWs inp) := by
        intro c hc
        have : (inp.drop (countLeadingWs inp))[0]? = some c := by simpa [List.getElem?_drop] using hc
        rw [hdrop] at this
        simp at this; subst this
        exact valid_head_notCont _ _ hvd
      have hsp1 := validUtf8_split inp (countLeadingWs inp) hv (by omega) hnc0
      subst hws he
      refine ⟨hsp1.1, ?_, ?_⟩
      · have : (inp.take (countLeadingWs inp + o.len)).drop (countLeadingWs inp) = (b :: r).take o.len := by
          rw [← hdrop, List.drop_take]; simp
        rw [this]; exact hsp2.1
      · have : inp.drop (countLeadingWs inp + o.len) = (b :: r).drop o.len := by
          rw [← hdrop, List.drop_drop]
        rw [this]; exact hsp2.2

theorem lexFuel_boundaries (simd : Bool) (fuel : Nat) (st : LexState) (inp : Bytes) (toks : List RawTok)
    (hv : validUtf8 inp = true) (h : lexFuel simd fuel st inp = some toks) :
    ∀ t ∈ toks, validUtf8 t.ws = true ∧ validUtf8 t.content = true := by
  induction fuel generalizing st inp toks with
  | zero => simp [lexFuel] at h
  | succ f ih =>
    unfold lexFuel at h
    split at h
    · simp at h
    · simp only [Option.some.injEq] at h; subst h
      intro t ht; simp at ht; subst ht
      exact ⟨hv, validUtf8_nil⟩
    · rename_i ws e kind st' heq
      have hb := lexOne_boundaries simd st inp hv ws e kind st' heq
      split at h
      · split at h
        · simp at h
        · rename_i rest hrest
          simp only [Option.some.injEq] at h; subst h
          intro t ht
          simp only [List.mem_cons] at ht
          rcases ht with rfl | ht
          · exact ⟨hb.1, hb.2.1⟩
          · exact ih st' (inp.drop e) rest hb.2.2 hrest t ht
      · simp at h

/-- **Token boundaries are character boundaries.**  For well-formed UTF-8 input the leading blanks and
    the content of every token are well-formed UTF-8: every offset at which the Rust scanner slices
    the `&str` is a character boundary (a slice elsewhere panics). -/
theorem lexWith_char_boundaries (simd : Bool) (inp : Bytes) (toks : List RawTok)
    (hv : validUtf8 inp = true) (h : lexWith simd inp = some toks) :
    ∀ t ∈ toks, validUtf8 t.ws = true ∧ validUtf8 t.content = true :=
  lexFuel_boundaries simd _ _ inp toks hv h

end Pasfmt
