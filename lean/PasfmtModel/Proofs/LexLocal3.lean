/-
  Locality of the scanning primitives, part 3: `text_literal`, the assembler literals, comments.
-/
import PasfmtModel.Proofs.LexLocal2

namespace Pasfmt

theorem countWhile_ge_all (p : UInt8 → Bool) (x s : Bytes) (h : x.length ≤ countWhile p (x ++ s)) :
    ∀ b ∈ x, p b = true := by
  induction x with
  | nil => simp
  | cons a x ih =>
    simp only [List.cons_append] at h
    unfold countWhile at h
    by_cases ha : p a = true
    · simp only [ha, if_true] at h
      intro b hb
      rcases List.mem_cons.1 hb with rfl | hb
      · exact ha
      · exact ih (by simp at h; omega) b hb
    · simp [ha] at h

/-- a run of quotes is consumed entirely by the single-line loop (in pairs, the last one opens a part) -/
theorem textLiteralLoop_quoteRun : ∀ (x : Bytes) (s : Bytes) (f : Nat), (∀ b ∈ x, b = 0x27) → (x ++ s).length < f →
    x.length ≤ (textLiteralLoop f (x ++ s)).1
  | [], _, _, _, _ => by simp
  | [q], s, f, hq, hf => by
    have : q = 0x27 := hq q (by simp)
    subst this
    cases f with
    | zero => simp at hf
    | succ f =>
      have := textLiteralLoop_pos f 0x27 s (Or.inl rfl)
      simpa using this
  | q1 :: q2 :: x, s, f, hq, hf => by
    have e1 : q1 = 0x27 := hq q1 (by simp)
    have e2 : q2 = 0x27 := hq q2 (by simp)
    subst e1 e2
    cases f with
    | zero => simp at hf
    | succ f =>
      rw [tll_succ]
      simp only [List.cons_append]
      rw [consumeEscapedChars_nohash _ _ (by intro r h; simp at h)]
      simp only [List.drop_zero]
      have hp : consumePascalStr (0x27 :: 0x27 :: (x ++ s)) = .cont 2 := by
        unfold consumePascalStr
        simp [findIdx]
      rw [hp]
      simp only [List.drop_succ_cons, List.drop_zero]
      have := textLiteralLoop_quoteRun x s f (fun b hb => hq b (by simp [hb])) (by simp at hf ⊢; omega)
      simp only [List.length_cons]
      omega

theorem textLiteral_pd (x s s' : Bytes) (h : (textLiteral (x ++ s)).1 + 2 ≤ x.length) :
    textLiteral (x ++ s') = textLiteral (x ++ s) := by
  by_cases hq : countWhile (· == 0x27) (x ++ s) < x.length
  · -- the run of opening quotes ends inside `x`
    have hqc := countWhile_pd (· == 0x27) x s s' hq
    unfold textLiteral at h ⊢
    simp only [hqc] at h ⊢
    generalize hqd : countWhile (· == 0x27) (x ++ s) = qc at *
    have hd : ∀ t : Bytes, (x ++ t).drop qc = x.drop qc ++ t := fun t => List.drop_append_of_le_length (by omega)
    have ht : ∀ t : Bytes, (x ++ t).take qc = x.take qc := fun t => List.take_append_of_le_length (by omega)
    rw [hd s, ht s] at h
    rw [hd s, hd s', ht s, ht s']
    obtain ⟨c, y, hy⟩ : ∃ c y, x.drop qc = c :: y := by
      cases hx : x.drop qc with
      | nil => have hl := congrArg List.length hx; simp only [List.length_drop, List.length_nil] at hl; omega
      | cons c y => exact ⟨c, y, rfl⟩
    rw [hy] at h ⊢
    simp only [List.cons_append] at h ⊢
    by_cases hc : (decide (qc ≥ 3) && qc % 2 == 1 && (c == 0x0D || c == 0x0A)) = true
    · simp only [hc, if_true] at h ⊢
      cases hf : findSub (x.take qc) (c :: (y ++ s)) with
      | none =>
        rw [hf] at h
        simp only [List.length_append] at h
        omega
      | some pos =>
        rw [hf] at h
        simp only at h
        have hlen : (x.take qc).length = qc := by simp; omega
        have hyl : (c :: y).length = x.length - qc := by rw [← hy]; simp
        have := findSub_pd (x.take qc) (c :: y) s s' pos (by simpa using hf) (by rw [hlen, hyl]; omega)
        simp only [List.cons_append] at this
        rw [this]
    · simp only [hc, Bool.false_eq_true, if_false] at h ⊢
      exact textLiteralLoop_pd _ _ x s s' (by omega) (by omega) h
  · -- impossible: `x` would consist of quotes only, and then the literal does not end two bytes before the end of `x`
    exfalso
    have hge : x.length ≤ countWhile (· == 0x27) (x ++ s) := by omega
    have hall := countWhile_ge_all _ x s hge
    have hall' : ∀ b ∈ x, b = 0x27 := fun b hb => by simpa using hall b hb
    have hrun := textLiteralLoop_quoteRun x s ((x ++ s).length + 1) hall' (by omega)
    unfold textLiteral at h
    simp only at h
    repeat' split at h
    all_goals (simp only [List.length_append] at h hrun hge; omega)

/-! ### assembler literals -/

theorem asmTextLiteralRest_other (b : UInt8) (h1 : b ≠ 0x5C) (h2 : b ≠ 0x22) (t : Bytes) :
    asmTextLiteralRest (b :: t) =
      if b == 0x0A || b == 0x0D then (0, .tUnterminated)
      else ((asmTextLiteralRest t).1 + 1, (asmTextLiteralRest t).2) := by
  rw [asmTextLiteralRest] <;> first
    | (split
       · rfl
       · cases asmTextLiteralRest t; rfl)
    | (intros; simp_all)

theorem asmTextLiteralRest_pd : ∀ (x s s' : Bytes), (asmTextLiteralRest (x ++ s)).1 + 1 ≤ x.length →
    asmTextLiteralRest (x ++ s') = asmTextLiteralRest (x ++ s)
  | [], _, _, h => by simp at h
  | [b], s, s', h => by
    simp only [List.cons_append, List.nil_append, List.length_cons, List.length_nil] at h ⊢
    by_cases h1 : b = 0x5C
    · subst h1
      cases s with
      | nil => simp [asmTextLiteralRest] at h
      | cons c r => rw [asmTextLiteralRest] at h; simp only at h; omega
    · by_cases h2 : b = 0x22
      · subst h2; simp [asmTextLiteralRest]
      · have e := asmTextLiteralRest_other b h1 h2
        rw [e, e] at *
        by_cases h3 : (b == 0x0A || b == 0x0D) = true
        · simp [h3]
        · simp only [h3, Bool.false_eq_true, if_false] at h; omega
  | b :: c :: x, s, s', h => by
    simp only [List.cons_append, List.length_cons] at h ⊢
    by_cases h1 : b = 0x5C
    · subst h1
      rw [asmTextLiteralRest] at h ⊢
      rw [asmTextLiteralRest]
      simp only at h ⊢
      have := asmTextLiteralRest_pd x s s' (by omega)
      rw [this]
    · by_cases h2 : b = 0x22
      · subst h2; simp [asmTextLiteralRest]
      · have e := asmTextLiteralRest_other b h1 h2
        rw [e, e] at *
        by_cases h3 : (b == 0x0A || b == 0x0D) = true
        · simp [h3]
        · simp only [h3, Bool.false_eq_true, if_false] at h ⊢
          have := asmTextLiteralRest_pd (c :: x) s s' (by simp only [List.cons_append, List.length_cons] at h ⊢; omega)
          simp only [List.cons_append] at this
          rw [this]

theorem asmNumberRest_pd (first : UInt8) (x s s' : Bytes) (h : (asmNumberRest first (x ++ s)).1 + 1 ≤ x.length) :
    asmNumberRest first (x ++ s') = asmNumberRest first (x ++ s) := by
  have hle : countHex (x ++ s) ≤ (asmNumberRest first (x ++ s)).1 := by
    unfold asmNumberRest
    simp only
    repeat' split
    all_goals simp
  have hcle : countHex (x ++ s) + 1 ≤ x.length := by omega
  have hc : countHex (x ++ s') = countHex (x ++ s) :=
    countWhile_pd isHexByte x s s' (by unfold countHex at hcle; omega)
  clear h hle
  unfold asmNumberRest
  simp only [hc]
  generalize countHex (x ++ s) = n at *
  have hd : ∀ t : Bytes, (x ++ t).drop n = x.drop n ++ t := fun t => List.drop_append_of_le_length (by omega)
  rw [hd s, hd s']
  obtain ⟨c, y, hy⟩ : ∃ c y, x.drop n = c :: y := by
    cases hx : x.drop n with
    | nil => have hl := congrArg List.length hx; simp only [List.length_drop, List.length_nil] at hl; omega
    | cons c y => exact ⟨c, y, rfl⟩
  rw [hy]
  simp only [List.cons_append]
  have hg : ∀ t : Bytes, (x ++ t).getD (n - 1) 0 = x.getD (n - 1) 0 := by
    intro t
    exact getD_append_left x t (n - 1) 0 (by omega)
  rw [hg s, hg s']

end Pasfmt
