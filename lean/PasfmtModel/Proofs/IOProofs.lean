import PasfmtModel.Model.IO

namespace Pasfmt.IO

/-! ### write protocol -/

theorem write_truncates (old bs : Bytes) (pos : Nat) :
    ((({ data := old, pos := pos } : FileSt).seekStart.write bs).setLen bs.length).data = bs := by
  simp [FileSt.seekStart, FileSt.write, FileSt.setLen, List.take_append]

/-! ### UTF-16 -/

theorem decode_cons_bmp (u : Nat) (rest : List Nat) (h : isBmpUnit u = true) :
    decodeUnits16 (u :: rest) = (decodeUnits16 rest).map (u :: ·) := by
  cases rest with
  | nil => simp [decodeUnits16, h]
  | cons l r => simp [decodeUnits16, h]

theorem decode_cons_pair (hi lo : Nat) (rest : List Nat) (h1 : isBmpUnit hi = false)
    (h2 : isHighSur hi = true) (h3 : isLowSur lo = true) :
    decodeUnits16 (hi :: lo :: rest) = (decodeUnits16 rest).map (pairValue hi lo :: ·) := by
  simp [decodeUnits16, h1, h2, h3]

theorem units16_decode (c : Nat) (hc : isScalar c = true) (rest : List Nat) :
    decodeUnits16 (units16 c ++ rest) = (decodeUnits16 rest).map (c :: ·) := by
  unfold isScalar at hc
  simp only [Bool.or_eq_true, Bool.and_eq_true, decide_eq_true_eq] at hc
  unfold units16
  split
  · rename_i hlt
    have : isBmpUnit c = true := by
      unfold isBmpUnit; simp only [Bool.or_eq_true, decide_eq_true_eq]; omega
    exact decode_cons_bmp c rest this
  · rename_i hge
    have h1 : isBmpUnit (0xD800 + (c - 0x10000) / 0x400) = false := by
      unfold isBmpUnit; simp only [Bool.or_eq_false_iff, decide_eq_false_iff_not]; omega
    have h2 : isHighSur (0xD800 + (c - 0x10000) / 0x400) = true := by
      unfold isHighSur; simp only [Bool.and_eq_true, decide_eq_true_eq]; omega
    have h3 : isLowSur (0xDC00 + (c - 0x10000) % 0x400) = true := by
      unfold isLowSur; simp only [Bool.and_eq_true, decide_eq_true_eq]; omega
    have hv : pairValue (0xD800 + (c - 0x10000) / 0x400) (0xDC00 + (c - 0x10000) % 0x400) = c := by
      unfold pairValue; omega
    show decodeUnits16 (_ :: _ :: rest) = _
    rw [decode_cons_pair _ _ rest h1 h2 h3, hv]

theorem decode_encode_units16 (s : List Nat) (hs : ∀ c ∈ s, isScalar c = true) :
    decodeUnits16 (encodeUnits16 s) = some s := by
  induction s with
  | nil => rfl
  | cons c r ih =>
    unfold encodeUnits16 at *
    rw [List.flatMap_cons, units16_decode c (hs c (by simp)), ih (fun x hx => hs x (by simp [hx]))]
    rfl

theorem unit_lt (c : Nat) (hc : isScalar c = true) : ∀ u ∈ units16 c, u < 65536 := by
  unfold isScalar at hc
  simp only [Bool.or_eq_true, Bool.and_eq_true, decide_eq_true_eq] at hc
  unfold units16
  intro u hu
  split at hu
  · simp only [List.mem_cons, List.not_mem_nil, or_false] at hu; omega
  · simp only [List.mem_cons, List.not_mem_nil, or_false] at hu
    rcases hu with h | h <;> omega

theorem toNat_ofNat_lt (n : Nat) (h : n < 256) : (UInt8.ofNat n).toNat = n := by
  rw [UInt8.toNat_ofNat']
  exact Nat.mod_eq_of_lt h

theorem bytesToUnits_unitBytes (be : Bool) (u : Nat) (hu : u < 65536) (rest : Bytes) :
    bytesToUnits be (unitBytes be u ++ rest) = (bytesToUnits be rest).map (u :: ·) := by
  unfold unitBytes
  have h1 : (UInt8.ofNat (u / 256)).toNat = u / 256 := toNat_ofNat_lt _ (by omega)
  have h2 : (UInt8.ofNat (u % 256)).toNat = u % 256 := toNat_ofNat_lt _ (by omega)
  have hrec : u / 256 * 256 + u % 256 = u := by omega
  cases be
  · simp only [Bool.false_eq_true, if_false, List.cons_append, List.nil_append, bytesToUnits, h1, h2, hrec]
  · simp only [if_true, List.cons_append, List.nil_append, bytesToUnits, h1, h2, hrec]

theorem bytesToUnits_flatMap (be : Bool) (us : List Nat) (hu : ∀ u ∈ us, u < 65536) :
    bytesToUnits be (us.flatMap (unitBytes be)) = some us := by
  induction us with
  | nil => rfl
  | cons u r ih =>
    rw [List.flatMap_cons, bytesToUnits_unitBytes be u (hu u (by simp)), ih (fun x hx => hu x (by simp [hx]))]
    rfl

/-- the hand-written UTF-16 encoders are inverted by decoding, for every text, both byte orders,
    surrogate pairs included -/
theorem utf16_roundtrip (be : Bool) (s : List Nat) (hs : ∀ c ∈ s, isScalar c = true) :
    decode16 be (encode16 be s) = some s := by
  unfold decode16 encode16
  have hu : ∀ u ∈ encodeUnits16 s, u < 65536 := by
    intro u hu
    unfold encodeUnits16 at hu
    rw [List.mem_flatMap] at hu
    obtain ⟨c, hc, huc⟩ := hu
    exact unit_lt c (hs c hc) u huc
  rw [bytesToUnits_flatMap be _ hu]
  exact decode_encode_units16 s hs

/-! ### BOM -/

theorem bom_utf8_first (rest : Bytes) : sniffBom (0xEF :: 0xBB :: 0xBF :: rest) = some (.utf8, 3) := rfl
theorem bom_utf16le (rest : Bytes) : sniffBom (0xFF :: 0xFE :: rest) = some (.utf16le, 2) := rfl
theorem bom_utf16be (rest : Bytes) : sniffBom (0xFE :: 0xFF :: rest) = some (.utf16be, 2) := rfl

/-- a detected BOM decides the encoding whatever is configured -/
theorem bom_overrides_config {T : Type} (C : Codec T) (e1 e2 : Enc) (bs : Bytes) (h : (sniffBom bs).isSome = true) :
    (decodeFile C e1 bs).map (·.enc) = (decodeFile C e2 bs).map (·.enc) ∧
    (decodeFile C e1 bs).map (·.bom) = (decodeFile C e2 bs).map (·.bom) := by
  unfold decodeFile
  cases hs : sniffBom bs with
  | none => rw [hs] at h; simp at h
  | some p => obtain ⟨e, n⟩ := p; simp

/-! ### modes -/

variable {T : Type} [DecidableEq T]

/-- malformed input: file untouched, nothing written, failure reported -/
theorem undecodable_untouched (C : Codec T) (fmt : T → T) (u8 : T → Bytes) (cfgEnc : Enc) (mode : Mode) (hdr content : Bytes)
    (h : decodeFile C cfgEnc content = none) :
    runFile C fmt u8 cfgEnc mode hdr content = { file := content, wrote := false, stdout := [], failed := true } := by
  unfold runFile; rw [h]

/-- stdout and check modes never modify the file -/
theorem readonly_modes_no_write (C : Codec T) (fmt : T → T) (u8 : T → Bytes) (cfgEnc : Enc) (mode : Mode) (hdr content : Bytes)
    (hm : mode ≠ .files) :
    (runFile C fmt u8 cfgEnc mode hdr content).file = content ∧
    (runFile C fmt u8 cfgEnc mode hdr content).wrote = false := by
  unfold runFile
  cases hd : decodeFile C cfgEnc content with
  | none => simp
  | some d =>
    cases mode with
    | files => exact absurd rfl hm
    | stdout => simp
    | check => simp

/-- check mode fails exactly when the decoded text differs from its formatting (or is undecodable) -/
theorem check_exit_iff (C : Codec T) (fmt : T → T) (u8 : T → Bytes) (cfgEnc : Enc) (hdr content : Bytes) :
    (runFile C fmt u8 cfgEnc .check hdr content).failed = checkStdin C fmt cfgEnc content := by
  unfold runFile checkStdin
  cases hd : decodeFile C cfgEnc content <;> simp

/-- files mode leaves exactly the bytes that formatting the same content from standard input
    prints — no stale tail whatever the old length — when the file is rewritten; and leaves the file
    alone when the text is already formatted, which is the same thing iff re-encoding the decoded
    text reproduces the bytes (`RoundTrip`; see known finding F8 for a legacy encoding where it does not) -/
theorem files_eq_stdin_stdout (C : Codec T) (fmt : T → T) (u8 : T → Bytes) (cfgEnc : Enc) (hdr content out : Bytes)
    (hout : runStdin C fmt cfgEnc content = some out)
    (hrt : ∀ d, decodeFile C cfgEnc content = some d → fmt d.text = d.text → writeBytes C d d.text = some content) :
    (runFile C fmt u8 cfgEnc .files hdr content).file = out ∧
    (runFile C fmt u8 cfgEnc .files hdr content).failed = false := by
  unfold runStdin at hout
  unfold runFile
  cases hd : decodeFile C cfgEnc content with
  | none => rw [hd] at hout; exact absurd hout (by simp)
  | some d =>
    rw [hd] at hout
    by_cases heq : d.text = fmt d.text
    · have h1 := hrt d hd heq.symm
      have h2 : writeBytes C d (fmt d.text) = some content := by rw [← heq]; exact h1
      have h3 : out = content := by
        have : some out = some content := by rw [← hout]; exact h2
        exact Option.some.inj this
      simp only [if_pos heq]
      exact ⟨h3.symm, trivial⟩
    · have h2 : writeBytes C d (fmt d.text) = some out := hout
      simp only [if_neg heq, h2]
      exact ⟨write_truncates content out content.length, trivial⟩

/-- mode defaults and the rejected combination -/
theorem mode_defaults :
    effectiveMode none true = some .stdout ∧ effectiveMode none false = some .files ∧
    effectiveMode (some .files) true = none ∧ effectiveMode (some .check) true = some .check ∧
    effectiveMode (some .stdout) false = some .stdout := by decide

/-! ### batch -/

/-- the result of a file does not depend on what the thread's buffer held before -/
theorem step_buf_irrelevant (run : Bytes → Outcome) (b1 b2 content : Bytes) :
    (workerStep run b1 content).2 = (workerStep run b2 content).2 := rfl

/-- a worker gives every file the result it gets alone, whatever buffer it starts with -/
theorem worker_eq_single (run : Bytes → Outcome) (buf : Bytes) (files : List Bytes) :
    workerRun run buf files = files.map run := by
  induction files generalizing buf with
  | nil => rfl
  | cons c r ih => simp [workerRun, workerStep, ih]

/-- Any schedule: an assignment of the files to workers with any per-worker order gives each file
    the result of formatting it alone; the run fails iff some file fails. -/
theorem schedule_independent (run : Bytes → Outcome) (workers : List (Bytes × List Bytes)) :
    workers.flatMap (fun w => workerRun run w.1 w.2) = (workers.flatMap (·.2)).map run := by
  induction workers with
  | nil => rfl
  | cons w r ih =>
    rw [List.flatMap_cons, List.flatMap_cons, List.map_append, worker_eq_single, ih]

theorem exit_iff_some_failed (run : Bytes → Outcome) (workers : List (Bytes × List Bytes)) :
    ((workers.flatMap (fun w => workerRun run w.1 w.2)).any (·.failed)) =
      ((workers.flatMap (·.2)).any (fun f => (run f).failed)) := by
  rw [schedule_independent, List.any_map]; rfl

/-! ### configuration -/

/-- the nearest ancestor (working directory first) that contains the file wins -/
theorem nearest_ancestor {D : Type} (hasFile : D → Bool) (pre : List D) (d : D) (post : List D)
    (hpre : ∀ x ∈ pre, hasFile x = false) (hd : hasFile d = true) :
    findConfig hasFile (pre ++ d :: post) = some d := by
  induction pre with
  | nil => simp [findConfig, hd]
  | cons a r ih =>
    simp only [List.cons_append, findConfig, hpre a (by simp)]
    exact ih (fun x hx => hpre x (by simp [hx]))

theorem no_config_found {D : Type} (hasFile : D → Bool) (dirs : List D) (h : ∀ x ∈ dirs, hasFile x = false) :
    findConfig hasFile dirs = none := by
  induction dirs with
  | nil => rfl
  | cons a r ih => simp [findConfig, h a (by simp), ih (fun x hx => h x (by simp [hx]))]

variable {K V : Type} [DecidableEq K]

theorem lookupLast_append_some (k : K) (a b : List (K × V)) (v : V) (h : lookupLast k b = some v) :
    lookupLast k (a ++ b) = some v := by
  induction a with
  | nil => exact h
  | cons x r ih => obtain ⟨k', v'⟩ := x; simp [lookupLast, ih]

theorem lookupLast_snoc (k : K) (a : List (K × V)) (v : V) : lookupLast k (a ++ [(k, v)]) = some v :=
  lookupLast_append_some k a [(k, v)] v (by simp [lookupLast])

/-- the last `-C` for a key wins over everything -/
theorem precedence_override (S : ConfigSpec K V) (file ov : List (K × V)) (k : K) (v : V) :
    effective S file (ov ++ [(k, v)]) k = v := by
  unfold effective; rw [lookupLast_snoc]

/-- without an override the file's (last) value wins over the default -/
theorem precedence_file (S : ConfigSpec K V) (file ov : List (K × V)) (k : K) (v : V)
    (hov : lookupLast k ov = none) (hf : lookupLast k file = some v) : effective S file ov k = v := by
  unfold effective; rw [hov, hf]

theorem precedence_default (S : ConfigSpec K V) (file ov : List (K × V)) (k : K)
    (hov : lookupLast k ov = none) (hf : lookupLast k file = none) : effective S file ov k = S.default k := by
  unfold effective; rw [hov, hf]

/-- an unknown key anywhere is rejected -/
theorem unknown_rejected (S : ConfigSpec K V) (file ov : List (K × V)) (k : K) (v : V)
    (hmem : (k, v) ∈ file ++ ov) (hk : S.known k = false) : configOk S file ov = false := by
  unfold configOk
  rw [List.all_eq_false]
  exact ⟨(k, v), hmem, by simp [hk]⟩

/-- equal effective configurations: how a value was specified does not matter -/
theorem equal_effective (S : ConfigSpec K V) (f1 o1 f2 o2 : List (K × V))
    (h : ∀ k, effective S f1 o1 k = effective S f2 o2 k) :
    (fun k => effective S f1 o1 k) = (fun k => effective S f2 o2 k) := funext h

end Pasfmt.IO
