/-
  The multi-line string re-indenter only changes blanks: for text without a dangling `E3` byte
  (in particular well-formed UTF-8) `mlsRewrite` keeps the sequence of non-blank characters.
  This derives the content clause of the wrapper frame (`WrapRel`) from the exact content model
  `wrapContentB`, which the correspondence compares on every case.
-/
import PasfmtModel.Proofs.PipelineC01
import PasfmtModel.Proofs.TrailingWs
import PasfmtModel.Model.Contracts

namespace Pasfmt

/-! ### splitting `nd` at ASCII bytes -/

theorem nd_split_ascii (x : Bytes) (a : UInt8) (y : Bytes) (ha : a < 0x80) (h : nd (x ++ a :: y) = true) :
    nd x = true ∧ nd y = true := by
  have hx : nd x = true := by
    have h' : nd ((x ++ [a]) ++ y) = true := by simpa using h
    -- peel `y` is not possible directly; use the ASCII-suffix lemma on `x ++ [a]` after showing it
    induction x using nd.induct with
    | case1 => rfl
    | case2 b1 b2 r ih =>
      simp only [List.cons_append, nd, Bool.and_eq_true] at h h' ⊢
      exact ⟨h.1, ih h.2 (by simpa using h.2)⟩
    | case3 t hne =>
      -- `E3` followed by fewer than two bytes inside `x`: the next byte of the whole text is `a` (ASCII)
      exfalso
      cases t with
      | nil =>
        simp only [List.cons_append, List.nil_append] at h
        cases y with
        | nil => simp [nd] at h
        | cons c y' =>
          simp only [nd, Bool.and_eq_true] at h
          have := (ascii_not_cont ha).1
          rw [this] at h; simp at h
      | cons c t' =>
        cases t' with
        | nil =>
          simp only [List.cons_append, List.nil_append, nd, Bool.and_eq_true] at h
          have := (ascii_not_cont ha).1
          rw [this] at h; simp at h
        | cons d t'' => exact hne c d t'' rfl
    | case4 b r hne1 hne2 ih =>
      have hb : b ≠ 0xE3 := fun e => hne2 e
      rw [List.cons_append, nd_cons_ne _ _ hb] at h
      rw [nd_cons_ne _ _ hb]
      exact ih h (by simpa using h)
  refine ⟨hx, ?_⟩
  rw [nd_append x _ hx, nd_cons_ne _ _ (ascii_not_cont ha).2] at h
  exact h

theorem allLe20_ascii {g : Bytes} (h : AllLe20 g) : AllAscii g := by
  intro b hb
  have hall : ∀ n : Fin 256, UInt8.ofNat n.val ≤ 0x20 → UInt8.ofNat n.val < 0x80 := by decide +kernel
  have := hall ⟨b.toNat, b.toNat_lt⟩
  simp only [UInt8.ofNat_toNat] at this
  exact this (h b hb)

theorem allLe20_nd {g : Bytes} (h : AllLe20 g) : nd g = true := nd_ascii g (allLe20_ascii h)

/-! ### blank units -/

theorem blankUnits_nd {w : Bytes} (h : BlankUnits w) : nd w = true := by
  induction h with
  | nil => rfl
  | blank b w hb _ ih =>
    have : b ≠ 0xE3 := by intro e; subst e; exact absurd hb (by decide)
    rw [nd_cons_ne _ _ this]; exact ih
  | wide w _ ih => simp [nd, isCont, ih]

theorem blankUnits_gap {w : Bytes} (h : BlankUnits w) : Gap w := by
  induction h with
  | nil => exact Gap.nil
  | blank b w hb _ ih =>
    intro x; rw [List.cons_append, stripBlank_cons_le _ _ hb]; exact ih x
  | wide w _ ih =>
    intro x
    have : (0xE3 :: 0x80 :: 0x80 :: w) ++ x = [0xE3, 0x80, 0x80] ++ (w ++ x) := by simp
    rw [this, Gap.u3000]; exact ih x

/-- a prefix of a blank-unit sequence that has no dangling `E3` is blank -/
theorem prefix_blankUnits_blank {w : Bytes} (hw : BlankUnits w) (p : Bytes) (hp : p <+: w)
    (hnd : nd p = true) : stripBlank p = [] := by
  induction hw generalizing p with
  | nil =>
    have : p = [] := List.prefix_nil.1 hp
    subst this; rfl
  | blank b w hb _ ih =>
    cases p with
    | nil => rfl
    | cons c p' =>
      obtain ⟨t, ht⟩ := hp
      simp only [List.cons_append, List.cons.injEq] at ht
      obtain ⟨rfl, ht⟩ := ht
      have hne : c ≠ 0xE3 := by intro e; subst e; exact absurd hb (by decide)
      rw [nd_cons_ne _ _ hne] at hnd
      rw [stripBlank_cons_le _ _ hb]
      exact ih p' ⟨t, ht⟩ hnd
  | wide w _ ih =>
    obtain ⟨t, ht⟩ := hp
    match p, ht, hnd with
    | [], _, _ => rfl
    | [c], ht, hnd =>
      simp only [List.cons_append, List.nil_append, List.cons.injEq] at ht
      obtain ⟨rfl, _⟩ := ht
      simp [nd] at hnd
    | [c, d], ht, hnd =>
      simp only [List.cons_append, List.nil_append, List.cons.injEq] at ht
      obtain ⟨rfl, rfl, _⟩ := ht
      simp [nd] at hnd
    | c :: d :: e :: p', ht, hnd =>
      simp only [List.cons_append, List.cons.injEq] at ht
      obtain ⟨rfl, rfl, rfl, ht⟩ := ht
      simp only [nd, Bool.and_eq_true] at hnd
      simp only [stripBlank]
      exact ih p' ⟨t, ht⟩ hnd.2


/-! ### the pieces of `lines_custom` -/

theorem isNlCr_le20 {t : UInt8} (h : isNlCr t = true) : t ≤ 0x20 := by
  simp only [isNlCr, Bool.or_eq_true, beq_iff_eq] at h
  rcases h with rfl | rfl <;> decide

/-- ends with a line-break byte -/
def EndsNl (p : Bytes) : Prop := ∃ q t, p = q ++ [t] ∧ isNlCr t = true

/-- every piece but the last ends with a line-break byte -/
inductive Pieces : List Bytes → Prop
  | nil : Pieces []
  | single (p : Bytes) : Pieces [p]
  | cons (p : Bytes) (rest : List Bytes) : EndsNl p → Pieces rest → Pieces (p :: rest)

theorem splitCustomGo_pieces (skip : Bool) (cur s : Bytes) : Pieces (splitCustomGo skip cur s) := by
  induction s generalizing skip cur with
  | nil =>
    unfold splitCustomGo
    split
    · exact Pieces.nil
    · exact Pieces.single _
  | cons c r ih =>
    unfold splitCustomGo
    split
    · exact ih _ _
    · split
      · rename_i hc
        exact Pieces.cons _ _ ⟨cur.reverse, c, by simp, hc⟩ (ih _ _)
      · exact ih _ _

theorem splitCustomGo_flatten (skip : Bool) (cur s : Bytes) :
    (splitCustomGo skip cur s).flatten = cur.reverse ++ s := by
  induction s generalizing skip cur with
  | nil =>
    unfold splitCustomGo
    split
    · rename_i h; simp at h; subst h; rfl
    · simp
  | cons c r ih =>
    unfold splitCustomGo
    split
    · rw [ih]; simp
    · split
      · rw [List.flatten_cons, ih]; simp
      · rw [ih]; simp

/-- the pieces of a text without dangling `E3`: none has one, and blank-stripping distributes -/
theorem pieces_nd {ps : List Bytes} (hP : Pieces ps) (h : nd ps.flatten = true) :
    (∀ p ∈ ps, nd p = true) ∧ stripBlank ps.flatten = (ps.map stripBlank).flatten := by
  induction hP with
  | nil => simp [stripBlank]
  | single p =>
    simp only [List.flatten_cons, List.flatten_nil, List.append_nil] at h
    simp [h]
  | cons p rest hE _ ih =>
    obtain ⟨q, t, rfl, ht⟩ := hE
    have hta : t < 0x80 := allLe20_ascii (g := [t]) (by intro b hb; simp at hb; subst hb; exact isNlCr_le20 ht) t (by simp)
    rw [List.flatten_cons] at h
    have h' : nd (q ++ t :: rest.flatten) = true := by simpa using h
    obtain ⟨hq, hR⟩ := nd_split_ascii q t _ hta h'
    have hp : nd (q ++ [t]) = true := by
      rw [nd_append q _ hq]; exact nd_ascii [t] (by intro b hb; simp at hb; subst hb; exact hta)
    obtain ⟨ih1, ih2⟩ := ih hR
    refine ⟨?_, ?_⟩
    · intro p' hp'
      rcases List.mem_cons.1 hp' with rfl | hm
      · exact hp
      · exact ih1 p' hm
    · rw [List.flatten_cons, nd_closed _ hp, ih2]; simp

theorem trimNlCr_decomp (p : Bytes) : ∃ a b, p = a ++ trimNlCr p ++ b ∧ AllLe20 a ∧ AllLe20 b := by
  refine ⟨p.takeWhile isNlCr, (((p.dropWhile isNlCr).reverse).takeWhile isNlCr).reverse, ?_, ?_, ?_⟩
  · unfold trimNlCr
    have h1 : p = p.takeWhile isNlCr ++ p.dropWhile isNlCr := (List.takeWhile_append_dropWhile).symm
    have h2 : (p.dropWhile isNlCr) =
        ((p.dropWhile isNlCr).reverse.dropWhile isNlCr).reverse ++ ((p.dropWhile isNlCr).reverse.takeWhile isNlCr).reverse := by
      rw [← List.reverse_append, List.takeWhile_append_dropWhile, List.reverse_reverse]
    rw [List.append_assoc, ← h2]; exact h1
  · intro b hb; exact isNlCr_le20 (mem_takeWhile_imp hb)
  · intro b hb
    rw [List.mem_reverse] at hb
    exact isNlCr_le20 (mem_takeWhile_imp hb)

theorem trimNlCr_nd (p : Bytes) (h : nd p = true) :
    nd (trimNlCr p) = true ∧ stripBlank (trimNlCr p) = stripBlank p := by
  obtain ⟨a, b, hp, ha, hb⟩ := trimNlCr_decomp p
  have h1 : nd (trimNlCr p ++ b) = true := by
    rw [hp, List.append_assoc, nd_append a _ (allLe20_nd ha)] at h; exact h
  have hl := nd_of_append_ascii _ b (allLe20_ascii hb) h1
  refine ⟨hl, ?_⟩
  conv => rhs; rw [hp]
  rw [List.append_assoc, Gap.of_allLe20 ha, nd_closed _ hl, (Gap.of_allLe20 hb).blankOnly]
  simp


/-! ### the rewriting loop -/

structure BlankSettings (S : Settings) : Prop where
  nl : AllLe20 S.nlStr
  ind : AllLe20 S.indStr
  cont : AllLe20 S.contStr

theorem allLe20_replicateBytes {s : Bytes} (h : AllLe20 s) (n : Nat) : AllLe20 (replicateBytes n s) := by
  intro b hb
  unfold replicateBytes at hb
  rw [List.mem_flatten] at hb
  obtain ⟨l, hl, hbl⟩ := hb
  rw [List.mem_replicate] at hl
  rw [hl.2] at hbl
  exact h b hbl

theorem allLe20_append {a b : Bytes} (ha : AllLe20 a) (hb : AllLe20 b) : AllLe20 (a ++ b) := by
  intro x hx
  rcases List.mem_append.1 hx with h | h
  · exact ha x h
  · exact hb x h

theorem rewriteLines_sim (S : Settings) (hS : BlankSettings S) (ind cont : Nat) (base : Bytes)
    (hbase : BlankUnits base) (lines : List Bytes) (R : Bytes)
    (hnd : ∀ l ∈ lines, nd l = true) (h : rewriteLines S ind cont base lines = some R) :
    nd R = true ∧ stripBlank R = (lines.map stripBlank).flatten := by
  induction lines generalizing R with
  | nil =>
    simp only [rewriteLines, Option.some.injEq] at h
    subst h; simp [nd, stripBlank]
  | cons line rest ih =>
    have hline := hnd line (by simp)
    have hrest : ∀ l ∈ rest, nd l = true := fun l hl => hnd l (by simp [hl])
    unfold rewriteLines at h
    split at h
    · rename_i hpre
      -- `line = base ++ stripped`
      have hp : base <+: line := List.isPrefixOf_iff_prefix.1 hpre
      have hline_eq : line = base ++ line.drop base.length := by
        obtain ⟨t, ht⟩ := hp
        rw [← ht]; simp
      have hstr_nd : nd (line.drop base.length) = true := by
        rw [hline_eq, nd_append base _ (blankUnits_nd hbase)] at hline; exact hline
      have hstr_strip : stripBlank line = stripBlank (line.drop base.length) := by
        conv => lhs; rw [hline_eq]
        exact blankUnits_gap hbase _
      simp only [] at h
      split at h
      · simp at h
      · rename_i tail htail
        simp only [Option.some.injEq] at h
        obtain ⟨ihnd, ihs⟩ := ih tail hrest htail
        have hpad : AllLe20 (replicateBytes ind S.indStr ++ replicateBytes cont S.contStr) :=
          allLe20_append (allLe20_replicateBytes hS.ind _) (allLe20_replicateBytes hS.cont _)
        subst h
        split
        · rename_i hempty
          have : line.drop base.length = [] := by simpa using hempty
          refine ⟨?_, ?_⟩
          · simp only [List.append_nil]
            rw [nd_append _ _ (allLe20_nd hS.nl)]; exact ihnd
          · simp only [List.append_nil, List.map_cons, List.flatten_cons]
            rw [Gap.of_allLe20 hS.nl, ihs, hstr_strip, this]; simp [stripBlank]
        · have hi := allLe20_replicateBytes hS.ind ind
          have hc := allLe20_replicateBytes hS.cont cont
          refine ⟨?_, ?_⟩
          · simp only [List.append_assoc]
            rw [nd_append _ _ (allLe20_nd hS.nl), nd_append _ _ (allLe20_nd hi), nd_append _ _ (allLe20_nd hc),
              nd_append _ _ hstr_nd]
            exact ihnd
          · simp only [List.map_cons, List.flatten_cons, List.append_assoc]
            rw [Gap.of_allLe20 hS.nl, Gap.of_allLe20 hi, Gap.of_allLe20 hc, nd_closed _ hstr_nd, ihs, hstr_strip]
    · split at h
      · rename_i hpre2
        -- the line is a prefix of the closing indentation: it is blank
        have hp : line <+: base := List.isPrefixOf_iff_prefix.1 hpre2
        have hblank := prefix_blankUnits_blank hbase line hp hline
        simp only [Option.map_eq_some_iff] at h
        obtain ⟨tail, htail, rfl⟩ := h
        obtain ⟨ihnd, ihs⟩ := ih tail hrest htail
        refine ⟨?_, ?_⟩
        · rw [nd_append _ _ (allLe20_nd hS.nl)]; exact ihnd
        · simp only [List.map_cons, List.flatten_cons]
          rw [Gap.of_allLe20 hS.nl, ihs, hblank]; simp
      · simp at h

/-- **The re-indenter only changes blanks.** -/
theorem mlsRewrite_sim (S : Settings) (hS : BlankSettings S) (content : Bytes) (ind cont : Nat) (c' : Bytes)
    (h : mlsRewrite S content ind cont = some c') : Sim content c' := by
  intro hnd
  unfold mlsRewrite at h
  simp only [] at h
  split at h
  · simp at h
  · split at h
    · rename_i out hout
      split at h
      · simp only [Option.some.injEq] at h; subst h
        unfold tryRewriteString at hout
        have hbase := blankUnits_leadingWs (lastLineOf content)
        have hP := splitCustomGo_pieces false [] content
        have hfl := splitCustomGo_flatten false [] content
        simp only [List.reverse_nil, List.nil_append] at hfl
        have hpn := pieces_nd hP (by rw [hfl]; exact hnd)
        rw [hfl] at hpn
        have hlines_nd : ∀ l ∈ linesCustom content, nd l = true := by
          intro l hl
          unfold linesCustom at hl
          rw [List.mem_map] at hl
          obtain ⟨p, hp, rfl⟩ := hl
          exact (trimNlCr_nd p (hpn.1 p hp)).1
        have hlines_strip : ((linesCustom content).map stripBlank).flatten = stripBlank content := by
          rw [hpn.2]
          unfold linesCustom
          rw [List.map_map]
          congr 1
          apply List.map_congr_left
          intro p hp
          exact (trimNlCr_nd p (hpn.1 p hp)).2
        cases hlc : linesCustom content with
        | nil =>
          rw [hlc] at hout hlines_strip
          simp only [Option.some.injEq] at hout; subst hout
          refine ⟨rfl, ?_⟩
          unfold foldStrip
          rw [← hlines_strip]; rfl
        | cons first rest =>
          rw [hlc] at hout hlines_nd hlines_strip
          simp only [Option.map_eq_some_iff] at hout
          obtain ⟨R, hR, rfl⟩ := hout
          have hfirst := hlines_nd first (by simp)
          obtain ⟨hRnd, hRs⟩ := rewriteLines_sim S hS ind cont _ hbase rest R
            (fun l hl => hlines_nd l (by simp [hl])) hR
          refine ⟨?_, ?_⟩
          · rw [nd_append _ _ hfirst]; exact hRnd
          · unfold foldStrip
            rw [nd_closed _ hfirst, hRs, ← hlines_strip]; simp
      · simp at h
    · simp at h

theorem mlsTok_sim (S : Settings) (hS : BlankSettings S) (fm : Bool) (t : FTok) (ind cont : Nat) :
    Sim t.tok.content (mlsTok S fm t ind cont) := by
  unfold mlsTok
  split
  · cases hr : mlsRewrite S t.tok.content ind cont with
    | none => simpa using Sim.refl _
    | some c' => simpa using mlsRewrite_sim S hS _ _ _ _ hr
  · exact Sim.refl _

theorem settings_blank (c : Config) : BlankSettings c.settings := by
  unfold Config.settings
  have hnl : AllLe20 (if c.crlf = true then [0x0D, 0x0A] else [0x0A] : Bytes) := by
    split
    · intro b hb; simp at hb; rcases hb with rfl | rfl <;> decide
    · intro b hb; simp at hb; subst hb; decide
  simp only
  split
  · exact ⟨hnl, by intro b hb; simp at hb; rw [hb]; decide,
      by intro b hb; rw [List.mem_replicate] at hb; rw [hb.2]; decide⟩
  · exact ⟨hnl, by intro b hb; rw [List.mem_replicate] at hb; rw [hb.2]; decide,
      by intro b hb; rw [List.mem_replicate] at hb; rw [hb.2]; decide⟩

/-- the exact content model evaluated on every case implies the content clause of the frame -/
theorem wrapContentB_sim (cfg : Config) (ft ft' : FT) (h : wrapContentB cfg ft ft' = true) :
    All2 (fun t t' => Sim t.tok.content t'.tok.content) ft ft' := by
  unfold wrapContentB at h
  induction ft generalizing ft' with
  | nil =>
    cases ft' with
    | nil => exact .nil
    | cons _ _ => simp [all2B] at h
  | cons t r ih =>
    cases ft' with
    | nil => simp [all2B] at h
    | cons t' r' =>
      simp only [all2B, Bool.and_eq_true, beq_iff_eq] at h
      refine .cons ?_ (ih r' h.2)
      rw [h.1.2]
      exact mlsTok_sim _ (settings_blank cfg) _ _ _ _


theorem All2.and {α β : Type} {R1 R2 : α → β → Prop} {as : List α} {bs : List β}
    (h1 : All2 R1 as bs) (h2 : All2 R2 as bs) : All2 (fun a b => R1 a b ∧ R2 a b) as bs := by
  induction h1 with
  | nil => exact .nil
  | cons hr _ ih =>
    cases h2 with
    | cons hr2 ht2 => exact .cons ⟨hr, hr2⟩ (ih ht2)

/-- whitespace clause of the wrapper stage, decidable: leading whitespace kept or dropped -/
def wrapWsB (ft ft' : FT) : Bool :=
  all2B (fun t t' => t'.tok.ws == t.tok.ws || t'.tok.ws == []) ft ft'

theorem wrapWsB_sound (ft ft' : FT) (h : wrapWsB ft ft' = true) :
    All2 (fun t t' => Gap t.tok.ws → Gap t'.tok.ws) ft ft' := by
  unfold wrapWsB at h
  induction ft generalizing ft' with
  | nil =>
    cases ft' with
    | nil => exact .nil
    | cons _ _ => simp [all2B] at h
  | cons t r ih =>
    cases ft' with
    | nil => simp [all2B] at h
    | cons t' r' =>
      simp only [all2B, Bool.and_eq_true, Bool.or_eq_true, beq_iff_eq] at h
      refine .cons ?_ (ih r' h.2)
      intro hg
      rcases h.1 with e | e
      · rw [e]; exact hg
      · rw [e]; exact Gap.nil

/-- **Exact wrapper contract.**  What the correspondence compares on every case (`wc`): the stage
    keeps or drops leading whitespace, keeps kinds and ignored flags, and changes a content only as
    the exact model of the string re-indenter does with the token's final counters. -/
def WrapExact (O : Oracles) : Prop :=
  ∀ cfg lines ft, wrapWsB ft (O.wrap cfg lines ft) = true ∧ wrapContentB cfg ft (O.wrap cfg lines ft) = true

/-- the exact contract implies the frame used by C01 -/
theorem WrapExact.frame {O : Oracles} (h : WrapExact O) : WrapFrame O := by
  intro cfg lines ft
  obtain ⟨h1, h2⟩ := h cfg lines ft
  exact All2.and (wrapWsB_sound _ _ h1) (wrapContentB_sim cfg _ _ h2)

end Pasfmt
