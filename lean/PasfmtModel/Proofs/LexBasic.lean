import PasfmtModel.Model.Lexer

namespace Pasfmt

theorem leLength_iff (e : Nat) (l : Bytes) : leLength e l = true ↔ e ≤ l.length := by
  induction e generalizing l with
  | zero => simp [leLength]
  | succ n ih =>
    cases l with
    | nil => simp [leLength]
    | cons b r => simp [leLength, ih]

/-- tokens as flat text -/
def RawTok.text (t : RawTok) : Bytes := t.ws ++ t.content

def flatText (toks : List RawTok) : Bytes := toks.flatMap RawTok.text

theorem lexFuel_lossless (simd : Bool) (fuel : Nat) (st : LexState) (inp : Bytes) (toks : List RawTok)
    (h : lexFuel simd fuel st inp = some toks) : flatText toks = inp := by
  induction fuel generalizing st inp toks with
  | zero => simp [lexFuel] at h
  | succ n ih =>
    unfold lexFuel at h
    split at h
    · simp at h
    · simp at h; subst h; simp [flatText, RawTok.text]
    · rename_i ws e kind st' hone
      split at h
      · rename_i hcond
        split at h
        · simp at h
        · rename_i rest hrest
          simp at h; subst h
          have := ih _ _ _ hrest
          simp only [flatText, List.flatMap_cons, RawTok.text] at this ⊢
          rw [this]
          have hws : ws ≤ e := Nat.le_of_lt hcond.1
          have h1 : List.take ws inp ++ List.drop ws (List.take e inp) = List.take e inp := by
            have : List.take ws inp = List.take ws (List.take e inp) := by
              rw [List.take_take]; congr 1; omega
            rw [this, List.take_append_drop]
          rw [h1, List.take_append_drop]
      · simp at h

theorem lex_lossless_with (simd : Bool) (s : Bytes) (toks : List RawTok) (h : lexWith simd s = some toks) :
    flatText toks = s := lexFuel_lossless simd _ _ _ _ h

end Pasfmt
