/-
  The wrapper stage with the search inside never aborts on well-formed lines (C04, closed model): the solutions the
  search returns fit the lines (`SolFits`), because a returned solution has at most as many decisions as its line has
  tokens (`CntOk`, Proofs/SearchCount.lean) and the child solutions of a decision are the solutions of the child lines
  of a record of `line_children` (`TreeOk'`, Proofs/SearchBeginWrap.lean), whose indices are indices of existing lines
  (Proofs/LineChildrenBound.lean).
-/
import PasfmtModel.Proofs.StageTotal
import PasfmtModel.Proofs.SearchCount
import PasfmtModel.Proofs.LineChildrenBound

namespace Pasfmt

/-- what the formatter state of the stage knows about the lines: they are the parser's lines, and `line_children` was
    computed from them -/
def OlfLines (O : Olf) (lines : List Line) : Prop :=
  O.lines = (lines.map Line.toA).toArray ∧ O.lineChildren = getLineChildren O.lines

/-- the formatter state has as many lines as the parser produced -/
theorem OlfLines.size {O : Olf} {lines : List Line} (h : OlfLines O lines) : O.lines.size = lines.length := by
  rw [h.1]; simp

/-- line `i` of the formatter state is the parser's line `i` -/
theorem OlfLines.getElem! {O : Olf} {lines : List Line} (h : OlfLines O lines) {i : Nat} {l : Line}
    (hl : lines[i]? = some l) : O.lines[i]! = l.toA := by
  apply getElem!_of_getElem?
  rw [h.1]
  simp [hl]

/-- a search solution for an existing line that satisfies the count invariant and the child-record invariant becomes,
    at every conversion depth, a solution whose shape fits the lines -/
theorem toSol_fits (O : Olf) (lines : List Line) (n : Nat) (hO : OlfLines O lines) (hL : LinesOk lines n) :
    ∀ (fuel : Nat) (sol : FormattingSolution) (li : Nat), li < lines.length → TreeOk' O sol → CntOk O li sol →
      SolFits lines n (sol.toSol fuel) li := by
  intro fuel
  induction fuel with
  | zero =>
    intro sol li hli _ _
    cases sol with
    | mk ws decs pen len =>
      have hl : lines[li]? = some lines[li] := List.getElem?_eq_getElem hli
      exact SolFits.mk _ _ [] li _ hl (by simp) (hL.tokens hl) (by simp)
  | succ f ih =>
    intro sol li hli ht hc
    have hl : lines[li]? = some lines[li] := List.getElem?_eq_getElem hli
    have hdec := (treeOk'_iff O sol).mp ht
    cases hc with
    | mk _ ws decs pen len hlen hrec =>
      unfold FormattingSolution.toSol
      refine SolFits.mk _ _ _ li _ hl ?_ (hL.tokens hl) ?_
      · rw [hO.getElem! hl] at hlen
        simpa [Line.toA] using hlen
      · intro d hd x hx
        simp only [List.mem_map] at hd
        obtain ⟨d0, hd0, rfl⟩ := hd
        simp only [List.mem_map] at hx
        obtain ⟨x0, hx0, rfl⟩ := hx
        obtain ⟨o, _, hcl, hfrom⟩ := hdec d0 (by simpa [FormattingSolution.decisions] using hd0)
        have hxlt : x0.1 < lines.length := by
          rcases hfrom with hnil | ⟨key, lc, hk, hmap, _⟩
          · rw [hnil] at hx0; cases hx0
          · have hm : x0.1 ∈ lc.lineIndices.toList := by
              rw [← hmap]; exact List.mem_map_of_mem hx0
            rw [hO.2] at hk
            have := getLineChildren_indices_lt O.lines key lc hk x0.1 hm
            rw [hO.size] at this; exact this
        exact ih x0.2 x0.1 hxlt (hcl.2 x0 hx0) (hrec d0 hd0 x0 hx0)

/-- `OlfLines` is kept along the stage (same lines, same `line_children`) -/
theorem OlfLines.congr {O O' : Olf} {lines : List Line} (h : SameView' O O') (hO : OlfLines O lines) :
    OlfLines O' lines :=
  ⟨h.1.1.trans hO.1, by rw [h.2.1, h.1.1]; exact hO.2⟩

/-- the loop of the wrapper stage over the lines to wrap answers on well-formed lines; it keeps the number of tokens,
    the view and the invariants of the cache -/
theorem applyLinesS_total_search (phase : Nat) (lines : List Line) (n : Nat) (O0 : Olf) (hO : OlfLines O0 lines)
    (hL : LinesOk lines n) :
    ∀ (is : List Nat) (st : SearchState) (ft : FT) (acc : List (Nat × Nat × Sol)),
      SameView' O0 (stageOlf st ft) → CacheOk' O0 st.childLineCache → CacheCnt O0 st.childLineCache → ft.length = n →
      ∃ ft1 st1 sols, applyLinesS phase lines is st ft acc = some (ft1, st1, sols) ∧ ft1.length = n ∧
        SameView' O0 (stageOlf st1 ft1) ∧ CacheOk' O0 st1.childLineCache ∧ CacheCnt O0 st1.childLineCache := by
  intro is
  induction is with
  | nil => intro st ft acc hv hc hcc hn; exact ⟨ft, st, acc, rfl, hn, hv, hc, hcc⟩
  | cons i rest ih =>
    intro st ft acc hv hc hcc hn
    have hfl := format_line_begin_always_wrap (stageOlf st ft) st.childLineCache i (hc.congr hv)
    have hfc := format_line_cnt (stageOlf st ft) st.childLineCache i (hcc.congr hv.1.1)
    have hO' : OlfLines (stageOlf st ft) lines := hO.congr hv
    unfold applyLinesS
    rw [searchSolve_eq]
    split
    · rename_i st' hs
      simp only [Prod.mk.injEq] at hs
      obtain ⟨_, rfl⟩ := hs
      exact ih _ ft acc hv (hfl.1.congr hv.symm) (hfc.1.congr hv.symm.1.1) hn
    · rename_i s st' hs
      simp only [Prod.mk.injEq] at hs
      obtain ⟨hs1, rfl⟩ := hs
      cases hsol : ((stageOlf st ft).formatLine st.childLineCache i).1 with
      | none => rw [hsol] at hs1; simp at hs1
      | some sol =>
        rw [hsol] at hs1
        simp only [Option.map_some, Option.some.injEq] at hs1
        have hi : i < lines.length := by
          rcases Nat.lt_or_ge i lines.length with h' | h'
          · exact h'
          · exfalso
            have hl : (stageOlf st ft).lines[i]? = none := by
              apply Array.getElem?_eq_none; rw [hO'.size]; exact h'
            have : (stageOlf st ft).formatLine st.childLineCache i = (none, st.childLineCache) := by
              unfold Olf.formatLine; rw [hl]
            rw [this] at hsol; cases hsol
        have hfit : SolFits lines n s i := by
          rw [← hs1]
          exact toSol_fits _ lines n hO' hL _ sol i hi (hfl.2 sol hsol) (hfc.2 sol hsol)
        obtain ⟨ft', ha, hla⟩ := applySol_total lines n ft s i hfit hn
        rw [ha]
        simp only
        have hv' : SameView' O0 (stageOlf { st with childLineCache := ((stageOlf st ft).formatLine st.childLineCache i).2 } ft') :=
          hv.trans (stageOlf_sameView' _ _ _ _ rfl rfl rfl (fun j => applySol_kindAt lines ft ft' s i ha j))
        exact ih _ ft' _ hv' (hfl.1.congr hv.symm) (hfc.1.congr hv.symm.1.1) hla

/-- the set-up of the stage takes the parser's lines and computes `line_children` from them -/
theorem searchInit_olfLines (cfg : Config) (lines : List Line) (ft : FT) :
    OlfLines (stageOlf (searchInit cfg lines ft) ft) lines := ⟨rfl, rfl⟩

/-- every solution the search returns for a top-level line fits the lines, in any state of the stage (same lines,
    `line_children` and token types as at the start, cache invariants kept) -/
theorem searchSolve_fits_gen (lines : List Line) (n : Nat) (O0 : Olf) (hO : OlfLines O0 lines) (hL : LinesOk lines n)
    (st st' : SearchState) (ft : FT) (i : Nat) (s : Sol)
    (hv : SameView' O0 (stageOlf st ft)) (hc : CacheOk' O0 st.childLineCache) (hcc : CacheCnt O0 st.childLineCache)
    (h : searchSolve st ft i = (some s, st')) : SolFits lines n s i := by
  have hfl := format_line_begin_always_wrap (stageOlf st ft) st.childLineCache i (hc.congr hv)
  have hfc := format_line_cnt (stageOlf st ft) st.childLineCache i (hcc.congr hv.1.1)
  have hO' : OlfLines (stageOlf st ft) lines := hO.congr hv
  rw [searchSolve_eq] at h
  simp only [Prod.mk.injEq] at h
  obtain ⟨hs1, _⟩ := h
  cases hsol : ((stageOlf st ft).formatLine st.childLineCache i).1 with
  | none => rw [hsol] at hs1; simp at hs1
  | some sol =>
    rw [hsol] at hs1
    simp only [Option.map_some, Option.some.injEq] at hs1
    have hi : i < lines.length := by
      rcases Nat.lt_or_ge i lines.length with h' | h'
      · exact h'
      · exfalso
        have hl : (stageOlf st ft).lines[i]? = none := by
          apply Array.getElem?_eq_none; rw [hO'.size]; exact h'
        have : (stageOlf st ft).formatLine st.childLineCache i = (none, st.childLineCache) := by
          unfold Olf.formatLine; rw [hl]
        rw [this] at hsol; cases hsol
    rw [← hs1]
    exact toSol_fits _ lines n hO' hL _ sol i hi (hfl.2 sol hsol) (hfc.2 sol hsol)

/-- the solution the search returns for a line right after the set-up of the stage fits the lines: the line exists, it
    has at most as many decisions as the line has tokens, and every child solution, at every depth, fits its line -/
theorem searchSolve_fits (cfg : Config) (lines : List Line) (ft : FT) (hL : LinesOk lines ft.length) (i : Nat) (s : Sol)
    (st' : SearchState) (h : searchSolve (searchInit cfg lines ft) ft i = (some s, st')) :
    SolFits lines ft.length s i :=
  searchSolve_fits_gen lines ft.length _ (searchInit_olfLines cfg lines ft) hL _ st' ft i s (SameView'.refl _)
    (cacheOk'_empty _) (cacheCnt_empty _) h

/-- THE WRAPPER STAGE NEVER ABORTS: on well-formed lines (every token index of every line has formatting data, the
    parent of a line is an earlier line) the stage, search included, returns a result - applying the solutions never
    meets a decision without a token, a missing child line or a token without formatting data; the string passes
    never meet a token without formatting data; the walk to the top-level parent ends -/
theorem wrapStageFull_total (cfg : Config) (lines : List Line) (ft : FT) (hL : LinesOk lines ft.length) :
    ∃ r, wrapStageFull cfg lines ft = some r := by
  have hO := searchInit_olfLines cfg lines ft
  unfold wrapStageFull
  simp only
  obtain ⟨ft1, st1, sols1, h1, hl1, hv1, hc1, hcc1⟩ :=
    applyLinesS_total_search 0 lines ft.length _ hO hL (firstPassLines lines) (searchInit cfg lines ft) ft []
      (SameView'.refl _) (cacheOk'_empty _) (cacheCnt_empty _) rfl
  rw [h1]
  simp only
  split
  · exact ⟨_, rfl⟩
  · obtain ⟨ft2, out, h2, hl2⟩ := mlsPass1_total cfg.settings lines ft.length hL lines.zipIdx ft1 []
      (fun _ h => h) hl1
    rw [h2]
    simp only
    have hv2 : SameView' (stageOlf (searchInit cfg lines ft) ft) (stageOlf st1 ft2) :=
      hv1.trans (stageOlf_sameView' _ _ _ _ rfl rfl rfl (fun j => (mlsPass1_at _ _ _ _ _ _ _ h2 j).1))
    obtain ⟨ft3, st3, sols3, h3, hl3, _⟩ :=
      applyLinesS_total_search 1 lines ft.length _ hO hL (sortDedup out) st1 ft2 sols1 hv2 hc1 hcc1 hl2
    rw [h3]
    simp only
    obtain ⟨ft4, h4, _⟩ := mlsPass2_total cfg.settings ft.length lines ft3 hL.all_tokens hl3
    rw [h4]
    exact ⟨_, rfl⟩

end Pasfmt
