/-
  Every conditional-directive pass lists token positions in strictly increasing order, below the
  number of tokens: the hypothesis `pass.Pairwise (· < ·)` of the line-builder theorems
  (`Proofs/Machine*.lean`) holds for every pass of every file.
-/
import PasfmtModel.Proofs.Tree

namespace Pasfmt

/-- strictly increasing and inside `[a, b)` -/
def Within (a b : Nat) (l : List Nat) : Prop := l.Pairwise (· < ·) ∧ ∀ x ∈ l, a ≤ x ∧ x < b

theorem Within.nil (a b : Nat) : Within a b [] := ⟨List.Pairwise.nil, by simp⟩

theorem Within.append {a m b : Nat} {l1 l2 : List Nat} (h1 : Within a m l1) (h2 : Within m b l2) (hab : a ≤ m) (hmb : m ≤ b) :
    Within a b (l1 ++ l2) := by
  refine ⟨?_, ?_⟩
  · rw [List.pairwise_append]
    refine ⟨h1.1, h2.1, ?_⟩
    intro x hx y hy
    have := (h1.2 x hx).2
    have := (h2.2 y hy).1
    omega
  · intro x hx
    rcases List.mem_append.1 hx with h | h
    · have := h1.2 x h; omega
    · have := h2.2 x h; omega

theorem Within.mono {a b a' b' : Nat} {l : List Nat} (h : Within a b l) (ha : a' ≤ a) (hb : b ≤ b') : Within a' b' l :=
  ⟨h.1, fun x hx => by have := h.2 x hx; omega⟩

theorem within_range (lo hi : Nat) : Within lo hi ((List.range (hi - lo)).map (· + lo)) := by
  refine ⟨?_, ?_⟩
  · rw [List.pairwise_map]
    have := List.pairwise_lt_range (n := hi - lo)
    exact this.imp (by intro a b h; omega)
  · intro x hx
    rw [List.mem_map] at hx
    obtain ⟨y, hy, rfl⟩ := hx
    rw [List.mem_range] at hy
    omega

/-- sections laid out one after the other inside `[a, b)` -/
def seqWith (P : DSection → Nat → Nat → Prop) : List DSection → Nat → Nat → Prop
  | [], a, b => a ≤ b
  | s :: r, a, b => ∃ m, a ≤ m ∧ P s a m ∧ seqWith P r m b

mutual
def secIn (fuel : Nat) : DSection → Nat → Nat → Prop
  | .flat _ lo hi, a, b => a ≤ b ∧ (lo = hi ∨ (a ≤ lo ∧ lo ≤ hi ∧ hi ≤ b))
  | .nested trees, a, b =>
    match fuel with
    | 0 => a ≤ b
    | fuel + 1 => a ≤ b ∧ ∀ t ∈ trees, treeIn fuel t a b

def treeIn (fuel : Nat) (t : DTree) (a b : Nat) : Prop :=
  match fuel with
  | 0 => a ≤ b
  | fuel + 1 => seqWith (secIn fuel) t a b
end

theorem seqWith_le {P : DSection → Nat → Nat → Prop} (hP : ∀ s a b, P s a b → a ≤ b) :
    ∀ (l : List DSection) (a b : Nat), seqWith P l a b → a ≤ b
  | [], a, b, h => h
  | s :: r, a, b, ⟨m, ham, _, hr⟩ => by
    have := seqWith_le hP r m b hr
    omega

theorem secIn_le (fuel : Nat) (s : DSection) (a b : Nat) (h : secIn fuel s a b) : a ≤ b := by
  cases s with
  | flat e lo hi => unfold secIn at h; exact h.1
  | nested trees =>
    cases fuel with
    | zero => unfold secIn at h; exact h
    | succ f => unfold secIn at h; exact h.1

theorem treeIn_le (fuel : Nat) (t : DTree) (a b : Nat) (h : treeIn fuel t a b) : a ≤ b := by
  cases fuel with
  | zero => unfold treeIn at h; exact h
  | succ f => unfold treeIn at h; exact seqWith_le (secIn_le f) t a b h


/-! ### one pass -/

theorem treePass_foldl (g : DSection → DSection × List Nat) (t : DTree) (acc1 : DTree) (acc2 : List Nat) :
    t.foldl (fun (acc : DTree × List Nat) s => (acc.1 ++ [(g s).1], acc.2 ++ (g s).2)) (acc1, acc2) =
      (acc1 ++ t.map (fun s => (g s).1), acc2 ++ (t.map (fun s => (g s).2)).flatten) := by
  induction t generalizing acc1 acc2 with
  | nil => simp
  | cons s r ih => simp only [List.foldl_cons, ih]; simp

theorem treePass_succ (f : Nat) (t : DTree) :
    treePass (f + 1) t = (t.map (fun s => (sectionPass f s).1), (t.map (fun s => (sectionPass f s).2)).flatten) := by
  unfold treePass
  have := treePass_foldl (sectionPass f) t [] []
  simpa using this

theorem sectionPass_flat (f : Nat) (e : Bool) (lo hi : Nat) :
    sectionPass f (.flat e lo hi) = (.flat true lo hi, (List.range (hi - lo)).map (· + lo)) := by
  cases f <;> simp [sectionPass]

theorem flat_within (e : Bool) (lo hi a b : Nat) (h : secIn 0 (.flat e lo hi) a b) :
    Within a b ((List.range (hi - lo)).map (· + lo)) := by
  unfold secIn at h
  rcases h.2 with rfl | ⟨h1, h2, h3⟩
  · simpa using Within.nil a b
  · exact (within_range lo hi).mono h1 h3

theorem secIn_flat_iff (f : Nat) (e : Bool) (lo hi a b : Nat) :
    secIn f (.flat e lo hi) a b ↔ (a ≤ b ∧ (lo = hi ∨ (a ≤ lo ∧ lo ≤ hi ∧ hi ≤ b))) := by
  cases f <;> simp [secIn]

/-- the tokens a pass takes from a tree lie in order inside the tree's span, and the updated tree
    has the same layout -/
theorem pass_within (f : Nat) :
    (∀ s a b, secIn f s a b → Within a b (sectionPass f s).2 ∧ secIn f (sectionPass f s).1 a b) ∧
    (∀ t a b, treeIn f t a b → Within a b (treePass f t).2 ∧ treeIn f (treePass f t).1 a b) := by
  induction f with
  | zero =>
    refine ⟨?_, ?_⟩
    · intro s a b h
      cases s with
      | flat e lo hi =>
        rw [sectionPass_flat]
        exact ⟨flat_within e lo hi a b h, by rw [secIn_flat_iff] at h ⊢; exact h⟩
      | nested trees =>
        simp only [sectionPass]
        exact ⟨Within.nil a b, h⟩
    · intro t a b h
      simp only [treePass]
      exact ⟨Within.nil a b, h⟩
  | succ f ih =>
    have hsec : ∀ s a b, secIn (f + 1) s a b →
        Within a b (sectionPass (f + 1) s).2 ∧ secIn (f + 1) (sectionPass (f + 1) s).1 a b := by
      intro s a b h
      cases s with
      | flat e lo hi =>
        rw [sectionPass_flat]
        rw [secIn_flat_iff] at h
        exact ⟨flat_within e lo hi a b (by rw [secIn_flat_iff]; exact h), by rw [secIn_flat_iff]; exact h⟩
      | nested trees =>
        unfold secIn at h
        obtain ⟨hab, hall⟩ := h
        unfold sectionPass
        simp only
        split
        · exact ⟨Within.nil a b, by unfold secIn; exact ⟨hab, hall⟩⟩
        · rename_i i hi
          split
          · exact ⟨Within.nil a b, by unfold secIn; exact ⟨hab, hall⟩⟩
          · rename_i t ht
            have hmem : t ∈ trees := List.mem_of_getElem? ht
            obtain ⟨hw, htree⟩ := ih.2 t a b (hall t hmem)
            refine ⟨hw, ?_⟩
            unfold secIn
            refine ⟨hab, ?_⟩
            intro t'' ht''
            rcases List.mem_or_eq_of_mem_set ht'' with h1 | h1
            · exact hall t'' h1
            · rw [h1]; exact htree
    refine ⟨hsec, ?_⟩
    intro t a b h
    rw [treePass_succ]
    unfold treeIn at h ⊢
    -- along the sequence of sections
    induction t generalizing a with
    | nil => exact ⟨by simpa using Within.nil a b, h⟩
    | cons s r ihr =>
      obtain ⟨m, ham, hs, hr⟩ := h
      obtain ⟨hw1, hs1⟩ := ih.1 s a m hs
      obtain ⟨hw2, hr2⟩ := ihr m hr
      have hmb := seqWith_le (secIn_le f) r m b hr
      refine ⟨?_, ⟨m, ham, hs1, hr2⟩⟩
      simp only [List.map_cons, List.flatten_cons]
      exact Within.append hw1 hw2 ham hmb


/-! ### all passes -/

theorem passesGo_within (df : Nat) (n : Nat) (t : DTree) (a b : Nat) (h : treeIn df t a b) :
    ∀ p ∈ passesGo df n t, Within a b p := by
  induction n generalizing t with
  | zero => simp [passesGo]
  | succ k ih =>
    unfold passesGo
    obtain ⟨hw, ht⟩ := (pass_within df).2 t a b h
    simp only
    split
    · intro p hp; simp at hp; subst hp; exact hw
    · intro p hp
      rcases List.mem_cons.1 hp with rfl | hp'
      · exact hw
      · exact ih _ ht p hp'

/-! ### layout of the parsed tree -/

theorem seqWith_mono {P : DSection → Nat → Nat → Prop}
    (hP : ∀ s a b a' b', P s a b → a' ≤ a → b ≤ b' → P s a' b') :
    ∀ (l : List DSection) (a b a' b' : Nat), seqWith P l a b → a' ≤ a → b ≤ b' → seqWith P l a' b'
  | [], a, b, a', b', h, h1, h2 => by simp only [seqWith] at h ⊢; omega
  | s :: r, a, b, a', b', ⟨m, ham, hs, hr⟩, h1, h2 =>
    ⟨m, by omega, hP s a m a' m hs h1 (Nat.le_refl _), seqWith_mono hP r m b m b' hr (Nat.le_refl _) h2⟩

theorem layout_mono (f : Nat) :
    (∀ s a b a' b', secIn f s a b → a' ≤ a → b ≤ b' → secIn f s a' b') ∧
    (∀ t a b a' b', treeIn f t a b → a' ≤ a → b ≤ b' → treeIn f t a' b') := by
  induction f with
  | zero =>
    refine ⟨?_, ?_⟩
    · intro s a b a' b' h h1 h2
      cases s with
      | flat e lo hi =>
        rw [secIn_flat_iff] at h ⊢
        refine ⟨by omega, ?_⟩
        rcases h.2 with e | ⟨x, y, z⟩
        · exact Or.inl e
        · exact Or.inr ⟨by omega, y, by omega⟩
      | nested trees => unfold secIn at h ⊢; omega
    · intro t a b a' b' h h1 h2
      unfold treeIn at h ⊢; omega
  | succ f ih =>
    have hsec : ∀ s a b a' b', secIn (f + 1) s a b → a' ≤ a → b ≤ b' → secIn (f + 1) s a' b' := by
      intro s a b a' b' h h1 h2
      cases s with
      | flat e lo hi =>
        rw [secIn_flat_iff] at h ⊢
        refine ⟨by omega, ?_⟩
        rcases h.2 with e | ⟨x, y, z⟩
        · exact Or.inl e
        · exact Or.inr ⟨by omega, y, by omega⟩
      | nested trees =>
        unfold secIn at h ⊢
        exact ⟨by omega, fun t ht => ih.2 t a b a' b' (h.2 t ht) h1 h2⟩
    refine ⟨hsec, ?_⟩
    intro t a b a' b' h h1 h2
    unfold treeIn at h ⊢
    exact seqWith_mono ih.1 t a b a' b' h h1 h2

/-- appending a section that lies after the sequence -/
theorem seqWith_snoc (f : Nat) :
    ∀ (l : List DSection) (s : DSection) (a m b : Nat),
      seqWith (secIn f) l a m → secIn f s m b → seqWith (secIn f) (l ++ [s]) a b
  | [], s, a, m, b, h1, h2 => by
    simp only [seqWith] at h1
    have hmb := secIn_le f s m b h2
    exact ⟨b, by omega, (layout_mono f).1 s m b a b h2 h1 (Nat.le_refl _), by simp [seqWith]⟩
  | x :: r, s, a, m, b, ⟨c, hac, hx, hr⟩, h2 => ⟨c, hac, hx, seqWith_snoc f r s c m b hr h2⟩

/-- token positions of the list are consecutive from `i0` -/
def Consec (toks : List (Nat × RawKind)) (i0 : Nat) : Prop :=
  ∀ j (hj : j < toks.length), (toks[j]).1 = i0 + j

theorem Consec.nil (i0 : Nat) : Consec [] i0 := by intro j hj; simp at hj

theorem Consec.head {x : Nat × RawKind} {r : List (Nat × RawKind)} {i0 : Nat} (h : Consec (x :: r) i0) : x.1 = i0 := by
  have := h 0 (by simp); simpa using this

theorem Consec.tail {x : Nat × RawKind} {r : List (Nat × RawKind)} {i0 : Nat} (h : Consec (x :: r) i0) :
    Consec r (i0 + 1) := by
  intro j hj
  have := h (j + 1) (by simp; omega)
  simp at this; omega

/-- `parse_flat`: what it consumes and the flat section it returns -/
theorem parseFlat_spec (toks : List (Nat × RawKind)) (i0 : Nat) (start : Option Nat) (lo hi : Nat)
    (hc : Consec toks i0)
    (hinv : (start = none ∧ lo = hi) ∨ (start = some lo ∧ lo ≤ hi ∧ hi = i0)) :
    ∃ (k d lo' hi' : Nat) (c : Option ConditionalDirectiveKind) (rest : List (Nat × RawKind)),
      parseFlat start lo hi toks = (.flat false lo' hi', c, rest) ∧
      (lo' = hi' ∨ (start.getD i0 ≤ lo' ∧ lo' ≤ hi' ∧ hi' ≤ i0 + k)) ∧
      start.getD i0 ≤ i0 + k ∧
      Consec rest (i0 + k + d) ∧ rest.length + k + d = toks.length ∧
      (c = none → rest = []) := by
  induction toks generalizing i0 start lo hi with
  | nil =>
    refine ⟨0, 0, lo, hi, none, [], rfl, ?_, ?_, Consec.nil _, rfl, fun _ => rfl⟩
    · rcases hinv with ⟨_, e⟩ | ⟨hs, h1, h2⟩
      · exact Or.inl e
      · right; rw [hs]; simp; omega
    · rcases hinv with ⟨hs, _⟩ | ⟨hs, h1, h2⟩
      · rw [hs]; simp
      · rw [hs]; simp; omega
  | cons x r ih =>
    obtain ⟨idx, kd⟩ := x
    have hidx : idx = i0 := hc.head
    subst hidx
    rw [parseFlat]
    cases hk : condKind? kd with
    | some c =>
      simp only
      refine ⟨0, 1, lo, hi, some c, r, rfl, ?_, ?_, by simpa using hc.tail, by simp, by simp⟩
      · rcases hinv with ⟨_, e⟩ | ⟨hs, h1, h2⟩
        · exact Or.inl e
        · right; rw [hs]; simp; omega
      · rcases hinv with ⟨hs, _⟩ | ⟨hs, h1, h2⟩
        · rw [hs]; simp
        · rw [hs]; simp; omega
    | none =>
      simp only
      have hs' : start.getD idx ≤ idx := by
        rcases hinv with ⟨hs, _⟩ | ⟨hs, h1, h2⟩
        · rw [hs]; simp
        · rw [hs]; simp; omega
      obtain ⟨k, d, lo', hi', c, rest, heq, hfl, hle, hcr, hlen, hnone⟩ :=
        ih (idx + 1) (some (start.getD idx)) (start.getD idx) (idx + 1) hc.tail
          (Or.inr ⟨rfl, by omega, rfl⟩)
      refine ⟨k + 1, d, lo', hi', c, rest, heq, ?_, by omega, ?_, by simp; omega, hnone⟩
      · rcases hfl with e | ⟨h1, h2, h3⟩
        · exact Or.inl e
        · right; simp only [Option.getD_some] at h1; exact ⟨h1, h2, by omega⟩
      · have e : idx + (k + 1) + d = idx + 1 + k + d := by omega
        rw [e]; exact hcr


theorem treeIn_of_seq (t : DTree) (a b : Nat) (h : ∀ f, seqWith (secIn f) t a b) : ∀ f, treeIn f t a b := by
  intro f
  cases f with
  | zero => unfold treeIn; exact seqWith_le (secIn_le 0) t a b (h 0)
  | succ f => unfold treeIn; exact h f

/-- what the three mutually recursive parsing functions guarantee with fuel `g` -/
structure ParseOK (g : Nat) : Prop where
  next : ∀ (topLevel : Bool) (acc : DTree) (toks : List (Nat × RawKind)) (i0 a : Nat),
    Consec toks i0 → (∀ f, seqWith (secIn f) acc.reverse a i0) →
    (parseNext g topLevel acc toks).2.2.length ≤ toks.length ∧
    Consec (parseNext g topLevel acc toks).2.2 (i0 + toks.length - (parseNext g topLevel acc toks).2.2.length) ∧
    ∀ f, seqWith (secIn f) (parseNext g topLevel acc toks).1 a (i0 + toks.length - (parseNext g topLevel acc toks).2.2.length)
  nested : ∀ (toks : List (Nat × RawKind)) (i0 : Nat), Consec toks i0 →
    (parseNested g toks).2.length ≤ toks.length ∧
    Consec (parseNested g toks).2 (i0 + toks.length - (parseNested g toks).2.length) ∧
    ∀ f, secIn f (parseNested g toks).1 i0 (i0 + toks.length - (parseNested g toks).2.length)
  els : ∀ (acc : List DTree) (cdk : Option ConditionalDirectiveKind) (toks : List (Nat × RawKind)) (i0 s : Nat),
    Consec toks i0 → s ≤ i0 → (∀ f, ∀ t ∈ acc, treeIn f t s i0) →
    (parseNestedElse g acc cdk toks).2.length ≤ toks.length ∧
    Consec (parseNestedElse g acc cdk toks).2 (i0 + toks.length - (parseNestedElse g acc cdk toks).2.length) ∧
    ∀ f, secIn f (parseNestedElse g acc cdk toks).1 s (i0 + toks.length - (parseNestedElse g acc cdk toks).2.length)

theorem secIn_nested_of (trees : List DTree) (a b : Nat) (hab : a ≤ b) (h : ∀ f, ∀ t ∈ trees, treeIn f t a b) :
    ∀ f, secIn f (.nested trees) a b := by
  intro f
  cases f with
  | zero => unfold secIn; exact hab
  | succ f => unfold secIn; exact ⟨hab, fun t ht => h f t ht⟩

theorem parseOK (g : Nat) : ParseOK g := by
  induction g with
  | zero =>
    refine ⟨?_, ?_, ?_⟩
    · intro topLevel acc toks i0 a hc hacc
      simp only [parseNext]
      refine ⟨Nat.le_refl _, by simpa using hc, fun f => by simpa using hacc f⟩
    · intro toks i0 hc
      simp only [parseNested]
      refine ⟨Nat.le_refl _, by simpa using hc, ?_⟩
      exact secIn_nested_of [] i0 _ (by omega) (by intro f t ht; simp at ht)
    · intro acc cdk toks i0 s hc hs hacc
      simp only [parseNestedElse]
      refine ⟨Nat.le_refl _, by simpa using hc, ?_⟩
      apply secIn_nested_of
      · omega
      · intro f t ht
        have e : i0 + toks.length - toks.length = i0 := by omega
        rw [e]; exact hacc f t (by simpa using ht)
  | succ g ih =>
    refine ⟨?_, ?_, ?_⟩
    · -- parseNext
      intro topLevel acc toks i0 a hc hacc
      rw [parseNext]
      obtain ⟨k, d, lo', hi', c, rest, heq, hfl, hle, hcr, hlen, hnone⟩ :=
        parseFlat_spec toks i0 none 0 0 hc (Or.inl ⟨rfl, rfl⟩)
      simp only [Option.getD_none] at hfl hle
      rw [heq]
      simp only
      -- the flat section sits at `[i0, i0 + k)`
      have hflat : ∀ f, secIn f (.flat false lo' hi') i0 (i0 + k) := by
        intro f; rw [secIn_flat_iff]; exact ⟨by omega, hfl⟩
      have hacc1 : ∀ f, seqWith (secIn f) (DSection.flat false lo' hi' :: acc).reverse a (i0 + k) := by
        intro f
        rw [List.reverse_cons]
        exact seqWith_snoc f _ _ a i0 (i0 + k) (hacc f) (hflat f)
      have hacc2 : ∀ f, seqWith (secIn f) (DSection.flat false lo' hi' :: acc).reverse a (i0 + k + d) := by
        intro f
        exact seqWith_mono (layout_mono f).1 _ a (i0 + k) a (i0 + k + d) (hacc1 f) (Nat.le_refl _) (by omega)
      cases c with
      | none =>
        simp only
        have hr := hnone rfl
        subst hr
        simp only [List.length_nil] at hlen ⊢
        refine ⟨by omega, Consec.nil _, ?_⟩
        intro f
        have e : i0 + toks.length - 0 = i0 + k + d := by omega
        rw [e]; exact hacc2 f
      | some cd =>
        simp only
        split
        · -- an `if` directive: a nested section follows
          obtain ⟨hn1, hn2, hn3⟩ := ih.nested rest (i0 + k + d) hcr
          generalize hres : parseNested g rest = res at hn1 hn2 hn3
          obtain ⟨nested, rest'⟩ := res
          simp only at hn1 hn2 hn3 ⊢
          have hacc3 : ∀ f, seqWith (secIn f) (nested :: DSection.flat false lo' hi' :: acc).reverse a
              (i0 + k + d + rest.length - rest'.length) := by
            intro f
            rw [List.reverse_cons]
            exact seqWith_snoc f _ _ a (i0 + k + d) _ (hacc2 f) (hn3 f)
          obtain ⟨hx1, hx2, hx3⟩ := ih.next topLevel (nested :: DSection.flat false lo' hi' :: acc) rest'
            (i0 + k + d + rest.length - rest'.length) a hn2 hacc3
          refine ⟨by omega, ?_, ?_⟩
          · have e : i0 + toks.length - (parseNext g topLevel (nested :: DSection.flat false lo' hi' :: acc) rest').2.2.length
                = i0 + k + d + rest.length - rest'.length + rest'.length
                  - (parseNext g topLevel (nested :: DSection.flat false lo' hi' :: acc) rest').2.2.length := by omega
            rw [e]; exact hx2
          · intro f
            have e : i0 + toks.length - (parseNext g topLevel (nested :: DSection.flat false lo' hi' :: acc) rest').2.2.length
                = i0 + k + d + rest.length - rest'.length + rest'.length
                  - (parseNext g topLevel (nested :: DSection.flat false lo' hi' :: acc) rest').2.2.length := by omega
            rw [e]; exact hx3 f
        · split
          · -- top level: a stray else/end directive is skipped
            obtain ⟨hx1, hx2, hx3⟩ := ih.next topLevel (DSection.flat false lo' hi' :: acc) rest (i0 + k + d) a hcr hacc2
            refine ⟨by omega, ?_, ?_⟩
            · have e : i0 + toks.length - (parseNext g topLevel (DSection.flat false lo' hi' :: acc) rest).2.2.length
                  = i0 + k + d + rest.length - (parseNext g topLevel (DSection.flat false lo' hi' :: acc) rest).2.2.length := by omega
              rw [e]; exact hx2
            · intro f
              have e : i0 + toks.length - (parseNext g topLevel (DSection.flat false lo' hi' :: acc) rest).2.2.length
                  = i0 + k + d + rest.length - (parseNext g topLevel (DSection.flat false lo' hi' :: acc) rest).2.2.length := by omega
              rw [e]; exact hx3 f
          · simp only
            refine ⟨by omega, ?_, ?_⟩
            · have e : i0 + toks.length - rest.length = i0 + k + d := by omega
              rw [e]; exact hcr
            · intro f
              have e : i0 + toks.length - rest.length = i0 + k + d := by omega
              rw [e]; exact hacc2 f
    · -- parseNested
      intro toks i0 hc
      rw [parseNested]
      obtain ⟨hx1, hx2, hx3⟩ := ih.next false [] toks i0 i0 hc (by intro f; simp [seqWith])
      generalize hres : parseNext g false [] toks = res at hx1 hx2 hx3
      obtain ⟨ifTree, cdk, rest⟩ := res
      simp only at hx1 hx2 hx3 ⊢
      have htree := treeIn_of_seq ifTree i0 _ hx3
      obtain ⟨hy1, hy2, hy3⟩ := ih.els [ifTree] cdk rest (i0 + toks.length - rest.length) i0 hx2 (by omega)
        (by intro f t ht; simp at ht; subst ht; exact htree f)
      refine ⟨by omega, ?_, ?_⟩
      · have e : i0 + toks.length - (parseNestedElse g [ifTree] cdk rest).2.length
            = i0 + toks.length - rest.length + rest.length - (parseNestedElse g [ifTree] cdk rest).2.length := by omega
        rw [e]; exact hy2
      · intro f
        have e : i0 + toks.length - (parseNestedElse g [ifTree] cdk rest).2.length
            = i0 + toks.length - rest.length + rest.length - (parseNestedElse g [ifTree] cdk rest).2.length := by omega
        rw [e]; exact hy3 f
    · -- parseNestedElse
      intro acc cdk toks i0 s hc hs hacc
      rw [parseNestedElse.eq_def]
      simp only
      have done : (toks.length ≤ toks.length) ∧ Consec toks (i0 + toks.length - toks.length) ∧
          ∀ f, secIn f (.nested acc.reverse) s (i0 + toks.length - toks.length) := by
        have e : i0 + toks.length - toks.length = i0 := by omega
        rw [e]
        exact ⟨Nat.le_refl _, hc, secIn_nested_of _ s i0 hs (by intro f t ht; exact hacc f t (by simpa using ht))⟩
      cases cdk with
      | none => exact done
      | some c =>
        simp only
        split
        · obtain ⟨hx1, hx2, hx3⟩ := ih.next false [] toks i0 i0 hc (by intro f; simp [seqWith])
          generalize hres : parseNext g false [] toks = res at hx1 hx2 hx3
          obtain ⟨tree, next, rest⟩ := res
          simp only at hx1 hx2 hx3 ⊢
          have htree := treeIn_of_seq tree i0 _ hx3
          obtain ⟨hy1, hy2, hy3⟩ := ih.els (tree :: acc) next rest (i0 + toks.length - rest.length) s hx2 (by omega)
            (by
              intro f t ht
              rcases List.mem_cons.1 ht with rfl | h'
              · exact (layout_mono f).2 _ i0 _ s _ (htree f) hs (Nat.le_refl _)
              · exact (layout_mono f).2 _ s i0 s _ (hacc f t h') (Nat.le_refl _) (by omega))
          refine ⟨by omega, ?_, ?_⟩
          · have e : i0 + toks.length - (parseNestedElse g (tree :: acc) next rest).2.length
                = i0 + toks.length - rest.length + rest.length - (parseNestedElse g (tree :: acc) next rest).2.length := by omega
            rw [e]; exact hy2
          · intro f
            have e : i0 + toks.length - (parseNestedElse g (tree :: acc) next rest).2.length
                = i0 + toks.length - rest.length + rest.length - (parseNestedElse g (tree :: acc) next rest).2.length := by omega
            rw [e]; exact hy3 f
        · exact done


/-- the parsed directive tree of a file lays its sections out in token order inside `[0, n)` -/
theorem parseTree_layout (kinds : List RawKind) : ∀ f, treeIn f (parseTree kinds) 0 kinds.length := by
  unfold parseTree
  have hc : Consec ((kinds.zipIdx 0).map (fun (x : RawKind × Nat) => (x.2, x.1))) 0 := by
    intro j hj
    have := zipIdx_swap_idx kinds 0 j hj
    simpa using this
  have hfun : (fun (x : RawKind × Nat) => (x.2, x.1)) = (fun x => match x with | (k, i) => (i, k)) := by
    funext x; rfl
  rw [← hfun]
  obtain ⟨h1, _, h3⟩ := (parseOK (3 * kinds.length + 3)).next true []
    ((kinds.zipIdx 0).map (fun (x : RawKind × Nat) => (x.2, x.1))) 0 0 hc (by intro f; simp [seqWith])
  apply treeIn_of_seq
  intro f
  have hlen : ((kinds.zipIdx 0).map (fun (x : RawKind × Nat) => (x.2, x.1))).length = kinds.length := by simp
  refine seqWith_mono (layout_mono f).1 _ 0 _ 0 kinds.length (h3 f) (Nat.le_refl _) ?_
  rw [hlen]; omega

/-- **Every pass is strictly increasing and stays below the number of tokens.** -/
theorem passes_within (kinds : List RawKind) : ∀ p ∈ passes kinds, Within 0 kinds.length p := by
  unfold passes
  simp only
  exact passesGo_within _ _ _ 0 kinds.length (parseTree_layout kinds _)

theorem passes_sorted (kinds : List RawKind) : ∀ p ∈ passes kinds, p.Pairwise (· < ·) :=
  fun p hp => (passes_within kinds p hp).1

theorem passes_in_range (kinds : List RawKind) : ∀ p ∈ passes kinds, ∀ i ∈ p, i < kinds.length :=
  fun p hp i hi => ((passes_within kinds p hp).2 i hi).2

end Pasfmt
