/-
  Generic facts about the scanning primitives of `Model/Bytes.lean`
  (`countWhile`, `findIdx`, `findByte`, `findSub`): bounds and what the byte at the result is.
-/
import PasfmtModel.Model.Bytes

namespace Pasfmt

theorem countWhile_le (p : UInt8 → Bool) (l : Bytes) : countWhile p l ≤ l.length := by
  induction l with
  | nil => simp [countWhile]
  | cons b r ih => unfold countWhile; split <;> simp <;> omega

/-- the byte at which `countWhile` stops does not satisfy the predicate -/
theorem countWhile_stop (p : UInt8 → Bool) (l : Bytes) (b : UInt8)
    (h : l[countWhile p l]? = some b) : p b = false := by
  induction l with
  | nil => simp [countWhile] at h
  | cons a r ih =>
    unfold countWhile at h
    split at h
    · simp at h; exact ih h
    · simp at h; subst h; simpa using ‹¬ p a = true›

/-- every byte before the stop satisfies the predicate -/
theorem countWhile_all (p : UInt8 → Bool) (l : Bytes) (i : Nat) (hi : i < countWhile p l) (b : UInt8)
    (h : l[i]? = some b) : p b = true := by
  induction l generalizing i with
  | nil => simp [countWhile] at hi
  | cons a r ih =>
    unfold countWhile at hi
    split at hi
    · cases i with
      | zero => simp at h; subst h; assumption
      | succ j => simp at h; exact ih j (by omega) h
    · omega

theorem countWhile_pos (p : UInt8 → Bool) (b : UInt8) (r : Bytes) (h : p b = true) :
    countWhile p (b :: r) = countWhile p r + 1 := by
  rw [countWhile]; simp [h]

theorem countWhile_zero (p : UInt8 → Bool) (b : UInt8) (r : Bytes) (h : p b = false) :
    countWhile p (b :: r) = 0 := by
  rw [countWhile]; simp [h]

theorem findIdx_spec (p : UInt8 → Bool) (l : Bytes) (i : Nat) (h : findIdx p l = some i) :
    ∃ b, l[i]? = some b ∧ p b = true := by
  induction l generalizing i with
  | nil => simp [findIdx] at h
  | cons a r ih =>
    unfold findIdx at h
    split at h
    · simp at h; subst h; exact ⟨a, by simp, by assumption⟩
    · simp only [Option.map_eq_some_iff] at h
      obtain ⟨j, hj, rfl⟩ := h
      obtain ⟨b, hb, hp⟩ := ih j hj
      exact ⟨b, by simpa using hb, hp⟩

theorem findIdx_lt (p : UInt8 → Bool) (l : Bytes) (i : Nat) (h : findIdx p l = some i) : i < l.length := by
  obtain ⟨b, hb, _⟩ := findIdx_spec p l i h
  exact (List.getElem?_eq_some_iff.1 hb).1

theorem findByte_spec (c : UInt8) (l : Bytes) (i : Nat) (h : findByte c l = some i) : l[i]? = some c := by
  induction l generalizing i with
  | nil => simp [findByte] at h
  | cons a r ih =>
    unfold findByte at h
    split at h
    · simp at h; subst h; simp_all
    · simp only [Option.map_eq_some_iff] at h
      obtain ⟨j, hj, rfl⟩ := h
      simpa using ih j hj

theorem findByte_lt (c : UInt8) (l : Bytes) (i : Nat) (h : findByte c l = some i) : i < l.length :=
  (List.getElem?_eq_some_iff.1 (findByte_spec c l i h)).1

theorem findSub_spec (pat l : Bytes) (i : Nat) (h : findSub pat l = some i) :
    pat <+: l.drop i := by
  induction l generalizing i with
  | nil =>
    unfold findSub at h
    split at h
    · simp at h; subst h; simp_all [List.isEmpty_iff]
    · simp at h
  | cons a r ih =>
    unfold findSub at h
    split at h
    · simp at h; subst h; simpa [List.isPrefixOf_iff_prefix] using ‹pat.isPrefixOf (a :: r) = true›
    · simp only [Option.map_eq_some_iff] at h
      obtain ⟨j, hj, rfl⟩ := h
      simpa using ih j hj

theorem findSub_le (pat l : Bytes) (i : Nat) (h : findSub pat l = some i) : i + pat.length ≤ l.length := by
  have hp := findSub_spec pat l i h
  have hl := hp.length_le
  simp only [List.length_drop] at hl
  have : i ≤ l.length := by
    induction l generalizing i with
    | nil =>
      unfold findSub at h; split at h <;> simp at h; omega
    | cons a r ih =>
      unfold findSub at h
      split at h
      · simp at h; omega
      · simp only [Option.map_eq_some_iff] at h
        obtain ⟨j, hj, rfl⟩ := h
        have := ih j hj (findSub_spec pat r j hj) (by
          have := (findSub_spec pat r j hj).length_le; simpa using this)
        simp; omega
  omega

end Pasfmt
