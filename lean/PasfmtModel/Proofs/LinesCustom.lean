/-
  `lines_custom` (multiline_strings.rs) - a `split_inclusive` with a stateful closure followed by
  `trim_matches(['\n','\r'])` - is the plain "split at LF, CR or CR LF": a reference definition by cases, and the
  proof that the model of the Rust code computes it (for every text that does not end in CR LF; a multi-line
  literal ends in a quote).
-/
import PasfmtModel.Model.Mls

namespace Pasfmt

/-- reference: lines of a text, split at `\n`, `\r` and `\r\n` (no line after a final terminator);
    `cur` = the current line, reversed -/
def refLinesGo (cur : Bytes) : Bytes → List Bytes
  | [] => if cur.isEmpty then [] else [cur.reverse]
  | 0x0D :: 0x0A :: r => cur.reverse :: refLinesGo [] r
  | c :: r => if c == 0x0D || c == 0x0A then cur.reverse :: refLinesGo [] r else refLinesGo (c :: cur) r

def refLines (s : Bytes) : List Bytes := refLinesGo [] s

def NoNl (l : Bytes) : Prop := ∀ b ∈ l, isNlCr b = false

theorem dropWhile_isNlCr_noNl {l : Bytes} (h : NoNl l) (x : Bytes) (hx : l ≠ [] ∨ x = []) :
    (l ++ x).dropWhile isNlCr = if l = [] then x.dropWhile isNlCr else l ++ x := by
  cases l with
  | nil => simp
  | cons a r =>
    have : isNlCr a = false := h a (by simp)
    simp [List.dropWhile, this]

/-- trimming a piece `lead ++ line ++ term` where `lead`, `term` consist of terminators and `line` has none -/
theorem trimNlCr_piece (lead line term : Bytes) (hl : ∀ b ∈ lead, isNlCr b = true) (ht : ∀ b ∈ term, isNlCr b = true)
    (hn : NoNl line) : trimNlCr (lead ++ line ++ term) = line := by
  unfold trimNlCr
  have d1 : ∀ (pre : Bytes) (rest : Bytes), (∀ b ∈ pre, isNlCr b = true) → (pre ++ rest).dropWhile isNlCr = rest.dropWhile isNlCr := by
    intro pre rest hp
    induction pre with
    | nil => rfl
    | cons a r ih =>
      have : isNlCr a = true := hp a (by simp)
      simp only [List.cons_append, List.dropWhile, this]
      exact ih (fun b hb => hp b (by simp [hb]))
  rw [List.append_assoc, d1 lead _ hl]
  cases line with
  | nil =>
    have : term.dropWhile isNlCr = [] := by
      have := d1 term [] ht
      simpa using this
    simp [this]
  | cons a r =>
    have ha : isNlCr a = false := hn a (by simp)
    have e1 : ((a :: r) ++ term).dropWhile isNlCr = (a :: r) ++ term := by
      simp [List.dropWhile, ha]
    rw [e1, List.reverse_append]
    rw [d1 term.reverse _ (by intro b hb; exact ht b (List.mem_reverse.1 hb))]
    -- the reversed line starts with a non-terminator too (its last byte)
    have hrev : ((a :: r).reverse).dropWhile isNlCr = (a :: r).reverse := by
      have hne : (a :: r).reverse ≠ [] := by simp
      cases hr : (a :: r).reverse with
      | nil => exact absurd hr hne
      | cons x y =>
        have hx : isNlCr x = false := hn x (by
          have : x ∈ (a :: r).reverse := by rw [hr]; simp
          exact List.mem_reverse.1 this)
        simp [List.dropWhile, hx]
    rw [hrev, List.reverse_reverse]

theorem isNlCr_iff (c : UInt8) : isNlCr c = (c == 0x0D || c == 0x0A) := by
  unfold isNlCr
  cases h1 : c == 0x0A <;> cases h2 : c == 0x0D <;> simp

theorem splitTrue_nil : splitCustomGo true [] [] = [] := by simp [splitCustomGo]

theorem splitTrue_lf (r : Bytes) : splitCustomGo true [] (0x0A :: r) = splitCustomGo false [0x0A] r := by
  rw [splitCustomGo]; simp

theorem splitTrue_other (c : UInt8) (r : Bytes) (h : c ≠ 0x0A) :
    splitCustomGo true [] (c :: r) = splitCustomGo false [] (c :: r) := by
  rw [splitCustomGo, splitCustomGo]
  simp [h]

theorem refLinesGo_cr_lf (cur r : Bytes) : refLinesGo cur (0x0D :: 0x0A :: r) = cur.reverse :: refLinesGo [] r := by
  rw [refLinesGo]

theorem refLinesGo_term (cur : Bytes) (c : UInt8) (r : Bytes) (hc : (c == 0x0D || c == 0x0A) = true)
    (h : ¬ (c = 0x0D ∧ ∃ r', r = 0x0A :: r')) : refLinesGo cur (c :: r) = cur.reverse :: refLinesGo [] r := by
  rw [refLinesGo]
  · simp [hc]
  · intro r' e1 e2
    exact h ⟨e1, r', e2⟩

theorem refLinesGo_other (cur : Bytes) (c : UInt8) (r : Bytes) (hc : (c == 0x0D || c == 0x0A) = false) :
    refLinesGo cur (c :: r) = refLinesGo (c :: cur) r := by
  rw [refLinesGo]
  · simp [hc]
  · intro r' e1 _
    rw [e1] at hc; simp at hc

/-- the loop of `lines_custom` computes the reference lines -/
theorem splitCustom_spec (n : Nat) :
    ∀ (s : Bytes), s.length ≤ n → ∀ (lead line : Bytes), (lead = [] ∨ lead = [0x0A]) → NoNl line →
      ¬ (lead = [0x0A] ∧ line = [] ∧ s = []) →
      ¬ (∃ p, s = p ++ [0x0D, 0x0A]) →
      (splitCustomGo false ((lead ++ line).reverse) s).map trimNlCr = refLinesGo line.reverse s := by
  induction n with
  | zero =>
    intro s hs lead line hlead hn hex _
    have : s = [] := by cases s with | nil => rfl | cons a r => simp at hs
    subst this
    unfold splitCustomGo refLinesGo
    by_cases hl : line = []
    · subst hl
      rcases hlead with rfl | rfl
      · simp
      · exact absurd ⟨rfl, rfl, rfl⟩ hex
    · have hne : (lead ++ line).reverse ≠ [] := by simp [hl]
      have hne2 : line.reverse ≠ [] := by simp [hl]
      simp only [List.isEmpty_iff, hne, hne2, if_false, List.map_cons, List.map_nil, List.reverse_reverse]
      congr 1
      have := trimNlCr_piece lead line [] (by rcases hlead with rfl | rfl <;> simp [isNlCr]) (by simp) hn
      simpa using this
  | succ n ih =>
    intro s hs lead line hlead hn hex hend
    cases s with
    | nil => exact ih [] (by simp) lead line hlead hn hex hend
    | cons c r =>
      have hr : r.length ≤ n := by simp at hs; omega
      have hend_r : ¬ (∃ p, r = p ++ [0x0D, 0x0A]) := by
        rintro ⟨p, rfl⟩
        exact hend ⟨c :: p, by simp⟩
      have hleadnl : ∀ b ∈ lead, isNlCr b = true := by rcases hlead with rfl | rfl <;> simp [isNlCr]
      rw [splitCustomGo]
      simp only [Bool.false_and, Bool.false_eq_true, if_false]
      by_cases hc : isNlCr c = true
      · simp only [hc, if_true, List.map_cons]
        have hpiece : trimNlCr ((c :: (lead ++ line).reverse).reverse) = line := by
          have := trimNlCr_piece lead line [c] hleadnl (by simpa using hc) hn
          simpa using this
        rw [hpiece]
        have hc2 : (c == 0x0D || c == 0x0A) = true := by rw [← isNlCr_iff]; exact hc
        by_cases hcr : c = 0x0D
        · subst hcr
          simp only [beq_self_eq_true]
          cases r with
          | nil =>
            rw [splitTrue_nil, refLinesGo_term _ _ _ hc2 (by rintro ⟨_, r', e⟩; cases e)]
            simp [refLinesGo]
          | cons d r' =>
            by_cases hd : d = 0x0A
            · subst hd
              have hr' : r' ≠ [] := by
                intro e; subst e
                exact hend ⟨[], by simp⟩
              have hend' : ¬ (∃ p, r' = p ++ [0x0D, 0x0A]) := by
                rintro ⟨p, rfl⟩
                exact hend ⟨0x0D :: 0x0A :: p, by simp⟩
              have := ih r' (by simp at hr; omega) [0x0A] [] (Or.inr rfl) (by intro b hb; cases hb)
                (by rintro ⟨_, _, e⟩; exact hr' e) hend'
              rw [splitTrue_lf, refLinesGo_cr_lf, List.reverse_reverse]
              simpa using this
            · have := ih (d :: r') hr [] [] (Or.inl rfl) (by intro b hb; cases hb)
                (by rintro ⟨e, _, _⟩; cases e) hend_r
              rw [splitTrue_other d r' hd, refLinesGo_term _ _ _ hc2 (by rintro ⟨_, r'', e⟩; simp at e; exact hd e.1),
                List.reverse_reverse]
              simpa using this
        · have hlf : c = 0x0A := by
            simp at hc2
            rcases hc2 with h | h
            · exact absurd h hcr
            · exact h
          subst hlf
          have e0 : ((0x0A : UInt8) == 0x0D) = false := by decide
          simp only [e0]
          have := ih r hr [] [] (Or.inl rfl) (by intro b hb; cases hb) (by rintro ⟨e, _, _⟩; cases e) hend_r
          rw [refLinesGo_term _ _ _ hc2 (by rintro ⟨e, _⟩; cases e), List.reverse_reverse]
          simpa using this
      · have hc' : isNlCr c = false := by simpa using hc
        simp only [hc', Bool.false_eq_true, if_false]
        have := ih r hr lead (line ++ [c]) hlead
          (by intro b hb; rcases List.mem_append.1 hb with h | h; exact hn b h; simp at h; subst h; exact hc')
          (by rintro ⟨_, e, _⟩; simp at e) hend_r
        have e1 : c :: (lead ++ line).reverse = (lead ++ (line ++ [c])).reverse := by simp
        rw [e1, this, refLinesGo_other _ _ _ (by rw [← isNlCr_iff]; exact hc')]
        simp

/-- **`lines_custom` splits at LF, CR and CR LF** - nothing else ends a line, no byte of a line is lost -
    for every text that does not end in CR LF -/
theorem linesCustom_eq_refLines (s : Bytes) (h : ¬ ∃ p, s = p ++ [0x0D, 0x0A]) : linesCustom s = refLines s := by
  unfold linesCustom refLines
  have := splitCustom_spec s.length s (Nat.le_refl _) [] [] (Or.inl rfl) (by intro b hb; cases hb) (by rintro ⟨e, _, _⟩; cases e) h
  simpa using this

end Pasfmt
