import PasfmtModel.Model.Parser

namespace Pasfmt

theorem parseFlat_noCond (toks : List (Nat × RawKind)) (i0 : Nat) (start : Option Nat) (lo hi : Nat)
    (hidx : ∀ j (hj : j < toks.length), (toks[j]).1 = i0 + j)
    (hk : ∀ p ∈ toks, condKind? p.2 = none) :
    parseFlat start lo hi toks =
      (if toks.isEmpty then .flat false lo hi else .flat false (start.getD i0) (i0 + toks.length), none, []) := by
  induction toks generalizing i0 start lo hi with
  | nil => rfl
  | cons x r ih =>
    obtain ⟨idx, k⟩ := x
    have h0 : idx = i0 := by have := hidx 0 (by simp); simpa using this
    subst h0
    rw [parseFlat]
    simp only [hk (idx, k) (by simp)]
    rw [ih (idx + 1) (some (start.getD idx)) (start.getD idx) (idx + 1)
      (by intro j hj; have := hidx (j + 1) (by simp; omega); simp at this; omega)
      (fun p hp => hk p (by simp [hp]))]
    simp only [List.isEmpty_cons, Bool.false_eq_true, if_false, Option.getD_some, List.length_cons]
    split
    · rename_i hr
      have : r = [] := by simpa using hr
      subst this; simp
    · congr 2; omega

theorem zipIdx_swap_idx (kinds : List RawKind) (k : Nat) :
    ∀ j (hj : j < ((kinds.zipIdx k).map (fun (x : RawKind × Nat) => (x.2, x.1))).length),
      (((kinds.zipIdx k).map (fun (x : RawKind × Nat) => (x.2, x.1)))[j]).1 = k + j := by
  intro j hj
  simp at hj ⊢

/-- without conditional directives there is exactly one pass, and it is the whole file in order -/
theorem passes_noCond (kinds : List RawKind) (h : ∀ k ∈ kinds, condKind? k = none) :
    passes kinds = [List.range kinds.length] := by
  unfold passes parseTree
  simp only
  have hflat := parseFlat_noCond ((kinds.zipIdx 0).map (fun (x : RawKind × Nat) => (x.2, x.1))) 0 none 0 0
    (zipIdx_swap_idx kinds 0)
    (by
      intro p hp
      rw [List.mem_map] at hp
      obtain ⟨x, hx, rfl⟩ := hp
      have := List.mem_zipIdx hx
      have hm : x.1 ∈ kinds := by rw [this.2.2]; exact List.getElem_mem _
      exact h x.1 hm)
  have htree : (parseNext (3 * kinds.length + 3) true []
      ((kinds.zipIdx 0).map (fun (x : RawKind × Nat) => (x.2, x.1)))).1 =
      [if kinds.isEmpty then DSection.flat false 0 0 else .flat false 0 kinds.length] := by
    rw [show 3 * kinds.length + 3 = (3 * kinds.length + 2) + 1 by omega, parseNext]
    simp only [hflat]
    cases kinds <;> simp
  have hfun : (fun (x : RawKind × Nat) => (x.2, x.1)) = (fun x => match x with | (k, i) => (i, k)) := by
    funext x; rfl
  rw [← hfun, htree]
  rw [show 2 * kinds.length + 4 = (2 * kinds.length + 3) + 1 by omega,
      show kinds.length + 2 = (kinds.length + 1) + 1 by omega, passesGo]
  cases hk : kinds with
  | nil => simp [treePass, sectionPass, treeExplored, sectionExplored]
  | cons a r =>
    simp [treePass, sectionPass, treeExplored, sectionExplored]

end Pasfmt
