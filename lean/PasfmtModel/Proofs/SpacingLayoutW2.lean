/-
  The sharpest form of the layout invariance of `TokenSpacing`: whether a gap is empty matters only BEHIND a token
  handled by `max_one_either_side` (a literal or an unknown token) and in front of the end-of-file token; every
  other gap may be empty in one layout and hold blanks or a line break in the other (`a:=b` and `a := b`).
-/
import PasfmtModel.Proofs.SpacingLayoutW
import PasfmtModel.Model.LayoutCheck

namespace Pasfmt

/-! ### sharper still: a gap behind a literal matters only if the next token can keep it

The rule of most kinds overwrites the token's own `spaces_before` (`;`, `)`, `,`, binary operators, keywords, comments,
directives).  Only identifiers, literals and the few operators whose rule may leave the value alone (`+`/`-` when
unary, `(`/`[`, the pointer-type `^`) can keep what `max_one_either_side` of the literal in front of them wrote. -/

theorem keepsCur_false_not_other (k : Kind) (h : keepsCur k = false) : isOtherKind k = false := by
  cases k <;> simp_all [keepsCur, isOtherKind]

theorem spacesBeforeFn_some (prev : Option Kind) (n : Nat) : ∃ v, spacesBeforeFn prev n = some v := by
  unfold spacesBeforeFn
  split
  · exact ⟨_, rfl⟩
  · split <;> exact ⟨_, rfl⟩

/-- a kind that does not keep its spacing gets a value from its own rule, whatever the current values are -/
theorem spacingRule_fst_some (k : Kind) (prev prevReal next : Option Kind) (h : keepsCur k = false) :
    ∃ v, ∀ c n, (spacingRule k prev prevReal next c n).1 = some v := by
  have hsb := spacesBeforeFn_some prev 1
  obtain ⟨vb, hvb⟩ := hsb
  cases k with
  | tOp op =>
    cases op <;> (try (rename_i x; cases x)) <;>
      first
      | (exfalso; simp [keepsCur] at h; done)
      | exact ⟨_, fun _ _ => rfl⟩
      | exact ⟨vb, fun _ _ => hvb⟩
      | (simp only [spacingRule, spaceOperator]; split <;> exact ⟨_, fun _ _ => rfl⟩)
  | tComment c =>
    cases c <;> first
      | exact ⟨_, fun _ _ => rfl⟩
      | exact ⟨vb, fun _ _ => hvb⟩
  | tCompilerDirective => exact ⟨vb, fun _ _ => hvb⟩
  | tConditionalDirective d => exact ⟨vb, fun _ _ => hvb⟩
  | tKeyword kw => exact ⟨vb, fun _ _ => hvb⟩
  | _ => simp [keepsCur] at h

inductive LayoutEqW2 : Bool → List (Kind × Nat) → List (Kind × Nat) → Prop
  | nil {po} : LayoutEqW2 po [] []
  | cons {po k a b r1 r2} : (((po = true ∧ keepsCur k = true) ∨ k = .tEof) → min a 1 = min b 1) →
      LayoutEqW2 (isOtherKind k) r1 r2 → LayoutEqW2 po ((k, a) :: r1) ((k, b) :: r2)

/-- current values the rule of a token of kind `k` cannot tell apart, or does not keep -/
def CurEq2 (k : Kind) (c1 c2 : Nat) : Prop := c1 = c2 ∨ (k = .tEof ∧ min c1 1 = min c2 1) ∨ keepsCur k = false

theorem spacingGo_layoutW2 (po : Bool) (l1 l2 : List (Kind × Nat)) (h : LayoutEqW2 po l1 l2)
    (hni : noInlineLine l1) (prev prevReal : Option Kind) (c1 c2 : Nat)
    (hc : ∀ k a r, l1 = (k, a) :: r → CurEq2 k c1 c2) :
    spacingGo prev prevReal c1 l1 = spacingGo prev prevReal c2 l2 := by
  induction h generalizing prev prevReal c1 c2 with
  | nil => rfl
  | @cons po k a b r1 r2 hab hr ih =>
    have hce : CurEq2 k c1 c2 := hc k a r1 rfl
    -- the head's final value
    have hhead : ∀ (next : Option Kind) (n1 n2 : Option Nat),
        (spacingRule k prev prevReal next c1 n1).1.getD c1 = (spacingRule k prev prevReal next c2 n2).1.getD c2 := by
      intro next n1 n2
      rcases hce with h | h | h
      · subst h
        by_cases ho : isOtherKind k = true
        · have : (spacingRule k prev prevReal next c1 n1).1 = (spacingRule k prev prevReal next c1 n2).1 := by
            unfold spacingRule; split <;> first | rfl | (simp [isOtherKind] at ho)
          rw [this]
        · rw [spacingRule_const k prev prevReal next c1 c1 n1 n2 (by simpa using ho)]
      · obtain ⟨hk, hm⟩ := h
        subst hk
        simp [spacingRule_eof, hm]
      · obtain ⟨v, hv⟩ := spacingRule_fst_some k prev prevReal next h
        rw [hv, hv]; rfl
    cases hr with
    | nil =>
      unfold spacingGo
      simp only [List.head?_nil, Option.map_none]
      rw [hhead none none none]
    | @cons _ k' a' b' r1' r2' hab' hr' =>
      have hk : k ≠ .tComment .cInlineLine := hni (k, a) (by simp)
      unfold spacingGo
      simp only [List.head?_cons, Option.map_some]
      rw [hhead (some k') (some a') (some b')]
      congr 1
      apply ih (fun p hp => hni p (by simp [hp])) (some k)
      intro k2 a2 r2' heq
      simp only [List.cons.injEq, Prod.mk.injEq] at heq
      obtain ⟨⟨hk2, ha2⟩, _⟩ := heq
      subst hk2
      -- what the head's rule leaves as the current value of the next token
      by_cases ho : isOtherKind k = true
      · -- `max_one_either_side`: writes `min(next, 1)`
        have e1 : (spacingRule k prev prevReal (some k') c1 (some a')).2 = some (min a' 1) := by
          unfold spacingRule; split <;> first | rfl | (simp [isOtherKind] at ho)
        have e2 : (spacingRule k prev prevReal (some k') c2 (some b')).2 = some (min b' 1) := by
          unfold spacingRule; split <;> first | rfl | (simp [isOtherKind] at ho)
        rw [e1, e2]
        unfold nextCur CurEq2
        by_cases he : (k' == .tEof) = true
        · have hke : k' = .tEof := by simpa using he
          simp only [he, if_true]
          exact Or.inr (Or.inl ⟨hke, hab' (Or.inr hke)⟩)
        · simp only [he]
          by_cases hkc : keepsCur k' = true
          · left
            have := hab' (Or.inl ⟨ho, hkc⟩)
            simpa using this
          · right; right; simpa using hkc
      · have hno : isOtherKind k = false := by simpa using ho
        rw [spacingRule_const k prev prevReal (some k') c1 c2 (some a') (some b') hno]
        obtain ⟨av, hav⟩ := spacingRule_after_some k prev prevReal (some k') c2 b' hk
        rw [hav]
        unfold nextCur CurEq2
        by_cases he : (k' == .tEof) = true
        · have hke : k' = .tEof := by simpa using he
          simp only [he, if_true]
          exact Or.inr (Or.inl ⟨hke, hab' (Or.inr hke)⟩)
        · left; simp [he]

theorem spacingResult_layoutW2 (l1 l2 : List (Kind × Nat)) (h : LayoutEqW2 false l1 l2) (hni : noInlineLine l1) :
    spacingResult l1 = spacingResult l2 := by
  cases h with
  | nil => rfl
  | @cons _ k a b r1 r2 hab hr =>
    -- `spacingResult` drops the head's own value: run both from the same current value
    have key := spacingGo_layoutW2 false ((k, a) :: r1) ((k, b) :: r2) (LayoutEqW2.cons hab hr) hni none none a a
      (fun _ _ _ _ => Or.inl rfl)
    have e2 : (spacingGo none none a ((k, b) :: r2)).tail = (spacingGo none none b ((k, b) :: r2)).tail := by
      cases r2 with
      | nil => unfold spacingGo; rfl
      | cons q r2' =>
        obtain ⟨k', b'⟩ := q
        unfold spacingGo
        simp only [List.head?_cons, Option.map_some, List.tail_cons]
        -- the head is the first token: its own current value is read by its rule only through `.2` when it is of an
        -- "other" kind, where `.2` does not depend on it
        have hsnd : (spacingRule k none none (some k') a (some b')).2 = (spacingRule k none none (some k') b (some b')).2 := by
          unfold spacingRule; split <;> rfl
        rw [hsnd]
    unfold spacingResult
    simp only
    have hne1 : ∃ x t, spacingGo none none a ((k, a) :: r1) = x :: t := by
      unfold spacingGo; cases r1 <;> exact ⟨_, _, rfl⟩
    have hne2 : ∃ x t, spacingGo none none b ((k, b) :: r2) = x :: t := by
      unfold spacingGo; cases r2 <;> exact ⟨_, _, rfl⟩
    have hne3 : ∃ x t, spacingGo none none a ((k, b) :: r2) = x :: t := by
      unfold spacingGo; cases r2 <;> exact ⟨_, _, rfl⟩
    obtain ⟨x1, t1, e1⟩ := hne1
    obtain ⟨x2, t2, e2'⟩ := hne2
    obtain ⟨x3, t3, e3⟩ := hne3
    rw [e1, e2']
    rw [e1, e3] at key
    rw [e3, e2'] at e2
    simp only [List.tail_cons] at e2
    simp only [List.cons.injEq] at key
    simp [key.2, e2]

/-- two layouts of one token sequence as `TokenSpacing` can tell them apart; `po` = the token before the head is of
    an "other" kind -/
inductive GapEqW : Bool → FT → FT → Prop
  | nil {po} : GapEqW po [] []
  | cons {po t1 t2 r1 r2} : t1.tok.kind = t2.tok.kind →
      ((po = true ∧ keepsCur t1.tok.kind = true) → gapEmpty t1 = gapEmpty t2) →
      (t1.tok.kind = .tEof → min t1.fmt.sp 1 = min t2.fmt.sp 1) → GapEqW (isOtherKind t1.tok.kind) r1 r2 →
      GapEqW po (t1 :: r1) (t2 :: r2)

theorem spacingItemsGo_layoutW2 (po : Bool) (ft1 ft2 : FT) (h : GapEqW po ft1 ft2) :
    LayoutEqW2 po (spacingItemsGo po ft1) (spacingItemsGo po ft2) := by
  induction h with
  | nil => exact LayoutEqW2.nil
  | @cons po t1 t2 r1 r2 hk hg' he hr ih =>
    unfold spacingItemsGo
    simp only
    rw [← hk]
    refine LayoutEqW2.cons ?_ ih
    intro hpo
    by_cases hke : t1.tok.kind = .tEof
    · have hke2 : t2.tok.kind = .tEof := hk ▸ hke
      simp [hke, he hke]
    · rcases hpo with hpo | hpo
      · have hg := hg' hpo
        obtain ⟨hpo, _⟩ := hpo
        subst hpo
        have e1 : (t1.tok.kind == TokenType.tEof) = false := by simpa using hke
        simp only [Bool.true_and, e1, Bool.not_false, Bool.and_true]
        unfold gapEmpty at hg
        by_cases h1 : t1.fmt.nl > 0 <;> by_cases h2 : t2.fmt.nl > 0
        · simp only [h1, h2, decide_true, if_true]; omega
        · have h2' : t2.fmt.nl = 0 := by omega
          have h1' : (t1.fmt.nl == 0) = false := by simp; omega
          simp [h2', h1'] at hg
          simp only [h1, h2, decide_true, decide_false, if_true]
          simp; omega
        · have h1' : t1.fmt.nl = 0 := by omega
          have h2' : (t2.fmt.nl == 0) = false := by simp; omega
          simp [h1', h2'] at hg
          simp only [h1, h2, decide_true, decide_false, if_true]
          simp; omega
        · have h1' : t1.fmt.nl = 0 := by omega
          have h2' : t2.fmt.nl = 0 := by omega
          simp [h1', h2'] at hg
          simp only [h1, h2, decide_false]
          simp
          by_cases z1 : t1.fmt.sp = 0 <;> by_cases z2 : t2.fmt.sp = 0 <;> simp_all <;> omega
      · exact absurd hpo hke


theorem spacingResult_gapEqW (ft1 ft2 : FT) (h : GapEqW false ft1 ft2)
    (hni : noInlineLine (spacingItems ft1)) :
    spacingResult (spacingItems ft1) = spacingResult (spacingItems ft2) :=
  spacingResult_layoutW2 _ _ (spacingItemsGo_layoutW2 false ft1 ft2 h) hni

theorem gapEqWB_sound : ∀ (po : Bool) (ft1 ft2 : FT), gapEqWB po ft1 ft2 = true → GapEqW po ft1 ft2
  | _, [], [], _ => GapEqW.nil
  | _, [], _ :: _, h => by simp [gapEqWB] at h
  | _, _ :: _, [], h => by simp [gapEqWB] at h
  | po, t1 :: r1, t2 :: r2, h => by
    unfold gapEqWB at h
    simp only [Bool.and_eq_true, Bool.or_eq_true, Bool.not_eq_true', beq_iff_eq] at h
    obtain ⟨⟨⟨hk, hg⟩, he⟩, hr⟩ := h
    refine GapEqW.cons hk ?_ ?_ (gapEqWB_sound _ r1 r2 hr)
    · intro hpo
      rcases hg with hg | hg
      · rcases hg with hg | hg
        · rw [hpo.1] at hg; cases hg
        · rw [hpo.2] at hg; cases hg
      · exact hg
    · intro hke
      rcases he with he | he
      · rw [hke] at he; simp at he
      · exact he

/-! ### with line comments that share their line with code

The rule of such a comment writes nothing behind it, so the next token keeps the input's spaces unless its own rule
overwrites them.  Results then agree everywhere except at a token that can keep its spacing (`keepsCur`) directly
behind such a comment ("free" positions). -/

/-- two result lists agree except at free positions -/
def EqX : Option Kind → List (Kind × Nat) → List Nat → List Nat → Prop
  | _, [], [], [] => True
  | prev, (k, _) :: l, x :: r1, y :: r2 =>
    ((prev = some (.tComment .cInlineLine) ∧ keepsCur k = true) ∨ x = y) ∧ EqX (some k) l r1 r2
  | _, _, _, _ => False

theorem spacingGo_layoutW3 (po : Bool) (l1 l2 : List (Kind × Nat)) (h : LayoutEqW2 po l1 l2)
    (prev prevReal : Option Kind) (c1 c2 : Nat)
    (hc : ∀ k a r, l1 = (k, a) :: r → CurEq2 k c1 c2 ∨ prev = some (.tComment .cInlineLine)) :
    EqX prev l1 (spacingGo prev prevReal c1 l1) (spacingGo prev prevReal c2 l2) := by
  induction h generalizing prev prevReal c1 c2 with
  | nil => simp [spacingGo, EqX]
  | @cons po k a b r1 r2 hab hr ih =>
    have hce := hc k a r1 rfl
    -- the head's final value
    have hhead : ∀ (next : Option Kind) (n1 n2 : Option Nat),
        (prev = some (.tComment .cInlineLine) ∧ keepsCur k = true) ∨
        (spacingRule k prev prevReal next c1 n1).1.getD c1 = (spacingRule k prev prevReal next c2 n2).1.getD c2 := by
      intro next n1 n2
      have third : keepsCur k = false →
          (spacingRule k prev prevReal next c1 n1).1.getD c1 = (spacingRule k prev prevReal next c2 n2).1.getD c2 := by
        intro h
        obtain ⟨v, hv⟩ := spacingRule_fst_some k prev prevReal next h
        rw [hv, hv]; rfl
      rcases hce with hce | hp
      · right
        rcases hce with h | h | h
        · subst h
          by_cases ho : isOtherKind k = true
          · have : (spacingRule k prev prevReal next c1 n1).1 = (spacingRule k prev prevReal next c1 n2).1 := by
              unfold spacingRule; split <;> first | rfl | (simp [isOtherKind] at ho)
            rw [this]
          · rw [spacingRule_const k prev prevReal next c1 c1 n1 n2 (by simpa using ho)]
        · obtain ⟨hk, hm⟩ := h
          subst hk
          simp [spacingRule_eof, hm]
        · exact third h
      · by_cases hk : keepsCur k = true
        · exact Or.inl ⟨hp, hk⟩
        · exact Or.inr (third (by simpa using hk))
    cases hr with
    | nil =>
      unfold spacingGo
      simp only [List.head?_nil, Option.map_none]
      exact ⟨hhead none none none, trivial⟩
    | @cons _ k' a' b' r1' r2' hab' hr' =>
      unfold spacingGo
      simp only [List.head?_cons, Option.map_some]
      refine ⟨hhead (some k') (some a') (some b'), ?_⟩
      apply ih (some k)
      intro k2 a2 r2' heq
      simp only [List.cons.injEq, Prod.mk.injEq] at heq
      obtain ⟨⟨hk2, ha2⟩, _⟩ := heq
      subst hk2
      by_cases hil : k = .tComment .cInlineLine
      · exact Or.inr (by rw [hil])
      · left
        by_cases ho : isOtherKind k = true
        · have e1 : (spacingRule k prev prevReal (some k') c1 (some a')).2 = some (min a' 1) := by
            unfold spacingRule; split <;> first | rfl | (simp [isOtherKind] at ho)
          have e2 : (spacingRule k prev prevReal (some k') c2 (some b')).2 = some (min b' 1) := by
            unfold spacingRule; split <;> first | rfl | (simp [isOtherKind] at ho)
          rw [e1, e2]
          unfold nextCur CurEq2
          by_cases he : (k' == .tEof) = true
          · have hke : k' = .tEof := by simpa using he
            simp only [he, if_true]
            exact Or.inr (Or.inl ⟨hke, hab' (Or.inr hke)⟩)
          · simp only [he]
            by_cases hkc : keepsCur k' = true
            · left
              have := hab' (Or.inl ⟨ho, hkc⟩)
              simpa using this
            · right; right; simpa using hkc
        · have hno : isOtherKind k = false := by simpa using ho
          rw [spacingRule_const k prev prevReal (some k') c1 c2 (some a') (some b') hno]
          obtain ⟨av, hav⟩ := spacingRule_after_some k prev prevReal (some k') c2 b' hil
          rw [hav]
          unfold nextCur CurEq2
          by_cases he : (k' == .tEof) = true
          · have hke : k' = .tEof := by simpa using he
            simp only [he, if_true]
            exact Or.inr (Or.inl ⟨hke, hab' (Or.inr hke)⟩)
          · left; simp [he]

theorem EqX.of_eq : ∀ (prev : Option Kind) (l : List (Kind × Nat)) (r : List Nat), r.length = l.length → EqX prev l r r
  | _, [], [], _ => trivial
  | _, [], _ :: _, h => by simp at h
  | _, _ :: _, [], h => by simp at h
  | prev, (k, a) :: l, x :: r, h => ⟨Or.inr rfl, EqX.of_eq (some k) l r (by simpa using h)⟩

theorem EqX.trans_eq {prev : Option Kind} {l : List (Kind × Nat)} {r1 r2 r3 : List Nat}
    (h : EqX prev l r1 r2) (e : r2 = r3) : EqX prev l r1 r3 := e ▸ h

/-- positionwise reading of `EqX` -/
theorem EqX.get : ∀ (prev : Option Kind) (l : List (Kind × Nat)) (r1 r2 : List Nat), EqX prev l r1 r2 →
    r1.length = l.length ∧ r2.length = l.length ∧
    ∀ (j : Nat) (x y : Nat) (p : Kind × Nat), r1[j]? = some x → r2[j]? = some y → l[j]? = some p →
      ((if j = 0 then prev else (l[j - 1]?).map (·.1)) = some (.tComment .cInlineLine) ∧ keepsCur p.1 = true) ∨ x = y
  | _, [], [], [], _ => ⟨rfl, rfl, fun j x y p h => by simp at h⟩
  | _, [], [], _ :: _, h => by simp [EqX] at h
  | _, [], _ :: _, _, h => by simp [EqX] at h
  | _, _ :: _, [], _, h => by simp [EqX] at h
  | _, _ :: _, _ :: _, [], h => by simp [EqX] at h
  | prev, (k, a) :: l, x0 :: r1, y0 :: r2, h => by
    obtain ⟨h0, hr⟩ := h
    obtain ⟨l1, l2, hg⟩ := EqX.get (some k) l r1 r2 hr
    refine ⟨by simp [l1], by simp [l2], ?_⟩
    intro j x y p hx hy hp
    cases j with
    | zero =>
      simp at hx hy hp
      subst hx; subst hy; subst hp
      simpa using h0
    | succ j =>
      have := hg j x y p (by simpa using hx) (by simpa using hy) (by simpa using hp)
      cases j with
      | zero => simpa using this
      | succ j => simpa using this

theorem spacingResult_layoutW3 (l1 l2 : List (Kind × Nat)) (h : LayoutEqW2 false l1 l2) :
    EqX none l1 (spacingResult l1) (spacingResult l2) := by
  cases h with
  | nil => simp [spacingResult, EqX]
  | @cons _ k a b r1 r2 hab hr =>
    have key := spacingGo_layoutW3 false ((k, a) :: r1) ((k, b) :: r2) (LayoutEqW2.cons hab hr) none none a a
      (fun _ _ _ _ => Or.inl (Or.inl rfl))
    have e2 : (spacingGo none none a ((k, b) :: r2)).tail = (spacingGo none none b ((k, b) :: r2)).tail := by
      cases r2 with
      | nil => unfold spacingGo; rfl
      | cons q r2' =>
        obtain ⟨k', b'⟩ := q
        unfold spacingGo
        simp only [List.head?_cons, Option.map_some, List.tail_cons]
        have hsnd : (spacingRule k none none (some k') a (some b')).2 = (spacingRule k none none (some k') b (some b')).2 := by
          unfold spacingRule; split <;> rfl
        rw [hsnd]
    unfold spacingResult
    simp only
    have hne1 : ∃ x t, spacingGo none none a ((k, a) :: r1) = x :: t := by
      unfold spacingGo; cases r1 <;> exact ⟨_, _, rfl⟩
    have hne2 : ∃ x t, spacingGo none none b ((k, b) :: r2) = x :: t := by
      unfold spacingGo; cases r2 <;> exact ⟨_, _, rfl⟩
    have hne3 : ∃ x t, spacingGo none none a ((k, b) :: r2) = x :: t := by
      unfold spacingGo; cases r2 <;> exact ⟨_, _, rfl⟩
    obtain ⟨x1, t1, e1⟩ := hne1
    obtain ⟨x2, t2, e2'⟩ := hne2
    obtain ⟨x3, t3, e3⟩ := hne3
    rw [e1, e2']
    rw [e1, e3] at key
    rw [e3, e2'] at e2
    simp only [List.tail_cons] at e2
    obtain ⟨_, hk⟩ := key
    subst e2
    exact ⟨Or.inr rfl, hk⟩

end Pasfmt
