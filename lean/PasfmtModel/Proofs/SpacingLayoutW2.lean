/-
  The sharpest form of the layout invariance of `TokenSpacing`: whether a gap is empty matters only BEHIND a token
  handled by `max_one_either_side` (a literal or an unknown token) and in front of the end-of-file token; every
  other gap may be empty in one layout and hold blanks or a line break in the other (`a:=b` and `a := b`).
-/
import PasfmtModel.Proofs.SpacingLayoutW
import PasfmtModel.Model.LayoutCheck

namespace Pasfmt

/-- two layouts of one token sequence as `TokenSpacing` can tell them apart; `po` = the token before the head is of
    an "other" kind -/
inductive GapEqW : Bool → FT → FT → Prop
  | nil {po} : GapEqW po [] []
  | cons {po t1 t2 r1 r2} : t1.tok.kind = t2.tok.kind → (po = true → gapEmpty t1 = gapEmpty t2) →
      (t1.tok.kind = .tEof → min t1.fmt.sp 1 = min t2.fmt.sp 1) → GapEqW (isOtherKind t1.tok.kind) r1 r2 →
      GapEqW po (t1 :: r1) (t2 :: r2)

theorem spacingItemsGo_layoutW2 (po : Bool) (ft1 ft2 : FT) (h : GapEqW po ft1 ft2) :
    LayoutEqW po (spacingItemsGo po ft1) (spacingItemsGo po ft2) := by
  induction h with
  | nil => exact LayoutEqW.nil
  | @cons po t1 t2 r1 r2 hk hg' he hr ih =>
    unfold spacingItemsGo
    simp only
    rw [← hk]
    refine LayoutEqW.cons ?_ ih
    intro hpo
    by_cases hke : t1.tok.kind = .tEof
    · have hke2 : t2.tok.kind = .tEof := hk ▸ hke
      simp [hke, he hke]
    · rcases hpo with hpo | hpo
      · have hg := hg' hpo
        subst hpo
        have e1 : (t1.tok.kind == TokenType.tEof) = false := by simpa using hke
        simp only [Bool.true_and, e1, Bool.not_false, Bool.and_true]
        unfold gapEmpty at hg
        by_cases h1 : t1.fmt.nl > 0 <;> by_cases h2 : t2.fmt.nl > 0
        · simp only [h1, h2, decide_true, if_true]; omega
        · have h2' : t2.fmt.nl = 0 := by omega
          have h1' : (t1.fmt.nl == 0) = false := by simp; omega
          simp [h2', h1'] at hg
          simp only [h1, h2, decide_true, decide_false, if_true]
          simp; omega
        · have h1' : t1.fmt.nl = 0 := by omega
          have h2' : (t2.fmt.nl == 0) = false := by simp; omega
          simp [h1', h2'] at hg
          simp only [h1, h2, decide_true, decide_false, if_true]
          simp; omega
        · have h1' : t1.fmt.nl = 0 := by omega
          have h2' : t2.fmt.nl = 0 := by omega
          simp [h1', h2'] at hg
          simp only [h1, h2, decide_false]
          simp
          by_cases z1 : t1.fmt.sp = 0 <;> by_cases z2 : t2.fmt.sp = 0 <;> simp_all <;> omega
      · exact absurd hpo hke


theorem spacingResult_gapEqW (ft1 ft2 : FT) (h : GapEqW false ft1 ft2)
    (hni : noInlineLine (spacingItems ft1)) :
    spacingResult (spacingItems ft1) = spacingResult (spacingItems ft2) :=
  spacingResult_layoutW _ _ (spacingItemsGo_layoutW2 false ft1 ft2 h) hni

theorem gapEqWB_sound : ∀ (po : Bool) (ft1 ft2 : FT), gapEqWB po ft1 ft2 = true → GapEqW po ft1 ft2
  | _, [], [], _ => GapEqW.nil
  | _, [], _ :: _, h => by simp [gapEqWB] at h
  | _, _ :: _, [], h => by simp [gapEqWB] at h
  | po, t1 :: r1, t2 :: r2, h => by
    unfold gapEqWB at h
    simp only [Bool.and_eq_true, Bool.or_eq_true, Bool.not_eq_true', beq_iff_eq] at h
    obtain ⟨⟨⟨hk, hg⟩, he⟩, hr⟩ := h
    refine GapEqW.cons hk ?_ ?_ (gapEqWB_sound _ r1 r2 hr)
    · intro hpo
      rcases hg with hg | hg
      · rw [hpo] at hg; cases hg
      · exact hg
    · intro hke
      rcases he with he | he
      · rw [hke] at he; simp at he
      · exact he

end Pasfmt
