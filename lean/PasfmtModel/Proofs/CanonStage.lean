/-
  Canonical counters after the wrapper stage with the search inside (for C08): every token written by a solution has
  at most two line breaks before it and no indentation without a line break; the stage never adds spaces; the last
  step removes the spaces at line starts.  Hence, when every token that is not kept verbatim is written, all of them
  have canonical counters (`canonFmtB`), whatever the search returned.
-/
import PasfmtModel.Proofs.LayoutStage

namespace Pasfmt

/-- per position: a token that is not kept verbatim has at most one space before it and, if it is in `W`, the
    counters a solution leaves -/
def CanonOn (W : Nat → Prop) (ft : FT) : Prop :=
  ∀ j t, ft[j]? = some t → t.fmt.ignored = false → t.fmt.sp ≤ 1 ∧ (W j → canonWB t.fmt = true)

theorem CanonOn.mono {W W' : Nat → Prop} {ft : FT} (h : CanonOn W ft) (hw : ∀ j, W' j → W j) : CanonOn W' ft :=
  fun j t a b => ⟨(h j t a b).1, fun w => (h j t a b).2 (hw j w)⟩

theorem applyDec_canonW (f : FmtData) (first : Bool) (ind cont : Nat) (d : Dec) :
    canonWB (applyDec f first ind cont d) = true := by
  cases d with
  | brk c =>
    unfold applyDec canonWB
    by_cases hf : first = true
    · simp only [hf, if_true]
      have h1 : min (max f.nl 1) 2 ≤ 2 := by omega
      have h2 : min (max f.nl 1) 2 ≠ 0 := by omega
      simp [h1, h2]
    · simp [hf]
  | cont => simp [applyDec, canonWB]

theorem applyDec_sp (f : FmtData) (first : Bool) (ind cont : Nat) (d : Dec) :
    (applyDec f first ind cont d).sp = f.sp := by cases d <;> rfl

theorem setFmt_canon {W : Nat → Prop} {ft ft1 : FT} {i : Nat} {first : Bool} {ind cont : Nat} {d : Dec}
    (h : CanonOn W ft) (h1 : setFmt ft i (fun f => applyDec f first ind cont d) = some ft1) :
    CanonOn (fun j => W j ∨ j = i) ft1 := by
  unfold setFmt at h1
  split at h1
  · rename_i t ht
    simp at h1; subst h1
    intro j u hu hi
    rw [List.getElem?_set] at hu
    by_cases hij : i = j
    · subst hij
      have hl := getElem?_lt ht
      simp [hl] at hu
      subst hu
      have hi0 : t.fmt.ignored = false := by
        have : (applyDec t.fmt first ind cont d).ignored = false := hi
        rw [applyDec_ignored] at this; exact this
      refine ⟨?_, fun _ => applyDec_canonW _ _ _ _ _⟩
      show (applyDec t.fmt first ind cont d).sp ≤ 1
      rw [applyDec_sp]; exact (h i t ht hi0).1
    · simp [hij] at hu
      obtain ⟨a, b⟩ := h j u hu hi
      refine ⟨a, fun w => ?_⟩
      rcases w with w | w
      · exact b w
      · exact absurd w.symm hij
  · simp at h1
where
  getElem?_lt {α : Type} {l : List α} {j : Nat} {a : α} (h : l[j]? = some a) : j < l.length := by
    rcases Nat.lt_or_ge j l.length with h1 | h1
    · exact h1
    · rw [List.getElem?_eq_none h1] at h; cases h

mutual
theorem applySol_canon (lines : List Line) (W : Nat → Prop) (ft ft1 : FT) (s : Sol) (li : Nat)
    (h : CanonOn W ft) (h1 : applySol lines ft s li = some ft1) :
    CanonOn (fun j => W j ∨ j ∈ solTokens lines s li) ft1 := by
  cases s with
  | mk ind cont decs =>
    unfold applySol at h1
    unfold solTokens
    split at h1
    · simp at h1
    · rename_i l hl
      simp only [hl]
      exact applyDecs_canon lines ind cont l.tokens 0 W ft ft1 decs h h1

theorem applyDecs_canon (lines : List Line) (ind cont : Nat) (toks : List Nat) (i : Nat) (W : Nat → Prop)
    (ft ft1 : FT) (decs : List (Dec × List (Nat × Sol)))
    (h : CanonOn W ft) (h1 : applyDecs lines ind cont toks i ft decs = some ft1) :
    CanonOn (fun j => W j ∨ j ∈ decsTokens lines toks i decs) ft1 := by
  cases decs with
  | nil =>
    unfold applyDecs at h1
    simp at h1; subst h1
    exact h.mono (fun j w => by
      rcases w with w | w
      · exact w
      · unfold decsTokens at w; simp at w)
  | cons dk rest =>
    obtain ⟨d, children⟩ := dk
    unfold applyDecs at h1
    unfold decsTokens
    split at h1
    · simp at h1
    · rename_i tok htok
      simp only [htok]
      split at h1
      · simp at h1
      · rename_i fta ha
        have ra := setFmt_canon h ha
        split at h1
        · simp at h1
        · rename_i ftb hb
          have rb := applyChildren_canon lines _ fta ftb children ra hb
          have rc := applyDecs_canon lines ind cont toks (i + 1) _ ftb ft1 rest rb h1
          refine rc.mono ?_
          intro j w
          rcases w with w | w
          · exact Or.inl (Or.inl (Or.inl w))
          · simp only [List.mem_append, List.mem_singleton] at w
            rcases w with (w | w) | w
            · exact Or.inl (Or.inl (Or.inr w))
            · exact Or.inl (Or.inr w)
            · exact Or.inr w

theorem applyChildren_canon (lines : List Line) (W : Nat → Prop) (ft ft1 : FT) (ks : List (Nat × Sol))
    (h : CanonOn W ft) (h1 : applyChildren lines ft ks = some ft1) :
    CanonOn (fun j => W j ∨ j ∈ childrenTokens lines ks) ft1 := by
  cases ks with
  | nil =>
    unfold applyChildren at h1
    simp at h1; subst h1
    exact h.mono (fun j w => by
      rcases w with w | w
      · exact w
      · unfold childrenTokens at w; simp at w)
  | cons k rest =>
    obtain ⟨li, s⟩ := k
    unfold applyChildren at h1
    unfold childrenTokens
    split at h1
    · simp at h1
    · rename_i fta ha
      have ra := applySol_canon lines W ft fta s li h ha
      have rb := applyChildren_canon lines _ fta ft1 rest ra h1
      refine rb.mono ?_
      intro j w
      rcases w with w | w
      · exact Or.inl (Or.inl w)
      · simp only [List.mem_append] at w
        rcases w with w | w
        · exact Or.inl (Or.inr w)
        · exact Or.inr w
end

theorem applyLinesS_canon (phase : Nat) (lines : List Line) (is : List Nat) (st st1 : SearchState) (W : Nat → Prop)
    (ft ft1 : FT) (acc sols : List (Nat × Nat × Sol))
    (h : CanonOn W ft) (h1 : applyLinesS phase lines is st ft acc = some (ft1, st1, sols)) :
    ∃ news, sols = acc ++ news ∧ CanonOn (fun j => W j ∨ ∃ x ∈ news, j ∈ solTokens lines x.2.2 x.2.1) ft1 := by
  induction is generalizing st W ft acc with
  | nil =>
    unfold applyLinesS at h1
    simp at h1
    obtain ⟨rfl, rfl, rfl⟩ := h1
    exact ⟨[], by simp, h.mono (fun j w => by
      rcases w with w | w
      · exact w
      · simp at w)⟩
  | cons i rest ih =>
    unfold applyLinesS at h1
    split at h1
    · exact ih _ W ft acc h h1
    · rename_i s st' hs
      split at h1
      · simp at h1
      · rename_i fta ha
        have ra := applySol_canon lines W ft fta s i h ha
        obtain ⟨news, hsols, rb⟩ := ih st' _ fta (acc ++ [(phase, i, s)]) ra h1
        refine ⟨(phase, i, s) :: news, by rw [hsols]; simp, rb.mono ?_⟩
        intro j w
        rcases w with w | ⟨x, hx, w⟩
        · exact Or.inl (Or.inl w)
        · rcases List.mem_cons.1 hx with rfl | hx
          · exact Or.inl (Or.inr w)
          · exact Or.inr ⟨x, hx, w⟩

/-! ### the string passes keep every counter -/

theorem setContent_fmt (t : FTok) (c : Bytes) : (t.setContent c).fmt = t.fmt := by
  unfold FTok.setContent; split <;> rfl

theorem mlsLine_canon (S : Settings) (W : Nat → Prop) (toks : List Nat) (ft ft1 : FT) (ch : Bool)
    (h : CanonOn W ft) (h1 : mlsLine S toks ft = some (ft1, ch)) : CanonOn W ft1 := by
  induction toks generalizing ft ft1 ch with
  | nil =>
    unfold mlsLine at h1
    simp at h1; obtain ⟨rfl, rfl⟩ := h1; exact h
  | cons idx rest ih =>
    unfold mlsLine at h1
    split at h1
    · simp at h1
    · rename_i t ht
      simp only at h1
      have key : ∀ r : Option Bytes, CanonOn W (match r with | some c => ft.set idx (t.setContent c) | none => ft) := by
        intro r
        cases r with
        | none => exact h
        | some c =>
          simp only
          intro j u hu hi
          rw [List.getElem?_set] at hu
          by_cases hij : idx = j
          · subst hij
            have hl : idx < ft.length := by
              rcases Nat.lt_or_ge idx ft.length with h1 | h1
              · exact h1
              · rw [List.getElem?_eq_none h1] at ht; cases ht
            simp [hl] at hu
            subst hu
            rw [setContent_fmt] at hi ⊢
            exact h idx t ht hi
          · simp [hij] at hu
            exact h j u hu hi
      split at h1
      · simp at h1
      · rename_i ft2 ch2 h2
        simp at h1
        obtain ⟨rfl, rfl⟩ := h1
        exact ih _ ft2 ch2 (key _) h2

theorem mlsPass1_canon (S : Settings) (W : Nat → Prop) (lines : List Line) (ls : List (Line × Nat)) (ft ft1 : FT)
    (acc out : List Nat) (h : CanonOn W ft) (h1 : mlsPass1 S lines ls ft acc = some (ft1, out)) : CanonOn W ft1 := by
  induction ls generalizing ft acc with
  | nil =>
    unfold mlsPass1 at h1
    simp at h1; obtain ⟨rfl, rfl⟩ := h1; exact h
  | cons li rest ih =>
    obtain ⟨l, i⟩ := li
    unfold mlsPass1 at h1
    split at h1
    · simp at h1
    · rename_i fta changed ha
      have ra := mlsLine_canon S W l.tokens ft fta changed h ha
      split at h1
      · split at h1
        · simp at h1
        · exact ih fta _ ra h1
      · exact ih fta _ ra h1

theorem mlsPass2_canon (S : Settings) (W : Nat → Prop) (ls : List Line) (ft ft1 : FT)
    (h : CanonOn W ft) (h1 : mlsPass2 S ls ft = some ft1) : CanonOn W ft1 := by
  induction ls generalizing ft with
  | nil =>
    unfold mlsPass2 at h1
    simp at h1; subst h1; exact h
  | cons l rest ih =>
    unfold mlsPass2 at h1
    split at h1
    · simp at h1
    · rename_i fta ch ha
      exact ih fta (mlsLine_canon S W l.tokens ft fta ch h ha) h1

/-- after the removal of the spaces at line starts every written token has canonical counters -/
theorem zero_canon (ft : FT) (h : CanonOn (fun _ => True) ft) :
    ∀ t ∈ zeroLineStartSpaces ft, t.fmt.ignored = false → canonFmtB t.fmt = true := by
  intro t ht hi
  unfold zeroLineStartSpaces at ht
  obtain ⟨u, hu, rfl⟩ := List.mem_map.1 ht
  obtain ⟨j, hj⟩ := List.mem_iff_getElem?.1 hu
  by_cases hn : u.fmt.nl > 0
  · simp only [hn, if_true] at hi ⊢
    obtain ⟨_, hc⟩ := h j u hj hi
    have hc := hc trivial
    unfold canonWB at hc
    unfold canonFmtB
    simp only [Bool.and_eq_true, decide_eq_true_eq, Bool.or_eq_true, bne_iff_ne, ne_eq, beq_iff_eq] at hc ⊢
    refine ⟨⟨hc.1, ?_⟩, Or.inl (by omega)⟩
    simp
  · simp only [hn, if_false] at hi ⊢
    obtain ⟨hs, hc⟩ := h j u hj hi
    have hc := hc trivial
    have hz : u.fmt.nl = 0 := by omega
    unfold canonWB at hc
    unfold canonFmtB
    simp only [Bool.and_eq_true, decide_eq_true_eq, Bool.or_eq_true, bne_iff_ne, ne_eq, beq_iff_eq] at hc ⊢
    refine ⟨⟨hc.1, Or.inl hz⟩, ?_⟩
    rcases hc.2 with h2 | h2
    · exact absurd hz h2
    · exact Or.inr ⟨h2, hs⟩

/-- **canonical counters after the stage with the search inside, whatever the search returns** -/
theorem wrapStageFull_canon (cfg : Config) (lines : List Line) (W0 : Nat → Bool) (ft ftz : FT)
    (sols : List (Nat × Nat × Sol))
    (h : CanonOn (fun j => W0 j = true) ft)
    (h1 : wrapStageFull cfg lines ft = some (ftz, sols))
    (hall : allWritten lines W0 ft.length sols = true) :
    ∀ t ∈ ftz, t.fmt.ignored = false → canonFmtB t.fmt = true := by
  unfold wrapStageFull at h1
  simp only at h1
  split at h1
  · simp at h1
  · rename_i fta sta solsa ha
    obtain ⟨news, hsols, ra⟩ := applyLinesS_canon 0 lines _ _ sta _ ft fta [] solsa h ha
    simp only [List.nil_append] at hsols
    subst hsols
    have hfirst : ∀ x ∈ sols, x.1 = 0 → x ∈ solsa := by
      intro x hx h0
      split at h1
      · simp at h1; obtain ⟨_, rfl⟩ := h1; exact hx
      · split at h1
        · simp at h1
        · rename_i ftb toReflow hb
          split at h1
          · simp at h1
          · rename_i ftc stc solsc hc
            split at h1
            · simp at h1
            · simp at h1
              obtain ⟨_, rfl⟩ := h1
              obtain ⟨_, news2, _, hs2, hp2, _⟩ := applyLinesS_relW 1 lines _ _ stc (fun _ => False) _ ftb ftb ftc solsa solsc
                (⟨rfl, fun j t t' a b => by rw [a] at b; cases b; exact ⟨LR.refl _ _, fun _ => FmtEq.refl _ _⟩⟩ : RelW (fun _ => False) (fun _ => True) ftb ftb) hc
              rw [hs2] at hx
              rcases List.mem_append.1 hx with hx | hx
              · exact hx
              · have := hp2 x hx; omega
    have len1 : fta.length = ft.length := (All2.length_eq (applyLinesS_rel cfg.settings _ _ _ _ _ _ _ _ _ ha)).symm
    have rT : CanonOn (fun _ => True) fta := by
      intro j t a hi
      refine ⟨(ra j t a hi).1, fun _ => (ra j t a hi).2 ?_⟩
      have hj : j < ft.length := by
        rw [← len1]
        rcases Nat.lt_or_ge j fta.length with h1 | h1
        · exact h1
        · rw [List.getElem?_eq_none h1] at a; cases a
      unfold allWritten at hall
      rw [List.all_eq_true] at hall
      have := hall j (List.mem_range.2 hj)
      simp only [Bool.or_eq_true, List.any_eq_true, Bool.and_eq_true, beq_iff_eq, List.contains_iff_mem] at this
      rcases this with w | ⟨x, hx, h0, hm⟩
      · exact Or.inl w
      · exact Or.inr ⟨x, hfirst x hx h0, hm⟩
    split at h1
    · simp at h1; obtain ⟨rfl, _⟩ := h1
      exact zero_canon _ rT
    · split at h1
      · simp at h1
      · rename_i ftb toReflow hb
        have rb := mlsPass1_canon cfg.settings _ lines _ fta ftb [] toReflow rT hb
        split at h1
        · simp at h1
        · rename_i ftc stc solsc hc
          obtain ⟨_, _, rc⟩ := applyLinesS_canon 1 lines _ _ stc _ ftb ftc solsa solsc rb hc
          split at h1
          · simp at h1
          · rename_i ftd hd
            have rd := mlsPass2_canon cfg.settings (fun _ => True) lines ftc ftd (rc.mono (fun _ _ => Or.inl trivial)) hd
            simp at h1; obtain ⟨rfl, _⟩ := h1
            exact zero_canon _ rd

theorem preStageOkB_sound (lines : List Line) (ft : FT) (h : preStageOkB lines ft = true) :
    CanonOn (fun j => writtenBefore lines ft j = true) ft := by
  intro j t ht hi
  unfold preStageOkB at h
  rw [List.all_eq_true] at h
  have := h (t, j) (List.mem_zipIdx_iff_getElem?.2 ht)
  simp only [hi, Bool.false_or, Bool.and_eq_true, decide_eq_true_eq, Bool.or_eq_true, Bool.not_eq_true'] at this
  refine ⟨this.1, fun w => ?_⟩
  rcases this.2 with h2 | h2
  · rw [w] at h2; cases h2
  · exact h2

/-- **canonical counters for the closed model of the whole formatter, decided per input**: when `canonPremisesB`
    answers `true` the formatter's output is the reconstruction of a token state in which every token that is not kept
    verbatim has canonical counters -/
theorem formatFull_canon_checked (cfg : Config) (alnum : Bytes → Bool) (s : Bytes)
    (h : canonPremisesB cfg alnum s = true) :
    ∃ ftz, formatFull cfg alnum s = some (reconstruct cfg.settings ftz) ∧
      ∀ t ∈ ftz, t.fmt.ignored = false → canonFmtB t.fmt = true := by
  unfold canonPremisesB at h
  split at h
  · cases h
  · rename_i raw hl
    split at h
    · cases h
    · rename_i po hpo
      simp only [Bool.and_eq_true] at h
      obtain ⟨hpre, hw⟩ := h
      split at hw
      · cases hw
      · rename_i ftz sols hstage
        refine ⟨ftz, ?_, wrapStageFull_canon cfg _ _ _ ftz sols (preStageOkB_sound _ _ hpre) hstage hw⟩
        unfold formatFull
        rw [hl]
        simp only
        unfold formatTokensFull
        rw [hpo]
        simp only
        have : wrapStageFull cfg (preWrap { parser := fun _ => po, wrap := fun _ _ ft => ft, alnum := alnum } raw).2.1
            (preWrap { parser := fun _ => po, wrap := fun _ _ ft => ft, alnum := alnum } raw).2.2 = some (ftz, sols) := hstage
        rw [this]

end Pasfmt
