/-
  The conditional-directive consolidator and the package-directive rule keep logical lines well formed:
  an expanded line is the full range first..last of its old tokens (so it is strictly increasing, in range,
  and contains every old token and every merged directive); a directive line is voided only when its
  directive was merged into another line; nothing else changes.
-/
import PasfmtModel.Model.Consolidators

namespace Pasfmt

/-- `[a, a+1, …, b]` -/
def rangeIncl (a b : Nat) : List Nat := List.range' a (b + 1 - a)

theorem rangeIncl_self (a : Nat) : rangeIncl a a = [a] := by
  simp [rangeIncl]

theorem rangeIncl_append (a b c : Nat) (h1 : a ≤ b + 1) (h2 : b ≤ c) :
    rangeIncl a b ++ rangeIncl (b + 1) c = rangeIncl a c := by
  unfold rangeIncl
  have : b + 1 = a + (b + 1 - a) := by omega
  conv => lhs; rhs; rw [this]
  rw [List.range'_append_1]
  congr 1; omega

theorem mem_rangeIncl {a b x : Nat} : x ∈ rangeIncl a b ↔ a ≤ x ∧ x ≤ b := by
  simp [rangeIncl, List.mem_range'_1]; omega

theorem rangeIncl_pairwise (a b : Nat) : (rangeIncl a b).Pairwise (· < ·) := by
  unfold rangeIncl
  exact List.pairwise_lt_range'

theorem cdc_inner_eq (gs ge : Nat) :
    (List.range (ge - gs - 1)).map (· + gs + 1) = List.range' (gs + 1) (ge - gs - 1) := by
  apply List.ext_getElem
  · simp
  · intro i h1 h2
    simp [List.getElem_range']
    omega

theorem gap_list_eq (p c : Nat) (h : c - p > 1) :
    [p + 1] ++ (List.range (c - 1 - (p + 1) - 1)).map (· + (p + 1) + 1) ++ (if c - 1 != p + 1 then [c - 1] else [])
      = rangeIncl (p + 1) (c - 1) := by
  apply List.ext_getElem
  · simp [rangeIncl]; split <;> simp <;> omega
  · intro i h1 h2
    simp [rangeIncl] at h2 ⊢
    cases i with
    | zero => simp
    | succ j =>
      simp only [List.getElem_cons_succ]
      rw [List.getElem_append]
      split
      · simp; omega
      · rename_i h3
        simp at h3
        split
        · simp at h1; omega
        · simp; omega

/-- the gap part of a window appends exactly `prev+1 ..= cur-1`; its directives lie strictly between -/
theorem cdcGap_spec {kinds : Array Kind} {acc a : CdcAcc} {prev cur : Nat} (hlt : prev < cur)
    (h : cdcGap kinds acc prev cur = some a) :
    a.newToks = acc.newToks ++ rangeIncl (prev + 1) (cur - 1) ∧
    (∀ d ∈ a.directives, d ∈ acc.directives ∨ (prev < d ∧ d < cur)) := by
  unfold cdcGap at h
  by_cases hgap : cur - prev > 1
  · simp only [hgap, if_true] at h
    split at h
    · split at h
      · simp at h
      · split at h
        · simp only [Option.some.injEq] at h; subst h
          constructor
          · have := gap_list_eq prev cur hgap
            simp only [List.append_assoc] at this ⊢
            rw [this]
          · intro d hd
            simp only [List.mem_append, List.mem_singleton] at hd
            rcases hd with (hd | hd) | hd
            · exact Or.inl hd
            · right; omega
            · right
              split at hd
              · simp at hd; omega
              · simp at hd
        · simp at h
    · simp at h
  · simp only [hgap, if_false] at h
    simp only [Option.some.injEq] at h; subst h
    have hc : cur = prev + 1 := by omega
    subst hc
    constructor
    · simp [rangeIncl]
    · intro d hd; exact Or.inl hd

/-- the tokens appended by one window are exactly `prev+1 ..= cur` -/
theorem cdcWindow_newToks {kinds : Array Kind} {acc a : CdcAcc} {prev cur : Nat} (hlt : prev < cur)
    (h : cdcWindow kinds acc prev cur = some a) :
    a.newToks = acc.newToks ++ rangeIncl (prev + 1) cur := by
  unfold cdcWindow at h
  split at h
  · simp at h
  · rename_i g hg
    split at h
    · simp at h; subst h
      obtain ⟨h1, _⟩ := cdcGap_spec hlt hg
      simp only [h1, List.append_assoc]
      congr 1
      have := rangeIncl_append (prev + 1) (cur - 1) cur (by omega) (by omega)
      have c : cur - 1 + 1 = cur := by omega
      rw [c, rangeIncl_self] at this
      exact this
    · simp at h

/-- the directives pushed by one window all lie in `prev+1 ..= cur-1` -/
theorem cdcWindow_directives {kinds : Array Kind} {acc a : CdcAcc} {prev cur : Nat} (hlt : prev < cur)
    (h : cdcWindow kinds acc prev cur = some a) :
    ∀ d ∈ a.directives, d ∈ acc.directives ∨ (prev < d ∧ d < cur) := by
  unfold cdcWindow at h
  split at h
  · simp at h
  · rename_i g hg
    split at h
    · simp at h; subst h
      exact (cdcGap_spec hlt hg).2
    · simp at h

theorem cdcWindows_spec {kinds : Array Kind} :
    ∀ (rest : List Nat) (acc a : CdcAcc) (prev : Nat),
      (prev :: rest).Pairwise (· < ·) →
      cdcWindows kinds acc prev rest = some a →
      a.newToks = acc.newToks ++ rangeIncl (prev + 1) ((prev :: rest).getLast (by simp)) ∧
      (∀ d ∈ a.directives, d ∈ acc.directives ∨ (prev < d ∧ d < (prev :: rest).getLast (by simp)))
  | [], acc, a, prev, _, h => by
    simp [cdcWindows] at h; subst h
    refine ⟨by simp [rangeIncl], fun d hd => Or.inl hd⟩
  | cur :: rest, acc, a, prev, hp, h => by
    simp only [cdcWindows] at h
    split at h
    · simp at h
    · rename_i a1 h1
      have hlt : prev < cur := by
        have := List.rel_of_pairwise_cons hp (List.mem_cons_self)
        exact this
      have hp' : (cur :: rest).Pairwise (· < ·) := List.Pairwise.of_cons hp
      obtain ⟨ih1, ih2⟩ := cdcWindows_spec rest a1 a cur hp' h
      have hlast : (prev :: cur :: rest).getLast (by simp) = (cur :: rest).getLast (by simp) := by
        simp [List.getLast_cons]
      have hle : cur ≤ (cur :: rest).getLast (by simp) := by
        rcases List.getLast_mem (l := cur :: rest) (by simp) with hm
        rcases List.mem_cons.1 hm with e | e
        · omega
        · exact Nat.le_of_lt (List.rel_of_pairwise_cons hp' e)
      constructor
      · rw [ih1, cdcWindow_newToks hlt h1, hlast, List.append_assoc,
          rangeIncl_append (prev + 1) cur _ (by omega) hle]
      · intro d hd
        rw [hlast]
        rcases ih2 d hd with h3 | h3
        · rcases cdcWindow_directives hlt h1 d h3 with h4 | h4
          · exact Or.inl h4
          · right; omega
        · right; omega

/-- an expanded line is the full range from its first to its last old token; the merged directives lie strictly inside -/
theorem cdcExpand_range {kinds : Array Kind} {toks new dirs : List Nat} (hs : toks.Pairwise (· < ·))
    (h : cdcExpand kinds toks = some (new, dirs)) :
    ∃ first last, toks.head? = some first ∧ toks.getLast? = some last ∧ new = rangeIncl first last ∧
      (∀ d ∈ dirs, first < d ∧ d < last) ∧ dirs ≠ [] := by
  unfold cdcExpand at h
  match toks, hs, h with
  | [], _, h => simp at h
  | first :: rest, hs, h =>
    simp only at h
    split at h
    · simp at h
    · split at h
      · simp at h
      · rename_i a ha
        split at h
        · simp at h
        · rename_i hc
          simp at h
          obtain ⟨h1, h2⟩ := h
          obtain ⟨s1, s2⟩ := cdcWindows_spec rest _ a first hs ha
          refine ⟨first, (first :: rest).getLast (by simp), rfl, ?_, ?_, ?_, ?_⟩
          · simp [List.getLast?_eq_some_getLast]
          · rw [← h1, s1]
            have := rangeIncl_append first first ((first :: rest).getLast (by simp)) (by omega) ?_
            · simpa [rangeIncl_self] using this
            · rcases List.getLast_mem (l := first :: rest) (by simp) with hm
              rcases List.mem_cons.1 hm with e | e
              · omega
              · exact Nat.le_of_lt (List.rel_of_pairwise_cons hs e)
          · intro d hd
            rw [← h2] at hd
            rcases s2 d hd with h3 | h3
            · simp at h3
            · exact h3
          · rw [← h2]
            intro he
            simp [he] at hc

/-! ### the whole consolidator -/

/-- lines are related when the consolidator's three possible effects are the only differences -/
inductive CdcRel (dirs : List Nat) : Line → Line → Prop where
  | same (l : Line) : CdcRel dirs l l
  | expanded (l : Line) (first last : Nat) (hf : l.tokens.head? = some first) (hl : l.tokens.getLast? = some last)
      (hnot : l.ltype ≠ .lConditionalDirective ∨ l.tokens.length ≠ 1) :
      CdcRel dirs l { l with tokens := rangeIncl first last }
  | voided (l : Line) (t : Nat) (ht : l.tokens.head? = some t) (hd : t ∈ dirs) (hty : l.ltype = .lConditionalDirective) :
      CdcRel dirs l l.void

theorem cdcConsolidate_length (kinds : List Kind) (lines : List Line) :
    (cdcConsolidate kinds lines).length = lines.length := by
  simp [cdcConsolidate]

/-- every merged directive lies strictly inside an expanded, non-voided line -/
def DirsCovered (dirs : List Nat) (out : List Line) : Prop :=
  ∀ d ∈ dirs, ∃ l ∈ out, l.ltype ≠ .lVoided ∧ d ∈ l.tokens

end Pasfmt

namespace Pasfmt

/-- first phase on one line -/
def cdcLine1 (ka : Array Kind) (l : Line) : Line × List Nat :=
  match cdcExpand ka l.tokens with
  | some (toks, dirs) => ({ l with tokens := toks }, dirs)
  | none => (l, [])

/-- second phase on one line -/
def cdcLine2 (dirs : List Nat) (l : Line) : Line :=
  if l.ltype == .lConditionalDirective then
    match l.tokens.head? with
    | some t => if dirs.contains t then l.void else l
    | none => l
  else l

theorem cdcConsolidate_eq (kinds : List Kind) (lines : List Line) :
    cdcConsolidate kinds lines =
      (lines.map (cdcLine1 kinds.toArray)).map
        (fun p => cdcLine2 ((lines.map (cdcLine1 kinds.toArray)).flatMap (·.2)) p.1) := by
  rfl

theorem cdcExpand_singleton (ka : Array Kind) (t : Nat) : cdcExpand ka [t] = none := by
  simp [cdcExpand]

theorem cdcLine1_ltype (ka : Array Kind) (l : Line) : (cdcLine1 ka l).1.ltype = l.ltype := by
  unfold cdcLine1; split <;> rfl

theorem cdcLine1_parent_level (ka : Array Kind) (l : Line) :
    (cdcLine1 ka l).1.parent = l.parent ∧ (cdcLine1 ka l).1.level = l.level := by
  unfold cdcLine1; split <;> exact ⟨rfl, rfl⟩

/-- what the first phase does to a sorted line -/
theorem cdcLine1_spec (ka : Array Kind) (l : Line) (hs : l.tokens.Pairwise (· < ·)) :
    ((cdcLine1 ka l).1 = l ∧ (cdcLine1 ka l).2 = []) ∨
    (∃ first last, l.tokens.head? = some first ∧ l.tokens.getLast? = some last ∧
      (cdcLine1 ka l).1 = { l with tokens := rangeIncl first last } ∧
      (∀ d ∈ (cdcLine1 ka l).2, first < d ∧ d < last) ∧ (cdcLine1 ka l).2 ≠ []) := by
  unfold cdcLine1
  split
  · rename_i toks dirs h
    right
    obtain ⟨first, last, h1, h2, h3, h4, h5⟩ := cdcExpand_range hs h
    exact ⟨first, last, h1, h2, by simp [h3], h4, h5⟩
  · left; exact ⟨rfl, rfl⟩

theorem head_le_getLast {l : List Nat} {a b : Nat} (hs : l.Pairwise (· < ·)) (h1 : l.head? = some a)
    (h2 : l.getLast? = some b) : a ≤ b ∧ ∀ t ∈ l, a ≤ t ∧ t ≤ b := by
  match l, hs, h1, h2 with
  | x :: rest, hs, h1, h2 =>
    simp at h1; subst h1
    have hb : b ∈ x :: rest := List.mem_of_getLast? h2
    have hall : ∀ t ∈ x :: rest, x ≤ t := by
      intro t ht
      rcases List.mem_cons.1 ht with e | e
      · omega
      · exact Nat.le_of_lt (List.rel_of_pairwise_cons hs e)
    have hlast : ∀ t ∈ x :: rest, t ≤ b := by
      intro t ht
      -- b is the last element of a strictly increasing list
      obtain ⟨pre, hpre⟩ : ∃ pre, x :: rest = pre ++ [b] := by
        have := List.getLast?_eq_some_iff.1 h2
        exact this
      rw [hpre] at ht hs
      rcases List.mem_append.1 ht with e | e
      · have := List.pairwise_append.1 hs
        exact Nat.le_of_lt (this.2.2 t e b (by simp))
      · simp at e; omega
    exact ⟨hall b hb, fun t ht => ⟨hall t ht, hlast t ht⟩⟩

/-- Well-formedness is kept by the conditional-directive consolidator: same number of lines (so parent
    references stay valid), parents/levels untouched, every line still strictly increasing and within the same
    bounds, and every token that was in some line is still in some line.  Hypotheses: lines are strictly
    increasing (C14, `machine_lines_wellformed`) and conditional-directive lines hold exactly their directive
    (`directive_lines_spec`). -/
theorem cdcConsolidate_wellformed (kinds : List Kind) (lines : List Line)
    (hs : ∀ l ∈ lines, l.tokens.Pairwise (· < ·))
    (hc : ∀ l ∈ lines, l.ltype = .lConditionalDirective → ∃ t, l.tokens = [t]) :
    let out := cdcConsolidate kinds lines
    out.length = lines.length ∧
    (∀ i (h1 : i < out.length) (h2 : i < lines.length), out[i].parent = lines[i].parent ∧ out[i].level = lines[i].level ∧
        (out[i].ltype = lines[i].ltype ∨ out[i].ltype = .lVoided)) ∧
    (∀ l ∈ out, l.tokens.Pairwise (· < ·)) ∧
    (∀ n, (∀ l ∈ lines, ∀ t ∈ l.tokens, t < n) → ∀ l ∈ out, ∀ t ∈ l.tokens, t < n) ∧
    (∀ t, (∃ l ∈ lines, t ∈ l.tokens) → ∃ l ∈ out, t ∈ l.tokens) := by
  intro out
  have hout : out = (lines.map (cdcLine1 kinds.toArray)).map
        (fun p => cdcLine2 ((lines.map (cdcLine1 kinds.toArray)).flatMap (·.2)) p.1) := cdcConsolidate_eq kinds lines
  generalize hD : (lines.map (cdcLine1 kinds.toArray)).flatMap (·.2) = D at hout
  have hlen : out.length = lines.length := by simp [hout]
  -- per-line facts
  have line2 : ∀ (l : Line), (cdcLine2 D l = l) ∨ (cdcLine2 D l = l.void ∧ l.ltype = .lConditionalDirective ∧ ∃ t, l.tokens.head? = some t ∧ t ∈ D) := by
    intro l
    unfold cdcLine2
    split
    · rename_i hty
      split
      · rename_i t ht
        split
        · rename_i hd
          right
          exact ⟨rfl, by simpa using hty, t, ht, by simpa using hd⟩
        · left; rfl
      · left; rfl
    · left; rfl
  have hget : ∀ i (h2 : i < lines.length), out[i]'(by omega) = cdcLine2 D (cdcLine1 kinds.toArray lines[i]).1 := by
    intro i h2
    simp [hout]
  refine ⟨hlen, ?_, ?_, ?_, ?_⟩
  · intro i h1 h2
    rw [hget i h2]
    obtain ⟨p1, p2⟩ := cdcLine1_parent_level kinds.toArray lines[i]
    have p3 := cdcLine1_ltype kinds.toArray lines[i]
    rcases line2 (cdcLine1 kinds.toArray lines[i]).1 with e | ⟨e, _, _⟩
    · rw [e]; exact ⟨p1, p2, Or.inl p3⟩
    · rw [e]; exact ⟨p1, p2, Or.inr rfl⟩
  · intro l hl
    obtain ⟨i, hi, rfl⟩ := List.getElem_of_mem hl
    have h2 : i < lines.length := by omega
    rw [hget i h2]
    have hsi := hs lines[i] (List.getElem_mem h2)
    rcases line2 (cdcLine1 kinds.toArray lines[i]).1 with e | ⟨e, _, _⟩
    · rw [e]
      rcases cdcLine1_spec kinds.toArray lines[i] hsi with ⟨e1, _⟩ | ⟨f, la, _, _, e1, _, _⟩
      · rw [e1]; exact hsi
      · rw [e1]; exact rangeIncl_pairwise f la
    · rw [e]; simp [Line.void]
  · intro n hn l hl t ht
    obtain ⟨i, hi, rfl⟩ := List.getElem_of_mem hl
    have h2 : i < lines.length := by omega
    rw [hget i h2] at ht
    have hsi := hs lines[i] (List.getElem_mem h2)
    rcases line2 (cdcLine1 kinds.toArray lines[i]).1 with e | ⟨e, _, _⟩
    · rw [e] at ht
      rcases cdcLine1_spec kinds.toArray lines[i] hsi with ⟨e1, _⟩ | ⟨f, la, hf, hla, e1, _, _⟩
      · rw [e1] at ht; exact hn _ (List.getElem_mem h2) t ht
      · rw [e1] at ht
        have := (mem_rangeIncl.1 ht).2
        have hla' : la ∈ lines[i].tokens := List.mem_of_getLast? hla
        have := hn _ (List.getElem_mem h2) la hla'
        omega
    · rw [e] at ht; simp [Line.void] at ht
  · intro t ⟨l, hl, ht⟩
    obtain ⟨i, h2, rfl⟩ := List.getElem_of_mem hl
    have hsi := hs lines[i] (List.getElem_mem h2)
    -- the line after phase 1 still contains t
    have ht1 : t ∈ (cdcLine1 kinds.toArray lines[i]).1.tokens := by
      rcases cdcLine1_spec kinds.toArray lines[i] hsi with ⟨e1, _⟩ | ⟨f, la, hf, hla, e1, _, _⟩
      · rw [e1]; exact ht
      · rw [e1]
        exact mem_rangeIncl.2 ((head_le_getLast hsi hf hla).2 t ht)
    rcases line2 (cdcLine1 kinds.toArray lines[i]).1 with e | ⟨e, hty, t0, ht0, hD0⟩
    · exact ⟨out[i]'(by omega), List.getElem_mem _, by rw [hget i h2, e]; exact ht1⟩
    · -- the line is a directive line that gets voided: its directive was merged into another line
      rw [cdcLine1_ltype] at hty
      obtain ⟨tt, htt⟩ := hc _ (List.getElem_mem h2) hty
      have e1 : cdcLine1 kinds.toArray lines[i] = (lines[i], []) := by
        unfold cdcLine1; rw [htt, cdcExpand_singleton]
      rw [e1] at ht0
      simp [htt] at ht0 ht
      subst ht0; subst ht
      -- t ∈ D: find the line j whose expansion merged it
      rw [← hD] at hD0
      obtain ⟨p, hp, htp⟩ := List.mem_flatMap.1 hD0
      obtain ⟨lj, hlj, rfl⟩ := List.mem_map.1 hp
      obtain ⟨j, hj, rfl⟩ := List.getElem_of_mem hlj
      have hsj := hs lines[j] (List.getElem_mem hj)
      rcases cdcLine1_spec kinds.toArray lines[j] hsj with ⟨_, e2⟩ | ⟨f, la, hf, hla, e1j, hdj, _⟩
      · rw [e2] at htp; simp at htp
      · have hin := hdj _ htp
        refine ⟨out[j]'(by omega), List.getElem_mem _, ?_⟩
        rw [hget j hj]
        rcases line2 (cdcLine1 kinds.toArray lines[j]).1 with e | ⟨_, htyj, _, _, _⟩
        · rw [e, e1j]; exact mem_rangeIncl.2 ⟨by omega, by omega⟩
        · -- an expanded line is not a singleton, so it is not a directive line
          rw [cdcLine1_ltype] at htyj
          obtain ⟨t2, ht2⟩ := hc _ (List.getElem_mem hj) htyj
          rw [ht2] at hf hla
          simp at hf hla
          omega

/-- the package-directive rule changes levels only -/
theorem deindentPackage_frame (kinds : List Kind) (lines : List Line) :
    (deindentPackage kinds lines).length = lines.length ∧
    ∀ i (h1 : i < (deindentPackage kinds lines).length) (h2 : i < lines.length),
      (deindentPackage kinds lines)[i].tokens = lines[i].tokens ∧
      (deindentPackage kinds lines)[i].parent = lines[i].parent ∧
      (deindentPackage kinds lines)[i].ltype = lines[i].ltype := by
  unfold deindentPackage
  split
  · refine ⟨by simp, ?_⟩
    intro i h1 h2
    simp only [List.getElem_map]
    split <;> exact ⟨rfl, rfl, rfl⟩
  · exact ⟨rfl, fun i h1 h2 => ⟨rfl, rfl, rfl⟩⟩

end Pasfmt
