import PasfmtModel.Model.Parser

namespace Pasfmt

abbrev TL := List (List Nat)

def toksOf (lines : List PLine) : TL := lines.map (·.tokens)

/-- append `tok` to the `i`-th token list (nothing if `i` is out of range) -/
def pushTok (tl : TL) (i : Nat) (tok : Nat) : TL :=
  match tl[i]? with
  | some l => tl.set i (l ++ [tok])
  | none => tl

/-- `t` is one of the first `p` tokens of the pass -/
def Below (pass : List Nat) (p : Nat) (t : Nat) : Prop := ∃ j, j < p ∧ pass[j]? = some t

structure TInv (pass : List Nat) (p : Nat) (tl : TL) : Prop where
  sorted : ∀ l ∈ tl, l.Pairwise (· < ·)
  below : ∀ t ∈ tl.flatten, Below pass p t
  nodup : tl.flatten.Nodup

theorem Below.mono {pass : List Nat} {p q t : Nat} (h : Below pass p t) (hpq : p ≤ q) : Below pass q t := by
  obtain ⟨j, hj, hp⟩ := h; exact ⟨j, by omega, hp⟩

theorem TInv.mono {pass : List Nat} {p q : Nat} {tl : TL} (h : TInv pass p tl) (hpq : p ≤ q) : TInv pass q tl :=
  ⟨h.sorted, fun t ht => (h.below t ht).mono hpq, h.nodup⟩

theorem TInv.append_empty {pass : List Nat} {p : Nat} {tl : TL} (h : TInv pass p tl) : TInv pass p (tl ++ [[]]) := by
  refine ⟨?_, ?_, ?_⟩
  · intro l hl
    rcases List.mem_append.1 hl with h1 | h1
    · exact h.sorted l h1
    · simp at h1; subst h1; exact List.Pairwise.nil
  · simpa using h.below
  · simpa using h.nodup

/-- a strictly increasing pass: an earlier token is smaller than a later one -/
theorem below_lt {pass : List Nat} (hs : pass.Pairwise (· < ·)) {p t tok : Nat}
    (ht : Below pass p t) (hp : pass[p]? = some tok) : t < tok := by
  obtain ⟨j, hj, hjt⟩ := ht
  have hjl : j < pass.length := by
    rcases Nat.lt_or_ge j pass.length with h | h
    · exact h
    · rw [List.getElem?_eq_none h] at hjt; simp at hjt
  have hpl : p < pass.length := by
    rcases Nat.lt_or_ge p pass.length with h | h
    · exact h
    · rw [List.getElem?_eq_none h] at hp; simp at hp
  rw [List.getElem?_eq_getElem hjl] at hjt
  rw [List.getElem?_eq_getElem hpl] at hp
  simp at hjt hp
  rw [← hjt, ← hp]
  exact List.pairwise_iff_getElem.1 hs j p hjl hpl hj

theorem mem_flatten_pushTok {tl : TL} {i tok x : Nat} (h : x ∈ (pushTok tl i tok).flatten) :
    x ∈ tl.flatten ∨ x = tok := by
  unfold pushTok at h
  split at h
  · rename_i l hl
    rw [List.mem_flatten] at h
    obtain ⟨m, hm, hx⟩ := h
    rcases List.mem_or_eq_of_mem_set hm with h1 | h1
    · left; exact List.mem_flatten.2 ⟨m, h1, hx⟩
    · subst h1
      rcases List.mem_append.1 hx with h2 | h2
      · left; exact List.mem_flatten.2 ⟨l, List.mem_of_getElem? hl, h2⟩
      · right; simpa using h2
  · left; exact h

theorem flatten_set_perm (tl : TL) (i : Nat) (l : List Nat) (tok : Nat) (hl : tl[i]? = some l) :
    (tl.set i (l ++ [tok])).flatten.Perm (tok :: tl.flatten) := by
  induction tl generalizing i with
  | nil => simp at hl
  | cons a r ih =>
    cases i with
    | zero =>
      simp at hl; subst hl
      simp only [List.set_cons_zero, List.flatten_cons]
      -- (a ++ [tok]) ++ r.flatten ~ tok :: (a ++ r.flatten)
      rw [List.append_assoc]
      exact (List.perm_middle).trans (List.Perm.refl _)
    | succ k =>
      simp at hl
      simp only [List.set_cons_succ, List.flatten_cons]
      have := ih k hl
      exact (List.Perm.append_left a this).trans List.perm_middle

theorem TInv.push {pass : List Nat} (hs : pass.Pairwise (· < ·)) {p : Nat} {tl : TL} (h : TInv pass p tl)
    (i tok : Nat) (hp : pass[p]? = some tok) : TInv pass (p + 1) (pushTok tl i tok) := by
  have hnew : ∀ t ∈ tl.flatten, t < tok := fun t ht => below_lt hs (h.below t ht) hp
  unfold pushTok
  split
  · rename_i l hl
    have hlmem : l ∈ tl := List.mem_of_getElem? hl
    refine ⟨?_, ?_, ?_⟩
    · intro m hm
      rcases List.mem_or_eq_of_mem_set hm with h1 | h1
      · exact h.sorted m h1
      · subst h1
        rw [List.pairwise_append]
        refine ⟨h.sorted l hlmem, List.pairwise_singleton _ _, ?_⟩
        intro a ha b hb
        simp at hb; subst hb
        exact hnew a (List.mem_flatten.2 ⟨l, hlmem, ha⟩)
    · intro t ht
      have hperm := flatten_set_perm tl i l tok hl
      have : t ∈ tok :: tl.flatten := hperm.mem_iff.1 ht
      rcases List.mem_cons.1 this with h1 | h1
      · subst h1; exact ⟨p, by omega, hp⟩
      · exact (h.below t h1).mono (by omega)
    · have hperm := flatten_set_perm tl i l tok hl
      rw [hperm.nodup_iff, List.nodup_cons]
      refine ⟨?_, h.nodup⟩
      intro hmem
      exact absurd (hnew tok hmem) (Nat.lt_irrefl _)
  · exact h.mono (by omega)

/-! ### the machine keeps the invariant -/

theorem set_self_of_getElem? {α : Type} (l : List α) (i : Nat) (x : α) (h : l[i]? = some x) : l.set i x = l := by
  induction l generalizing i with
  | nil => rfl
  | cons a r ih =>
    cases i with
    | zero => simp at h; subst h; rfl
    | succ k => simp at h; simp [ih k h]

theorem toksOf_modifyLine_same (lines : List PLine) (i : Nat) (f : PLine → PLine)
    (hf : ∀ l, (f l).tokens = l.tokens) : toksOf (modifyLine lines i f) = toksOf lines := by
  unfold modifyLine toksOf
  split
  · rename_i l hl
    rw [List.map_set, hf]
    apply set_self_of_getElem?
    rw [List.getElem?_map, hl]; rfl
  · rfl

theorem toksOf_modifyLine_push (lines : List PLine) (i tok : Nat) :
    toksOf (modifyLine lines i (fun l => { l with tokens := l.tokens ++ [tok] })) = pushTok (toksOf lines) i tok := by
  unfold modifyLine toksOf pushTok
  rw [List.getElem?_map]
  cases h : lines[i]? with
  | none => simp
  | some l => simp [List.map_set]

theorem toksOf_append (lines : List PLine) (l : PLine) : toksOf (lines ++ [l]) = toksOf lines ++ [l.tokens] := by
  simp [toksOf]

theorem toksOf_set_same (lines : List PLine) (i : Nat) (l l' : PLine) (hl : lines[i]? = some l)
    (ht : l'.tokens = l.tokens) : toksOf (lines.set i l') = toksOf lines := by
  unfold toksOf
  rw [List.map_set, ht]
  apply set_self_of_getElem?
  rw [List.getElem?_map, hl]; rfl

theorem toksOf_modify_level (lines : List PLine) (i level : Nat) :
    toksOf (modifyLine lines i (fun l => { l with level := level })) = toksOf lines :=
  toksOf_modifyLine_same lines i (fun l => { l with level := level }) (fun _ => rfl)

theorem toksOf_modify_parent_level (lines : List PLine) (i level : Nat) (parent : Option LineParent) :
    toksOf (modifyLine lines i (fun l => { l with parent := parent, level := level })) = toksOf lines :=
  toksOf_modifyLine_same lines i (fun l => { l with parent := parent, level := level }) (fun _ => rfl)

theorem toksOf_modify_type (lines : List PLine) (i : Nat) (t : LogicalLineType) :
    toksOf (modifyLine lines i (fun l => { l with ltype := t })) = toksOf lines :=
  toksOf_modifyLine_same lines i (fun l => { l with ltype := t }) (fun _ => rfl)

/-- invariant of the machine state -/
def MInv (pass : List Nat) (s : MState) : Prop := TInv pass s.passIdx (toksOf s.lines)

theorem absorbInline_inv (kinds : List RawKind) (pass : List Nat) (hs : pass.Pairwise (· < ·)) (fuel : Nat)
    (lines : List PLine) (ln p : Nat) (h : TInv pass p (toksOf lines)) :
    TInv pass (absorbInline kinds pass fuel lines ln p).2 (toksOf (absorbInline kinds pass fuel lines ln p).1) := by
  induction fuel generalizing lines p with
  | zero => exact h
  | succ n ih =>
    unfold absorbInline
    split
    · rename_i tok htok
      split
      · apply ih
        rw [toksOf_modifyLine_push]
        exact h.push hs ln tok htok
      · exact h
    · exact h

theorem absorbInline_mono (kinds : List RawKind) (pass : List Nat) (fuel : Nat) (lines : List PLine) (ln p : Nat) :
    p ≤ (absorbInline kinds pass fuel lines ln p).2 := by
  induction fuel generalizing lines p with
  | zero => exact Nat.le_refl _
  | succ n ih =>
    unfold absorbInline
    split
    · split
      · exact Nat.le_trans (Nat.le_succ p) (ih _ _)
      · exact Nat.le_refl _
    · exact Nat.le_refl _

theorem foldl_modify_level_same (lines : List PLine) (us : List Nat) (level : Nat) :
    toksOf (us.foldl (fun ls u => modifyLine ls u (fun l => { l with level := level })) lines) = toksOf lines := by
  induction us generalizing lines with
  | nil => rfl
  | cons u r ih => rw [List.foldl_cons, ih, toksOf_modify_level]

/-- every primitive keeps the invariant, whatever the control flow does -/
theorem step_inv (kinds : List RawKind) (pass : List Nat) (hs : pass.Pairwise (· < ·)) (s s' : MState) (op : POp)
    (h : MInv pass s) (hstep : s.step kinds pass op = some s') : MInv pass s' := by
  unfold MState.step at hstep
  unfold MInv at *
  split at hstep
  · simp at hstep
  · rename_i top curRest _
    cases op with
    | next =>
      simp only at hstep
      simp only [Option.some.injEq] at hstep
      rw [← hstep]
      simp only
      cases htok : pass[s.passIdx]? with
      | none =>
        simp only
        exact absorbInline_inv kinds pass hs _ _ _ _ (h.mono (Nat.le_succ _))
      | some tok =>
        simp only
        apply absorbInline_inv kinds pass hs
        rw [toksOf_modifyLine_push]
        exact h.push hs top tok htok
    | skip =>
      simp only [Option.some.injEq] at hstep
      rw [← hstep]; exact h.mono (Nat.le_succ _)
    | finishEmpty =>
      simp only at hstep
      split at hstep
      · rename_i l hl
        split at hstep
        · simp only [Option.some.injEq] at hstep
          rw [← hstep]
          simp only
          rw [toksOf_set_same s.lines top l { l with ltype := .lUnknown } hl rfl]; exact h
        · simp at hstep
      · simp at hstep
    | finish parent level =>
      simp only at hstep
      split at hstep
      · simp at hstep
      · rename_i l hl
        split at hstep
        · simp at hstep
        · simp only [Option.some.injEq] at hstep
          rw [← hstep]
          simp only
          have h1 := absorbInline_inv kinds pass hs (pass.length + 1) s.lines top s.passIdx h
          rw [toksOf_append]
          apply TInv.append_empty
          rw [toksOf_modify_parent_level]
          split
          · rw [foldl_modify_level_same]; exact h1
          · exact h1
    | markUnfinished =>
      simp only [Option.some.injEq] at hstep
      rw [← hstep]; exact h
    | pushLine parent =>
      simp only [Option.some.injEq] at hstep
      rw [← hstep]
      simp only
      rw [toksOf_append]
      exact h.append_empty
    | popLine =>
      simp only at hstep
      split at hstep
      · simp at hstep
      · simp only [Option.some.injEq] at hstep
        rw [← hstep]; exact h
    | pushLast =>
      simp only [Option.some.injEq] at hstep
      rw [← hstep]; exact h
    | popLast =>
      simp only at hstep
      split at hstep
      · simp at hstep
      · simp only [Option.some.injEq] at hstep
        rw [← hstep]; exact h
    | setType t =>
      simp only [Option.some.injEq] at hstep
      rw [← hstep]
      simp only
      rw [toksOf_modify_type]; exact h

theorem init_inv (pass : List Nat) : MInv pass MState.init := by
  unfold MInv MState.init toksOf
  exact ⟨by intro l hl; simp at hl; subst hl; exact List.Pairwise.nil, by simp, by simp⟩

/-- every reachable state of the primitive machine satisfies the invariant -/
theorem run_inv (kinds : List RawKind) (pass : List Nat) (hs : pass.Pairwise (· < ·)) (ops : List POp)
    (s s' : MState) (h : MInv pass s) (hrun : s.run kinds pass ops = some s') : MInv pass s' := by
  induction ops generalizing s with
  | nil => simp [MState.run] at hrun; rw [← hrun]; exact h
  | cons op r ih =>
    unfold MState.run at hrun
    split at hrun
    · simp at hrun
    · rename_i s1 hs1
      exact ih s1 (step_inv kinds pass hs s s1 op h hs1) hrun

end Pasfmt
