/-
  Locality of the scanner, part 6: `lexOne` and the whole scan.

  `lexOne_local`: the token found at the head of `p ++ s` — its leading blanks, its end, its kind and
  the scanner state after it — is the same at the head of `p ++ s'` for every `s'`, provided it ends
  at least three bytes before the end of `p` (three bytes = one character of lookahead: U+3000) and
  the blank tail of `p ++ s` lies inside `s`.
-/
import PasfmtModel.Proofs.LexLocal5

namespace Pasfmt

theorem countLeadingWs_cons3 (a b c : UInt8) (t : Bytes) :
    countLeadingWs (a :: b :: c :: t) =
      if a = 0xE3 ∧ b = 0x80 ∧ c = 0x80 then countLeadingWs t + 3
      else if a ≤ 0x20 then countLeadingWs (b :: c :: t) + 1 else 0 := by
  by_cases h : a = 0xE3 ∧ b = 0x80 ∧ c = 0x80
  · obtain ⟨rfl, rfl, rfl⟩ := h
    simp [countLeadingWs]
  · simp only [h, if_false]
    rw [countLeadingWs]
    intro t' h1 h2
    simp only [List.cons.injEq] at h2
    exact h ⟨h1, h2.1, h2.2.1⟩

theorem countLeadingWs_pd : ∀ (x s s' : Bytes), countLeadingWs (x ++ s) + 3 ≤ x.length →
    countLeadingWs (x ++ s') = countLeadingWs (x ++ s)
  | [], _, _, h => by simp at h
  | [_], _, _, h => by simp at h
  | [_, _], _, _, h => by simp at h
  | a :: b :: c :: x, s, s', h => by
    simp only [List.cons_append] at h ⊢
    rw [countLeadingWs_cons3] at h ⊢
    rw [countLeadingWs_cons3]
    by_cases h1 : a = 0xE3 ∧ b = 0x80 ∧ c = 0x80
    · simp only [h1, and_self, if_true] at h ⊢
      rw [countLeadingWs_pd x s s' (by simp only [List.length_cons] at h; omega)]
    · simp only [h1, if_false] at h ⊢
      by_cases h2 : a ≤ 0x20
      · simp only [h2, if_true] at h ⊢
        have := countLeadingWs_pd (b :: c :: x) s s' (by simp only [List.cons_append, List.length_cons] at h ⊢; omega)
        simp only [List.cons_append] at this
        rw [this]
      · simp [h2]

theorem lexOne_local (st : LexState) (p s s' : Bytes) (ws e : Nat) (k : RawKind) (st' : LexState)
    (ht : countTrailingWs (p ++ s) ≤ s.length)
    (h : lexOne false st (p ++ s) = some (some (ws, e, k, st'))) (he : e + 3 ≤ p.length) :
    lexOne false st (p ++ s') = some (some (ws, e, k, st')) := by
  have hok := (lexOne_ok false st (p ++ s)).2 ws e k st' h
  unfold lexOne at h ⊢
  simp only at h ⊢
  split at h
  · simp at h
  · rename_i b r hdrop
    split at h
    · simp at h
    · rename_i o ho
      simp only [Option.some.injEq, Prod.mk.injEq] at h
      obtain ⟨hws, hee, hk, hst⟩ := h
      have hw4 : countLeadingWs (p ++ s) + 4 ≤ p.length := by omega
      have hcl := countLeadingWs_pd p s s' (by omega)
      rw [hcl]
      generalize hW : countLeadingWs (p ++ s) = W at *
      have hd : ∀ t : Bytes, (p ++ t).drop W = p.drop W ++ t := fun t => List.drop_append_of_le_length (by omega)
      have htk : ∀ t : Bytes, (p ++ t).take W = p.take W := fun t => List.take_append_of_le_length (by omega)
      rw [hd s] at hdrop
      rw [htk s] at ho
      rw [hd s', htk s']
      obtain ⟨a1, a2, a3, y3, hp⟩ : ∃ a1 a2 a3 y3, p.drop W = b :: a1 :: a2 :: a3 :: y3 := by
        have hl : (p.drop W).length ≥ 4 := by simp only [List.length_drop]; omega
        match hq : p.drop W, hl with
        | c :: a1 :: a2 :: a3 :: y3, _ =>
          rw [hq] at hdrop
          simp only [List.cons_append, List.cons.injEq] at hdrop
          exact ⟨a1, a2, a3, y3, by rw [hdrop.1]⟩
      rw [hp] at hdrop ⊢
      simp only [List.cons_append, List.cons.injEq, true_and] at hdrop
      subst hdrop
      simp only [List.cons_append]
      have hy3 : y3.length + 4 + W = p.length := by
        have hl := congrArg List.length hp
        simp only [List.length_drop, List.length_cons] at hl
        omega
      have key := runSub_pd st _ b a1 a2 a3 y3 s s' _ (fun _ => countTrailingWs (p ++ s)) (fun _ => countTrailingWs (p ++ s')) o ht ho
        (by omega)
      rw [key]
      simp only [Option.some.injEq, Prod.mk.injEq]
      exact ⟨hws, hee, hk, hst⟩

end Pasfmt
