/-
  C07 at the level of the whole pipeline: tokens that the ignorers mark reach the reconstructor with
  their scanned whitespace and text intact (no rule can touch them; the wrapper stage keeps them by
  contract), and the reconstructor emits a marked run verbatim.
-/
import PasfmtModel.Proofs.PipelineC01
import PasfmtModel.Proofs.ReconProps

namespace Pasfmt

/-- a formatted token relative to the scanned token and its mark -/
def Froz (p : RawTok × Bool) (t : FTok) : Prop :=
  t.fmt.ignored = p.2 ∧ (p.2 = true → t.tok.ws = p.1.ws ∧ t.tok.content = p.1.content)

/-- the scanned tokens paired with their marks -/
def marked (raw : List RawTok) (marks : List Bool) (k : Nat) : List (RawTok × Bool) :=
  (raw.zipIdx k).map fun (r, i) => (r, marks.getD i false)

theorem froz_new (raw : List RawTok) (kinds : List Kind) (marks : List Bool) (k : Nat) :
    All2 Froz (marked raw marks k)
      (((retype raw kinds).zipIdx k).map fun (t, i) => ({ tok := t, fmt := FmtData.ofWs t.ws (marks.getD i false) } : FTok)) := by
  induction raw generalizing kinds k with
  | nil => simp [marked, retype]; exact .nil
  | cons r rs ih =>
    cases kinds with
    | nil =>
      rw [retype]
      simp only [marked, List.zipIdx_cons, List.map_cons]
      refine .cons ⟨rfl, fun _ => ⟨rfl, rfl⟩⟩ ?_
      exact ih [] (k + 1)
    | cons kd ks =>
      rw [retype]
      simp only [marked, List.zipIdx_cons, List.map_cons]
      refine .cons ⟨rfl, fun _ => ⟨rfl, rfl⟩⟩ ?_
      exact ih ks (k + 1)

theorem froz_setContent (p : RawTok × Bool) (t : FTok) (c : Bytes) (h : Froz p t) : Froz p (t.setContent c) := by
  unfold FTok.setContent
  split
  · exact h
  · rename_i hig
    refine ⟨h.1, ?_⟩
    intro hp
    rw [h.1, hp] at hig
    exact absurd rfl hig

theorem froz_tokenSpacing {ps : List (RawTok × Bool)} {ft : FT} (h : All2 Froz ps ft) : All2 Froz ps (tokenSpacing ft) := by
  unfold tokenSpacing
  exact All2.zipIdx_map_right _ 0 h (fun p t i h => h)

theorem froz_lowercase {ps : List (RawTok × Bool)} {ft : FT} (h : All2 Froz ps ft) : All2 Froz ps (lowercaseKeywords ft) := by
  unfold lowercaseKeywords
  refine All2.map_right _ h ?_
  intro p t h
  unfold lowercaseTok
  split
  · exact froz_setContent p t _ h
  · exact h

theorem froz_commentFormatter (U : Bytes → Bool) {ps : List (RawTok × Bool)} {ft : FT} (h : All2 Froz ps ft) :
    All2 Froz ps (commentFormatter U ft) := by
  unfold commentFormatter
  refine All2.map_right _ h ?_
  intro p t h
  unfold commentFormatTok
  split <;> (try split) <;> first | exact froz_setContent p t _ h | exact h

theorem froz_eofNewline (lines : List Line) {ps : List (RawTok × Bool)} {ft : FT} (h : All2 Froz ps ft) :
    All2 Froz ps (eofNewline lines ft) := by
  unfold eofNewline
  split
  · refine All2.zipIdx_map_right _ 0 h ?_
    intro p t i h
    simp only
    split
    · exact h
    · exact h
  · exact h

/-- before the wrapper stage, every marked token is flagged ignored and carries its scanned text -/
theorem froz_preWrap (O : Oracles) (raw : List RawTok) :
    All2 Froz (marked raw (preWrap O raw).1 0) (preWrap O raw).2.2 := by
  unfold preWrap
  simp only
  apply froz_eofNewline
  apply froz_commentFormatter
  apply froz_lowercase
  apply froz_tokenSpacing
  unfold FT.new
  exact froz_new raw _ _ 0

/-- the wrapper stage keeps ignored tokens (flag, whitespace, text) and ignores no further token -/
def WrapKeepsIgnored (O : Oracles) : Prop :=
  ∀ cfg lines ft, All2 (fun (t t' : FTok) => t'.fmt.ignored = t.fmt.ignored ∧
    (t.fmt.ignored = true → t'.tok.ws = t.tok.ws ∧ t'.tok.content = t.tok.content)) ft (O.wrap cfg lines ft)

theorem froz_wrap (O : Oracles) (hK : WrapKeepsIgnored O) (cfg : Config) (lines : List Line)
    {ps : List (RawTok × Bool)} {ft : FT} (h : All2 Froz ps ft) : All2 Froz ps (O.wrap cfg lines ft) := by
  refine All2.trans h (hK cfg lines ft) ?_
  intro p t t' hpt htt
  refine ⟨by rw [htt.1, hpt.1], ?_⟩
  intro hp
  have hig : t.fmt.ignored = true := by rw [hpt.1, hp]
  obtain ⟨h1, h2⟩ := htt.2 hig
  obtain ⟨h3, h4⟩ := hpt.2 hp
  exact ⟨by rw [h1, h3], by rw [h2, h4]⟩

theorem All2.take {α β : Type} {R : α → β → Prop} {as : List α} {bs : List β} (h : All2 R as bs) (n : Nat) :
    All2 R (as.take n) (bs.take n) := by
  induction h generalizing n with
  | nil => simp; exact .nil
  | cons hab _ ih =>
    cases n with
    | zero => simp; exact .nil
    | succ m => simp only [List.take_succ_cons]; exact .cons hab (ih m)

theorem All2.drop {α β : Type} {R : α → β → Prop} {as : List α} {bs : List β} (h : All2 R as bs) (n : Nat) :
    All2 R (as.drop n) (bs.drop n) := by
  induction h generalizing n with
  | nil => simp; exact .nil
  | cons hab hr ih =>
    cases n with
    | zero => simp; exact .cons hab hr
    | succ m => simp only [List.drop_succ_cons]; exact ih m

/-- a run of marked tokens: all ignored, and its verbatim text is the scanned text -/
theorem froz_run {ps : List (RawTok × Bool)} {run : FT} (h : All2 Froz ps run) (hm : ∀ p ∈ ps, p.2 = true) :
    (∀ t ∈ run, t.fmt.ignored = true) ∧ verbatimText run = ps.flatMap (fun p => p.1.ws ++ p.1.content) := by
  induction h with
  | nil => simp [verbatimText]
  | @cons p t ps' run' hpt _ ih =>
    have hp := hm p (by simp)
    obtain ⟨ih1, ih2⟩ := ih (fun q hq => hm q (by simp [hq]))
    obtain ⟨h1, h2⟩ := hpt.2 hp
    refine ⟨?_, ?_⟩
    · intro x hx
      rcases List.mem_cons.1 hx with rfl | hx'
      · rw [hpt.1, hp]
      · exact ih1 x hx'
    · unfold verbatimText at ih2 ⊢
      simp only [List.flatMap_cons, ih2, h1, h2]


theorem marked_take (l : List RawTok) (marks : List Bool) (k b : Nat) :
    (marked l marks k).take b = marked (l.take b) marks k := by
  induction l generalizing k b with
  | nil => simp [marked]
  | cons r rs ih =>
    cases b with
    | zero => simp [marked]
    | succ m =>
      simp only [marked, List.zipIdx_cons, List.map_cons, List.take_succ_cons]
      congr 1
      exact ih (k + 1) m

theorem marked_drop (l : List RawTok) (marks : List Bool) (k a : Nat) :
    (marked l marks k).drop a = marked (l.drop a) marks (k + a) := by
  induction l generalizing k a with
  | nil => simp [marked]
  | cons r rs ih =>
    cases a with
    | zero => simp
    | succ m =>
      simp only [marked, List.zipIdx_cons, List.map_cons, List.drop_succ_cons]
      have := ih (k + 1) m
      simp only [marked] at this
      rw [this]
      congr 2
      omega

theorem marked_flatMap (l : List RawTok) (marks : List Bool) (k : Nat) :
    (marked l marks k).flatMap (fun p => p.1.ws ++ p.1.content) = l.flatMap (fun r => r.ws ++ r.content) := by
  induction l generalizing k with
  | nil => simp [marked]
  | cons r rs ih =>
    simp only [marked, List.zipIdx_cons, List.map_cons, List.flatMap_cons]
    congr 1
    exact ih (k + 1)

theorem marked_snd (l : List RawTok) (marks : List Bool) (k : Nat) (p : RawTok × Bool) (hp : p ∈ marked l marks k) :
    ∃ i, k ≤ i ∧ i < k + l.length ∧ p.2 = marks.getD i false := by
  unfold marked at hp
  rw [List.mem_map] at hp
  obtain ⟨⟨r, i⟩, hri, rfl⟩ := hp
  have := List.mem_zipIdx hri
  exact ⟨i, this.1, by omega, rfl⟩

/-- **C07 for the whole pipeline.**  For every input token list, every parser behaviour and every wrapper
    behaviour that keeps ignored tokens: if the tokens at positions `[a, b)` are all marked by the
    ignorers (formatting toggles, asm instruction lines) and the safety-net line break does not fire
    inside that run, then the output contains, contiguously, exactly the scanned whitespace and text of
    those tokens — whatever the configuration. -/
theorem formatTokens_verbatim (cfg : Config) (O : Oracles) (hK : WrapKeepsIgnored O) (raw : List RawTok)
    (a b : Nat) (hab : a ≤ b) (hb : b ≤ raw.length)
    (hmark : ∀ i, a ≤ i → i < b → (preWrap O raw).1.getD i false = true)
    (hsafe : safeRun (mbAfter false ((O.wrap cfg (preWrap O raw).2.1 (preWrap O raw).2.2).take a))
      (((O.wrap cfg (preWrap O raw).2.1 (preWrap O raw).2.2).take b).drop a) = true) :
    ∃ (before after : Bytes),
      formatTokens cfg O raw = before ++ ((raw.take b).drop a).flatMap (fun r => r.ws ++ r.content) ++ after := by
  generalize hft2 : O.wrap cfg (preWrap O raw).2.1 (preWrap O raw).2.2 = ft2 at hsafe
  have hfz : All2 Froz (marked raw (preWrap O raw).1 0) ft2 := by
    rw [← hft2]; exact froz_wrap O hK cfg _ (froz_preWrap O raw)
  have hfmt : formatTokens cfg O raw = reconstruct cfg.settings ft2 := by
    unfold formatTokens; rw [← hft2]
  have hsplit : ft2 = ft2.take a ++ (ft2.take b).drop a ++ ft2.drop b := by
    have h1 : ft2.take b = ft2.take a ++ (ft2.take b).drop a := by
      have : ft2.take a = (ft2.take b).take a := by rw [List.take_take]; congr 1; omega
      rw [this, List.take_append_drop]
    rw [← h1, List.take_append_drop]
  -- the run: all ignored, verbatim text = scanned text
  have hrunfz : All2 Froz (marked ((raw.take b).drop a) (preWrap O raw).1 a) ((ft2.take b).drop a) := by
    have := (hfz.take b).drop a
    rw [marked_take, marked_drop] at this
    simpa using this
  have hallm : ∀ p ∈ marked ((raw.take b).drop a) (preWrap O raw).1 a, p.2 = true := by
    intro p hp
    obtain ⟨i, h1, h2, h3⟩ := marked_snd _ _ _ p hp
    rw [h3]
    apply hmark i h1
    simp only [List.length_drop, List.length_take] at h2
    omega
  obtain ⟨hign, hverb⟩ := froz_run hrunfz hallm
  rw [marked_flatMap] at hverb
  refine ⟨reconGo cfg.settings false (ft2.take a),
    reconGo cfg.settings (mbAfter (mbAfter false (ft2.take a)) ((ft2.take b).drop a)) (ft2.drop b), ?_⟩
  rw [hfmt, ← hverb]
  conv => lhs; rw [hsplit]
  exact reconstruct_verbatim_run cfg.settings _ _ _ hign hsafe

end Pasfmt
