/-
  The COUNTERS of the first token of a CHILD line (for C05): when a solution of the search is applied
  (`reconstruct_solution` = `applySol`), the first token of every child line - at every nesting depth - gets the counters
  its child solution starts with: for a child placed by a breaking option (`BreakAll`, or a non-first child of
  `ContinueThenBreak`) one line break (two after a blank line), the parent solution's indentations plus the child line's
  own level minus the option's de-indentation (at most one level), and the option's continuations (at least the
  parent's).  Siblings placed by the same option are aligned; one level more = one indentation more.

  Part 1 is about `applySol` alone (any solution tree): the sub-solution relation `SubSol` and the generic statement
  `subSol_first_token`.  Part 2 links it with the solutions of the search (`FDesc`, `TreeOk`).
-/
import PasfmtModel.Proofs.SearchChildLines
import PasfmtModel.Proofs.SearchBeginWrap

namespace Pasfmt

/-! ### Part 1: applying a solution tree, seen from one of its sub-solutions -/

/-- `s'` (a solution for line `li'`) occurs in the tree of `s` (a solution for line `li`): it is `s` itself or occurs in
    the tree of one of the child solutions hanging off a decision of `s` -/
inductive SubSol : Sol → Nat → Sol → Nat → Prop
  | refl (s : Sol) (li : Nat) : SubSol s li s li
  | step (ind cont : Nat) (decs : List (Dec × List (Nat × Sol))) (li : Nat) (d : Dec) (ch : List (Nat × Sol))
      (ci : Nat) (cs : Sol) (s' : Sol) (li' : Nat)
      (hd : (d, ch) ∈ decs) (hc : (ci, cs) ∈ ch) (h : SubSol cs ci s' li') : SubSol (.mk ind cont decs) li s' li'

/-- applying a list of child solutions, seen from one of them: the tokens written before it, by it and after it, and
    the states just before and just after it -/
theorem applyChildren_split (lines : List Line) (ci : Nat) (cs : Sol) :
    ∀ (ch : List (Nat × Sol)) (ft ft1 : FT), (ci, cs) ∈ ch → applyChildren lines ft ch = some ft1 →
      ∃ pre post fta ftb, childrenTokens lines ch = pre ++ solTokens lines cs ci ++ post ∧
        applySol lines fta cs ci = some ftb ∧ (∀ j, j ∉ pre → fta[j]? = ft[j]?) ∧ (∀ j, j ∉ post → ft1[j]? = ftb[j]?) := by
  intro ch
  induction ch with
  | nil => intro ft ft1 hm; simp at hm
  | cons k rest ih =>
    intro ft ft1 hm h
    obtain ⟨li, s⟩ := k
    unfold applyChildren at h
    split at h
    · simp at h
    · rename_i fta0 ha0
      by_cases hk : (ci, cs) = (li, s)
      · cases hk
        refine ⟨[], childrenTokens lines rest, ft, fta0, ?_, ha0, fun j _ => rfl, fun j hj => ?_⟩
        · rw [childrenTokens]; simp
        · exact applyChildren_untouched lines fta0 ft1 rest h j hj
      · have hm' : (ci, cs) ∈ rest := by
          rcases List.mem_cons.mp hm with h1 | h1
          · exact absurd h1 hk
          · exact h1
        obtain ⟨pre, post, fta, ftb, h1, h2, h3, h4⟩ := ih fta0 ft1 hm' h
        refine ⟨solTokens lines s li ++ pre, post, fta, ftb, ?_, h2, fun j hj => ?_, h4⟩
        · rw [childrenTokens, h1]; simp [List.append_assoc]
        · simp only [List.mem_append, not_or] at hj
          rw [h3 j hj.2, applySol_untouched lines ft fta0 s li ha0 j hj.1]

/-- applying the decisions of a line, seen from one child solution of one of them -/
theorem applyDecs_split (lines : List Line) (ind cont : Nat) (toks : List Nat) (d : Dec) (ch : List (Nat × Sol))
    (ci : Nat) (cs : Sol) (hc : (ci, cs) ∈ ch) :
    ∀ (decs : List (Dec × List (Nat × Sol))) (i : Nat) (ft ft1 : FT), (d, ch) ∈ decs →
      applyDecs lines ind cont toks i ft decs = some ft1 →
      ∃ pre post fta ftb, decsTokens lines toks i decs = pre ++ solTokens lines cs ci ++ post ∧
        applySol lines fta cs ci = some ftb ∧ (∀ j, j ∉ pre → fta[j]? = ft[j]?) ∧ (∀ j, j ∉ post → ft1[j]? = ftb[j]?) := by
  intro decs
  induction decs with
  | nil => intro i ft ft1 hm; simp at hm
  | cons dk rest ih =>
    intro i ft ft1 hm h
    obtain ⟨d0, ch0⟩ := dk
    unfold applyDecs at h
    split at h
    · simp at h
    · rename_i tok htok
      split at h
      · simp at h
      · rename_i fta0 ha0
        split at h
        · simp at h
        · rename_i ftb0 hb0
          have hset := (setFmt_spec ft fta0 _ _ ha0).2
          by_cases hk : (d, ch) = (d0, ch0)
          · cases hk
            obtain ⟨pre, post, fta, ftb, h1, h2, h3, h4⟩ := applyChildren_split lines ci cs ch fta0 ftb0 hc hb0
            refine ⟨[tok] ++ pre, post ++ decsTokens lines toks (i + 1) rest, fta, ftb, ?_, h2, fun j hj => ?_,
              fun j hj => ?_⟩
            · rw [decsTokens]; simp only [htok]; rw [h1]; simp [List.append_assoc]
            · simp only [List.mem_append, List.mem_singleton, not_or] at hj
              rw [h3 j hj.2, hset j hj.1]
            · simp only [List.mem_append, not_or] at hj
              rw [applyDecs_untouched lines ind cont toks (i + 1) ftb0 ft1 rest h j hj.2, h4 j hj.1]
          · have hm' : (d, ch) ∈ rest := by
              rcases List.mem_cons.mp hm with h1 | h1
              · exact absurd h1 hk
              · exact h1
            obtain ⟨pre, post, fta, ftb, h1, h2, h3, h4⟩ := ih (i + 1) ftb0 ft1 hm' h
            refine ⟨[tok] ++ childrenTokens lines ch0 ++ pre, post, fta, ftb, ?_, h2, fun j hj => ?_, h4⟩
            · rw [decsTokens]; simp only [htok]; rw [h1]; simp [List.append_assoc]
            · simp only [List.mem_append, List.mem_singleton, not_or] at hj
              rw [h3 j hj.2, applyChildren_untouched lines fta0 ftb0 ch0 hb0 j hj.1.2, hset j hj.1.1]

/-- the tokens a sub-solution writes are among the tokens the whole solution writes -/
theorem SubSol.tokens_sub (lines : List Line) {s : Sol} {li : Nat} {s' : Sol} {li' : Nat} (hsub : SubSol s li s' li') :
    ∀ ft ft1, applySol lines ft s li = some ft1 → ∀ j ∈ solTokens lines s' li', j ∈ solTokens lines s li := by
  induction hsub with
  | refl s li => intro ft ft1 _ j hj; exact hj
  | step ind cont decs li d ch ci cs s' li' hd hc h ih =>
    intro ft ft1 ha j hj
    unfold applySol at ha
    split at ha
    · simp at ha
    · rename_i l hl
      obtain ⟨pre, post, fta, ftb, h1, h2, _, _⟩ := applyDecs_split lines ind cont l.tokens d ch ci cs hc decs 0 ft ft1 hd ha
      unfold solTokens
      simp only [hl]
      rw [h1]
      simp [ih fta ftb h2 j hj]

/-- the first token of a line is among the tokens a solution with at least one decision writes -/
theorem first_mem_solTokens (lines : List Line) (ind cont : Nat) (d : Dec) (ch : List (Nat × Sol))
    (rest : List (Dec × List (Nat × Sol))) (li : Nat) (l : Line) (t0 : Nat)
    (hl : lines[li]? = some l) (ht : l.tokens[0]? = some t0) :
    t0 ∈ solTokens lines (.mk ind cont ((d, ch) :: rest)) li := by
  unfold solTokens
  simp only [hl]
  unfold decsTokens
  simp [ht]

/-- APPLYING A SOLUTION TREE, SEEN FROM A SUB-SOLUTION.  When a solution is applied, the first token `t0` of the line of
    any solution `s'` in its tree (at any depth) gets the counters `s'` says: the first decision of `s'` applied with
    the starting whitespace of `s'` - provided `t0` is written once by the whole tree -/
theorem subSol_first_token (lines : List Line) {s : Sol} {li : Nat} {s' : Sol} {li' : Nat} (hsub : SubSol s li s' li') :
    ∀ (ft ft1 : FT) (ind cont : Nat) (d : Dec) (ch : List (Nat × Sol)) (rest : List (Dec × List (Nat × Sol)))
      (l : Line) (t0 : Nat), s' = .mk ind cont ((d, ch) :: rest) → lines[li']? = some l → l.tokens[0]? = some t0 →
      applySol lines ft s li = some ft1 → (solTokens lines s li).count t0 = 1 →
      ∃ t, ft[t0]? = some t ∧ ft1[t0]? = some { t with fmt := applyDec t.fmt true ind cont d } := by
  induction hsub with
  | refl s li =>
    intro ft ft1 ind cont d ch rest l t0 hs hl ht ha hone
    subst hs
    exact applySol_first_token lines ft ft1 ind cont ch rest li l t0 d hl ht ha hone
  | step ind0 cont0 decs li d0 ch0 ci cs s' li' hd hc h ih =>
    intro ft ft1 ind cont d ch rest l t0 hs hl ht ha hone
    have ha' := ha
    unfold applySol at ha
    split at ha
    · simp at ha
    · rename_i l0 hl0
      obtain ⟨pre, post, fta, ftb, h1, h2, h3, h4⟩ :=
        applyDecs_split lines ind0 cont0 l0.tokens d0 ch0 ci cs hc decs 0 ft ft1 hd ha
      have hmem : t0 ∈ solTokens lines cs ci := by
        refine SubSol.tokens_sub lines h fta ftb h2 t0 ?_
        rw [hs]
        exact first_mem_solTokens lines ind cont d ch rest li' l t0 hl ht
      unfold solTokens at hone
      simp only [hl0] at hone
      rw [h1] at hone
      simp only [List.count_append] at hone
      have hpos : 0 < List.count t0 (solTokens lines cs ci) := List.count_pos_iff.mpr hmem
      have hc1 : List.count t0 (solTokens lines cs ci) = 1 := by omega
      have hpre : t0 ∉ pre := List.count_eq_zero.mp (by omega)
      have hpost : t0 ∉ post := List.count_eq_zero.mp (by omega)
      obtain ⟨t, e1, e2⟩ := ih fta ftb ind cont d ch rest l t0 hs hl ht h2 hc1
      exact ⟨t, by rw [← h3 t0 hpre]; exact e1, by rw [h4 t0 hpost]; exact e2⟩

/-! ### Part 2: the solutions of the search -/

/-- `s'` (for line `li'`) is a solution `k` levels below `sol` (for line `li`) in its tree of child solutions -/
inductive FDesc : Nat → FormattingSolution → Nat → FormattingSolution → Nat → Prop
  | zero (sol : FormattingSolution) (li : Nat) : FDesc 0 sol li sol li
  | succ (k : Nat) (sol : FormattingSolution) (li : Nat) (d : TokenDecision) (ci : Nat) (cs : FormattingSolution)
      (s' : FormattingSolution) (li' : Nat) (hd : d ∈ sol.decisions) (hc : (ci, cs) ∈ d.childSolutions)
      (h : FDesc k cs ci s' li') : FDesc (k + 1) sol li s' li'

/-- one more level at the bottom -/
theorem FDesc.snoc {k : Nat} {sol : FormattingSolution} {li : Nat} {par : FormattingSolution} {pli : Nat}
    (h : FDesc k sol li par pli) {d : TokenDecision} {ci : Nat} {cs : FormattingSolution}
    (hd : d ∈ par.decisions) (hc : (ci, cs) ∈ d.childSolutions) : FDesc (k + 1) sol li cs ci := by
  induction h with
  | zero sol li => exact FDesc.succ 0 sol li d ci cs cs ci hd hc (FDesc.zero cs ci)
  | succ k sol li d' ci' cs' s' li' hd' hc' h ih => exact FDesc.succ (k + 1) sol li d' ci' cs' cs ci hd' hc' (ih hd)

/-- the form of the solution the wrapper stage applies (`toSol`) has the same tree, down to the depth of its fuel -/
theorem FDesc.subSol {k : Nat} {sol : FormattingSolution} {li : Nat} {s' : FormattingSolution} {li' : Nat}
    (h : FDesc k sol li s' li') : ∀ m, SubSol (sol.toSol (k + m)) li (s'.toSol m) li' := by
  induction h with
  | zero sol li => intro m; rw [Nat.zero_add]; exact SubSol.refl _ _
  | succ k sol li d ci cs s' li' hd hc h ih =>
    intro m
    have e : k + 1 + m = (k + m) + 1 := by omega
    rw [e, toSol_succ]
    refine SubSol.step _ _ _ li d.decision (d.childSolutions.map fun (i, s) => (i, s.toSol (k + m))) ci
      (cs.toSol (k + m)) _ li' ?_ ?_ (ih m)
    · exact List.mem_map.mpr ⟨d, hd, rfl⟩
    · exact List.mem_map.mpr ⟨(ci, cs), hc, rfl⟩

/-- all child solutions are well placed in every solution of the tree -/
theorem FDesc.treeOk {O : Olf} {k : Nat} {sol : FormattingSolution} {li : Nat} {s' : FormattingSolution} {li' : Nat}
    (h : FDesc k sol li s' li') (ht : TreeOk O sol) : TreeOk O s' := by
  induction h with
  | zero sol li => exact ht
  | succ k sol li d ci cs s' li' hd hc h ih =>
    obtain ⟨o, _, _, h3⟩ := (treeOk_iff O sol).mp ht d hd
    exact ih (h3 (ci, cs) hc)

/-- the counters of the first token of a child line placed with the whitespace `cws` of its option -/
def childFmt (f : FmtData) (cws : ChildWhitespace) (level : Nat) : FmtData :=
  { f with nl := nlc f.nl, ind := cws.whitespace.indentations + level - cws.deindent,
           cont := cws.whitespace.continuations }

/-- the counters of a token that continues the line of the token before it -/
def contFmt (f : FmtData) : FmtData := { f with nl := 0, ind := 0, cont := 0 }

/-- one child solution of an option, applied inside a solution tree (any depth): its first token gets the option's
    whitespace (plus the line's level) after a break, or no whitespace at all -/
theorem child_first_token_core (O : Olf) (lines : List Line) (ft ft1 : FT) (root par : FormattingSolution)
    (k m li pli : Nat) (hdesc : FDesc k root li par pli)
    (d : TokenDecision) (hd : d ∈ par.decisions) (option : ChildLineOption) (p : Nat) (x : Nat × FormattingSolution)
    (hx : d.childSolutions[p]? = some x) (hok : ChildSolOk O option p x)
    (cl : Line) (c0 : Nat) (hcl : lines[x.1]? = some cl) (hOl : O.lines[x.1]! = cl.toA) (hc0 : cl.tokens[0]? = some c0)
    (ha : applySol lines ft (root.toSol (k + 2 + m)) li = some ft1)
    (hone : (solTokens lines (root.toSol (k + 2 + m)) li).count c0 = 1) :
    ∃ t, ft[c0]? = some t ∧
      ((option.breaksAt p = true ∧ O.getFormattingInvariant 0 cl.toA ≠ some .mustNotBreak) →
        ft1[c0]? = some { t with fmt := childFmt t.fmt option.startingWs cl.level }) ∧
      ((option.breaksAt p = false ∨ O.getFormattingInvariant 0 cl.toA = some .mustNotBreak) →
        ft1[c0]? = some { t with fmt := contFmt t.fmt }) := by
  obtain ⟨xi, xs⟩ := x
  have hmem : (xi, xs) ∈ d.childSolutions := List.mem_of_getElem? hx
  have hdesc' : FDesc (k + 1) root li xs xi := hdesc.snoc hd hmem
  have hsub := hdesc'.subSol (m + 1)
  have e : k + 1 + (m + 1) = k + 2 + m := by omega
  rw [e, toSol_succ] at hsub
  obtain ⟨hws, hdec⟩ := hok
  simp only [] at hws hdec hcl hOl
  rw [hOl] at hws hdec
  have hsome : (cl.toA.tokens[0]?).isSome = true := by
    show (cl.tokens.toArray[0]?).isSome = true
    simp [hc0]
  have hdec := hdec hsome
  cases hds : xs.decisions with
  | nil => rw [hds] at hdec; simp at hdec
  | cons d0 r =>
    rw [hds] at hdec hsub
    simp only [List.head?_cons, Option.map_some, Option.some.injEq] at hdec
    simp only [List.map_cons] at hsub
    obtain ⟨t, e1, e2⟩ := subSol_first_token lines hsub ft ft1 _ _ _ _ _ cl c0 rfl hcl hc0 ha hone
    refine ⟨t, e1, fun hb => ?_, fun hb => ?_⟩
    · rw [e2, hdec, hws, if_pos hb.1]
      have : rootDec O cl.toA .brk = .brk 0 := by
        unfold rootDec
        have : (O.getFormattingInvariant 0 cl.toA == some .mustNotBreak) = false := by simpa using hb.2
        simp [this]
      rw [this]
      simp [applyDec, childFmt, childWs, nlc, Line.toA]
    · rw [e2, hdec]
      have : (if option.breaksAt p = true then rootDec O cl.toA .brk else .cont) = .cont := by
        rcases hb with hb | hb
        · simp [hb]
        · split
          · unfold rootDec; simp [hb]
          · rfl
      rw [this]
      simp [applyDec, contFmt]

/-- CHILD LINES, COUNTER LEVEL (task 1).  Let `root` be a solution of the search whose child solutions are well placed
    (`TreeOk`), applied in the form `toSol` with enough fuel for the depth in question, and let `par` be any solution
    in its tree (`FDesc`: `root` itself for `k = 0`, a child solution for `k = 1`, ...), with starting whitespace
    `W = par.startingWs`.  For every decision `d` of `par` there is ONE `ChildLineOption` for all child lines hanging
    off `d`, derived from `W` (`OptionFrom`), such that the first token `c0` of the `p`-th child line `cl`
    (written once by the whole tree) ends up

    * for `BreakAll` and for all but the first child of `ContinueThenBreak` (and a line that may be broken off its
      predecessor): with one line break (two if a blank line was there), `W.indentations + cl.level - deindent`
      indentations where `deindent ≤ 1` is the option's, and the option's continuations `≥ W.continuations`
      (a statement of a child block starts its own line, indented by its level relative to its parent line);
    * otherwise (`ContinueAll`, first child of `ContinueThenBreak`): with no line break and no whitespace. -/
theorem child_line_first_token (O : Olf) (lines : List Line) (ft ft1 : FT) (root par : FormattingSolution)
    (k m li pli : Nat) (hroot : TreeOk O root) (hdesc : FDesc k root li par pli)
    (d : TokenDecision) (hd : d ∈ par.decisions)
    (ha : applySol lines ft (root.toSol (k + 2 + m)) li = some ft1) :
    ∃ option : ChildLineOption, OptionFrom par.startingWs option ∧
      ∀ (p : Nat) (x : Nat × FormattingSolution) (cl : Line) (c0 : Nat), d.childSolutions[p]? = some x →
        lines[x.1]? = some cl → O.lines[x.1]! = cl.toA → cl.tokens[0]? = some c0 →
        (solTokens lines (root.toSol (k + 2 + m)) li).count c0 = 1 →
        ChildSolOk O option p x ∧
        ∃ t, ft[c0]? = some t ∧
          ((option.breaksAt p = true ∧ O.getFormattingInvariant 0 cl.toA ≠ some .mustNotBreak) →
            option.startingWs.deindent ≤ 1 ∧
            par.startingWs.continuations ≤ option.startingWs.whitespace.continuations ∧
            ft1[c0]? = some { t with fmt :=
              { t.fmt with nl := nlc t.fmt.nl,
                           ind := par.startingWs.indentations + cl.level - option.startingWs.deindent,
                           cont := option.startingWs.whitespace.continuations } }) ∧
          ((option.breaksAt p = false ∨ O.getFormattingInvariant 0 cl.toA = some .mustNotBreak) →
            ft1[c0]? = some { t with fmt := contFmt t.fmt }) := by
  have hpar : TreeOk O par := hdesc.treeOk hroot
  obtain ⟨option, hof, hlist, _⟩ := (treeOk_iff O par).mp hpar d hd
  refine ⟨option, hof, fun p x cl c0 hx hcl hOl hc0 hone => ⟨hlist p x hx, ?_⟩⟩
  obtain ⟨t, e1, e2, e3⟩ := child_first_token_core O lines ft ft1 root par k m li pli hdesc d hd option p x hx
    (hlist p x hx) cl c0 hcl hOl hc0 ha hone
  refine ⟨t, e1, fun hb => ?_, e3⟩
  have hne : option ≠ .continueAll := by
    intro h; rw [h] at hb; simp [ChildLineOption.breaksAt] at hb
  rcases hof with h | ⟨h1, h2, h3⟩
  · exact absurd h hne
  · refine ⟨h3, h2, ?_⟩
    rw [e2 hb, ← h1]
    rfl

/-- the first token of a line starts the line with `ind` indentations and `cont` continuations -/
def StartsLine (ind cont : Nat) (f : FmtData) : Prop := (f.nl = 1 ∨ f.nl = 2) ∧ f.ind = ind ∧ f.cont = cont

theorem nlc_12 (n : Nat) : nlc n = 1 ∨ nlc n = 2 := by unfold nlc; omega

/-- SIBLINGS ARE ALIGNED (task 2).  Two child lines `clp`, `clq` hanging off the same decision of a solution `par`
    (any depth in an applied solution tree), both placed after a break (`BreakAll`, or non-first children of
    `ContinueThenBreak`): there are numbers `e ≤ 1` (the option's de-indentation) and `c ≥ W.continuations` such that
    both first tokens start their line (1 or 2 line breaks) with `W.indentations + level - e` indentations and `c`
    continuations.  So the statements of one list with the same level start in the same column, and a child one level
    deeper than a sibling gets exactly one indentation more (when the subtraction does not truncate:
    `1 ≤ W.indentations + clp.level`). -/
theorem sibling_children_same_indent (O : Olf) (lines : List Line) (ft ft1 : FT) (root par : FormattingSolution)
    (k m li pli : Nat) (hroot : TreeOk O root) (hdesc : FDesc k root li par pli)
    (d : TokenDecision) (hd : d ∈ par.decisions)
    (ha : applySol lines ft (root.toSol (k + 2 + m)) li = some ft1) :
    ∃ (option : ChildLineOption) (e c : Nat), OptionFrom par.startingWs option ∧ e ≤ 1 ∧
      par.startingWs.continuations ≤ c ∧
      ∀ (p q : Nat) (x y : Nat × FormattingSolution) (clp clq : Line) (cp cq : Nat),
        d.childSolutions[p]? = some x → d.childSolutions[q]? = some y →
        lines[x.1]? = some clp → O.lines[x.1]! = clp.toA → clp.tokens[0]? = some cp →
        lines[y.1]? = some clq → O.lines[y.1]! = clq.toA → clq.tokens[0]? = some cq →
        (solTokens lines (root.toSol (k + 2 + m)) li).count cp = 1 →
        (solTokens lines (root.toSol (k + 2 + m)) li).count cq = 1 →
        option.breaksAt p = true → option.breaksAt q = true →
        O.getFormattingInvariant 0 clp.toA ≠ some .mustNotBreak →
        O.getFormattingInvariant 0 clq.toA ≠ some .mustNotBreak →
        ∃ fp fq, fmtAt ft1 cp = some fp ∧ fmtAt ft1 cq = some fq ∧
          StartsLine (par.startingWs.indentations + clp.level - e) c fp ∧
          StartsLine (par.startingWs.indentations + clq.level - e) c fq ∧
          fp.cont = fq.cont ∧
          (clp.level = clq.level → fp.ind = fq.ind) ∧
          (clq.level = clp.level + 1 → 1 ≤ par.startingWs.indentations + clp.level → fq.ind = fp.ind + 1) := by
  obtain ⟨option, hof, hall⟩ := child_line_first_token O lines ft ft1 root par k m li pli hroot hdesc d hd ha
  by_cases hca : option = .continueAll
  · refine ⟨option, 0, par.startingWs.continuations, hof, Nat.zero_le _, Nat.le_refl _, ?_⟩
    intro p q x y clp clq cp cq _ _ _ _ _ _ _ _ _ _ hbp
    rw [hca] at hbp; simp [ChildLineOption.breaksAt] at hbp
  · have hof' := hof
    rcases hof' with h | ⟨h1, h2, h3⟩
    · exact absurd h hca
    · refine ⟨option, option.startingWs.deindent, option.startingWs.whitespace.continuations, hof, h3, h2, ?_⟩
      intro p q x y clp clq cp cq hx hy hclp hOp hcp hclq hOq hcq honep oneq hbp hbq hip hiq
      obtain ⟨_, tp, _, a2, _⟩ := hall p x clp cp hx hclp hOp hcp honep
      obtain ⟨_, tq, _, b2, _⟩ := hall q y clq cq hy hclq hOq hcq oneq
      obtain ⟨_, _, a3⟩ := a2 ⟨hbp, hip⟩
      obtain ⟨_, _, b3⟩ := b2 ⟨hbq, hiq⟩
      have a4 := congrArg (Option.map (·.fmt)) a3
      have b4 := congrArg (Option.map (·.fmt)) b3
      simp only [Option.map_some] at a4 b4
      refine ⟨_, _, a4, b4,
        ⟨nlc_12 _, rfl, rfl⟩, ⟨nlc_12 _, rfl, rfl⟩, rfl, fun hl => ?_, fun hl h1 => ?_⟩
      · show par.startingWs.indentations + clp.level - _ = par.startingWs.indentations + clq.level - _
        rw [hl]
      · show par.startingWs.indentations + clq.level - _ = par.startingWs.indentations + clp.level - _ + 1
        rw [hl]; omega

/-! ### the solutions the wrapper stage applies -/

theorem lines_getElem!_toA (O : Olf) (lines : List Line) (hO : O.lines = (lines.map Line.toA).toArray) (i : Nat)
    (l : Line) (hl : lines[i]? = some l) : O.lines[i]! = l.toA := by
  apply getElem!_of_getElem?
  rw [hO]; simp [hl]

/-- CHILD LINES OF A TOP-LEVEL LINE, as the wrapper stage applies them.  Let `x = (phase, i, s)` be a solution the
    wrapper stage applies (`SolOk`, which `wrapStageFull_children` gives for every applied solution) for top-level line
    `i` of level `L`.  For every decision (token) of the line there are an option, `e ≤ 1` and `c` such that every child
    line `cl` hanging off that token and placed after a break (`BreakAll`, or a non-first child of
    `ContinueThenBreak`; not a line that must stay on its predecessor's line), whose first token `c0` the solution
    writes once, starts its own line after the application: 1 or 2 line breaks, `L + cl.level - e` indentations,
    `c` continuations. -/
theorem applied_child_first_token (O : Olf) (lines : List Line) (hO : O.lines = (lines.map Line.toA).toArray)
    (ft ft1 : FT) (x : Nat × Nat × Sol) (hx : SolOk O x) (ha : applySol lines ft x.2.2 x.2.1 = some ft1) :
    ∃ sol : FormattingSolution, x.2.2 = sol.toSol (O.lines.size + 1) ∧ TreeOk O sol ∧
      sol.startingWs = { indentations := (O.lines[x.2.1]!).level, continuations := 0 } ∧
      ∀ d ∈ sol.decisions, ∃ (option : ChildLineOption) (e c : Nat), OptionFrom sol.startingWs option ∧ e ≤ 1 ∧
        ∀ (p : Nat) (y : Nat × FormattingSolution) (cl : Line) (c0 : Nat), d.childSolutions[p]? = some y →
          lines[y.1]? = some cl → cl.tokens[0]? = some c0 → (solTokens lines x.2.2 x.2.1).count c0 = 1 →
          option.breaksAt p = true → O.getFormattingInvariant 0 cl.toA ≠ some .mustNotBreak →
          ∃ f, fmtAt ft1 c0 = some f ∧ StartsLine ((O.lines[x.2.1]!).level + cl.level - e) c f := by
  obtain ⟨sol, h1, h2, h3⟩ := hx
  refine ⟨sol, h1, h2, h3, fun d hd => ?_⟩
  have hsz : 0 < O.lines.size := by
    rw [h1] at ha
    cases hs : sol with
    | mk ws decs pen len =>
      rw [hs] at ha
      unfold FormattingSolution.toSol applySol at ha
      split at ha
      · simp at ha
      · rename_i l hl
        rw [hO]
        have : x.2.1 < lines.length := by
          rcases Nat.lt_or_ge x.2.1 lines.length with h | h
          · exact h
          · rw [List.getElem?_eq_none h] at hl; cases hl
        simp; omega
  have e : O.lines.size + 1 = 0 + 2 + (O.lines.size - 1) := by omega
  rw [h1, e] at ha
  obtain ⟨option, hof, hall⟩ := child_line_first_token O lines ft ft1 sol sol 0 (O.lines.size - 1) x.2.1 x.2.1 h2
    (FDesc.zero _ _) d hd ha
  refine ⟨option, option.startingWs.deindent, option.startingWs.whitespace.continuations, hof, ?_, ?_⟩
  · rcases hof with h | ⟨_, _, h⟩
    · rw [h]; simp [ChildLineOption.startingWs]
    · exact h
  · intro p y cl c0 hy hcl hc0 hone hb hi
    rw [h1, e] at hone
    obtain ⟨_, t, _, a2, _⟩ := hall p y cl c0 hy hcl (lines_getElem!_toA O lines hO _ _ hcl) hc0 hone
    obtain ⟨_, _, a3⟩ := a2 ⟨hb, hi⟩
    have a4 := congrArg (Option.map (·.fmt)) a3
    simp only [Option.map_some] at a4
    rw [h3] at a4
    exact ⟨_, a4, nlc_12 _, rfl, rfl⟩

/-! ### from the moment a solution is applied to the end of the wrapper stage -/

/-- does the applied solution `x = (phase, line, solution)` write token `j`? -/
def Writes (lines : List Line) (x : Nat × Nat × Sol) (j : Nat) : Prop := j ∈ solTokens lines x.2.2 x.2.1

theorem applyLinesS_last_writer (R : FmtData → Prop) (phase : Nat) (lines : List Line) (is : List Nat)
    (st st1 : SearchState) (ft ft1 : FT) (acc sols : List (Nat × Nat × Sol)) (j : Nat)
    (h : applyLinesS phase lines is st ft acc = some (ft1, st1, sols))
    (hW : ∀ x ∈ sols, Writes lines x j → ∀ fa fb, applySol lines fa x.2.2 x.2.1 = some fb →
      ∃ f, fmtAt fb j = some f ∧ R f)
    (hP : (∃ x ∈ acc, Writes lines x j) → ∃ f, fmtAt ft j = some f ∧ R f) :
    (∃ x ∈ sols, Writes lines x j) → ∃ f, fmtAt ft1 j = some f ∧ R f := by
  induction is generalizing st ft acc with
  | nil => simp [applyLinesS] at h; obtain ⟨rfl, rfl, rfl⟩ := h; exact hP
  | cons i' rest ih =>
    unfold applyLinesS at h
    split at h
    · exact ih _ _ _ h hP
    · rename_i s' st' hs
      split at h
      · simp at h
      · rename_i ft' ha
        have hmem : (phase, i', s') ∈ sols := applyLinesS_acc_sub _ _ _ _ _ _ _ _ _ h _ (by simp)
        refine ih _ _ _ h ?_
        intro ⟨x, hx, hxw⟩
        by_cases hw : Writes lines (phase, i', s') j
        · exact hW _ hmem hw ft ft' ha
        · have hun : ft'[j]? = ft[j]? := applySol_untouched lines ft ft' s' i' ha j hw
          simp only [List.mem_append, List.mem_singleton] at hx
          rcases hx with hx | rfl
          · obtain ⟨f, hf, hg⟩ := hP ⟨x, hx, hxw⟩
            exact ⟨f, by unfold fmtAt at hf ⊢; rw [hun]; exact hf, hg⟩
          · exact absurd hxw hw

/-- THE LAST WRITER WINS, through the whole wrapper stage (first wrapping, string pass, re-wrapping, second string pass,
    removal of spaces at line starts): let `R` be a property of the counters of token `j` that does not look at the
    spaces.  If every applied solution that writes `j` leaves it with `R` (for child lines:
    `applied_child_first_token`), and some applied solution writes `j`, then `j` leaves the stage with `R`. -/
theorem wrapStageFull_last_writer (R : FmtData → Prop) (hR : ∀ f : FmtData, R f → R { f with sp := 0 })
    (cfg : Config) (lines : List Line) (ft ftz : FT) (sols : List (Nat × Nat × Sol)) (j : Nat)
    (h : wrapStageFull cfg lines ft = some (ftz, sols))
    (hW : ∀ x ∈ sols, Writes lines x j → ∀ fa fb, applySol lines fa x.2.2 x.2.1 = some fb →
      ∃ f, fmtAt fb j = some f ∧ R f)
    (hsome : ∃ x ∈ sols, Writes lines x j) :
    ∃ f, fmtAt ftz j = some f ∧ R f := by
  have fin : ∀ ft4 : FT, (∃ f, fmtAt ft4 j = some f ∧ R f) → ∃ f, fmtAt (zeroLineStartSpaces ft4) j = some f ∧ R f := by
    intro ft4 ⟨f, hf, hg⟩
    unfold fmtAt at hf ⊢
    rw [zeroLineStartSpaces_getElem?]
    cases hq : ft4[j]? with
    | none => rw [hq] at hf; cases hf
    | some t =>
      rw [hq] at hf
      simp only [Option.map_some, Option.some.injEq] at hf
      subst hf
      simp only [Option.map_some]
      split
      · exact ⟨_, rfl, hR _ hg⟩
      · exact ⟨_, rfl, hg⟩
  unfold wrapStageFull at h
  simp only [] at h
  split at h
  · simp at h
  · rename_i ft1 st1 sols1 h1
    split at h
    · simp only [Option.some.injEq, Prod.mk.injEq] at h
      obtain ⟨rfl, rfl⟩ := h
      exact fin _ (applyLinesS_last_writer R 0 lines _ _ _ _ _ _ _ j h1 hW (by simp) hsome)
    · split at h
      · simp at h
      · rename_i ft2 toReflow h2
        split at h
        · simp at h
        · rename_i ft3 st3 sols2 h3
          split at h
          · simp at h
          · rename_i ft4 h4
            simp only [Option.some.injEq, Prod.mk.injEq] at h
            obtain ⟨rfl, rfl⟩ := h
            have hsub := applyLinesS_acc_sub _ _ _ _ _ _ _ _ _ h3
            have c1 := applyLinesS_last_writer R 0 lines _ _ _ _ _ _ _ j h1 (fun x hx => hW x (hsub x hx)) (by simp)
            obtain ⟨_, f2⟩ := mlsPass1_at _ _ _ _ _ _ _ h2 j
            have c3 := applyLinesS_last_writer R 1 lines _ _ _ _ _ _ _ j h3 hW (by rw [f2]; exact c1)
            obtain ⟨_, f4⟩ := mlsPass2_at _ _ _ _ h4 j
            exact fin _ (by rw [f4]; exact c3 hsome)

/-! ### `begin_style = always_wrap`, counter level -/

theorem FDesc.treeOk' {O : Olf} {k : Nat} {sol : FormattingSolution} {li : Nat} {s' : FormattingSolution} {li' : Nat}
    (h : FDesc k sol li s' li') (ht : TreeOk' O sol) : TreeOk' O s' := by
  induction h with
  | zero sol li => exact ht
  | succ k sol li d ci cs s' li' hd hc h ih =>
    obtain ⟨p, hp⟩ := List.getElem?_of_mem hc
    exact ih (ht.child hd hp)

/-- `begin_style = always_wrap`, FROM THE RETURNED SOLUTION TO THE COUNTERS (task 3).  `root` is a solution the search
    returned (`TreeOk'`: `format_line_begin_always_wrap`), applied in the form `toSol`; `par` is any solution in its
    tree, `d` one of its decisions with child solutions.  Then these are the solutions of exactly the child lines of a
    record `lc` of `O.lineChildren`, and if `begin_style = always_wrap`, `lc` hangs off `else`, `then`, `do` or the colon
    of a case arm and its first child line starts with `begin` (`BeginCond`), the first token `c0` of that first child
    line - the `begin` - ends up with one line break (two where a blank line was), `W.indentations + level - 1`
    indentations and `W.continuations` continuations, `W` the starting whitespace of the controlling line `par`
    (provided the tree writes `c0` once and the `begin` line may be broken off its predecessor) -/
theorem begin_always_wrap_counters (O : Olf) (lines : List Line) (ft ft1 : FT) (root par : FormattingSolution)
    (k m li pli : Nat) (hroot : TreeOk' O root) (hdesc : FDesc k root li par pli)
    (d : TokenDecision) (hd : d ∈ par.decisions)
    (ha : applySol lines ft (root.toSol (k + 2 + m)) li = some ft1) :
    d.childSolutions = [] ∨ ∃ key lc, O.lineChildren.get? key = some lc ∧
      d.childSolutions.map (·.1) = lc.lineIndices.toList ∧
      (BeginCond O lc →
        ∀ (x : Nat × FormattingSolution) (cl : Line) (c0 : Nat), d.childSolutions[0]? = some x →
          lines[x.1]? = some cl → O.lines[x.1]! = cl.toA → cl.tokens[0]? = some c0 →
          (solTokens lines (root.toSol (k + 2 + m)) li).count c0 = 1 →
          O.getFormattingInvariant 0 cl.toA ≠ some .mustNotBreak →
          ∃ t, ft[c0]? = some t ∧
            ft1[c0]? = some { t with fmt :=
              { t.fmt with nl := nlc t.fmt.nl, ind := par.startingWs.indentations + cl.level - 1,
                           cont := par.startingWs.continuations } }) := by
  obtain ⟨option, _, h2, h3⟩ := begin_always_wrap (hdesc.treeOk' hroot) hd
  rcases h3 with h3 | ⟨key, lc, a, b, c⟩
  · exact Or.inl h3
  · refine Or.inr ⟨key, lc, a, b, fun hb x cl c0 hx hcl hOl hc0 hone hinv => ?_⟩
    obtain ⟨ho, _⟩ := c hb
    obtain ⟨t, e1, e2, _⟩ := child_first_token_core O lines ft ft1 root par k m li pli hdesc d hd option 0 x hx
      (h2 0 x hx).1 cl c0 hcl hOl hc0 ha hone
    refine ⟨t, e1, ?_⟩
    rw [e2 ⟨by rw [ho]; rfl, hinv⟩, ho]
    rfl

end Pasfmt
