/-
  Where tokens end.  `Ends l n`: offset `n` of `l` is 0, or follows an ASCII byte, or points at a
  byte that is not a UTF-8 continuation byte (or at/after the end).  The predicate is local (it looks
  at two bytes), needs no well-formedness of `l`, and composes along the scanners' offset
  arithmetic; in well-formed text every non-zero such offset is a character boundary.
-/
import PasfmtModel.Proofs.Utf8
import PasfmtModel.Proofs.LexBounds

namespace Pasfmt

def AsciiAt (l : Bytes) (i : Nat) : Prop := ∃ a, l[i]? = some a ∧ a < 0x80

def Ends (l : Bytes) (n : Nat) : Prop := n = 0 ∨ (1 ≤ n ∧ AsciiAt l (n - 1)) ∨ NotContAt l n

theorem Ends.zero (l : Bytes) : Ends l 0 := Or.inl rfl

theorem Ends.of_notCont {l : Bytes} {n : Nat} (h : NotContAt l n) : Ends l n := Or.inr (Or.inr h)

theorem Ends.of_ge {l : Bytes} {n : Nat} (h : l.length ≤ n) : Ends l n := Ends.of_notCont (notContAt_end l n h)

theorem Ends.of_asciiAt {l : Bytes} {i : Nat} (h : AsciiAt l i) : Ends l (i + 1) :=
  Or.inr (Or.inl ⟨by omega, by simpa using h⟩)

/-- the byte at `n` is ASCII -/
theorem Ends.of_ascii_here {l : Bytes} {n : Nat} (h : AsciiAt l n) : Ends l n := by
  obtain ⟨a, ha, hlt⟩ := h
  exact Ends.of_notCont (notContAt_of_ascii l n a ha hlt)

theorem asciiAt_drop {l : Bytes} {k i : Nat} (h : AsciiAt (l.drop k) i) : AsciiAt l (k + i) := by
  obtain ⟨a, ha, hlt⟩ := h
  exact ⟨a, by simpa [List.getElem?_drop] using ha, hlt⟩

theorem notContAt_drop {l : Bytes} {k n : Nat} (h : NotContAt (l.drop k) n) : NotContAt l (k + n) := by
  intro b hb
  exact h b (by simpa [List.getElem?_drop] using hb)

/-- an end found in the rest of the text, shifted by what was consumed before it -/
theorem Ends.shift {l : Bytes} {k m : Nat} (h : Ends (l.drop k) m) (hm : m ≠ 0) : Ends l (k + m) := by
  rcases h with h0 | ⟨h1, ha⟩ | hn
  · exact absurd h0 hm
  · refine Or.inr (Or.inl ⟨by omega, ?_⟩)
    have := asciiAt_drop ha
    have e : k + m - 1 = k + (m - 1) := by omega
    rw [e]; exact this
  · exact Ends.of_notCont (notContAt_drop hn)

/-- sequential composition of two scans -/
theorem Ends.seq {l : Bytes} {n m : Nat} (h1 : Ends l n) (h2 : Ends (l.drop n) m) : Ends l (n + m) := by
  by_cases hm : m = 0
  · subst hm; simpa using h1
  · exact h2.shift hm

theorem Ends.cons {b : UInt8} {r : Bytes} {m : Nat} (h : Ends r m) (hm : m ≠ 0) : Ends (b :: r) (1 + m) := by
  have : Ends ((b :: r).drop 1) m := by simpa using h
  exact this.shift hm

/-- a first byte that is ASCII, followed by a scan of the rest -/
theorem Ends.cons_ascii {b : UInt8} {r : Bytes} {m : Nat} (hb : b < 0x80) (h : Ends r m) : Ends (b :: r) (1 + m) := by
  by_cases hm : m = 0
  · subst hm; exact Ends.of_asciiAt (l := b :: r) (i := 0) ⟨b, by simp, hb⟩
  · exact h.cons hm

theorem valid_head_notCont (c : UInt8) (r : Bytes) (hv : validUtf8 (c :: r) = true) : isCont c = false := by
  rw [validUtf8_unfold] at hv
  cases hf : firstCharLen (c :: r) with
  | none => rw [hf] at hv; simp at hv
  | some k => exact (firstCharLen_head _ _ hf).head_notCont c (by simp)

/-- in well-formed text the position after an ASCII byte is a character boundary -/
theorem notCont_after_ascii (l : Bytes) (i : Nat) (hv : validUtf8 l = true) (h : AsciiAt l i) :
    NotContAt l (i + 1) := by
  obtain ⟨a, ha, hlt⟩ := h
  have hi : i < l.length := (List.getElem?_eq_some_iff.1 ha).1
  have hsplit := validUtf8_split l i hv (by omega) (notContAt_of_ascii l i a ha hlt)
  have hd : l.drop i = a :: l.drop (i + 1) := by
    rw [List.drop_eq_getElem_cons hi]
    congr 1
    exact (List.getElem?_eq_some_iff.1 ha).2
  have hv2 := hsplit.2
  rw [hd] at hv2
  have hv3 := valid_after_ascii a _ hlt hv2
  intro b hb
  cases hr : l.drop (i + 1) with
  | nil =>
    have : l.length ≤ i + 1 := by
      have := congrArg List.length hr; simp at this; omega
    rw [List.getElem?_eq_none this] at hb; simp at hb
  | cons c t =>
    rw [hr] at hv3
    have hc := valid_head_notCont c t hv3
    have : l[i + 1]? = some c := by
      have := congrArg (fun x => x[0]?) hr
      simpa [List.getElem?_drop] using this
    rw [this] at hb; simp at hb; subst hb; exact hc

/-- **In well-formed text every non-zero `Ends` offset is a character boundary.** -/
theorem Ends.notCont {l : Bytes} {n : Nat} (h : Ends l n) (hv : validUtf8 l = true) (hn : 1 ≤ n) : NotContAt l n := by
  rcases h with h0 | ⟨_, ha⟩ | hnc
  · omega
  · have := notCont_after_ascii l (n - 1) hv ha
    have e : n - 1 + 1 = n := by omega
    rwa [e] at this
  · exact hnc

/-! ### all-ASCII scans -/

/-- the first `n` bytes exist and are ASCII -/
def AsciiUpTo (l : Bytes) (n : Nat) : Prop := ∀ i, i < n → AsciiAt l i

theorem AsciiUpTo.zero (l : Bytes) : AsciiUpTo l 0 := fun _ h => by omega

theorem AsciiUpTo.ends {l : Bytes} {n : Nat} (h : AsciiUpTo l n) : Ends l n := by
  by_cases hn : n = 0
  · exact Or.inl hn
  · exact Or.inr (Or.inl ⟨by omega, h (n - 1) (by omega)⟩)

theorem AsciiUpTo.seq {l : Bytes} {n m : Nat} (h1 : AsciiUpTo l n) (h2 : AsciiUpTo (l.drop n) m) :
    AsciiUpTo l (n + m) := by
  intro i hi
  by_cases hlt : i < n
  · exact h1 i hlt
  · have := asciiAt_drop (h2 (i - n) (by omega))
    have e : n + (i - n) = i := by omega
    rwa [e] at this

theorem AsciiUpTo.cons {b : UInt8} {r : Bytes} {m : Nat} (hb : b < 0x80) (h : AsciiUpTo r m) :
    AsciiUpTo (b :: r) (1 + m) := by
  intro i hi
  cases i with
  | zero => exact ⟨b, by simp, hb⟩
  | succ j =>
    obtain ⟨a, ha, hlt⟩ := h j (by omega)
    exact ⟨a, by simpa using ha, hlt⟩

theorem AsciiUpTo.mono {l : Bytes} {n m : Nat} (h : AsciiUpTo l n) (hm : m ≤ n) : AsciiUpTo l m :=
  fun i hi => h i (by omega)

theorem asciiUpTo_countWhile (p : UInt8 → Bool) (hp : ∀ x, p x = true → x < 0x80) (l : Bytes) :
    AsciiUpTo l (countWhile p l) := by
  intro i hi
  have hlen := countWhile_le p l
  have hil : i < l.length := by omega
  refine ⟨l[i], by simp [hil], hp _ ?_⟩
  exact countWhile_all p l i hi l[i] (by simp [hil])

/-- the scan `countWhile p` stops at a byte that is not a continuation byte when `p` accepts them all -/
theorem notContAt_countWhile (p : UInt8 → Bool) (hp : ∀ x, isCont x = true → p x = true) (l : Bytes) :
    NotContAt l (countWhile p l) := by
  intro b hb
  have := countWhile_stop p l b hb
  cases hc : isCont b with
  | false => rfl
  | true => rw [hp b hc] at this; simp at this


/-! ### byte classes -/

theorem class_ascii (b : UInt8) :
    (isDecimalByte b = true → b < 0x80) ∧ (isHexByte b = true → b < 0x80) ∧ (isBinaryByte b = true → b < 0x80) ∧
    (asmIdentCharSet.getD b.toNat false = true → b < 0x80) ∧ (isDigit b = true → b < 0x80) ∧
    (isAlpha b = true → b < 0x80) ∧ (isDirectiveNameByte b = true → b < 0x80) ∧
    (isIdentAscii b = false → ¬ b ≥ 0x80 → b < 0x80) := by
  have hall : ∀ n : Fin 256,
      (isDecimalByte (UInt8.ofNat n.val) = true → UInt8.ofNat n.val < 0x80) ∧
      (isHexByte (UInt8.ofNat n.val) = true → UInt8.ofNat n.val < 0x80) ∧
      (isBinaryByte (UInt8.ofNat n.val) = true → UInt8.ofNat n.val < 0x80) ∧
      (asmIdentCharSet.getD (UInt8.ofNat n.val).toNat false = true → UInt8.ofNat n.val < 0x80) ∧
      (isDigit (UInt8.ofNat n.val) = true → UInt8.ofNat n.val < 0x80) ∧
      (isAlpha (UInt8.ofNat n.val) = true → UInt8.ofNat n.val < 0x80) ∧
      (isDirectiveNameByte (UInt8.ofNat n.val) = true → UInt8.ofNat n.val < 0x80) ∧
      (isIdentAscii (UInt8.ofNat n.val) = false → ¬ UInt8.ofNat n.val ≥ 0x80 → UInt8.ofNat n.val < 0x80) := by
    decide +kernel
  have := hall ⟨b.toNat, b.toNat_lt⟩
  simpa only [UInt8.ofNat_toNat] using this

/-! ### identifiers -/

theorem identLen_notCont (l : Bytes) : NotContAt l (identLen l) := by
  induction l using identLen.induct with
  | case1 => simp [identLen, NotContAt]
  | case2 r =>
    simp only [identLen]
    intro b hb; simp at hb; subst hb; decide
  | case3 b r hne h ih =>
    rw [identLen]
    · simp only [h, if_true]
      have : NotContAt ((b :: r).drop 1) (identLen r) := by simpa using ih
      have := notContAt_drop this
      rwa [Nat.add_comm] at this
    · exact hne
  | case4 b r hne h =>
    rw [identLen]
    · simp only [h]
      intro c hc; simp at hc; subst hc
      simp only [Bool.or_eq_true, decide_eq_true_eq, not_or] at h
      exact (byte_facts b).1 ((class_ascii b).2.2.2.2.2.2.2 (by simpa using h.1) h.2)
    · exact hne

/-! ### numbers -/

theorem countFullDecimal_ascii (l : Bytes) : AsciiUpTo l (countFullDecimal l) := by
  unfold countFullDecimal
  split
  · exact AsciiUpTo.zero _
  · exact asciiUpTo_countWhile _ (fun x hx => (class_ascii x).1 hx) l

theorem fracLen_ascii (r1 : Bytes) :
    AsciiUpTo r1 (match r1 with
      | 0x2E :: r2 => let f := countFullDecimal r2; if f > 0 then 1 + f else 0
      | _ => 0) := by
  split
  · rename_i r2
    simp only
    split
    · exact AsciiUpTo.cons (by decide) (countFullDecimal_ascii r2)
    · exact AsciiUpTo.zero _
  · exact AsciiUpTo.zero _

theorem expLen_ascii (r3 : Bytes) :
    AsciiUpTo r3 (match r3 with
      | b :: r4 =>
        if b == 0x65 || b == 0x45 then
          match r4 with
          | s :: r5 => if s == 0x2B || s == 0x2D then 2 + countFullDecimal r5 else 1 + countFullDecimal r4
          | [] => 1
        else 0
      | [] => 0) := by
  split
  · rename_i b r4
    split
    · rename_i hb
      have hb' : b < 0x80 := by
        simp only [Bool.or_eq_true, beq_iff_eq] at hb
        rcases hb with rfl | rfl <;> decide
      split
      · rename_i s r5
        split
        · rename_i hs
          have hs' : s < 0x80 := by
            simp only [Bool.or_eq_true, beq_iff_eq] at hs
            rcases hs with rfl | rfl <;> decide
          have := AsciiUpTo.cons hb' (AsciiUpTo.cons hs' (countFullDecimal_ascii r5))
          have e : 1 + (1 + countFullDecimal r5) = 2 + countFullDecimal r5 := by omega
          rwa [e] at this
        · exact AsciiUpTo.cons hb' (countFullDecimal_ascii (s :: r5))
      · have := AsciiUpTo.cons (r := []) hb' (AsciiUpTo.zero _)
        simpa using this
    · exact AsciiUpTo.zero _
  · exact AsciiUpTo.zero _

theorem three_parts_ascii (r : Bytes) (n1 : Nat) (f g : Bytes → Nat) (h1 : AsciiUpTo r n1)
    (hf : ∀ l, AsciiUpTo l (f l)) (hg : ∀ l, AsciiUpTo l (g l)) :
    AsciiUpTo r (n1 + f (r.drop n1) + g ((r.drop n1).drop (f (r.drop n1)))) := by
  have h12 := AsciiUpTo.seq h1 (hf (r.drop n1))
  have h3 := hg ((r.drop n1).drop (f (r.drop n1)))
  rw [List.drop_drop] at h3 ⊢
  exact AsciiUpTo.seq h12 h3

theorem decNumberRest_ascii (r : Bytes) : AsciiUpTo r (decNumberRest r) :=
  three_parts_ascii r (countDecimal r) _ _ (asciiUpTo_countWhile _ (fun x hx => (class_ascii x).1 hx) r)
    fracLen_ascii expLen_ascii

theorem asmNumberRest_ascii (first : UInt8) (r : Bytes) : AsciiUpTo r (asmNumberRest first r).1 := by
  unfold asmNumberRest
  simp only
  have hh := asciiUpTo_countWhile isHexByte (fun x hx => (class_ascii x).2.1 hx) r
  split
  · rename_i b t heq
    have hb : ∀ (hc : b < 0x80), AsciiUpTo r (countHex r + 1) := by
      intro hc
      have : AsciiUpTo (r.drop (countHex r)) 1 := by
        rw [heq]; intro i hi
        have : i = 0 := by omega
        subst this; exact ⟨b, by simp, hc⟩
      exact AsciiUpTo.seq hh this
    repeat' split
    all_goals first
      | (rename_i hc; apply hb
         simp only [Bool.or_eq_true, beq_iff_eq] at hc
         rcases hc with rfl | rfl <;> decide)
      | exact hh
  · repeat' split
    all_goals exact hh


/-! ### text literals -/

theorem findIdx_asciiAt (p : UInt8 → Bool) (hp : ∀ x, p x = true → x < 0x80) (l : Bytes) (i : Nat)
    (h : findIdx p l = some i) : AsciiAt l i := by
  obtain ⟨b, hb, hpb⟩ := findIdx_spec p l i h
  exact ⟨b, hb, hp b hpb⟩

theorem quoteOrNl_ascii (x : UInt8) (h : (x == 0x27 || x == 0x0A || x == 0x0D) = true) : x < 0x80 := by
  simp only [Bool.or_eq_true, beq_iff_eq] at h
  rcases h with (rfl | rfl) | rfl <;> decide

theorem consumePascalStr_ends (l : Bytes) : Ends l (consumePascalStr l).n := by
  unfold consumePascalStr
  split
  · rename_i r
    split
    · -- `'` at the very end
      rename_i he
      have : r = [] := by simpa using he
      subst this
      exact Ends.of_ge (by simp [ParseState.n])
    · split
      · rename_i pos hpos
        have ha := findIdx_asciiAt _ quoteOrNl_ascii r pos hpos
        split
        · -- closing quote: the end follows it
          simp only [ParseState.n]
          have : AsciiAt (0x27 :: r) (1 + pos) := by
            obtain ⟨a, h1, h2⟩ := ha
            exact ⟨a, by simpa [Nat.add_comm] using h1, h2⟩
          have e : 1 + pos + 1 = (1 + pos) + 1 := rfl
          rw [e]; exact Ends.of_asciiAt this
        · -- line break: the end is at it
          simp only [ParseState.n]
          apply Ends.of_ascii_here
          obtain ⟨a, h1, h2⟩ := ha
          exact ⟨a, by simpa [Nat.add_comm] using h1, h2⟩
      · simp only [ParseState.n]
        exact Ends.of_ge (by simp; omega)
  · exact Ends.zero _

theorem consumeOneEscape_ascii (a : Bytes) : AsciiUpTo (0x23 :: a) (sumN (consumeOneEscape a)) := by
  unfold consumeOneEscape
  have h23 : (0x23 : UInt8) < 0x80 := by decide
  have one : AsciiUpTo (0x23 :: a) 1 := by
    have := AsciiUpTo.cons (r := a) h23 (AsciiUpTo.zero _)
    simpa using this
  split
  · rename_i b r
    have two : b < 0x80 → ∀ m, AsciiUpTo r m → AsciiUpTo (0x23 :: b :: r) (2 + m) := by
      intro hb m hm
      have := AsciiUpTo.cons h23 (AsciiUpTo.cons hb hm)
      have e : 1 + (1 + m) = 2 + m := by omega
      rwa [e] at this
    have hd := asciiUpTo_countWhile isDecimalByte (fun x hx => (class_ascii x).1 hx) r
    have hh := asciiUpTo_countWhile isHexByte (fun x hx => (class_ascii x).2.1 hx) r
    have hbn := asciiUpTo_countWhile isBinaryByte (fun x hx => (class_ascii x).2.2.1 hx) r
    split
    · rename_i hc
      have hb : b < 0x80 := by
        simp only [Bool.or_eq_true, beq_iff_eq] at hc
        rcases hc with hc | rfl
        · exact (class_ascii b).2.2.2.2.1 hc
        · decide
      simpa [sumN, countDecimal] using two hb _ hd
    · split
      · rename_i hc
        have hb : b < 0x80 := by simp only [beq_iff_eq] at hc; subst hc; decide
        split
        · simpa [sumN] using two hb 0 (AsciiUpTo.zero _)
        · rename_i c hc'
          simp only [sumN]
          have := two hb _ hh
          unfold countHex at *
          exact this
      · split
        · rename_i hc
          have hb : b < 0x80 := by simp only [beq_iff_eq] at hc; subst hc; decide
          split
          · simpa [sumN] using two hb 0 (AsciiUpTo.zero _)
          · simp only [sumN]
            have := two hb _ hbn
            unfold countBinary at *
            exact this
        · simpa [sumN] using one
  · simpa [sumN] using one

theorem consumeEscapedChars_ascii (fuel : Nat) (l : Bytes) : AsciiUpTo l (consumeEscapedChars fuel l).n := by
  induction fuel generalizing l with
  | zero => simpa [consumeEscapedChars, ParseState.n] using AsciiUpTo.zero l
  | succ k ih =>
    unfold consumeEscapedChars
    split
    · rename_i r
      have ha := consumeOneEscape_ascii r
      split
      · rename_i n hn
        rw [hn] at ha; simp only [sumN] at ha
        have hrec := ih ((0x23 :: r).drop n)
        split <;> rename_i m hm <;> rw [hm] at hrec <;> simp only [ParseState.n] at * <;> exact AsciiUpTo.seq ha hrec
      · rename_i n hn
        rw [hn] at ha; simpa [sumN, ParseState.n] using ha
    · simpa [ParseState.n] using AsciiUpTo.zero l

theorem textLiteralLoop_ends (fuel : Nat) (l : Bytes) : Ends l (textLiteralLoop fuel l).1 := by
  induction fuel generalizing l with
  | zero => simpa [textLiteralLoop] using Ends.zero l
  | succ k ih =>
    unfold textLiteralLoop
    have he := consumeEscapedChars_ascii (l.length + 1) l
    split
    · rename_i n hn; rw [hn] at he; simpa [ParseState.n] using he.ends
    · rename_i n hn; rw [hn] at he; simpa [ParseState.n] using he.ends
    · rename_i n hn
      rw [hn] at he; simp only [ParseState.n] at he
      have hp := consumePascalStr_ends (l.drop n)
      simp only []
      split
      · rename_i m hm; rw [hm] at hp; simp only [ParseState.n] at hp; exact Ends.seq he.ends hp
      · rename_i m hm; rw [hm] at hp; simp only [ParseState.n] at hp; exact Ends.seq he.ends hp
      · rename_i m hm
        rw [hm] at hp; simp only [ParseState.n] at hp
        have hrec := ih ((l.drop n).drop m)
        have h12 := Ends.seq he.ends hp
        rw [List.drop_drop] at hrec
        simp only [List.drop_drop]
        exact Ends.seq h12 hrec

theorem isPrefix_getElem? {p l : Bytes} (h : p <+: l) (i : Nat) (hi : i < p.length) : l[i]? = p[i]? := by
  obtain ⟨t, rfl⟩ := h
  rw [List.getElem?_append_left hi]

/-- closing quotes of a multi-line literal: the last byte of the token is a quote -/
theorem mls_ends (l : Bytes) (qc pos : Nat) (hq : qc = countWhile (· == 0x27) l) (hq3 : 3 ≤ qc)
    (hpos : findSub (l.take qc) (l.drop qc) = some pos) : Ends l (qc + pos + qc) := by
  have hqle := countWhile_le (· == 0x27) l
  have hpre := findSub_spec _ _ _ hpos
  have hlen : (l.take qc).length = qc := by simp; omega
  have hpat : (l.take qc)[qc - 1]? = some 0x27 := by
    have hi : qc - 1 < qc := by omega
    have hil : qc - 1 < l.length := by omega
    rw [List.getElem?_take_of_lt hi]
    have := countWhile_all (· == 0x27) l (qc - 1) (by omega) l[qc - 1] (by simp [hil])
    simp only [beq_iff_eq] at this
    simp [hil, this]
  have hb := isPrefix_getElem? hpre (qc - 1) (by omega)
  rw [hpat] at hb
  have e : qc + pos + qc = (qc + pos + (qc - 1)) + 1 := by omega
  rw [e]
  apply Ends.of_asciiAt
  refine ⟨0x27, ?_, by decide⟩
  simp only [List.getElem?_drop] at hb
  have e2 : qc + pos + (qc - 1) = qc + (pos + (qc - 1)) := by omega
  rw [e2]; exact hb

theorem textLiteral_ends (l : Bytes) : Ends l (textLiteral l).1 := by
  unfold textLiteral
  simp only []
  repeat' split
  all_goals first
    | exact textLiteralLoop_ends _ _
    | (rename_i hc _ pos hpos
       simp only [Bool.and_eq_true, decide_eq_true_eq] at hc
       exact mls_ends l _ pos rfl hc.1.1 hpos)
    | exact Ends.of_ge (by simp)
    | (rename_i hc _ _; simp at hc)

theorem asmText_zero (r : Bytes) (h : (asmTextLiteralRest r).1 = 0) :
    r = [] ∨ ∃ c t, r = c :: t ∧ (c == 0x0A || c == 0x0D) = true := by
  induction r using asmTextLiteralRest.induct with
  | case1 => left; rfl
  | case2 => simp [asmTextLiteralRest] at h
  | case3 x r k kind hk ih => rw [asmTextLiteralRest] at h; simp at h
  | case4 t => simp [asmTextLiteralRest] at h
  | case5 b r h1 h2 h3 hnl => right; exact ⟨b, r, rfl, hnl⟩
  | case6 b r h1 h2 h3 hnl k kind hk ih =>
    rw [asmTextLiteralRest] at h
    · simp [hnl] at h
    all_goals (first | exact h1 | exact h2 | exact h3 | skip)

/-- an offset of 0 in the rest of an assembler string: the rest is empty or starts with a line break -/
theorem asmText_zero_ends (pre r : Bytes) (h : (asmTextLiteralRest r).1 = 0) : Ends (pre ++ r) pre.length := by
  rcases asmText_zero r h with rfl | ⟨c, t, rfl, hc⟩
  · exact Ends.of_ge (by simp)
  · apply Ends.of_ascii_here
    refine ⟨c, by simp, ?_⟩
    simp only [Bool.or_eq_true, beq_iff_eq] at hc
    rcases hc with rfl | rfl <;> decide

theorem asmTextLiteralRest_ends (r : Bytes) : Ends r (asmTextLiteralRest r).1 := by
  induction r using asmTextLiteralRest.induct with
  | case1 => simpa [asmTextLiteralRest] using Ends.zero _
  | case2 => exact Ends.of_ge (by simp [asmTextLiteralRest])
  | case3 x r k kind hk ih =>
    rw [asmTextLiteralRest]
    simp only
    by_cases hz : (asmTextLiteralRest r).1 = 0
    · rw [hz]
      have := asmText_zero_ends [0x5C, x] r hz
      simpa using this
    · have : Ends ((0x5C :: x :: r).drop 2) (asmTextLiteralRest r).1 := by simpa using ih
      have := this.shift hz
      rwa [Nat.add_comm] at this
  | case4 t =>
    rw [asmTextLiteralRest]
    exact Ends.of_asciiAt (l := 0x22 :: t) (i := 0) ⟨0x22, by simp, by decide⟩
  | case5 b r h1 h2 h3 hnl =>
    rw [asmTextLiteralRest]
    · simp only [hnl, if_true]
      apply Ends.of_ascii_here
      refine ⟨b, by simp, ?_⟩
      simp only [Bool.or_eq_true, beq_iff_eq] at hnl
      rcases hnl with rfl | rfl <;> decide
    all_goals (first | exact h1 | exact h2 | exact h3 | skip)
  | case6 b r h1 h2 h3 hnl k kind hk ih =>
    rw [asmTextLiteralRest]
    · simp only [hnl, Bool.false_eq_true, if_false]
      by_cases hz : (asmTextLiteralRest r).1 = 0
      · rw [hz]
        have := asmText_zero_ends [b] r hz
        simpa using this
      · have := ih.cons (b := b) hz
        rwa [Nat.add_comm] at this
    all_goals (first | exact h1 | exact h2 | exact h3 | skip)


/-! ### comments and directives -/

theorem lineCommentEnd_notCont (l : Bytes) : NotContAt l (lineCommentEnd l) := by
  unfold lineCommentEnd
  split
  · rename_i o ho
    obtain ⟨a, h1, h2⟩ := findIdx_asciiAt (fun b => b == 0x0A || b == 0x0D)
      (by intro x hx; simp only [Bool.or_eq_true, beq_iff_eq] at hx; rcases hx with rfl | rfl <;> decide) l o ho
    exact notContAt_of_ascii l o a h1 h2
  · exact notContAt_end l _ (Nat.le_refl _)

theorem findBlockCommentEnd_ends (k : BlockCommentKind) (l : Bytes) (e : Nat)
    (h : findBlockCommentEnd k l = some e) : Ends l e := by
  unfold findBlockCommentEnd at h
  cases k with
  | parenStar =>
    simp only [Option.map_eq_some_iff] at h
    obtain ⟨p, hp, rfl⟩ := h
    have hpre := findSub_spec _ _ _ hp
    have hb := isPrefix_getElem? hpre 1 (by simp)
    simp only [List.getElem?_drop] at hb
    have e : p + 2 = (p + 1) + 1 := rfl
    rw [e]
    exact Ends.of_asciiAt ⟨0x29, by simpa using hb, by decide⟩
  | brace =>
    simp only [Option.map_eq_some_iff] at h
    obtain ⟨p, hp, rfl⟩ := h
    exact Ends.of_asciiAt ⟨0x7D, findByte_spec _ _ _ hp, by decide⟩

theorem shiftEnd_some (n : Nat) (x : Option (Option Nat)) (e : Nat) (h : shiftEnd n x = some (some e)) :
    ∃ e', x = some (some e') ∧ e = n + e' := by
  cases x with
  | none => simp [shiftEnd] at h
  | some y =>
    cases y with
    | none => simp [shiftEnd] at h
    | some e' => simp [shiftEnd] at h; exact ⟨e', rfl, h.symm⟩

/-- the end of a directive expression follows its closing `}` / `*)` -/
theorem findDirectiveExprEnd_ends (trim : Nat) (fuel : Nat) (kind : BlockCommentKind) (l : Bytes) (e : Nat)
    (h : findDirectiveExprEnd trim fuel kind l = some (some e)) : Ends l e := by
  induction fuel generalizing kind l e with
  | zero => simp [findDirectiveExprEnd] at h
  | succ f ih =>
    cases l with
    | nil => simp [findDirectiveExprEnd] at h
    | cons b0 r0 =>
      have cont : ∀ n e, shiftEnd n (findDirectiveExprEnd trim f kind ((b0 :: r0).drop n)) = some (some e) →
          Ends (b0 :: r0) e := by
        intro n e hs
        obtain ⟨e', hx, rfl⟩ := shiftEnd_some _ _ _ hs
        have h1 := ih kind _ e' hx
        have h2 := findDirectiveExprEnd_le _ _ _ _ _ hx
        exact h1.shift (by omega)
      have nested : ∀ (skip : Nat) (k2 : BlockCommentKind) (r : Bytes) (e : Nat),
          (match (if isExprDirective (conditionalDirectiveType r).2
                    then findDirectiveExprEnd trim f k2 (r.drop (conditionalDirectiveType r).1)
                    else some (findBlockCommentEnd k2 (r.drop (conditionalDirectiveType r).1))) with
            | none => (none : Option (Option Nat))
            | some none => some none
            | some (some e) =>
              shiftEnd (skip + (conditionalDirectiveType r).1 + e)
                (findDirectiveExprEnd trim f kind ((b0 :: r0).drop (skip + (conditionalDirectiveType r).1 + e)))) = some (some e) →
          Ends (b0 :: r0) e := by
        intro skip k2 r e hm
        split at hm
        · simp at hm
        · simp at hm
        · exact cont _ _ hm
      unfold findDirectiveExprEnd at h
      simp only [] at h
      split at h
      · rename_i hc
        simp only [Option.some.injEq] at h; subst h
        simp only [Bool.and_eq_true, beq_iff_eq] at hc
        have : ∃ t, r0 = 0x29 :: t := by
          cases r0 with
          | nil => simp at hc
          | cons c t => simp at hc; exact ⟨t, by rw [hc.2]⟩
        obtain ⟨t, rfl⟩ := this
        exact Ends.of_asciiAt (l := b0 :: 0x29 :: t) (i := 1) ⟨0x29, by simp, by decide⟩
      split at h
      · rename_i hc
        simp only [Option.some.injEq] at h; subst h
        simp only [Bool.and_eq_true, beq_iff_eq] at hc
        exact Ends.of_asciiAt (l := b0 :: r0) (i := 0) ⟨b0, by simp, by rw [hc.2]; decide⟩
      iterate 6
        (split at h
         (first
          | exact cont _ _ h
          | exact nested _ _ _ _ h))
      exact cont _ _ h

theorem parseDirectiveExpr_ends (trim fuel : Nat) (kind : BlockCommentKind) (l : Bytes) (e : Nat)
    (h : (parseDirectiveExpr trim fuel kind l).2 = some (some e)) : Ends l e := by
  unfold parseDirectiveExpr at h
  simp only [] at h
  split at h
  · obtain ⟨e', hx, rfl⟩ := shiftEnd_some _ _ _ h
    have h1 := findDirectiveExprEnd_ends _ _ _ _ _ hx
    have h2 := findDirectiveExprEnd_le _ _ _ _ _ hx
    exact h1.shift (by omega)
  · obtain ⟨e', hx, rfl⟩ := shiftEnd_some _ _ _ h
    simp only [Option.some.injEq] at hx
    have h1 := findBlockCommentEnd_ends _ _ _ hx
    have h2 := findBlockCommentEnd_le _ _ _ hx
    exact h1.shift (by omega)

/-- `pre` = the opener (`{$`, `(*$`), `l` the rest of the text -/
theorem compilerDirective_ends (trim : Nat) (kind : BlockCommentKind) (tokLen : Nat) (pre l : Bytes)
    (n : Nat) (k : Option ConditionalDirectiveKind)
    (h : compilerDirective trim kind pre.length tokLen l = some (n, k))
    (htrim : Ends (pre ++ l) (tokLen - trim)) : Ends (pre ++ l) n := by
  unfold compilerDirective at h
  split at h
  · simp at h
  · rename_i tt e heq
    simp only [Option.some.injEq, Prod.mk.injEq] at h
    have h1 := parseDirectiveExpr_ends trim (directiveFuel l) kind l e (by rw [heq])
    have h2 := parseDirectiveExpr_le trim (directiveFuel l) kind l e (by rw [heq])
    have : Ends ((pre ++ l).drop pre.length) e := by simpa using h1
    rw [← h.1]
    exact this.shift (by omega)
  · simp only [Option.some.injEq, Prod.mk.injEq] at h
    rw [← h.1]; exact htrim

theorem blockComment_ends (trim : Nat) (kind : BlockCommentKind) (tokLen : Nat) (nlb : Bool) (pre l : Bytes)
    (htrim : Ends (pre ++ l) (tokLen - trim)) :
    Ends (pre ++ l) (blockComment trim kind pre.length tokLen nlb l).1 := by
  unfold blockComment
  split
  · rename_i e he
    have h1 := findBlockCommentEnd_ends _ _ _ he
    have h2 := findBlockCommentEnd_le _ _ _ he
    have : Ends ((pre ++ l).drop pre.length) e := by simpa using h1
    exact this.shift (by omega)
  · exact htrim

end Pasfmt
