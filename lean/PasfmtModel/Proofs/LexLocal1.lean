/-
  Locality of the scanning primitives ("prefix determinacy"): when a scan of `x ++ s` stops far
  enough inside `x`, the same scan of `x ++ s'` gives the same result — what follows `x` is never
  looked at.  Part 1: generic primitives, identifiers, numbers.
-/
import PasfmtModel.Proofs.LexBounds

namespace Pasfmt

theorem countWhile_pd (p : UInt8 → Bool) (x s s' : Bytes) (h : countWhile p (x ++ s) < x.length) :
    countWhile p (x ++ s') = countWhile p (x ++ s) := by
  induction x with
  | nil => simp at h
  | cons b x ih =>
    simp only [List.cons_append] at *
    unfold countWhile at h ⊢
    by_cases hb : p b = true
    · simp only [hb, if_true] at h ⊢
      rw [ih (by simp at h; omega)]
    · simp [hb]

/-- if the scan of `x ++ s` runs through all of `x`, so does the scan of `x ++ s'` -/
theorem countWhile_ge (p : UInt8 → Bool) (x s s' : Bytes) (h : x.length ≤ countWhile p (x ++ s)) :
    x.length ≤ countWhile p (x ++ s') := by
  induction x with
  | nil => simp
  | cons b x ih =>
    simp only [List.cons_append] at *
    unfold countWhile at h ⊢
    by_cases hb : p b = true
    · simp only [hb, if_true] at h ⊢
      have := ih (by simp at h; omega)
      simp; omega
    · simp [hb] at h

theorem findIdx_pd (p : UInt8 → Bool) (x s s' : Bytes) (i : Nat) (h : findIdx p (x ++ s) = some i)
    (hi : i < x.length) : findIdx p (x ++ s') = some i := by
  induction x generalizing i with
  | nil => simp at hi
  | cons b x ih =>
    simp only [List.cons_append] at *
    unfold findIdx at h ⊢
    by_cases hb : p b = true
    · simp only [hb, if_true] at h ⊢; exact h
    · simp only [hb, Bool.false_eq_true, if_false, Option.map_eq_some_iff] at h ⊢
      obtain ⟨j, hj, rfl⟩ := h
      exact ⟨j, ih j hj (by simp at hi; omega), rfl⟩

theorem findIdx_none_pd (p : UInt8 → Bool) (x s : Bytes) (h : findIdx p (x ++ s) = none) : findIdx p x = none := by
  induction x with
  | nil => rfl
  | cons b x ih =>
    simp only [List.cons_append] at h
    unfold findIdx at h ⊢
    by_cases hb : p b = true
    · simp [hb] at h
    · simp only [hb, Bool.false_eq_true, if_false, Option.map_eq_none_iff] at h ⊢
      exact ih h

theorem findByte_pd (c : UInt8) (x s s' : Bytes) (i : Nat) (h : findByte c (x ++ s) = some i)
    (hi : i < x.length) : findByte c (x ++ s') = some i := by
  induction x generalizing i with
  | nil => simp at hi
  | cons b x ih =>
    simp only [List.cons_append] at *
    unfold findByte at h ⊢
    by_cases hb : (b == c) = true
    · simp only [hb, if_true] at h ⊢; exact h
    · simp only [hb, Bool.false_eq_true, if_false, Option.map_eq_some_iff] at h ⊢
      obtain ⟨j, hj, rfl⟩ := h
      exact ⟨j, ih j hj (by simp at hi; omega), rfl⟩

theorem isPrefixOf_append_of_le (pat x s : Bytes) (h : pat.length ≤ x.length) :
    pat.isPrefixOf (x ++ s) = pat.isPrefixOf x := by
  induction pat generalizing x with
  | nil => simp
  | cons a pat ih =>
    cases x with
    | nil => simp at h
    | cons b x =>
      simp only [List.cons_append, List.isPrefixOf]
      rw [ih x (by simp at h; omega)]

theorem findSub_pd (pat x s s' : Bytes) (i : Nat) (h : findSub pat (x ++ s) = some i)
    (hi : i + pat.length ≤ x.length) : findSub pat (x ++ s') = some i := by
  induction x generalizing i with
  | nil =>
    simp only [List.length_nil, Nat.le_zero, Nat.add_eq_zero_iff] at hi
    obtain ⟨rfl, hp⟩ := hi
    have : pat = [] := List.eq_nil_of_length_eq_zero hp
    subst this
    cases s' <;> simp [findSub]
  | cons b x ih =>
    simp only [List.cons_append] at *
    unfold findSub at h ⊢
    by_cases hb : pat.isPrefixOf (b :: (x ++ s)) = true
    · simp only [hb, if_true, Option.some.injEq] at h
      subst h
      have e1 := isPrefixOf_append_of_le pat (b :: x) s (by simpa using hi)
      have e2 := isPrefixOf_append_of_le pat (b :: x) s' (by simpa using hi)
      simp only [List.cons_append] at e1 e2
      rw [e2, ← e1, hb]; rfl
    · simp only [hb, Bool.false_eq_true, if_false, Option.map_eq_some_iff] at h
      obtain ⟨j, hj, rfl⟩ := h
      have hle : pat.length ≤ (b :: x).length := by simp at hi ⊢; omega
      have e1 := isPrefixOf_append_of_le pat (b :: x) s hle
      have e2 := isPrefixOf_append_of_le pat (b :: x) s' hle
      simp only [List.cons_append] at e1 e2
      have hb' : pat.isPrefixOf (b :: (x ++ s')) = false := by
        rw [e2, ← e1]; exact Bool.eq_false_iff.2 hb
      simp only [hb', Bool.false_eq_true, if_false, Option.map_eq_some_iff]
      exact ⟨j, ih j hj (by simp at hi; omega), rfl⟩

/-! ### identifiers -/

theorem identLen_cons3 (a b c : UInt8) (t : Bytes) :
    identLen (a :: b :: c :: t) =
      if a = 0xE3 ∧ b = 0x80 ∧ c = 0x80 then 0
      else if isIdentAscii a || a ≥ 0x80 then identLen (b :: c :: t) + 1 else 0 := by
  by_cases h : a = 0xE3 ∧ b = 0x80 ∧ c = 0x80
  · obtain ⟨rfl, rfl, rfl⟩ := h
    simp [identLen]
  · simp only [h, if_false]
    rw [identLen]
    intro t' h1 h2
    simp only [List.cons.injEq] at h2
    exact h ⟨h1, h2.1, h2.2.1⟩

theorem identLen_pd (x s s' : Bytes) (h : identLen (x ++ s) + 3 ≤ x.length) :
    identLen (x ++ s') = identLen (x ++ s) := by
  induction x with
  | nil => simp at h
  | cons a x ih =>
    match x, h, ih with
    | [], h, _ => simp at h
    | [_], h, _ => simp at h
    | b :: c :: x', h, ih =>
      simp only [List.cons_append] at *
      rw [identLen_cons3, identLen_cons3] at *
      by_cases h1 : a = 0xE3 ∧ b = 0x80 ∧ c = 0x80
      · simp [h1]
      · simp only [h1, if_false] at h ⊢
        by_cases h2 : (isIdentAscii a || a ≥ 0x80) = true
        · simp only [h2, if_true] at h ⊢
          rw [ih (by simp at h ⊢; omega)]
        · simp [h2]

/-! ### numbers -/

theorem countFullDecimal_cons_ne (b : UInt8) (t : Bytes) (hb : b ≠ 0x5F) :
    countFullDecimal (b :: t) = countDecimal (b :: t) := by
  unfold countFullDecimal
  split
  · rename_i heq; simp only [List.cons.injEq] at heq; exact absurd heq.1 hb
  · rfl

theorem countFullDecimal_pd (x s s' : Bytes) (h : countFullDecimal (x ++ s) < x.length) :
    countFullDecimal (x ++ s') = countFullDecimal (x ++ s) := by
  cases x with
  | nil => simp at h
  | cons b x =>
    simp only [List.cons_append] at *
    by_cases hb : b = 0x5F
    · subst hb; rfl
    · rw [countFullDecimal_cons_ne b _ hb] at h ⊢
      rw [countFullDecimal_cons_ne b _ hb]
      have := countWhile_pd isDecimalByte (b :: x) s s' (by simpa [countDecimal] using h)
      simpa [countDecimal] using this

/-- the fractional part of `dec_number_literal` -/
def fracLenF (r1 : Bytes) : Nat :=
  match r1 with
  | 0x2E :: r2 =>
    let f := countFullDecimal r2
    if f > 0 then 1 + f else 0
  | _ => 0

/-- the exponent part of `dec_number_literal` -/
def expLenF (r3 : Bytes) : Nat :=
  match r3 with
  | b :: r4 =>
    if b == 0x65 || b == 0x45 then
      match r4 with
      | s :: r5 =>
        if s == 0x2B || s == 0x2D then 2 + countFullDecimal r5 else 1 + countFullDecimal r4
      | [] => 1
    else 0
  | [] => 0

theorem decNumberRest_eq (r : Bytes) :
    decNumberRest r = countDecimal r + fracLenF (r.drop (countDecimal r))
      + expLenF ((r.drop (countDecimal r)).drop (fracLenF (r.drop (countDecimal r)))) := rfl

theorem fracLenF_pd (y s s' : Bytes) (h : fracLenF (y ++ s) + 2 ≤ y.length) :
    fracLenF (y ++ s') = fracLenF (y ++ s) := by
  cases y with
  | nil => simp at h
  | cons b y =>
    simp only [List.cons_append] at *
    by_cases hb : b = 0x2E
    · subst hb
      simp only [fracLenF] at h ⊢
      have hc : countFullDecimal (y ++ s) < y.length := by
        by_cases hf : countFullDecimal (y ++ s) > 0
        · simp only [hf, if_true] at h; simp at h; omega
        · simp at hf; simp at h; omega
      rw [countFullDecimal_pd y s s' hc]
    · have e : ∀ t : Bytes, fracLenF (b :: t) = 0 := by
        intro t; unfold fracLenF; split
        · rename_i heq; simp only [List.cons.injEq] at heq; exact absurd heq.1 hb
        · rfl
      rw [e, e]

theorem expLenF_pd (y s s' : Bytes) (h : expLenF (y ++ s) + 1 ≤ y.length) :
    expLenF (y ++ s') = expLenF (y ++ s) := by
  cases y with
  | nil => simp at h
  | cons b y =>
    simp only [List.cons_append] at *
    unfold expLenF at h ⊢
    simp only at h ⊢
    by_cases hb : (b == 0x65 || b == 0x45) = true
    · simp only [hb, if_true] at h ⊢
      cases y with
      | nil =>
        exfalso
        cases s with
        | nil => simp at h
        | cons c r => simp only [List.nil_append, List.length_cons, List.length_nil] at h; split at h <;> omega
      | cons c y =>
        simp only [List.cons_append] at *
        by_cases hc : (c == 0x2B || c == 0x2D) = true
        · simp only [hc, if_true] at h ⊢
          rw [countFullDecimal_pd y s s' (by simp at h; omega)]
        · simp only [hc, Bool.false_eq_true, if_false] at h ⊢
          have := countFullDecimal_pd (c :: y) s s' (by simp at h ⊢; omega)
          simp only [List.cons_append] at this
          rw [this]
    · simp [hb]

theorem decNumberRest_pd (x s s' : Bytes) (h : decNumberRest (x ++ s) + 3 ≤ x.length) :
    decNumberRest (x ++ s') = decNumberRest (x ++ s) := by
  rw [decNumberRest_eq, decNumberRest_eq] at *
  have h1 : countDecimal (x ++ s') = countDecimal (x ++ s) :=
    countWhile_pd isDecimalByte x s s' (by unfold countDecimal at h; omega)
  rw [h1]
  have hn1 : countDecimal (x ++ s) ≤ x.length := by omega
  rw [List.drop_append_of_le_length hn1] at h ⊢
  rw [List.drop_append_of_le_length hn1]
  have h2 : fracLenF (x.drop (countDecimal (x ++ s)) ++ s') = fracLenF (x.drop (countDecimal (x ++ s)) ++ s) :=
    fracLenF_pd _ s s' (by simp only [List.length_drop]; omega)
  rw [h2]
  have hn2 : fracLenF (x.drop (countDecimal (x ++ s)) ++ s) ≤ (x.drop (countDecimal (x ++ s))).length := by
    simp only [List.length_drop]; omega
  rw [List.drop_append_of_le_length hn2] at h ⊢
  rw [List.drop_append_of_le_length hn2]
  rw [expLenF_pd _ s s' (by simp only [List.length_drop]; omega)]

end Pasfmt
