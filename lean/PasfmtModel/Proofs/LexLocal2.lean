/-
  Locality of the scanning primitives, part 2: text literals.
-/
import PasfmtModel.Proofs.LexLocal1

namespace Pasfmt

theorem getD_append_left (x s : Bytes) (i : Nat) (d : UInt8) (h : i < x.length) :
    (x ++ s).getD i d = x.getD i d := by
  simp [List.getD_eq_getElem?_getD, List.getElem?_append_left h]

theorem consumePascalStr_cons_ne (b : UInt8) (t : Bytes) (hb : b ≠ 0x27) : consumePascalStr (b :: t) = .stop 0 := by
  unfold consumePascalStr
  split
  · rename_i heq; simp only [List.cons.injEq] at heq; exact absurd heq.1 hb
  · rfl

theorem consumePascalStr_pd (x s s' : Bytes) (h : (consumePascalStr (x ++ s)).n + 2 ≤ x.length) :
    consumePascalStr (x ++ s') = consumePascalStr (x ++ s) := by
  cases x with
  | nil => simp at h
  | cons b x =>
    simp only [List.cons_append] at *
    by_cases hb : b = 0x27
    · subst hb
      cases x with
      | nil =>
        exfalso
        have hp := consumePascalStr_pos s
        simp only [List.nil_append, List.length_cons, List.length_nil] at h
        omega
      | cons c x =>
        unfold consumePascalStr at h ⊢
        simp only [List.cons_append, List.isEmpty_cons, Bool.false_eq_true, if_false] at h ⊢
        cases hf : findIdx (fun b => b == 0x27 || b == 0x0A || b == 0x0D) (c :: (x ++ s)) with
        | none =>
          rw [hf] at h
          simp [ParseState.n] at h
          omega
        | some pos =>
          rw [hf] at h
          simp only at h
          have hpos : pos < (c :: x).length := by
            split at h <;> simp [ParseState.n] at h ⊢ <;> omega
          have hf' := findIdx_pd _ (c :: x) s s' pos (by simpa using hf) hpos
          simp only [List.cons_append] at hf'
          rw [hf']
          simp only
          have g1 := getD_append_left (c :: x) s pos 0 hpos
          have g2 := getD_append_left (c :: x) s' pos 0 hpos
          simp only [List.cons_append] at g1 g2
          rw [g1, g2]
    · rw [consumePascalStr_cons_ne b _ hb, consumePascalStr_cons_ne b _ hb]

theorem consumeOneEscape_pd (y s s' : Bytes) (h : sumN (consumeOneEscape (y ++ s)) ≤ y.length) :
    consumeOneEscape (y ++ s') = consumeOneEscape (y ++ s) := by
  cases y with
  | nil =>
    have := (consumeOneEscape_bounds s).1
    simp only [List.nil_append, List.length_nil] at h
    omega
  | cons b y =>
    simp only [List.cons_append] at *
    unfold consumeOneEscape at h ⊢
    simp only at h ⊢
    by_cases h1 : (isDigit b || b == 0x5F) = true
    · simp only [h1, if_true] at h ⊢
      have := countWhile_pd isDecimalByte y s s' (by simp [sumN, countDecimal] at h; omega)
      simp only [countDecimal, this]
    · simp only [h1, Bool.false_eq_true, if_false] at h ⊢
      by_cases h2 : (b == 0x24) = true
      · simp only [h2, if_true] at h ⊢
        have hc : countHex (y ++ s) < y.length := by
          cases hcx : countHex (y ++ s) with
          | zero => rw [hcx] at h; simp [sumN] at h; omega
          | succ c => rw [hcx] at h; simp [sumN] at h; omega
        have := countWhile_pd isHexByte y s s' (by simpa [countHex] using hc)
        simp only [countHex, this]
      · simp only [h2, Bool.false_eq_true, if_false] at h ⊢
        by_cases h3 : (b == 0x25) = true
        · simp only [h3, if_true] at h ⊢
          have hc : countBinary (y ++ s) < y.length := by
            cases hcx : countBinary (y ++ s) with
            | zero => rw [hcx] at h; simp [sumN] at h; omega
            | succ c => rw [hcx] at h; simp [sumN] at h; omega
          have := countWhile_pd isBinaryByte y s s' (by simpa [countBinary] using hc)
          simp only [countBinary, this]
        · simp [h3]

theorem consumeEscapedChars_succ_hash (f : Nat) (r : Bytes) :
    consumeEscapedChars (f + 1) (0x23 :: r) =
      match consumeOneEscape r with
      | .inl n =>
        (match consumeEscapedChars f ((0x23 :: r).drop n) with
         | .cont m => .cont (n + m)
         | .stop m => .stop (n + m)
         | .unterminated m => .unterminated (n + m))
      | .inr n => .unterminated n := by
  rw [consumeEscapedChars]
  cases consumeOneEscape r with
  | inl n => simp only; cases consumeEscapedChars f ((0x23 :: r).drop n) <;> rfl
  | inr n => rfl

theorem shifted_n (n : Nat) (st : ParseState) :
    (match st with
     | .cont m => ParseState.cont (n + m)
     | .stop m => .stop (n + m)
     | .unterminated m => .unterminated (n + m)).n = n + st.n := by
  cases st <;> rfl

theorem consumeEscapedChars_pd : ∀ (f1 f2 : Nat) (x s s' : Bytes), (x ++ s).length < f1 → (x ++ s').length < f2 →
    (consumeEscapedChars f1 (x ++ s)).n + 1 ≤ x.length →
    consumeEscapedChars f2 (x ++ s') = consumeEscapedChars f1 (x ++ s)
  | 0, _, _, _, _, h1, _, _ => by simp at h1
  | _ + 1, 0, _, _, _, _, h2, _ => by simp at h2
  | f1 + 1, f2 + 1, x, s, s', h1, h2, h => by
    cases x with
    | nil => simp at h
    | cons b x =>
      simp only [List.cons_append] at *
      by_cases hb : b = 0x23
      · subst hb
        rw [consumeEscapedChars_succ_hash] at h ⊢
        rw [consumeEscapedChars_succ_hash]
        have hbnd := consumeOneEscape_bounds (x ++ s)
        cases he : consumeOneEscape (x ++ s) with
        | inl n =>
          rw [he] at h hbnd
          simp only [sumN] at hbnd
          simp only at h
          rw [shifted_n] at h
          have hn : n ≤ x.length := by simp at h; omega
          have he' := consumeOneEscape_pd x s s' (by rw [he]; simpa [sumN] using hn)
          rw [he', he]
          simp only
          have hd : ∀ t : Bytes, (0x23 :: (x ++ t)).drop n = ((0x23 :: x).drop n) ++ t := by
            intro t
            rw [← List.cons_append, List.drop_append_of_le_length (by simp; omega)]
          rw [hd s, hd s'] at *
          have := consumeEscapedChars_pd f1 f2 ((0x23 :: x).drop n) s s'
            (by simp only [List.length_append, List.length_drop, List.length_cons] at h1 ⊢; omega)
            (by simp only [List.length_append, List.length_drop, List.length_cons] at h2 ⊢; omega)
            (by simp only [List.length_drop, List.length_cons] at h ⊢; omega)
          rw [this]
        | inr n =>
          rw [he] at h
          simp only [ParseState.n] at h
          have he' := consumeOneEscape_pd x s s' (by rw [he]; simp [sumN] at h ⊢; omega)
          rw [he', he]
      · rw [consumeEscapedChars_nohash _ _ (by intro r hr; simp only [List.cons.injEq] at hr; exact hb hr.1),
            consumeEscapedChars_nohash _ _ (by intro r hr; simp only [List.cons.injEq] at hr; exact hb hr.1)]

theorem tll_succ (f : Nat) (l : Bytes) : textLiteralLoop (f + 1) l =
    match consumeEscapedChars (l.length + 1) l with
    | .unterminated n => (n, .tUnterminated)
    | .stop n => (n, .tSingleLine)
    | .cont n =>
      match consumePascalStr (l.drop n) with
      | .unterminated m => (n + m, .tUnterminated)
      | .stop m => (n + m, .tSingleLine)
      | .cont m => (n + m + (textLiteralLoop f ((l.drop n).drop m)).1, (textLiteralLoop f ((l.drop n).drop m)).2) := by
  rw [textLiteralLoop]
  cases consumeEscapedChars (l.length + 1) l with
  | unterminated n => rfl
  | stop n => rfl
  | cont n => simp only; cases consumePascalStr (l.drop n) <;> rfl

theorem textLiteralLoop_pd : ∀ (f1 f2 : Nat) (x s s' : Bytes), (x ++ s).length < f1 → (x ++ s').length < f2 →
    (textLiteralLoop f1 (x ++ s)).1 + 2 ≤ x.length →
    textLiteralLoop f2 (x ++ s') = textLiteralLoop f1 (x ++ s)
  | 0, _, _, _, _, h1, _, _ => by simp at h1
  | _ + 1, 0, _, _, _, _, h2, _ => by simp at h2
  | f1 + 1, f2 + 1, x, s, s', h1, h2, h => by
    rw [tll_succ] at h ⊢
    rw [tll_succ]
    have hEle := consumeEscapedChars_le ((x ++ s).length + 1) (x ++ s)
    cases hE : consumeEscapedChars ((x ++ s).length + 1) (x ++ s) with
    | unterminated n =>
      rw [hE] at h; simp only at h
      have := consumeEscapedChars_pd ((x ++ s).length + 1) ((x ++ s').length + 1) x s s' (by omega) (by omega)
        (by rw [hE]; simp only [ParseState.n]; omega)
      rw [this, hE]
    | stop n =>
      rw [hE] at h; simp only at h
      have := consumeEscapedChars_pd ((x ++ s).length + 1) ((x ++ s').length + 1) x s s' (by omega) (by omega)
        (by rw [hE]; simp only [ParseState.n]; omega)
      rw [this, hE]
    | cont n =>
      rw [hE] at h hEle; simp only at h
      simp only [ParseState.n] at hEle
      have hPle := consumePascalStr_le ((x ++ s).drop n)
      have hn : n + 2 ≤ x.length := by
        cases hP : consumePascalStr ((x ++ s).drop n) <;> rw [hP] at h <;> simp only at h <;> omega
      have := consumeEscapedChars_pd ((x ++ s).length + 1) ((x ++ s').length + 1) x s s' (by omega) (by omega)
        (by rw [hE]; simp only [ParseState.n]; omega)
      rw [this, hE]
      simp only
      have hd : ∀ t : Bytes, (x ++ t).drop n = x.drop n ++ t := fun t => List.drop_append_of_le_length (by omega)
      rw [hd s, hd s'] at *
      cases hP : consumePascalStr (x.drop n ++ s) with
      | unterminated m =>
        rw [hP] at h; simp only at h
        have := consumePascalStr_pd (x.drop n) s s' (by rw [hP]; simp only [ParseState.n, List.length_drop]; omega)
        rw [this, hP]
      | stop m =>
        rw [hP] at h; simp only at h
        have := consumePascalStr_pd (x.drop n) s s' (by rw [hP]; simp only [ParseState.n, List.length_drop]; omega)
        rw [this, hP]
      | cont m =>
        rw [hP] at h hPle; simp only at h
        simp only [ParseState.n, List.length_append, List.length_drop] at hPle
        have := consumePascalStr_pd (x.drop n) s s' (by rw [hP]; simp only [ParseState.n, List.length_drop]; omega)
        rw [this, hP]
        simp only
        have hm : m ≤ (x.drop n).length := by simp only [List.length_drop]; omega
        have hd2 : ∀ t : Bytes, (x.drop n ++ t).drop m = (x.drop n).drop m ++ t := fun t => List.drop_append_of_le_length hm
        rw [hd2 s, hd2 s'] at *
        have hm1 : 1 ≤ m := by
          -- a continued quoted part consumed at least its two quotes
          cases hx : x.drop n with
          | nil => have hl := congrArg List.length hx; simp only [List.length_drop, List.length_nil] at hl; omega
          | cons c t =>
            rw [hx] at hP
            by_cases hc : c = 0x27
            · subst hc
              have := consumePascalStr_pos (t ++ s)
              simp only [List.cons_append] at hP
              rw [hP] at this; simpa [ParseState.n] using this
            · simp only [List.cons_append] at hP
              rw [consumePascalStr_cons_ne c _ hc] at hP; cases hP
        have := textLiteralLoop_pd f1 f2 ((x.drop n).drop m) s s'
          (by simp only [List.length_append, List.length_drop] at h1 ⊢; omega)
          (by simp only [List.length_append, List.length_drop] at h2 ⊢; omega)
          (by simp only [List.length_drop]; omega)
        rw [this]

end Pasfmt
