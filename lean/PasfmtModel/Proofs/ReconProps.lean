import PasfmtModel.Model.Recon
import PasfmtModel.Model.Rules

namespace Pasfmt

/-! ### C07: verbatim runs -/

/-- original text of a run of tokens -/
def verbatimText (run : FT) : Bytes := run.flatMap (fun t => t.tok.ws ++ t.tok.content)

/-- the safety-net newline is not inserted in front of this ignored token -/
def noSafetyNet (mb : Bool) (t : FTok) : Bool :=
  !(mb && !containsByte 0x0A t.tok.ws && !(t.tok.kind == .tEof))

/-- no safety-net newline is inserted inside the run (`mb` = state when the run starts) -/
def safeRun : Bool → FT → Bool
  | _, [] => true
  | mb, t :: r => noSafetyNet mb t && safeRun (isSingleLineComment t.tok.kind) r

/-- `must_break` state after a prefix -/
def mbAfter : Bool → FT → Bool
  | mb, [] => mb
  | _, t :: r => mbAfter (isSingleLineComment t.tok.kind) r

theorem reconGo_append (S : Settings) (mb : Bool) (a b : FT) :
    reconGo S mb (a ++ b) = reconGo S mb a ++ reconGo S (mbAfter mb a) b := by
  induction a generalizing mb with
  | nil => simp [reconGo, mbAfter]
  | cons t r ih => simp [reconGo, mbAfter, ih, List.append_assoc]

theorem gapOf_ignored (S : Settings) (mb : Bool) (t : FTok) (hi : t.fmt.ignored = true)
    (hs : noSafetyNet mb t = true) : gapOf S t mb = t.tok.ws := by
  unfold gapOf
  simp only [hi, if_true]
  unfold noSafetyNet at hs
  have : (mb && !containsByte 0x0A t.tok.ws && !(t.tok.kind == .tEof)) = false := by
    cases h1 : (mb && !containsByte 0x0A t.tok.ws && !(t.tok.kind == .tEof))
    · rfl
    · rw [h1] at hs; simp at hs
  simp [this]

theorem reconGo_verbatim (S : Settings) (mb : Bool) (run : FT)
    (hi : ∀ t ∈ run, t.fmt.ignored = true) (hs : safeRun mb run = true) :
    reconGo S mb run = verbatimText run := by
  induction run generalizing mb with
  | nil => rfl
  | cons t r ih =>
    simp only [safeRun, Bool.and_eq_true] at hs
    rw [reconGo, gapOf_ignored S mb t (hi t (by simp)) hs.1, ih _ (fun x hx => hi x (by simp [hx])) hs.2]
    simp [verbatimText, List.append_assoc]

/-- every run of ignored tokens is emitted exactly as it was scanned (whitespace and text),
    contiguously, whatever the whitespace counters of any token are -/
theorem reconstruct_verbatim_run (S : Settings) (pre run post : FT)
    (hi : ∀ t ∈ run, t.fmt.ignored = true) (hs : safeRun (mbAfter false pre) run = true) :
    reconstruct S (pre ++ run ++ post) =
      reconGo S false pre ++ verbatimText run ++ reconGo S (mbAfter (mbAfter false pre) run) post := by
  unfold reconstruct
  rw [List.append_assoc, reconGo_append, reconGo_append, reconGo_verbatim S _ run hi hs, List.append_assoc]

/-- the guarded setter cannot change an ignored token -/
theorem setContent_ignored (t : FTok) (c : Bytes) (h : t.fmt.ignored = true) : t.setContent c = t := by
  unfold FTok.setContent; simp [h]

/-! ### C09: line endings -/

/-- replace every `\n` by `\r\n` -/
def crlfOf : Bytes → Bytes
  | [] => []
  | b :: r => if b == 0x0A then 0x0D :: 0x0A :: crlfOf r else b :: crlfOf r

theorem crlfOf_append (a b : Bytes) : crlfOf (a ++ b) = crlfOf a ++ crlfOf b := by
  induction a with
  | nil => rfl
  | cons x r ih =>
    simp only [List.cons_append, crlfOf]
    split <;> simp [ih]

theorem crlfOf_noNl (a : Bytes) (h : containsByte 0x0A a = false) : crlfOf a = a := by
  induction a with
  | nil => rfl
  | cons x r ih =>
    unfold containsByte at h
    simp only [List.any_cons, Bool.or_eq_false_iff] at h
    rw [crlfOf]
    simp only [h.1]
    rw [ih (by unfold containsByte; exact h.2)]
    simp

theorem crlfOf_replicate_nl (n : Nat) :
    crlfOf (replicateBytes n [0x0A]) = replicateBytes n [0x0D, 0x0A] := by
  induction n with
  | zero => rfl
  | succ k ih =>
    unfold replicateBytes at ih ⊢
    rw [List.replicate_succ, List.replicate_succ, List.flatten_cons, List.flatten_cons, crlfOf_append, ih]
    rfl

theorem crlfOf_replicateBytes_noNl (n : Nat) (s : Bytes) (h : containsByte 0x0A s = false) :
    crlfOf (replicateBytes n s) = replicateBytes n s := by
  induction n with
  | zero => rfl
  | succ k ih =>
    unfold replicateBytes at ih ⊢
    rw [List.replicate_succ, List.flatten_cons, crlfOf_append, ih, crlfOf_noNl s h]

/-- a token that is line-break free where it is emitted verbatim -/
def noNlTok (t : FTok) : Bool :=
  !containsByte 0x0A t.tok.content && (!t.fmt.ignored || !containsByte 0x0A t.tok.ws)

def lfSettings (ind cont : Bytes) : Settings := { nlStr := [0x0A], indStr := ind, contStr := cont }
def crlfSettings (ind cont : Bytes) : Settings := { nlStr := [0x0D, 0x0A], indStr := ind, contStr := cont }

theorem replicate_space_noNl (n : Nat) : containsByte 0x0A (List.replicate n (0x20 : UInt8)) = false := by
  unfold containsByte
  induction n with
  | zero => rfl
  | succ k ih => simp [List.replicate_succ, ih]

theorem gapOf_crlf (ind cont : Bytes) (hi : containsByte 0x0A ind = false) (hc : containsByte 0x0A cont = false)
    (t : FTok) (mb : Bool) (ht : noNlTok t = true) :
    gapOf (crlfSettings ind cont) t mb = crlfOf (gapOf (lfSettings ind cont) t mb) := by
  unfold noNlTok at ht
  simp only [Bool.and_eq_true, Bool.not_eq_true', Bool.or_eq_true] at ht
  unfold gapOf
  simp only [lfSettings, crlfSettings]
  split
  · rename_i hig
    have hws : containsByte 0x0A t.tok.ws = false := by
      rcases ht.2 with h | h
      · rw [hig] at h; simp at h
      · exact h
    rw [crlfOf_append, crlfOf_noNl _ hws]
    simp only [hws]
    split <;> simp [crlfOf]
  · rw [crlfOf_append, crlfOf_append, crlfOf_append, crlfOf_replicate_nl,
        crlfOf_replicateBytes_noNl _ _ hi, crlfOf_replicateBytes_noNl _ _ hc,
        crlfOf_noNl _ (replicate_space_noNl _)]

/-- for fixed counters, the crlf rendering is the lf rendering with each terminator substituted -/
theorem reconGo_crlf (ind cont : Bytes) (hi : containsByte 0x0A ind = false) (hc : containsByte 0x0A cont = false)
    (ft : FT) (mb : Bool) (h : ∀ t ∈ ft, noNlTok t = true) :
    reconGo (crlfSettings ind cont) mb ft = crlfOf (reconGo (lfSettings ind cont) mb ft) := by
  induction ft generalizing mb with
  | nil => rfl
  | cons t r ih =>
    have ht := h t (by simp)
    rw [reconGo, reconGo, crlfOf_append, crlfOf_append, gapOf_crlf ind cont hi hc t mb ht,
        ih _ (fun x hx => h x (by simp [hx]))]
    have : containsByte 0x0A t.tok.content = false := by
      unfold noNlTok at ht; simp only [Bool.and_eq_true, Bool.not_eq_true'] at ht; exact ht.1
    rw [crlfOf_noNl _ this]

/-- `FormattingData::from` counts `\n` only and trims `\r`: the counters of whitespace do not depend
    on whether its line breaks are `\n` or `\r\n` -/
theorem ofWs_nl_crlf (ws : Bytes) : countByte 0x0A (crlfOf ws) = countByte 0x0A ws := by
  induction ws with
  | nil => rfl
  | cons b r ih =>
    rw [crlfOf]
    split
    · rename_i hb
      simp only [countByte] at ih ⊢
      simp [List.filter_cons, hb, ih]
    · rename_i hb
      simp only [countByte] at ih ⊢
      simp [List.filter_cons, hb, ih]

/-! ### C10: tabs versus spaces -/

/-- replace every tab by `tw` spaces -/
def expandTabs (tw : Nat) : Bytes → Bytes
  | [] => []
  | b :: r => if b == 0x09 then List.replicate tw 0x20 ++ expandTabs tw r else b :: expandTabs tw r

theorem expandTabs_append (tw : Nat) (a b : Bytes) :
    expandTabs tw (a ++ b) = expandTabs tw a ++ expandTabs tw b := by
  induction a with
  | nil => rfl
  | cons x r ih =>
    simp only [List.cons_append, expandTabs]
    split <;> simp [ih]

theorem expandTabs_noTab (tw : Nat) (a : Bytes) (h : containsByte 0x09 a = false) : expandTabs tw a = a := by
  induction a with
  | nil => rfl
  | cons x r ih =>
    unfold containsByte at h
    simp only [List.any_cons, Bool.or_eq_false_iff] at h
    rw [expandTabs]
    simp only [h.1]
    rw [ih (by unfold containsByte; exact h.2)]
    simp

theorem expandTabs_tabs (tw n : Nat) :
    expandTabs tw (List.replicate n 0x09) = List.replicate (n * tw) 0x20 := by
  induction n with
  | zero => simp [expandTabs]
  | succ k ih =>
    rw [List.replicate_succ, expandTabs]
    simp only [beq_self_eq_true, if_true, ih]
    rw [List.replicate_append_replicate]; congr 1; rw [Nat.succ_mul]; omega

theorem replicateBytes_replicate (n m : Nat) (b : UInt8) :
    replicateBytes n (List.replicate m b) = List.replicate (n * m) b := by
  unfold replicateBytes
  induction n with
  | zero => simp
  | succ k ih =>
    rw [List.replicate_succ, List.flatten_cons, ih, List.replicate_append_replicate]; congr 1; rw [Nat.succ_mul]; omega

/-- a token without tabs where it is emitted verbatim -/
def noTabTok (t : FTok) : Bool :=
  !containsByte 0x09 t.tok.content && (!t.fmt.ignored || !containsByte 0x09 t.tok.ws)

theorem settings_tabs (c : Config) (h : c.useTabs = true) :
    c.settings = { nlStr := if c.crlf then [0x0D, 0x0A] else [0x0A],
                   indStr := List.replicate 1 0x09, contStr := List.replicate c.contIndents 0x09 } := by
  unfold Config.settings; simp [h]

theorem settings_spaces (c : Config) (h : c.useTabs = false) :
    c.settings = { nlStr := if c.crlf then [0x0D, 0x0A] else [0x0A],
                   indStr := List.replicate c.tabWidth 0x20,
                   contStr := List.replicate (satMulU8 c.contIndents c.tabWidth) 0x20 } := by
  unfold Config.settings; simp [h]

theorem nl_noTab (crlf : Bool) : containsByte 0x09 (if crlf then [0x0D, 0x0A] else [0x0A] : Bytes) = false := by
  cases crlf <;> decide

theorem replicate_noTab (n : Nat) (b : UInt8) (hb : b ≠ 0x09) : containsByte 0x09 (List.replicate n b) = false := by
  unfold containsByte
  induction n with
  | zero => rfl
  | succ k ih => simp [List.replicate_succ, ih, hb]

theorem replicateBytes_noTab (n : Nat) (s : Bytes) (h : containsByte 0x09 s = false) :
    containsByte 0x09 (replicateBytes n s) = false := by
  unfold replicateBytes containsByte at *
  induction n with
  | zero => rfl
  | succ k ih => simp [List.replicate_succ, h, ih]

/-- for fixed counters and `continuation_indents * tab_width ≤ 255`, expanding the tabs of the
    `use_tabs = true` rendering gives the `use_tabs = false` rendering -/
theorem reconGo_tabs_to_spaces (c : Config) (hsat : c.contIndents * c.tabWidth ≤ 255)
    (ft : FT) (mb : Bool) (h : ∀ t ∈ ft, noTabTok t = true) :
    expandTabs c.tabWidth (reconGo ({ c with useTabs := true }).settings mb ft)
      = reconGo ({ c with useTabs := false }).settings mb ft := by
  rw [settings_tabs _ rfl, settings_spaces _ rfl]
  simp only
  have hsatm : satMulU8 c.contIndents c.tabWidth = c.contIndents * c.tabWidth := by
    unfold satMulU8; omega
  induction ft generalizing mb with
  | nil => rfl
  | cons t r ih =>
    have ht := h t (by simp)
    unfold noTabTok at ht
    simp only [Bool.and_eq_true, Bool.not_eq_true', Bool.or_eq_true] at ht
    rw [reconGo, reconGo, expandTabs_append, expandTabs_append, ih _ (fun x hx => h x (by simp [hx])),
        expandTabs_noTab _ _ ht.1]
    congr 2
    unfold gapOf
    simp only
    split
    · rename_i hig
      have hws : containsByte 0x09 t.tok.ws = false := by
        rcases ht.2 with h' | h'
        · rw [hig] at h'; simp at h'
        · exact h'
      rw [expandTabs_append, expandTabs_noTab _ _ hws]
      congr 1
      split
      · exact expandTabs_noTab _ _ (nl_noTab _)
      · rfl
    · rw [expandTabs_append, expandTabs_append, expandTabs_append,
          expandTabs_noTab _ _ (replicateBytes_noTab _ _ (nl_noTab _)),
          expandTabs_noTab _ _ (replicate_noTab _ _ (by decide)),
          replicateBytes_replicate, replicateBytes_replicate, replicateBytes_replicate, replicateBytes_replicate,
          expandTabs_tabs, expandTabs_tabs, hsatm]
      simp [Nat.mul_assoc]

end Pasfmt

namespace Pasfmt
theorem replicate_noNl (n : Nat) (b : UInt8) (hb : b ≠ 0x0A) : containsByte 0x0A (List.replicate n b) = false := by
  unfold containsByte
  induction n with
  | zero => rfl
  | succ k ih => simp [List.replicate_succ, ih, hb]
end Pasfmt

namespace Pasfmt
theorem replicate_noByte (x : UInt8) (n : Nat) (b : UInt8) (hb : b ≠ x) : containsByte x (List.replicate n b) = false := by
  unfold containsByte
  induction n with
  | zero => rfl
  | succ k ih => simp [List.replicate_succ, ih, hb]

theorem containsByte_append (x : UInt8) (a b : Bytes) :
    containsByte x (a ++ b) = (containsByte x a || containsByte x b) := by
  unfold containsByte; simp

theorem replicateBytes_noByte (x : UInt8) (n : Nat) (s : Bytes) (h : containsByte x s = false) :
    containsByte x (replicateBytes n s) = false := by
  unfold replicateBytes
  induction n with
  | zero => rfl
  | succ k ih => rw [List.replicate_succ, List.flatten_cons, containsByte_append, h, ih]; rfl

/-- the indentation strings contain neither `\n` nor `\r` -/
theorem settings_indent_noBreak (c : Config) (x : UInt8) (hx : x = 0x0A ∨ x = 0x0D) :
    containsByte x c.settings.indStr = false ∧ containsByte x c.settings.contStr = false := by
  unfold Config.settings
  simp only
  split
  · constructor <;> apply replicate_noByte <;> rcases hx with rfl | rfl <;> decide
  · constructor <;> apply replicate_noByte <;> rcases hx with rfl | rfl <;> decide
end Pasfmt
